/-
  C11 (binding part) — `require` binds exactly the requested names.

  `evalRequire` is the composition of four stages (`Lemmas/C11BindDefs`, `evalRequire_eq`):
  resolve the module specification, refuse circular loads, push / look up or load / pop
  (`loadPop`), and a binding tail that is a pure function on states (`bindS`: `bindPlainS`,
  `bindImportS`, `bindUnqS`).  `RequireRun` records what a successful `require` went through;
  the theorems below say what each binding tail writes — and that it writes nothing else —,
  in which scope a module's code runs, that a failed `require` never reaches the binding tail,
  and that all importers get the one cached module frame.

  Two invariants of the whole evaluator are used: `FExt` (frames are never dropped or
  re-parented, no frame gets a key twice, the heap does not shrink — `Lemmas/C11BindF*`, proved
  here for every function of the mutual block and for every outcome) and `C11.RMod` (the module
  cache only grows — `Proofs/C11`).
-/
import CklVerif.Lemmas.C11BindScope
import CklVerif.Proofs.C11
namespace Ckl.C11B
open Ckl Ckl.C05 Ckl.C03

/-! ### the evaluator only extends the state -/

/-- **frames are never dropped, re-parented or given a key twice, the heap never shrinks** —
    for every function of the evaluator (`AllF` has one field per function of the mutual block)
    and for EVERY outcome, including out-of-fuel and unsupported -/
theorem frames_extend {ld : Loader} (hN : NativeKeepsFrames ld) (fuel : Nat) : AllF ld fuel := allF hN fuel

theorem eval_extends {ld : Loader} (hN : NativeKeepsFrames ld) {fuel env n s} :
    FExt s (endState (eval ld fuel env n s)) := eval_fext hN fuel env n s

example : NativeKeepsFrames {} := default_nativeSem_keeps_frames

/-! ### what a successful `require` went through -/

/-- the stages of a successful `require`: `ms` the resolved module specification, `s1` the state
    after resolving it, `menv` the module frame, `s2` the state in which the binding tail runs -/
structure RequireRun (ld : Loader) (fuel : Nat) (env : EnvId) (spec : Node) (name : Option String)
    (unq : Bool) (syms : Option (List (String × String))) (pos : Pos) (s s' : State)
    (ms : String) (s1 : State) (menv : EnvId) (s2 : State) : Prop where
  resolved : resolveSpec ld fuel env spec pos s = .ok ms s1
  notCircular : s1.modstack.contains (identOf ms) = false
  loadPop : loadPop ld fuel env (identOf ms) (fileOf ms) pos s1 = .ok menv s2
  loaded : Loaded ld fuel env (identOf ms) (fileOf ms) s1 menv s2
  bound : s' = bindS env menv (boundName ms name) unq syms s2

/-- **inversion.**  A `require` that succeeds returns NULL and went through the four stages. -/
theorem require_ok_inv {ld : Loader} {fuel' : Nat} {env : EnvId} {spec : Node} {name : Option String}
    {unq : Bool} {syms : Option (List (String × String))} {pos : Pos} {s s' : State} {v : RVal}
    (h : eval ld fuel' env (.require spec name unq syms pos) s = .ok v s') :
    v = .null ∧ ∃ fuel ms s1 menv s2, fuel' = fuel + 2 ∧
      RequireRun ld fuel env spec name unq syms pos s s' ms s1 menv s2 := by
  match fuel', h with
  | 0, h => simp [Ckl.eval, failM] at h
  | 1, h => rw [eval_require_eq] at h; simp [Ckl.evalRequire, failM] at h
  | fuel + 2, h =>
    rw [eval_require_eq, evalRequire_eq, bind_def] at h
    cases hr : resolveSpec ld fuel env spec pos s with
    | ok ms s1 =>
      rw [hr] at h
      obtain ⟨hv, hc, menv, s2, hl, hb⟩ := requireTail_ok_inv h
      exact ⟨hv, fuel, ms, s1, menv, s2, rfl, ⟨hr, hc, hl, loadPop_ok_inv hl, hb⟩⟩
    | err v' m p t s1 => rw [hr] at h; cases h
    | fail f s1 => rw [hr] at h; cases h

/-- when the specification is an identifier or a string literal, resolving it changes nothing -/
theorem RequireRun.spec_pure {ld fuel env spec name unq syms pos s s' ms s1 menv s2}
    (r : RequireRun ld fuel env spec name unq syms pos s s' ms s1 menv s2)
    (hs : (∃ n p, spec = .ident n p) ∨ (∃ t p, spec = .lit (.str t) p)) : s1 = s := by
  rcases hs with ⟨n, p, rfl⟩ | ⟨t, p, rfl⟩
  · exact (resolveSpec_ident r.resolved).1
  · have h := r.resolved
    cases fuel with
    | zero => simp [resolveSpec, Ckl.eval, failM, bind_def] at h
    | succ g => rw [resolveSpec_lit] at h; cases h; rfl

/-- every stage only extends the state: importer's frame and all other frames of `s` are still
    there when the binding tail runs, with their parents -/
theorem RequireRun.extends {ld fuel env spec name unq syms pos s s' ms s1 menv s2}
    (hN : NativeKeepsFrames ld)
    (r : RequireRun ld fuel env spec name unq syms pos s s' ms s1 menv s2) :
    FExt s s1 ∧ FExt s1 s2 ∧ FExt s2 s' := by
  refine ⟨?_, ?_, ?_⟩
  · have := resolveSpec_fext hN fuel env spec pos s
    rw [r.resolved] at this; exact this
  · have := loadPop_fext hN fuel env (identOf ms) (fileOf ms) pos s1
    rw [r.loadPop] at this; exact this
  · rw [r.bound]; exact bindS_fext _ _ _ _ _ _

theorem RequireRun.env_lt {ld fuel env spec name unq syms pos s s' ms s1 menv s2}
    (hN : NativeKeepsFrames ld)
    (r : RequireRun ld fuel env spec name unq syms pos s s' ms s1 menv s2)
    (henv : env < s.frames.size) : env < s2.frames.size := by
  obtain ⟨h1, h2, _⟩ := r.extends hN
  exact Nat.lt_of_lt_of_le henv (Nat.le_trans h1.size h2.size)

/-- a cache hit evaluates nothing: the binding tail runs in the state the resolution left -/
theorem RequireRun.cached {ld fuel env spec name unq syms pos s s' ms s1 menv s2}
    (r : RequireRun ld fuel env spec name unq syms pos s s' ms s1 menv s2) {e : EnvId}
    (hc : s1.modules.lookup (identOf ms) = some e) : menv = e ∧ s2 = s1 := by
  cases r.loaded with
  | cached h1 h2 => rw [hc] at h1; cases h1; exact ⟨rfl, h2⟩
  | fresh g ast v s3 _ h1 => rw [hc] at h1; cases h1

/-- a cache miss: the module AST is evaluated — successfully — in `moduleStart`, in the new
    frame `menv = s1.frames.size`; the binding tail sees that evaluation's final state (plus the
    registration in the module cache, load stack popped) -/
theorem RequireRun.fresh {ld fuel env spec name unq syms pos s s' ms s1 menv s2}
    (r : RequireRun ld fuel env spec name unq syms pos s s' ms s1 menv s2)
    (hc : s1.modules.lookup (identOf ms) = none) :
    menv = s1.frames.size ∧ ∃ g ast v s3, fuel = g + 1 ∧ ld.find (fileOf ms) = some (.ok ast) ∧
      eval ld g menv ast (moduleStart s1 env (identOf ms)) = .ok v s3 ∧
      s2 = popS (registerS s3 (identOf ms) menv) ∧
      (∀ e, s2.frame e = s3.frame e) ∧ s2.frames.size = s3.frames.size ∧ s2.heap = s3.heap ∧
      s2.modules = s3.modules ++ [(identOf ms, menv)] ∧ s2.modstack = s3.modstack.dropLast := by
  cases r.loaded with
  | cached h1 h2 => rw [hc] at h1; cases h1
  | fresh g ast v s3 hf _ hfind hm he h2 =>
    subst h2
    exact ⟨hm, g, ast, v, s3, hf, hfind, he, rfl, fun _ => rfl, rfl, rfl, rfl, rfl⟩

/-! ### 1. the plain form binds exactly one name -/

/-- the plain form is chosen when `unqualified` is off and the symbol list is absent or EMPTY -/
theorem bindS_plain {env menv : EnvId} {nm : String} {syms : Option (List (String × String))}
    (hsy : syms = none ∨ syms = some []) (s : State) :
    bindS env menv nm false syms s = bindPlainS env menv nm s := by
  rcases hsy with rfl | rfl <;> rfl

/-- **`require M` / `require M as X` binds exactly one name.**  If the plain form succeeds from
    `s` in the existing frame `env`, then — with `s2` the state in which the binding tail runs
    (`s2 = s` on a cache hit with an identifier / literal specification, see
    `require_plain_cached_exact`; on a miss the final state of the module's own top-level code,
    `RequireRun.fresh`) — in the result `s'`:
    * frame `env` is frame `env` of `s2` with ONE `dictPut`: the module's name (the alias of
      `as`) bound to a reference to the newly allocated cell `s2.heap.size`;
    * every other frame is as in `s2`; the heap is `s2.heap` plus that one cell, a module object
      (`isModule = true`) with members `moduleMembers s2 menv`;
    * module cache, load stack, output, counters are as in `s2`. -/
theorem require_plain_binds_exactly {ld : Loader} (hN : NativeKeepsFrames ld)
    {fuel' : Nat} {env : EnvId} {spec : Node} {name : Option String}
    {syms : Option (List (String × String))} {pos : Pos} {s s' : State} {v : RVal}
    (hsy : syms = none ∨ syms = some []) (henv : env < s.frames.size)
    (h : eval ld fuel' env (.require spec name false syms pos) s = .ok v s') :
    v = .null ∧ ∃ fuel ms s1 menv s2, fuel' = fuel + 2 ∧
      RequireRun ld fuel env spec name false syms pos s s' ms s1 menv s2 ∧
      s'.frame env = { s2.frame env with
        vars := dictPut (boundName ms name) (.ref s2.heap.size) (s2.frame env).vars } ∧
      (∀ e, e ≠ env → s'.frame e = s2.frame e) ∧
      s'.heap = s2.heap.push (.obj (moduleMembers s2 menv) true) ∧
      s'.cell s2.heap.size = some (.obj (moduleMembers s2 menv) true) ∧
      isModuleObj s' (.ref s2.heap.size) = true ∧
      s'.frames.size = s2.frames.size ∧ s'.modules = s2.modules ∧ s'.modstack = s2.modstack ∧
      s'.out = s2.out ∧ s'.nextInst = s2.nextInst ∧ s'.secure = s2.secure ∧ s'.ghost = s2.ghost := by
  obtain ⟨hv, fuel, ms, s1, menv, s2, hf, r⟩ := require_ok_inv h
  have hlt := r.env_lt hN henv
  have hb : s' = bindPlainS env menv (boundName ms name) s2 := by rw [r.bound, bindS_plain hsy]
  have hcell : s'.cell s2.heap.size = some (.obj (moduleMembers s2 menv) true) := by
    rw [hb, bindPlainS_eq]; simp [State.cell]
  refine ⟨hv, fuel, ms, s1, menv, s2, hf, r, ?_, ?_, ?_, hcell, ?_, ?_, ?_, ?_, ?_, ?_, ?_, ?_⟩
  · rw [hb]; exact frame_put_same _ _ _ hlt
  · intro e he; rw [hb]; exact frame_put_other _ _ _ he
  · rw [hb]; rfl
  · simp only [isModuleObj, hcell]
  · rw [hb]; exact frames_size_put _ _ _ _
  all_goals (rw [hb]; rfl)

/-- … hence in frame `env` the bound name reads the module object and every OTHER name reads
    what it read before the binding tail -/
theorem require_plain_names {ld : Loader} (hN : NativeKeepsFrames ld)
    {fuel env spec name syms pos s s' ms s1 menv s2}
    (hsy : syms = none ∨ syms = some []) (henv : env < s.frames.size)
    (r : RequireRun ld fuel env spec name false syms pos s s' ms s1 menv s2) :
    s'.lookup env (boundName ms name) = some (.ref s2.heap.size) ∧
    (∀ x, x ≠ boundName ms name → dictGet x (s'.frame env).vars = dictGet x (s2.frame env).vars) ∧
    (s'.frame env).vars.map (·.1) =
      (if dictHas (boundName ms name) (s2.frame env).vars then (s2.frame env).vars.map (·.1)
       else (s2.frame env).vars.map (·.1) ++ [boundName ms name]) := by
  have hlt := r.env_lt hN henv
  have hb : s' = bindPlainS env menv (boundName ms name) s2 := by rw [r.bound, bindS_plain hsy]
  have hvars : (s'.frame env).vars = dictPut (boundName ms name) (.ref s2.heap.size) (s2.frame env).vars := by
    rw [hb]; exact vars_put_same _ _ _ hlt
  refine ⟨?_, ?_, ?_⟩
  · exact lookup_of_local (by rw [hvars]; exact dictGet_dictPut_same _ _ _)
  · intro x hx; rw [hvars]; exact dictGet_dictPut_other (Ne.symm hx) _ _
  · rw [hvars]
    by_cases hh : dictHas (boundName ms name) (s2.frame env).vars = true
    · rw [if_pos hh]; exact keys_dictPut_of_has _ _ _ hh
    · rw [if_neg hh, dictPut_of_not_has _ _ _ (by simpa using hh)]; simp

/-- **cache hit, identifier / literal specification: the exact result state.**  Nothing but the
    one binding and the one new heap cell: `s'` is `s` with `dictPut name (ref |heap|)` applied
    to frame `env` and the module object pushed on the heap; every other frame of `s`, the
    module cache, the load stack, the output and all counters are untouched. -/
theorem require_plain_cached_exact {ld : Loader}
    {fuel env spec name syms pos s s' ms s1 menv s2} {e : EnvId}
    (hsy : syms = none ∨ syms = some [])
    (hs : (∃ n p, spec = .ident n p) ∨ (∃ t p, spec = .lit (.str t) p))
    (r : RequireRun ld fuel env spec name false syms pos s s' ms s1 menv s2)
    (hc : s.modules.lookup (identOf ms) = some e) :
    menv = e ∧ s' = { s.put env (boundName ms name) (.ref s.heap.size) with
                        heap := s.heap.push (.obj (moduleMembers s e) true) } := by
  have h1 := r.spec_pure hs
  subst h1
  obtain ⟨hm, h2⟩ := r.cached hc
  subst hm; subst h2
  exact ⟨rfl, by rw [r.bound, bindS_plain hsy, bindPlainS_eq]⟩

/-- **cache miss, identifier / literal specification: the exact result state.**  The module
    AST found by the loader is evaluated — in the NEW frame `s.frames.size`, whose parent is the
    base frame, with the module on the load stack (`moduleStart`) — to some state `s3`; the
    result `s'` is `s3` with the module registered in the cache, the load stack popped, the
    module object pushed on the heap and the ONE binding written into frame `env`.  So whatever
    else differs between `s` and `s'` was done by the module's own top-level code. -/
theorem require_plain_loaded_exact {ld : Loader}
    {fuel env spec name syms pos s s' ms s1 menv s2}
    (hsy : syms = none ∨ syms = some [])
    (hs : (∃ n p, spec = .ident n p) ∨ (∃ t p, spec = .lit (.str t) p))
    (r : RequireRun ld fuel env spec name false syms pos s s' ms s1 menv s2)
    (hc : s.modules.lookup (identOf ms) = none) :
    menv = s.frames.size ∧ ∃ g ast v s3, fuel = g + 1 ∧ ld.find (fileOf ms) = some (.ok ast) ∧
      eval ld g s.frames.size ast (moduleStart s env (identOf ms)) = .ok v s3 ∧
      s' = bindPlainS env s.frames.size (boundName ms name)
            (popS (registerS s3 (identOf ms) s.frames.size)) := by
  have h1 := r.spec_pure hs
  subst h1
  obtain ⟨hm, g, ast, v, s3, hf, hfind, he, h2, _⟩ := r.fresh hc
  subst hm; subst h2
  exact ⟨rfl, g, ast, v, s3, hf, hfind, he, by rw [r.bound, bindS_plain hsy]⟩

/-! ### 2. the members of the module object -/

/-- **members of the module object**, read as a dict: under every name `n` exactly what the
    module frame exports — the frame's OWN binding of `n` (no parent frame is consulted), unless
    `n` starts with `_` (private) or the value is itself a module object (no re-export) -/
theorem module_object_members (s : State) (menv : EnvId) (n : String) :
    dictGet n (moduleMembers s menv) =
      (dictGet n (s.frame menv).vars).bind (fun v =>
        if n.startsWith "_" || isModuleObj s v then none else some v) :=
  dictGet_moduleMembers s menv n

theorem module_object_member_iff (s : State) (menv : EnvId) (n : String) (v : RVal) :
    dictGet n (moduleMembers s menv) = some v ↔
      dictGet n (s.frame menv).vars = some v ∧ n.startsWith "_" = false ∧ isModuleObj s v = false := by
  rw [dictGet_moduleMembers]; exact exportOf_some

/-- private names are never members -/
theorem module_object_no_private (s : State) (menv : EnvId) (n : String) (h : n.startsWith "_" = true) :
    dictGet n (moduleMembers s menv) = none := by
  rw [module_object_members]
  cases dictGet n (s.frame menv).vars <;> simp [h]

/-- the member dict has no key twice; and when the module frame has no key twice (always, for
    states the evaluator builds: `FExt.nodup`) it is LITERALLY the module frame's bindings in
    definition order minus private names and module objects -/
theorem module_object_members_list (s : State) (menv : EnvId) :
    ((moduleMembers s menv).map (·.1)).Nodup ∧
    (KeysNodup (s.frame menv) → moduleMembers s menv =
      (s.frame menv).vars.filter (fun kv => !kv.1.startsWith "_" && !isModuleObj s kv.2)) :=
  ⟨moduleMembers_nodup s menv, moduleMembers_eq_filter s menv⟩

/-- the hypothesis of the list form holds at binding time when it held for all frames at the start -/
theorem RequireRun.module_frame_nodup {ld fuel env spec name unq syms pos s s' ms s1 menv s2}
    (hN : NativeKeepsFrames ld)
    (r : RequireRun ld fuel env spec name unq syms pos s s' ms s1 menv s2)
    (h : ∀ e, KeysNodup (s.frame e)) : KeysNodup (s2.frame menv) := by
  obtain ⟨h1, h2, _⟩ := r.extends hN
  exact h2.nodup menv (h1.nodup menv (h menv))

/-! ### 3. `require M import [a, b as c]` -/

/-- **the import form binds exactly the requested names.**  With `table` the non-empty list of
    pairs `(name in the module, name to bind)`: the result is `s2` with a run of `put`s into
    frame `env` — one for every PUBLIC symbol `n` the module frame defines (in the module's
    definition order) that the table mentions, writing the module's value of `n` under
    `table.lookup n`.  Nothing else changes: other frames, heap, cache, stack, counters.
    Reading frame `env` afterwards: the last of these writes under the name, else the old
    binding. -/
theorem require_import_binds_exactly {ld : Loader} (hN : NativeKeepsFrames ld)
    {fuel' : Nat} {env : EnvId} {spec : Node} {name : Option String}
    {sy : String × String} {sys : List (String × String)} {pos : Pos} {s s' : State} {v : RVal}
    (henv : env < s.frames.size)
    (h : eval ld fuel' env (.require spec name false (some (sy :: sys)) pos) s = .ok v s') :
    v = .null ∧ ∃ fuel ms s1 menv s2, fuel' = fuel + 2 ∧
      RequireRun ld fuel env spec name false (some (sy :: sys)) pos s s' ms s1 menv s2 ∧
      s' = putAll env (importPuts s2 menv (sy :: sys)) s2 ∧
      SameButFrames s2 s' ∧
      (∀ e, e ≠ env → s'.frame e = s2.frame e) ∧
      (s'.frame env).parent = (s2.frame env).parent ∧
      (∀ y, dictGet y (s'.frame env).vars =
        (lastPut y (importPuts s2 menv (sy :: sys))).or (dictGet y (s2.frame env).vars)) := by
  obtain ⟨hv, fuel, ms, s1, menv, s2, hf, r⟩ := require_ok_inv h
  have hlt := r.env_lt hN henv
  have hb : s' = putAll env (importPuts s2 menv (sy :: sys)) s2 := by
    rw [r.bound]; exact bindImportS_eq _ _ _ _
  refine ⟨hv, fuel, ms, s1, menv, s2, hf, r, hb, ?_, ?_, ?_, ?_⟩
  · rw [hb]; exact putAll_same _ _ _
  · intro e he; rw [hb]; exact putAll_frame_other _ _ _ he
  · rw [hb]; exact putAll_parent _ _ _ _
  · intro y; rw [hb]; exact putAll_dictGet _ _ _ hlt y

/-- the writes of the import form are exactly: alias `table.lookup n` ↦ the module frame's own
    value of `n`, for the public symbols `n` of the module frame that the table mentions -/
theorem import_writes {s : State} {menv : EnvId} {table : List (String × String)} {y : String} {v : RVal} :
    (y, v) ∈ importPuts s menv table ↔
      ∃ n, dictGet n (s.frame menv).vars = some v ∧ n.startsWith "_" = false ∧
        table.lookup n = some y := by
  rw [mem_importPuts]
  constructor
  · rintro ⟨n, hn, hl, hv⟩
    obtain ⟨⟨w, hw⟩, hp⟩ := mem_publicSymbols.1 hn
    simp only at hv hl
    rw [valueOf_local hw] at hv
    exact ⟨n, by rw [hv]; exact hw, hp, hl⟩
  · rintro ⟨n, hw, hp, hl⟩
    exact ⟨n, mem_publicSymbols.2 ⟨⟨v, hw⟩, hp⟩, hl, (valueOf_local hw).symm⟩

/-- a name that no requested public symbol is bound under keeps its old binding (or absence) -/
theorem import_other_names_unchanged {env : EnvId} {s : State} {menv : EnvId}
    {table : List (String × String)} (henv : env < s.frames.size) {y : String}
    (hy : ∀ n v, dictGet n (s.frame menv).vars = some v → n.startsWith "_" = false →
      table.lookup n ≠ some y) :
    dictGet y ((putAll env (importPuts s menv table) s).frame env).vars = dictGet y (s.frame env).vars := by
  rw [putAll_dictGet _ _ _ henv]
  have : lastPut y (importPuts s menv table) = none := by
    refine lastPut_eq_none.2 ?_
    intro p hp hpy
    obtain ⟨n, hw, hpub, hl⟩ := import_writes.1 (show (p.1, p.2) ∈ _ from hp)
    exact hy n p.2 hw hpub (hpy ▸ hl)
  rw [this]; rfl

/-- in particular a name that is not among the aliases is untouched: only requested names are bound -/
theorem import_binds_only_aliases {env : EnvId} {s : State} {menv : EnvId}
    {table : List (String × String)} (henv : env < s.frames.size) {y : String}
    (hy : y ∉ table.map (·.2)) :
    dictGet y ((putAll env (importPuts s menv table) s).frame env).vars = dictGet y (s.frame env).vars := by
  refine import_other_names_unchanged henv ?_
  intro n v _ _ hl
  have hm : (n, y) ∈ table := by
    have := List.lookup_eq_some_iff.1 hl
    obtain ⟨l1, l2, h1, _⟩ := this
    rw [h1]; simp
  exact hy (List.mem_map.2 ⟨(n, y), hm, rfl⟩)

/-- a requested public symbol `n` (defined by the module frame, value `v`) is bound under its
    alias `y` to the module's value — provided no OTHER requested public symbol has the same
    alias (then the later one in the module's definition order would win) -/
theorem import_binds_requested {env : EnvId} {s : State} {menv : EnvId}
    {table : List (String × String)} (henv : env < s.frames.size) {n y : String} {v : RVal}
    (hv : dictGet n (s.frame menv).vars = some v) (hp : n.startsWith "_" = false)
    (hl : table.lookup n = some y)
    (huniq : ∀ n' v', dictGet n' (s.frame menv).vars = some v' → n'.startsWith "_" = false →
      table.lookup n' = some y → v' = v) :
    dictGet y ((putAll env (importPuts s menv table) s).frame env).vars = some v := by
  rw [putAll_dictGet _ _ _ henv]
  have : lastPut y (importPuts s menv table) = some v := by
    refine lastPut_of_unique ⟨(y, v), import_writes.2 ⟨n, hv, hp, hl⟩, rfl⟩ ?_
    intro p hp' hpy
    obtain ⟨n', hw, hpub, hl'⟩ := import_writes.1 (show (p.1, p.2) ∈ _ from hp')
    exact huniq n' p.2 hw hpub (hpy ▸ hl')
  rw [this]; rfl

/-- **requested names that are private (`_…`) or that the module does not define are silently
    skipped** — no error, nothing bound: if every requested name is of that kind, the binding
    tail is the identity -/
theorem import_private_or_undefined_skipped (env menv : EnvId) (table : List (String × String))
    (s : State)
    (h : ∀ p ∈ table, p.1.startsWith "_" = true ∨ dictGet p.1 (s.frame menv).vars = none) :
    bindImportS env menv table s = s := by
  have hnil : importPuts s menv table = [] := by
    unfold importPuts
    rw [List.filterMap_eq_nil_iff]
    intro n hn
    obtain ⟨⟨w, hw⟩, hp⟩ := mem_publicSymbols.1 hn
    cases hl : List.lookup n table with
    | none => rfl
    | some al =>
      obtain ⟨l1, l2, h1, _⟩ := List.lookup_eq_some_iff.1 hl
      have hm : (n, al) ∈ table := by rw [h1]; simp
      rcases h (n, al) hm with h2 | h2
      · simp only at h2; rw [hp] at h2; cases h2
      · simp only at h2; rw [hw] at h2; cases h2
  rw [bindImportS_eq, hnil]; rfl

/-! ### 4. `require M unqualified` -/

/-- **the unqualified form binds exactly the module's exports**: the result is `s2` with a run of
    `put`s into frame `env`, one per exported symbol (public, not a module object) with the
    module frame's value.  Reading frame `env` afterwards: the module's export under the name if
    there is one, else the old binding.  Nothing else changes. -/
theorem require_unqualified_binds_exactly {ld : Loader} (hN : NativeKeepsFrames ld)
    {fuel' : Nat} {env : EnvId} {spec : Node} {name : Option String}
    {syms : Option (List (String × String))} {pos : Pos} {s s' : State} {v : RVal}
    (henv : env < s.frames.size)
    (h : eval ld fuel' env (.require spec name true syms pos) s = .ok v s') :
    v = .null ∧ ∃ fuel ms s1 menv s2, fuel' = fuel + 2 ∧
      RequireRun ld fuel env spec name true syms pos s s' ms s1 menv s2 ∧
      SameButFrames s2 s' ∧
      (∀ e, e ≠ env → s'.frame e = s2.frame e) ∧
      (s'.frame env).parent = (s2.frame env).parent ∧
      (∀ y, dictGet y (s'.frame env).vars =
        ((dictGet y (s2.frame menv).vars).bind (fun v =>
            if y.startsWith "_" || isModuleObj s2 v then none else some v)).or
          (dictGet y (s2.frame env).vars)) := by
  obtain ⟨hv, fuel, ms, s1, menv, s2, hf, r⟩ := require_ok_inv h
  have hlt := r.env_lt hN henv
  have hb : s' = putAll env ((exportedSymbols s2 menv).map (fun n => (n, valueOf s2 menv n))) s2 := by
    rw [r.bound]; exact bindUnqS_eq _ _ _
  refine ⟨hv, fuel, ms, s1, menv, s2, hf, r, ?_, ?_, ?_, ?_⟩
  · rw [hb]; exact putAll_same _ _ _
  · intro e he; rw [hb]; exact putAll_frame_other _ _ _ he
  · rw [hb]; exact putAll_parent _ _ _ _
  · intro y
    rw [hb, putAll_dictGet _ _ _ hlt y, lastPut_map]
    have := exportOf_eq s2 menv y
    unfold exportOf at this
    rw [this]

/-- the unqualified form never binds a private name or a name the module frame does not define -/
theorem unqualified_skips {env menv : EnvId} {s : State} (henv : env < s.frames.size) {y : String}
    (h : y.startsWith "_" = true ∨ dictGet y (s.frame menv).vars = none) :
    dictGet y ((bindUnqS env menv s).frame env).vars = dictGet y (s.frame env).vars := by
  rw [bindUnqS_eq, putAll_dictGet _ _ _ henv y, lastPut_map]
  have : y ∉ exportedSymbols s menv := by
    rw [mem_exportedSymbols]
    rintro ⟨v, hv, hp, _⟩
    rcases h with h | h
    · rw [hp] at h; cases h
    · rw [hv] at h; cases h
  rw [if_neg this]; rfl

/-! ### 5. the scope of a module's code -/

/-- **a module's top-level code runs in a NEW frame whose parent is the BASE frame** — never
    the importer's frame.  `moduleStart s env ident` is the state in which `loadModule` starts
    evaluating the module AST (`Loaded.fresh`, `RequireRun.fresh`), in frame `s.frames.size`:
    that frame is empty and its parent is `s.base env`; all frames of `s` are as they were.
    In a well-formed state (parents have smaller ids) the base frame has no parent and is not
    above `env`; the new frame is not `env`, and the base frame is not `env` unless `env` itself
    is parentless (i.e. is the base frame). -/
theorem module_scope_isolated (s : State) (env : Nat) (ident : String) :
    (moduleStart s env ident).frame s.frames.size = { vars := [], parent := some (s.base env) } ∧
    (moduleStart s env ident).frames.size = s.frames.size + 1 ∧
    (∀ e, e < s.frames.size → (moduleStart s env ident).frame e = s.frame e) ∧
    (ParentsSmaller s → env < s.frames.size →
      (s.frame (s.base env)).parent = none ∧ s.base env ≤ env ∧ s.frames.size ≠ env ∧
      (∀ p, (s.frame env).parent = some p → s.base env ≠ env)) :=
  ⟨moduleStart_frame_new s env ident, moduleStart_size s env ident,
   fun _ h => moduleStart_frame_old s env ident h,
   fun wf henv => ⟨(base_spec wf henv).1, (base_spec wf henv).2, by omega,
     fun _ hp => base_ne_of_parent wf hp⟩⟩

/-- … and it stays that way: in every state `t` reached from there (`FExt`: by `frames_extend`
    every state during and after the module's evaluation) the module frame's parent is still the
    base frame and the base frame still has none, so an identifier lookup from module code
    reads the module frame and, failing that, the base frame — and nothing else -/
theorem module_lookup_two_frames {s t : State} {env : Nat} {ident : String}
    (wf : ParentsSmaller s) (henv : env < s.frames.size)
    (ht : FExt (moduleStart s env ident) t) (x : String) :
    (t.frame s.frames.size).parent = some (s.base env) ∧
    (t.frame (s.base env)).parent = none ∧
    t.lookup s.frames.size x =
      (dictGet x (t.frame s.frames.size).vars).or (dictGet x (t.frame (s.base env)).vars) := by
  obtain ⟨hb1, hb2⟩ := base_spec wf henv
  have h1 : (t.frame s.frames.size).parent = some (s.base env) := by
    rw [ht.parent _ (by rw [moduleStart_size]; omega), moduleStart_frame_new]
  have h2 : (t.frame (s.base env)).parent = none := by
    have hb3 : s.base env < s.frames.size := Nat.lt_of_le_of_lt hb2 henv
    rw [ht.parent _ (by rw [moduleStart_size]; exact Nat.lt_succ_of_lt hb3),
      moduleStart_frame_old _ _ _ hb3]
    exact hb1
  exact ⟨h1, h2, lookup_two_frames x h1 h2⟩

/-- in evaluator terms: after a `require` that loaded the module, at binding time the module
    frame's chain is still [module frame, base frame] -/
theorem RequireRun.module_chain {ld fuel} {env : Nat} {spec name unq syms pos s s' ms s1 menv s2}
    (hN : NativeKeepsFrames ld)
    (r : RequireRun ld fuel env spec name unq syms pos s s' ms s1 menv s2)
    (hc : s1.modules.lookup (identOf ms) = none) (wf : ParentsSmaller s1) (henv : env < s1.frames.size)
    (x : String) :
    menv = s1.frames.size ∧ menv ≠ env ∧
    (s2.frame menv).parent = some (s1.base env) ∧ (s2.frame (s1.base env)).parent = none ∧
    s2.lookup menv x = (dictGet x (s2.frame menv).vars).or (dictGet x (s2.frame (s1.base env)).vars) := by
  obtain ⟨hm, g, ast, v, s3, _, _, he, _, hfr, hsz, hhp, _, _⟩ := r.fresh hc
  have hext : FExt (moduleStart s1 env (identOf ms)) s3 := by
    have := eval_fext hN g menv ast (moduleStart s1 env (identOf ms))
    rw [he] at this; exact this
  have hext2 : FExt (moduleStart s1 env (identOf ms)) s2 :=
    ⟨by rw [hsz]; exact hext.size,
     fun e h => by rw [hfr]; exact hext.parent e h,
     fun e h => by rw [hfr]; exact hext.nodup e h,
     by rw [hhp]; exact hext.heap⟩
  subst hm
  obtain ⟨a, b, c⟩ := module_lookup_two_frames wf henv hext2 x
  exact ⟨rfl, Nat.ne_of_gt henv, a, b, c⟩

/-! ### 6. a failed `require` binds nothing -/

/-- **a `require` that raises never reaches the binding tail.**  The error state `s'` is the
    error state of one of the earlier stages — the specification expression raised; or the
    module is on the load stack (circular dependency); or the module is unknown (`s'` is the
    state after resolving the specification plus one fresh, empty frame); or the module's own
    top-level code raised (`s'` is that evaluation's error state, load stack popped) -/
theorem require_failure_binds_nothing {ld : Loader} {fuel' : Nat} {env : EnvId} {spec : Node}
    {name : Option String} {unq : Bool} {syms : Option (List (String × String))} {pos : Pos}
    {s s' : State} {v : RVal} {m : String} {p : Pos} {t : List (String × Pos)}
    (h : eval ld fuel' env (.require spec name unq syms pos) s = .err v m p t s') :
    ∃ fuel, fuel' = fuel + 2 ∧
      (resolveSpec ld fuel env spec pos s = .err v m p t s' ∨
       ∃ ms s1, resolveSpec ld fuel env spec pos s = .ok ms s1 ∧
         ((s1.modstack.contains (identOf ms) = true ∧ s' = s1) ∨
          (s1.modules.lookup (identOf ms) = none ∧ ld.find (fileOf ms) = none ∧
            s' = (s1.newEnv (s1.base env)).1) ∨
          (∃ g ast s3, fuel = g + 1 ∧ s1.modules.lookup (identOf ms) = none ∧
            ld.find (fileOf ms) = some (.ok ast) ∧
            eval ld g s1.frames.size ast (moduleStart s1 env (identOf ms)) = .err v m p t s3 ∧
            s' = popS s3))) := by
  match fuel', h with
  | 0, h => simp [Ckl.eval, failM] at h
  | 1, h => rw [eval_require_eq] at h; simp [Ckl.evalRequire, failM] at h
  | fuel + 2, h =>
    refine ⟨fuel, rfl, ?_⟩
    rw [eval_require_eq, evalRequire_eq, bind_def] at h
    cases hr : resolveSpec ld fuel env spec pos s with
    | ok ms s1 =>
      rw [hr] at h
      refine Or.inr ⟨ms, s1, rfl, ?_⟩
      rcases requireTail_err_inv h with ⟨hc, hs⟩ | ⟨_, hl⟩
      · exact Or.inl ⟨hc, hs⟩
      · obtain ⟨hnone, h2⟩ := loadPop_err_inv hl
        rcases h2 with ⟨hf, hs⟩ | ⟨g, ast, s3, hg, hf, he, hs⟩
        · exact Or.inr (Or.inl ⟨hnone, hf, hs⟩)
        · exact Or.inr (Or.inr ⟨g, ast, s3, hg, hnone, hf, he, hs⟩)
    | err v' m' p' t' s1 => rw [hr] at h; cases h; exact Or.inl rfl
    | fail f s1 => rw [hr] at h; cases h

theorem resolveSpec_lit_endState (ld : Loader) (fuel : Nat) (env : EnvId) (t : List Char) (p pos : Pos)
    (s : State) : endState (resolveSpec ld fuel env (.lit (.str t) p) pos s) = s := by
  cases fuel with
  | zero => simp [resolveSpec, Ckl.eval, failM, bind_def, endState]
  | succ g => rw [resolveSpec_lit]; rfl

theorem newEnv_vars (s : State) (b : EnvId) (e : Nat) :
    ((s.newEnv b).1.frame e).vars = (s.frame e).vars := by
  by_cases h1 : e < s.frames.size
  · rw [newEnv_frame_old s b h1]
  · by_cases h2 : e = s.frames.size
    · subst h2; rw [newEnv_frame_new, frame_of_ge s (Nat.le_refl _)]
    · rw [frame_of_ge _ (by rw [newEnv_frames_size]; omega), frame_of_ge s (by omega)]

/-- **the importer's frame — every frame — keeps its bindings when a `require` with an
    identifier / literal specification fails**, unless the failure was raised by the module's
    own top-level code; in that case `s'` has exactly the frames that evaluation left (what a
    module's code can reach is described by `module_scope_isolated`) -/
theorem require_failure_frames_unchanged {ld : Loader} {fuel' : Nat} {env : EnvId} {spec : Node}
    {name : Option String} {unq : Bool} {syms : Option (List (String × String))} {pos : Pos}
    {s s' : State} {v : RVal} {m : String} {p : Pos} {t : List (String × Pos)}
    (hs : (∃ n p, spec = .ident n p) ∨ (∃ t p, spec = .lit (.str t) p))
    (h : eval ld fuel' env (.require spec name unq syms pos) s = .err v m p t s') :
    ((∀ e : Nat, (s'.frame e).vars = (s.frame e).vars) ∧
      (∀ e : Nat, e < s.frames.size → s'.frame e = s.frame e) ∧ s'.heap = s.heap ∧
      s'.modules = s.modules ∧ s'.modstack = s.modstack) ∨
    (∃ g ast ms s3, s.modules.lookup (identOf ms) = none ∧ ld.find (fileOf ms) = some (.ok ast) ∧
      eval ld g s.frames.size ast (moduleStart s env (identOf ms)) = .err v m p t s3 ∧
      (∀ e, s'.frame e = s3.frame e) ∧ s'.heap = s3.heap ∧ s'.modules = s3.modules) := by
  obtain ⟨fuel, _, h1⟩ := require_failure_binds_nothing h
  have hpure : endState (resolveSpec ld fuel env spec pos s) = s := by
    rcases hs with ⟨n, p, rfl⟩ | ⟨t, p, rfl⟩
    · exact resolveSpec_ident_endState _ _ _ _ _ _ _
    · exact resolveSpec_lit_endState _ _ _ _ _ _ _
  rcases h1 with h1 | ⟨ms, s1, hr, h2⟩
  · rw [h1] at hpure
    have : s' = s := hpure
    subst this
    exact Or.inl ⟨fun _ => rfl, fun _ _ => rfl, rfl, rfl, rfl⟩
  · rw [hr] at hpure
    have : s1 = s := hpure
    subst this
    rcases h2 with ⟨_, hs'⟩ | ⟨_, _, hs'⟩ | ⟨g, ast, s3, _, hl, hf, he, hs'⟩
    · subst hs'; exact Or.inl ⟨fun _ => rfl, fun _ _ => rfl, rfl, rfl, rfl⟩
    · subst hs'
      exact Or.inl ⟨fun e => newEnv_vars _ _ e, fun e he => newEnv_frame_old _ _ he, rfl, rfl, rfl⟩
    · subst hs'
      exact Or.inr ⟨g, ast, ms, s3, hl, hf, he, fun _ => rfl, rfl, rfl⟩

/-! ### 7. all importers share the one instance -/

open Ckl.C11 in
/-- resolving the specification keeps the module cache (it evaluates at most an expression) -/
theorem resolveSpec_ok_rmod {ld : Loader} (hM : NativeKeepsModules ld) {fuel env spec pos s ms s1}
    (h : resolveSpec ld fuel env spec pos s = .ok ms s1) : RMod s s1 := by
  by_cases hi : ∃ n p, spec = Node.ident n p
  · obtain ⟨n, p, rfl⟩ := hi
    rw [(resolveSpec_ident h).1]; exact RMod.refl _
  · have h' : ∀ n p, spec = Node.ident n p → False := fun n p e => hi ⟨n, p, e⟩
    simp only [resolveSpec] at h
    rw [bind_def] at h
    cases he : eval ld fuel env spec s with
    | ok v s2 =>
      rw [he] at h
      have hs : s2 = s1 := by
        cases v <;> first | (cases h; done) | (cases h; rfl)
      subst hs
      exact (module_once hM fuel).eval env spec s s2 (by rw [he]; rfl)
    | err v m p t s2 => rw [he] at h; cases h
    | fail f s2 => rw [he] at h; cases h

open Ckl.C11 in
/-- after a successful `require` the module is cached under its identifier with the frame the
    binding tail read, and the whole `require` only added to the cache -/
theorem RequireRun.registered {ld : Loader} (hM : NativeKeepsModules ld)
    {fuel env spec name unq syms pos s s' ms s1 menv s2}
    (r : RequireRun ld fuel env spec name unq syms pos s s' ms s1 menv s2) :
    s'.modules.lookup (identOf ms) = some menv := by
  rw [r.bound, bindS_modules]
  cases r.loaded with
  | cached h1 h2 => rw [h2]; exact h1
  | fresh g ast v s3 hf hl hfind hm he h2 =>
    subst h2
    have hR : RMod (moduleStart s1 env (identOf ms)) s3 :=
      (module_once hM g).eval menv ast _ s3 (by rw [he]; rfl)
    have hnone : s3.modules.lookup (identOf ms) = none :=
      hR.2.2.2 (identOf ms) (by rw [moduleStart_modstack]; simp) hl
    exact lookup_add_self hnone

open Ckl.C11 in
/-- **shared instance.**  Two successful `require`s of the same module identifier — any forms,
    any importing frames — in one state lineage (`RMod sA' sB`: the second starts in a state
    reached from the first one's result by any evaluation, `C11.module_once`; reflexive and
    transitive) use the SAME module frame; the second one evaluates nothing (`u2 = t2`: its
    binding tail runs in the state its specification left) and the module stays cached. -/
theorem shared_instance {ld : Loader} (hM : NativeKeepsModules ld)
    {f1 env1 spec1 name1 unq1 syms1 pos1 sA sA' ms1 t1 menv1 u1}
    {f2 env2 spec2 name2 unq2 syms2 pos2 sB sB' ms2 t2 menv2 u2}
    (r1 : RequireRun ld f1 env1 spec1 name1 unq1 syms1 pos1 sA sA' ms1 t1 menv1 u1)
    (hmid : RMod sA' sB)
    (r2 : RequireRun ld f2 env2 spec2 name2 unq2 syms2 pos2 sB sB' ms2 t2 menv2 u2)
    (hid : identOf ms2 = identOf ms1) :
    menv2 = menv1 ∧ u2 = t2 ∧
    sA'.modules.lookup (identOf ms1) = some menv1 ∧ sB'.modules.lookup (identOf ms1) = some menv1 := by
  have hA := r1.registered hM
  have hB : sB.modules.lookup (identOf ms1) = some menv1 := hmid.2.2.1 _ _ hA
  have ht2 : t2.modules.lookup (identOf ms2) = some menv1 := by
    rw [hid]; exact (resolveSpec_ok_rmod hM r2.resolved).2.2.1 _ _ hB
  obtain ⟨hm, hu⟩ := r2.cached ht2
  refine ⟨hm, hu, hA, ?_⟩
  rw [← hid, ← hm]; exact r2.registered hM

open Ckl.C11 in
/-- the same with an arbitrary evaluation between the two `require`s -/
theorem shared_instance_eval {ld : Loader} (hM : NativeKeepsModules ld)
    {f1 env1 spec1 name1 unq1 syms1 pos1 sA sA' ms1 t1 menv1 u1}
    {f2 env2 spec2 name2 unq2 syms2 pos2 sB sB' ms2 t2 menv2 u2} {f env prog}
    (r1 : RequireRun ld f1 env1 spec1 name1 unq1 syms1 pos1 sA sA' ms1 t1 menv1 u1)
    (hmid : Ends (eval ld f env prog sA') sB)
    (r2 : RequireRun ld f2 env2 spec2 name2 unq2 syms2 pos2 sB sB' ms2 t2 menv2 u2)
    (hid : identOf ms2 = identOf ms1) : menv2 = menv1 ∧ u2 = t2 :=
  let h := shared_instance hM r1 ((module_once hM f).eval env prog sA' sB hmid) r2 hid
  ⟨h.1, h.2.1⟩

/-- **the module objects of two importers have the same function members**: a member is the
    module frame's binding at the time of the `require`; a function value is the ADDRESS of its
    closure cell, so as long as the module frame still binds `n` to the closure `a` (module
    code did not re-define it in between) both objects hold the very same closure `a` -/
theorem shared_function_members {u1 t2 : State} {menv : EnvId} {n : String} {a : Nat}
    (hp : n.startsWith "_" = false)
    (h1 : dictGet n (u1.frame menv).vars = some (.closure a))
    (h2 : dictGet n (t2.frame menv).vars = some (.closure a)) :
    dictGet n (moduleMembers u1 menv) = some (.closure a) ∧
    dictGet n (moduleMembers t2 menv) = some (.closure a) :=
  ⟨(module_object_member_iff _ _ _ _).2 ⟨h1, hp, rfl⟩, (module_object_member_iff _ _ _ _).2 ⟨h2, hp, rfl⟩⟩

/-! ### 8. non-vacuity: a concrete two-module loader

  `m.ckl`:  `require "n";  def f = fn(x) x;  def _x = 1;  def k = 5`      (public `f`, `k`; private
            `_x`; the nested module object `n`)
  `n.ckl`:  `def y = 2`
  The importer is the session frame 1 (parent: the base frame 0), which already binds `z`.
  The `#guard`s run the compiled model: they show that the hypotheses of the theorems above are
  met by this instance (the `require`s succeed / fail as assumed in the `example`s) and re-check
  the conclusions on it. -/

def modM : Node := .block [
    .require (.lit (.str ['n']) {}) none false none {},
    .defn "f" (.lambda ["x"] [.absent] (.ident "x" {}) {}) "" {},
    .defn "_x" (.lit (.int 1) {}) "" {},
    .defn "k" (.lit (.int 5) {}) "" {}] [] [] [] true {}
def modN : Node := .defn "y" (.lit (.int 2) {}) "" {}
def ldMN : Loader := { user := [("m.ckl", .ok modM), ("n.ckl", .ok modN)] }

/-- base frame 0, session frame 1 -/
def st0 : State :=
  { frames := #[{ vars := [], parent := none }, { vars := [("z", .int 9)], parent := some 0 }] }

def reqM : Node := .require (.lit (.str ['m']) {}) none false none {}
def reqMas : Node := .require (.ident "m" {}) (some "mm") false none {}
def reqMimp : Node :=
  .require (.lit (.str ['m']) {}) none false (some [("f", "g"), ("_x", "h"), ("nope", "q")]) {}
def reqMunq : Node := .require (.lit (.str ['m']) {}) none true none {}
def reqZ : Node := .require (.lit (.str ['z', 'z']) {}) none false none {}

theorem ldMN_frames : NativeKeepsFrames ldMN :=
  nativeKeepsFrames_of_abstains (fun name _ _ => ⟨"native " ++ name, rfl⟩)
theorem ldMN_modules : C11.NativeKeepsModules ldMN :=
  C11.nativeKeepsModules_of_abstains (fun name _ _ => ⟨"native " ++ name, rfl⟩)
theorem st0_env : (1 : Nat) < st0.frames.size := by decide
theorem st0_wf : ParentsSmaller st0 := by
  intro e p h
  match e, h with
  | 0, h => simp [State.frame, st0] at h
  | 1, h =>
    have : p = 0 := by simpa [State.frame, st0, eq_comm] using h
    omega
  | e + 2, h => simp [State.frame, st0] at h
theorem st0_nodup : ∀ e, KeysNodup (st0.frame e) := by
  intro e
  match e with
  | 0 => simp [KeysNodup, State.frame, st0]
  | 1 => simp [KeysNodup, State.frame, st0]
  | e + 2 => simp [KeysNodup, State.frame, st0]

def keysOf (s : State) (e : EnvId) : List String := (s.frame e).vars.map (·.1)
def memberKeys (s : State) (a : Nat) : List String :=
  match s.cell a with
  | some (.obj kvs true) => kvs.map (·.1)
  | _ => ["<not a module object>"]
def isClosure : Option RVal → Nat → Bool
  | some (.closure a), b => a == b
  | _, _ => false
def isRef : Option RVal → Nat → Bool
  | some (.ref a), b => a == b
  | _, _ => false

-- 1 / 2: the plain form: one name (`m`) added to frame 1, bound to a module object with
-- members `f`, `k` — not `_x` (private), not `n` (module object); frames 0 and 1 keep their
-- parents; the module frames 2 (`m`) and 3 (`n`) have the BASE frame 0 as parent
#guard (match eval ldMN 30 1 reqM st0 with
  | .ok .null s' =>
    keysOf s' 1 == ["z", "m"] && isRef (s'.lookup 1 "m") 2 && memberKeys s' 2 == ["f", "k"] &&
    keysOf s' 0 == [] && s'.frames.size == 4 &&
    (s'.frame 2).parent == some 0 && (s'.frame 3).parent == some 0 &&
    keysOf s' 2 == ["n", "f", "_x", "k"] && s'.modules.lookup "m" == some 2 &&
    s'.modstack == [] && memberKeys s' 0 == ["y"]
  | _ => false)

example {v s'} (h : eval ldMN 30 1 reqM st0 = .ok v s') :
    v = .null ∧ ∃ fuel ms s1 menv s2, 30 = fuel + 2 ∧
      RequireRun ldMN fuel 1 (.lit (.str ['m']) {}) none false none {} st0 s' ms s1 menv s2 ∧
      s'.frame 1 = { s2.frame 1 with
        vars := dictPut (boundName ms none) (.ref s2.heap.size) (s2.frame 1).vars } := by
  obtain ⟨hv, fuel, ms, s1, menv, s2, hf, r, h1, _⟩ :=
    require_plain_binds_exactly ldMN_frames (Or.inl rfl) st0_env h
  exact ⟨hv, fuel, ms, s1, menv, s2, hf, r, h1⟩

example {fuel ms s1 menv s2 s'}
    (r : RequireRun ldMN fuel 1 (.lit (.str ['m']) {}) none false none {} st0 s' ms s1 menv s2) :
    s'.lookup 1 (boundName ms none) = some (.ref s2.heap.size) ∧ KeysNodup (s2.frame menv) ∧
    s1 = st0 :=
  ⟨(require_plain_names ldMN_frames (Or.inl rfl) st0_env r).1,
   r.module_frame_nodup ldMN_frames st0_nodup, r.spec_pure (Or.inr ⟨_, _, rfl⟩)⟩

/-- a module frame as `m.ckl` leaves it, and an importer -/
def stM : State :=
  { frames := #[{ vars := [], parent := none }, { vars := [("z", .int 9)], parent := some 0 },
                { vars := [("n", .ref 0), ("f", .closure 1), ("_x", .int 1), ("k", .int 5)], parent := some 0 }],
    heap := #[.obj [("y", .int 2)] true, .closure 2 ["x"] [.absent] (.ident "x" {}) "f"] }

theorem stM_nodup : KeysNodup (stM.frame 2) := by simp [KeysNodup, State.frame, stM]

example : moduleMembers stM 2 =
    (stM.frame 2).vars.filter (fun kv => !kv.1.startsWith "_" && !isModuleObj stM kv.2) :=
  (module_object_members_list stM 2).2 stM_nodup

#guard (moduleMembers stM 2).map (·.1) == ["f", "k"]

example : dictGet "_x" (moduleMembers stM 2) = none := module_object_no_private stM 2 "_x" (by simp)
example : dictGet "f" (moduleMembers stM 2) = some (.closure 1) :=
  (module_object_member_iff stM 2 "f" _).2 ⟨by simp [State.frame, stM, dictGet], by simp, rfl⟩

-- 3: the import form: `f as g` is bound; `_x as h` (private) and `nope as q` (not defined by
-- the module) are silently skipped; nothing else is bound, no module object is allocated
#guard (match eval ldMN 30 1 reqMimp st0 with
  | .ok .null s' => keysOf s' 1 == ["z", "g"] && isClosure (s'.lookup 1 "g") 1 && s'.heap.size == 2
  | _ => false)

example {v s'} (h : eval ldMN 30 1 reqMimp st0 = .ok v s') :
    ∃ fuel ms s1 menv s2,
      RequireRun ldMN fuel 1 (.lit (.str ['m']) {}) none false
        (some [("f", "g"), ("_x", "h"), ("nope", "q")]) {} st0 s' ms s1 menv s2 ∧
      SameButFrames s2 s' ∧ (∀ e, e ≠ 1 → s'.frame e = s2.frame e) := by
  obtain ⟨_, fuel, ms, s1, menv, s2, _, r, _, h1, h2, _⟩ :=
    require_import_binds_exactly ldMN_frames st0_env h
  exact ⟨fuel, ms, s1, menv, s2, r, h1, h2⟩

theorem stM_env : (1 : Nat) < stM.frames.size := by decide

example : dictGet "g" ((putAll 1 (importPuts stM 2 [("f", "g"), ("_x", "h"), ("nope", "q")]) stM).frame 1).vars
    = some (.closure 1) := by
  refine import_binds_requested (n := "f") stM_env (by simp [State.frame, stM, dictGet]) (by simp)
    (by simp [List.lookup]) ?_
  intro n' v' hv' _ hl
  have : n' = "f" := by
    simp only [List.lookup] at hl
    split at hl
    · rename_i h; simpa using h
    · split at hl
      · simp at hl
      · split at hl
        · simp at hl
        · cases hl
  subst this
  simp [State.frame, stM, dictGet] at hv'
  exact hv'.symm

example : dictGet "z" ((putAll 1 (importPuts stM 2 [("f", "g"), ("_x", "h"), ("nope", "q")]) stM).frame 1).vars
    = dictGet "z" (stM.frame 1).vars :=
  import_binds_only_aliases stM_env (by simp)

example : bindImportS 1 2 [("_x", "h"), ("nope", "q")] stM = stM := by
  refine import_private_or_undefined_skipped 1 2 _ stM ?_
  intro p hp
  simp only [List.mem_cons, List.mem_nil_iff, or_false] at hp
  rcases hp with rfl | rfl
  · exact Or.inl (by simp)
  · exact Or.inr (by simp [State.frame, stM, dictGet])

#guard keysOf (bindImportS 1 2 [("_x", "h"), ("nope", "q")] stM) 1 == ["z"]

-- 4: the unqualified form binds `f` and `k` — not `_x`, not `n`
#guard (match eval ldMN 30 1 reqMunq st0 with
  | .ok .null s' => keysOf s' 1 == ["z", "f", "k"] && isClosure (s'.lookup 1 "f") 1 && s'.heap.size == 2
  | _ => false)

example {v s'} (h : eval ldMN 30 1 reqMunq st0 = .ok v s') : v = .null :=
  (require_unqualified_binds_exactly ldMN_frames st0_env h).1

example : dictGet "_x" ((bindUnqS 1 2 stM).frame 1).vars = dictGet "_x" (stM.frame 1).vars :=
  unqualified_skips stM_env (Or.inl (by simp))

-- 5: module scope
example : (moduleStart st0 1 "m").frame 2 = { vars := [], parent := some (st0.base 1) } :=
  (module_scope_isolated st0 1 "m").1
example : (st0.frame (st0.base 1)).parent = none ∧ st0.base 1 ≤ 1 :=
  let h := (module_scope_isolated st0 1 "m").2.2.2 st0_wf st0_env
  ⟨h.1, h.2.1⟩
#guard st0.base 1 == 0
example (x : String) : (moduleStart st0 1 "m").lookup 2 x =
    (dictGet x ((moduleStart st0 1 "m").frame 2).vars).or (dictGet x ((moduleStart st0 1 "m").frame (st0.base 1)).vars) :=
  (module_lookup_two_frames st0_wf st0_env (FExt.refl _) x).2.2
-- the importer's variable `z` is not visible from the module frame
#guard ((moduleStart st0 1 "m").lookup 2 "z").isNone && (st0.lookup 1 "z").isSome

-- 6: an unknown module: runtime error, frame 1 unchanged, load stack clean
#guard (match eval ldMN 30 1 reqZ st0 with
  | .err _ _ _ _ s' => keysOf s' 1 == ["z"] && s'.modstack == [] && s'.modules.isEmpty
  | _ => false)

example {v m p t s'} (h : eval ldMN 30 1 reqZ st0 = .err v m p t s') :
    ((∀ e : Nat, (s'.frame e).vars = (st0.frame e).vars) ∧
      (∀ e : Nat, e < st0.frames.size → s'.frame e = st0.frame e) ∧ s'.heap = st0.heap ∧
      s'.modules = st0.modules ∧ s'.modstack = st0.modstack) ∨
    (∃ g ast ms s3, st0.modules.lookup (identOf ms) = none ∧ ldMN.find (fileOf ms) = some (.ok ast) ∧
      eval ldMN g st0.frames.size ast (moduleStart st0 1 (identOf ms)) = .err v m p t s3 ∧
      (∀ e, s'.frame e = s3.frame e) ∧ s'.heap = s3.heap ∧ s'.modules = s3.modules) :=
  require_failure_frames_unchanged (Or.inr ⟨_, _, rfl⟩) h

-- 7: `require "m"` then `require m as mm`: one module frame (2), one evaluation, and the two
-- module objects (cells 2 and 3) hold the same closure (cell 1) under `f`
#guard (match (eval ldMN 30 1 reqM >>= fun _ => eval ldMN 30 1 reqMas) st0 with
  | .ok .null s' =>
    keysOf s' 1 == ["z", "m", "mm"] && isRef (s'.lookup 1 "m") 2 && isRef (s'.lookup 1 "mm") 3 &&
    memberKeys s' 2 == ["f", "k"] && memberKeys s' 3 == ["f", "k"] &&
    s'.frames.size == 4 && s'.modules.lookup "m" == some 2 && C11.evals s' "m" == 1 &&
    (match s'.cell 2, s'.cell 3 with
     | some (.obj a _), some (.obj b _) => isClosure (dictGet "f" a) 1 && isClosure (dictGet "f" b) 1
     | _, _ => false)
  | _ => false)

-- the two specifications resolve to the same module identifier
#guard (match eval ldMN 30 1 reqM st0 with
  | .ok _ sA => (match resolveSpec ldMN 28 1 (.lit (.str ['m']) {}) {} st0, resolveSpec ldMN 28 1 (.ident "m" {}) {} sA with
    | .ok ms1 _, .ok ms2 _ => identOf ms1 == identOf ms2 && identOf ms1 == "m"
    | _, _ => false)
  | _ => false)

example {v1 sA v2 sB} (h1 : eval ldMN 30 1 reqM st0 = .ok v1 sA) (h2 : eval ldMN 30 1 reqMas sA = .ok v2 sB) :
    ∃ f1 ms1 t1 menv1 u1 f2 ms2 t2 menv2 u2,
      RequireRun ldMN f1 1 (.lit (.str ['m']) {}) none false none {} st0 sA ms1 t1 menv1 u1 ∧
      RequireRun ldMN f2 1 (.ident "m" {}) (some "mm") false none {} sA sB ms2 t2 menv2 u2 ∧
      (identOf ms2 = identOf ms1 → menv2 = menv1 ∧ u2 = t2 ∧ t2 = sA) := by
  obtain ⟨_, f1, ms1, t1, menv1, u1, _, r1⟩ := require_ok_inv h1
  obtain ⟨_, f2, ms2, t2, menv2, u2, _, r2⟩ := require_ok_inv h2
  refine ⟨f1, ms1, t1, menv1, u1, f2, ms2, t2, menv2, u2, r1, r2, fun hid => ?_⟩
  obtain ⟨a, b, _⟩ := shared_instance ldMN_modules r1 (C11.RMod.refl _) r2 hid
  exact ⟨a, b, r2.spec_pure (Or.inl ⟨_, _, rfl⟩)⟩

example : dictGet "f" (moduleMembers stM 2) = some (.closure 1) ∧
    dictGet "f" (moduleMembers (stM.put 1 "m" (.ref 2)) 2) = some (.closure 1) :=
  shared_function_members (by simp) (by simp [State.frame, stM, dictGet])
    (by simp [State.frame, State.put, stM, dictGet])

-- further instances of the hypotheses (the module is not cached in `st0`; it is after `reqM`)
example {fuel ms s1 menv s2 s'}
    (r : RequireRun ldMN fuel 1 (.lit (.str ['m']) {}) none false none {} st0 s' ms s1 menv s2) :
    menv = st0.frames.size ∧ s'.modules.lookup (identOf ms) = some menv ∧
    (∃ g ast v s3, fuel = g + 1 ∧ ldMN.find (fileOf ms) = some (.ok ast) ∧
      eval ldMN g st0.frames.size ast (moduleStart st0 1 (identOf ms)) = .ok v s3 ∧
      s' = bindPlainS 1 st0.frames.size (boundName ms none)
            (popS (registerS s3 (identOf ms) st0.frames.size))) :=
  ⟨(require_plain_loaded_exact (Or.inl rfl) (Or.inr ⟨_, _, rfl⟩) r rfl).1, r.registered ldMN_modules,
   (require_plain_loaded_exact (Or.inl rfl) (Or.inr ⟨_, _, rfl⟩) r rfl).2⟩

example {fuel ms s1 menv s2 s'} (x : String)
    (r : RequireRun ldMN fuel 1 (.lit (.str ['m']) {}) none false none {} st0 s' ms s1 menv s2) :
    menv ≠ 1 ∧ (s2.frame menv).parent = some (st0.base 1) ∧ (s2.frame (st0.base 1)).parent = none ∧
    s2.lookup menv x = (dictGet x (s2.frame menv).vars).or (dictGet x (s2.frame (st0.base 1)).vars) := by
  have h1 := r.spec_pure (Or.inr ⟨_, _, rfl⟩)
  subst h1
  obtain ⟨_, a, b, c, d⟩ := r.module_chain ldMN_frames rfl st0_wf st0_env x
  exact ⟨a, b, c, d⟩

example {fuel ms s1 menv s2 s'} (r : RequireRun ldMN fuel 1 (.lit (.str ['m']) {}) none false none {} st0 s' ms s1 menv s2) :
    (∃ g ast v s3, fuel = g + 1 ∧ ldMN.find (fileOf ms) = some (.ok ast) ∧
      eval ldMN g menv ast (moduleStart s1 1 (identOf ms)) = .ok v s3) := by
  have h1 := r.spec_pure (Or.inr ⟨_, _, rfl⟩)
  subst h1
  obtain ⟨_, g, ast, v, s3, a, b, c, _⟩ := r.fresh (show st0.modules.lookup (identOf ms) = none from rfl)
  exact ⟨g, ast, v, s3, a, b, c⟩

example {f1 ms1 t1 menv1 u1 sA f2 ms2 t2 menv2 u2 sB}
    (r1 : RequireRun ldMN f1 1 (.lit (.str ['m']) {}) none false none {} st0 sA ms1 t1 menv1 u1)
    (r2 : RequireRun ldMN f2 1 (.ident "m" {}) (some "mm") false none {} sA sB ms2 t2 menv2 u2)
    (hid : identOf ms2 = identOf ms1) :
    sB = { sA.put 1 (boundName ms2 (some "mm")) (.ref sA.heap.size) with
             heap := sA.heap.push (.obj (moduleMembers sA menv1) true) } :=
  (require_plain_cached_exact (Or.inl rfl) (Or.inl ⟨_, _, rfl⟩) r2
    (by rw [hid]; exact r1.registered ldMN_modules)).2

example {f1 ms1 t1 menv1 u1 sA sM f2 ms2 t2 menv2 u2 sB}
    (r1 : RequireRun ldMN f1 1 (.lit (.str ['m']) {}) none false none {} st0 sA ms1 t1 menv1 u1)
    (hmid : Ends (eval ldMN 30 1 (.defn "w" (.lit (.int 3) {}) "" {}) sA) sM)
    (r2 : RequireRun ldMN f2 1 (.ident "m" {}) (some "mm") false none {} sM sB ms2 t2 menv2 u2)
    (hid : identOf ms2 = identOf ms1) : menv2 = menv1 ∧ u2 = t2 :=
  shared_instance_eval ldMN_modules r1 hmid r2 hid

#guard (match (eval ldMN 30 1 reqM >>= fun _ => eval ldMN 30 1 (.defn "w" (.lit (.int 3) {}) "" {}) >>= fun _ =>
    eval ldMN 30 1 reqMas) st0 with
  | .ok .null s' => keysOf s' 1 == ["z", "m", "w", "mm"] && C11.evals s' "m" == 1 && s'.frames.size == 4
  | _ => false)

example {v m p t s'} (h : eval ldMN 30 1 reqZ st0 = .err v m p t s') :
    ∃ fuel, 30 = fuel + 2 ∧
      (resolveSpec ldMN fuel 1 (.lit (.str ['z', 'z']) {}) {} st0 = .err v m p t s' ∨
       ∃ ms s1, resolveSpec ldMN fuel 1 (.lit (.str ['z', 'z']) {}) {} st0 = .ok ms s1 ∧
         ((s1.modstack.contains (identOf ms) = true ∧ s' = s1) ∨
          (s1.modules.lookup (identOf ms) = none ∧ ldMN.find (fileOf ms) = none ∧
            s' = (s1.newEnv (s1.base 1)).1) ∨
          (∃ g ast s3, fuel = g + 1 ∧ s1.modules.lookup (identOf ms) = none ∧
            ldMN.find (fileOf ms) = some (.ok ast) ∧
            eval ldMN g s1.frames.size ast (moduleStart s1 1 (identOf ms)) = .err v m p t s3 ∧
            s' = popS s3))) :=
  require_failure_binds_nothing h

example : dictGet "other" ((putAll 1 (importPuts stM 2 [("f", "g")]) stM).frame 1).vars
    = dictGet "other" (stM.frame 1).vars := by
  refine import_other_names_unchanged stM_env ?_
  intro n v _ _ hl
  simp only [List.lookup] at hl
  split at hl
  · simp at hl
  · cases hl

example : C11.RMod st0 st0 :=
  resolveSpec_ok_rmod ldMN_modules (resolveSpec_lit ldMN 5 1 ['m'] {} {} st0)

example : FExt st0 (endState (eval ldMN 30 1 reqM st0)) := eval_extends ldMN_frames

end Ckl.C11B
