/-
  C14 (redundant parentheses) — the token-stream helpers of `ParserBase.lean` on a lexer state and
  on its extension by a stopper: they take the same decisions and leave related states — unless the
  first state is empty (then the production of the first run fails a moment later).
-/
import CklVerif.Lemmas.C14ParensBase
namespace Ckl.C14X
open Ckl Ckl.Parser

local notation "kw" => (some TokType.keyword)
local notation "ip" => (some TokType.interpunction)
local notation "op" => (some TokType.operator)
local notation "idt" => (some TokType.identifier)

set_option linter.unusedSimpArgs false
set_option linter.unusedVariables false

variable {x : Ext}

/-- membership in `contTable`, for concrete tokens -/
macro "tab" : tactic => `(tactic| (simp [contTable]))

theorem SRel.eq {s s' : St} (h : SRel x s s') : s' = ⟨s.prev, s.toks ++ x.t :: x.rest⟩ := by
  obtain ⟨p', ts'⟩ := s'
  obtain ⟨h1, h2⟩ := h
  simp only at h1 h2
  subst h1 h2
  rfl

@[simp] theorem SRel.mk' (x : Ext) (p : Pos) (ts : List Token) :
    SRel x ⟨p, ts⟩ ⟨p, ts ++ x.t :: x.rest⟩ := ⟨rfl, rfl⟩

theorem SRel.mk'' (x : Ext) (p : Pos) (ts : List Token) :
    SRel x ⟨p, ts⟩ ⟨p, ts ++ (x.t :: x.rest)⟩ := ⟨rfl, rfl⟩

@[elab_as_elim] theorem SRel.elim_cases {motive : St → St → Prop} {s s' : St} (h : SRel x s s')
    (nil : ∀ p, motive ⟨p, []⟩ ⟨p, x.t :: x.rest⟩)
    (cons : ∀ p t rest, motive ⟨p, t :: rest⟩ ⟨p, t :: (rest ++ x.t :: x.rest)⟩) : motive s s' := by
  obtain ⟨p, ts⟩ := s
  obtain rfl := h.eq
  cases ts with
  | nil => exact nil p
  | cons t rest => exact cons p t rest

@[elab_as_elim] theorem SRel.elim_cases2 {motive : St → St → Prop} {s s' : St} (h : SRel x s s')
    (nil : ∀ p, motive ⟨p, []⟩ ⟨p, x.t :: x.rest⟩)
    (one : ∀ p t, motive ⟨p, [t]⟩ ⟨p, t :: x.t :: x.rest⟩)
    (cons : ∀ p t t2 rest, motive ⟨p, t :: t2 :: rest⟩ ⟨p, t :: t2 :: (rest ++ x.t :: x.rest)⟩) :
    motive s s' := by
  obtain ⟨p, ts⟩ := s
  obtain rfl := h.eq
  rcases ts with _ | ⟨t1, _ | ⟨t2, rest⟩⟩
  · exact nil p
  · exact one p t1
  · exact cons p t1 t2 rest

/-! ### the helpers on an empty state -/

theorem hasNext_nil {s : St} (h : s.toks = []) : s.hasNext = false := by simp [St.hasNext, h]
theorem peekn_nil {s : St} (h : s.toks = []) (n : Nat) (v : List Char) (ty : Option TokType) :
    s.peekn n v ty = false := by simp [St.peekn, h]
theorem matchIf_nil {s : St} (h : s.toks = []) (v : List Char) (ty : Option TokType) : s.matchIf v ty = none := by
  obtain ⟨p, ts⟩ := s; simp only at h; subst h; rfl
theorem matchIf2_nil {s : St} (h : s.toks = []) (v1 : List Char) (ty1 : Option TokType) (v2 : List Char)
    (ty2 : Option TokType) : s.matchIf2 v1 ty1 v2 ty2 = none := by
  obtain ⟨p, ts⟩ := s; simp only at h; subst h; rfl
theorem matchIf3_nil {s : St} (h : s.toks = []) (v1 : List Char) (ty1 : Option TokType) (v2 : List Char)
    (ty2 : Option TokType) (v3 : List Char) (ty3 : Option TokType) : s.matchIf3 v1 ty1 v2 ty2 v3 ty3 = none := by
  obtain ⟨p, ts⟩ := s; simp only at h; subst h; rfl
theorem skipIf_nil {s : St} (h : s.toks = []) (v : List Char) (ty : Option TokType) : (s.skipIf v ty).1 = s := by
  simp [St.skipIf, matchIf_nil h]
theorem expect_nil {s : St} (h : s.toks = []) (v : List Char) (ty : TokType) :
    s.expect v ty = .error (errEof s.prev) := by
  obtain ⟨p, ts⟩ := s; simp only at h; subst h; rfl
theorem next_nil {s : St} (h : s.toks = []) (c : Ctx) : s.next c = .error (errEof c.endPos) := by
  obtain ⟨p, ts⟩ := s; simp only at h; subst h; rfl
theorem peek_nil {s : St} (h : s.toks = []) (c : Ctx) : s.peek c = .error (errEof c.endPos) := by
  obtain ⟨p, ts⟩ := s; simp only at h; subst h; rfl
theorem matchIdentifier_nil {s : St} (h : s.toks = []) : s.matchIdentifier = .error (errEof s.prev) := by
  obtain ⟨p, ts⟩ := s; simp only at h; subst h; rfl
theorem isEndCatchFinally_nil {s : St} (h : s.toks = []) : isEndCatchFinally s = false := by
  simp [isEndCatchFinally, peekn_nil h]
theorem sepUnless_nil {s : St} (h : s.toks = []) (closer : List Char) :
    sepUnless s closer = .error (errEof s.prev) := by
  simp [sepUnless, peekn_nil h, expect_nil h]
theorem matchOpTable_nil {s : St} (h : s.toks = []) (tbl : List (List Char × String)) : matchOpTable s tbl = none := by
  induction tbl with
  | nil => rfl
  | cons a tbl ih => obtain ⟨v, fn⟩ := a; simp [matchOpTable, matchIf_nil h, ih]
theorem matchBracketCompound_nil {s : St} (h : s.toks = []) : matchBracketCompound s = none := by
  have : ∀ tbl, matchBracketCompound.go s tbl = none := by
    intro tbl
    induction tbl with
    | nil => rfl
    | cons a tbl ih => obtain ⟨v, fn⟩ := a; simp [matchBracketCompound.go, matchIf2_nil h, ih]
  exact this _
theorem relGuard_nil {s : St} (h : s.toks = []) : relGuard s = false := by
  simp [relGuard, h]

/-! ### the helpers on related states -/

theorem peekn1_cases {s s' : St} (h : SRel x s s') (v : List Char) (ty : Option TokType) :
    s'.peekn 1 v ty = s.peekn 1 v ty ∨ s.toks = [] := by
  refine h.elim_cases (fun p => ?_) (fun p t rest => ?_)
  · exact Or.inr rfl
  · exact Or.inl rfl

theorem peekn1_tab {s s' : St} (h : SRel x s s') {v : List Char} {ty : Option TokType}
    (hm : (v, ty) ∈ contTable) : s'.peekn 1 v ty = s.peekn 1 v ty := by
  refine h.elim_cases (fun p => ?_) (fun p t rest => ?_)
  · simp [St.peekn, x.not_tokIs hm]
  · rfl

theorem peekn2_tab {s s' : St} (h : SRel x s s') (hne : s.toks ≠ []) {v : List Char} {ty : Option TokType}
    (hm : (v, ty) ∈ contTable) : s'.peekn 2 v ty = s.peekn 2 v ty := by
  refine h.elim_cases2 (motive := fun s s' => s.toks ≠ [] → s'.peekn 2 v ty = s.peekn 2 v ty)
    (fun p => ?_) (fun p t => ?_) (fun p t t2 rest => ?_) hne
  · intro h; exact (h rfl).elim
  · intro _; simp [St.peekn, x.not_tokIs hm]
  · intro _; rfl

theorem hasNext_rel {s s' : St} (h : SRel x s s') (hne : s.toks ≠ []) : s'.hasNext = s.hasNext := by
  cases hs : s.toks with
  | nil => exact (hne hs).elim
  | cons t r => simp [St.hasNext, h.toks, hs]

theorem hasNext_ext {s s' : St} (h : SRel x s s') : s'.hasNext = true := by
  simp [St.hasNext, h.toks]

theorem posNext_rel {s s' : St} (h : SRel x s s') (hne : s.toks ≠ []) : s'.posNext = s.posNext := by
  refine h.elim_cases (motive := fun s s' => s.toks ≠ [] → s'.posNext = s.posNext)
    (fun p => ?_) (fun p t rest => ?_) hne
  · intro h; exact (h rfl).elim
  · intro _; rfl

theorem ne_of_peekn {s : St} {n : Nat} {v : List Char} {ty : Option TokType} (h : s.peekn n v ty = true) :
    s.toks ≠ [] := by
  intro h0; rw [peekn_nil h0] at h; cases h

theorem ne_of_matchIf {s : St} {v : List Char} {ty : Option TokType} {a} (h : s.matchIf v ty = some a) :
    s.toks ≠ [] := by
  intro h0; rw [matchIf_nil h0] at h; cases h

theorem ne_of_relGuard {s : St} (h : relGuard s = true) : s.toks ≠ [] := by
  intro h0; rw [relGuard_nil h0] at h; cases h

theorem ne_of_hasNext {s : St} (h : (!s.hasNext) ≠ true) : s.toks ≠ [] := by
  intro h0; rw [hasNext_nil h0] at h; exact h rfl

theorem next_rel {c c' : Ctx} {s s' : St} (h : SRel x s s') :
    ERel (OLt x) (s.next c) (s'.next c') := by
  refine h.elim_cases (fun p => ?_) (fun p t rest => ?_)
  · exact ERel.err
  · exact ⟨rfl, SRel.mk' x _ _⟩

theorem peek_rel {c c' : Ctx} {s s' : St} (h : SRel x s s') :
    ERel (fun t t' => t = t') (s.peek c) (s'.peek c') := by
  refine h.elim_cases (fun p => ?_) (fun p t rest => ?_)
  · exact ERel.err
  · exact rfl

theorem matchIf2_first_false {p : Pos} {t : Token} {rest : List Token} {v1 : List Char} {ty1 : Option TokType}
    (h : St.tokIs t v1 ty1 = false) (v2 : List Char) (ty2 : Option TokType) :
    St.matchIf2 ⟨p, t :: rest⟩ v1 ty1 v2 ty2 = none := by
  cases rest <;> simp [St.matchIf2, h]

theorem matchIf3_first_false {p : Pos} {t : Token} {rest : List Token} {v1 : List Char} {ty1 : Option TokType}
    (h : St.tokIs t v1 ty1 = false) (v2 : List Char) (ty2 : Option TokType) (v3 : List Char) (ty3 : Option TokType) :
    St.matchIf3 ⟨p, t :: rest⟩ v1 ty1 v2 ty2 v3 ty3 = none := by
  rcases rest with _ | ⟨a, _ | ⟨b, r⟩⟩ <;> simp [St.matchIf3, h]

theorem matchIf3_second_false {p : Pos} {t t2 : Token} {rest : List Token} {v2 : List Char} {ty2 : Option TokType}
    (h : St.tokIs t2 v2 ty2 = false) (v1 : List Char) (ty1 : Option TokType) (v3 : List Char) (ty3 : Option TokType) :
    St.matchIf3 ⟨p, t :: t2 :: rest⟩ v1 ty1 v2 ty2 v3 ty3 = none := by
  rcases rest with _ | ⟨b, r⟩ <;> simp [St.matchIf3, h]

/-- `matchIf` on a state and its extension: same decision — unless the first state is empty -/
theorem matchIf_cases {s s' : St} (h : SRel x s s') (v : List Char) (ty : Option TokType) :
    (s.matchIf v ty = none ∧ s'.matchIf v ty = none) ∨
    (∃ a a', s.matchIf v ty = some a ∧ s'.matchIf v ty = some a' ∧ SRel x a.1 a'.1) ∨
    s.toks = [] := by
  refine h.elim_cases (fun p => ?_) (fun p t rest => ?_)
  · exact Or.inr (Or.inr rfl)
  · cases hb : St.tokIs t v ty with
    | false => left; simp [St.matchIf, hb]
    | true => right; left; simp [St.matchIf, hb]

/-- … and for a continuation token the decision is always the same -/
theorem matchIf_tab {s s' : St} (h : SRel x s s') {v : List Char} {ty : Option TokType}
    (hm : (v, ty) ∈ contTable) :
    (s.matchIf v ty = none ∧ s'.matchIf v ty = none) ∨
    (∃ a a', s.matchIf v ty = some a ∧ s'.matchIf v ty = some a' ∧ SRel x a.1 a'.1) := by
  refine h.elim_cases (fun p => ?_) (fun p t rest => ?_)
  · left; simp [St.matchIf, x.not_tokIs hm]
  · cases hb : St.tokIs t v ty with
    | false => left; simp [St.matchIf, hb]
    | true => right; simp [St.matchIf, hb]

theorem matchIf2_cases {s s' : St} (h : SRel x s s') (v1 : List Char) (ty1 : Option TokType)
    {v2 : List Char} {ty2 : Option TokType} (hm2 : (v2, ty2) ∈ contTable) :
    (s.matchIf2 v1 ty1 v2 ty2 = none ∧ s'.matchIf2 v1 ty1 v2 ty2 = none) ∨
    (∃ a a', s.matchIf2 v1 ty1 v2 ty2 = some a ∧ s'.matchIf2 v1 ty1 v2 ty2 = some a' ∧ SRel x a.1 a'.1) ∨
    s.toks = [] := by
  refine h.elim_cases2 (fun p => ?_) (fun p t1 => ?_) (fun p t1 t2 rest => ?_)
  · exact Or.inr (Or.inr rfl)
  · left; simp [St.matchIf2, x.not_tokIs hm2]
  · cases hb : (St.tokIs t1 v1 ty1 && St.tokIs t2 v2 ty2) with
    | false => left; simp [St.matchIf2, hb]
    | true => right; left; simp [St.matchIf2, hb]

theorem matchIf2_tab {s s' : St} (h : SRel x s s') {v1 : List Char} {ty1 : Option TokType}
    {v2 : List Char} {ty2 : Option TokType} (hm1 : (v1, ty1) ∈ contTable) (hm2 : (v2, ty2) ∈ contTable) :
    (s.matchIf2 v1 ty1 v2 ty2 = none ∧ s'.matchIf2 v1 ty1 v2 ty2 = none) ∨
    (∃ a a', s.matchIf2 v1 ty1 v2 ty2 = some a ∧ s'.matchIf2 v1 ty1 v2 ty2 = some a' ∧ SRel x a.1 a'.1) := by
  refine h.elim_cases2 (fun p => ?_) (fun p t1 => ?_) (fun p t1 t2 rest => ?_)
  · left; exact ⟨rfl, matchIf2_first_false (x.not_tokIs hm1) _ _⟩
  · left; simp [St.matchIf2, x.not_tokIs hm2]
  · cases hb : (St.tokIs t1 v1 ty1 && St.tokIs t2 v2 ty2) with
    | false => left; simp [St.matchIf2, hb]
    | true => right; simp [St.matchIf2, hb]

theorem matchIf3_tab {s s' : St} (h : SRel x s s') {v1 : List Char} {ty1 : Option TokType}
    {v2 : List Char} {ty2 : Option TokType} {v3 : List Char} {ty3 : Option TokType}
    (hm1 : (v1, ty1) ∈ contTable) (hm2 : (v2, ty2) ∈ contTable) (hm3 : (v3, ty3) ∈ contTable) :
    (s.matchIf3 v1 ty1 v2 ty2 v3 ty3 = none ∧ s'.matchIf3 v1 ty1 v2 ty2 v3 ty3 = none) ∨
    (∃ a a', s.matchIf3 v1 ty1 v2 ty2 v3 ty3 = some a ∧ s'.matchIf3 v1 ty1 v2 ty2 v3 ty3 = some a' ∧
      SRel x a.1 a'.1) := by
  obtain ⟨p, ts⟩ := s
  obtain rfl := h.eq
  rcases ts with _ | ⟨t1, _ | ⟨t2, _ | ⟨t3, rest⟩⟩⟩
  · left; exact ⟨rfl, matchIf3_first_false (x.not_tokIs hm1) _ _ _ _⟩
  · left; exact ⟨rfl, matchIf3_second_false (x.not_tokIs hm2) _ _ _ _⟩
  · left; simp [St.matchIf3, x.not_tokIs hm3]
  · cases hb : (St.tokIs t1 v1 ty1 && St.tokIs t2 v2 ty2 && St.tokIs t3 v3 ty3) with
    | false => left; simp [St.matchIf3, hb]
    | true => right; simp [St.matchIf3, hb]

theorem expect_rel {s s' : St} (h : SRel x s s') (v : List Char) (ty : TokType) :
    ERel (SSub x) (s.expect v ty) (s'.expect v ty) := by
  refine h.elim_cases (fun p => ?_) (fun p t rest => ?_)
  · exact ERel.err
  · simp only [St.expect]
    by_cases hb : (t.value != v || t.type != ty) = true <;> simp only [hb, if_true, if_false]
    · exact ERel.err
    · exact SRel.mk' x _ _

theorem matchIdentifier_rel {s s' : St} (h : SRel x s s') :
    ERel (OLt x) s.matchIdentifier s'.matchIdentifier := by
  refine h.elim_cases (fun p => ?_) (fun p t rest => ?_)
  · exact ERel.err
  · simp only [St.matchIdentifier]
    by_cases hb : (t.type != .identifier) = true <;> simp only [hb, if_true, if_false]
    · exact ERel.err
    · exact ⟨rfl, SRel.mk' x _ _⟩

/-! ### tables of `matchIf` alternatives (all their tokens are continuation tokens) -/

theorem matchFirstIdent_cases {s s' : St} (h : SRel x s s') (vs : List (List Char))
    (hm : ∀ v ∈ vs, (v, idt) ∈ contTable) :
    (matchFirstIdent s vs = none ∧ matchFirstIdent s' vs = none) ∨
    (∃ v a a', matchFirstIdent s vs = some (v, a) ∧ matchFirstIdent s' vs = some (v, a') ∧ SRel x a.1 a'.1) := by
  induction vs with
  | nil => exact Or.inl ⟨rfl, rfl⟩
  | cons v vs ih =>
    unfold matchFirstIdent
    rcases matchIf_tab h (hm v (List.mem_cons_self ..)) with ⟨e1, e2⟩ | ⟨a, a', e1, e2, hr⟩ <;> rw [e1, e2]
    · exact ih (fun v' hv' => hm v' (List.mem_cons_of_mem _ hv'))
    · exact Or.inr ⟨v, a, a', rfl, rfl, hr⟩

theorem matchOpTable_cases {s s' : St} (h : SRel x s s') (tbl : List (List Char × String))
    (hm : ∀ p ∈ tbl, (p.1, op) ∈ contTable) :
    (matchOpTable s tbl = none ∧ matchOpTable s' tbl = none) ∨
    (∃ fn a a', matchOpTable s tbl = some (fn, a) ∧ matchOpTable s' tbl = some (fn, a') ∧ SRel x a.1 a'.1) := by
  induction tbl with
  | nil => exact Or.inl ⟨rfl, rfl⟩
  | cons y tbl ih =>
    obtain ⟨v, fn⟩ := y
    unfold matchOpTable
    rcases matchIf_tab h (hm (v, fn) (List.mem_cons_self ..)) with ⟨e1, e2⟩ | ⟨a, a', e1, e2, hr⟩ <;> rw [e1, e2]
    · exact ih (fun p hp => hm p (List.mem_cons_of_mem _ hp))
    · exact Or.inr ⟨fn, a, a', rfl, rfl, hr⟩

theorem addOps_tab : ∀ p ∈ addOps, (p.1, op) ∈ contTable := by simp [addOps, contTable]
theorem mulOps_tab : ∀ p ∈ mulOps, (p.1, op) ∈ contTable := by simp [mulOps, contTable]
theorem compoundOps_tab : ∀ p ∈ compoundOps, (p.1, op) ∈ contTable := by simp [compoundOps, contTable]
theorem typePreds_tab : ∀ v ∈ typePreds, (v, idt) ∈ contTable := by simp [typePreds, contTable]

theorem matchBracketCompound_go_cases {s s' : St} (h : SRel x s s') (tbl : List (List Char × String))
    (hm : ∀ p ∈ tbl, (p.1, op) ∈ contTable) :
    (matchBracketCompound.go s tbl = none ∧ matchBracketCompound.go s' tbl = none) ∨
    (∃ fn a a', matchBracketCompound.go s tbl = some (fn, a) ∧ matchBracketCompound.go s' tbl = some (fn, a') ∧
      SRel x a.1 a'.1) ∨ s.toks = [] := by
  induction tbl with
  | nil => exact Or.inl ⟨rfl, rfl⟩
  | cons y tbl ih =>
    obtain ⟨v, fn⟩ := y
    unfold matchBracketCompound.go
    rcases matchIf2_cases h c!"]" ip (hm (v, fn) (List.mem_cons_self ..)) with
      ⟨e1, e2⟩ | ⟨a, a', e1, e2, hr⟩ | h0
    · rw [e1, e2]; exact ih (fun p hp => hm p (List.mem_cons_of_mem _ hp))
    · rw [e1, e2]; exact Or.inr (Or.inl ⟨fn, a, a', rfl, rfl, hr⟩)
    · exact Or.inr (Or.inr h0)

theorem matchBracketCompound_cases {s s' : St} (h : SRel x s s') :
    (matchBracketCompound s = none ∧ matchBracketCompound s' = none) ∨
    (∃ fn a a', matchBracketCompound s = some (fn, a) ∧ matchBracketCompound s' = some (fn, a') ∧
      SRel x a.1 a'.1) ∨ s.toks = [] :=
  matchBracketCompound_go_cases h compoundOps compoundOps_tab

theorem isPredTable_cases {s s' : St} (h : SRel x s s') (neg : Bool) :
    (isPredTable s neg = none ∧ isPredTable s' neg = none) ∨
    (∃ p a a', isPredTable s neg = some (p, a) ∧ isPredTable s' neg = some (p, a') ∧ SRel x a.1 a'.1) := by
  unfold isPredTable
  simp only
  have hin : (c!"in", (if neg then none else kw)) ∈ contTable := by cases neg <;> tab
  rcases matchIf_tab h hin with ⟨e1, e2⟩ | ⟨a, a', e1, e2, hr⟩ <;> rw [e1, e2]
  rotate_left; exact Or.inr ⟨_, a, a', rfl, rfl, hr⟩
  rcases matchIf_tab h (v := c!"empty") (ty := idt) (by tab) with ⟨e1, e2⟩ | ⟨a, a', e1, e2, hr⟩ <;> rw [e1, e2]
  rotate_left; exact Or.inr ⟨_, a, a', rfl, rfl, hr⟩
  rcases matchIf_tab h (v := c!"zero") (ty := idt) (by tab) with ⟨e1, e2⟩ | ⟨a, a', e1, e2, hr⟩ <;> rw [e1, e2]
  rotate_left; exact Or.inr ⟨_, a, a', rfl, rfl, hr⟩
  rcases matchIf_tab h (v := c!"negative") (ty := idt) (by tab) with ⟨e1, e2⟩ | ⟨a, a', e1, e2, hr⟩ <;> rw [e1, e2]
  rotate_left; exact Or.inr ⟨_, a, a', rfl, rfl, hr⟩
  rcases matchIf_tab h (v := c!"numerical") (ty := idt) (by tab) with ⟨e1, e2⟩ | ⟨a, a', e1, e2, hr⟩ <;> rw [e1, e2]
  rotate_left; exact Or.inr ⟨_, a, a', rfl, rfl, hr⟩
  rcases matchIf_tab h (v := c!"alphanumerical") (ty := idt) (by tab) with ⟨e1, e2⟩ | ⟨a, a', e1, e2, hr⟩ <;>
    rw [e1, e2]
  rotate_left; exact Or.inr ⟨_, a, a', rfl, rfl, hr⟩
  rcases matchIf3_tab h (v1 := c!"date") (ty1 := idt) (v2 := c!"with") (ty2 := idt) (v3 := c!"hour") (ty3 := idt)
    (by tab) (by tab) (by tab) with ⟨e1, e2⟩ | ⟨a, a', e1, e2, hr⟩ <;> rw [e1, e2]
  rotate_left; exact Or.inr ⟨_, a, a', rfl, rfl, hr⟩
  rcases matchIf_tab h (v := c!"date") (ty := idt) (by tab) with ⟨e1, e2⟩ | ⟨a, a', e1, e2, hr⟩ <;> rw [e1, e2]
  rotate_left; exact Or.inr ⟨_, a, a', rfl, rfl, hr⟩
  rcases matchIf_tab h (v := c!"time") (ty := idt) (by tab) with ⟨e1, e2⟩ | ⟨a, a', e1, e2, hr⟩ <;> rw [e1, e2]
  rotate_left; exact Or.inr ⟨_, a, a', rfl, rfl, hr⟩
  rcases matchFirstIdent_cases h typePreds typePreds_tab with ⟨e1, e2⟩ | ⟨v, a, a', e1, e2, hr⟩ <;> rw [e1, e2]
  · exact Or.inl ⟨rfl, rfl⟩
  · exact Or.inr ⟨_, a, a', rfl, rfl, hr⟩

theorem binPredTable_cases {s s' : St} (h : SRel x s s') :
    (binPredTable s = none ∧ binPredTable s' = none) ∨
    (∃ p a a', binPredTable s = some (p, a) ∧ binPredTable s' = some (p, a') ∧ SRel x a.1 a'.1) := by
  unfold binPredTable
  simp only
  rcases matchIf2_tab h (v1 := c!"not") (ty1 := kw) (v2 := c!"in") (ty2 := kw) (by tab) (by tab) with
    ⟨e1, e2⟩ | ⟨a, a', e1, e2, hr⟩ <;> rw [e1, e2]
  rotate_left; exact Or.inr ⟨_, a, a', rfl, rfl, hr⟩
  rcases matchIf_tab h (v := c!"in") (ty := kw) (by tab) with ⟨e1, e2⟩ | ⟨a, a', e1, e2, hr⟩ <;> rw [e1, e2]
  rotate_left; exact Or.inr ⟨_, a, a', rfl, rfl, hr⟩
  rcases matchIf3_tab h (v1 := c!"starts") (ty1 := idt) (v2 := c!"not") (ty2 := kw) (v3 := c!"with") (ty3 := idt)
    (by tab) (by tab) (by tab) with ⟨e1, e2⟩ | ⟨a, a', e1, e2, hr⟩ <;> rw [e1, e2]
  rotate_left; exact Or.inr ⟨_, a, a', rfl, rfl, hr⟩
  rcases matchIf2_tab h (v1 := c!"starts") (ty1 := idt) (v2 := c!"with") (ty2 := idt) (by tab) (by tab) with
    ⟨e1, e2⟩ | ⟨a, a', e1, e2, hr⟩ <;> rw [e1, e2]
  rotate_left; exact Or.inr ⟨_, a, a', rfl, rfl, hr⟩
  rcases matchIf3_tab h (v1 := c!"ends") (ty1 := idt) (v2 := c!"not") (ty2 := kw) (v3 := c!"with") (ty3 := idt)
    (by tab) (by tab) (by tab) with ⟨e1, e2⟩ | ⟨a, a', e1, e2, hr⟩ <;> rw [e1, e2]
  rotate_left; exact Or.inr ⟨_, a, a', rfl, rfl, hr⟩
  rcases matchIf2_tab h (v1 := c!"ends") (ty1 := idt) (v2 := c!"with") (ty2 := idt) (by tab) (by tab) with
    ⟨e1, e2⟩ | ⟨a, a', e1, e2, hr⟩ <;> rw [e1, e2]
  rotate_left; exact Or.inr ⟨_, a, a', rfl, rfl, hr⟩
  rcases matchIf2_tab h (v1 := c!"contains") (ty1 := idt) (v2 := c!"not") (ty2 := kw) (by tab) (by tab) with
    ⟨e1, e2⟩ | ⟨a, a', e1, e2, hr⟩ <;> rw [e1, e2]
  rotate_left; exact Or.inr ⟨_, a, a', rfl, rfl, hr⟩
  rcases matchIf_tab h (v := c!"contains") (ty := idt) (by tab) with ⟨e1, e2⟩ | ⟨a, a', e1, e2, hr⟩ <;> rw [e1, e2]
  rotate_left; exact Or.inr ⟨_, a, a', rfl, rfl, hr⟩
  rcases matchIf2_tab h (v1 := c!"matches") (ty1 := idt) (v2 := c!"not") (ty2 := kw) (by tab) (by tab) with
    ⟨e1, e2⟩ | ⟨a, a', e1, e2, hr⟩ <;> rw [e1, e2]
  rotate_left; exact Or.inr ⟨_, a, a', rfl, rfl, hr⟩
  rcases matchIf_tab h (v := c!"matches") (ty := idt) (by tab) with ⟨e1, e2⟩ | ⟨a, a', e1, e2, hr⟩ <;> rw [e1, e2]
  · exact Or.inl ⟨rfl, rfl⟩
  · exact Or.inr ⟨_, a, a', rfl, rfl, hr⟩

theorem matchWhat_rel {s s' : St} (h : SRel x s s') :
    (matchWhat s').1 = (matchWhat s).1 ∧ SRel x (matchWhat s).2.1 (matchWhat s').2.1 := by
  unfold matchWhat
  rcases matchIf_tab h (v := c!"keys") (ty := idt) (by tab) with
    ⟨e1, e2⟩ | ⟨⟨a, ha⟩, ⟨a', ha'⟩, e1, e2, hr⟩ <;> rw [e1, e2]
  rotate_left; exact ⟨rfl, hr⟩
  rcases matchIf_tab h (v := c!"values") (ty := idt) (by tab) with
    ⟨e1, e2⟩ | ⟨⟨a, ha⟩, ⟨a', ha'⟩, e1, e2, hr⟩ <;> rw [e1, e2]
  rotate_left; exact ⟨rfl, hr⟩
  rcases matchIf_tab h (v := c!"entries") (ty := idt) (by tab) with
    ⟨e1, e2⟩ | ⟨⟨a, ha⟩, ⟨a', ha'⟩, e1, e2, hr⟩ <;> rw [e1, e2]
  rotate_left; exact ⟨rfl, hr⟩
  exact ⟨rfl, h⟩

/-- `sepUnless` (the closer is a closing token, never a continuation): on an empty first state the
    first run fails -/
theorem sepUnless_rel {s s' : St} (h : SRel x s s') (closer : List Char) :
    ERel (SSub x) (sepUnless s closer) (sepUnless s' closer) := by
  rcases peekn1_cases h closer ip with hp | h0
  · unfold sepUnless
    rw [hp]
    by_cases hb : s.peekn 1 closer ip = true <;> simp only [hb, if_true, if_false]
    · exact h
    · have := expect_rel h c!"," .interpunction
      revert this
      cases s.expect c!"," .interpunction <;> cases s'.expect c!"," .interpunction <;> intro this
      · exact ERel.err
      · exact ERel.err
      · exact this.elim
      · exact this
  · rw [sepUnless_nil h0]; exact ERel.err

theorem takeComment_rel {s s' : St} (h : SRel x s s') (hne : s.toks ≠ []) :
    (takeComment s').1 = (takeComment s).1 ∧ SRel x (takeComment s).2.1 (takeComment s').2.1 := by
  have hp := peekn2_tab h hne (v := c!"def") (ty := kw) (by tab)
  revert hne hp
  refine h.elim_cases (fun p => ?_) (fun p t rest => ?_)
  · intro hne; exact (hne rfl).elim
  · intro _ hp
    simp only [takeComment, hp]
    cases hb : (t.type == .string && St.peekn ⟨p, t :: rest⟩ 2 c!"def" kw) <;>
      simp only [if_true, Bool.false_eq_true, if_false] <;>
      first | exact ⟨rfl, SRel.mk' x _ _⟩ | exact ⟨trivial, SRel.mk' x _ _⟩

theorem isEndCatchFinally_cases {s s' : St} (h : SRel x s s') :
    isEndCatchFinally s' = isEndCatchFinally s ∨ s.toks = [] := by
  refine h.elim_cases (fun p => ?_) (fun p t rest => ?_)
  · exact Or.inr rfl
  · exact Or.inl rfl

theorem relGuard_rel {s s' : St} (h : SRel x s s') : relGuard s' = relGuard s := by
  refine h.elim_cases (fun p => ?_) (fun p t rest => ?_)
  · simp [relGuard, x.not_relop]
  · rfl

theorem skipIf_cases {s s' : St} (h : SRel x s s') (v : List Char) (ty : Option TokType) :
    SRel x (s.skipIf v ty).1 (s'.skipIf v ty).1 ∨ s.toks = [] := by
  unfold St.skipIf
  rcases matchIf_cases h v ty with ⟨e1, e2⟩ | ⟨⟨a, ha⟩, ⟨a', ha'⟩, e1, e2, hr⟩ | h0
  · rw [e1, e2]; exact Or.inl h
  · rw [e1, e2]; exact Or.inl hr
  · exact Or.inr h0

end Ckl.C14X
