import CklVerif.Lemmas.C19SrcAnyRulesL2

/-!
  C19Src (worker L2) — core.ckl `any(lst, pred = fn(x) x)` and `all(lst, pred = fn(x) x)`:
  a `for` over a list cell whose body `return`s from inside the loop.
-/
namespace Ckl.C19Src
open Ckl Ckl.C03 Ckl.Gen.LibSrc
variable (ld : Loader)

/-! ### what the loop needs to know about the predicate value -/

/-- The value `pv` bound to `pred`, called as `pred(element)` from any frame where the two names resolve, returns on every element
    `v` of `xs` the boolean `g v`, touching nothing that existed; `J` is a fact about the HEAP the predicate relies on (the cell
    of the default lambda; `True` for a built-in). -/
structure PredOK_L2 (pv : RVal) (J : State → Prop) (g : RVal → Bool) (xs : List RVal) : Prop where
  heap : ∀ st st', J st → st'.heap = st.heap → J st'
  call : ∀ st env v p1 p2 p3, J st → st.lookup env "pred" = some pv → st.lookup env "element" = some v → v ∈ xs →
    ∃ st', Ext st st' ∧ J st' ∧
      Ev ld 4 env (.call (.ident "pred" p1) [none] [.ident "element" p2] p3) st (.ok (.bool (g v)) st')

/-- the truth value of a boolean element -/
def boolOf_L2 : RVal → Bool
  | .bool b => b
  | _ => false

theorem calleeState_one_L2 (st : State) (ce : EnvId) (x : String) (v : RVal) :
    calleeState st ce [x] [(x, v)] = (st.newEnv ce).1.put st.frames.size x v := by
  simp [calleeState, dictGet]

/-- the default predicate `fn(x) x` (a closure cell `p` over any frame `ce`) on a list of booleans -/
theorem predOK_default_L2 (p : Nat) (ce : EnvId) (lp : Pos) (nm : String) (bs : List Bool) :
    PredOK_L2 ld (.closure p) (fun st => st.cell p = some (.closure ce ["x"] [.absent] (.ident "x" lp) nm)) boolOf_L2
      (bs.map .bool) := by
  refine ⟨fun st st' hJ hh => by simpa [State.cell, hh] using hJ, ?_⟩
  intro st env v p1 p2 p3 hJ hlp hle hv
  obtain ⟨b, _, rfl⟩ := List.mem_map.mp hv
  have hcs := calleeState_one_L2 st ce "x" (.bool b)
  have hlt : st.frames.size < (st.newEnv ce).1.frames.size := by rw [frames_size_newEnv]; omega
  refine ⟨calleeState st ce ["x"] [("x", .bool b)], calleeState_ext .., ?_, ?_⟩
  · show (calleeState st ce ["x"] [("x", .bool b)]).cell p = _
    simp only [State.cell, calleeState_heap]; exact hJ
  · have hbody : Ev ld 1 st.frames.size (.ident "x" lp) (calleeState st ce ["x"] [("x", .bool b)])
        (.ok (.bool b) (calleeState st ce ["x"] [("x", .bool b)])) := by
      refine Ev.ident ld ?_
      rw [hcs]; unfold State.lookup
      exact lookupF_put_same _ "x" (.bool b) hlt _
    have hcall := Calls.closure ld (k := 1) (env := env) (pos := p3) (bound := [("x", .bool b)]) hJ rfl (by decide)
      (by intro q hq; simp at hq; subst hq; simp [dictGet]) hbody
    exact Ev.callClosure ld (k := 2) (p := p1) hlp
      (EvArgs.cons ld (by trivial) (Ev.ident ld (p := p2) hle) (EvArgs.nil ld)) hJ
      (setArgs_pos1 (addArgs_plain' _ (by decide))) hcall

/-- a unary built-in with a pure boolean meaning `g` on the elements of `xs` -/
structure BoolOp_L2 (nm : String) (q : String) (rest : List String) (g : RVal → Bool) (xs : List RVal) : Prop where
  args : nativeArgNames nm = some (q :: rest)
  plain : ∀ p ∈ q :: rest, ¬ ("...".toList <:+ p.toList)
  sem : ∀ v ∈ xs, ∀ d pos (s : State), ∃ mm, callPure nm [(q, v)] d pos = some mm ∧ mm s = .ok (.bool (g v)) s

theorem predOK_native_L2 {nm q rest g xs} (hop : BoolOp_L2 nm q rest g xs) (i : Nat) :
    PredOK_L2 ld (.native nm i) (fun _ => True) g xs := by
  refine ⟨fun _ _ _ _ => trivial, ?_⟩
  intro st env v p1 p2 p3 _ hlp hle hv
  obtain ⟨mm, hm1, hm2⟩ := hop.sem v hv (div0Value st env) p3 st
  have A := Ev.nat1 ld (k := 1) (p := p1) (pos := p3) hlp hop.args hop.plain (by trivial) (Ev.ident ld (p := p2) hle) hm1 hm2
  rw [wrapCall_ok] at A
  exact ⟨st, Ext.refl _, trivial, A⟩

/-! ### the loop `for element in lst do <if [not] pred(element) then return B>` -/

/-- what holds of the callee frame of `any` / `all` all the time -/
structure AnyInv_L2 (s : State) (c m : EnvId) (a : Nat) (pv : RVal) (J : State → Prop) (st : State) : Prop where
  ext : Ext s st
  j : J st
  parent : (st.frame c).parent = some m
  clt : c < st.frames.size
  vars : (st.frame c).vars = [("lst", .ref a), ("pred", pv)] ∨
    ∃ w, (st.frame c).vars = [("lst", .ref a), ("pred", pv), ("element", w)]

/-- the loop of `any` (`t = true`) and `all` (`t = false`): it either runs through (no element with `g v = t`) or stops at the first
    element with `g v = t`, its value then being the `return` signal of the loop body -/
theorem anyall_loop_L2 {s t0 : State} {M nats srcs m} {a : Nat} {xs : List RVal} {pv : RVal} {J : State → Prop}
    {g : RVal → Bool} (h : LibEnv s M nats srcs) (hm : M m) (hp : PredOK_L2 ld pv J g xs) (hc : s.cell a = some (.list xs))
    (inv0 : AnyInv_L2 s s.frames.size m a pv J t0)
    (hv0 : (t0.frame s.frames.size).vars = [("lst", .ref a), ("pred", pv)])
    (t rv : Bool) (p0 p1 p2 p3 rp p6 : Pos) (what : String) (bd : Node)
    (hbd : ∀ st b st', Ev ld 4 s.frames.size (.call (.ident "pred" p1) [none] [.ident "element" p2] p3) st (.ok (.bool b) st') →
      Ev ld 7 s.frames.size bd st (.ok (if b = t then .ret (.bool rv) rp else .bool true) st')) :
    ∃ r t3, Ev ld (xs.length + 10) s.frames.size (.for ["element"] (.ident "lst" p0) bd what p6) t0 (.ok r t3) ∧ Ext s t3 ∧
      ((isCtl r = false ∧ ∀ v ∈ xs, g v ≠ t) ∨ (r = .ret (.bool rv) rp ∧ ∃ v ∈ xs, g v = t)) := by
  have ha : a < s.heap.size := cell_lt hc
  have hcge : s.frames.size ≤ s.frames.size := Nat.le_refl _
  have hcellI : ∀ st, AnyInv_L2 s s.frames.size m a pv J st → st.cell a = some (.list xs) := by
    intro st inv; rw [inv.ext.cell a ha]; exact hc
  have hstep : ∀ i (r : RVal) st v, (isCtl r = false ∧ (∀ w ∈ xs.take i, g w ≠ t) ∧ AnyInv_L2 s s.frames.size m a pv J st) →
      xs[i]? = some v →
      ∃ r' s', Ev ld 7 s.frames.size bd (st.put s.frames.size "element" v) (.ok r' s') ∧
        ((isCtl r' = false ∧ (isCtl r' = false ∧ (∀ w ∈ xs.take (i + 1), g w ≠ t) ∧ AnyInv_L2 s s.frames.size m a pv J s')) ∨
         ((∃ w p, r' = .ret w p) ∧ (r' = .ret (.bool rv) rp ∧ (∃ w ∈ xs, g w = t) ∧ AnyInv_L2 s s.frames.size m a pv J s'))) := by
    intro i r st v ⟨_, hpre, inv⟩ hv
    have hvars : ((st.put s.frames.size "element" v).frame s.frames.size).vars =
        [("lst", .ref a), ("pred", pv), ("element", v)] := by
      rw [vars_put_same _ _ _ inv.clt]
      rcases inv.vars with h | ⟨w, h⟩ <;> rw [h] <;> simp [dictPut]
    have hpar : ((st.put s.frames.size "element" v).frame s.frames.size).parent = some m := by
      rw [parent_put]; exact inv.parent
    have eu : Ext s (st.put s.frames.size "element" v) := inv.ext.put hcge _ _
    have hcltu : s.frames.size < (st.put s.frames.size "element" v).frames.size := by
      rw [frames_size_put]; exact inv.clt
    have fr := callFrame_self hpar (h.lt m hm)
    have hmem : v ∈ xs := List.mem_of_getElem? hv
    obtain ⟨st', e', hJ', hcall⟩ := hp.call (st.put s.frames.size "element" v) s.frames.size v p1 p2 p3
      (hp.heap _ _ inv.j rfl) (lookup_local fr (by rw [hvars]; rfl)) (lookup_local fr (by rw [hvars]; rfl)) hmem
    have inv' : AnyInv_L2 s s.frames.size m a pv J st' :=
      ⟨eu.trans e', hJ', by rw [e'.frame _ hcltu]; exact hpar, Nat.lt_of_lt_of_le hcltu e'.fsize,
        Or.inr ⟨v, by rw [e'.frame _ hcltu]; exact hvars⟩⟩
    refine ⟨_, st', hbd _ _ _ hcall, ?_⟩
    by_cases hg : g v = t
    · rw [if_pos hg]
      exact Or.inr ⟨⟨_, _, rfl⟩, rfl, ⟨v, hmem, hg⟩, inv'⟩
    · rw [if_neg hg]
      refine Or.inl ⟨rfl, rfl, ?_, inv'⟩
      intro w hw
      rw [List.take_add_one, hv] at hw
      simp at hw
      rcases hw with hw | rfl
      · exact hpre w hw
      · exact hg
  obtain ⟨r, st, hres, hloop⟩ := forListLive_ret_L2 ld (kb := 7) (env := s.frames.size) (x := "element") (a := a)
    (pos := p6) (body := bd) xs
    (fun i r st => isCtl r = false ∧ (∀ w ∈ xs.take i, g w ≠ t) ∧ AnyInv_L2 s s.frames.size m a pv J st)
    (fun r st => r = .ret (.bool rv) rp ∧ (∃ w ∈ xs, g w = t) ∧ AnyInv_L2 s s.frames.size m a pv J st)
    (fun i r st hI => hcellI st hI.2.2) hstep xs.length 0 (.bool true) t0 (by omega)
    ⟨rfl, by intro w hw; simp at hw, inv0⟩
  have inv : AnyInv_L2 s s.frames.size m a pv J st := by
    rcases hres with ⟨_, _, inv⟩ | ⟨_, _, _, inv⟩ <;> exact inv
  have hF := Ev.forList ld (k := 0) (kl := 7 + xs.length + 1) (what := what) (x := "element") (pos := p6) (body := bd)
    (by rw [hv0]; rfl)
    (Ev.ident ld (p := p0) (lookup_local (x := "lst") (callFrame_self inv0.parent (h.lt m hm)) (by rw [hv0]; rfl)))
    (hcellI t0 inv0) hloop (hcellI st inv)
  refine ⟨r, _, Ev.mono ld hF (by omega), ?_, ?_⟩
  · cases xs.isEmpty with
    | true => exact inv.ext
    | false => exact inv.ext.remove hcge _
  · rcases hres with ⟨hctl, hall, _⟩ | ⟨_, hr, hex, _⟩
    · rw [List.take_length] at hall
      exact Or.inl ⟨hctl, hall⟩
    · exact Or.inr ⟨hr, hex⟩

/-! ### the bodies -/

/-- the block of `any`: `for element in lst do if pred(element) then return TRUE; FALSE` (all positions generic) -/
theorem any_block_L2 {s s0 : State} {M nats srcs m} {a : Nat} {xs : List RVal} {pv : RVal} {J : State → Prop} {g : RVal → Bool}
    (h : LibEnv s M nats srcs) (hm : M m)
    (ctx : Ctx s0 M nats srcs s.frames.size m [("lst", .ref a), ("pred", pv)]) (e0 : Ext s s0)
    (hp : PredOK_L2 ld pv J g xs) (hJ : J s0) (hc : s.cell a = some (.list xs))
    (p0 p1 p2 p3 q1 rp q2 q3 p6 q7 bpos : Pos) (what : String) (b : Bool) :
    ∃ s' o, Ext s s' ∧ Ev ld (xs.length + 13) s.frames.size
      (.block [.for ["element"] (.ident "lst" p0)
          (.ite [.call (.ident "pred" p1) [none] [.ident "element" p2] p3] [.ret (.lit (.bool true) q1) rp]
            (.lit (.bool true) q2) q3) what p6,
        .lit (.bool false) q7] [] [] [] b bpos) s0 o ∧ postCall o = .ok (.bool (xs.any g)) s' := by
  have inv0 : AnyInv_L2 s s.frames.size m a pv J (ghostEnter s0 bpos) :=
    ⟨e0.ghostEnter _, hp.heap _ _ hJ rfl, ctx.fr.parent, ctx.clt, Or.inl ctx.fr.vars⟩
  obtain ⟨r, t3, hfor, E3, hres⟩ := anyall_loop_L2 ld h hm hp hc inv0 ctx.fr.vars true true p0 p1 p2 p3 rp p6 what
    (.ite [.call (.ident "pred" p1) [none] [.ident "element" p2] p3] [.ret (.lit (.bool true) q1) rp] (.lit (.bool true) q2) q3)
    (by
      intro st b st' hcall
      cases b with
      | true =>
        exact Ev.mono ld (Ev.ite ld (EvIf.true ld hcall (Ev.ret ld (k := 3) (by intro h; cases h) (Ev.litBool ld)))) (by decide)
      | false =>
        exact Ev.mono ld (Ev.ite ld (EvIf.false ld hcall (EvIf.else ld (Ev.litBool ld)))) (by decide))
  rcases hres with ⟨hctl, hall⟩ | ⟨rfl, hex⟩
  · refine ⟨ghostFin t3 bpos, _, E3.ghostFin _,
      Ev.mono ld (Ev.block ld (EvBody.cons ld (Ev.mono ld hfor (Nat.le_succ _)) hctl
        (EvBody.cons ld (Ev.litBool ld) rfl (EvBody.nil ld)))) (by omega), ?_⟩
    have : xs.any g = false := by
      rw [List.any_eq_false]; intro v hv; exact hall v hv
    rw [this]; rfl
  · refine ⟨ghostFin t3 bpos, _, E3.ghostFin _,
      Ev.mono ld (Ev.block ld (EvBody.stop ld hfor rfl)) (by omega), ?_⟩
    have : xs.any g = true := by
      rw [List.any_eq_true]; exact hex
    rw [this]; rfl

/-- the block of `all`: `for element in lst do if not pred(element) then return FALSE; TRUE` -/
theorem all_block_L2 {s s0 : State} {M nats srcs m} {a : Nat} {xs : List RVal} {pv : RVal} {J : State → Prop} {g : RVal → Bool}
    (h : LibEnv s M nats srcs) (hm : M m)
    (ctx : Ctx s0 M nats srcs s.frames.size m [("lst", .ref a), ("pred", pv)]) (e0 : Ext s s0)
    (hp : PredOK_L2 ld pv J g xs) (hJ : J s0) (hc : s.cell a = some (.list xs))
    (p0 p1 p2 p3 pn q1 rp q2 q3 p6 q7 bpos : Pos) (what : String) (b : Bool) :
    ∃ s' o, Ext s s' ∧ Ev ld (xs.length + 13) s.frames.size
      (.block [.for ["element"] (.ident "lst" p0)
          (.ite [.not (.call (.ident "pred" p1) [none] [.ident "element" p2] p3) pn] [.ret (.lit (.bool false) q1) rp]
            (.lit (.bool true) q2) q3) what p6,
        .lit (.bool true) q7] [] [] [] b bpos) s0 o ∧ postCall o = .ok (.bool (xs.all g)) s' := by
  have inv0 : AnyInv_L2 s s.frames.size m a pv J (ghostEnter s0 bpos) :=
    ⟨e0.ghostEnter _, hp.heap _ _ hJ rfl, ctx.fr.parent, ctx.clt, Or.inl ctx.fr.vars⟩
  obtain ⟨r, t3, hfor, E3, hres⟩ := anyall_loop_L2 ld h hm hp hc inv0 ctx.fr.vars false false p0 p1 p2 p3 rp p6 what
    (.ite [.not (.call (.ident "pred" p1) [none] [.ident "element" p2] p3) pn] [.ret (.lit (.bool false) q1) rp]
      (.lit (.bool true) q2) q3)
    (by
      intro st b st' hcall
      cases b with
      | true =>
        exact Ev.ite ld (EvIf.false ld (Ev.not ld hcall) (EvIf.else ld (Ev.litBool ld)))
      | false =>
        exact Ev.ite ld (EvIf.true ld (Ev.not ld hcall) (Ev.ret ld (k := 4) (by intro h; cases h) (Ev.litBool ld))))
  rcases hres with ⟨hctl, hall⟩ | ⟨rfl, hex⟩
  · refine ⟨ghostFin t3 bpos, _, E3.ghostFin _,
      Ev.mono ld (Ev.block ld (EvBody.cons ld (Ev.mono ld hfor (Nat.le_succ _)) hctl
        (EvBody.cons ld (Ev.litBool ld) rfl (EvBody.nil ld)))) (by omega), ?_⟩
    have : xs.all g = true := by
      rw [List.all_eq_true]; intro v hv
      have := hall v hv
      cases hgv : g v with
      | true => rfl
      | false => exact absurd hgv this
    rw [this]; rfl
  · refine ⟨ghostFin t3 bpos, _, E3.ghostFin _,
      Ev.mono ld (Ev.block ld (EvBody.stop ld hfor rfl)) (by omega), ?_⟩
    have : xs.all g = false := by
      rw [List.all_eq_false]
      obtain ⟨v, hv, hgv⟩ := hex
      exact ⟨v, hv, by rw [hgv]; decide⟩
    rw [this]; rfl

theorem any_body {s s0 : State} {M nats srcs m} {a : Nat} {xs : List RVal} {pv : RVal} {J : State → Prop} {g : RVal → Bool}
    (h : LibEnv s M nats srcs) (hm : M m)
    (ctx : Ctx s0 M nats srcs s.frames.size m [("lst", .ref a), ("pred", pv)]) (e0 : Ext s s0)
    (hp : PredOK_L2 ld pv J g xs) (hJ : J s0) (hc : s.cell a = some (.list xs)) :
    ∃ s' o, Ext s s' ∧ Ev ld (xs.length + 13) s.frames.size (lamBody core_any) s0 o ∧
      postCall o = .ok (.bool (xs.any g)) s' := by
  unfold lamBody core_any
  exact any_block_L2 ld h hm ctx e0 hp hJ hc _ _ _ _ _ _ _ _ _ _ _ _ _

theorem all_body {s s0 : State} {M nats srcs m} {a : Nat} {xs : List RVal} {pv : RVal} {J : State → Prop} {g : RVal → Bool}
    (h : LibEnv s M nats srcs) (hm : M m)
    (ctx : Ctx s0 M nats srcs s.frames.size m [("lst", .ref a), ("pred", pv)]) (e0 : Ext s s0)
    (hp : PredOK_L2 ld pv J g xs) (hJ : J s0) (hc : s.cell a = some (.list xs)) :
    ∃ s' o, Ext s s' ∧ Ev ld (xs.length + 13) s.frames.size (lamBody core_all) s0 o ∧
      postCall o = .ok (.bool (xs.all g)) s' := by
  unfold lamBody core_all
  exact all_block_L2 ld h hm ctx e0 hp hJ hc _ _ _ _ _ _ _ _ _ _ _ _ _ _

/-! ### from the bodies to `fn.execute` -/

/-- the callee state of a call with the lambda default: context, extension, and the cell of the default lambda -/
theorem ctx_calleeStateLam_L2 {s : State} {M nats srcs m} (h : LibEnv s M nats srcs) (hm : M m) (q1 q2 : String) (hne : q1 ≠ q2)
    (v : RVal) (ps : List String) (ds : List Node) (lbody : Node) :
    Ctx (calleeStateLam_L2 s m q1 q2 v ps ds lbody) M nats srcs s.frames.size m [(q1, v), (q2, .closure s.heap.size)] ∧
    Ext s (calleeStateLam_L2 s m q1 q2 v ps ds lbody) ∧
    (calleeStateLam_L2 s m q1 q2 v ps ds lbody).cell s.heap.size = some (.closure s.frames.size ps ds lbody "lambda") := by
  have hlt : s.frames.size < (s.newEnv m).1.frames.size := by rw [frames_size_newEnv]; omega
  have hqp : ¬ q2 = q1 := fun h => hne h.symm
  have e : Ext s (calleeStateLam_L2 s m q1 q2 v ps ds lbody) :=
    ((((Ext.refl s).newEnv m).put (Nat.le_refl _) q1 v).alloc _).put (Nat.le_refl _) q2 _
  refine ⟨⟨h.ext e, hm, ⟨?_, ?_, h.lt m hm⟩, ?_⟩, e, ?_⟩
  · unfold calleeStateLam_L2
    rw [vars_put_same _ _ _ (by show s.frames.size < ((s.newEnv m).1.put _ _ _).frames.size; rw [frames_size_put]; exact hlt),
      frame_alloc, vars_put_same _ _ _ hlt, frame_newEnv_new]
    simp [dictPut, hqp]
  · unfold calleeStateLam_L2
    rw [parent_put, frame_alloc, parent_put, frame_newEnv_new]
  · unfold calleeStateLam_L2
    rw [frames_size_put]
    show s.frames.size < ((s.newEnv m).1.put _ _ _).frames.size
    rw [frames_size_put]; exact hlt
  · unfold calleeStateLam_L2
    rw [cell_put]
    exact cell_alloc_new ((s.newEnv m).1.put s.frames.size q1 v) _

/-- from the body to `fn.execute` for a two-parameter definition (any defaults), both parameters bound -/
theorem calls_of_body2D_L2 {src : Node} {q1 q2 : String} {body : Node} {k : Nat} {v : RVal}
    (hps : lamParams src = [q1, q2]) (hlen : (lamDefaults src).length = 2) (hbody : lamBody src = body)
    (hk : 2 ≤ k) (hne : q1 ≠ q2)
    {s : State} {M nats srcs fn m} (h : LibEnv s M nats srcs) (hm : M m) (hsrc : IsSrc s fn src m)
    (v1 v2 : RVal)
    (hb : ∀ s0, Ctx s0 M nats srcs s.frames.size m [(q1, v1), (q2, v2)] → Ext s s0 →
      ∃ s' o, Ext s s' ∧ Ev ld k s.frames.size body s0 o ∧ postCall o = .ok v s') :
    ∃ s', Ext s s' ∧ ∀ env pos, Calls ld (k + 1) fn [(q1, v1), (q2, v2)] env pos s (.ok v s') := by
  obtain ⟨a, nm, rfl, hcell⟩ := hsrc
  rw [hps, hbody] at hcell
  obtain ⟨s', o, e', hev, ho⟩ := hb _ (Ctx.callee2 h hm q1 q2 v1 v2 hne) (calleeState_ext s m [(q1, v1), (q2, v2)] [q1, q2])
  refine ⟨s', e', fun env pos => ?_⟩
  have hqp : ¬ q2 = q1 := fun h => hne h.symm
  rw [← ho]
  exact Calls.closure ld hcell (by simp [hlen]) hk
    (by intro p hp; simp at hp; rcases hp with rfl | rfl <;> simp [dictGet, hqp]) hev

/-- `any(lst)` — the predicate NOT passed (default `fn(x) x`) — on a cell holding a list of booleans -/
theorem any_calls_default {s : State} {M nats srcs fn m} (h : LibEnv s M nats srcs) (hm : M m) (hsrc : IsSrc s fn core_any m)
    (a : Nat) (bs : List Bool) (hc : s.cell a = some (.list (bs.map .bool))) :
    ∃ s', Ext s s' ∧ ∀ env pos, Calls ld (bs.length + 14) fn [("lst", .ref a)] env pos s (.ok (.bool (bs.any id)) s') := by
  obtain ⟨c0, nm, rfl, hcell⟩ := hsrc
  obtain ⟨ctx, e0, hcl⟩ := ctx_calleeStateLam_L2 h hm "lst" "pred" (by decide) (.ref a) ["x"] [.absent]
    (lamBody ((lamDefaults core_any).getD 1 .absent |> fun d => .defn "" d "" default))
  obtain ⟨s', o, e', hev, ho⟩ := any_body ld h hm ctx e0 (predOK_default_L2 ld _ _ _ _ bs) hcl hc
  refine ⟨s', e', fun env pos => ?_⟩
  have hany : (bs.map RVal.bool).any boolOf_L2 = bs.any id := by
    rw [List.any_map]; rfl
  rw [← hany, ← ho]
  rw [List.length_map] at hev
  exact Calls.lambdaDefault2_L2 ld hcell (by omega) (by rfl) (by rfl) hev

/-- `all(lst)` with the default predicate on a cell holding a list of booleans -/
theorem all_calls_default {s : State} {M nats srcs fn m} (h : LibEnv s M nats srcs) (hm : M m) (hsrc : IsSrc s fn core_all m)
    (a : Nat) (bs : List Bool) (hc : s.cell a = some (.list (bs.map .bool))) :
    ∃ s', Ext s s' ∧ ∀ env pos, Calls ld (bs.length + 14) fn [("lst", .ref a)] env pos s (.ok (.bool (bs.all id)) s') := by
  obtain ⟨c0, nm, rfl, hcell⟩ := hsrc
  obtain ⟨ctx, e0, hcl⟩ := ctx_calleeStateLam_L2 h hm "lst" "pred" (by decide) (.ref a) ["x"] [.absent]
    (lamBody ((lamDefaults core_all).getD 1 .absent |> fun d => .defn "" d "" default))
  obtain ⟨s', o, e', hev, ho⟩ := all_body ld h hm ctx e0 (predOK_default_L2 ld _ _ _ _ bs) hcl hc
  refine ⟨s', e', fun env pos => ?_⟩
  have hall : (bs.map RVal.bool).all boolOf_L2 = bs.all id := by
    rw [List.all_map]; rfl
  rw [← hall, ← ho]
  rw [List.length_map] at hev
  exact Calls.lambdaDefault2_L2 ld hcell (by omega) (by rfl) (by rfl) hev

/-- `any(lst, pred)` with an explicitly passed predicate satisfying `PredOK_L2` with a state-independent `J` -/
theorem any_calls_pred {s : State} {M nats srcs fn m} (h : LibEnv s M nats srcs) (hm : M m) (hsrc : IsSrc s fn core_any m)
    (a : Nat) (xs : List RVal) (hc : s.cell a = some (.list xs)) {pv : RVal} {J : State → Prop} {g : RVal → Bool}
    (hp : PredOK_L2 ld pv J g xs) (hJ : ∀ s0, Ext s s0 → J s0) :
    ∃ s', Ext s s' ∧ ∀ env pos, Calls ld (xs.length + 14) fn [("lst", .ref a), ("pred", pv)] env pos s
      (.ok (.bool (xs.any g)) s') :=
  calls_of_body2D_L2 ld (src := core_any) rfl rfl rfl (by omega) (by decide) h hm hsrc (.ref a) pv
    (fun s0 ctx e0 => any_body ld h hm ctx e0 hp (hJ s0 e0) hc)

theorem all_calls_pred {s : State} {M nats srcs fn m} (h : LibEnv s M nats srcs) (hm : M m) (hsrc : IsSrc s fn core_all m)
    (a : Nat) (xs : List RVal) (hc : s.cell a = some (.list xs)) {pv : RVal} {J : State → Prop} {g : RVal → Bool}
    (hp : PredOK_L2 ld pv J g xs) (hJ : ∀ s0, Ext s s0 → J s0) :
    ∃ s', Ext s s' ∧ ∀ env pos, Calls ld (xs.length + 14) fn [("lst", .ref a), ("pred", pv)] env pos s
      (.ok (.bool (xs.all g)) s') :=
  calls_of_body2D_L2 ld (src := core_all) rfl rfl rfl (by omega) (by decide) h hm hsrc (.ref a) pv
    (fun s0 ctx e0 => all_body ld h hm ctx e0 hp (hJ s0 e0) hc)

end Ckl.C19Src
