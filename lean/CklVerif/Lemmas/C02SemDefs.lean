/-
  C02 (semantic half) — definitions.

  A DENOTATIONAL semantics of the expression trees `E` of `Lemmas/C02ParseDefs.lean`, written from the
  text of the property and not by calling the evaluator:

    * semantic values `V`: NULL, booleans, unbounded ints (`Int`).  Decimals are NOT modelled here: the
      model's decimal arithmetic goes through the machine's binary64 operations (`Float`), which the
      kernel cannot compute with — every statement of this family is about operands that are NULL,
      booleans or ints;
    * results `Res`: a value, or THE runtime error (a `CklRuntimeError` whose value is the string
      `'ERROR'`).  Error propagation is explicit: operands are evaluated left to right and the first
      error wins;
    * identifiers are looked up in a partial valuation `ρ`; an identifier without a value is the
      runtime error ("Symbol … not defined");
    * `+ - *` are the operations of `Int`; `/` is `Int.tdiv` (truncation toward zero), `%` is
      `Int.fmod` (floored: the remainder has the sign of the divisor, as in Python); an operand NULL
      makes the result NULL (after BOTH operands have been evaluated); any other operand kind
      (a boolean) is the runtime error;
    * division by the int zero is the runtime error, or the configured replacement value `d0`
      (`DIV_0_VALUE`) when there is one; modulo by zero is always the runtime error;
    * `== != <>` never fail: values of different kinds are unequal;
      `< <= > >=` compare ints numerically and booleans with FALSE < TRUE; what the language defines
      for operands of different kinds (and for NULL) is the code-point order of their TEXTS
      (`NULL`, `TRUE`, `FALSE`, the decimal digits of the int) — `V.lt`;
      `a <= b` is `a < b or a == b`, `a > b` is `not a < b and a != b`, `a >= b` is `not a < b`
      (for ints and for booleans these are the mathematical relations: `relSem_int`, `relSem_bool`);
    * a comparison chain `a op₁ b op₂ c …` is the short-circuit conjunction of its adjacent pairs,
      evaluated left to right (`andSem`); the parser builds `NodeAnd [op₁(a, b), op₂(b, c), …]`, so the
      middle operand `b` is EVALUATED TWICE when `a op₁ b` is TRUE and once when it is FALSE (or fails);
      expressions have no side effects, so this is visible only in the fuel the evaluator needs;
    * `not`, `and`, `or` accept only booleans (anything else is the runtime error at the moment the
      operand is inspected), and `and` / `or` stop at the first FALSE / TRUE operand: operands to the
      right of it are not evaluated, so their errors do not occur;
    * unary minus is `0 - e`; explicit parentheses only group.
-/
import CklVerif.Lemmas.C02ParseDefs
import CklVerif.Model.Eval
namespace Ckl.C02S
open Ckl Ckl.C02P

/-- semantic values: NULL, booleans, unbounded integers -/
inductive V where
  | null
  | bool (b : Bool)
  | int (n : Int)
deriving DecidableEq, Repr, Inhabited

/-- the result of an expression: a value, or the runtime error with value `'ERROR'` -/
inductive Res where
  | val (v : V)
  | error
deriving DecidableEq, Repr, Inhabited

/-- partial valuation of the identifiers -/
abbrev Valuation := List Char → Option V

/-! ### arithmetic -/

/-- `x op y` for an arithmetic operator whose int case is `f`: NULL if an operand is NULL, `f` on two
    ints, otherwise (a boolean operand) the runtime error -/
def arithV (f : Int → Int → Res) : V → V → Res
  | .null, _ => .val .null
  | _, .null => .val .null
  | .int a, .int b => f a b
  | _, _ => .error

/-- both operands are evaluated, left to right; the first error wins -/
def lift2 (f : V → V → Res) : Res → Res → Res
  | .error, _ => .error
  | .val _, .error => .error
  | .val a, .val b => f a b

def divInt (d0 : Option V) (a b : Int) : Res :=
  if b = 0 then (match d0 with | some v => .val v | none => .error) else .val (.int (Int.tdiv a b))

def modInt (a b : Int) : Res :=
  if b = 0 then .error else .val (.int (Int.fmod a b))

def addSem : Res → Res → Res := lift2 (arithV fun a b => .val (.int (a + b)))
def subSem : Res → Res → Res := lift2 (arithV fun a b => .val (.int (a - b)))
def mulSem : Res → Res → Res := lift2 (arithV fun a b => .val (.int (a * b)))
def divSem (d0 : Option V) : Res → Res → Res := lift2 (arithV (divInt d0))
def modSem : Res → Res → Res := lift2 (arithV modInt)

def addOpSem : AddOp → Res → Res → Res
  | .add => addSem
  | .sub => subSem

def mulOpSem (d0 : Option V) : MulOp → Res → Res → Res
  | .mul => mulSem
  | .div => divSem d0
  | .mod => modSem

/-! ### comparison -/

/-- the text of a value, as the language prints it (ints: decimal digits, `Nat.toDigits` of core) -/
def V.text : V → List Char
  | .null => ['N', 'U', 'L', 'L']
  | .bool true => ['T', 'R', 'U', 'E']
  | .bool false => ['F', 'A', 'L', 'S', 'E']
  | .int n => if n < 0 then '-' :: Nat.toDigits 10 n.natAbs else Nat.toDigits 10 n.natAbs

/-- code-point lexicographic order of texts -/
def textLt : List Char → List Char → Bool
  | [], [] => false
  | [], _ :: _ => true
  | _ :: _, [] => false
  | a :: as, b :: bs => if a.toNat < b.toNat then true else if b.toNat < a.toNat then false else textLt as bs

/-- `==`: same kind and same value -/
def V.eq : V → V → Bool
  | .null, .null => true
  | .bool a, .bool b => a == b
  | .int a, .int b => decide (a = b)
  | _, _ => false

/-- `<`: numeric on ints, FALSE < TRUE on booleans, the order of the texts otherwise -/
def V.lt : V → V → Bool
  | .int a, .int b => decide (a < b)
  | .bool a, .bool b => !a && b
  | a, b => textLt a.text b.text

def relV : RelOp → V → V → Bool
  | .eq, a, b => a.eq b
  | .ne, a, b => !a.eq b
  | .ne2, a, b => !a.eq b
  | .lt, a, b => a.lt b
  | .le, a, b => a.lt b || a.eq b
  | .gt, a, b => !a.lt b && !a.eq b
  | .ge, a, b => !a.lt b

/-- a comparison never fails on NULL / booleans / ints; errors of the operands propagate -/
def relSem (op : RelOp) : Res → Res → Res := lift2 fun a b => .val (.bool (relV op a b))

/-! ### `not`, `and`, `or` -/

def notSem : Res → Res
  | .val (.bool b) => .val (.bool (!b))
  | _ => .error

/-- short-circuit conjunction of the clause results, left to right: the first clause that is an error
    or not a boolean makes the result the error, the first FALSE clause makes it FALSE; the clauses
    after it are not looked at -/
def andSem : List Res → Res
  | [] => .val (.bool true)
  | .val (.bool true) :: rs => andSem rs
  | .val (.bool false) :: _ => .val (.bool false)
  | _ :: _ => .error

def orSem : List Res → Res
  | [] => .val (.bool false)
  | .val (.bool false) :: rs => orSem rs
  | .val (.bool true) :: _ => .val (.bool true)
  | _ :: _ => .error

/-! ### the denotation -/

def denoteAtom (ρ : Valuation) : Atom → Res
  | .ident x => match ρ x with
    | some v => .val v
    | none => .error
  | .int _ n _ => .val (.int n)
  | .bool b => .val (.bool b)

section
variable (d0 : Option V) (ρ : Valuation)

mutual
/-- the value the language defines for the expression `e` under the valuation `ρ`, with `d0` the
    configured replacement value of a division by zero (`none`: not configured) -/
def denote : E → Res
  | .atom a => denoteAtom ρ a
  | .or a b more => orSem (denote a :: denote b :: denoteL more)
  | .and a b more => andSem (denote a :: denote b :: denoteL more)
  | .not e => notSem (denote e)
  | .cmp a op b more => andSem (relSem op (denote a) (denote b) :: denoteC (denote b) more)
  | .add op l r => addOpSem op (denote l) (denote r)
  | .mul op l r => mulOpSem d0 op (denote l) (denote r)
  | .neg e => subSem (.val (.int 0)) (denote e)
  | .paren e => denote e
def denoteL : List E → List Res
  | [] => []
  | e :: es => denote e :: denoteL es
/-- the adjacent pairs of a comparison chain whose previous operand has the result `lhs` -/
def denoteC (lhs : Res) : List (RelOp × E) → List Res
  | [] => []
  | (op, e) :: cs => relSem op lhs (denote e) :: denoteC (denote e) cs
end
end

/-! ### identifiers, size, fuel -/

mutual
/-- the identifiers occurring in an expression -/
def idents : E → List (List Char)
  | .atom (.ident x) => [x]
  | .atom _ => []
  | .or a b more => idents a ++ (idents b ++ identsL more)
  | .and a b more => idents a ++ (idents b ++ identsL more)
  | .not e => idents e
  | .cmp a _ b more => idents a ++ (idents b ++ identsC more)
  | .add _ l r => idents l ++ idents r
  | .mul _ l r => idents l ++ idents r
  | .neg e => idents e
  | .paren e => idents e
def identsL : List E → List (List Char)
  | [] => []
  | e :: es => idents e ++ identsL es
def identsC : List (RelOp × E) → List (List Char)
  | [] => []
  | (_, e) :: cs => idents e ++ identsC cs
end

mutual
/-- number of constructors -/
def size : E → Nat
  | .atom _ => 1
  | .or a b more => size a + size b + sizeL more + 1
  | .and a b more => size a + size b + sizeL more + 1
  | .not e => size e + 1
  | .cmp a _ b more => size a + size b + sizeC more + 1
  | .add _ l r => size l + size r + 1
  | .mul _ l r => size l + size r + 1
  | .neg e => size e + 1
  | .paren e => size e + 1
def sizeL : List E → Nat
  | [] => 0
  | e :: es => size e + sizeL es
def sizeC : List (RelOp × E) → Nat
  | [] => 0
  | (_, e) :: cs => size e + sizeC cs
end

mutual
/-- fuel that suffices to evaluate `toNode e`: a binary operator costs 4 units on top of its operands
    (callee look-up, `invoke`, one `evalArgs` step per argument), a clause of an n-ary `and` / `or`
    one unit per position -/
def need : E → Nat
  | .atom _ => 1
  | .or a b more => max (need a) (max (need b) (needL more + 1) + 1) + 2
  | .and a b more => max (need a) (max (need b) (needL more + 1) + 1) + 2
  | .not e => need e + 1
  | .cmp a _ b more => max (max (need a) (need b) + 4) (needC (need b) more) + 2
  | .add _ l r => max (need l) (need r) + 4
  | .mul _ l r => max (need l) (need r) + 4
  | .neg e => need e + 4
  | .paren e => need e
/-- fuel for `evalAnd` / `evalOr` on the clauses `es` -/
def needL : List E → Nat
  | [] => 1
  | e :: es => max (need e) (needL es) + 1
/-- fuel for `evalAnd` on the remaining pairs of a chain whose previous operand needs `nl` -/
def needC (nl : Nat) : List (RelOp × E) → Nat
  | [] => 1
  | (_, e) :: cs => max (max nl (need e) + 4) (needC (need e) cs) + 1
end

/-! ### the hypotheses on the state -/

def V.toR : V → RVal
  | .null => .null
  | .bool b => .bool b
  | .int n => .int n

/-- the runtime error value `'ERROR'` -/
def ERR : RVal := .str ['E', 'R', 'R', 'O', 'R']

/-- the names the parser desugars the binary operators to -/
def opNames : List String :=
  ["add", "sub", "mul", "div", "mod", "equals", "not_equals", "less", "less_equals", "greater", "greater_equals"]

/-- (b) every operator name resolves, from frame `env`, to the built-in of that name (it is not shadowed
    by a user definition) -/
def OpsBound (s : State) (env : EnvId) : Prop :=
  ∀ fn ∈ opNames, ∃ inst, s.lookup env fn = some (.native fn inst)

/-- `DIV_0_VALUE` is undefined (`d0 = none`) or bound to the value `d0` -/
def Div0 (s : State) (env : EnvId) (d0 : Option V) : Prop :=
  s.lookup env "DIV_0_VALUE" = d0.map V.toR

/-- (a) the identifier `x` is bound to its value under `ρ`; an identifier without a value is unbound
    (and is not one of the library symbols the model leaves uninterpreted) -/
def Bound (ld : Loader) (s : State) (env : EnvId) (ρ : Valuation) (x : List Char) : Prop :=
  match ρ x with
  | some v => s.lookup env (String.ofList x) = some v.toR
  | none => s.lookup env (String.ofList x) = none ∧ ld.baseNames.contains (String.ofList x) = false

/-- the outcome `o` of the evaluator IS the result `r`, in the unchanged state `s`: the value, or a
    runtime error whose value is `'ERROR'` (message, position and call trace are not specified) -/
def Is (o : Out RVal) (r : Res) (s : State) : Prop :=
  match r with
  | .val v => o = .ok v.toR s
  | .error => ∃ msg pos trace, o = .err ERR msg pos trace s

end Ckl.C02S
