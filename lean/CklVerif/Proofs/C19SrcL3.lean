/-
  C19Src (continuation, worker L3) — list.ckl `filter`, `flatten` (and `unique`): theorems about the GENERATED terms
  `Gen.LibSrc.list_filter`, `list_flatten`, `list_unique`, evaluated by the model evaluator (`callFn`).

  Reading guide: as in `Proofs/C19Src.lean` (`LibEnv`, `IsSrc`, `Ext`).  New notions:
  * `BoolOp_L3 nm q P g`: `nm` is a unary built-in (parameter `q`) that on every value satisfying `P` returns the boolean `g x`
    without touching the state (instances: `is_null`, `is_not_null`).
  * `Plain_L3 v`: `v` is neither a control signal nor a function value made by a lambda.  Both restrictions are needed:
    `def val = key(element)` in the loop body RENAMES a lambda value (the model follows the interpreter: `def` sets the name of
    a `FuncLambda`), which changes an existing heap cell — so `filter` / `unique` on a list of lambdas is NOT `Ext`.
  * `splice_L3 s x` / `flattenExp_L3 s xs`: the items the element `x` contributes to `flatten` (content of the cell if `x` is a
    reference to a list cell, `[x]` otherwise) / their concatenation.
  * `RefsIn_L3 s xs`: references among the elements point into the heap of `s` (a dangling reference `.ref s.heap.size` would
    start to denote the result cell during the call).
-/
import CklVerif.Lemmas.C19SrcUniqueL3
import CklVerif.Lemmas.C19SrcLoad
namespace Ckl.C19Src
open Ckl Ckl.Lib Ckl.Gen.LibSrc
variable (ld : Loader)

/-! ## 1  list.ckl: `filter(lst, predicate, key = identity)` with the default key -/

/-- **The source of `filter`, called without `key`, computes `List.filter`.**  `lst` a list cell `a` holding `xs`, `predicate` a
    unary built-in with boolean meaning `g` on the elements (`BoolOp_L3`), every element plain (`Plain_L3`): the default
    `key = identity` is resolved through the environment while the callee frame is filled, and the call returns a reference to a
    FRESH cell `b` (`s.heap.size ≤ b`) holding `xs.filter g`; the argument cell and everything else that existed is unchanged
    (`Ext`); explicit fuel bound `xs.length + 25`. -/
theorem filter_src_default {s : State} {M nats srcs fn m} (h : LibEnv s M nats srcs) (hn : ∀ x ∈ filterNats, x ∈ nats)
    (hm : M m) (hsrc : IsSrc s fn list_filter m) {nm q : String} {P : RVal → Prop} {g : RVal → Bool}
    (hop : BoolOp_L3 nm q P g) (i : Nat) (a : Nat) (xs : List RVal)
    (hc : s.cell a = some (.list xs)) (hP : ∀ x ∈ xs, P x) (hpl : ∀ x ∈ xs, Plain_L3 x) :
    ∃ s' b, Ext s s' ∧ s.heap.size ≤ b ∧ s'.cell b = some (.list (xs.filter g)) ∧ s'.cell a = some (.list xs) ∧
      ∀ fuel env pos, xs.length + 25 < fuel →
        callFn ld fuel fn [("lst", .ref a), ("predicate", .native nm i)] env pos s = .ok (.ref b) s' := by
  obtain ⟨s', e, ⟨h1, h2⟩, c⟩ := filter_calls_default ld h hn hm hsrc hop i a xs hc hP hpl
  exact ⟨s', _, e, h1, h2, by rw [e.cell a (cell_lt hc)]; exact hc, fun fuel env pos hf => c env pos fuel hf⟩

/-- … which is the hand-written mirror `Lib.filterM` of C19 with `key = id` -/
theorem filter_src_eq_mirror {s : State} {M nats srcs fn m} (h : LibEnv s M nats srcs) (hn : ∀ x ∈ filterNats, x ∈ nats)
    (hm : M m) (hsrc : IsSrc s fn list_filter m) {nm q : String} {P : RVal → Prop} {g : RVal → Bool}
    (hop : BoolOp_L3 nm q P g) (i : Nat) (a : Nat) (xs : List RVal)
    (hc : s.cell a = some (.list xs)) (hP : ∀ x ∈ xs, P x) (hpl : ∀ x ∈ xs, Plain_L3 x) :
    ∃ s' b, Ext s s' ∧ s.heap.size ≤ b ∧ s'.cell b = some (.list (filterM g id xs)) ∧ s'.cell a = some (.list xs) ∧
      ∀ fuel env pos, xs.length + 25 < fuel →
        callFn ld fuel fn [("lst", .ref a), ("predicate", .native nm i)] env pos s = .ok (.ref b) s' := by
  rw [filterM_eq_L3]; exact filter_src_default ld h hn hm hsrc hop i a xs hc hP hpl

/-- the instance `filter(lst, is_not_null)`: the NULLs are dropped, everything else is kept in order -/
theorem filter_src_is_not_null {s : State} {M nats srcs fn m} (h : LibEnv s M nats srcs) (hn : ∀ x ∈ filterNats, x ∈ nats)
    (hm : M m) (hsrc : IsSrc s fn list_filter m) (i : Nat) (a : Nat) (xs : List RVal)
    (hc : s.cell a = some (.list xs)) (hpl : ∀ x ∈ xs, Plain_L3 x) :
    ∃ s' b, Ext s s' ∧ s.heap.size ≤ b ∧ s'.cell b = some (.list (xs.filter (fun x => !x.isNull))) ∧
      s'.cell a = some (.list xs) ∧
      ∀ fuel env pos, xs.length + 25 < fuel →
        callFn ld fuel fn [("lst", .ref a), ("predicate", .native "is_not_null" i)] env pos s = .ok (.ref b) s' :=
  filter_src_default ld h hn hm hsrc boolOp_is_not_null_L3 i a xs hc (fun _ _ => trivial) hpl

/-- the two instances of `BoolOp_L3` -/
example : BoolOp_L3 "is_null" "obj" (fun _ => True) RVal.isNull ∧
    BoolOp_L3 "is_not_null" "obj" (fun _ => True) (fun x => !x.isNull) := ⟨boolOp_is_null_L3, boolOp_is_not_null_L3⟩

/-! ## 2  list.ckl: `flatten(lst)` -/

/-- **The source of `flatten` flattens one level.**  `lst` a list cell `a` holding `xs` (ANY elements; references among them
    point into the heap): the call returns `.ref b` for the FRESH cell `b = s.heap.size`, which holds the concatenation of
    `splice_L3 s x` over the elements — the content of the cell for an element that is a reference to a list cell (spliced by the
    library function `append_all`, a mutator of the fresh result cell only), the element itself otherwise.  The argument cell, the
    inner list cells and everything else that existed is unchanged (`Ext`).  Explicit fuel bound
    `xs.length + (length of the result) + 25`. -/
theorem flatten_src {s : State} {M nats srcs fn m} (h : LibEnv s M nats srcs) (hn : ∀ x ∈ flattenNats, x ∈ nats)
    (hs : ∀ p ∈ flattenSrcs, p ∈ srcs) (hm : M m) (hsrc : IsSrc s fn list_flatten m) (a : Nat) (xs : List RVal)
    (hc : s.cell a = some (.list xs)) (hrefs : RefsIn_L3 s xs) :
    ∃ s' b, Ext s s' ∧ s.heap.size ≤ b ∧ s'.cell b = some (.list (flattenExp_L3 s xs)) ∧ s'.cell a = some (.list xs) ∧
      ∀ fuel env pos, xs.length + (flattenExp_L3 s xs).length + 25 < fuel →
        callFn ld fuel fn [("lst", .ref a)] env pos s = .ok (.ref b) s' := by
  obtain ⟨s', e, h2, c⟩ := flatten_calls_list ld h hn hs hm hsrc a xs hc hrefs
  exact ⟨s', _, e, Nat.le_refl _, h2, by rw [e.cell a (cell_lt hc)]; exact hc, fun fuel env pos hf => c env pos fuel hf⟩

/-- no element is a list: `flatten` returns a fresh copy -/
theorem flatten_src_no_list {s : State} {M nats srcs fn m} (h : LibEnv s M nats srcs) (hn : ∀ x ∈ flattenNats, x ∈ nats)
    (hs : ∀ p ∈ flattenSrcs, p ∈ srcs) (hm : M m) (hsrc : IsSrc s fn list_flatten m) (a : Nat) (xs : List RVal)
    (hc : s.cell a = some (.list xs)) (hrefs : RefsIn_L3 s xs) (hno : ∀ x ∈ xs, isListR s x = false) :
    ∃ s' b, Ext s s' ∧ s.heap.size ≤ b ∧ s'.cell b = some (.list xs) ∧ s'.cell a = some (.list xs) ∧
      ∀ fuel env pos, 2 * xs.length + 25 < fuel → callFn ld fuel fn [("lst", .ref a)] env pos s = .ok (.ref b) s' := by
  obtain ⟨s', b, e, h1, h2, h3, c⟩ := flatten_src ld h hn hs hm hsrc a xs hc hrefs
  rw [flattenExp_nolist_L3 s xs hno] at h2 c
  exact ⟨s', b, e, h1, h2, h3, fun fuel env pos hf => c fuel env pos (by omega)⟩

/-- … through the mirror `Lib.flattenM` of C19: for every reading `f` of the atoms as `Val`s that never yields a `Val.list`, the
    result, read through `f`, is `flattenM` of the argument read one level deep (`toVal1_L3`) -/
theorem flatten_src_eq_mirror {s : State} {M nats srcs fn m} (h : LibEnv s M nats srcs) (hn : ∀ x ∈ flattenNats, x ∈ nats)
    (hs : ∀ p ∈ flattenSrcs, p ∈ srcs) (hm : M m) (hsrc : IsSrc s fn list_flatten m) (a : Nat) (xs : List RVal)
    (hc : s.cell a = some (.list xs)) (hrefs : RefsIn_L3 s xs) (f : RVal → Val) (hf : ∀ x ys, f x ≠ .list ys) :
    ∃ s' b ys, Ext s s' ∧ s.heap.size ≤ b ∧ s'.cell b = some (.list ys) ∧
      ys.map f = flattenM (xs.map (toVal1_L3 s f)) ∧
      ∀ fuel env pos, xs.length + ys.length + 25 < fuel → callFn ld fuel fn [("lst", .ref a)] env pos s = .ok (.ref b) s' := by
  obtain ⟨s', b, e, h1, h2, _, c⟩ := flatten_src ld h hn hs hm hsrc a xs hc hrefs
  exact ⟨s', b, _, e, h1, h2, flattenExp_eq_mirror_L3 s f hf xs, c⟩

/-! ## 3  the hypotheses are satisfiable -/

/-- the built-ins / definitions of `Proofs/C19Src.lean` §10 plus the ones needed here -/
def loadNats_L3 : List String := loadNats ++ ["identity", "is_not_null"]
def loadDefs_L3 : List Node := loadDefs ++ [list_filter, list_flatten, list_unique]

theorem loadDefs_names_L3 : loadDefs_L3.map defName =
    ["is_int", "is_decimal", "is_numeric", "is_list", "abs", "sign", "is_even", "is_odd", "gcd", "is_zero", "is_negative",
     "is_positive", "first", "last", "rest", "reverse_list", "reduce", "prod", "append_all", "non_empty", "const",
     "filter", "flatten", "unique"] := rfl

theorem loadDefs_isDefLam_L3 : ∀ d ∈ loadDefs_L3, IsDefLam d := by
  intro d hd
  rcases List.mem_append.1 hd with h | h
  · exact loadDefs_isDefLam d h
  · simp only [List.mem_cons, List.not_mem_nil, or_false] at h
    rcases h with rfl | rfl | rfl <;> exact ⟨_, _, _, _, _, _, _, rfl⟩

/-- the driver's initial state with the built-ins `loadNats_L3`, then the generated definitions `loadDefs_L3` evaluated in the
    session frame 1: `LibEnv` holds -/
theorem loaded_libEnv_L3 (secure : Bool) :
    ∃ s', LibEnv s' (· = 1) loadNats_L3 (loadDefs_L3.map (fun d => (defName d, d))) := by
  obtain ⟨v, s', _, h2, _⟩ := load_defs_libEnv default loadDefs_L3 loadDefs_isDefLam_L3
    (by rw [loadDefs_names_L3]; decide) loadNats_L3 (by rw [loadDefs_names_L3]; decide)
    (initialState secure loadNats_L3).1 1 (by rw [initialState_frames_size]; exact Nat.lt_succ_self 1)
    (initialState_null secure loadNats_L3 (by decide)) (fun x hx => initialState_nat secure loadNats_L3 hx) .null
  exact ⟨s', h2⟩

theorem loaded_isSrc_L3 {s' : State} (h : LibEnv s' (· = 1) loadNats_L3 (loadDefs_L3.map (fun d => (defName d, d))))
    {d : Node} (hd : d ∈ loadDefs_L3) : ∃ v, IsSrc s' v d 1 := by
  obtain ⟨v, m', _, h2, h3⟩ := h.src 1 rfl (defName d, d) (List.mem_map.mpr ⟨d, hd, rfl⟩)
  subst h2
  exact ⟨v, h3⟩

example : (∀ x ∈ filterNats, x ∈ loadNats_L3) ∧ (∀ x ∈ flattenNats, x ∈ loadNats_L3) := by decide

example : ∀ p ∈ flattenSrcs, p ∈ loadDefs_L3.map (fun d => (defName d, d)) := by
  intro p hp
  simp only [flattenSrcs, List.mem_cons, List.not_mem_nil, or_false] at hp
  rcases hp with rfl | rfl
  · exact List.mem_map.2 ⟨type_is_list, by simp [loadDefs_L3, loadDefs], rfl⟩
  · exact List.mem_map.2 ⟨list_append_all, by simp [loadDefs_L3, loadDefs], rfl⟩

/-- a state meeting every hypothesis of `filter_src_default` (with `is_not_null`): loaded library + the list `[1, NULL, 3]` -/
example (secure : Bool) : ∃ (s : State) (f : RVal) (a : Nat) (xs : List RVal),
    LibEnv s (· = 1) loadNats_L3 (loadDefs_L3.map (fun d => (defName d, d))) ∧ IsSrc s f list_filter 1 ∧
    s.cell a = some (.list xs) ∧ (∀ x ∈ xs, Plain_L3 x) ∧ xs.filter (fun x => !x.isNull) = [.int 1, .int 3] := by
  obtain ⟨s1, hlib⟩ := loaded_libEnv_L3 secure
  have e : Ext s1 (s1.alloc (.list [.int 1, .null, .int 3])).1 := (Ext.refl s1).alloc _
  obtain ⟨f, h1⟩ := loaded_isSrc_L3 hlib (d := list_filter) (by simp [loadDefs_L3])
  refine ⟨_, f, s1.heap.size, [.int 1, .null, .int 3], hlib.ext e, h1.ext e, cell_alloc_new _ _, ?_, by simp [RVal.isNull]⟩
  intro x hx
  simp only [List.mem_cons, List.not_mem_nil, or_false] at hx
  rcases hx with rfl | rfl | rfl <;> exact ⟨rfl, fun a h => by cases h⟩

/-- a state meeting every hypothesis of `flatten_src` with a MIXED list `[1, [2, 3]]`: the expected result is `[1, 2, 3]` -/
example (secure : Bool) : ∃ (s : State) (f : RVal) (a : Nat) (xs : List RVal),
    LibEnv s (· = 1) loadNats_L3 (loadDefs_L3.map (fun d => (defName d, d))) ∧ IsSrc s f list_flatten 1 ∧
    s.cell a = some (.list xs) ∧ RefsIn_L3 s xs ∧ flattenExp_L3 s xs = [.int 1, .int 2, .int 3] := by
  obtain ⟨s1, hlib⟩ := loaded_libEnv_L3 secure
  let s2 := (s1.alloc (.list [.int 2, .int 3])).1
  let s3 := (s2.alloc (.list [.int 1, .ref s1.heap.size])).1
  have e : Ext s1 s3 := ((Ext.refl s1).alloc _).alloc _
  have h2 : s2.heap.size = s1.heap.size + 1 := heap_size_alloc _ _
  have hd : s3.cell s1.heap.size = some (.list [.int 2, .int 3]) := by
    show (s2.alloc _).1.cell s1.heap.size = _
    rw [cell_alloc_old _ _ (by omega)]; exact cell_alloc_new _ _
  obtain ⟨f, h1⟩ := loaded_isSrc_L3 hlib (d := list_flatten) (by simp [loadDefs_L3])
  refine ⟨s3, f, s2.heap.size, [.int 1, .ref s1.heap.size], hlib.ext e, h1.ext e, cell_alloc_new _ _, ?_, ?_⟩
  · intro x hx d hxd
    simp only [List.mem_cons, List.not_mem_nil, or_false] at hx
    rcases hx with rfl | rfl
    · cases hxd
    · cases hxd; exact cell_lt hd
  · simp [flattenExp_L3, splice_L3, hd]

/-! ## 4  list.ckl: `unique(lst, key = identity)` on int lists with the default key -/

/-- **The source of `unique`, called without `key` on a list of ints, keeps the first occurrences in order.**  `lst` a list cell
    `a` holding `ns.map .int`: the call returns `.ref b` for the FRESH cell `b = s.heap.size` holding `uniqInts_L3 ns` (left fold:
    an element is appended unless it already occurs); the membership test runs on a fresh SET cell, duplicates leave the loop
    body through `continue`.  The argument cell and everything else that existed is unchanged (`Ext`); fuel bound
    `ns.length + 27`. -/
theorem unique_src_ints {s : State} {M nats srcs fn m} (h : LibEnv s M nats srcs) (hn : ∀ x ∈ uniqueNats, x ∈ nats)
    (hm : M m) (hsrc : IsSrc s fn list_unique m) (a : Nat) (ns : List Int)
    (hc : s.cell a = some (.list (ns.map .int))) :
    ∃ s' b, Ext s s' ∧ s.heap.size ≤ b ∧ s'.cell b = some (.list ((uniqInts_L3 ns).map .int)) ∧
      s'.cell a = some (.list (ns.map .int)) ∧
      ∀ fuel env pos, ns.length + 27 < fuel → callFn ld fuel fn [("lst", .ref a)] env pos s = .ok (.ref b) s' := by
  obtain ⟨s', e, h2, c⟩ := unique_calls_ints ld h hn hm hsrc a ns hc
  exact ⟨s', _, e, Nat.le_refl _, h2, by rw [e.cell a (cell_lt hc)]; exact hc, fun fuel env pos hf => c env pos fuel hf⟩

/-- what `uniqInts_L3` is: no duplicates, the same members -/
theorem uniqInts_spec_L3 (ns : List Int) : (uniqInts_L3 ns).Nodup ∧ ∀ n, n ∈ uniqInts_L3 ns ↔ n ∈ ns := by
  unfold uniqInts_L3
  suffices ∀ acc : List Int, acc.Nodup → (ns.foldl uniqStep_L3 acc).Nodup ∧
      ∀ n, n ∈ ns.foldl uniqStep_L3 acc ↔ n ∈ acc ∨ n ∈ ns by simpa using this [] List.nodup_nil
  induction ns with
  | nil => intro acc h; simpa using h
  | cons x xs ih =>
    intro acc hacc
    rw [List.foldl_cons]
    by_cases hx : x ∈ acc
    · have hs : uniqStep_L3 acc x = acc := by simp [uniqStep_L3, hx]
      rw [hs]
      refine ⟨(ih acc hacc).1, fun n => ?_⟩
      rw [(ih acc hacc).2 n, List.mem_cons]
      constructor
      · rintro (h | h); exact Or.inl h; exact Or.inr (Or.inr h)
      · rintro (h | h | h); exact Or.inl h; exact Or.inl (h ▸ hx); exact Or.inr h
    · have hs : uniqStep_L3 acc x = acc ++ [x] := by simp [uniqStep_L3, hx]
      rw [hs]
      have hnd : (acc ++ [x]).Nodup := by
        rw [List.nodup_append]
        exact ⟨hacc, by simp, fun a ha b hb => by
          rw [List.mem_singleton] at hb; subst hb; intro hab; subst hab; exact hx ha⟩
      refine ⟨(ih _ hnd).1, fun n => ?_⟩
      rw [(ih _ hnd).2 n, List.mem_append, List.mem_singleton, List.mem_cons]
      constructor
      · rintro ((h | h) | h); exact Or.inl h; exact Or.inr (Or.inl h); exact Or.inr (Or.inr h)
      · rintro (h | h | h); exact Or.inl (Or.inl h); exact Or.inl (Or.inr h); exact Or.inr h


theorem uniqueGo_ints_L3 (ns : List Int) : ∀ (seen : List Val) (acc : List Int),
    (∀ n, memV (.int n) seen = decide (n ∈ acc)) →
    acc.map Val.int ++ uniqueGo id seen (ns.map .int) = (ns.foldl uniqStep_L3 acc).map .int := by
  induction ns with
  | nil => intro seen acc _; simp [uniqueGo]
  | cons x xs ih =>
    intro seen acc hseen
    rw [List.map_cons, List.foldl_cons, uniqueGo]
    simp only [id, hseen x]
    by_cases hx : x ∈ acc
    · have hs : uniqStep_L3 acc x = acc := by simp [uniqStep_L3, hx]
      rw [hs, decide_eq_true hx]; simp only [if_true]
      exact ih seen acc hseen
    · have hs : uniqStep_L3 acc x = acc ++ [x] := by simp [uniqStep_L3, hx]
      rw [hs, decide_eq_false hx]; simp only [Bool.false_eq_true, if_false]
      have := ih (.int x :: seen) (acc ++ [x]) (fun n => by
        unfold memV at hseen ⊢
        rw [List.any_cons, hseen n]
        simp [veq, List.mem_append, Bool.or_comm])
      rw [← this]; simp

theorem uniqInts_eq_mirror_L3 (ns : List Int) : uniqueM id (ns.map Val.int) = (uniqInts_L3 ns).map .int := by
  have := uniqueGo_ints_L3 ns [] [] (fun n => by simp [memV])
  simpa [uniqueM, uniqInts_L3] using this

/-- … through the mirror `Lib.uniqueM` of C19 (key = `id`, ints read as `Val.int`) -/
theorem unique_src_eq_mirror {s : State} {M nats srcs fn m} (h : LibEnv s M nats srcs) (hn : ∀ x ∈ uniqueNats, x ∈ nats)
    (hm : M m) (hsrc : IsSrc s fn list_unique m) (a : Nat) (ns : List Int)
    (hc : s.cell a = some (.list (ns.map .int))) :
    ∃ s' b, ∃ ks : List Int, Ext s s' ∧ s.heap.size ≤ b ∧ s'.cell b = some (.list (ks.map .int)) ∧
      ks.map Val.int = uniqueM id (ns.map Val.int) ∧
      ∀ fuel env pos, ns.length + 27 < fuel → callFn ld fuel fn [("lst", .ref a)] env pos s = .ok (.ref b) s' := by
  obtain ⟨s', b, e, h1, h2, _, c⟩ := unique_src_ints ld h hn hm hsrc a ns hc
  exact ⟨s', b, _, e, h1, h2, (uniqInts_eq_mirror_L3 ns).symm, c⟩

example : uniqInts_L3 [1, 4, 2, 3, 3, 4, 5] = [1, 4, 2, 3, 5] := by decide

example : ∀ x ∈ uniqueNats, x ∈ loadNats_L3 := by decide

/-- a state meeting every hypothesis of `unique_src_ints` -/
example (secure : Bool) : ∃ (s : State) (f : RVal) (a : Nat),
    LibEnv s (· = 1) loadNats_L3 (loadDefs_L3.map (fun d => (defName d, d))) ∧ IsSrc s f list_unique 1 ∧
    s.cell a = some (.list ([1, 4, 2, 3, 3, 4, 5].map .int)) := by
  obtain ⟨s1, hlib⟩ := loaded_libEnv_L3 secure
  have e : Ext s1 (s1.alloc (.list ([1, 4, 2, 3, 3, 4, 5].map .int))).1 := (Ext.refl s1).alloc _
  obtain ⟨f, h1⟩ := loaded_isSrc_L3 hlib (d := list_unique) (by simp [loadDefs_L3])
  exact ⟨_, f, s1.heap.size, hlib.ext e, h1.ext e, cell_alloc_new _ _⟩

end Ckl.C19Src
