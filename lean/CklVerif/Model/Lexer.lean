/-
  Layer 0 — the scanner: an executable model of `Lexer.scan` of `src/ckl/lexer.py`.

  The Python loop is a character automaton over `script + " "` with the local
  variables `state token tempbuf` (the automaton proper), the counters
  `line column startline pos` and the token list.  The model keeps the same
  split:

  * `step` is the state dispatch (`if state == 0: … elif state == 1: …`), one
    function per state, written in the order of the Python branches.  It sees
    the automaton variables, the current `column` (only used inside the column
    expression of an emitted token) and the current character, and returns the
    new automaton variables, the token emitted by this character (value, type,
    column expression — every `SourcePos` in `scan` is built with `startline`),
    and whether the character is "unread" (`pos -= 1; updatepos = False`).
    An unread always enters state 0, with one exception: state 70 pushes the
    character back into state 7; this is modelled by calling `step7` directly.
    State 0 never unreads, so a character is dispatched at most three times
    (70 → 7 → 0).
  * `feed` is one iteration of the `while` loop for a fresh character
    (`updatepos = True`): counters, `startline` capture, dispatch, and — when
    the dispatch asked for an unread — the second iteration for the same
    character (`updatepos = False`, state 0, `startline` captured again).
  * `run` folds `feed` over the characters, `scanWithOffsets`/`scan` add the
    trailing space and return the tokens.

  `LexSt.pos`/`startOff` are ghost: the 0-based offset of the current character
  and the offset at which the token being built started (captured together with
  `startline`).

  Mathlib-free, total, computable.
-/
import CklVerif.Model.Ast
namespace Ckl.Lexer

inductive St
  | s0 | s1 | s2 | s21 | s3 | s31 | s311 | s312 | s4 | s41 | s411 | s412
  | s5 | s6 | s7 | s70 | s71 | s72 | s8 | s9 | s10
deriving DecidableEq, Repr, Inhabited

def keywords : List (List Char) := [
  ['i','f'], ['t','h','e','n'], ['e','l','i','f'], ['e','l','s','e'], ['a','n','d'], ['o','r'],
  ['n','o','t'], ['i','s'], ['i','n'], ['d','e','f'], ['f','n'], ['f','o','r'],
  ['w','h','i','l','e'], ['d','o'], ['e','n','d'], ['f','i','n','a','l','l','y'],
  ['c','a','t','c','h'], ['b','r','e','a','k'], ['c','o','n','t','i','n','u','e'],
  ['r','e','t','u','r','n'], ['e','r','r','o','r'], ['r','e','q','u','i','r','e'], ['a','s'],
  ['a','l','s','o']]

/-- `"0123456789"` -/
def digits : List Char := ['0','1','2','3','4','5','6','7','8','9']
/-- `"0123456789abcdefABCDEF"` -/
def hexDigits : List Char :=
  ['0','1','2','3','4','5','6','7','8','9','a','b','c','d','e','f','A','B','C','D','E','F']
/-- `" \t\r\n"` -/
def whitespace : List Char := [' ', '\t', '\r', '\n']
/-- `"()+-*/%[]<>=,;!\"' \t\r\n#"`: the characters that end a word (state 1) -/
def wordEnd : List Char :=
  ['(', ')', '+', '-', '*', '/', '%', '[', ']', '<', '>', '=', ',', ';', '!', '"', '\'',
   ' ', '\t', '\r', '\n', '#']
/-- `"()[]<>=! \t\n\r+-*/%,;#"`: the characters that end a number (states 7, 71, 72, 8) -/
def numEnd : List Char :=
  ['(', ')', '[', ']', '<', '>', '=', '!', ' ', '\t', '\n', '\r', '+', '-', '*', '/', '%', ',',
   ';', '#']

/-- value of a hex digit (0 for other characters; only used on checked input) -/
def hexVal (c : Char) : Nat :=
  if '0' ≤ c ∧ c ≤ '9' then c.toNat - 48
  else if 'a' ≤ c ∧ c ≤ 'f' then c.toNat - 87
  else if 'A' ≤ c ∧ c ≤ 'F' then c.toNat - 55
  else 0

/-- `int(s, base)` for a string of valid digits -/
def ofDigits (base : Nat) (s : List Char) : Nat := s.foldl (fun n c => n * base + hexVal c) 0

/-- `token.replace("_", "")` -/
def dropUnderscores (s : List Char) : List Char := s.filter (· ≠ '_')

/-- CPython's `sys.get_int_max_str_digits()` default -/
def maxStrDigits : Nat := 4300

/-- `str(int(tok.replace("_", ""), base))`; `none` = `ValueError` (no digits, or the
    decimal rendering exceeds the int/str conversion limit) -/
def respell (base : Nat) (tok : List Char) : Option (List Char) :=
  let ds := dropUnderscores tok
  if ds = [] then none
  else
    let r := Nat.toDigits 10 (ofDigits base ds)
    if r.length > maxStrDigits then none else some r

/-- the automaton variables `state`, `token`, `tempbuf` -/
structure Core where
  state : St := .s0
  token : List Char := []
  tempbuf : List Char := []
deriving DecidableEq, Repr, Inhabited

/-- which line a `CklSyntaxError` raised by the scanner carries -/
inductive ErrLine | current | start
deriving DecidableEq, Repr

structure LexErr where
  msg : String
  line : ErrLine
deriving Repr

/-- an emitted token: value, type, column expression -/
abbrev Emit := List Char × TokType × Int

/-- result of dispatching one character -/
structure Out where
  core : Core
  emit : Option Emit := none
  /-- `pos -= 1; updatepos = False` (the new state is then 0) -/
  again : Bool := false
deriving Repr

def len (s : List Char) : Int := (s.length : Int)

/-- state 0: eat whitespace, start a token -/
def step0 (k : Core) (column : Int) (ch : Char) : Out :=
  if ch = '#' then ⟨{ k with state := .s9 }, none, false⟩
  else if ch ∈ ['+', '-', '*', '%'] then ⟨{ k with token := k.token ++ [ch], state := .s10 }, none, false⟩
  else if ch ∈ ['(', ')', '[', ']', ',', ';'] then ⟨k, some ([ch], .interpunction, column), false⟩
  else if ch = '/' then ⟨{ k with state := .s5 }, none, false⟩
  else if ch ∈ ['<', '>', '=', '!'] then ⟨{ k with token := k.token ++ [ch], state := .s2 }, none, false⟩
  else if ch = '"' then ⟨{ k with state := .s3 }, none, false⟩
  else if ch = '\'' then ⟨{ k with state := .s4 }, none, false⟩
  else if ch = '0' then ⟨{ k with state := .s70 }, none, false⟩
  else if ch ∈ digits then ⟨{ k with token := k.token ++ [ch], state := .s7 }, none, false⟩
  else if ch ∉ whitespace then ⟨{ k with token := k.token ++ [ch], state := .s1 }, none, false⟩
  else ⟨k, none, false⟩

/-- state 1: word -/
def step1 (k : Core) (column : Int) (ch : Char) : Out :=
  if ch ∈ wordEnd then
    if k.token = ['T','R','U','E'] then
      ⟨{ k with token := [], state := .s0 }, some (['T','R','U','E'], .boolean, column - 4), true⟩
    else if k.token = ['F','A','L','S','E'] then
      ⟨{ k with token := [], state := .s0 }, some (['F','A','L','S','E'], .boolean, column - 4), true⟩
    else if k.token ∈ keywords then
      ⟨{ k with token := [], state := .s0 }, some (k.token, .keyword, column - len k.token), true⟩
    else if k.token ≠ [] then
      ⟨{ k with token := [], state := .s0 }, some (k.token, .identifier, column - len k.token), true⟩
    else ⟨{ k with state := .s0 }, none, true⟩
  else
    let token := k.token ++ [ch]
    if token = ['.','.','.'] then
      ⟨{ k with token := [], state := .s0 }, some (token, .interpunction, column - len token), false⟩
    else ⟨{ k with token := token }, none, false⟩

/-- state 2: after one of `< > = !` -/
def step2 (k : Core) (column : Int) (ch : Char) : Out :=
  if ch = '=' then
    let token := k.token ++ [ch]
    ⟨{ k with token := [], state := .s0 }, some (token, .operator, column - len token - 1), false⟩
  else if ch = '>' ∧ k.token = ['='] then
    let token := k.token ++ [ch]
    ⟨{ k with token := [], state := .s0 }, some (token, .interpunction, column - len token - 1), false⟩
  else if ch = '>' ∧ k.token = ['<'] then
    ⟨{ k with token := [], state := .s0 }, some (['<','>'], .operator, column - 1), false⟩
  else if ch = '<' ∧ k.token = ['<'] then
    ⟨{ k with token := k.token ++ [ch], state := .s21 }, none, false⟩
  else if ch = '>' ∧ k.token = ['>'] then
    ⟨{ k with token := k.token ++ [ch], state := .s21 }, none, false⟩
  else if ch = '>' ∧ k.token = ['!'] then
    let token := k.token ++ [ch]
    ⟨{ k with token := [], state := .s0 }, some (['!','>'], .operator, column - len token - 1), false⟩
  else if ch = '*' ∧ k.token = ['<'] then
    ⟨{ k with token := [], state := .s0 }, some (['<','*'], .interpunction, column - 1), false⟩
  else
    ⟨{ k with token := [], state := .s0 }, some (k.token, .operator, column - len k.token), true⟩

/-- state 21: after `<<` or `>>` -/
def step21 (k : Core) (column : Int) (ch : Char) : Out :=
  if ch = '<' ∧ k.token = ['<','<'] then
    ⟨{ k with token := [], state := .s0 }, some (['<','<','<'], .interpunction, column - 3), false⟩
  else if ch = '>' ∧ k.token = ['>','>'] then
    ⟨{ k with token := [], state := .s0 }, some (['>','>','>'], .interpunction, column - 3), false⟩
  else
    ⟨{ k with token := [], state := .s0 }, some (k.token, .interpunction, column - len k.token), true⟩

/-- states 3 / 4: inside a string delimited by `q`; `esc` is the escape state -/
def stepStr (q : Char) (esc : St) (k : Core) (column : Int) (ch : Char) : Out :=
  if ch = q then
    ⟨{ k with token := [], state := .s0 }, some (k.token, .string, column - len k.token - 2 + 1), false⟩
  else if ch = '\\' then ⟨{ k with state := esc }, none, false⟩
  else ⟨{ k with token := k.token ++ [ch] }, none, false⟩

/-- states 31 / 41: after a backslash; `str` is the string state, `hex1` the `\x` state -/
def stepEsc (str hex1 : St) (k : Core) (ch : Char) : Out :=
  if ch = 'n' then ⟨{ k with token := k.token ++ ['\n'], state := str }, none, false⟩
  else if ch = 'r' then ⟨{ k with token := k.token ++ ['\r'], state := str }, none, false⟩
  else if ch = 't' then ⟨{ k with token := k.token ++ ['\t'], state := str }, none, false⟩
  else if ch = 'x' then ⟨{ k with state := hex1 }, none, false⟩
  else ⟨{ k with token := k.token ++ [ch], state := str }, none, false⟩

/-- states 311 / 411: first hex digit of `\xHH` -/
def stepHex1 (hex2 : St) (k : Core) (ch : Char) : Out :=
  ⟨{ k with tempbuf := [ch], state := hex2 }, none, false⟩

/-- states 312 / 412: second hex digit of `\xHH` -/
def stepHex2 (str : St) (k : Core) (ch : Char) : Except LexErr Out :=
  let tempbuf := k.tempbuf ++ [ch]
  match tempbuf with
  | [a, b] =>
    if a ∉ hexDigits ∨ b ∉ hexDigits then
      .error ⟨"Invalid hex escape '\\x" ++ String.ofList tempbuf ++ "'", .current⟩
    else
      .ok ⟨{ k with token := k.token ++ [Char.ofNat (ofDigits 16 tempbuf)], tempbuf := [], state := str },
           none, false⟩
  | _ => -- unreachable: `tempbuf` has exactly one character in these states
    .error ⟨"Invalid hex escape '\\x" ++ String.ofList tempbuf ++ "'", .current⟩

/-- state 5: after `/` -/
def step5 (k : Core) (column : Int) (ch : Char) : Out :=
  if ch = '/' then ⟨{ k with token := k.token ++ ['/','/'], state := .s6 }, none, false⟩
  else if ch = '=' then ⟨{ k with state := .s0 }, some (['/','='], .operator, column - 1), false⟩
  else ⟨{ k with state := .s0 }, some (['/'], .operator, column - 1), true⟩

/-- state 6: pattern `//…//` -/
def step6 (k : Core) (column : Int) (ch : Char) : Out :=
  let token := k.token ++ [ch]
  if ['/','/'].isSuffixOf token then
    ⟨{ k with token := [], state := .s0 }, some (token, .pattern, column - len token - 4 + 1), false⟩
  else ⟨{ k with token := token }, none, false⟩

/-- state 7: int or decimal -/
def step7 (k : Core) (column : Int) (ch : Char) : Out :=
  if ch = '.' then ⟨{ k with token := k.token ++ [ch], state := .s8 }, none, false⟩
  else if ch ∈ digits ∨ ch = '_' then ⟨{ k with token := k.token ++ [ch] }, none, false⟩
  else if ch ∈ numEnd then
    ⟨{ k with token := [], state := .s0 },
     some (dropUnderscores k.token, .int, column - len k.token), true⟩
  else ⟨{ k with token := k.token ++ [ch], state := .s1 }, none, false⟩

/-- state 70: after a leading `0`; the `else` branch pushes the character back into state 7 -/
def step70 (k : Core) (column : Int) (ch : Char) : Out :=
  if ch = 'x' then ⟨{ k with state := .s71 }, none, false⟩
  else if ch = 'b' then ⟨{ k with state := .s72 }, none, false⟩
  else step7 { k with token := k.token ++ ['0'], state := .s7 } column ch

/-- states 71 / 72: hex / binary literal -/
def stepRadix (base : Nat) (alphabet : List Char) (what : String) (k : Core) (column : Int) (ch : Char) :
    Except LexErr Out :=
  if ch ∈ alphabet ∨ ch = '_' then .ok ⟨{ k with token := k.token ++ [ch] }, none, false⟩
  else if ch ∈ numEnd then
    match respell base k.token with
    | some v => .ok ⟨{ k with token := [], state := .s0 }, some (v, .int, column - len k.token), true⟩
    | none => .error ⟨"Invalid " ++ what ++ String.ofList k.token ++ "'", .start⟩
  else .ok ⟨{ k with token := k.token ++ [ch], state := .s1 }, none, false⟩

/-- state 8: decimal -/
def step8 (k : Core) (column : Int) (ch : Char) : Out :=
  if ch ∈ digits ∨ ch = '_' then ⟨{ k with token := k.token ++ [ch] }, none, false⟩
  else if ch ∈ numEnd then
    ⟨{ k with token := [], state := .s0 },
     some (dropUnderscores k.token, .decimal, column - len k.token), true⟩
  else ⟨{ k with token := k.token ++ [ch], state := .s1 }, none, false⟩

/-- state 9: comment -/
def step9 (k : Core) (ch : Char) : Out :=
  if ch = '\n' then ⟨{ k with state := .s0 }, none, false⟩ else ⟨k, none, false⟩

/-- state 10: after one of `+ - * %` -/
def step10 (k : Core) (column : Int) (ch : Char) : Out :=
  if ch = '=' then
    ⟨{ k with token := [], state := .s0 }, some (k.token ++ [ch], .operator, column), false⟩
  else if k.token = ['-'] ∧ ch = '>' then
    ⟨{ k with token := [], state := .s0 }, some (['-','>'], .operator, column), false⟩
  else if k.token = ['*'] ∧ ch = '>' then
    ⟨{ k with token := [], state := .s0 }, some (['*','>'], .interpunction, column), false⟩
  else
    ⟨{ k with token := [], state := .s0 }, some (k.token, .operator, column), true⟩

/-- the state dispatch -/
def step (k : Core) (column : Int) (ch : Char) : Except LexErr Out :=
  match k.state with
  | .s0 => .ok (step0 k column ch)
  | .s1 => .ok (step1 k column ch)
  | .s2 => .ok (step2 k column ch)
  | .s21 => .ok (step21 k column ch)
  | .s3 => .ok (stepStr '"' .s31 k column ch)
  | .s31 => .ok (stepEsc .s3 .s311 k ch)
  | .s311 => .ok (stepHex1 .s312 k ch)
  | .s312 => stepHex2 .s3 k ch
  | .s4 => .ok (stepStr '\'' .s41 k column ch)
  | .s41 => .ok (stepEsc .s4 .s411 k ch)
  | .s411 => .ok (stepHex1 .s412 k ch)
  | .s412 => stepHex2 .s4 k ch
  | .s5 => .ok (step5 k column ch)
  | .s6 => .ok (step6 k column ch)
  | .s7 => .ok (step7 k column ch)
  | .s70 => .ok (step70 k column ch)
  | .s71 => stepRadix 16 hexDigits "hex literal '0x" k column ch
  | .s72 => stepRadix 2 ['0', '1'] "binary literal '0b" k column ch
  | .s8 => .ok (step8 k column ch)
  | .s9 => .ok (step9 k ch)
  | .s10 => .ok (step10 k column ch)

/-- all variables of the loop -/
structure LexSt where
  core : Core := {}
  line : Nat := 1
  startline : Nat := 1
  column : Int := 0
  /-- ghost: offset of the current character -/
  pos : Nat := 0
  /-- ghost: offset of the character at which `startline` was captured -/
  startOff : Nat := 0
  /-- emitted tokens with their start offsets, most recent first -/
  out : List (Token × Nat) := []
deriving Repr, Inhabited

/-- `if updatepos: if ch == "\n": line += 1; column = 0 else: column += 1` -/
def LexSt.count (σ : LexSt) (ch : Char) : LexSt :=
  if ch = '\n' then { σ with line := σ.line + 1, column := 0 } else { σ with column := σ.column + 1 }

/-- `if state == 0: startline = line` -/
def LexSt.capture (σ : LexSt) : LexSt :=
  if σ.core.state = .s0 then { σ with startline := σ.line, startOff := σ.pos } else σ

/-- `self.tokens.append(Token(value, type, SourcePos(fname, startline, col)))` -/
def LexSt.push (name : String) (σ : LexSt) : Option Emit → LexSt
  | none => σ
  | some (v, ty, col) => { σ with out := (⟨v, ty, ⟨name, σ.startline, col⟩⟩, σ.startOff) :: σ.out }

def LexSt.synErr (name : String) (σ : LexSt) (e : LexErr) : SynErr :=
  match e.line with
  | .current => { msg := e.msg, pos := ⟨name, σ.line, σ.column⟩ }
  | .start => { msg := e.msg, pos := ⟨name, σ.startline, σ.column - len σ.core.token⟩ }

/-- the state dispatch applied to the loop variables (after `capture`) -/
def LexSt.dispatch (name : String) (σ : LexSt) (ch : Char) : Except SynErr (LexSt × Bool) :=
  match step σ.core σ.column ch with
  | .error e => .error (σ.synErr name e)
  | .ok o => .ok (({ σ with core := o.core }).push name o.emit, o.again)

/-- one fresh character: the loop iteration with `updatepos = True`, followed (if the
    character was unread) by the iteration with `updatepos = False`, which is in state 0 -/
def feed (name : String) (σ : LexSt) (ch : Char) : Except SynErr LexSt :=
  match (σ.count ch).capture.dispatch name ch with
  | .error e => .error e
  | .ok (σ2, false) => .ok { σ2 with pos := σ2.pos + 1 }
  | .ok (σ2, true) =>
    match σ2.capture.dispatch name ch with
    | .error e => .error e
    | .ok (σ3, _) => .ok { σ3 with pos := σ3.pos + 1 }

/-- the `while` loop -/
def run (name : String) (σ : LexSt) : List Char → Except SynErr LexSt
  | [] => .ok σ
  | ch :: rest =>
    match feed name σ ch with
    | .error e => .error e
    | .ok σ' => run name σ' rest

/-- tokens with the offset of their first character -/
def scanWithOffsets (s : List Char) (name : String := "-") : Except SynErr (List (Token × Nat)) :=
  match run name {} (s ++ [' ']) with
  | .error e => .error e
  | .ok σ => .ok σ.out.reverse

/-- `Lexer(script, name).scan().tokens` -/
def scan (s : List Char) (name : String := "-") : Except SynErr (List Token) :=
  match scanWithOffsets s name with
  | .error e => .error e
  | .ok l => .ok (l.map Prod.fst)

end Ckl.Lexer
