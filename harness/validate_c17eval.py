"""C17Eval: date programs on the implementation and on the model evaluator (Ckl.eval with the date natives of Model/Natives.lean).

    PYTHONPATH=/tmp/proof11/verif:/repo/src /venv/bin/python -m harness.validate_c17eval [seed]

Every program is one expression; it is interpreted by `Interpreter.interpret` (legacy base environment, cleared session frame) and by the
compiled model driver on the real base environment (`session.run_lib_sessions`: legacy.ckl evaluated by the model evaluator itself);
`session.compare` must find no difference wherever the model answers.  The abstention rate is reported per group."""
import collections
import random
import sys
import time

from harness import core, session

DPM = [31, 28, 31, 30, 31, 30, 31, 31, 30, 31, 30, 31]


def leap(y):
    return y % 4 == 0 and (y % 100 != 0 or y % 400 == 0)


def mdays(y, m):
    return 29 if leap(y) and m == 2 else DPM[m - 1]


def d8(y, m, d):
    return f"date('{y:04d}{m:02d}{d:02d}')"


def d14(y, m, d, h, mi, s):
    return f"date('{y:04d}{m:02d}{d:02d}{h:02d}{mi:02d}{s:02d}')"


def gen(seed):
    rng = random.Random(seed)
    progs = []   # (group, src)

    def add(g, src):
        progs.append((g, src))

    years = list(range(1900, 2401)) + [9999]
    small = lambda: rng.randint(-800, 800)   # noqa
    for y in years:
        for (m, d) in ((1, 1), (12, 31)):
            a = d8(y, m, d)
            n = small()
            add("boundary_add", f"{a} + {n}")
            add("boundary_sub", f"{a} - {small()}")
            add("boundary_int", f"int({a})")
            add("boundary_roundtrip", f"date(int({a})) == {a}")
            add("boundary_addsub", f"({a} + {n}) - {n} == {a}")
            add("boundary_adddiff", f"({a} + {n}) - {a}")
            add("boundary_next", f"{a} + 1")
            add("boundary_prev", f"{a} - 1")
            add("boundary_decimal", f"decimal({a})")
    # leap days and month ends
    for _ in range(1500):
        y = rng.choice([rng.randint(1900, 2400), rng.randint(1900, 9999)])
        m = rng.randint(1, 12)
        d = rng.choice([1, mdays(y, m), rng.randint(1, mdays(y, m))])
        a = d8(y, m, d)
        n = rng.choice([small(), small(), rng.randint(-40000, 40000), rng.randint(-3000000, 3000000)])
        add("random_add", f"{a} + {n}")
        add("random_sub", f"{a} - {n}")
        add("random_addsub", f"({a} + {n}) - {n} == {a}")
        add("random_adddiff", f"({a} + {n}) - {a} == {n}")
    # large offsets (the implementation walks one loop iteration per year: keep it finite)
    for _ in range(300):
        y = rng.randint(1900, 9999)
        a = d8(y, rng.randint(1, 12), rng.randint(1, 28))
        n = rng.choice([10 ** 6, 2958465, 3 * 10 ** 6, 10 ** 7, 99999999, 10 ** 8, 10 ** 8 + 1, 2 * 10 ** 8, 10 ** 9]) * rng.choice([1, -1]) + rng.randint(-5, 5)
        add("large_add", f"{a} + {n}")
        add("large_sub", f"{a} - {n}")
    for n in [10 ** 12, 10 ** 15, -10 ** 15, -10 ** 30, 2 ** 63, -2 ** 64]:
        add("large_sub", f"date('20000101') - {n}")
    for n in [-10 ** 12, -10 ** 15, -10 ** 30, -2 ** 64, -10 ** 400]:
        add("large_add", f"date('20000101') + ({n})")
    # day numbers and offsets where the implementation needs a very long time (one loop iteration per year): recorded, the model must abstain
    for n in [10 ** 12, 10 ** 15, 2 ** 64]:
        add("hang", f"date('20000101') + {n}")
        add("hang", f"date('20000101') - -{n}")
        add("hang", f"date({n})")
    for k in [10 ** 9, 10 ** 9 - 7, 999999999, 5 * 10 ** 8, 10 ** 8 + 1, 10 ** 8]:
        add("date_int_large", f"date({k})")
        add("date_int_large", f"date({k}.0)")
        add("date_int_large", f"date(-{k})")
    # date - date
    for _ in range(1500):
        y1, y2 = rng.randint(1900, 2400), rng.choice([rng.randint(1900, 2400), rng.randint(1900, 9999)])
        m1, m2 = rng.randint(1, 12), rng.randint(1, 12)
        a = d8(y1, m1, rng.randint(1, mdays(y1, m1)))
        b = d8(y2, m2, rng.randint(1, mdays(y2, m2)))
        add("diff", f"{a} - {b}")
        add("diff_int", f"{a} - {b} == int({a}) - int({b})")
        add("compare", f"[{a} < {b}, {a} <= {b}, {a} > {b}, {a} >= {b}, {a} == {b}, {a} != {b}, int({a}) < int({b}), compare({a}, {b})]")
    # time of day
    for _ in range(1500):
        y = rng.randint(1900, 9999)
        m = rng.randint(1, 12)
        d = rng.randint(1, mdays(y, m))
        h, mi, s = rng.choice([(0, 0, 0), (23, 59, 59), (rng.randint(0, 23), rng.randint(0, 59), rng.randint(0, 59)), (12, 0, 0), (0, 0, 1)])
        a = d14(y, m, d, h, mi, s)
        n = rng.choice([small(), rng.randint(-40000, 40000)])
        add("time_add", f"{a} + {n}")
        add("time_sub", f"{a} - {n}")
        add("time_int", f"int({a})")
        add("time_addsub", f"({a} + {n}) - {n} == {a}")
        add("time_adddiff", f"({a} + {n}) - {a}")
        y2 = rng.randint(1900, 9999)
        b = d14(y2, m, min(d, 28), rng.randint(0, 23), rng.randint(0, 59), rng.randint(0, 59))
        add("time_diff", f"{a} - {b}")
        add("time_compare", f"[{a} < {b}, {a} == {b}, {a} > {b}]")
        add("time_string", f"string({a} + {n})")
        add("time_hour", f"date('{y:04d}{m:02d}{d:02d}{h:02d}') - {n}")
    # date(int), date(decimal)
    for _ in range(1500):
        k = rng.choice([rng.randint(2, 2958465), rng.randint(-10, 10), rng.randint(2958460, 2958470), rng.randint(-10 ** 6, 4 * 10 ** 6)])
        add("date_int", f"date({k})")
        add("int_date_int", f"int(date({k}))")
        add("date_int_string", f"string(date({k}))")
    for _ in range(600):
        k = rng.randint(2, 2958465)
        fr = rng.choice(["0", "5", "25", "75", "125", "5", "0625", "999", "1", "3", "000011574", "00001157407", str(rng.randint(0, 99999))])
        add("date_decimal", f"date({k}.{fr})")
        add("date_plus_decimal", f"date('20000101') + {rng.randint(-500, 500)}.{rng.choice(['0', '0', '5', '25'])}")
    # date(string): well-formed and ill-formed texts
    for _ in range(1500):
        y = rng.choice([rng.randint(1, 9999), rng.randint(1890, 2100), 0])
        m = rng.choice([rng.randint(1, 12), rng.randint(0, 15)])
        d = rng.choice([rng.randint(1, 28), rng.randint(0, 33), 29, 30, 31])
        form = rng.randint(0, 5)
        if form == 0:
            t = f"{y:04d}{m:02d}{d:02d}"
        elif form == 1:
            t = f"{y:04d}{m:02d}{d:02d}{rng.randint(0, 25):02d}"
        elif form == 2:
            t = f"{y:04d}{m:02d}{d:02d}{rng.randint(0, 25):02d}{rng.randint(0, 61):02d}{rng.randint(0, 61):02d}"
        elif form == 3:
            t = "".join(rng.choice("0123456789") for _ in range(rng.choice([0, 3, 7, 8, 9, 10, 11, 12, 13, 14, 15])))
        elif form == 4:
            t = "".join(rng.choice("0123456789abc -/.:") for _ in range(rng.choice([8, 10, 14])))
        else:
            t = list(f"{y:04d}{m:02d}{d:02d}")
            t[rng.randrange(8)] = rng.choice("x -+Z\t")
            t = "".join(t)
        t = t.replace("\t", "\\t")
        add("date_string", f"date('{t}')")
        add("date_string_int", f"int(date('{t}'))")
    # other argument kinds
    for x in ["NULL", "TRUE", "FALSE", "[1]", "<<1>>", "<<<1 => 2>>>", "//a//", "fn(x) x", "date", "'x'", "''", "3", "2.0", "2.5"]:
        for a in ["date('20240229')", "date('20240229123456')"]:
            add("kinds", f"{a} + {x}")
            add("kinds", f"{a} - {x}")
            add("kinds", f"{x} + {a}")
            add("kinds", f"{x} - {a}")
        add("kinds", f"date({x})")
        add("kinds", f"date(obj = {x})")
    add("kinds", "date(date('20240229'))")
    add("kinds", "date(1, 2)")
    add("kinds", "date(x = 1)")
    add("kinds", "int(obj = date('20240229'))")
    add("kinds", "decimal(obj = date('20240229'))")
    add("kinds", "def d = date('20240229'); def l = []; for i in range(5) do append(l, d + i * 366); l")
    add("kinds", "def d = date('20240229'); [d + 1 - 1 == d, (d + 366) - d, d->int(), (d - 60)->string()]")
    return progs


def main():
    seed = int(sys.argv[1]) if len(sys.argv) > 1 else 17
    t0 = time.time()
    progs = gen(seed)
    print(f"{len(progs)} programs (seed {seed})", flush=True)
    limit = int(sys.argv[2]) if len(sys.argv) > 2 else None
    if limit:
        rnd = random.Random(seed + 1)
        progs = rnd.sample(progs, limit)
    sys.set_int_max_str_digits(0)
    # the model evaluator on the REAL base environment (legacy.ckl evaluated by the model itself, every built-in bound by bind_native)
    outs, whyfail = session.run_lib_sessions([[src] for _, src in progs], legacy=True, fuel=60000)
    if outs is None:
        print("libsetup failed:", whyfail[:400])
        sys.exit(2)
    print(f"driver done {time.time() - t0:.1f}s", flush=True)
    impl = session.ImplSession(legacy=True)
    total = collections.Counter()
    abst = collections.Counter()
    answered_kind = collections.Counter()
    why = collections.Counter()
    bad = []
    try:
        for k, (g, src) in enumerate(progs):
            impl.it.environment.map.clear()
            out, printed, _ = impl.run(src, limit=20)
            m = outs[k][0]
            total[g] += 1
            if m[0][0] == 'fail':
                abst[g] += 1
                why[(g, m[0][1], m[0][2] if len(m[0]) > 2 else "")] += 1
                continue
            answered_kind[(g, m[0][0])] += 1
            d = session.compare((out, printed, ()), (m[0], m[1], ()), check_line=True)
            if d:
                bad.append((g, src, d))
    finally:
        impl.close()
    print(f"implementation done {time.time() - t0:.1f}s")
    print(f"{'group':22s} {'programs':>8s} {'answered':>8s} {'abstain':>8s}   answered as")
    for g in sorted(total):
        kinds = ", ".join(f"{k2}:{n}" for (g2, k2), n in sorted(answered_kind.items()) if g2 == g)
        print(f"{g:22s} {total[g]:8d} {total[g] - abst[g]:8d} {abst[g]:8d}   {kinds}")
    tot, ab = sum(total.values()), sum(abst.values())
    print(f"TOTAL {tot} programs, model answers {tot - ab}, abstains {ab} ({100.0 * ab / tot:.2f}%), disagreements {len(bad)}")
    print("abstention reasons:")
    for (g, k1, k2), n in sorted(why.items(), key=lambda kv: -kv[1])[:40]:
        print(f"   {n:6d}  {g:20s} {k1} {k2}")
    for g, src, d in bad[:40]:
        print("DISAGREE", g, src, "::", d)
    sys.exit(1 if bad else 0)


if __name__ == "__main__":
    main()
