/-
  C09 (evaluator level): the modelled built-in functions (`callPure`) preserve the invariant and
  return clean values when called with clean arguments.
-/
import CklVerif.Lemmas.C09EvalHelpers
namespace Ckl.C09E
open Ckl

variable {E : List String} {b : Bool}

theorem Pres.dateResM (r : DateRes) (pos : Pos) : Pres E b (dateResM r pos) := by
  unfold Ckl.dateResM; pa_auto
macro_rules | `(tactic| pa_lemma) => `(tactic| with_reducible exact Pres.dateResM _ _)

theorem Pres.callDate (name : String) (args : List (String × RVal)) (pos : Pos) (m : EvalM RVal)
    (h : callDate name args pos = some m) : Pres E b m := by
  unfold Ckl.callDate at h
  split at h <;> first | (injection h with h; subst h; exact Pres.dateResM _ _) | (cases h)

theorem Pres.nativeAdd (x y : RVal) (pos : Pos) (hx : Cl.cl E x) (hy : Cl.cl E y) :
    Pres E b (nativeAdd x y pos) := by
  unfold Ckl.nativeAdd; pa_auto
macro_rules | `(tactic| pa_lemma) => `(tactic| ((with_reducible apply Pres.nativeAdd) <;> cl_try))

theorem Pres.nativeSub (x y : RVal) (pos : Pos) (hx : Cl.cl E x) (hy : Cl.cl E y) :
    Pres E b (nativeSub x y pos) := by
  unfold Ckl.nativeSub; pa_auto
macro_rules | `(tactic| pa_lemma) => `(tactic| ((with_reducible apply Pres.nativeSub) <;> cl_try))

theorem Pres.nativeMul (x y : RVal) (pos : Pos) (hx : Cl.cl E x) (hy : Cl.cl E y) :
    Pres E b (nativeMul x y pos) := by
  unfold Ckl.nativeMul; pa_auto
macro_rules | `(tactic| pa_lemma) => `(tactic| ((with_reducible apply Pres.nativeMul) <;> cl_try))

theorem Pres.nativeDiv (x y : RVal) (d : Option RVal) (pos : Pos) (hd : Cl.cl E d) :
    Pres E b (nativeDiv x y d pos) := by
  unfold Ckl.nativeDiv; pa_auto
macro_rules | `(tactic| pa_lemma) => `(tactic| ((with_reducible apply Pres.nativeDiv) <;> cl_try))

theorem Pres.nativeMod (x y : RVal) (pos : Pos) : Pres E b (nativeMod x y pos) := by
  unfold Ckl.nativeMod; pa_auto
macro_rules | `(tactic| pa_lemma) => `(tactic| with_reducible exact Pres.nativeMod _ _ _)


theorem cl_rm (el : RVal) (s : State) {xs : List RVal} (h : Cl.cl E xs) : Cl.cl E (callPure.rm el s xs) := by
  induction xs with
  | nil => exact h
  | cons y ys ih =>
    rw [cl_cons] at h
    simp only [callPure.rm]
    split
    · exact h.2
    · rw [cl_cons]; exact ⟨h.1, ih h.2⟩
macro_rules | `(tactic| cl_chain) => `(tactic| ((with_reducible apply cl_rm) <;> cl_chain))

end Ckl.C09E
