/-
  C17 — helper lemmas on the calendar arithmetic of `CklVerif/Model/Date.lean`.
  Everything here is for ALL years ≥ 1900 (no upper bound).
-/
import CklVerif.Model.Date

namespace Ckl.C17
open Ckl.Date

/-! ### leap years, year lengths -/

theorem isLeapYear_iff (y : Nat) :
    isLeapYear y = true ↔ (y % 4 = 0 ∧ (y % 100 ≠ 0 ∨ y % 400 = 0)) := by
  simp [isLeapYear]

theorem yearDays_cases (y : Nat) :
    (isLeapYear y = true ∧ yearDays y = 366) ∨ (isLeapYear y = false ∧ yearDays y = 365) := by
  unfold yearDays; cases h : isLeapYear y <;> simp

theorem yearDays_ge (y : Nat) : 365 ≤ yearDays y := by
  rcases yearDays_cases y with h | h <;> omega

theorem yearDays_le (y : Nat) : yearDays y ≤ 366 := by
  rcases yearDays_cases y with h | h <;> omega

theorem yearDays_pos (y : Nat) : 0 < yearDays y := by
  have := yearDays_ge y; omega

/-! ### `daysBeforeYear` -/

theorem daysBeforeYear_succ' (y : Nat) :
    daysBeforeYear (y + 1) = if y ≥ 1900 then daysBeforeYear y + yearDays y else 0 := rfl

theorem daysBeforeYear_succ {y : Nat} (h : 1900 ≤ y) :
    daysBeforeYear (y + 1) = daysBeforeYear y + yearDays y := by
  rw [daysBeforeYear_succ']; simp [h]

theorem daysBeforeYear_1900 : daysBeforeYear 1900 = 0 := by
  have := daysBeforeYear_succ' 1899
  simpa using this

/-- monotone (weakly) above 1900, in "add k" form -/
theorem daysBeforeYear_le_add {y : Nat} (h : 1900 ≤ y) (k : Nat) :
    daysBeforeYear y ≤ daysBeforeYear (y + k) := by
  induction k with
  | zero => exact Nat.le_refl _
  | succ k ih =>
    have : daysBeforeYear (y + (k + 1)) = daysBeforeYear (y + k) + yearDays (y + k) := by
      rw [← Nat.add_assoc]; exact daysBeforeYear_succ (by omega)
    omega

theorem daysBeforeYear_mono {y y' : Nat} (h : 1900 ≤ y) (hyy : y ≤ y') :
    daysBeforeYear y ≤ daysBeforeYear y' := by
  obtain ⟨k, rfl⟩ := Nat.exists_eq_add_of_le hyy
  exact daysBeforeYear_le_add h k

/-- the end of year `y` is no later than the start of any later year -/
theorem daysBeforeYear_succ_le {y y' : Nat} (h : 1900 ≤ y) (hyy : y < y') :
    daysBeforeYear y + yearDays y ≤ daysBeforeYear y' := by
  rw [← daysBeforeYear_succ h]
  exact daysBeforeYear_mono (by omega) hyy

theorem daysBeforeYear_strictMono {y y' : Nat} (h : 1900 ≤ y) (hyy : y < y') :
    daysBeforeYear y < daysBeforeYear y' := by
  have := daysBeforeYear_succ_le h hyy
  have := yearDays_pos y
  omega

/-- Closed form (Gregorian leap-year count): for `y ≥ 1900`
    `daysBeforeYear y = 365*(y-1900) + (⌊(y-1)/4⌋ - ⌊(y-1)/100⌋ + ⌊(y-1)/400⌋) - 460`. -/
theorem daysBeforeYear_closed {y : Nat} (h : 1900 ≤ y) :
    daysBeforeYear y + 460 + (y - 1) / 100 = 365 * (y - 1900) + (y - 1) / 4 + (y - 1) / 400 := by
  obtain ⟨k, rfl⟩ := Nat.exists_eq_add_of_le h
  induction k with
  | zero => rw [Nat.add_zero, daysBeforeYear_1900]
  | succ k ih =>
    have hy : 1900 ≤ 1900 + k := by omega
    have ih := ih hy
    rw [← Nat.add_assoc, daysBeforeYear_succ hy]
    generalize 1900 + k = y at *
    rcases yearDays_cases y with ⟨hl, hd⟩ | ⟨hl, hd⟩
    · rw [isLeapYear_iff] at hl; omega
    · have hl' : ¬ (y % 4 = 0 ∧ (y % 100 ≠ 0 ∨ y % 400 = 0)) := by
        rw [← isLeapYear_iff]; simp [hl]
      omega

theorem daysBeforeYear_ge {y : Nat} (h : 1900 ≤ y) : 365 * (y - 1900) ≤ daysBeforeYear y := by
  have := daysBeforeYear_closed h; omega

/-- uniqueness of the (year, day-in-year) decomposition -/
theorem year_decomp_unique {y1 y2 v1 v2 : Nat} (h1 : 1900 ≤ y1) (h2 : 1900 ≤ y2)
    (hv1 : v1 < yearDays y1) (hv2 : v2 < yearDays y2)
    (heq : daysBeforeYear y1 + v1 = daysBeforeYear y2 + v2) : y1 = y2 ∧ v1 = v2 := by
  have hy : y1 = y2 := by
    rcases Nat.lt_trichotomy y1 y2 with hlt | he | hgt
    · have := daysBeforeYear_succ_le h1 hlt; omega
    · exact he
    · have := daysBeforeYear_succ_le h2 hgt; omega
  subst hy
  exact ⟨rfl, by omega⟩

/-! ### `monthDays`, `daysBeforeMonth` -/

theorem monthDays_bounds (y : Nat) {m : Nat} (hm : m < 12) :
    28 ≤ monthDays y m ∧ monthDays y m ≤ 31 := by
  unfold monthDays daysPerMonth
  cases isLeapYear y <;>
    (have : m = 0 ∨ m = 1 ∨ m = 2 ∨ m = 3 ∨ m = 4 ∨ m = 5 ∨ m = 6 ∨ m = 7 ∨ m = 8 ∨ m = 9 ∨
        m = 10 ∨ m = 11 := by omega
     rcases this with h | h | h | h | h | h | h | h | h | h | h | h <;> subst h <;> simp)

theorem monthDays_pos (y : Nat) {m : Nat} (hm : m < 12) : 0 < monthDays y m := by
  have := monthDays_bounds y hm; omega

theorem daysBeforeMonth_succ (y m : Nat) :
    daysBeforeMonth y (m + 1) = daysBeforeMonth y m + monthDays y m := rfl

theorem daysBeforeMonth_zero (y : Nat) : daysBeforeMonth y 0 = 0 := rfl

theorem daysBeforeMonth_le_add (y m k : Nat) :
    daysBeforeMonth y m ≤ daysBeforeMonth y (m + k) := by
  induction k with
  | zero => exact Nat.le_refl _
  | succ k ih =>
    have : daysBeforeMonth y (m + (k + 1)) = daysBeforeMonth y (m + k) + monthDays y (m + k) := rfl
    omega

theorem daysBeforeMonth_mono (y : Nat) {m m' : Nat} (h : m ≤ m') :
    daysBeforeMonth y m ≤ daysBeforeMonth y m' := by
  obtain ⟨k, rfl⟩ := Nat.exists_eq_add_of_le h
  exact daysBeforeMonth_le_add y m k

theorem daysBeforeMonth_succ_le (y : Nat) {m m' : Nat} (h : m < m') :
    daysBeforeMonth y m + monthDays y m ≤ daysBeforeMonth y m' := by
  rw [← daysBeforeMonth_succ]; exact daysBeforeMonth_mono y h

/-- the twelve months make up the year -/
theorem daysBeforeMonth_twelve (y : Nat) : daysBeforeMonth y 12 = yearDays y := by
  unfold yearDays
  cases h : isLeapYear y <;> simp [daysBeforeMonth, monthDays, daysPerMonth, h]

theorem month_decomp_unique {y m1 m2 v1 v2 : Nat}
    (hv1 : v1 < monthDays y m1) (hv2 : v2 < monthDays y m2)
    (heq : daysBeforeMonth y m1 + v1 = daysBeforeMonth y m2 + v2) : m1 = m2 ∧ v1 = v2 := by
  have hm : m1 = m2 := by
    rcases Nat.lt_trichotomy m1 m2 with hlt | he | hgt
    · have := daysBeforeMonth_succ_le y hlt; omega
    · exact he
    · have := daysBeforeMonth_succ_le y hgt; omega
  subst hm
  exact ⟨rfl, by omega⟩

/-- day-in-year of a valid (month, day) is inside the year -/
theorem dayInYear_lt {y m d : Nat} (hm1 : 1 ≤ m) (hm : m ≤ 12) (hd : d ≤ monthDays y (m - 1)) :
    daysBeforeMonth y (m - 1) + d ≤ yearDays y := by
  rw [← daysBeforeMonth_twelve]
  have h1 : daysBeforeMonth y (m - 1) + monthDays y (m - 1) = daysBeforeMonth y m := by
    have : m = (m - 1) + 1 := by omega
    conv => rhs; rw [this]
    rfl
  have := daysBeforeMonth_mono y hm
  omega

/-! ### the two loops -/

/-- Specification of the year loop: with enough fuel it stops because the remainder is
    smaller than the year, and it preserves `daysBeforeYear year + value`. -/
theorem yearLoop_spec (fuel : Nat) : ∀ (year value : Nat), 1900 ≤ year → value + 1 ≤ fuel →
    (yearLoop fuel year value).2 < yearDays (yearLoop fuel year value).1 ∧
    year ≤ (yearLoop fuel year value).1 ∧
    daysBeforeYear (yearLoop fuel year value).1 + (yearLoop fuel year value).2
      = daysBeforeYear year + value := by
  induction fuel with
  | zero => intro year value _ h; omega
  | succ fuel ih =>
    intro year value hy hf
    unfold yearLoop
    split
    · rename_i hge
      have hpos := yearDays_pos year
      have := ih (year + 1) (value - yearDays year) (by omega) (by omega)
      rw [daysBeforeYear_succ hy] at this
      omega
    · simp only; exact ⟨by omega, Nat.le_refl _, trivial⟩

/-- Specification of the month loop.  The guard `month < 12` is never the reason the loop
    stops as long as the day-in-year is inside the year. -/
theorem monthLoop_spec (year : Nat) (fuel : Nat) : ∀ (month value : Nat), month ≤ 12 →
    13 ≤ fuel + month → daysBeforeMonth year month + value < yearDays year →
    (monthLoop year fuel month value).1 < 12 ∧
    (monthLoop year fuel month value).2 < monthDays year (monthLoop year fuel month value).1 ∧
    month ≤ (monthLoop year fuel month value).1 ∧
    daysBeforeMonth year (monthLoop year fuel month value).1 + (monthLoop year fuel month value).2
      = daysBeforeMonth year month + value := by
  induction fuel with
  | zero => intro month value h1 h2; omega
  | succ fuel ih =>
    intro month value hm hf hlt
    unfold monthLoop
    split
    · rename_i hc
      have := ih (month + 1) (value - monthDays year month) (by omega) (by omega)
        (by rw [daysBeforeMonth_succ]; omega)
      rw [daysBeforeMonth_succ] at this
      omega
    · rename_i hc
      have h12 := daysBeforeMonth_twelve year
      have hm12 : month < 12 := by
        rcases Nat.lt_or_ge month 12 with h | h
        · exact h
        · have : month = 12 := by omega
          subst this; omega
      simp only
      exact ⟨hm12, by omega, Nat.le_refl _, trivial⟩

end Ckl.C17
