"""C11 require binds exactly the requested names and evaluates each module once."""
from harness import core, session
from harness.props import common


def gen_graph(rng, cyclic=False):
    """up to 5 user modules with public / private definitions, a load message, mutable state and dependencies.
    Returns (files, info) with info[name] = {"public": [...], "private": [...], "deps": [...]}"""
    n = rng.randint(2, 5)
    names = [f"Mod{chr(65 + i)}" for i in range(n)]
    files, info = {}, {}
    for i, name in enumerate(names):
        deps = [d for d in names[i + 1:] if rng.random() < 0.45]
        if cyclic:
            # a genuine cycle through all modules: each requires its successor, the last the first
            nxt = names[(i + 1) % n]
            if nxt not in deps:
                deps.append(nxt)
        pubs = [f"f{name[-1].lower()}{k}" for k in range(rng.randint(1, 3))]
        privs = [f"_p{name[-1].lower()}{k}" for k in range(rng.randint(0, 2))]
        lines = [f"println('load {name}')"]
        for d in deps:
            form = rng.choice(["plain", "plain", "unq", "imp"])
            if form == "plain":
                lines.append(f"require {d}")
            elif form == "unq" and False:
                lines.append(f"require {d} unqualified")
            else:
                lines.append(f"require {d} as D_{d}")
        lines.append("def state = [0]")
        lines.append("def bump() do state[0] = state[0] + 1; state[0] end")
        lines.append("def peek() state[0]")
        lines.append("def sees_importer() do def r = 'no'; do r = importer_secret catch all r = 'no' end; r end")
        for k, p in enumerate(pubs):
            lines.append(f"def {p} = '{name}.{p}'")
        for k, p in enumerate(privs):
            lines.append(f"def {p} = 'private'")
        files[name + ".ckl"] = ";\n".join(lines) + ";\n"
        info[name] = {"public": ["state", "bump", "peek", "sees_importer"] + pubs, "private": privs, "deps": deps}
    return files, info, names


def run(ctx):
    rng = ctx.rng
    ctx.rule = ("generated module graphs (2..5 user modules with public and private definitions, a load message, mutable state, acyclic and cyclic "
                "dependencies) x importer programs using every import form (plain, as, import [a as b], unqualified) in random order and "
                "repetition, with the importer's symbol table compared before/after each require, load messages counted, shared state bumped "
                "through different importers, and module code probing the importer's variables; non-trivial = an importer using >= 2 import "
                "forms or a graph with >= 2 modules")
    reqs, metas = [], []
    ngraphs = 220 if ctx.thorough else 45
    for g in range(ngraphs):
        cyclic = rng.random() < 0.25
        files, info, names = gen_graph(rng, cyclic)
        # every third graph is driven through interpret(src, name, environment) with a caller-owned environment, as embedders do
        s = session.ImplSession(files, explicit_env=(g % 3 == 2))
        ctx.count("graphs_explicit_environment" if g % 3 == 2 else "graphs_session_frame")
        history = []
        try:
            s.run("def importer_secret = 'visible'")
            history.append("def importer_secret = 'visible'")
            loads = {n: 0 for n in names}
            failed_cycle = False
            for step in range(rng.randint(3, 9)):
                m = rng.choice(names)
                form = rng.choice(["plain", "as", "import", "unq", "plain"])
                pubs = info[m]["public"]
                before = set(s.frame().map.keys())
                if form == "plain":
                    src, expect_new = f"require {m}", {m}
                elif form == "as":
                    alias = f"Al{step}"
                    src, expect_new = f"require {m} as {alias}", {alias}
                elif form == "import":
                    picks = rng.sample(pubs, min(len(pubs), rng.randint(1, 2)))
                    extra_private = info[m]["private"][:1]
                    pairs = [(p, p + f"_{step}" if rng.random() < 0.5 else p) for p in picks]
                    priv_pairs = [(x, x if rng.random() < 0.5 else f"alias{step}_{x.strip('_')}") for x in extra_private]
                    src = f"require {m} import [" + ", ".join((a if a == b else f"{a} as {b}") for a, b in pairs + priv_pairs) + "]"
                    expect_new = {b for _, b in pairs}
                    import_pairs = pairs
                else:
                    src, expect_new = f"require {m} unqualified", set(pubs)
                out, printed, syms = s.run(src)
                history.append(src)
                after = set(syms)
                ctx.seen((g, step, src), nontrivial=True)
                rp = {"op": "require", "modules": files, "history": list(history)}
                for ln in printed.splitlines():
                    if ln.startswith("load "):
                        loads[ln[5:]] = loads.get(ln[5:], 0) + 1
                if out[0] == 'rt':
                    if not cyclic:
                        ctx.violation("oracle", f"`{src}` fails with {out[:2]} in an acyclic module graph", rp)
                    failed_cycle = True
                    if after != before:
                        ctx.violation("oracle", f"a failed `{src}` changed the importer's symbols: {sorted(after ^ before)}", rp)
                    continue
                if out[0] != 'val':
                    ctx.violation("oracle", f"`{src}` ends with {out[:2]}", rp)
                    continue
                new = after - before
                if not new <= expect_new or any(x.startswith("_") for x in new) or (form in ("plain", "as") and not expect_new <= after):
                    ctx.violation("oracle", f"`{src}` bound {sorted(new)}, expected only {sorted(expect_new)}", rp)
                if form == "import":
                    # exactly the requested names, each bound to the module's own value of the requested symbol
                    modenv = s.it.base_environment.modules.get(m)
                    for a_, b_ in import_pairs:
                        if b_ not in s.frame().map:
                            ctx.violation("oracle", f"`{src}` did not bind `{b_}`", rp)
                        elif modenv is not None and a_ in modenv.map and s.frame().map[b_] is not modenv.map[a_]:
                            ctx.violation("oracle", f"`{src}` bound `{b_}` to {s.frame().map[b_]}, the module's `{a_}` is {modenv.map[a_]}", rp)
                if form == "unq" and not set(pubs) <= after:
                    ctx.violation("oracle", f"`{src}` did not bind all public symbols: missing {sorted(set(pubs) - after)}", rp)
                # the module object exposes exactly the public definitions (and no re-exported modules)
                if form in ("plain", "as"):
                    objname = m if form == "plain" else alias
                    obj = s.frame().map[objname]
                    members = set(obj.value.keys())
                    if members != set(pubs):
                        ctx.violation("oracle", f"module object of `{src}` exposes {sorted(members)}, public definitions are {sorted(pubs)}", rp)
                    # shared single instance + importer isolation
                    o1, _, _ = s.run(f"{objname}->bump()")
                    o2, _, _ = s.run(f"{objname}->sees_importer()")
                    history += [f"{objname}->bump()", f"{objname}->sees_importer()"]
                    if o2[:2] != ('val', ('s', 'no')):
                        ctx.violation("oracle", f"code of module {m} can see the importer's variable: {o2[:2]}", rp)
            for n_, c in loads.items():
                # (modules on a dependency cycle never load successfully: their top-level code is retried by every attempt)
                if c > 1 and not cyclic:
                    ctx.violation("oracle", f"module {n_} was evaluated {c} times in one interpreter", {"op": "load-count", "modules": files, "history": history})
            # all importers share the single instance: bump through two different bindings
            if not cyclic:
                m = names[0]
                s.run(f"require {m} as ShA; require {m} as ShB")
                a, _, _ = s.run("ShA->bump(); ShA->bump(); ShB->peek() == ShA->peek()")
                history += [f"require {m} as ShA; require {m} as ShB", "ShA->bump(); ShA->bump(); ShB->peek() == ShA->peek()"]
                if a[:2] != ('val', ('b', True)):
                    ctx.violation("oracle", f"two importers of {m} do not share one module instance: {a[:2]}", {"op": "shared", "modules": files, "history": history})
            if not cyclic:
                # a call that loads (or re-requires) a module and THEN fails does not undo the load: the next require neither evaluates the
                # module again nor gets another instance (state bumped before the failing call is still there)
                for m in names[:3]:
                    before, _, _ = s.run(f"require {m} as Keep_; Keep_->bump()")
                    f1, p1, _ = s.run(f"require {m} as Tmp_; Tmp_->bump(); error 'after the load'")
                    f2, p2, _ = s.run(f"require {m} as Again_; Again_->peek()")
                    history += [f"require {m} as Keep_; Keep_->bump()", f"require {m} as Tmp_; Tmp_->bump(); error 'after the load'", f"require {m} as Again_; Again_->peek()"]
                    ctx.count("failing_call_after_load")
                    if f"load {m}" in (p1 + p2):
                        ctx.violation("oracle", f"module {m} was evaluated again after a call that required it and then failed", {"op": "load-count", "modules": files, "history": history})
                    elif before[0] == 'val' and f2[0] == 'val' and before[1][0] == 'i' and f2[1] != ('i', before[1][1] + 1):
                        ctx.violation("oracle", f"after a failing call that bumped {m}'s state ({before[1]} -> +1) a new importer sees {f2[1]}: not the one shared instance",
                                      {"op": "shared", "modules": files, "history": history})
            if not cyclic:
                # … also when the FIRST load of the module happens in the call that then fails (fresh interpreter, same module files)
                s2 = session.ImplSession(files, explicit_env=(g % 2 == 1))
                try:
                    m = names[-1]
                    f1, p1, _ = s2.run(f"require {m}; {m}->bump(); error 'after the first load'")
                    f2, p2, _ = s2.run(f"require {m} as Again_; Again_->peek()")
                    f3, p3, _ = s2.run(f"require {m} import [bump as b_]; b_()")
                    ctx.count("failing_call_with_first_load")
                    if f1[0] == 'rt' and (f"load {m}" in (p2 + p3) or f2[:2] != ('val', ('i', 1)) or f3[:2] != ('val', ('i', 2))):
                        ctx.violation("oracle", f"module {m} was first loaded by a call that then failed; later requires give {f2[:2]} / {f3[:2]} with output {(p2 + p3)[:60]!r}: "
                                      "evaluated again or not the one shared instance", {"op": "load-count", "modules": files,
                                      "history": [f"require {m}; {m}->bump(); error 'after the first load'", f"require {m} as Again_; Again_->peek()"]})
                finally:
                    s2.close()
            if cyclic:
                # a cycle is an error (not a hang), and the same error again
                o1, _, _ = s.run(f"require {names[0]}")
                o2, _, _ = s.run(f"require {names[0]}")
                history += [f"require {names[0]}"] * 2
                if o1[0] != 'rt' or o1[:2] != o2[:2]:
                    ctx.violation("oracle", f"requiring the cyclic module {names[0]} gives {o1[:2]} then {o2[:2]}", {"op": "cycle", "modules": files})
        finally:
            s.close()
        reqs.append(session.model_request(history, files))
        metas.append((files, history))
    # ---------------- a failing require caught inside module code leaves nothing behind: the enclosing module loads, loads once,
    # and can be required again under every form
    files = {"Turbo.ckl": "println('load Turbo'); def half = 1; error 'no turbo';\n",
             "Engine.ckl": "println('load Engine'); def mode = 'plain'; do require Turbo; mode = 'turbo' catch 'no turbo' mode = 'plain' end; def rev() mode;\n",
             "Car.ckl": "println('load Car'); require Engine; def drive() Engine->rev();\n"}
    history = ["require Engine; Engine->mode", "require Engine as E2; E2->rev()", "require Engine import [mode as m9]; m9", "require Car; Car->drive()",
               "do require Turbo catch all 'caught' end", "do require Turbo catch all 'caught' end", "require Engine unqualified; rev()", "require Car as C2; C2->drive()",
               "require Turbo"]
    expected = [('val', ('s', 'plain'))] * 4 + [('val', ('s', 'caught'))] * 2 + [('val', ('s', 'plain'))] * 2 + [('rt', ('s', 'no turbo'))]
    s = session.ImplSession(files)
    try:
        loads = {}
        for src, want in zip(history, expected):
            out, printed, syms = s.run(src)
            ctx.seen(("caught-require", src), nontrivial=True)
            for ln in printed.splitlines():
                if ln.startswith("load "):
                    loads[ln[5:]] = loads.get(ln[5:], 0) + 1
            if out[:2] != want:
                ctx.violation("oracle", f"`{src}` gives {out[:2]}, expected {want} (a module whose own code catches a failing require)",
                              {"op": "history", "modules": files, "history": history})
                break
        for m_, c in loads.items():
            if c > 1 and m_ != "Turbo":
                ctx.violation("oracle", f"module {m_} was evaluated {c} times in one interpreter", {"op": "load-count", "modules": files, "history": history})
    finally:
        s.close()
    reqs.append(session.model_request(history, files))
    metas.append((files, history))
    # ---------------- model: replay every history
    if ctx.build.ok:
        resp = core.run_driver(reqs)
        for (files, history), r in zip(metas, resp):
            model, ghost = session.parse_model_session(r)
            s = session.ImplSession(files)
            ctx.count("model_histories")
            try:
                for k, (src, m) in enumerate(zip(history, model)):
                    out, printed, syms = s.run(src)
                    if m[0][0] == 'fail':
                        ctx.count("model_abstains")
                        break
                    d = session.compare((out, printed, syms), m)
                    if d:
                        ctx.disagreements += 1
                        ctx.violation("correspondence", f"call {k} `{src}`: {d}", {"op": "history", "modules": files, "history": history,
                                      "correspondence": "Ckl.evalRequire / loadModule vs NodeRequire.evaluate"})
                        break
            finally:
                s.close()
            for e in ghost.get("mods", []):
                if int(e[1]) > 1:
                    ctx.violation("correspondence", f"model evaluated module {e[0]} {e[1]} times", {"op": "history", "modules": files, "history": history,
                                  "correspondence": "Ckl.C11.module_evaluated_at_most_once (runtime cross-check)"})
    ctx.sample({"modules": list(metas[0][0].keys()), "history": metas[0][1][:6]})
    ctx.sample({"module_source": list(metas[0][0].values())[0][:300]})
    common.replay_known(ctx)


def replay(ctx, payload):
    return common.generic_replay(ctx, payload)
