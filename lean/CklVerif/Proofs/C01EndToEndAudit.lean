import CklVerif.Proofs.C01EndToEnd

#print axioms Ckl.E2E.parseScript_cases
#print axioms Ckl.E2E.tokenPos_of_scan
#print axioms Ckl.E2E.scanErrorAt_of_scan
#print axioms Ckl.E2E.parse_error_tokenPos
#print axioms Ckl.E2E.parseScript_total
#print axioms Ckl.E2E.parseScript_deterministic
#print axioms Ckl.E2E.FrontError.line_le
#print axioms Ckl.E2E.interpret_syntax_error
#print axioms Ckl.E2E.interpret_accepted
#print axioms Ckl.E2E.Ex01.onePlus_rejected
