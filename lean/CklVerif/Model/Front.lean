/-
  Layer 1 — the front end: `parse_script(script, filename) = parse(Lexer(script, filename).scan())`.
  `validRe` abstracts `re.compile` succeeding on a pattern literal.
-/
import CklVerif.Model.Lexer
import CklVerif.Model.Parser
namespace Ckl

def parseScriptWith (validRe : List Char → Bool) (src : List Char) (file : String := "-") : Except SynErr Node := do
  let toks ← Lexer.scan src file
  Parser.parseWith validRe file toks

def parseScript (src : List Char) (file : String := "-") : Except SynErr Node :=
  parseScriptWith (fun _ => true) src file

end Ckl
