/-
  E2E — the text `error <expression>`: the parser side.  If `parse_expression` turns the tokens after the keyword
  `error` into `e`, consuming them all, the program parses to `NodeError(e)` at the position of the keyword.
-/
import CklVerif.Lemmas.C08ParseList
namespace Ckl.E2E
open Ckl Ckl.Parser Ckl.C08

set_option linter.unusedSimpArgs false

/-- the keyword token `error` -/
def IsErrorKw (t : Token) : Prop := t.value = ['e', 'r', 'r', 'o', 'r'] ∧ t.type = .keyword

theorem matchOpTable_nil' (p : Pos) (tbl) : matchOpTable ⟨p, []⟩ tbl = none := by
  induction tbl with
  | nil => rfl
  | cons x xs ih => obtain ⟨v, fn⟩ := x; simp [matchOpTable, St.matchIf, ih]

/-- the statement `error <expression>`: if `parse_expression` turns the tokens after the keyword into `e`, consuming
    them all, `parse_statement` yields `NodeError(e)` at the position of the keyword -/
theorem stmt_error_of_expr (validRe : List Char → Bool) (t : Token) (rest : List Token) (e : Node)
    (ht : IsErrorKw t)
    (hexpr : ∀ c p, c.validRe = validRe → ∃ q h, pExpression c ⟨p, rest⟩ = .ok ⟨e, ⟨q, []⟩, h⟩) :
    ∀ c p, c.validRe = validRe → ∃ q h, pStatement c ⟨p, t :: rest⟩ = .ok ⟨.error e t.pos, ⟨q, []⟩, h⟩ := by
  obtain ⟨hv, hty⟩ := ht
  have hkw : ∀ p v, v ≠ ['e', 'r', 'r', 'o', 'r'] → St.matchIf ⟨p, t :: rest⟩ v (some .keyword) = none := by
    intro p v hne; simp [St.matchIf, St.tokIs, hv, hty, Ne.symm hne]
  have hop : ∀ p v, St.matchIf ⟨p, t :: rest⟩ v (some .operator) = none := by
    intro p v; simp [St.matchIf, St.tokIs, hty]
  have hprim : ∀ c p, c.validRe = validRe → ∃ q h, pPrimary c false ⟨p, t :: rest⟩ = .ok ⟨.error e t.pos, ⟨q, []⟩, h⟩ := by
    intro c p hc
    obtain ⟨q, h, hu⟩ := hexpr c t.pos hc
    refine ⟨q, by simp, ?_⟩
    rw [pPrimary]
    simp [St.hasNext, St.next, hv, hty, pPrimaryKw, hu, leLt, bind, Except.bind, pure, Except.pure]
  have hpred : ∀ c p, c.validRe = validRe → ∃ q h, pPred c false ⟨p, t :: rest⟩ = .ok ⟨.error e t.pos, ⟨q, []⟩, h⟩ := by
    intro c p hc; obtain ⟨q, h, hu⟩ := hprim c p hc
    refine ⟨q, h, ?_⟩
    rw [pPred]; simp [hu, St.matchIf, binPredTable, St.matchIf2, St.matchIf3, bind, Except.bind, pure, Except.pure]
  have hunary : ∀ c p, c.validRe = validRe → ∃ q h, pUnary c ⟨p, t :: rest⟩ = .ok ⟨.error e t.pos, ⟨q, []⟩, h⟩ := by
    intro c p hc; obtain ⟨q, h, hu⟩ := hpred c p hc
    refine ⟨q, h, ?_⟩
    rw [pUnary]; simp [hop, hu]
  have hmul : ∀ c p, c.validRe = validRe → ∃ q h, pMul c ⟨p, t :: rest⟩ = .ok ⟨.error e t.pos, ⟨q, []⟩, h⟩ := by
    intro c p hc; obtain ⟨q, h, hu⟩ := hunary c p hc
    refine ⟨q, h, ?_⟩
    rw [pMul]; simp [hu, bind, Except.bind, pure, Except.pure]; rw [mulLoop]; simp [matchOpTable_nil']
  have hadd : ∀ c p, c.validRe = validRe → ∃ q h, pAdd c ⟨p, t :: rest⟩ = .ok ⟨.error e t.pos, ⟨q, []⟩, h⟩ := by
    intro c p hc; obtain ⟨q, h, hu⟩ := hmul c p hc
    refine ⟨q, h, ?_⟩
    rw [pAdd]; simp [hu, bind, Except.bind, pure, Except.pure]; rw [addLoop]; simp [matchOpTable_nil']
  have hrel : ∀ c p, c.validRe = validRe → ∃ q h, pRel c ⟨p, t :: rest⟩ = .ok ⟨.error e t.pos, ⟨q, []⟩, h⟩ := by
    intro c p hc; obtain ⟨q, h, hu⟩ := hadd c p hc
    refine ⟨q, h, ?_⟩
    rw [pRel]; simp [hu, relGuard, St.peekn, bind, Except.bind, pure, Except.pure]
  have hnot : ∀ c p, c.validRe = validRe → ∃ q h, pNot c ⟨p, t :: rest⟩ = .ok ⟨.error e t.pos, ⟨q, []⟩, h⟩ := by
    intro c p hc; obtain ⟨q, h, hu⟩ := hrel c p hc
    refine ⟨q, h, ?_⟩
    rw [pNot]; simp [hkw, hu]
  have hand : ∀ c p, c.validRe = validRe → ∃ q h, pAnd c ⟨p, t :: rest⟩ = .ok ⟨.error e t.pos, ⟨q, []⟩, h⟩ := by
    intro c p hc; obtain ⟨q, h, hu⟩ := hnot c p hc
    refine ⟨q, h, ?_⟩
    rw [pAnd]; simp [hu, St.peekn, bind, Except.bind, pure, Except.pure]
  have hor : ∀ c p, c.validRe = validRe → ∃ q h, pOr c ⟨p, t :: rest⟩ = .ok ⟨.error e t.pos, ⟨q, []⟩, h⟩ := by
    intro c p hc; obtain ⟨q, h, hu⟩ := hand c p hc
    refine ⟨q, h, ?_⟩
    rw [pOr]; simp [hu, St.peekn, bind, Except.bind, pure, Except.pure]
  have hexpr' : ∀ c p, c.validRe = validRe → ∃ q h, pExpression c ⟨p, t :: rest⟩ = .ok ⟨.error e t.pos, ⟨q, []⟩, h⟩ := by
    intro c p hc; obtain ⟨q, h, hu⟩ := hor c p hc
    refine ⟨q, h, ?_⟩
    rw [pExpression]; simp [hkw, hu]
  have htc : ∀ p, takeComment ⟨p, t :: rest⟩ = ([], ⟨⟨p, t :: rest⟩, Nat.le_refl _⟩) := by
    intro p; simp [takeComment, hty]
  have hstmt : ∀ c p, c.validRe = validRe → ∃ q h, pStatement c ⟨p, t :: rest⟩ = .ok ⟨.error e t.pos, ⟨q, []⟩, h⟩ := by
    intro c p hc; obtain ⟨q, h, hu⟩ := hexpr' c p hc
    refine ⟨q, h, ?_⟩
    rw [pStatement]
    have htc := htc p
    generalize takeComment ⟨p, t :: rest⟩ = tc at htc ⊢
    subst htc
    simp [St.hasNext, hkw, hu, wkLt]
  exact hstmt

theorem parse_error_of_expr (validRe : List Char → Bool) (file : String) (t : Token) (rest : List Token) (e : Node)
    (ht : IsErrorKw t)
    (hexpr : ∀ c p, c.validRe = validRe → ∃ q h, pExpression c ⟨p, rest⟩ = .ok ⟨e, ⟨q, []⟩, h⟩) :
    parseWith validRe file (t :: rest) = .ok (.error e t.pos) := by
  have hstmt := stmt_error_of_expr validRe t rest e ht hexpr
  obtain ⟨hv, hty⟩ := ht
  have hpk : ∀ p v, v ≠ ['e', 'r', 'r', 'o', 'r'] → St.peekn ⟨p, t :: rest⟩ 1 v (some .keyword) = false := by
    intro p v hne; simp [St.peekn, St.tokIs, hv, hty, Ne.symm hne]
  have hbare : ∀ c p, c.validRe = validRe →
      ∃ q h, pBareBlock c true ⟨p, t :: rest⟩ = .ok ⟨.error e t.pos, ⟨q, []⟩, h⟩ := by
    intro c p hc; obtain ⟨q, h, hu⟩ := hstmt c p hc
    refine ⟨q, h, ?_⟩
    rw [pBareBlock]
    simp [hpk, hu, St.hasNext, St.matchIf, bind, Except.bind, pure, Except.pure]
  obtain ⟨q, h, hb⟩ := hbare ⟨endPosOf file (t :: rest), validRe⟩ t.pos rfl
  simp [parseWith, parseCore, hb, unwrapReturn]

end Ckl.E2E
