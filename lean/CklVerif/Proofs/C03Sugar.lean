/-
  C03Sugar — "calls bind arguments as declared": the desugarings and the argument-evaluation step.

  Part 1 (parser): `X !> f(A1, …, An)` is `f(X, A1, …, An)`.
    The parser model handles `!>` in the postfix loop of a primary expression (`postfixLoop`, whose
    three instances are `deref_or_call_or_invoke`, `deref_or_invoke`, `invoke`): the node parsed so far
    is handed to `_invoke` (`invokeBody`), which reads the function (`IDENT (-> IDENT)*` or `( fn … )`),
    expects `(` and runs the SAME argument loop as an ordinary call, started with `names = [None]`,
    `args = [node]`.  All statements are for arbitrary token positions, contexts and rests; results
    are compared up to positions (`NodeEq` = equal after `erase`; `SimOut`: both succeed with similar
    values and similar remaining tokens, or both fail with the same message).
  Part 2 (evaluator): the desugared call binds the piped value to the first free parameter.
  Part 3: the method call `obj->m(a)` passes the receiver.
  Part 4: spread arguments (`evalArgs`).
  Part 5: fresh parameter bindings per call.
  Part 6: concrete programs through `parseScript` and the evaluator.

  Helper lemmas: `Lemmas/C03SugarParse` (equations of the productions), `C03SugarErase` (outcomes up to
  positions, from the equivariance theorem of C14), `C03SugarTower`, `C03SugarEval` (`evalArgs`),
  `C03SugarCall` (`invoke`, `setArgs`), `C03SugarMethod` (`derefInvoke`, `findOwner`), `C03SugarFrames`.
-/
import CklVerif.Lemmas.C03SugarTower
import CklVerif.Lemmas.C03SugarFrames
import CklVerif.Lemmas.C03SugarMethod
import CklVerif.Driver.EvalCmd
namespace Ckl.C03S
open Ckl Ckl.Parser Ckl.C02P Ckl.C14P Ckl.C03

/-! ## Part 1: the pipeline operator in the parser -/

/-- what stands between the first argument and the remaining arguments `A'` on the call side:
    a comma, or nothing when `A'` begins with the closing parenthesis -/
inductive Sep (A' : List Token) : List Token → Prop
  | comma (tc : Token) (h : Is tc c!"," .interpunction) : Sep A' (tc :: A')
  | close (tr : Token) (rest : List Token) (h : Is tr c!")" .interpunction) (e : A' = tr :: rest) : Sep A' A'

theorem sepP_of_Sep {A' B : List Token} (h : Sep A' B) (q : Pos) :
    ∃ q', sepP ⟨q, B⟩ c!")" = .ok ⟨q', A'⟩ := by
  cases h with
  | comma tc h => exact ⟨tc.pos, sepP_comma h (by decide)⟩
  | close tr rest h e => subst e; exact ⟨q, sepP_closer h⟩

theorem nodeEq_call {fn fn' : Node} {a a' : List (Option String) × List Node} (p p' : Pos)
    (hf : NodeEq fn fn') (ha : ArgsEq a a') : NodeEq (.call fn a.1 a.2 p) (.call fn' a'.1 a'.2 p') := by
  unfold NodeEq at *
  simp only [C02P.erase, hf, ha.1, ha.2]

/-- **pipeline_step_desugars** (one `_invoke` against one `_call`).
    Pipeline side: the node `x` has been parsed, `!>` has been consumed, the tokens are
    `f (-> m)* ( A` (the hypothesis `hd` says that the `->` chain parses to `fn` and stops in front of `(`).
    Call side: `(` has been seen after a function node `fn'`; the tokens are `( Xt B` where the
    expression parser accepts `Xt` as `x'` leaving `B` (`hX`), `Xt` does not look like a named argument
    or an empty list (`hhead`), and `B` is `, A'` or `A' = ) …` (`hB`).
    If `x ≈ x'`, `fn ≈ fn'`, `A ≈ A'` up to positions, the two call nodes — and what is left of the
    input — agree up to positions, or both parsers fail with the same message. -/
theorem pipeline_step_desugars (c c' : Ctx) (hv : c'.validRe = c.validRe)
    (p : Pos) (tf tl : Token) (rest0 A : List Token) (x fn : Node) (q : Pos)
    (hf : tf.type = .identifier)
    (hd : plainLe (derefChain ⟨tf.pos, rest0⟩ (.ident (str tf.value) tf.pos)) = .ok (fn, ⟨q, tl :: A⟩))
    (hl : Is tl c!"(" .interpunction)
    (tl' : Token) (Xt B A' : List Token) (x' fn' : Node) (q' : Pos)
    (hX : plain (pExpression c' ⟨tl'.pos, Xt ++ B⟩) = .ok (x', ⟨q', B⟩))
    (hhead : PosHead (Xt ++ B)) (hB : Sep A' B)
    (hA : TokSim A A') (hx : NodeEq x x') (hfn : NodeEq fn fn') :
    SimOut NodeEq (plain (invokeBody c x ⟨p, tf :: rest0⟩))
      ((plain (argsLoop c' ⟨tl'.pos, Xt ++ B⟩ [] [])).bind
        (fun r => .ok (Node.call fn' r.1.1 r.1.2 tl'.pos, r.2))) := by
  rw [invokeBody_ident c p tf tl rest0 A x fn q hf hd hl, argsLoop_positional c' _ _ _ _ hhead, hX]
  obtain ⟨q'', hs⟩ := sepP_of_Sep hB q'
  simp only [Except.bind, hs, List.nil_append]
  refine SimOut.bind (argsLoop_sim [none] hv hA (by simp only [C02P.eraseL]; rw [show C02P.erase x = C02P.erase x' from hx])) ?_
  intro a s a' s' ha hs
  exact ⟨nodeEq_call _ _ hfn ha, hs⟩

/-- **pipeline_desugars** (postfix-loop level, the general hypothesis-style statement).
    In a postfix loop that allows calls (after an identifier or a parenthesised expression), at the
    tokens `!> f (-> m)* ( A` with the node `x` parsed so far, the parser yields — up to positions —
    exactly what it yields in the postfix loop of the function node at the tokens `( Xt , A'`
    (or `( Xt A'` when `A' = ) …`): the call `f(x, A…)` followed by whatever further postfix
    operators stand in the rest, the same remaining tokens, or the same syntax error. -/
theorem pipeline_desugars (c c' : Ctx) (hv : c'.validRe = c.validRe) (ad : Bool)
    (p : Pos) (tp tf tl : Token) (rest0 A : List Token) (x fn : Node) (q : Pos)
    (hp : Is tp c!"!>" .operator) (hf : tf.type = .identifier)
    (hd : plainLe (derefChain ⟨tf.pos, rest0⟩ (.ident (str tf.value) tf.pos)) = .ok (fn, ⟨q, tl :: A⟩))
    (hl : Is tl c!"(" .interpunction)
    (p' : Pos) (tl' : Token) (Xt B A' : List Token) (x' fn' : Node) (q' : Pos)
    (hl' : Is tl' c!"(" .interpunction)
    (hX : plain (pExpression c' ⟨tl'.pos, Xt ++ B⟩) = .ok (x', ⟨q', B⟩))
    (hhead : PosHead (Xt ++ B)) (hB : Sep A' B)
    (hA : TokSim A A') (hx : NodeEq x x') (hfn : NodeEq fn fn') :
    SimOut NodeEq (plainLe (postfixLoop c true ad ⟨p, tp :: tf :: rest0⟩ x))
      (plainLe (postfixLoop c' true ad ⟨p', tl' :: (Xt ++ B)⟩ fn')) := by
  rw [postfixLoop_pipe c true ad p tp _ x hp, postfixLoop_call c' ad p' tl' _ fn' hl']
  have hstep := pipeline_step_desugars c c' hv tp.pos tf tl rest0 A x fn q hf hd hl tl' Xt B A' x' fn' q'
    hX hhead hB hA hx hfn
  -- re-associate the call side: `(argsLoop …).bind (fun r => loop r.2 (call …))`
  have hre : ((plain (argsLoop c' ⟨tl'.pos, Xt ++ B⟩ [] [])).bind fun r =>
        plainLe (postfixLoop c' true ad r.2 (.call fn' r.1.1 r.1.2 tl'.pos))) =
      (((plain (argsLoop c' ⟨tl'.pos, Xt ++ B⟩ [] [])).bind
        (fun r => .ok (Node.call fn' r.1.1 r.1.2 tl'.pos, r.2))).bind
          fun r => plainLe (postfixLoop c' true ad r.2 r.1)) := by
    cases plain (argsLoop c' ⟨tl'.pos, Xt ++ B⟩ [] []) <;> rfl
  rw [hre]
  refine SimOut.bind hstep ?_
  intro a s a' s' ha hs
  exact postfixLoop_sim true ad hv hs ha

theorem follow_of_Sep {A' B : List Token} (h : Sep A' B) (k : Nat) : Follow k B := by
  cases h with
  | comma tc h => exact follow_comma h k
  | close tr rest h e => subst e; exact follow_close h k

theorem sep_head_not_eq {A' B : List Token} (h : Sep A' B) :
    ∀ t2 tl2, B = t2 :: tl2 → St.tokIs t2 c!"=" (some .operator) = false := by
  intro t2 tl2 e
  cases h with
  | comma tc h => cases e; exact tokIs_ne_type (by rw [h.2]; decide)
  | close tr rest h e' => subst e'; cases e; exact tokIs_ne_type (by rw [h.2]; decide)

/-- an identifier as call argument, followed by `,` or `)` -/
theorem pExpression_ident_arg (c : Ctx) (p : Pos) (t : Token) (B A' : List Token) (ht : t.type = .identifier)
    (hB : Sep A' B) :
    plain (pExpression c ⟨p, t :: B⟩) = .ok (.ident (str t.value) t.pos, ⟨t.pos, B⟩) := by
  obtain ⟨h1, h2, h3⟩ := ident_head ht
  exact pExpression_of_primary c p t B _ _ B h1 h2 h3
    (pPrimary_ident c false p t B ht (follow_of_Sep hB 7)) (follow_of_Sep hB 0)

/-- **pipeline_desugars_ident**: `x !> f ( A` against `f ( x , A'` (or `f ( x A'` when `A' = ) …`) for
    identifiers `x`, `f`, from `parse_primary_expr` on: same AST up to positions, same rest up to
    positions, or the same syntax error. -/
theorem pipeline_desugars_ident (c c' : Ctx) (hv : c'.validRe = c.validRe) (um um' : Bool)
    (p p' : Pos) (tx tp tf tl tf' tl' tx' : Token) (A A' B : List Token)
    (hx : tx.type = .identifier) (hp : Is tp c!"!>" .operator) (hf : tf.type = .identifier)
    (hl : Is tl c!"(" .interpunction)
    (hf' : tf'.type = .identifier) (hl' : Is tl' c!"(" .interpunction) (hx' : tx'.type = .identifier)
    (hxv : tx.value = tx'.value) (hfv : tf.value = tf'.value)
    (hB : Sep A' B) (hA : TokSim A A') :
    SimOut NodeEq (plain (pPrimary c um ⟨p, tx :: tp :: tf :: tl :: A⟩))
      (plain (pPrimary c' um' ⟨p', tf' :: tl' :: tx' :: B⟩)) := by
  rw [pPrimary_ident_postfix c um p tx _ hx (noAssign_of_Is hp (Or.inr (by decide))),
    pPrimary_ident_postfix c' um' p' tf' _ hf' (noAssign_of_Is hl' (Or.inl (by decide)))]
  have hd : plainLe (derefChain ⟨tf.pos, tl :: A⟩ (.ident (str tf.value) tf.pos)) =
      .ok (.ident (str tf.value) tf.pos, ⟨tf.pos, tl :: A⟩) :=
    derefChain_stop _ _ _ (by intro t tl0 e; cases e; exact tokIs_ne_type (by rw [hl.2]; decide))
  have hhead : PosHead ([tx'] ++ B) := by
    refine ⟨tokIs_ne_type (by rw [hx']; decide), fun _ t2 tl2 e => sep_head_not_eq hB t2 tl2 e⟩
  exact pipeline_desugars c c' hv true tx.pos tp tf tl (tl :: A) A _ _ tf.pos hp hf hd hl tf'.pos tl' [tx'] B A'
    (.ident (str tx'.value) tx'.pos) (.ident (str tf'.value) tf'.pos) tx'.pos hl'
    (pExpression_ident_arg c' tl'.pos tx' B A' hx' hB) hhead hB hA
    (by simp [NodeEq, C02P.erase, hxv]) (by simp [NodeEq, C02P.erase, hfv])

/-- `f ( x )` as a call argument, followed by `,` or `)`: the call node `f(x)` -/
theorem pExpression_call1_arg (c : Ctx) (p : Pos) (tf tl tx tr : Token) (B A' : List Token)
    (hf : tf.type = .identifier) (hl : Is tl c!"(" .interpunction) (hx : tx.type = .identifier)
    (hr : Is tr c!")" .interpunction) (hB : Sep A' B) :
    plain (pExpression c ⟨p, [tf, tl, tx, tr] ++ B⟩) =
      .ok (.call (.ident (str tf.value) tf.pos) [none] [.ident (str tx.value) tx.pos] tl.pos, ⟨tr.pos, B⟩) := by
  obtain ⟨h1, h2, h3⟩ := ident_head hf
  rw [show [tf, tl, tx, tr] ++ B = tf :: tl :: tx :: tr :: B from rfl]
  refine pExpression_of_primary c p tf _ _ _ B h1 h2 h3 ?_ (follow_of_Sep hB 0)
  rw [pPrimary_ident_postfix c false p tf _ hf (noAssign_of_Is hl (Or.inl (by decide))),
    postfixLoop_call c true tf.pos tl _ _ hl]
  have hhead : PosHead (tx :: tr :: B) :=
    ⟨tokIs_ne_type (by rw [hx]; decide), fun _ t2 tl2 e => by cases e; exact tokIs_ne_type (by rw [hr.2]; decide)⟩
  have hsep : Sep (tr :: B) (tr :: B) := .close tr B hr rfl
  rw [argsLoop_positional c tl.pos (tx :: tr :: B) [] [] hhead, pExpression_ident_arg c tl.pos tx _ _ hx hsep]
  simp only [Except.bind, sepP_closer hr, List.nil_append, argsLoop_close c tx.pos tr B _ _ hr]
  exact postfixLoop_stop c true true tr.pos B _ (follow_of_Sep hB 7)

/-- **pipeline_chain_desugars**: `x !> f ( ) !> g ( A` against `g ( f ( x ) , A'` (or `g ( f ( x ) A'` when
    `A' = ) …`): chained pipelines nest from the left, `x !> f() !> g(a)` = `g(f(x), a)`. -/
theorem pipeline_chain_desugars (c c' : Ctx) (hv : c'.validRe = c.validRe) (um um' : Bool) (p p' : Pos)
    (tx tp1 tf tl1 tr1 tp2 tg tl2 tg' tl2' tf' tl1' tx' tr1' : Token) (A A' B : List Token)
    (hx : tx.type = .identifier) (hp1 : Is tp1 c!"!>" .operator) (hf : tf.type = .identifier)
    (hl1 : Is tl1 c!"(" .interpunction) (hr1 : Is tr1 c!")" .interpunction)
    (hp2 : Is tp2 c!"!>" .operator) (hg : tg.type = .identifier) (hl2 : Is tl2 c!"(" .interpunction)
    (hg' : tg'.type = .identifier) (hl2' : Is tl2' c!"(" .interpunction) (hf' : tf'.type = .identifier)
    (hl1' : Is tl1' c!"(" .interpunction) (hx' : tx'.type = .identifier) (hr1' : Is tr1' c!")" .interpunction)
    (hxv : tx.value = tx'.value) (hfv : tf.value = tf'.value) (hgv : tg.value = tg'.value)
    (hB : Sep A' B) (hA : TokSim A A') :
    SimOut NodeEq (plain (pPrimary c um ⟨p, tx :: tp1 :: tf :: tl1 :: tr1 :: tp2 :: tg :: tl2 :: A⟩))
      (plain (pPrimary c' um' ⟨p', tg' :: tl2' :: ([tf', tl1', tx', tr1'] ++ B)⟩)) := by
  have hstop : ∀ (t : Token) (q : Pos) (R : List Token) (n : Node), Is t c!"(" .interpunction →
      plainLe (derefChain ⟨q, t :: R⟩ n) = .ok (n, ⟨q, t :: R⟩) := fun t q R n ht =>
    derefChain_stop _ _ _ (by intro t0 tl0 e; cases e; exact tokIs_ne_type (by rw [ht.2]; decide))
  -- the pipeline side: the first `!>` step
  rw [pPrimary_ident_postfix c um p tx _ hx (noAssign_of_Is hp1 (Or.inr (by decide))),
    postfixLoop_pipe c true true tx.pos tp1 _ _ hp1,
    invokeBody_ident c tp1.pos tf tl1 _ _ _ _ tf.pos hf (hstop tl1 tf.pos _ _ hl1) hl1,
    argsLoop_close c tl1.pos tr1 _ _ _ hr1]
  simp only [Except.bind]
  -- the call side
  rw [pPrimary_ident_postfix c' um' p' tg' _ hg' (noAssign_of_Is hl2' (Or.inl (by decide)))]
  have hhead : PosHead ([tf', tl1', tx', tr1'] ++ B) :=
    ⟨tokIs_ne_type (by rw [hf']; decide), fun _ t2 tl2 e => by
      cases e; exact tokIs_ne_type (by rw [hl1'.2]; decide)⟩
  exact pipeline_desugars c c' hv true tr1.pos tp2 tg tl2 (tl2 :: A) A _ _ tg.pos hp2 hg (hstop tl2 tg.pos _ _ hl2) hl2
    tg'.pos tl2' [tf', tl1', tx', tr1'] B A' _ (.ident (str tg'.value) tg'.pos) tr1'.pos hl2'
    (pExpression_call1_arg c' tl2'.pos tf' tl1' tx' tr1' B A' hf' hl1' hx' hr1' hB) hhead hB hA
    (by simp [NodeEq, C02P.erase, C02P.eraseL, hxv, hfv]) (by simp [NodeEq, C02P.erase, hgv])

/-- a whole program that is one primary expression headed by an identifier -/
theorem parseWith_of_primary (validRe : List Char → Bool) (file : String) (t : Token) (tl : List Token) (n : Node)
    (q : Pos) (ht : t.type = .identifier)
    (hp : plain (pPrimary ⟨endPosOf file (t :: tl), validRe⟩ false ⟨t.pos, t :: tl⟩) = .ok (n, ⟨q, []⟩)) :
    parseWith validRe file (t :: tl) = .ok (unwrapReturn n) := by
  obtain ⟨h1, h2, h3⟩ := ident_head ht
  have hor := pOr_of_primary _ t.pos t tl n q [] h2 h3 hp (Follow.nil 0)
  have hb := pBareBlock_of_or ⟨endPosOf file (t :: tl), validRe⟩ true t.pos t tl n q [] h1 hor
    (by intro t2 tl2 h; cases h)
  obtain ⟨hl, hb⟩ := plain_eq_ok hb
  simp [parseWith, parseCore, hb]

theorem nodeEq_unwrapReturn {n n' : Node} (h : NodeEq n n') : NodeEq (unwrapReturn n) (unwrapReturn n') := by
  unfold NodeEq at *
  rw [erase_eq_mapPos, erase_eq_mapPos, mapPos_unwrapReturn, mapPos_unwrapReturn, ← erase_eq_mapPos,
    ← erase_eq_mapPos, h]

/-- **pipeline_program_desugars** (whole programs): if the program `x !> f ( A` parses as one primary
    expression (i.e. `A` is a well-formed rest of an argument list that ends the program), then the
    programs `x !> f ( A` and `f ( x , A'` (resp. `f ( x A'`) both parse, to the same AST up to
    positions — for any positions of the tokens, any file names. -/
theorem pipeline_program_desugars (validRe : List Char → Bool) (file file' : String)
    (tx tp tf tl tf' tl' tx' : Token) (A A' B : List Token) (n : Node) (q : Pos)
    (hx : tx.type = .identifier) (hp : Is tp c!"!>" .operator) (hf : tf.type = .identifier)
    (hl : Is tl c!"(" .interpunction)
    (hf' : tf'.type = .identifier) (hl' : Is tl' c!"(" .interpunction) (hx' : tx'.type = .identifier)
    (hxv : tx.value = tx'.value) (hfv : tf.value = tf'.value)
    (hB : Sep A' B) (hA : TokSim A A')
    (hprim : plain (pPrimary ⟨endPosOf file (tx :: tp :: tf :: tl :: A), validRe⟩ false
      ⟨tx.pos, tx :: tp :: tf :: tl :: A⟩) = .ok (n, ⟨q, []⟩)) :
    parseWith validRe file (tx :: tp :: tf :: tl :: A) = .ok (unwrapReturn n) ∧
    ∃ n', parseWith validRe file' (tf' :: tl' :: tx' :: B) = .ok n' ∧ NodeEq (unwrapReturn n) n' := by
  refine ⟨parseWith_of_primary validRe file tx _ n q hx hprim, ?_⟩
  have hsim := pipeline_desugars_ident ⟨endPosOf file (tx :: tp :: tf :: tl :: A), validRe⟩
    ⟨endPosOf file' (tf' :: tl' :: tx' :: B), validRe⟩ rfl false false tx.pos tf'.pos tx tp tf tl tf' tl' tx' A A' B
    hx hp hf hl hf' hl' hx' hxv hfv hB hA
  rw [hprim] at hsim
  cases h2 : plain (pPrimary ⟨endPosOf file' (tf' :: tl' :: tx' :: B), validRe⟩ false
      ⟨tf'.pos, tf' :: tl' :: tx' :: B⟩) with
  | error e => rw [h2] at hsim; exact hsim.elim
  | ok r =>
    obtain ⟨n', q', R'⟩ := r
    rw [h2] at hsim
    obtain ⟨hn, ht⟩ := hsim
    have hR : R' = [] := by
      cases R' with
      | nil => rfl
      | cons a b => simp [TokSim] at ht
    subst hR
    exact ⟨unwrapReturn n', parseWith_of_primary validRe file' tf' _ n' q' hf' h2, nodeEq_unwrapReturn hn⟩

/-- **pipeline_literal_no_call**: after an `int` literal the postfix loop is `invoke` (calls and
    dereferences are not allowed): `5 !> f ( A` is still the call `f(5, A…)`, but the loop that goes on
    behind it takes only further `!>`.  (So `5 !> f()(1)` is NOT `f(5)(1)`: the `(1)` is left to the
    caller, which reports a syntax error.) -/
theorem pipeline_int_literal (c : Ctx) (um : Bool) (p : Pos) (t tp tf tl : Token) (A : List Token) (n : Nat)
    (ht : t.type = .int) (hn : parseIntLit t.value = some n)
    (hp : Is tp c!"!>" .operator) (hf : tf.type = .identifier) (hl : Is tl c!"(" .interpunction) :
    plain (pPrimary c um ⟨p, t :: tp :: tf :: tl :: A⟩) =
      (plain (argsLoop c ⟨tl.pos, A⟩ [none] [.lit (.int (if um then -(n : Int) else n)) t.pos])).bind (fun r =>
        plainLe (postfixLoop c false false r.2 (.call (.ident (str tf.value) tf.pos) r.1.1 r.1.2 tf.pos))) := by
  have hd : plainLe (derefChain ⟨tf.pos, tl :: A⟩ (.ident (str tf.value) tf.pos)) =
      .ok (.ident (str tf.value) tf.pos, ⟨tf.pos, tl :: A⟩) :=
    derefChain_stop _ _ _ (by intro t tl0 e; cases e; exact tokIs_ne_type (by rw [hl.2]; decide))
  rw [pPrimary_int_postfix c um p t _ n ht hn, postfixLoop_pipe c false false t.pos tp _ _ hp,
    invokeBody_ident c tp.pos tf tl (tl :: A) A _ _ tf.pos hf hd hl]
  cases plain (argsLoop c ⟨tl.pos, A⟩ [none] [.lit (.int (if um then -(n : Int) else n)) t.pos]) <;> rfl

/-- **pipeline_no_call**: `x !> f` not followed by `(` is a syntax error: "Expected ( but got …" at the
    offending token … -/
theorem pipeline_no_call (c : Ctx) (ac ad : Bool) (p : Pos) (tp tf t : Token) (rest : List Token) (x : Node)
    (hp : Is tp c!"!>" .operator) (hf : tf.type = .identifier)
    (ht : ¬ Is t c!"(" .interpunction) (ht' : ¬ Is t c!"->" .operator) :
    plainLe (postfixLoop c ac ad ⟨p, tp :: tf :: t :: rest⟩ x) =
      .error (mkErr ("Expected ( but got " ++ tokRepr t) t.pos) := by
  have hd : plainLe (derefChain ⟨tf.pos, t :: rest⟩ (.ident (str tf.value) tf.pos)) =
      .ok (.ident (str tf.value) tf.pos, ⟨tf.pos, t :: rest⟩) := by
    apply derefChain_stop
    intro t0 tl0 e; cases e
    cases hh : St.tokIs t c!"->" (some .operator) with
    | false => rfl
    | true => simp only [St.tokIs, Bool.and_eq_true, beq_iff_eq] at hh; exact absurd ⟨hh.1, hh.2⟩ ht'
  rw [postfixLoop_pipe c ac ad p tp _ x hp, invokeBody_no_call c tp.pos tf t _ rest x _ tf.pos hf hd ht]
  rfl

/-- … and at the end of the input it is "Unexpected end of input" (at the position of `f`) -/
theorem pipeline_no_call_eof (c : Ctx) (ac ad : Bool) (p : Pos) (tp tf : Token) (x : Node)
    (hp : Is tp c!"!>" .operator) (hf : tf.type = .identifier) :
    plainLe (postfixLoop c ac ad ⟨p, [tp, tf]⟩ x) = .error (errEof tf.pos) := by
  have hd : plainLe (derefChain ⟨tf.pos, []⟩ (.ident (str tf.value) tf.pos)) =
      .ok (.ident (str tf.value) tf.pos, ⟨tf.pos, []⟩) :=
    derefChain_stop _ _ _ (by intro t tl0 e; cases e)
  rw [postfixLoop_pipe c ac ad p tp _ x hp, invokeBody_no_call_eof c tp.pos tf [] x _ tf.pos hf hd]
  rfl

/-- **pipeline_lambda**: `x !> (fn … )( A`: the function is the lambda (parsed by `parse_fn` at the
    position of `fn`), the piped node is its first, positional argument; the call node carries the
    position of the `)` closing the lambda. -/
theorem pipeline_lambda (c : Ctx) (ac ad : Bool) (p : Pos) (tp t1 t2 tr tl : Token) (L A : List Token)
    (x lam : Node) (q : Pos)
    (hp : Is tp c!"!>" .operator) (h1 : Is t1 c!"(" .interpunction) (h2 : Is t2 c!"fn" .keyword)
    (hfn : plain (pFn c t2.pos ⟨t2.pos, L⟩) = .ok (lam, ⟨q, tr :: tl :: A⟩))
    (hr : Is tr c!")" .interpunction) (hl : Is tl c!"(" .interpunction) :
    plainLe (postfixLoop c ac ad ⟨p, tp :: t1 :: t2 :: L⟩ x) =
      (plain (argsLoop c ⟨tl.pos, A⟩ [none] [x])).bind (fun r =>
        plainLe (postfixLoop c ac ad r.2 (.call lam r.1.1 r.1.2 tr.pos))) := by
  rw [postfixLoop_pipe c ac ad p tp _ x hp, invokeBody_lambda c tp.pos t1 t2 tr tl L A x lam q h1 h2 hfn hr hl]
  cases plain (argsLoop c ⟨tl.pos, A⟩ [none] [x]) <;> rfl


/-! ## Part 2: the pipeline call in the evaluator -/

section
variable (ld : Loader)

theorem setArgs_cell {ps : List String} {ns : List (Option String)} {vs : List RVal} {pos : Pos} {s s' : State}
    {b : List (String × RVal)} (h : setArgs ps ns vs pos s = .ok b s') {a : Nat} {c : Cell}
    (hc : s.cell a = some c) : s'.cell a = some c ∧ s'.frames = s.frames := by
  rw [setArgs_spec] at h
  cases hb : bindSpec (addArgs ps).argNames (addArgs ps).restArgName (actualsOf ns vs) with
  | error m => rw [hb] at h; cases h
  | ok dr =>
    obtain ⟨d0, r⟩ := dr
    rw [hb] at h
    cases hr : (addArgs ps).restArgName with
    | none =>
      rw [hr] at h
      simp only [setArgsResult_ok_none, Out.ok.injEq] at h
      rw [← h.2]; exact ⟨hc, rfl⟩
    | some rn =>
      rw [hr] at h
      simp only [setArgsResult_ok_some, Out.ok.injEq] at h
      rw [← h.2]
      have ha : a < s.heap.size := by
        rcases Nat.lt_or_ge a s.heap.size with hlt | hge
        · exact hlt
        · simp only [State.cell] at hc
          rw [Array.getElem?_eq_none hge] at hc
          cases hc
      refine ⟨?_, (alloc_cell s (.list r)).2.2.1⟩
      rw [(alloc_cell s (.list r)).2.2.2 a ha]; exact hc

/-- **pipeline_binds_first** (evaluator level).  The node the parser builds for `x !> f(A…)` is
    `call f (none :: names) (x :: args)`.  Evaluating it: `f` is evaluated first, then `x`, then the
    remaining arguments (all in the caller's frame); when `f` is a closure whose first declared
    parameter `p1` is an ordinary parameter that no named argument of the call binds, then
    (i) the call is the `invoke` tail on the bindings `bound` computed by `setArgs` (see `setArgs_spec`),
    (ii) `bound` maps `p1` to the value of `x`, and (iii) the callee starts in a fresh frame in which
    `p1` is bound to that value, and goes on binding the remaining parameters.
    (When a named argument binds the first parameter, `x` goes to the first parameter that is still
    free: `setArgs_first_positional`; e.g. `7 !> f(a = 3)` is `f(b = 7, a = 3)` for `def f(a, b)`.) -/
theorem pipeline_binds_first (F : Nat) (env : EnvId) (fnN x : Node) (names : List (Option String))
    (args : List Node) (pos : Pos) (s s0 s1 s2 s3 : State) (a : Nat) (v : RVal)
    (rn : List (Option String)) (rv : List RVal) (cenv : EnvId) (p1 : String) (ps : List String) (d : Node)
    (ds : List Node) (body : Node) (nm : String) (bound : List (String × RVal))
    (hfn : eval ld (F + 3) env fnN s = .ok (.closure a) s0)
    (hx : isSpread x = false) (hxv : eval ld (F + 1) env x s0 = .ok v s1)
    (hargs : evalArgs ld (F + 1) env names args pos s1 = .ok (rn, rv) s2)
    (hcell : s2.cell a = some (.closure cenv (p1 :: ps) (d :: ds) body nm))
    (hp1 : p1.endsWith "..." = false)
    (hnamed : dictHas p1 (dictOfPairs (namedOf (actualsOf rn rv))) = false)
    (hset : setArgs (p1 :: ps) (none :: rn) (v :: rv) pos s2 = .ok bound s3) :
    eval ld (F + 4) env (.call fnN (none :: names) (x :: args) pos) s
        = callWrap ld (F + 2) (.closure a) bound env pos s3 ∧
    dictGet p1 bound = some v ∧
    callFn ld (F + 2) (.closure a) bound env pos s3 =
      (do bindParams ld F s3.frames.size ps ds bound pos
          let r ← eval ld (F + 1) s3.frames.size body
          match r with
          | .ret v _ => pure v
          | .brk p => throwE "Cannot use break without surrounding loop" p
          | .cont p => throwE "Cannot use continue without surrounding loop" p
          | v => pure v : EvalM RVal) ((s3.newEnv cenv).1.put s3.frames.size p1 v) := by
  have hbound : dictGet p1 bound = some v := by
    refine setArgs_first_positional hset ?_
    have : (addArgs (p1 :: ps)).argNames = p1 :: (addArgs ps).argNames := by
      rw [addArgs_eq, addArgs_eq]; simp [hp1]
    rw [this]
    exact nextPositional_head hnamed
  refine ⟨?_, hbound, ?_⟩
  · have hev : evalArgs ld (F + 2) env (none :: names) (x :: args) pos s0 = .ok (none :: rn, v :: rv) s2 := by
      have hae : argExpr x = x := by cases x <;> simp [isSpread] at hx <;> rfl
      rw [evalArgs_step ld (F + 1) env none names x args pos s0 s1 v (by rw [hae]; exact hxv)]
      simp only [contrib, hx, Bool.false_eq_true, if_false, hargs]
      rfl
    rw [eval]
    have hisf : (RVal.closure a).isFunc = true := rfl
    simp only [EvalM.bind_apply, hfn, hisf, Bool.not_true, Bool.false_eq_true, if_false]
    rw [invoke_closure ld (F + 2) a [] (none :: names) (x :: args) env pos s0 s2 _ _ hev hcell]
    simp only [List.map_nil, List.nil_append, EvalM.bind_apply, hset]
  · have hc3 := (setArgs_cell hset hcell).1
    rw [callFn_closure (F + 1) a bound env pos s3 hc3]
    unfold callBody
    rw [show (bindParams ld (F + 1) s3.frames.size (p1 :: ps) (d :: ds) bound pos >>= fun _ => _) = _ from rfl]
    simp only [EvalM.bind_apply, bindParams_bound ld hbound]
    rfl

/-! ## Part 3: the method call `obj->m(a)` -/

/-- **method_call_passes_receiver**.  `obj->m(A…)` where `obj` evaluates to a (non-module) object `o`,
    the member `m` is found on `o` itself or anywhere up its `_proto_` chain (`findOwner`, characterised
    by `findOwner_iff` / `OwnerAt`) and is a closure: the arguments are evaluated in the caller's frame
    and the closure is called with the RECEIVER `o` — the object the call was written on, not the owner
    on the chain — prepended as a positional argument: it is bound to the first parameter that no
    named argument binds.  (For the other receivers see `derefInvoke_module` — no receiver is passed —,
    `derefInvoke_map` — the member is the value under the string key, no receiver —, and for the errors
    `derefInvoke_not_found`, `derefInvoke_not_function`, `derefInvoke_map_not_found`,
    `derefInvoke_map_not_function`, `derefInvoke_other`.) -/
theorem method_call_passes_receiver (F : Nat) (env : EnvId) (objN : Node) (member : String)
    (names : List (Option String)) (args : List Node) (pos : Pos) (s s1 s2 s3 : State) (a af : Nat)
    (kvs owner : List (String × RVal)) (ns : List (Option String)) (vs : List RVal)
    (cenv : EnvId) (ps : List String) (ds : List Node) (body : Node) (nm : String) (bound : List (String × RVal))
    (ho : eval ld (F + 1) env objN s = .ok (.ref a) s1)
    (hc : s1.cell a = some (.obj kvs false))
    (hown : findOwner s1 (.ref a) member = some owner)
    (hm : dictGet member owner = some (.closure af))
    (hargs : evalArgs ld F env names args pos s1 = .ok (ns, vs) s2)
    (hcell : s2.cell af = some (.closure cenv ps ds body nm))
    (hset : setArgs ps (none :: ns) (.ref a :: vs) pos s2 = .ok bound s3) :
    eval ld (F + 2) env (.derefInvoke objN member names args pos) s
        = callWrap ld F (.closure af) bound env pos s3 ∧
    ∀ p1, nextPositional (addArgs ps).argNames (dictOfPairs (namedOf (actualsOf ns vs))) = some p1 →
      dictGet p1 bound = some (.ref a) := by
  refine ⟨?_, fun p1 hp => setArgs_first_positional hset hp⟩
  rw [derefInvoke_object ld (F + 1) env objN member names args pos s s1 a kvs owner ho hc hown
    (by rw [hm]; rfl), hm]
  simp only [Option.getD_some]
  rw [invoke_closure ld F af [.ref a] names args env pos s1 s2 ns vs hargs hcell]
  simp only [List.map_cons, List.map_nil, List.cons_append, List.nil_append, EvalM.bind_apply, hset]

end

/-! ## Part 4: spread arguments — `evalArgs_step`, `evalArgs_spec`, `contrib` (Lemmas/C03SugarEval) -/

/-- an ordinary argument contributes its value under its declared name -/
theorem contrib_plain (s : State) (n : Option String) (a : Node) (v : RVal) (h : isSpread a = false) :
    contrib s n a v = .ok ([n], [v]) := by
  simp [contrib, h]

/-- a spread list: its elements, in order, all positional -/
theorem contrib_list (s : State) (n : Option String) (e : Node) (p : Pos) (addr : Nat) (xs : List RVal)
    (hc : s.cell addr = some (.list xs)) :
    contrib s n (.spread e p) (.ref addr) = .ok (xs.map (fun _ => none), xs) := by
  simp [contrib, isSpread, hc]

/-- a spread set: its elements in ascending order, all positional -/
theorem contrib_set (s : State) (n : Option String) (e : Node) (p : Pos) (addr : Nat) (xs ys : List RVal)
    (hc : s.cell addr = some (.set xs)) (hs : sortedR s xs = some ys) :
    contrib s n (.spread e p) (.ref addr) = .ok (ys.map (fun _ => none), ys) := by
  simp [contrib, isSpread, hc, hs]

/-- `f(a, ...l, b, k = v)`: the (names, values) lists are exactly the concatenation
    `[none] ++ [none, …] ++ [none] ++ [some k]`, `[a] ++ elements of l ++ [b] ++ [v]` -/
theorem expandAll_mixed (s : State) (addr : Nat) (xs : List RVal) (va vb vk : RVal) (ea el eb ek : Node) (p : Pos)
    (k : String) (ha : isSpread ea = false) (hb : isSpread eb = false) (hk : isSpread ek = false)
    (hl : s.cell addr = some (.list xs)) :
    expandAll s [none, none, none, some k] [ea, .spread el p, eb, ek] [va, .ref addr, vb, vk] =
      .ok ([none] ++ xs.map (fun _ => none) ++ [none] ++ [some k], [va] ++ xs ++ [vb] ++ [vk]) := by
  simp only [expandAll, contrib_plain s _ _ _ ha, contrib_plain s _ _ _ hb, contrib_plain s _ _ _ hk,
    contrib_list s _ _ _ _ _ hl]
  simp

/-- a spread map: its entries in ascending key order, under their keys -/
theorem contrib_map (s : State) (n : Option String) (e : Node) (p : Pos) (addr : Nat) (kvs es : List (RVal × RVal))
    (hc : s.cell addr = some (.map kvs)) (hs : sortedEntriesR s kvs = some es) :
    contrib s n (.spread e p) (.ref addr) = .ok (es.map keyName, es.map (·.2)) := by
  simp [contrib, isSpread, hc, hs]

/-- a spread of a value that is no list, set or map -/
theorem contrib_bad (s : State) (n : Option String) (e : Node) (p : Pos) (v : RVal)
    (h : ∀ addr, v = .ref addr → (∀ xs, s.cell addr ≠ some (.list xs)) ∧ (∀ xs, s.cell addr ≠ some (.set xs)) ∧
      (∀ kvs, s.cell addr ≠ some (.map kvs))) :
    contrib s n (.spread e p) v = .error (.cannotSpread (typeName s v)) := by
  cases v with
  | ref addr =>
    obtain ⟨h1, h2, h3⟩ := h addr rfl
    simp only [contrib, isSpread, if_true]
  | _ => rfl

/-! ## Part 6: non-vacuity -/

section Examples

def tk (v : String) (ty : TokType) (col : Int) : Token := ⟨v.toList, ty, ⟨"-", 1, col⟩⟩

/-- `pipeline_desugars_ident` applies to the tokens of `x !> f(1)` and `f(x, 1)` (positions differ) -/
example (c : Ctx) : SimOut NodeEq
    (plain (pPrimary c false ⟨default,
      [tk "x" .identifier 1, tk "!>" .operator 3, tk "f" .identifier 6, tk "(" .interpunction 7,
       tk "1" .int 8, tk ")" .interpunction 9]⟩))
    (plain (pPrimary c false ⟨default,
      [tk "f" .identifier 1, tk "(" .interpunction 2, tk "x" .identifier 3, tk "," .interpunction 4,
       tk "1" .int 6, tk ")" .interpunction 7]⟩)) :=
  pipeline_desugars_ident c c rfl false false default default _ _ _ _ _ _ _ _ _ _ rfl ⟨rfl, rfl⟩ rfl ⟨rfl, rfl⟩
    rfl ⟨rfl, rfl⟩ rfl rfl rfl (.comma _ ⟨rfl, rfl⟩) rfl

/-- … and to `x !> f()` against `f(x)` (no comma) -/
example (c : Ctx) : SimOut NodeEq
    (plain (pPrimary c false ⟨default,
      [tk "x" .identifier 1, tk "!>" .operator 3, tk "f" .identifier 6, tk "(" .interpunction 7,
       tk ")" .interpunction 8]⟩))
    (plain (pPrimary c false ⟨default,
      [tk "f" .identifier 1, tk "(" .interpunction 2, tk "x" .identifier 3, tk ")" .interpunction 4]⟩)) :=
  pipeline_desugars_ident c c rfl false false default default _ _ _ _ _ _ _ _ _ _ rfl ⟨rfl, rfl⟩ rfl ⟨rfl, rfl⟩
    rfl ⟨rfl, rfl⟩ rfl rfl rfl (.close _ _ ⟨rfl, rfl⟩ rfl) rfl

/-- `pipeline_chain_desugars` applies to the tokens of `x !> f() !> g(a)` and `g(f(x), a)` -/
example (c : Ctx) : SimOut NodeEq
    (plain (pPrimary c false ⟨default,
      [tk "x" .identifier 1, tk "!>" .operator 3, tk "f" .identifier 6, tk "(" .interpunction 7,
       tk ")" .interpunction 8, tk "!>" .operator 10, tk "g" .identifier 13, tk "(" .interpunction 14,
       tk "a" .identifier 15, tk ")" .interpunction 16]⟩))
    (plain (pPrimary c false ⟨default,
      tk "g" .identifier 1 :: tk "(" .interpunction 2 ::
        ([tk "f" .identifier 3, tk "(" .interpunction 4, tk "x" .identifier 5, tk ")" .interpunction 6] ++
          [tk "," .interpunction 7, tk "a" .identifier 9, tk ")" .interpunction 10])⟩)) :=
  pipeline_chain_desugars c c rfl false false default default _ _ _ _ _ _ _ _ _ _ _ _ _ _ _ _ _
    rfl ⟨rfl, rfl⟩ rfl ⟨rfl, rfl⟩ ⟨rfl, rfl⟩ ⟨rfl, rfl⟩ rfl ⟨rfl, rfl⟩ rfl ⟨rfl, rfl⟩ rfl ⟨rfl, rfl⟩ rfl ⟨rfl, rfl⟩
    rfl rfl rfl (.comma _ ⟨rfl, rfl⟩) rfl

/-- `pipeline_program_desugars` on the programs `x !> f()` and `f(x)`: its hypothesis is met … -/
theorem ex_prim (c : Ctx) : plain (pPrimary c false ⟨⟨"-", 1, 1⟩,
      [tk "x" .identifier 1, tk "!>" .operator 3, tk "f" .identifier 6, tk "(" .interpunction 7,
       tk ")" .interpunction 8]⟩) =
    .ok (.call (.ident "f" ⟨"-", 1, 6⟩) [none] [.ident "x" ⟨"-", 1, 1⟩] ⟨"-", 1, 6⟩, ⟨⟨"-", 1, 8⟩, []⟩) := by
  rw [pPrimary_ident_postfix c false _ (tk "x" .identifier 1) _ rfl (noAssign_of_Is (t := tk "!>" .operator 3)
      ⟨rfl, rfl⟩ (Or.inr (by decide))),
    postfixLoop_pipe c true true _ (tk "!>" .operator 3) _ _ ⟨rfl, rfl⟩,
    invokeBody_ident c _ (tk "f" .identifier 6) (tk "(" .interpunction 7) _ _ _ _ ⟨"-", 1, 6⟩ rfl
      (derefChain_stop _ _ _ (by intro t tl0 e; cases e; rfl)) ⟨rfl, rfl⟩,
    argsLoop_close c _ (tk ")" .interpunction 8) _ _ _ ⟨rfl, rfl⟩]
  exact postfixLoop_stop c true true _ [] _ (Follow.nil 7)

/-- … so both programs parse to the same AST up to positions -/
example : ∃ n', parseWith (fun _ => true) "other"
      [tk "f" .identifier 1, tk "(" .interpunction 2, tk "x" .identifier 3, tk ")" .interpunction 4] = .ok n' ∧
    NodeEq (unwrapReturn (.call (.ident "f" ⟨"-", 1, 6⟩) [none] [.ident "x" ⟨"-", 1, 1⟩] ⟨"-", 1, 6⟩)) n' :=
  (pipeline_program_desugars (fun _ => true) "-" "other" (tk "x" .identifier 1) (tk "!>" .operator 3)
    (tk "f" .identifier 6) (tk "(" .interpunction 7) (tk "f" .identifier 1) (tk "(" .interpunction 2)
    (tk "x" .identifier 3) [tk ")" .interpunction 8] [tk ")" .interpunction 4] [tk ")" .interpunction 4] _ _
    rfl ⟨rfl, rfl⟩ rfl ⟨rfl, rfl⟩
    rfl ⟨rfl, rfl⟩ rfl rfl rfl (.close _ _ ⟨rfl, rfl⟩ rfl) rfl (ex_prim _)).2

/-- `pipeline_int_literal` on the tokens of `5 !> f(` … -/
example (c : Ctx) (A : List Token) :
    plain (pPrimary c false ⟨default, tk "5" .int 1 :: tk "!>" .operator 3 :: tk "f" .identifier 6 ::
      tk "(" .interpunction 7 :: A⟩) =
      (plain (argsLoop c ⟨⟨"-", 1, 7⟩, A⟩ [none] [.lit (.int 5) ⟨"-", 1, 1⟩])).bind (fun r =>
        plainLe (postfixLoop c false false r.2 (.call (.ident "f" ⟨"-", 1, 6⟩) r.1.1 r.1.2 ⟨"-", 1, 6⟩))) :=
  pipeline_int_literal c false default (tk "5" .int 1) _ _ _ A 5 rfl (by decide) ⟨rfl, rfl⟩ rfl ⟨rfl, rfl⟩

/-- the syntax errors of `x !> f` -/
example (c : Ctx) (x : Node) :
    plainLe (postfixLoop c true true ⟨default, [tk "!>" .operator 3, tk "f" .identifier 6]⟩ x) =
      .error (errEof ⟨"-", 1, 6⟩) :=
  pipeline_no_call_eof c true true default _ _ x ⟨rfl, rfl⟩ rfl

example (c : Ctx) (x : Node) :
    plainLe (postfixLoop c true true ⟨default, [tk "!>" .operator 3, tk "f" .identifier 6, tk "+" .operator 8]⟩ x) =
      .error (mkErr ("Expected ( but got " ++ tokRepr (tk "+" .operator 8)) ⟨"-", 1, 8⟩) :=
  pipeline_no_call c true true default _ _ _ [] x ⟨rfl, rfl⟩ rfl (by intro h; cases h.2) (by intro h; cases h.1)

/-! concrete programs: scanner + parser + evaluator -/

def exSt0 : State × EnvId := initialState true modelledNatives

def runSrc (src : String) (fuel : Nat := 200) : String :=
  match parseScript src.toList "-" with
  | .error e => "syntax: " ++ e.msg
  | .ok n =>
    match interpretProg {} fuel exSt0.2 n exSt0.1 with
    | .ok v s => "ok " ++ (match rrender s v with | some t => String.ofList t | none => "?")
    | .err _ m _ t _ => "err " ++ m ++ " " ++ toString (t.map (·.1))
    | .fail f _ => "fail " ++ (match f with
        | .oof => "oof" | .unsupported w => "unsupported " ++ w | .host k => "host " ++ k | .syn e => "syn " ++ e.msg)

/-- the AST up to positions, printed -/
def astOf (src : String) : String :=
  match parseScript src.toList "-" with
  | .error e => "syntax: " ++ e.msg
  | .ok n => toString (repr (C02P.erase n))

-- 1. the pipeline desugars (parser), also chained, with named arguments, with a lambda
#guard astOf "x !> f(1, k = 2)" == astOf "f(x, 1, k = 2)"
#guard astOf "x !> f()" == astOf "f(x)"
#guard astOf "x !> f()" == astOf "f(x,)"
#guard astOf "x !> f() !> g(a)" == astOf "g(f(x), a)"
#guard astOf "(a + b) !> f(1)" == astOf "f((a + b), 1)"
#guard astOf "[1, 2] !> f(...l)" == astOf "f([1, 2], ...l)"
#guard astOf "x !> (fn(y) y)(1)" == astOf "(fn(y) y)(x, 1)"
#guard astOf "x !> m->f(1)" == astOf "(m->f)(x, 1)"
-- `x !> m->f(1)` is NOT the method call `m->f(x, 1)` (that one passes the receiver `m` for plain objects)
#guard astOf "x !> m->f(1)" != astOf "m->f(x, 1)"
-- precedence: `!>` binds like a postfix operator
#guard astOf "1 + x !> f()" == astOf "1 + f(x)"
#guard astOf "x !> f" == "syntax: Unexpected end of input"
#guard astOf "x !> f + 1" == "syntax: Expected ( but got + (operator)"
-- after a literal the postfix loop takes only `!>`: `5 !> f()(1)` leaves `(1)` to the caller
#guard astOf "5 !> f()(1)" == "syntax: Expected end of input but got '( (interpunction)'"
#guard astOf "x !> f()(1)" == astOf "f(x)(1)"
-- 2. the piped value is bound to the first free parameter
#guard runSrc "def f(a, b) a * 10 + b; 7 !> f(3)" == "ok 73"
#guard runSrc "def f(a, b) a * 10 + b; f(7, 3)" == "ok 73"
#guard runSrc "def f(a, b) a * 10 + b; 7 !> f(a = 3)" == "ok 37"
#guard runSrc "def f(a) a + 1; def g(a, b) a * b; 2 !> f() !> g(5)" == "ok 15"
#guard runSrc "3 !> (fn(y, z) y - z)(1)" == "ok 2"
-- 3. method calls: receiver first; the receiver is the object the call is written on, not the owner
#guard runSrc "def o = <* x = 5, get = fn(self, k) self->x + k *>; o->get(1)" == "ok 6"
#guard runSrc "def p = <* m = fn(self) self->tag, tag = 'parent' *>; def c = <* _proto_ = p, tag = 'child' *>; c->m()"
  == "ok 'child'"
#guard runSrc "def c = <* tag = 'child' *>; c->m()" == "err Member m not found []"
#guard runSrc "def c = <* m = 1 *>; c->m()" == "err Member m is not a function []"
#guard runSrc "def c = <<<'m' => fn(a) a + 1>>>; c->m(4)" == "ok 5"
#guard runSrc "def c = <<<'m' => 3>>>; c->m(4)" == "err m is not a function []"
#guard runSrc "def c = <<<'k' => 3>>>; c->m(4)" == "err Member m not found []"
#guard runSrc "def c = 5; c->m(4)" == "err Cannot deref-invoke []"
-- 4. spreads
#guard runSrc "def f(a, b, c) [a, b, c]; def l = [1, 2]; f(...l, 3)" == "ok [1, 2, 3]"
#guard runSrc "def f(a, b, c) [a, b, c]; f(...<<<'c' => 3, 'a' => 1>>>, b = 2)" == "ok [1, 2, 3]"
#guard runSrc "def f(a, b, c) [a, b, c]; f(0, ...<<<'c' => 3, 'b' => 1>>>)" == "ok [0, 1, 3]"
#guard runSrc "def g(a, r...) [a, r...]; g(0, ...[1, 2, 3], 4)" == "ok [0, [1, 2, 3, 4]]"
#guard runSrc "def f(a) a; def x = 5; f(...x)" == "err Cannot spread int []"
-- 5. fresh bindings per call; lexical scope; defaults in the callee scope
#guard runSrc "def fact(n) if n <= 1 then 1 else n * fact(n - 1); fact(5)" == "ok 120"
#guard runSrc "def f(n) do def r = if n > 0 then f(n - 1) else 0; n * 10 + r; end; f(2)" == "ok 30"
#guard runSrc "def x = 1; def f(a) a + x; def g() do def x = 100; f(1); end; g()" == "ok 2"
#guard runSrc "def f(a, b = a * 2) [a, b]; def a = 50; f(1)" == "ok [1, 2]"

/-! instances of the evaluator theorems -/

/-- frame 0 defines `l` (a list cell) and `m` (a map cell) -/
def exS : State :=
  { frames := #[{ vars := [("l", .ref 0), ("m", .ref 1), ("n", .int 5)], parent := none }],
    heap := #[.list [.int 1, .int 2], .map [(.str ['b'], .int 20), (.str ['a'], .int 10)]] }

theorem exS_pure : PureArgs {} 0 exS 4
    [.lit (.int 7) {}, .spread (.ident "l" {}) {}, .spread (.ident "m" {}) {}] [.int 7, .ref 0, .ref 1] := by
  refine .cons ?_ (.cons ?_ (.cons ?_ (.nil 0)))
  · show eval {} 3 0 (.lit (.int 7) {}) exS = _
    rw [eval]; rfl
  · show eval {} 2 0 (.ident "l" {}) exS = _
    rw [eval]; rfl
  · show eval {} 1 0 (.ident "m" {}) exS = _
    rw [eval]; rfl

/-- `f(7, ...l, ...m)` with `l = [1, 2]`, `m = <<<'b' => 20, 'a' => 10>>>`:
    `f(7, 1, 2, a = 10, b = 20)` — the map entries in ascending KEY order -/
example : evalArgs {} 4 0 [none, none, none]
      [.lit (.int 7) {}, .spread (.ident "l" {}) {}, .spread (.ident "m" {}) {}] {} exS =
    argsOutcome {} exS (expandAll exS [none, none, none]
      [.lit (.int 7) {}, .spread (.ident "l" {}) {}, .spread (.ident "m" {}) {}] [.int 7, .ref 0, .ref 1]) :=
  evalArgs_spec {} exS_pure _ _

#guard (match expandAll exS [none, none, none]
      [.lit (.int 7) {}, .spread (.ident "l" {}) {}, .spread (.ident "m" {}) {}] [.int 7, .ref 0, .ref 1] with
  | .ok (ns, vs) => ns == [none, none, none, some "a", some "b"] &&
      (vs.map (fun (v : RVal) => match v with | RVal.int n => n | _ => (-1 : Int))) == ([7, 1, 2, 10, 20] : List Int)
  | .error _ => false)

/-- a bad spread: `f(...n)` with `n = 5` -/
example : contrib exS none (.spread (.ident "n" {}) {}) (.int 5) = .error (.cannotSpread "int") :=
  contrib_bad exS none _ _ _ (by intro a h; cases h)

/-- `findOwner` up the `_proto_` chain: object 1 has `_proto_` = object 0, which owns `m` -/
def exO : State :=
  { frames := #[{ vars := [("c", .ref 1)], parent := none }],
    heap := #[.obj [("m", .closure 2)] false, .obj [("_proto_", .ref 0), ("tag", .int 1)] false,
              .closure 0 ["me"] [.absent] (.ident "me" {}) "m"] }

example : findOwner exO (.ref 1) "m" = some [("m", .closure 2)] :=
  (findOwner_iff exO _ "m" _).2 (.up (by simp) rfl rfl rfl (.here (by simp) rfl rfl))

/-- `c->m()` in `exO`: the hypotheses of `method_call_passes_receiver` are met, and the receiver
    `.ref 1` (not the owner `.ref 0`) is bound to `self` -/
example : eval {} 3 0 (.derefInvoke (.ident "c" {}) "m" [] [] {}) exO
      = callWrap {} 1 (.closure 2) [("me", .ref 1)] 0 {} exO ∧
    ∀ p1, nextPositional (addArgs ["me"]).argNames (dictOfPairs (namedOf (actualsOf [] []))) = some p1 →
      dictGet p1 [("me", RVal.ref 1)] = some (.ref 1) :=
  method_call_passes_receiver {} 1 0 (.ident "c" {}) "m" [] [] {} exO exO exO exO 1 2 _ _ [] [] 0 ["me"]
    [.absent] (.ident "me" {}) "m" [("me", .ref 1)]
    (by rw [eval]; rfl)
    rfl
    ((findOwner_iff exO _ "m" _).2 (.up (by simp) rfl rfl rfl (.here (by simp) rfl rfl)))
    rfl (by rw [evalArgs_nil_args]) rfl
    (setArgs_all_positional ["me"] [.ref 1] {} exO (by decide) (by decide) (by decide))

/-- the hypotheses of `successive_calls_fresh_frames` / `call_frame_persists` are met by the closure cell of `exO`
    (for the default loader, whose unmodelled natives abstain) -/
example : exO.frames.size + 1 ≤ (C10S.stOf (callFn {} 3 (.closure 2) [("me", .int 1)] 0 {} exO)).frames.size :=
  (call_frame_persists C10S.default_nativeGrows 2 2 _ 0 {} exO (by rfl)).1

/-- the first call's outcome, computed -/
theorem exO_call : callFn {} 3 (.closure 2) [("me", .int 1)] 0 {} exO =
    .ok (.int 1) ((exO.newEnv 0).1.put 1 "me" (.int 1)) := by
  rw [callFn_closure 2 2 _ 0 {} exO (by rfl : exO.cell 2 = some (.closure 0 ["me"] [.absent] (.ident "me" {}) "m"))]
  unfold callBody
  have h2 : exO.frames.size = 1 := rfl
  simp only [EvalM.bind_apply, h2]
  rw [bindParams_bound {} (by rfl), bindParams_nil]
  simp only
  rw [eval]
  rfl

/-- two successive calls of the closure of `exO`: the second runs in frame 2, the first ran in frame 1 -/
example : exO.frames.size < ((exO.newEnv 0).1.put 1 "me" (.int 1)).frames.size :=
  (successive_calls_fresh_frames (ld := {}) (e := 0) (X := fun _ => False) C10S.default_nativeGrows 2 2 2 2
    [("me", .int 1)] [("me", .int 2)] 0 0 {} {} exO ((exO.newEnv 0).1.put 1 "me" (.int 1))
    (by rfl : exO.cell 2 = some (.closure 0 ["me"] [.absent] (.ident "me" {}) "m"))
    (by rw [exO_call]; exact C10S.Mono.refl _)
    (by rfl : ((exO.newEnv 0).1.put 1 "me" (.int 1)).cell 2 =
      some (.closure 0 ["me"] [.absent] (.ident "me" {}) "m"))).1

/-- `inner_call_keeps_caller_frames` / `bindParams_all_bound`: hypotheses met -/
example : ∀ f, f < exO.frames.size →
    (putParams exO.frames.size [("me", .int 1)] ["me"] (exO.newEnv 0).1).frame f = exO.frame f :=
  (inner_call_keeps_caller_frames (ld := {}) 2 2 [("me", .int 1)] 0 {} exO
    (by rfl : exO.cell 2 = some (.closure 0 ["me"] [.absent] (.ident "me" {}) "m"))
    (by decide) (by decide) (by intro p hp; simp at hp; subst hp; rfl)).2

/-- `lookup_put_unrelated_frame`: hypotheses met by the three-frame state after two calls -/
example : ((C03.exS.newEnv 0).1.put 2 "x" (.int 9)).lookup 1 "x" = (C03.exS.newEnv 0).1.lookup 1 "x" :=
  lookup_put_unrelated_frame (t := (C03.exS.newEnv 0).1)
    (parentsSmaller_newEnv C03.exS_parentsSmaller (by decide)) "x" (.int 9) "x" (by decide)
    (by rfl : ((C03.exS.newEnv 0).1.frame 1).parent = some 0) (by decide)

end Examples

end Ckl.C03S
