/-
  C14 / C20 (parser half) — simulation lemmas, part D: blocks, statements, `def`, `if`.
-/
import CklVerif.Lemmas.C14ParseHyp
namespace Ckl.C14P
open Ckl Ckl.Parser

local notation "kw" => (some TokType.keyword)
local notation "ip" => (some TokType.interpunction)
local notation "op" => (some TokType.operator)
local notation "idt" => (some TokType.identifier)

set_option linter.unusedSimpArgs false
set_option linter.unusedVariables false

variable {f : Pos → Pos}

theorem sim_pBareBlock {c c' : Ctx} {st st' : St} (tl : Bool) (H : Hyp f (st.toks.length * 16 + 12))
    (hc : CRel f c c') (hs : SRel f st st') :
    ERel f (OLt f (NR f)) (pBareBlock c tl st) (pBareBlock c' tl st') := by
  rw [pBareBlock, pBareBlock]
  simp only [posNext_rel hs]
  ebind (blockOrStmt_rel H hc hs (by omega)) with e s1 h1 s1' h1' hs1
  simp only [hasNext_rel hs1]
  bif hb : (!s1.hasNext)
  · exact ⟨rfl, hs1⟩
  · ebind (H.bareLoop hc hs1 (by simp [LR]) (by omega)) with es s2 h2 s2' h2' hs2
    exact ⟨by simp [NR, mapPos_simplifyBlock], hs2⟩

theorem sim_bareLoop {c c' : Ctx} {st st' : St} {acc acc' : List Node} (H : Hyp f (st.toks.length * 16 + 0))
    (hc : CRel f c c') (hs : SRel f st st') (ha : LR f acc acc') :
    ERel f (OLe f (LR f)) (bareLoop c st acc) (bareLoop c' st' acc') := by
  rw [bareLoop, bareLoop]
  subst ha
  mif hs c!";" ip with s1 h1 s1' h1' hs1
  · exact ⟨rfl, hs⟩
  · simp only [hasNext_rel hs1]
    bif hb : (!s1.hasNext)
    · exact ⟨rfl, hs1⟩
    · ebind (blockOrStmt_rel H hc hs1 (by omega)) with e s2 h2 s2' h2' hs2
      ebind (H.bareLoop hc hs2 (by simp [LR]) (by omega)) with r s3 h3 s3' h3' hs3
      exact ⟨rfl, hs3⟩

theorem sim_pBlock {c c' : Ctx} {st st' : St} (H : Hyp f (st.toks.length * 16 + 0))
    (hc : CRel f c c') (hs : SRel f st st') : ERel f (OLt f (NR f)) (pBlock c st) (pBlock c' st') := by
  rw [pBlock, pBlock]
  simp only [posNext_rel hs]
  sbind (expect_rel hs _ _) with s1 h1 s1' h1' hs1
  ebind (H.blockLoop hc hs1 rfl (by omega)) with es s2 h2 s2' h2' hs2
  ebind2 (H.catchLoop hc hs2 rfl rfl (by omega)) with ce ch s3 h3 s3' h3' hs3
  ebindr (OLe f (LR f)) with fin s4 h4 s4' h4' hs4
  · mif hs3 c!"finally" kw with s h s' h' hs'
    · exact ⟨rfl, hs3⟩
    · exact ERel_wkLe (H.finallyLoop hc hs' rfl (by omega))
  sbind (expect_rel hs4 _ _) with s5 h5 s5' h5' hs5
  exact ⟨by simp [NR, mapPos_simplifyBlock], hs5⟩

theorem sim_blockLoop {c c' : Ctx} {st st' : St} {acc acc' : List Node} (H : Hyp f (st.toks.length * 16 + 12))
    (hc : CRel f c c') (hs : SRel f st st') (ha : LR f acc acc') :
    ERel f (OLe f (LR f)) (blockLoop c st acc) (blockLoop c' st' acc') := by
  rw [blockLoop, blockLoop]
  subst ha
  simp only [isEndCatchFinally_rel hs]
  bif hb : isEndCatchFinally st
  · exact ⟨rfl, hs⟩
  · ebind (blockOrStmt_rel H hc hs (by omega)) with e s1 h1 s1' h1' hs1
    simp only [isEndCatchFinally_rel hs1]
    bif hb2 : isEndCatchFinally s1
    · exact ⟨by simp [LR], hs1⟩
    · sbind (expect_rel hs1 _ _) with s2 h2 s2' h2' hs2
      ebind (H.blockLoop hc hs2 (by simp [LR]) (by omega)) with r s3 h3 s3' h3' hs3
      exact ⟨rfl, hs3⟩

theorem sim_catchLoop {c c' : Ctx} {st st' : St} {e e' h h' : List Node} (H : Hyp f (st.toks.length * 16 + 0))
    (hc : CRel f c c') (hs : SRel f st st') (he : LR f e e') (hh : LR f h h') :
    ERel f (OLe f (LLR f)) (catchLoop c st e h) (catchLoop c' st' e' h') := by
  rw [catchLoop, catchLoop]
  subst he hh
  mif hs c!"catch" kw with s1 h1 s1' h1' hs1
  · exact ⟨rfl, hs⟩
  · ebindr (OLe f (NR f)) with err s2 h2 s2' h2' hs2
    · mif hs1 c!"all" idt with s h0 s' h0' hs'
      · exact ERel_ltLe (H.pExpression hc hs1 (by omega))
      · exact ⟨by simp [NR, mapPos], hs'⟩
    ebind (blockOrStmt_rel H hc hs2 (by omega)) with ex s3 h3 s3' h3' hs3
    mskip hs3 c!";" ip with s4 h4 s4' h4' hs4
    ebind (H.catchLoop hc hs4 (by simp [LR]) (by simp [LR]) (by omega)) with r s5 h5 s5' h5' hs5
    exact ⟨rfl, hs5⟩

theorem sim_finallyLoop {c c' : Ctx} {st st' : St} {acc acc' : List Node} (H : Hyp f (st.toks.length * 16 + 12))
    (hc : CRel f c c') (hs : SRel f st st') (ha : LR f acc acc') :
    ERel f (OLe f (LR f)) (finallyLoop c st acc) (finallyLoop c' st' acc') := by
  rw [finallyLoop, finallyLoop]
  subst ha
  simp only [peekn_rel hs 1 c!"end" kw]
  bif hb : st.peekn 1 c!"end" kw
  · exact ⟨rfl, hs⟩
  · ebind (blockOrStmt_rel H hc hs (by omega)) with e s1 h1 s1' h1' hs1
    simp only [peekn_rel hs1]
    bif hb2 : s1.peekn 1 c!"end" kw
    · exact ⟨by simp [LR], hs1⟩
    · sbind (expect_rel hs1 _ _) with s2 h2 s2' h2' hs2
      ebind (H.finallyLoop hc hs2 (by simp [LR]) (by omega)) with r s3 h3 s3' h3' hs3
      exact ⟨rfl, hs3⟩

theorem sim_pStatement {c c' : Ctx} {st st' : St} (H : Hyp f (st.toks.length * 16 + 11))
    (hc : CRel f c c') (hs : SRel f st st') : ERel f (OLt f (NR f)) (pStatement c st) (pStatement c' st') := by
  rw [pStatement, pStatement]
  simp only [hasNext_rel hs, hs.prev]
  bif hb : (!st.hasNext)
  · exact errEof_rel rfl
  mcomment hs with comment s0 h0 s0' h0' hs0
  mif hs0 c!"require" kw with s1 h1 s1' h1' hs1
  · mif hs0 c!"def" kw with s1 h1 s1' h1' hs1
    · mif hs0 c!"for" kw with s1 h1 s1' h1' hs1
      · mif hs0 c!"while" kw with s1 h1 s1' h1' hs1
        · exact ERel_wkLt (H.pExpression hc hs0 (by omega))
        · rw [hs1.prev]
          ebind (H.pOr hc hs1 (by omega)) with e s2 h2 s2' h2' hs2
          ebind (H.pBlock hc hs2 (by omega)) with b s3 h3 s3' h3' hs3
          exact ⟨by simp [NR, mapPos], hs3⟩
      · rw [hs1.prev]
        ebind (forIdents_rel hc hs1) with ids s2 h2 s2' h2' hs2
        sbind (expect_rel hs2 _ _) with s3 h3 s3' h3' hs3
        mwhat hs3 with what s4 h4 s4' h4' hs4
        ebind (H.pExpression hc hs4 (by omega)) with e s5 h5 s5' h5' hs5
        simp only [peekn_rel hs5]
        bif hd : s5.peekn 1 c!"do" kw
        · ebind (H.pBlock hc hs5 (by omega)) with b s6 h6 s6' h6' hs6
          exact ⟨by simp [NR, mapPos], hs6⟩
        · ebind (H.pExpression hc hs5 (by omega)) with b s6 h6 s6' h6' hs6
          exact ⟨by simp [NR, mapPos], hs6⟩
    · exact ERel_wkLt (H.pDef _ hc hs1 (by omega))
  · rw [hs1.prev]
    ebind (H.pExpression hc hs1 (by omega)) with spec s2 h2 s2' h2' hs2
    mif hs2 c!"unqualified" idt with s3 h3 s3' h3' hs3
    · mif2 hs2 c!"import" idt c!"[" ip with s3 h3 s3' h3' hs3
      · mif hs2 c!"as" kw with s3 h3 s3' h3' hs3
        · exact ⟨by simp [NR, mapPos], hs2⟩
        · ebind (matchIdentifier_rel hs3) with name s4 h4 s4' h4' hs4
          exact ⟨by simp [NR, mapPos], hs4⟩
      · ebind (requireSymLoop_rel _ s3 s3' [] rfl hs3) with syms s4 h4 s4' h4' hs4
        sbind (expect_rel hs4 _ _) with s5 h5 s5' h5' hs5
        exact ⟨by simp [NR, mapPos], hs5⟩
    · exact ⟨by simp [NR, mapPos], hs3⟩

theorem sim_pDefTail {c c' : Ctx} {st st' : St} (name : List Char) (comment : String) (pos : Pos)
    (H : Hyp f (st.toks.length * 16 + 1)) (hc : CRel f c c') (hs : SRel f st st') :
    ERel f (OLt f (NR f)) (pDefTail c name comment pos st) (pDefTail c' name comment (f pos) st') := by
  rw [pDefTail, pDefTail]
  simp only [peekn_rel hs]
  bif hb : st.peekn 1 c!"(" ip
  · ebind (H.pFn pos hc hs (by omega)) with fn0 s1 h1 s1' h1' hs1
    exact ⟨by simp [NR, mapPos], hs1⟩
  · sbind (expect_rel hs _ _) with s1 h1 s1' h1' hs1
    ebind (H.pExpression hc hs1 (by omega)) with e s2 h2 s2' h2' hs2
    exact ⟨by simp [NR, mapPos], hs2⟩

theorem sim_pDef {c c' : Ctx} {st st' : St} (comment : String) (H : Hyp f (st.toks.length * 16 + 0))
    (hc : CRel f c c') (hs : SRel f st st') :
    ERel f (OLt f (NR f)) (pDef c comment st) (pDef c' comment st') := by
  rw [pDef, pDef]
  simp only [hs.prev]
  mif hs c!"[" ip with s1 h1 s1' h1' hs1
  · ebind (next_rel hc hs) with t s1 h1 s1' h1' hs1
    refine ERel.bind (r := fun b b' => b = b') ?_ ?_
    · simp only [tokMap_type, tokMap_value]
      bif hcl : (t.type == .identifier && t.value == c!"class")
      · refine ERel.bind (peek_rel hc hs1) ?_
        rintro t2 _ rfl
        exact rfl
      · exact rfl
    rintro isClass _ rfl
    bif hcl : isClass
    · ebind (next_rel hc hs1) with t2 s2 h2 s2' h2' hs2
      refine ERel.bind (checkRedefineKeyword_rel f t2) ?_
      intro _ _ _
      refine ERel.bind (checkExpectedIdentifier_rel f t2) ?_
      intro _ _ _
      sbind (expect_rel hs2 _ _) with s3 h3 s3' h3' hs3
      ebind (H.classLoop comment hc hs3 rfl (by omega)) with members s4 h4 s4' h4' hs4
      sbind (expect_rel hs4 _ _) with s5 h5 s5' h5' hs5
      exact ⟨by simp [NR, mapPos], hs5⟩
    · refine ERel.bind (checkRedefineKeyword_rel f t) ?_
      intro _ _ _
      refine ERel.bind (checkExpectedIdentifier_rel f t) ?_
      intro _ _ _
      ebind (H.pDefTail t.value comment st.prev hc hs1 (by omega)) with d s2 h2 s2' h2' hs2
      exact ⟨rfl, hs2⟩
  · ebind (identListLoop_rel hc true _ s1 s1' [] rfl hs1) with ids s2 h2 s2' h2' hs2
    sbind (expect_rel hs2 _ _) with s3 h3 s3' h3' hs3
    sbind (expect_rel hs3 _ _) with s4 h4 s4' h4' hs4
    ebind (H.pExpression hc hs4 (by omega)) with e s5 h5 s5' h5' hs5
    exact ⟨by simp [NR, mapPos], hs5⟩

theorem sim_classLoop {c c' : Ctx} {st st' : St} {acc acc' : List Node} (comment : String)
    (H : Hyp f (st.toks.length * 16 + 0)) (hc : CRel f c c') (hs : SRel f st st') (ha : LR f acc acc') :
    ERel f (OLe f (LR f)) (classLoop c comment st acc) (classLoop c' comment st' acc') := by
  rw [classLoop, classLoop]
  subst ha
  simp only [peekn_rel hs]
  bif hb : st.peekn 1 c!"end" kw
  · exact ⟨rfl, hs⟩
  · mif hs c!"def" kw with s1 h1 s1' h1' hs1
    · ebind (next_rel hc hs) with t s1 h1 s1' h1' hs1
      exact mkErr_rel f _ _
    · rw [hs1.prev]
      ebind (next_rel hc hs1) with t s2 h2 s2' h2' hs2
      refine ERel.bind (checkRedefineKeyword_rel f t) ?_
      intro _ _ _
      refine ERel.bind (checkExpectedIdentifier_rel f t) ?_
      intro _ _ _
      ebind (H.pDefTail t.value comment s1.prev hc hs2 (by omega)) with d s3 h3 s3' h3' hs3
      mskip hs3 c!";" ip with s4 h4 s4' h4' hs4
      ebind (H.classLoop comment hc hs4 (by simp [LR]) (by omega)) with r s5 h5 s5' h5' hs5
      exact ⟨rfl, hs5⟩

theorem sim_ifClause {c c' : Ctx} {st st' : St} (H : Hyp f (st.toks.length * 16 + 10))
    (hc : CRel f c c') (hs : SRel f st st') : ERel f (OLt f (NNR f)) (ifClause c st) (ifClause c' st') := by
  rw [ifClause, ifClause]
  ebind (H.pOr hc hs (by omega)) with cond s1 h1 s1' h1' hs1
  sbind (expect_rel hs1 _ _) with s2 h2 s2' h2' hs2
  simp only [peekn_rel hs2]
  bif hb : s2.peekn 1 c!"do" kw
  · ebind (H.pBlock hc hs2 (by omega)) with e s3 h3 s3' h3' hs3
    exact ⟨rfl, hs3⟩
  · ebind (H.pOr hc hs2 (by omega)) with e s3 h3 s3' h3' hs3
    exact ⟨rfl, hs3⟩

theorem ifElif_cases {s s' : St} (h : SRel f s s') :
    ((s.matchIf c!"if" kw).orElse (fun _ => s.matchIf c!"elif" kw) = none ∧
      (s'.matchIf c!"if" kw).orElse (fun _ => s'.matchIf c!"elif" kw) = none) ∨
    (∃ a a', (s.matchIf c!"if" kw).orElse (fun _ => s.matchIf c!"elif" kw) = some a ∧
      (s'.matchIf c!"if" kw).orElse (fun _ => s'.matchIf c!"elif" kw) = some a' ∧ SRel f a.1 a'.1) := by
  rcases matchIf_cases h c!"if" kw with ⟨e1, e2⟩ | ⟨a, a', e1, e2, hr⟩ <;> rw [e1, e2]
  · exact matchIf_cases h c!"elif" kw
  · exact Or.inr ⟨a, a', rfl, rfl, hr⟩

theorem sim_ifLoop {c c' : Ctx} {st st' : St} {cs cs' es es' : List Node} (H : Hyp f (st.toks.length * 16 + 0))
    (hc : CRel f c c') (hs : SRel f st st') (hcs : LR f cs cs') (hes : LR f es es') :
    ERel f (OLe f (LLR f)) (ifLoop c st cs es) (ifLoop c' st' cs' es') := by
  rw [ifLoop, ifLoop]
  subst hcs hes
  rcases ifElif_cases hs with ⟨e1, e2⟩ | ⟨⟨s1, h1⟩, ⟨s1', h1'⟩, e1, e2, hs1⟩ <;> rw [e1, e2]
  · exact ⟨rfl, hs⟩
  · dsimp only at hs1 ⊢
    ebind2 (H.ifClause hc hs1 (by omega)) with cond e s2 h2 s2' h2' hs2
    ebind (H.ifLoop hc hs2 (by simp [LR]) (by simp [LR]) (by omega)) with r s3 h3 s3' h3' hs3
    exact ⟨rfl, hs3⟩

theorem sim_pExpression {c c' : Ctx} {st st' : St} (H : Hyp f (st.toks.length * 16 + 10))
    (hc : CRel f c c') (hs : SRel f st st') :
    ERel f (OLt f (NR f)) (pExpression c st) (pExpression c' st') := by
  rw [pExpression, pExpression]
  simp only [posNext_rel hs]
  mif hs c!"if" kw with s1 h1 s1' h1' hs1
  · exact H.pOr hc hs (by omega)
  · ebind2 (H.ifClause hc hs1 (by omega)) with cond e s2 h2 s2' h2' hs2
    ebind2 (H.ifLoop hc hs2 (by simp [LR]) (by simp [LR]) (by omega)) with conds es s3 h3 s3' h3' hs3
    mif hs3 c!"else" kw with s4 h4 s4' h4' hs4
    · exact ⟨by simp [NR, mapPos], hs3⟩
    · simp only [peekn_rel hs4]
      bif hb : s4.peekn 1 c!"do" kw
      · ebind (H.pBlock hc hs4 (by omega)) with el s5 h5 s5' h5' hs5
        exact ⟨by simp [NR, mapPos], hs5⟩
      · ebind (H.pOr hc hs4 (by omega)) with el s5 h5 s5' h5' hs5
        exact ⟨by simp [NR, mapPos], hs5⟩

end Ckl.C14P
