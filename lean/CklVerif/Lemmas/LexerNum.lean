/-
  C01 helper lemmas: shape of the number tokens, and the positions of syntax errors.
-/
import CklVerif.Lemmas.LexerLine
namespace Ckl.Lexer

def DigOrU (c : Char) : Prop := c ∈ digits ∨ c = '_'

/-- a digit followed by digits and underscores -/
def IntShape (t : List Char) : Prop := ∃ d rest, t = d :: rest ∧ d ∈ digits ∧ ∀ c ∈ rest, DigOrU c

def DecShape (t : List Char) : Prop := ∃ a b, t = a ++ '.' :: b ∧ IntShape a ∧ ∀ c ∈ b, DigOrU c

/-- the invariant of the automaton variables needed for the shape of number tokens -/
def CoreOK (k : Core) : Prop :=
  (k.state = .s0 ∨ k.state = .s5 ∨ k.state = .s9 ∨ k.state = .s70 → k.token = []) ∧
  (k.state = .s7 → IntShape k.token) ∧ (k.state = .s8 → DecShape k.token)

/-- non-empty, ASCII digits only -/
def IntVal (v : List Char) : Prop := v ≠ [] ∧ ∀ c ∈ v, c.isDigit = true

/-- digits⁺ `.` digits* -/
def DecVal (v : List Char) : Prop :=
  ∃ a b, v = a ++ '.' :: b ∧ a ≠ [] ∧ (∀ c ∈ a, c.isDigit = true) ∧ (∀ c ∈ b, c.isDigit = true)

def ValOK (v : List Char) (ty : TokType) : Prop := (ty = .int → IntVal v) ∧ (ty = .decimal → DecVal v)

def EmitOK : Option Emit → Prop
  | none => True
  | some (v, ty, _) => ValOK v ty

theorem isDigit_of_mem_digits : ∀ c ∈ digits, c.isDigit = true := by decide

theorem digits_ne_underscore {c : Char} (h : c ∈ digits) : c ≠ '_' := by
  intro hc; subst hc; revert h; decide

theorem dropUnderscores_digOrU {l : List Char} (h : ∀ c ∈ l, DigOrU c) :
    ∀ c ∈ dropUnderscores l, c.isDigit = true := by
  intro c hc
  simp only [dropUnderscores, List.mem_filter, decide_eq_true_eq] at hc
  rcases h c hc.1 with hd | hu
  · exact isDigit_of_mem_digits c hd
  · exact absurd hu hc.2

theorem dropUnderscores_append (a b : List Char) :
    dropUnderscores (a ++ b) = dropUnderscores a ++ dropUnderscores b := by
  simp [dropUnderscores]

theorem intVal_of_intShape {t : List Char} (h : IntShape t) : IntVal (dropUnderscores t) := by
  obtain ⟨d, rest, rfl, hd, hrest⟩ := h
  have hne : d ≠ '_' := digits_ne_underscore hd
  have : dropUnderscores (d :: rest) = d :: dropUnderscores rest := by
    simp [dropUnderscores, hne]
  rw [this]
  refine ⟨by simp, ?_⟩
  intro c hc
  rcases List.mem_cons.mp hc with rfl | hc
  · exact isDigit_of_mem_digits _ hd
  · exact dropUnderscores_digOrU hrest c hc

theorem decVal_of_decShape {t : List Char} (h : DecShape t) : DecVal (dropUnderscores t) := by
  obtain ⟨a, b, rfl, ha, hb⟩ := h
  obtain ⟨h1, h2⟩ := intVal_of_intShape ha
  refine ⟨dropUnderscores a, dropUnderscores b, ?_, h1, h2, dropUnderscores_digOrU hb⟩
  rw [dropUnderscores_append]
  simp [dropUnderscores]

theorem intShape_snoc {t : List Char} {c : Char} (h : IntShape t) (hc : DigOrU c) :
    IntShape (t ++ [c]) := by
  obtain ⟨d, rest, rfl, hd, hrest⟩ := h
  refine ⟨d, rest ++ [c], rfl, hd, ?_⟩
  intro x hx
  rcases List.mem_append.mp hx with hx | hx
  · exact hrest x hx
  · simp at hx; subst hx; exact hc

theorem decShape_snoc {t : List Char} {c : Char} (h : DecShape t) (hc : DigOrU c) :
    DecShape (t ++ [c]) := by
  obtain ⟨a, b, rfl, ha, hb⟩ := h
  refine ⟨a, b ++ [c], by simp, ha, ?_⟩
  intro x hx
  rcases List.mem_append.mp hx with hx | hx
  · exact hb x hx
  · simp at hx; subst hx; exact hc

theorem decShape_of_intShape {t : List Char} (h : IntShape t) : DecShape (t ++ ['.']) :=
  ⟨t, [], rfl, h, fun _ hc => nomatch hc⟩

theorem step7_ok {k : Core} (col : Int) (ch : Char) (hs : k.state = .s7) (h : IntShape k.token) :
    CoreOK (step7 k col ch).core ∧ EmitOK (step7 k col ch).emit := by
  unfold step7
  split
  · rename_i hc; subst hc
    exact ⟨⟨by simp, by simp, fun _ => decShape_of_intShape h⟩, trivial⟩
  · split
    · rename_i hc
      exact ⟨⟨by simp [hs], fun _ => intShape_snoc h hc, by simp [hs]⟩, trivial⟩
    · split
      · exact ⟨⟨by simp, by simp, by simp⟩, ⟨fun _ => intVal_of_intShape h, by simp⟩⟩
      · exact ⟨⟨by simp, by simp, by simp⟩, trivial⟩

theorem step8_ok {k : Core} (col : Int) (ch : Char) (hs : k.state = .s8) (h : DecShape k.token) :
    CoreOK (step8 k col ch).core ∧ EmitOK (step8 k col ch).emit := by
  unfold step8
  split
  · rename_i hc
    exact ⟨⟨by simp [hs], by simp [hs], fun _ => decShape_snoc h hc⟩, trivial⟩
  · split
    · exact ⟨⟨by simp, by simp, by simp⟩, ⟨by simp, fun _ => decVal_of_decShape h⟩⟩
    · exact ⟨⟨by simp, by simp, by simp⟩, trivial⟩

theorem step70_ok {k : Core} (col : Int) (ch : Char) (_hs : k.state = .s70) (h : k.token = []) :
    CoreOK (step70 k col ch).core ∧ EmitOK (step70 k col ch).emit := by
  unfold step70
  split
  · exact ⟨⟨by simp, by simp, by simp⟩, trivial⟩
  · split
    · exact ⟨⟨by simp, by simp, by simp⟩, trivial⟩
    · apply step7_ok _ _ rfl
      exact ⟨'0', [], by simp [h], by decide, fun _ hc => nomatch hc⟩

theorem step0_ok {k : Core} (col : Int) (ch : Char) (hs : k.state = .s0) (h : k.token = []) :
    CoreOK (step0 k col ch).core ∧ EmitOK (step0 k col ch).emit := by
  unfold step0
  repeat' split
  case isFalse.isFalse.isFalse.isFalse.isFalse.isFalse.isFalse.isFalse.isTrue hd =>
    exact ⟨⟨by simp, fun _ => ⟨ch, [], by simp [h], hd, fun _ hc => nomatch hc⟩, by simp⟩, trivial⟩
  all_goals simp_all [CoreOK, EmitOK, ValOK]

theorem respell_intVal {base : Nat} {tok v : List Char} (h : respell base tok = some v) : IntVal v := by
  unfold respell at h
  simp only at h
  split at h
  · cases h
  · split at h
    · cases h
    · cases h
      exact ⟨Nat.toDigits_ne_nil, fun c hc => Nat.isDigit_of_mem_toDigits (by decide) (by decide) hc⟩

theorem stepRadix_ok {base : Nat} {al : List Char} {what : String} {k : Core} {col : Int} {ch : Char}
    {o : Out} (hs : k.state = .s71 ∨ k.state = .s72) (h : stepRadix base al what k col ch = .ok o) :
    CoreOK o.core ∧ EmitOK o.emit := by
  unfold stepRadix at h
  split at h
  · cases h
    exact ⟨⟨by rcases hs with hs | hs <;> simp [hs], by rcases hs with hs | hs <;> simp [hs],
      by rcases hs with hs | hs <;> simp [hs]⟩, trivial⟩
  · split at h
    · split at h
      · rename_i v hv
        cases h
        exact ⟨⟨by simp, by simp, by simp⟩, ⟨fun _ => respell_intVal hv, by simp⟩⟩
      · cases h
    · cases h
      exact ⟨⟨by simp, by simp, by simp⟩, trivial⟩

theorem stepHex2_ok {str : St} {k : Core} {ch : Char} {o : Out}
    (hs : str = .s3 ∨ str = .s4) (h : stepHex2 str k ch = .ok o) : CoreOK o.core ∧ EmitOK o.emit := by
  simp only [stepHex2] at h
  split at h
  · split at h
    · cases h
    · cases h
      exact ⟨⟨by rcases hs with hs | hs <;> simp [hs], by rcases hs with hs | hs <;> simp [hs],
        by rcases hs with hs | hs <;> simp [hs]⟩, trivial⟩
  · cases h

/-- the dispatch preserves `CoreOK` and emits only well-shaped number tokens -/
theorem step_ok {k : Core} {col : Int} {ch : Char} {o : Out} (hk : CoreOK k)
    (h : step k col ch = .ok o) : CoreOK o.core ∧ EmitOK o.emit := by
  obtain ⟨hk0, hk7, hk8⟩ := hk
  unfold step at h
  split at h
  case h_1 hs => cases h; exact step0_ok _ _ hs (hk0 (by simp [hs]))
  case h_15 hs => cases h; exact step7_ok _ _ hs (hk7 hs)
  case h_16 hs => cases h; exact step70_ok _ _ hs (hk0 (by simp [hs]))
  case h_19 hs => cases h; exact step8_ok _ _ hs (hk8 hs)
  case h_17 hs => exact stepRadix_ok (Or.inl hs) h
  case h_18 hs => exact stepRadix_ok (Or.inr hs) h
  case h_8 hs => exact stepHex2_ok (Or.inl rfl) h
  case h_12 hs => exact stepHex2_ok (Or.inr rfl) h
  all_goals
    rename_i hs
    have ht := hk0
    simp only [hs] at ht
    simp only [Except.ok.injEq] at h; subst h
    unfold_steps
    repeat' split
    all_goals simp_all [CoreOK, EmitOK, ValOK]

/-! ### the loop invariant for number tokens -/

def TokOK (t : Token) : Prop := ValOK t.value t.type

def NumInv (σ : LexSt) : Prop := CoreOK σ.core ∧ ∀ p ∈ σ.out, TokOK p.1

theorem numInv_preserved (name : String) : Preserved name NumInv where
  count σ ch h := by
    obtain ⟨_, _, c3, c4, _, _⟩ := count_fields σ ch
    unfold NumInv; rw [c3, c4]; exact h
  capture σ h := by
    obtain ⟨_, _, k3, k4⟩ := capture_fields σ
    unfold NumInv; rw [k3, k4]; exact h
  next σ h := h
  dispatch σ ch σ' b h hd := by
    unfold LexSt.dispatch at hd
    cases hstep : step σ.core σ.column ch with
    | error e => rw [hstep] at hd; cases hd
    | ok o =>
      rw [hstep] at hd
      simp only [Except.ok.injEq, Prod.mk.injEq] at hd
      obtain ⟨rfl, rfl⟩ := hd
      obtain ⟨hc, he⟩ := step_ok h.1 hstep
      obtain ⟨_, _, _, _, _, h6⟩ := push_fields name { σ with core := o.core } o.emit
      refine ⟨by rw [h6]; exact hc, ?_⟩
      cases hemit : o.emit with
      | none => exact h.2
      | some e =>
        obtain ⟨v, ty, col⟩ := e
        rw [hemit] at he
        intro p hp
        simp only [LexSt.push, List.mem_cons] at hp
        rcases hp with rfl | hp
        · exact he
        · exact h.2 p hp

theorem numInv_init : NumInv {} :=
  ⟨⟨fun _ => rfl, (fun h => nomatch h), (fun h => nomatch h)⟩, fun _ hp => nomatch hp⟩

/-! ### syntax errors -/

theorem step_error_msg {k : Core} {col : Int} {ch : Char} {e : LexErr}
    (h : step k col ch = .error e) : e.msg ≠ "" := by
  have hx : ∀ tb : List Char, "Invalid hex escape '\\x" ++ String.ofList tb ++ "'" ≠ "" := by
    intro tb hc
    have h1 := (String.append_eq_empty_iff.mp hc).1
    have h2 := (String.append_eq_empty_iff.mp h1).1
    revert h2; decide
  have hr : ∀ (what : String) (tb : List Char), "Invalid " ++ what ++ String.ofList tb ++ "'" ≠ "" := by
    intro what tb hc
    have h1 := (String.append_eq_empty_iff.mp hc).1
    have h2 := (String.append_eq_empty_iff.mp h1).1
    have h3 := (String.append_eq_empty_iff.mp h2).1
    revert h3; decide
  unfold step at h
  split at h
  case h_8 | h_12 =>
    simp only [stepHex2] at h
    split at h
    · split at h
      · cases h; exact hx _
      · cases h
    · cases h; exact hx _
  case h_17 | h_18 =>
    unfold stepRadix at h
    split at h
    · cases h
    · split at h
      · split at h
        · cases h
        · cases h; exact hr _ _
      · cases h
  all_goals cases h

/-- lines are numbered from 1 -/
def PosInv (σ : LexSt) : Prop := 1 ≤ σ.line ∧ 1 ≤ σ.startline

theorem posInv_preserved (name : String) : Preserved name PosInv where
  count σ ch h := by
    obtain ⟨c1, _, _, _, c5, _⟩ := count_fields σ ch
    unfold PosInv; rw [c1, c5]; exact ⟨by have := h.1; omega, h.2⟩
  capture σ h := by
    unfold LexSt.capture; split
    · exact ⟨h.1, h.1⟩
    · exact h
  next σ h := h
  dispatch σ ch σ' b h hd := by
    unfold LexSt.dispatch at hd
    cases hstep : step σ.core σ.column ch with
    | error e => rw [hstep] at hd; cases hd
    | ok o =>
      rw [hstep] at hd
      simp only [Except.ok.injEq, Prod.mk.injEq] at hd
      obtain ⟨rfl, rfl⟩ := hd
      obtain ⟨h1, _, _, h4, _, _⟩ := push_fields name { σ with core := o.core } o.emit
      unfold PosInv; rw [h1, h4]; exact h

theorem dispatch_error {name : String} {σ : LexSt} {ch : Char} {e : SynErr} (h : PosInv σ)
    (hd : σ.dispatch name ch = .error e) : e.msg ≠ "" ∧ 1 ≤ e.pos.line ∧ e.pos.file = name := by
  unfold LexSt.dispatch at hd
  cases hstep : step σ.core σ.column ch with
  | ok o => rw [hstep] at hd; cases hd
  | error le =>
    rw [hstep] at hd
    cases hd
    have hm := step_error_msg hstep
    unfold LexSt.synErr
    split
    · exact ⟨hm, h.1, rfl⟩
    · exact ⟨hm, h.2, rfl⟩

end Ckl.Lexer
