"""Extract the native-function table from /repo with Python's ast (C09).

For every ValueFunc subclass: registered name, `secure` flag, OS primitives its
methods reference; the arms of `bind_native`; every other instantiation site of a
ValueFunc subclass in src/ckl with its guard; the natives each bundled module binds.
Emitted as lean/CklVerif/Gen/NativeTable.lean on every run.
"""
import ast
import os
import re

from harness import core

OS_ROOTS = {"os", "shutil", "subprocess"}
OS_CALLS = {"open", "FileInput", "FileOutput"}
# os.* attributes that do not touch the file system / processes
OS_HARMLESS = {"os.path.sep", "os.linesep", "os.path.pathsep", "os.sep", "os.environ.get", "os.environ"}


def attr_chain(node):
    parts = []
    while isinstance(node, ast.Attribute):
        parts.append(node.attr)
        node = node.value
    if isinstance(node, ast.Name):
        parts.append(node.id)
        return ".".join(reversed(parts))
    return None


def effects_of(body_nodes):
    eff = set()
    for n in body_nodes:
        for sub in ast.walk(n):
            if isinstance(sub, ast.Attribute):
                ch = attr_chain(sub)
                if ch and ch.split(".")[0] in OS_ROOTS and ch not in OS_HARMLESS and not any(ch.startswith(h + ".") for h in OS_HARMLESS):
                    # keep the longest chain only
                    eff.add(ch)
            elif isinstance(sub, ast.Call) and isinstance(sub.func, ast.Name) and sub.func.id in OS_CALLS:
                eff.add(sub.func.id)
            elif isinstance(sub, ast.Attribute) and sub.attr in ("loadFile",):
                eff.add("Interpreter.loadFile")
    # drop prefixes of longer chains
    out = set()
    for e in eff:
        if not any(o != e and o.startswith(e + ".") for o in eff):
            out.add(e)
    return sorted(out)


def extract():
    problems = []
    src_dir = os.path.join(core.REPO, "src", "ckl")
    fpath = os.path.join(src_dir, "functions.py")
    tree = ast.parse(open(fpath, encoding="utf-8").read())
    classes = {}
    for node in tree.body:
        if isinstance(node, ast.ClassDef) and any(isinstance(b, ast.Name) and b.id == "ValueFunc" for b in node.bases):
            name = None
            secure = True
            for item in node.body:
                if isinstance(item, ast.FunctionDef) and item.name == "__init__":
                    for sub in ast.walk(item):
                        if (isinstance(sub, ast.Call) and isinstance(sub.func, ast.Attribute) and sub.func.attr == "__init__"
                                and sub.args and isinstance(sub.args[0], ast.Constant) and isinstance(sub.args[0].value, str)):
                            name = sub.args[0].value
                        if isinstance(sub, ast.Assign):
                            for t in sub.targets:
                                if isinstance(t, ast.Attribute) and t.attr == "secure" and isinstance(t.value, ast.Name) and t.value.id == "self":
                                    if isinstance(sub.value, ast.Constant):
                                        secure = bool(sub.value.value)
                                    else:
                                        problems.append(f"{node.name}: secure flag is not a constant")
                                        secure = True
            argnames = None
            for item in node.body:
                if isinstance(item, ast.FunctionDef) and item.name == "getArgNames":
                    rets = [r for r in ast.walk(item) if isinstance(r, ast.Return)]
                    if (len(rets) == 1 and isinstance(rets[0].value, ast.List)
                            and all(isinstance(e, ast.Constant) and isinstance(e.value, str) for e in rets[0].value.elts)):
                        argnames = [e.value for e in rets[0].value.elts]
            uses_loadfile = any(isinstance(s, ast.Attribute) and s.attr in ("loadFile", "interpret") for s in ast.walk(node))
            eff = effects_of([i for i in node.body if isinstance(i, ast.FunctionDef)])
            if uses_loadfile and node.name == "FuncRun":
                eff = sorted(set(eff) | {"Interpreter.loadFile"})
            classes[node.name] = {"name": name, "secure": secure, "effects": eff, "argnames": argnames}
    # bind_native arms
    arms = {}
    other_puts = []
    for node in tree.body:
        if isinstance(node, ast.FunctionDef) and node.name == "bind_native":
            cur = node.body[0] if node.body else None
            if not isinstance(cur, ast.If):
                problems.append("bind_native: body is not an if/elif chain")
            while isinstance(cur, ast.If):
                t = cur.test
                ok = (isinstance(t, ast.Compare) and isinstance(t.left, ast.Name) and t.left.id == "native" and len(t.ops) == 1
                      and isinstance(t.ops[0], ast.Eq) and isinstance(t.comparators[0], ast.Constant))
                if not ok:
                    problems.append("bind_native: unrecognised test " + ast.dump(t)[:80])
                    break
                key = t.comparators[0].value
                call = cur.body[0].value if cur.body and isinstance(cur.body[0], ast.Expr) else None
                if (isinstance(call, ast.Call) and isinstance(call.func, ast.Name) and call.func.id == "bind_native_fun"
                        and len(call.args) >= 2 and isinstance(call.args[1], ast.Call) and isinstance(call.args[1].func, ast.Name)):
                    arms[key] = {"class": call.args[1].func.id, "alias": len(call.args) >= 3}
                elif isinstance(call, ast.Call) and isinstance(call.func, ast.Attribute) and call.func.attr == "put":
                    arms[key] = {"class": None, "alias": False}     # constants E, PI, PS, ...
                else:
                    problems.append(f"bind_native: arm {key!r} has an unrecognised body")
                nxt = cur.orelse
                cur = nxt[0] if len(nxt) == 1 and isinstance(nxt[0], ast.If) else None
    # instantiation sites of ValueFunc subclasses outside bind_native
    sites = []
    for fn in sorted(os.listdir(src_dir)):
        if not fn.endswith(".py"):
            continue
        t = ast.parse(open(os.path.join(src_dir, fn), encoding="utf-8").read())

        def visit(node, guards, in_bind):
            if isinstance(node, ast.FunctionDef) and node.name == "bind_native":
                in_bind = True
            if isinstance(node, ast.If):
                g = ast.unparse(node.test)
                for c in node.body:
                    visit(c, guards + [g], in_bind)
                for c in node.orelse:
                    visit(c, guards + ["not (" + g + ")"], in_bind)
                return
            if isinstance(node, ast.Call) and isinstance(node.func, ast.Name) and node.func.id in classes and not in_bind:
                sites.append({"file": fn, "class": node.func.id, "guards": guards, "line": node.lineno})
            for c in ast.iter_child_nodes(node):
                visit(c, guards, in_bind)
        visit(t, [], False)
    # natives bound by bundled modules
    modules = {}
    mdir = os.path.join(src_dir, "modules")
    for fn in sorted(os.listdir(mdir)):
        if fn.endswith(".ckl"):
            text = open(os.path.join(mdir, fn), encoding="utf-8").read()
            modules[fn] = re.findall(r'bind_native\(\s*["\']([^"\']+)["\'](?:\s*,\s*["\']([^"\']+)["\'])?\s*\)', text)
    natives = {}
    for key, arm in arms.items():
        if arm["class"] is None:
            natives[key] = {"class": None, "secure": True, "effects": [], "alias": False}
        else:
            c = classes.get(arm["class"])
            if c is None:
                problems.append(f"bind_native arm {key!r} instantiates unknown class {arm['class']}")
                continue
            natives[key] = {"class": arm["class"], "secure": c["secure"], "effects": c["effects"], "alias": arm["alias"], "argnames": c.get("argnames")}
    # the flag as read from the source must be the flag an instance really carries (assignment order, inheritance, properties)
    try:
        core.use_repo()
        import importlib
        F = importlib.import_module("ckl.functions")
        for cname, c in classes.items():
            cls = getattr(F, cname, None)
            if cls is None:
                continue
            try:
                inst = cls()
            except TypeError:
                continue            # needs constructor arguments (lambdas, bound natives): not a bind_native arm
            if bool(getattr(inst, "secure", True)) != c["secure"]:
                problems.append(f"{cname}: the source assigns secure = {c['secure']} but an instance carries secure = {getattr(inst, 'secure', None)}")
            if c["name"] is not None and getattr(inst, "name", None) != c["name"]:
                problems.append(f"{cname}: registered name read from the source is {c['name']!r} but an instance is named {getattr(inst, 'name', None)!r}")
    except Exception as e:  # noqa
        problems.append(f"dynamic validation of the native table failed: {type(e).__name__}: {e}")
    return {"classes": classes, "natives": natives, "names": list(arms.keys()), "sites": sites, "modules": modules, "problems": problems}


def lean_str(s):
    return '"' + s.replace("\\", "\\\\").replace('"', '\\"') + '"'


def generate():
    tab = extract()
    lines = ["/- GENERATED by harness/extract/natives.py from /repo on every run — do not edit. -/",
             "namespace Ckl.Gen", "",
             "structure NativeInfo where", "  name : String", "  cls : String", "  secure : Bool", "  effects : List String",
             "  aliasPassed : Bool", "deriving Repr", "",
             "/-- the arms of `bind_native`: native name, class, `secure` flag of the class, OS primitives it references -/",
             "def natives : List NativeInfo := ["]
    rows = []
    for name in tab["names"]:
        info = tab["natives"].get(name)
        if info is None:
            continue
        rows.append(f"  ⟨{lean_str(name)}, {lean_str(info['class'] or '-')}, {'true' if info['secure'] else 'false'}, "
                    f"[{', '.join(lean_str(e) for e in info['effects'])}], {'true' if info['alias'] else 'false'}⟩")
    lines.append(",\n".join(rows) + "]")
    lines += ["", "structure Site where", "  file : String", "  cls : String", "  effectful : Bool", "  guardedByNotSecure : Bool", "deriving Repr", "",
              "/-- instantiation sites of built-in classes outside `bind_native` -/", "def sites : List Site := ["]
    rows = []
    for s in tab["sites"]:
        c = tab["classes"][s["class"]]
        guarded = any(re.fullmatch(r"not secure", g.strip()) for g in s["guards"])
        rows.append(f"  ⟨{lean_str(s['file'])}, {lean_str(s['class'])}, {'true' if (c['effects'] or not c['secure']) else 'false'}, {'true' if guarded else 'false'}⟩")
    lines.append(",\n".join(rows) + "]")
    lines += ["", "/-- natives bound by the bundled modules (module file, native, alias or \"\") -/",
              "def moduleBinds : List (String × String × String) := ["]
    rows = []
    for m, binds in tab["modules"].items():
        for n, a in binds:
            rows.append(f"  ({lean_str(m)}, {lean_str(n)}, {lean_str(a or '')})")
    lines.append(",\n".join(rows) + "]")
    lines += ["", "/-- `getArgNames()` of every built-in whose method returns a literal list: (native name, parameter names) -/",
              "def nativeArgs : List (String × List String) := ["]
    rows = []
    for name in tab["names"]:
        info = tab["natives"].get(name)
        if info is None or info.get("argnames") is None:
            continue
        rows.append(f"  ({lean_str(name)}, [{', '.join(lean_str(a) for a in info['argnames'])}])")
    lines.append(",\n".join(rows) + "]")
    lines += ["", "end Ckl.Gen", ""]
    path = os.path.join(core.LEAN, "CklVerif", "Gen", "NativeTable.lean")
    return path, "\n".join(lines), ["natives extractor: " + p for p in tab["problems"]]
