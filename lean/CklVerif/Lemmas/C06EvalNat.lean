/-
  C06Eval — the evaluator's entry points: the natives `equals`, `less`, …, `compare`, `string`,
  `contains`, the enumeration helpers `collectionValues` / `spreadValues`, and the set-building
  path `addSet`, expressed through the tree-level functions on the reified values.
-/
import CklVerif.Lemmas.C06EvalOps
namespace Ckl.C06E
open Ckl

theorem bind_apply {α β} (m : EvalM α) (f : α → EvalM β) (s : State) :
    (m >>= f) s = match m s with
      | .ok a s' => f a s'
      | .err v msg p t s' => .err v msg p t s'
      | .fail k s' => .fail k s' := rfl

theorem pure_apply {α} (a : α) (s : State) : (pure a : EvalM α) s = .ok a s := rfl

/-- run a pure native on a state (`none`: the name is not a pure native) -/
def runPure (name : String) (args : List (String × RVal)) (s : State) : Option (Out RVal) :=
  (callPure name args none {}).map (fun m => m s)

/-! ### scalars need no heap condition -/

theorem rveq_scalar_eq {s : State} {a b : RVal} {va vb : Val}
    (hs : (∀ x, a ≠ .ref x) ∨ (∀ y, b ≠ .ref y)) (ha : reify s a = some va)
    (hb : reify s b = some vb) : rveq s a b = veq va vb :=
  rveqF_scalar decRepr s.heap hs ha hb

/-! ### comparisons -/

theorem cmpLt_ok {s : State} {a b : RVal} {va vb : Val} (ha : reify s a = some va)
    (hb : reify s b = some vb) : cmpLt a b s = .ok (vlt va vb) s := by
  simp [cmpLt, rvlt_eq_vlt ha hb, bind_apply, getS, pure_apply]

theorem cmpGt_ok {s : State} (wf : HeapOK s) {a b : RVal} {va vb : Val} (ha : reify s a = some va)
    (hb : reify s b = some vb) : cmpGt a b s = .ok (vgtWith decRepr va vb) s := by
  simp [cmpGt, cmpLt_ok ha hb, rveq_eq_veq wf ha hb, bind_apply, getS, pure_apply, vgtWith, vlt]

theorem native_equals (s : State) (a b : RVal) :
    runPure "equals" [("a", a), ("b", b)] s = some (.ok (.bool (rveq s a b)) s) := rfl

theorem native_not_equals (s : State) (a b : RVal) :
    runPure "not_equals" [("a", a), ("b", b)] s = some (.ok (.bool (!rveq s a b)) s) := rfl

theorem native_less {s : State} {a b : RVal} {va vb : Val} (ha : reify s a = some va)
    (hb : reify s b = some vb) :
    runPure "less" [("a", a), ("b", b)] s = some (.ok (.bool (vlt va vb)) s) := by
  have : callPure "less" [("a", a), ("b", b)] none {} = some (do pure (boolV (← cmpLt a b))) := rfl
  simp [runPure, this, bind_apply, cmpLt_ok ha hb, pure_apply, boolV]

theorem native_greater {s : State} (wf : HeapOK s) {a b : RVal} {va vb : Val}
    (ha : reify s a = some va) (hb : reify s b = some vb) :
    runPure "greater" [("a", a), ("b", b)] s = some (.ok (.bool (vgtWith decRepr va vb)) s) := by
  have : callPure "greater" [("a", a), ("b", b)] none {} = some (do pure (boolV (← cmpGt a b))) := rfl
  simp [runPure, this, bind_apply, cmpGt_ok wf ha hb, pure_apply, boolV]

theorem native_less_equals {s : State} (wf : HeapOK s) {a b : RVal} {va vb : Val}
    (ha : reify s a = some va) (hb : reify s b = some vb) :
    runPure "less_equals" [("a", a), ("b", b)] s = some (.ok (.bool (vleWith decRepr va vb)) s) := by
  have : callPure "less_equals" [("a", a), ("b", b)] none {} =
      some (do let s ← getS; pure (boolV ((← cmpLt a b) || rveq s a b))) := rfl
  simp [runPure, this, bind_apply, getS, cmpLt_ok ha hb, rveq_eq_veq wf ha hb, pure_apply, boolV,
    vleWith, vlt]

theorem native_greater_equals {s : State} {a b : RVal} {va vb : Val} (ha : reify s a = some va)
    (hb : reify s b = some vb) :
    runPure "greater_equals" [("a", a), ("b", b)] s =
      some (.ok (.bool (vgeWith decRepr va vb)) s) := by
  have : callPure "greater_equals" [("a", a), ("b", b)] none {} =
      some (do pure (boolV (!(← cmpLt a b)))) := rfl
  simp [runPure, this, bind_apply, cmpLt_ok ha hb, pure_apply, boolV, vgeWith, vlt]

theorem native_compare {s : State} (wf : HeapOK s) {a b : RVal} {va vb : Val}
    (ha : reify s a = some va) (hb : reify s b = some vb) :
    runPure "compare" [("a", a), ("b", b)] s = some (.ok (.int (compareM decRepr va vb)) s) := by
  have : callPure "compare" [("a", a), ("b", b)] none {} = some (do
      if ← cmpLt a b then pure (.int (-1)) else if ← cmpGt a b then pure (.int 1) else pure (.int 0)) := rfl
  simp only [runPure, this, Option.map_some, bind_apply, cmpLt_ok ha hb]
  unfold compareM
  have e : vltWith decRepr va vb = vlt va vb := rfl
  rw [e]
  cases h1 : vlt va vb
  · simp only [Bool.false_eq_true, if_false, bind_apply, cmpGt_ok wf ha hb, vgtWith, e, h1]
    cases h2 : veq va vb <;> simp [pure_apply]
  · simp [pure_apply]

/-! ### `string` -/

theorem asStringM_data {s : State} {v : RVal} {va : Val} {txt : List Char} (pos : Pos)
    (hv : reify s v = some va) (h1 : ∀ t, v ≠ .str t) (h2 : v ≠ .null) (h3 : ∀ t, v ≠ .pat t)
    (hr : rrender s v = some txt) : asStringM v pos s = .ok txt s := by
  cases v with
  | str t => exact absurd rfl (h1 t)
  | null => exact absurd rfl h2
  | pat t => exact absurd rfl (h3 t)
  | closure _ => simp [reify, reifyF] at hv
  | native _ _ => simp [reify, reifyF] at hv
  | node _ => simp [reify, reifyF] at hv
  | brk _ => simp [reify, reifyF] at hv
  | cont _ => simp [reify, reifyF] at hv
  | ret _ _ => simp [reify, reifyF] at hv
  | _ => simp [asStringM, bind_apply, getS, hr, pure_apply]

theorem native_string {s : State} {v : RVal} {va : Val} {txt : List Char}
    (hv : reify s v = some va) (h1 : ∀ t, v ≠ .str t) (h2 : v ≠ .null) (h3 : ∀ t, v ≠ .pat t)
    (hr : rrender s v = some txt) :
    runPure "string" [("obj", v)] s = some (.ok (.str txt) s) := by
  have : callPure "string" [("obj", v)] none {} = some (do pure (.str (← asStringM v {}))) := rfl
  simp [runPure, this, bind_apply, asStringM_data {} hv h1 h2 h3 hr, pure_apply]

/-! ### `contains` -/

theorem native_contains_set {s : State} {c : Nat} {xs : List RVal} (hc : s.cell c = some (.set xs))
    (x : RVal) :
    runPure "contains" [("obj", .ref c), ("part", x)] s = some (.ok (.bool (memR s x xs)) s) := by
  simp [runPure, callPure, argGet, dictGet, dictHas, bind_apply, pure_apply, getS, cellOf, hc,
    RVal.isNull, boolV]

theorem native_contains_list {s : State} {c : Nat} {xs : List RVal} (hc : s.cell c = some (.list xs))
    (x : RVal) :
    runPure "contains" [("obj", .ref c), ("part", x)] s = some (.ok (.bool (memR s x xs)) s) := by
  simp [runPure, callPure, argGet, dictGet, dictHas, bind_apply, pure_apply, getS, cellOf, hc,
    RVal.isNull, boolV]

theorem native_contains_map {s : State} {c : Nat} {kvs : List (RVal × RVal)}
    (hc : s.cell c = some (.map kvs)) (x : RVal) :
    runPure "contains" [("obj", .ref c), ("part", x)] s =
      some (.ok (.bool (mapGet s x kvs).isSome) s) := by
  simp [runPure, callPure, argGet, dictGet, dictHas, bind_apply, pure_apply, getS, cellOf, hc,
    RVal.isNull, boolV]

/-! ### enumeration -/

theorem collectionValues_set {s : State} {c : Nat} {xs ys : List RVal}
    (hc : s.cell c = some (.set xs)) (hs : sortedR s xs = some ys) (what : Option String) (pos : Pos) :
    collectionValues (.ref c) what pos s = .ok ys s := by
  simp [collectionValues, bind_apply, getS, cellOf, hc, hs, pure_apply]

theorem collectionValues_map_keys {s : State} {c : Nat} {kvs es : List (RVal × RVal)}
    (hc : s.cell c = some (.map kvs)) (hs : sortedEntriesR s kvs = some es) (pos : Pos) :
    collectionValues (.ref c) (some "keys") pos s = .ok (es.map (·.1)) s := by
  simp [collectionValues, bind_apply, getS, cellOf, hc, hs, pure_apply]

theorem collectionValues_map_values {s : State} {c : Nat} {kvs es : List (RVal × RVal)}
    (hc : s.cell c = some (.map kvs)) (hs : sortedEntriesR s kvs = some es) (pos : Pos) :
    collectionValues (.ref c) (some "values") pos s = .ok (es.map (·.2)) s := by
  simp [collectionValues, bind_apply, getS, cellOf, hc, hs, pure_apply]

theorem spreadValues_set {s : State} {c : Nat} {xs ys : List RVal}
    (hc : s.cell c = some (.set xs)) (hs : sortedR s xs = some ys) (pos : Pos) :
    spreadValues (.ref c) pos s = .ok ys s := by
  simp [spreadValues, bind_apply, getS, cellOf, hc, hs, pure_apply]

theorem spreadValues_map {s : State} {c : Nat} {kvs : List (RVal × RVal)} {ys : List RVal}
    (hc : s.cell c = some (.map kvs)) (hs : sortedR s (kvs.map (·.1)) = some ys) (pos : Pos) :
    spreadValues (.ref c) pos s = .ok ys s := by
  simp [spreadValues, bind_apply, getS, cellOf, hc, hs, pure_apply]

/-! ### growing the heap -/

section
variable (dr : DecRenderer)

theorem cellVal_mono {f g : RVal → Option Val} (hfg : ∀ x v, f x = some v → g x = some v)
    {c : Option Cell} {w : Val} (h : cellVal dr f c = some w) : cellVal dr g c = some w := by
  rcases c with _ | c
  · simp [cellVal] at h
  · cases c <;> simp only [cellVal, Option.map_eq_some_iff] at h ⊢
    · obtain ⟨vs, h1, h2⟩ := h
      exact ⟨vs, mapM_option_mono (fun x _ v hx => hfg x v hx) h1, h2⟩
    · obtain ⟨vs, h1, h2⟩ := h
      exact ⟨vs, mapM_option_mono (fun x _ v hx => hfg x v hx) h1, h2⟩
    · obtain ⟨vs, h1, h2⟩ := h
      refine ⟨vs, mapM_option_mono ?_ h1, h2⟩
      intro kv _ p hp
      have := pairF_some (f := f) hp
      exact pairF_of (hfg _ _ this.1) (hfg _ _ this.2)
    · cases h
    · cases h

/-- a successful reification is not changed by allocating a new cell -/
theorem reifyF_push (h : Array Cell) (c : Cell) : ∀ (n : Nat) (v : RVal) (w : Val),
    reifyF dr h n v = some w → reifyF dr (h.push c) n v = some w := by
  intro n
  induction n with
  | zero => intro v w hv; cases v <;> simp_all [reifyF]
  | succ n ih =>
    intro v w hv
    cases v with
    | ref a =>
      rw [reifyF_ref_succ'] at hv ⊢
      have ha : a < h.size := by
        rcases Nat.lt_or_ge a h.size with h1 | h1
        · exact h1
        · rw [Array.getElem?_eq_none h1] at hv; simp [cellVal] at hv
      have : (h.push c)[a]? = h[a]? := by
        rw [Array.getElem?_push]; simp [Nat.ne_of_lt ha]
      rw [this]
      exact cellVal_mono dr ih hv
    | _ => simp_all [reifyF]

end

theorem reify_alloc {s : State} (c : Cell) {v : RVal} {w : Val} (hv : reify s v = some w) :
    reify (s.alloc c).1 v = some w := by
  have h1 := reifyF_push decRepr s.heap c _ v w hv
  have h2 := reifyF_mono decRepr (s.heap.push c) _ v w h1
  simpa [reify, State.alloc] using h2

theorem reifL_alloc {s : State} (c : Cell) {xs : List RVal} {A : List Val} (h : ReifL s xs A) :
    ReifL (s.alloc c).1 xs A := forall2_mono (fun _ _ hx => reify_alloc c hx) h

theorem reifM_alloc {s : State} (c : Cell) {kvs : List (RVal × RVal)} {P : List (Val × Val)}
    (h : ReifM s kvs P) : ReifM (s.alloc c).1 kvs P :=
  forall2_mono (fun _ _ hx => by
    have := pairF_some hx
    exact pairF_of (reify_alloc c this.1) (reify_alloc c this.2)) h

theorem alloc_cell_new (s : State) (c : Cell) : (s.alloc c).1.heap[s.heap.size]? = some c := by
  simp [State.alloc]

theorem reify_new_set {s : State} {xs : List RVal} {A : List Val} (h : ReifL s xs A) :
    reify (s.alloc (.set xs)).1 (.ref s.heap.size) = some (mkSet decRepr A) := by
  have hA : ReifL (s.alloc (.set xs)).1 xs A := reifL_alloc _ h
  rw [reify_ref_eq, alloc_cell_new]
  have : xs.mapM (reifyF decRepr (s.alloc (.set xs)).1.heap (s.alloc (.set xs)).1.heap.size) = some A := by
    apply forall2_mapM
    refine forall2_mono ?_ h
    intro x v hx
    have := reifyF_push decRepr s.heap (.set xs) _ x v hx
    simpa [State.alloc] using this
  simp only [cellVal, this, Option.map_some]

theorem reify_new_map {s : State} {kvs : List (RVal × RVal)} {P : List (Val × Val)}
    (h : ReifM s kvs P) :
    reify (s.alloc (.map kvs)).1 (.ref s.heap.size) = some (mkMap decRepr P) := by
  rw [reify_ref_eq, alloc_cell_new]
  have : kvs.mapM (pairF (reifyF decRepr (s.alloc (.map kvs)).1.heap (s.alloc (.map kvs)).1.heap.size)) =
      some P := by
    apply forall2_mapM
    refine forall2_mono ?_ h
    intro kv p hx
    have h1 := pairF_some hx
    have a1 := reifyF_push decRepr s.heap (.map kvs) _ _ _ h1.1
    have a2 := reifyF_push decRepr s.heap (.map kvs) _ _ _ h1.2
    exact pairF_of (by simpa [State.alloc] using a1) (by simpa [State.alloc] using a2)
  simp only [cellVal]
  unfold pairF at this
  rw [this]; rfl

/-! ### the set-building path -/

theorem addSet_eq (items : List RVal) (s : State) :
    addSet items s = .ok (.ref s.heap.size)
      (s.alloc (.set (items.foldl (fun acc x => setAdd s x acc) []))).1 := rfl

end Ckl.C06E
