import CklVerif.Lemmas.C13NoHost

/-!
  C20 (evaluator part) — vocabulary.

  * `Node.positions n`       : every position stored in the AST `n` (all sub-terms included)
  * `NodeOK P n`             : every position stored in `n` satisfies `P`
  * `State.positions s`      : every position stored in an AST that the state holds (closure bodies and
                               parameter defaults of the closure cells of the heap)
  * `StOK P s`               : every such position satisfies `P`
  * `Loader.positions ld`    : every position stored in a module AST of the loader
-/
namespace Ckl

/-! ### positions of an AST -/

mutual
/-- all positions stored in a node, the node's own position first -/
def Node.positions : Node → List Pos
  | .absent => []
  | .catchAll => []
  | .null p => [p]
  | .lit _ p => [p]
  | .ident _ p => [p]
  | .and es p => p :: Node.positionsL es
  | .or es p => p :: Node.positionsL es
  | .not e p => p :: e.positions
  | .assign _ e p => p :: e.positions
  | .assignD _ e p => p :: e.positions
  | .block es ce ch fin _ p =>
      p :: (Node.positionsL es ++ (Node.positionsL ce ++ (Node.positionsL ch ++ Node.positionsL fin)))
  | .brk p => [p]
  | .cont p => [p]
  | .cls _ ms p => p :: Node.positionsL ms
  | .defn _ e _ p => p :: e.positions
  | .defD _ e _ p => p :: e.positions
  | .deref e i d p => p :: (e.positions ++ (i.positions ++ d.positions))
  | .derefAssign e i v p => p :: (e.positions ++ (i.positions ++ v.positions))
  | .derefInvoke o _ _ args p => p :: (o.positions ++ Node.positionsL args)
  | .slice e a b p => p :: (e.positions ++ (a.positions ++ b.positions))
  | .error e p => p :: e.positions
  | .for _ e body _ p => p :: (e.positions ++ body.positions)
  | .call fn _ args p => p :: (fn.positions ++ Node.positionsL args)
  | .ite cs xs els p => p :: (Node.positionsL cs ++ (Node.positionsL xs ++ els.positions))
  | .isIn e c p => p :: (e.positions ++ c.positions)
  | .lambda _ ds body p => p :: (Node.positionsL ds ++ body.positions)
  | .list items p => p :: Node.positionsL items
  | .compr _ _ ve ke _ l1 _ _ l2 _ cond p =>
      p :: (ve.positions ++ (ke.positions ++ (l1.positions ++ (l2.positions ++ cond.positions))))
  | .map ks vs p => p :: (Node.positionsL ks ++ Node.positionsL vs)
  | .object _ vs p => p :: Node.positionsL vs
  | .require spec _ _ _ p => p :: spec.positions
  | .ret e p => p :: e.positions
  | .set items p => p :: Node.positionsL items
  | .spread e p => p :: e.positions
  | .while c body p => p :: (c.positions ++ body.positions)
def Node.positionsL : List Node → List Pos
  | [] => []
  | n :: ns => n.positions ++ Node.positionsL ns
end

mutual
/-- every position stored in the node satisfies `P` -/
def NodeOK (P : Pos → Prop) : Node → Prop
  | .absent => True
  | .catchAll => True
  | .null p => P p
  | .lit _ p => P p
  | .ident _ p => P p
  | .and es p => P p ∧ NodesOK P es
  | .or es p => P p ∧ NodesOK P es
  | .not e p => P p ∧ NodeOK P e
  | .assign _ e p => P p ∧ NodeOK P e
  | .assignD _ e p => P p ∧ NodeOK P e
  | .block es ce ch fin _ p => P p ∧ NodesOK P es ∧ NodesOK P ce ∧ NodesOK P ch ∧ NodesOK P fin
  | .brk p => P p
  | .cont p => P p
  | .cls _ ms p => P p ∧ NodesOK P ms
  | .defn _ e _ p => P p ∧ NodeOK P e
  | .defD _ e _ p => P p ∧ NodeOK P e
  | .deref e i d p => P p ∧ NodeOK P e ∧ NodeOK P i ∧ NodeOK P d
  | .derefAssign e i v p => P p ∧ NodeOK P e ∧ NodeOK P i ∧ NodeOK P v
  | .derefInvoke o _ _ args p => P p ∧ NodeOK P o ∧ NodesOK P args
  | .slice e a b p => P p ∧ NodeOK P e ∧ NodeOK P a ∧ NodeOK P b
  | .error e p => P p ∧ NodeOK P e
  | .for _ e body _ p => P p ∧ NodeOK P e ∧ NodeOK P body
  | .call fn _ args p => P p ∧ NodeOK P fn ∧ NodesOK P args
  | .ite cs xs els p => P p ∧ NodesOK P cs ∧ NodesOK P xs ∧ NodeOK P els
  | .isIn e c p => P p ∧ NodeOK P e ∧ NodeOK P c
  | .lambda _ ds body p => P p ∧ NodesOK P ds ∧ NodeOK P body
  | .list items p => P p ∧ NodesOK P items
  | .compr _ _ ve ke _ l1 _ _ l2 _ cond p =>
      P p ∧ NodeOK P ve ∧ NodeOK P ke ∧ NodeOK P l1 ∧ NodeOK P l2 ∧ NodeOK P cond
  | .map ks vs p => P p ∧ NodesOK P ks ∧ NodesOK P vs
  | .object _ vs p => P p ∧ NodesOK P vs
  | .require spec _ _ _ p => P p ∧ NodeOK P spec
  | .ret e p => P p ∧ NodeOK P e
  | .set items p => P p ∧ NodesOK P items
  | .spread e p => P p ∧ NodeOK P e
  | .while c body p => P p ∧ NodeOK P c ∧ NodeOK P body
def NodesOK (P : Pos → Prop) : List Node → Prop
  | [] => True
  | n :: ns => NodeOK P n ∧ NodesOK P ns
end

/-- unfold `NodeOK` / `NodesOK` on constructor applications in a hypothesis -/
macro "nodeok_at " h:ident : tactic => `(tactic| simp only [NodeOK, NodesOK] at $h:ident)

section
variable (P : Pos → Prop)

local macro "nk" : tactic =>
  `(tactic| simp_all [NodeOK, NodesOK, Node.positions, Node.positionsL, or_imp, forall_and])

mutual
theorem nodeOK_iff : ∀ n : Node, NodeOK P n ↔ ∀ p ∈ n.positions, P p
  | .absent => by nk
  | .catchAll => by nk
  | .null p => by nk
  | .lit _ p => by nk
  | .ident _ p => by nk
  | .and es p => by have := nodesOK_iff es; nk
  | .or es p => by have := nodesOK_iff es; nk
  | .not e p => by have := nodeOK_iff e; nk
  | .assign _ e p => by have := nodeOK_iff e; nk
  | .assignD _ e p => by have := nodeOK_iff e; nk
  | .block es ce ch fin _ p => by
      have := nodesOK_iff es; have := nodesOK_iff ce; have := nodesOK_iff ch; have := nodesOK_iff fin; nk
  | .brk p => by nk
  | .cont p => by nk
  | .cls _ ms p => by have := nodesOK_iff ms; nk
  | .defn _ e _ p => by have := nodeOK_iff e; nk
  | .defD _ e _ p => by have := nodeOK_iff e; nk
  | .deref e i d p => by have := nodeOK_iff e; have := nodeOK_iff i; have := nodeOK_iff d; nk
  | .derefAssign e i v p => by have := nodeOK_iff e; have := nodeOK_iff i; have := nodeOK_iff v; nk
  | .derefInvoke o _ _ args p => by have := nodeOK_iff o; have := nodesOK_iff args; nk
  | .slice e a b p => by have := nodeOK_iff e; have := nodeOK_iff a; have := nodeOK_iff b; nk
  | .error e p => by have := nodeOK_iff e; nk
  | .for _ e body _ p => by have := nodeOK_iff e; have := nodeOK_iff body; nk
  | .call fn _ args p => by have := nodeOK_iff fn; have := nodesOK_iff args; nk
  | .ite cs xs els p => by have := nodesOK_iff cs; have := nodesOK_iff xs; have := nodeOK_iff els; nk
  | .isIn e c p => by have := nodeOK_iff e; have := nodeOK_iff c; nk
  | .lambda _ ds body p => by have := nodesOK_iff ds; have := nodeOK_iff body; nk
  | .list items p => by have := nodesOK_iff items; nk
  | .compr _ _ ve ke _ l1 _ _ l2 _ cond p => by
      have := nodeOK_iff ve; have := nodeOK_iff ke; have := nodeOK_iff l1; have := nodeOK_iff l2
      have := nodeOK_iff cond; nk
  | .map ks vs p => by have := nodesOK_iff ks; have := nodesOK_iff vs; nk
  | .object _ vs p => by have := nodesOK_iff vs; nk
  | .require spec _ _ _ p => by have := nodeOK_iff spec; nk
  | .ret e p => by have := nodeOK_iff e; nk
  | .set items p => by have := nodesOK_iff items; nk
  | .spread e p => by have := nodeOK_iff e; nk
  | .while c body p => by have := nodeOK_iff c; have := nodeOK_iff body; nk
theorem nodesOK_iff : ∀ ns : List Node, NodesOK P ns ↔ ∀ p ∈ Node.positionsL ns, P p
  | [] => by nk
  | n :: ns => by have := nodeOK_iff n; have := nodesOK_iff ns; nk
end

end

theorem NodesOK.mem {P : Pos → Prop} {ns : List Node} (h : NodesOK P ns) {n : Node} (hn : n ∈ ns) :
    NodeOK P n := by
  induction ns with
  | nil => cases hn
  | cons m ms ih =>
    simp only [NodesOK] at h
    rcases List.mem_cons.mp hn with rfl | hm
    · exact h.1
    · exact ih h.2 hm

theorem NodeOK.mono {P Q : Pos → Prop} (hPQ : ∀ p, P p → Q p) {n : Node} (h : NodeOK P n) : NodeOK Q n :=
  (nodeOK_iff Q n).2 (fun p hp => hPQ p ((nodeOK_iff P n).1 h p hp))

/-- the node's own position is the head of `positions` (for every node that has one) -/
theorem Node.own_pos_mem_and (es : List Node) (p : Pos) : p ∈ (Node.and es p).positions := by
  simp [Node.positions]

/-! ### positions held by a state and by the loader -/

/-- positions of the ASTs a heap cell holds: body and parameter defaults of a closure -/
def Cell.positions : Cell → List Pos
  | .closure _ _ ds b _ => b.positions ++ Node.positionsL ds
  | _ => []

/-- every position stored in an AST of the state (closure cells of the heap) -/
def State.positions (s : State) : List Pos := s.heap.toList.flatMap Cell.positions

def CellOK (P : Pos → Prop) : Cell → Prop
  | .closure _ _ ds b _ => NodeOK P b ∧ NodesOK P ds
  | _ => True

/-- a cell that holds no AST -/
def DataCell : Cell → Prop
  | .closure _ _ _ _ _ => False
  | _ => True

theorem CellOK.ofData {P : Pos → Prop} {c : Cell} (h : DataCell c) : CellOK P c := by
  cases c <;> first | exact trivial | exact h.elim

theorem cellOK_iff (P : Pos → Prop) (c : Cell) : CellOK P c ↔ ∀ p ∈ c.positions, P p := by
  cases c <;> simp [CellOK, Cell.positions, nodeOK_iff, nodesOK_iff, or_imp, forall_and]

/-- every position stored in an AST of the state satisfies `P` -/
def StOK (P : Pos → Prop) (s : State) : Prop := ∀ (a : Nat) (c : Cell), s.heap[a]? = some c → CellOK P c

theorem stOK_iff (P : Pos → Prop) (s : State) : StOK P s ↔ ∀ p ∈ s.positions, P p := by
  unfold StOK State.positions
  constructor
  · intro h p hp
    rcases List.mem_flatMap.mp hp with ⟨c, hc, hpc⟩
    rcases List.getElem?_of_mem hc with ⟨a, ha⟩
    rw [Array.getElem?_toList] at ha
    exact (cellOK_iff P c).1 (h a c ha) p hpc
  · intro h a c hac
    refine (cellOK_iff P c).2 (fun p hp => h p (List.mem_flatMap.mpr ⟨c, ?_, hp⟩))
    rw [← Array.getElem?_toList] at hac
    exact List.mem_of_getElem? hac

theorem StOK.cell {P : Pos → Prop} {s : State} (h : StOK P s) {a : Nat} {c : Cell} (hc : s.cell a = some c) :
    CellOK P c := h a c hc

theorem StOK.closure {P : Pos → Prop} {s : State} (h : StOK P s) {a : Nat} {e ps ds b n}
    (hc : s.cell a = some (.closure e ps ds b n)) : NodeOK P b ∧ NodesOK P ds := h.cell hc

theorem StOK.of_heap_eq {P : Pos → Prop} {s s' : State} (he : s'.heap = s.heap) (h : StOK P s) : StOK P s' := by
  unfold StOK; rw [he]; exact h

theorem StOK.setCell {P : Pos → Prop} {s : State} (h : StOK P s) (a : Nat) {c : Cell} (hc : CellOK P c) :
    StOK P (s.setCell a c) := by
  intro b d hbd
  unfold State.setCell at hbd
  simp only [Array.getElem?_setIfInBounds] at hbd
  split at hbd
  · split at hbd
    · cases hbd; exact hc
    · cases hbd
  · exact h b d hbd

theorem StOK.alloc {P : Pos → Prop} {s : State} (h : StOK P s) {c : Cell} (hc : CellOK P c) :
    StOK P (s.alloc c).1 := by
  intro b d hbd
  unfold State.alloc at hbd
  simp only [Array.getElem?_push] at hbd
  split at hbd
  · cases hbd; exact hc
  · exact h b d hbd

theorem StOK.empty (P : Pos → Prop) : StOK P {} := by
  intro a c h; simp at h

/-- every position stored in a module AST of the loader -/
def Loader.positions (ld : Loader) : List Pos :=
  (ld.bundled ++ ld.user).flatMap (fun kv => match kv.2 with | .ok ast => ast.positions | .error _ => [])

/-- every module AST the loader can hand out has its positions in `P` -/
def LoaderOK (P : Pos → Prop) (ld : Loader) : Prop :=
  ∀ file ast, ld.find file = some (.ok ast) → NodeOK P ast

theorem lookup_mem {β} (k : String) : ∀ (l : List (String × β)) (v : β), l.lookup k = some v → (k, v) ∈ l
  | [], _, h => by simp [List.lookup] at h
  | (k', v') :: rest, v, h => by
    unfold List.lookup at h
    split at h
    · rename_i heq
      have : k = k' := by simpa using heq
      cases h; subst this; exact List.mem_cons_self
    · exact List.mem_cons_of_mem _ (lookup_mem k rest v h)

theorem loaderOK_of_positions {P : Pos → Prop} {ld : Loader} (h : ∀ p ∈ ld.positions, P p) : LoaderOK P ld := by
  intro file ast hf
  refine (nodeOK_iff P ast).2 (fun p hp => h p ?_)
  unfold Loader.positions
  unfold Loader.find at hf
  split at hf
  · rename_i r hr
    cases hf
    exact List.mem_flatMap.mpr ⟨_, List.mem_append_left _ (lookup_mem _ _ _ hr), hp⟩
  · exact List.mem_flatMap.mpr ⟨_, List.mem_append_right _ (lookup_mem _ _ _ hf), hp⟩

end Ckl
