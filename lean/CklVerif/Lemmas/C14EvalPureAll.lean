import CklVerif.Lemmas.C14EvalPure
import CklVerif.Lemmas.C17EvalBase

/-! C14 (evaluator part) — `callPure` respects similarity -/
namespace Ckl.C14E
open Ckl

/-- the names `callPure` handles -/
def pureNames : List String :=
  ["add", "sub", "mul", "div", "mod", "equals", "not_equals", "less", "greater", "less_equals", "greater_equals", "compare", "type", "identity", "string", "length", "is_null", "is_not_null", "is_empty", "if_null", "append", "insert_at", "delete_at", "remove", "put", "list", "set", "range", "sum", "zip", "sublist", "substr", "find", "find_last", "contains", "starts_with", "ends_with", "chr", "ord", "println", "print"]

/-- on every other name `callPure` hands over to `callDate` (`date`, `int`, `decimal` of a date) -/
theorem callPure_other {name : String} (h : name ∉ pureNames) (a : List (String × RVal)) (d : Option RVal) (p : Pos) :
    callPure name a d p = callDate name a p := by
  unfold callPure
  split <;> first | rfl | (exfalso; revert h; decide)

theorem asDateRes_ers {v v' : RVal} (h : ers v = ers v') : asDateRes v = asDateRes v' := by
  rcases RVal.sim_cases5 h with rfl | ⟨_, _, rfl, rfl, _⟩ | ⟨_, _, rfl, rfl⟩ | ⟨_, _, rfl, rfl⟩ | ⟨_, _, _, _, rfl, rfl, _⟩ <;> rfl

theorem onDate_resp (f : DT → DateRes) {p p' : Pos} {o o' : Option RVal} (h : ers o = ers o') :
    PureSim (onDate f p o) (onDate f p' o') := by
  rcases Option.sim_cases h with ⟨rfl, rfl⟩ | ⟨v, v', rfl, rfl, hv⟩
  · simp only [onDate, PureSim]
  · rcases RVal.sim_cases5 hv with rfl | ⟨_, _, rfl, rfl, _⟩ | ⟨_, _, rfl, rfl⟩ | ⟨_, _, rfl, rfl⟩ | ⟨_, _, _, _, rfl, rfl, _⟩
    · cases v <;> simp only [onDate, PureSim]
      exact dateResM_resp _
    all_goals simp only [onDate, PureSim]

/-- `date(x)`, `int(date)`, `decimal(date)` respect similarity: they look at no position -/
theorem callDate_resp (name : String) {args args' : List (String × RVal)} {p p' : Pos}
    (ha : ers args = ers args') : PureSim (callDate name args p) (callDate name args' p') := by
  have h1 : ers (dictGet "obj" args) = ers (dictGet "obj" args') := by ers_tac
  by_cases hd : name = "date"
  · subst hd
    rw [callDate_date, callDate_date]
    rcases Option.sim_cases h1 with ⟨h2, h3⟩ | ⟨v, v', h2, h3, hv⟩
    · rw [h2, h3]; simp only [Option.map, PureSim]
    · rw [h2, h3]; simp only [Option.map, PureSim]; rw [asDateRes_ers hv]; exact dateResM_resp _
  by_cases hi : name = "int"
  · subst hi; rw [callDate_int, callDate_int]; exact onDate_resp _ h1
  by_cases hc : name = "decimal"
  · subst hc; rw [callDate_decimal, callDate_decimal]; exact onDate_resp _ h1
  rw [callDate_none_of_name _ _ hd hi hc, callDate_none_of_name _ _ hd hi hc]
  trivial

theorem callPure_resp (name : String) {args args' : List (String × RVal)} {d d' : Option RVal} {p p' : Pos}
    (ha : ers args = ers args') (hd : ers d = ers d') :
    PureSim (callPure name args d p) (callPure name args' d' p') := by
  by_cases h : name ∈ pureNames
  · simp only [pureNames, List.mem_cons, List.not_mem_nil, or_false] at h
    rcases h with rfl | rfl | rfl | rfl | rfl | rfl | rfl | rfl | rfl | rfl | rfl | rfl | rfl | rfl | rfl | rfl | rfl | rfl | rfl | rfl | rfl | rfl | rfl | rfl | rfl | rfl | rfl | rfl | rfl | rfl | rfl | rfl | rfl | rfl | rfl | rfl | rfl | rfl | rfl | rfl | rfl
    · exact callPure_add ha hd
    · exact callPure_sub ha hd
    · exact callPure_mul ha hd
    · exact callPure_div ha hd
    · exact callPure_mod ha hd
    · exact callPure_equals ha hd
    · exact callPure_not_equals ha hd
    · exact callPure_less ha hd
    · exact callPure_greater ha hd
    · exact callPure_less_equals ha hd
    · exact callPure_greater_equals ha hd
    · exact callPure_compare ha hd
    · exact callPure_type ha hd
    · exact callPure_identity ha hd
    · exact callPure_string ha hd
    · exact callPure_length ha hd
    · exact callPure_is_null ha hd
    · exact callPure_is_not_null ha hd
    · exact callPure_is_empty ha hd
    · exact callPure_if_null ha hd
    · exact callPure_append ha hd
    · exact callPure_insert_at ha hd
    · exact callPure_delete_at ha hd
    · exact callPure_remove ha hd
    · exact callPure_put ha hd
    · exact callPure_list ha hd
    · exact callPure_set ha hd
    · exact callPure_range ha hd
    · exact callPure_sum ha hd
    · exact callPure_zip ha hd
    · exact callPure_sublist ha hd
    · exact callPure_substr ha hd
    · exact callPure_find ha hd
    · exact callPure_find_last ha hd
    · exact callPure_contains ha hd
    · exact callPure_starts_with ha hd
    · exact callPure_ends_with ha hd
    · exact callPure_chr ha hd
    · exact callPure_ord ha hd
    · exact callPure_println ha hd
    · exact callPure_print ha hd
  · rw [callPure_other h, callPure_other h]
    exact callDate_resp name ha

end Ckl.C14E
