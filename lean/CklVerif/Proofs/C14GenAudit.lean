import CklVerif.Proofs.C14Gen
open Ckl.C14G
#print axioms keywords_agree
#print axioms states_agree
#print axioms word_terminators_agree
#print axioms number_classes_agree
#print axioms start_classes_agree
#print axioms transitions_agree
#print axioms string_twins_agree
#print axioms char_tests_agree
