/-
  C03Sugar — evaluator level, part 3: the method call `obj->m(a)` (`NodeDerefInvoke`) and
  `ValueObject.findOwner`.
-/
import CklVerif.Lemmas.C03SugarCall
namespace Ckl.C03S
open Ckl Ckl.C03

/-! ### `findOwner`: the first object on the `_proto_` chain that has the member -/

/-- `OwnerAt s key n seen v kvs`: walking from `v` along `_proto_` links for at most `n` steps,
    never entering an object of `seen` or visiting an object twice, the first object that has the
    member `key` has the members `kvs` -/
inductive OwnerAt (s : State) (key : String) : Nat → List Nat → RVal → List (String × RVal) → Prop
  | here {n : Nat} {seen : List Nat} {a : Nat} {kvs : List (String × RVal)} {m : Bool} :
      a ∉ seen → s.cell a = some (.obj kvs m) → dictHas key kvs = true →
      OwnerAt s key (n + 1) seen (.ref a) kvs
  | up {n : Nat} {seen : List Nat} {a : Nat} {kvs owner : List (String × RVal)} {m : Bool} {p : RVal} :
      a ∉ seen → s.cell a = some (.obj kvs m) → dictHas key kvs = false →
      dictGet "_proto_" kvs = some p → OwnerAt s key n (a :: seen) p owner →
      OwnerAt s key (n + 1) seen (.ref a) owner

/-- `findOwnerF` finds exactly the owners described by `OwnerAt` -/
theorem findOwnerF_iff (s : State) (key : String) : ∀ (n : Nat) (v : RVal) (seen : List Nat)
    (owner : List (String × RVal)), findOwnerF s n v key seen = some owner ↔ OwnerAt s key n seen v owner := by
  intro n
  induction n with
  | zero =>
    intro v seen owner
    constructor
    · intro h; simp [findOwnerF] at h
    · intro h; cases h
  | succ n ih =>
    intro v seen owner
    constructor
    · intro h
      cases v with
      | ref a =>
        simp only [findOwnerF] at h
        by_cases hs : a ∈ seen
        · simp [hs] at h
        · have hs' : seen.contains a = false := by simpa using hs
          simp only [hs', Bool.false_eq_true, if_false] at h
          cases hc : s.cell a with
          | none => simp [hc] at h
          | some cl =>
            cases cl with
            | obj kvs m =>
              simp only [hc] at h
              cases hk : dictHas key kvs with
              | true =>
                simp only [hk, if_true, Option.some.injEq] at h
                subst h
                exact .here hs hc hk
              | false =>
                simp only [hk, Bool.false_eq_true, if_false] at h
                cases hp : dictGet "_proto_" kvs with
                | none => simp [hp] at h
                | some p =>
                  simp only [hp] at h
                  exact .up hs hc hk hp ((ih _ _ _).1 h)
            | _ => simp [hc] at h
      | _ => simp [findOwnerF] at h
    · intro h
      cases h with
      | here hs hc hk => simp [findOwnerF, hs, hc, hk]
      | up hs hc hk hp hrest => simp [findOwnerF, hs, hc, hk, hp, (ih _ _ _).2 hrest]

/-- `findOwner` = `OwnerAt` with fuel `heap.size + 1` (more steps than there are objects) -/
theorem findOwner_iff (s : State) (v : RVal) (key : String) (owner : List (String × RVal)) :
    findOwner s v key = some owner ↔ OwnerAt s key (s.heap.size + 1) [] v owner :=
  findOwnerF_iff s key _ v [] owner

/-- the member is on the object itself -/
theorem findOwner_self {s : State} {a : Nat} {kvs : List (String × RVal)} {m : Bool} {key : String}
    (hc : s.cell a = some (.obj kvs m)) (hk : dictHas key kvs = true) :
    findOwner s (.ref a) key = some kvs :=
  (findOwner_iff s _ key kvs).2 (.here (by simp) hc hk)

/-- the owner always has the member -/
theorem OwnerAt.has {s : State} {key : String} {n : Nat} {seen : List Nat} {v : RVal}
    {owner : List (String × RVal)} (h : OwnerAt s key n seen v owner) : dictHas key owner = true := by
  induction h with
  | here _ _ hk => exact hk
  | up _ _ _ _ _ ih => exact ih

/-- nothing is found from a value that is not an object -/
theorem findOwner_not_obj {s : State} {v : RVal} {key : String}
    (h : ∀ a kvs m, v = .ref a → s.cell a ≠ some (.obj kvs m)) : findOwner s v key = none := by
  cases hf : findOwner s v key with
  | none => rfl
  | some owner =>
    have := (findOwner_iff s v key owner).1 hf
    cases this with
    | here _ hc _ => exact absurd hc (h _ _ _ rfl)
    | up _ hc _ _ _ => exact absurd hc (h _ _ _ rfl)

section
variable (ld : Loader)

/-! ### `NodeDerefInvoke.evaluate` -/

/-- **method call on an object**: the member is looked up on the receiver and up its `_proto_`
    chain (`findOwner`); when it is a function, the call is `invoke` of that member with the RECEIVER
    `o` — the object the call was written on, not the owner on the chain — as the one pre-evaluated,
    positional, leading argument. -/
theorem derefInvoke_object (F : Nat) (env : EnvId) (objN : Node) (member : String) (names : List (Option String))
    (args : List Node) (pos : Pos) (s s1 : State) (a : Nat) (kvs owner : List (String × RVal))
    (ho : eval ld F env objN s = .ok (.ref a) s1)
    (hc : s1.cell a = some (.obj kvs false))
    (hown : findOwner s1 (.ref a) member = some owner)
    (hfn : ((dictGet member owner).getD .null).isFunc = true) :
    eval ld (F + 1) env (.derefInvoke objN member names args pos) s =
      invoke ld F ((dictGet member owner).getD .null) [.ref a] names args env pos s1 := by
  rw [eval]
  simp only [EvalM.bind_apply, ho, cellOf, hc, getS, hown, hfn, Bool.not_true, Bool.false_eq_true, if_false]

/-- **method call on a module object**: no receiver is passed -/
theorem derefInvoke_module (F : Nat) (env : EnvId) (objN : Node) (member : String) (names : List (Option String))
    (args : List Node) (pos : Pos) (s s1 : State) (a : Nat) (kvs owner : List (String × RVal))
    (ho : eval ld F env objN s = .ok (.ref a) s1)
    (hc : s1.cell a = some (.obj kvs true))
    (hown : findOwner s1 (.ref a) member = some owner)
    (hfn : ((dictGet member owner).getD .null).isFunc = true) :
    eval ld (F + 1) env (.derefInvoke objN member names args pos) s =
      invoke ld F ((dictGet member owner).getD .null) [] names args env pos s1 := by
  rw [eval]
  simp only [EvalM.bind_apply, ho, cellOf, hc, getS, hown, hfn, Bool.not_true, Bool.false_eq_true, if_false,
    if_true]

/-- member not found on the object or its chain -/
theorem derefInvoke_not_found (F : Nat) (env : EnvId) (objN : Node) (member : String)
    (names : List (Option String)) (args : List Node) (pos : Pos) (s s1 : State) (a : Nat)
    (kvs : List (String × RVal)) (m : Bool)
    (ho : eval ld F env objN s = .ok (.ref a) s1)
    (hc : s1.cell a = some (.obj kvs m))
    (hown : findOwner s1 (.ref a) member = none) :
    eval ld (F + 1) env (.derefInvoke objN member names args pos) s =
      throwE ("Member " ++ member ++ " not found") pos s1 := by
  rw [eval]
  simp only [EvalM.bind_apply, ho, cellOf, hc, getS, hown]

/-- the member exists but is not a function -/
theorem derefInvoke_not_function (F : Nat) (env : EnvId) (objN : Node) (member : String)
    (names : List (Option String)) (args : List Node) (pos : Pos) (s s1 : State) (a : Nat)
    (kvs owner : List (String × RVal)) (m : Bool)
    (ho : eval ld F env objN s = .ok (.ref a) s1)
    (hc : s1.cell a = some (.obj kvs m))
    (hown : findOwner s1 (.ref a) member = some owner)
    (hfn : ((dictGet member owner).getD .null).isFunc = false) :
    eval ld (F + 1) env (.derefInvoke objN member names args pos) s =
      throwE ("Member " ++ member ++ " is not a function") pos s1 := by
  rw [eval]
  simp only [EvalM.bind_apply, ho, cellOf, hc, getS, hown, hfn, Bool.not_false, if_true]

/-- **method call on a map**: the member is the value under the STRING key `member`; no receiver -/
theorem derefInvoke_map (F : Nat) (env : EnvId) (objN : Node) (member : String) (names : List (Option String))
    (args : List Node) (pos : Pos) (s s1 : State) (a : Nat) (kvs : List (RVal × RVal)) (fn : RVal)
    (ho : eval ld F env objN s = .ok (.ref a) s1)
    (hc : s1.cell a = some (.map kvs))
    (hget : mapGet s1 (.str member.toList) kvs = some fn) (hfn : fn.isFunc = true) :
    eval ld (F + 1) env (.derefInvoke objN member names args pos) s =
      invoke ld F fn [] names args env pos s1 := by
  rw [eval]
  simp only [EvalM.bind_apply, ho, cellOf, hc, getS, hget, hfn, Bool.not_true, Bool.false_eq_true, if_false]

theorem derefInvoke_map_not_found (F : Nat) (env : EnvId) (objN : Node) (member : String)
    (names : List (Option String)) (args : List Node) (pos : Pos) (s s1 : State) (a : Nat)
    (kvs : List (RVal × RVal))
    (ho : eval ld F env objN s = .ok (.ref a) s1)
    (hc : s1.cell a = some (.map kvs))
    (hget : mapGet s1 (.str member.toList) kvs = none) :
    eval ld (F + 1) env (.derefInvoke objN member names args pos) s =
      throwE ("Member " ++ member ++ " not found") pos s1 := by
  rw [eval]
  simp only [EvalM.bind_apply, ho, cellOf, hc, getS, hget]

theorem derefInvoke_map_not_function (F : Nat) (env : EnvId) (objN : Node) (member : String)
    (names : List (Option String)) (args : List Node) (pos : Pos) (s s1 : State) (a : Nat)
    (kvs : List (RVal × RVal)) (fn : RVal)
    (ho : eval ld F env objN s = .ok (.ref a) s1)
    (hc : s1.cell a = some (.map kvs))
    (hget : mapGet s1 (.str member.toList) kvs = some fn) (hfn : fn.isFunc = false) :
    eval ld (F + 1) env (.derefInvoke objN member names args pos) s =
      throwE (member ++ " is not a function") pos s1 := by
  rw [eval]
  simp only [EvalM.bind_apply, ho, cellOf, hc, getS, hget, hfn, Bool.not_false, if_true]

/-- the receiver is neither an object nor a map: "Cannot deref-invoke" -/
theorem derefInvoke_other (F : Nat) (env : EnvId) (objN : Node) (member : String)
    (names : List (Option String)) (args : List Node) (pos : Pos) (s s1 : State) (o : RVal)
    (ho : eval ld F env objN s = .ok o s1)
    (hc : ∀ a, o = .ref a → (∀ kvs m, s1.cell a ≠ some (.obj kvs m)) ∧ (∀ kvs, s1.cell a ≠ some (.map kvs))) :
    eval ld (F + 1) env (.derefInvoke objN member names args pos) s = throwE "Cannot deref-invoke" pos s1 := by
  rw [eval]
  simp only [EvalM.bind_apply, ho]
  cases o with
  | ref a =>
    obtain ⟨h1, h2⟩ := hc a rfl
    simp only [cellOf]
  | _ => first | rfl | skip

end
end Ckl.C03S
