/-
  C06Eval — the operations on heap collections (`memR`, `mapGet`, `mapPut`, `mapDel`, `setAdd`,
  `sortedR`, `sortedEntriesR`, `rvlt`, `rrender`) agree with the tree-level operations on the
  reified values.
-/
import CklVerif.Lemmas.C06EvalBridge
import CklVerif.Lemmas.C08FullEval2
namespace Ckl.C06E
open Ckl

/-- `xs` reifies elementwise to `A` -/
abbrev ReifL (s : State) (xs : List RVal) (A : List Val) : Prop :=
  List.Forall₂ (fun x v => reify s x = some v) xs A

/-- the entries `kvs` reify elementwise to `P` -/
abbrev ReifM (s : State) (kvs : List (RVal × RVal)) (P : List (Val × Val)) : Prop :=
  List.Forall₂ (fun kv p => pairF (reify s) kv = some p) kvs P

theorem reifL_iff {s : State} {xs : List RVal} {A : List Val} :
    ReifL s xs A ↔ xs.mapM (reify s) = some A := ⟨forall2_mapM, mapM_forall2⟩

theorem reifM_iff {s : State} {kvs : List (RVal × RVal)} {P : List (Val × Val)} :
    ReifM s kvs P ↔ kvs.mapM (pairF (reify s)) = some P := ⟨forall2_mapM, mapM_forall2⟩

theorem ReifM.keys {s : State} {kvs : List (RVal × RVal)} {P : List (Val × Val)}
    (h : ReifM s kvs P) : ReifL s (kvs.map (·.1)) (P.map (·.1)) := forall2_keys h

theorem ReifM.vals {s : State} {kvs : List (RVal × RVal)} {P : List (Val × Val)}
    (h : ReifM s kvs P) : ReifL s (kvs.map (·.2)) (P.map (·.2)) := by
  induction h with
  | nil => exact List.Forall₂.nil
  | cons hx _ ih => exact List.Forall₂.cons (pairF_some hx).2 ih

/-- reification of a set cell / map cell / list cell in terms of the element lists -/
theorem reify_ref_eq (s : State) (a : Nat) :
    reify s (.ref a) = cellVal decRepr (reifyF decRepr s.heap s.heap.size) s.heap[a]? :=
  reifyF_ref_succ' decRepr s.heap s.heap.size a

/-! ### order -/

/-- **bridge (order)**: `rvlt` is `vlt` on the reified values; it is `none` exactly when one of
    the two values does not reify -/
theorem rvlt_eq_vlt {s : State} {a b : RVal} {va vb : Val} (ha : reify s a = some va)
    (hb : reify s b = some vb) : rvlt s a b = some (vlt va vb) := by
  simp [rvlt, ha, hb]

theorem rvlt_none_iff (s : State) (a b : RVal) :
    rvlt s a b = none ↔ reify s a = none ∨ reify s b = none := by
  unfold rvlt
  cases ha : reify s a <;> cases hb : reify s b <;> simp

/-! ### membership and lookup -/

theorem memR_eq_memV {s : State} (wf : HeapOK s) {x : RVal} {vx : Val} (hx : reify s x = some vx)
    {xs : List RVal} {A : List Val} (hA : ReifL s xs A) : memR s x xs = memV vx A := by
  unfold memR memV
  exact any_transfer (R := fun x v => reify s x = some v) (r := rveq s) (E := veq)
    (fun x y a b hx hy => rveq_eq_veq wf hx hy) hx hA

theorem mapGet_bridge {s : State} (wf : HeapOK s) {k : RVal} {vk : Val} (hk : reify s k = some vk)
    {kvs : List (RVal × RVal)} {P : List (Val × Val)} (hP : ReifM s kvs P) :
    (mapGet s k kvs).bind (reify s) = lookupM vk P ∧
      (mapGet s k kvs).isSome = (lookupM vk P).isSome := by
  induction hP with
  | nil => simp [mapGet, lookupM]
  | @cons kv p kvs P hx _ ih =>
    obtain ⟨k', v'⟩ := kv
    obtain ⟨pk, pv⟩ := p
    have h1 := pairF_some hx
    simp only at h1
    simp only [mapGet, lookupM, rveq_eq_veq wf hk h1.1]
    split
    · simp [h1.2]
    · exact ih

/-! ### `sortBy` along a relation -/

section
variable {α β : Type} {R : α → β → Prop} {lt1 : α → α → Bool} {lt2 : β → β → Bool}

theorem insertBy_forall2 (H : ∀ x x' y y', R x y → R x' y' → lt1 x x' = lt2 y y') {x : α} {y : β}
    (hxy : R x y) {xs : List α} {ys : List β} (h : List.Forall₂ R xs ys) :
    List.Forall₂ R (insertBy lt1 x xs) (insertBy lt2 y ys) := by
  induction h with
  | nil => exact List.Forall₂.cons hxy List.Forall₂.nil
  | cons hab hrest ih =>
    simp only [insertBy, H _ _ _ _ hxy hab]
    split
    · exact List.Forall₂.cons hxy (List.Forall₂.cons hab hrest)
    · exact List.Forall₂.cons hab ih

theorem sortBy_forall2 (H : ∀ x x' y y', R x y → R x' y' → lt1 x x' = lt2 y y') {xs : List α}
    {ys : List β} (h : List.Forall₂ R xs ys) : List.Forall₂ R (sortBy lt1 xs) (sortBy lt2 ys) := by
  induction h with
  | nil => exact List.Forall₂.nil
  | cons hab _ ih => exact insertBy_forall2 H hab ih

theorem forall2_map_left {γ : Type} {S : γ → β → Prop} (g : α → γ) (hRS : ∀ a b, R a b → S (g a) b)
    {xs : List α} {ys : List β} (h : List.Forall₂ R xs ys) : List.Forall₂ S (xs.map g) ys := by
  induction h with
  | nil => exact List.Forall₂.nil
  | cons hab _ ih => exact List.Forall₂.cons (hRS _ _ hab) ih

end

theorem decor_mapM {α : Type} {key : α → Option Val} {xs : List α} {A : List Val}
    (h : List.Forall₂ (fun x v => key x = some v) xs A) :
    xs.mapM (fun x => do let v ← key x; pure (v, x)) = some (A.zip xs) := by
  apply forall2_mapM
  induction h with
  | nil => exact List.Forall₂.nil
  | cons hx _ ih => exact List.Forall₂.cons (by simp [hx]) ih

/-- what `sortKeyed` computes, for keys that exist -/
theorem sortKeyed_spec {α : Type} {key : α → Option Val} {xs : List α} {A : List Val}
    (h : List.Forall₂ (fun x v => key x = some v) xs A) :
    ∃ D : List (Val × α),
      sortKeyed key xs = some ((sortBy (fun a b => vlt a.1 b.1) D).map (·.2)) ∧
      D.map (·.2) = xs ∧ List.Forall₂ (fun d v => d.1 = v ∧ key d.2 = some v) D A := by
  refine ⟨A.zip xs, ?_, ?_, ?_⟩
  · unfold sortKeyed
    rw [decor_mapM h]; rfl
  · induction h with
    | nil => rfl
    | cons _ _ ih => simp [ih]
  · induction h with
    | nil => exact List.Forall₂.nil
    | cons hx _ ih => exact List.Forall₂.cons ⟨rfl, hx⟩ ih

/-- **bridge (enumeration)**: `sortedR` succeeds on elements that reify, returns a permutation of
    them, and the result reifies to the `vlt`-sorted list of the reified elements -/
theorem sortedR_bridge {s : State} {xs : List RVal} {A : List Val} (hA : ReifL s xs A) :
    ∃ ys, sortedR s xs = some ys ∧ ys.Perm xs ∧ ReifL s ys (sortBy vlt A) := by
  obtain ⟨D, h1, h2, h3⟩ := sortKeyed_spec (key := reify s) hA
  refine ⟨_, by rw [sortedR_eq]; exact h1, ?_, ?_⟩
  · rw [← h2]
    exact (sortBy_perm' _ D).map _
  · have := sortBy_forall2 (lt1 := fun a b : Val × RVal => vlt a.1 b.1) (lt2 := vlt)
      (R := fun d v => d.1 = v ∧ reify s d.2 = some v)
      (fun x x' y y' hx hx' => by rw [hx.1, hx'.1]) h3
    exact forall2_map_left (S := fun x v => reify s x = some v) (·.2) (fun a b hab => hab.2) this

theorem decor_pairs {s : State} : ∀ (D : List (Val × (RVal × RVal))) (P : List (Val × Val)),
    List.Forall₂ (fun kv p => pairF (reify s) kv = some p) (D.map (·.2)) P →
    List.Forall₂ (fun (d : Val × (RVal × RVal)) v => d.1 = v ∧ reify s d.2.1 = some v) D (P.map (·.1)) →
    List.Forall₂ (fun (d : Val × (RVal × RVal)) (p : Val × Val) =>
      d.1 = p.1 ∧ pairF (reify s) d.2 = some p) D P
  | [], P, h1, _ => by cases h1; exact List.Forall₂.nil
  | d :: D, P, h1, h2 => by
    cases h1 with
    | @cons _ p _ P' hp hrest =>
      cases h2 with
      | cons hd hrest2 => exact List.Forall₂.cons ⟨hd.1, hp⟩ (decor_pairs D P' hrest hrest2)

/-- the same for the entries of a map: `sortedEntriesR` returns the entries in the order of
    `sortedEntries` (the order `mkMap` stores) -/
theorem sortedEntriesR_bridge {s : State} {kvs : List (RVal × RVal)} {P : List (Val × Val)}
    (hP : ReifM s kvs P) :
    ∃ es, sortedEntriesR s kvs = some es ∧ es.Perm kvs ∧ ReifM s es (sortedEntries decRepr P) := by
  have hK : List.Forall₂ (fun (kv : RVal × RVal) v => reify s kv.1 = some v) kvs (P.map (·.1)) := by
    induction hP with
    | nil => exact List.Forall₂.nil
    | cons hx _ ih => exact List.Forall₂.cons (pairF_some hx).1 ih
  obtain ⟨D, h1, h2, h3⟩ := sortKeyed_spec (key := fun kv : RVal × RVal => reify s kv.1) hK
  refine ⟨_, by rw [sortedEntriesR_eq]; exact h1, ?_, ?_⟩
  · rw [← h2]
    exact (sortBy_perm' _ D).map _
  · -- relate the decorated list to `P`
    have hDP : List.Forall₂ (fun (d : Val × (RVal × RVal)) (p : Val × Val) =>
        d.1 = p.1 ∧ pairF (reify s) d.2 = some p) D P := by
      subst h2
      exact decor_pairs D P hP h3
    have := sortBy_forall2 (lt1 := fun a b : Val × (RVal × RVal) => vlt a.1 b.1)
      (lt2 := fun a b : Val × Val => vltWith decRepr a.1 b.1)
      (R := fun d p => d.1 = p.1 ∧ pairF (reify s) d.2 = some p)
      (fun x x' y y' hx hx' => by rw [hx.1, hx'.1]; rfl) hDP
    exact forall2_map_left (S := fun kv p => pairF (reify s) kv = some p) (·.2)
      (fun a b hab => hab.2) this

/-! ### updates -/

/-- tree-level `set.add` on an insertion-ordered element list -/
def addV (v : Val) (acc : List Val) : List Val := if memV v acc then acc else acc ++ [v]

/-- tree-level `del dict[k]` on an association list -/
def assocDel (k : Val) : List (Val × Val) → List (Val × Val)
  | [] => []
  | (k', v') :: rest => if veq k k' then rest else (k', v') :: assocDel k rest

theorem forall2_snoc {α β : Type} {R : α → β → Prop} {xs : List α} {ys : List β}
    (h : List.Forall₂ R xs ys) {x : α} {y : β} (hxy : R x y) :
    List.Forall₂ R (xs ++ [x]) (ys ++ [y]) := by
  induction h with
  | nil => exact List.Forall₂.cons hxy List.Forall₂.nil
  | cons hab _ ih => exact List.Forall₂.cons hab ih

theorem setAdd_bridge {s : State} (wf : HeapOK s) {x : RVal} {vx : Val} (hx : reify s x = some vx)
    {xs : List RVal} {A : List Val} (hA : ReifL s xs A) : ReifL s (setAdd s x xs) (addV vx A) := by
  unfold setAdd addV
  rw [memR_eq_memV wf hx hA]
  split
  · exact hA
  · exact forall2_snoc hA hx

theorem foldl_setAdd_bridge {s : State} (wf : HeapOK s) {items : List RVal} {I : List Val}
    (hI : ReifL s items I) : ∀ {acc : List RVal} {Acc : List Val}, ReifL s acc Acc →
    ReifL s (items.foldl (fun acc x => setAdd s x acc) acc) (I.foldl (fun acc v => addV v acc) Acc) := by
  induction hI with
  | nil => intro acc Acc h; exact h
  | cons hx _ ih => intro acc Acc h; exact ih (setAdd_bridge wf hx h)

theorem mapPut_bridge {s : State} (wf : HeapOK s) {k v : RVal} {vk vv : Val}
    (hk : reify s k = some vk) (hv : reify s v = some vv) {kvs : List (RVal × RVal)}
    {P : List (Val × Val)} (hP : ReifM s kvs P) : ReifM s (mapPut s k v kvs) (assocPut vk vv P) := by
  induction hP with
  | nil => exact List.Forall₂.cons (pairF_of hk hv) List.Forall₂.nil
  | @cons kv p kvs P hx hrest ih =>
    obtain ⟨k', v'⟩ := kv
    obtain ⟨pk, pv⟩ := p
    have h1 := pairF_some hx
    simp only at h1
    simp only [mapPut, assocPut, rveq_eq_veq wf hk h1.1]
    split
    · exact List.Forall₂.cons (pairF_of h1.1 hv) hrest
    · exact List.Forall₂.cons hx ih

theorem foldl_mapPut_bridge {s : State} (wf : HeapOK s) {kvs : List (RVal × RVal)}
    {I : List (Val × Val)} (hI : ReifM s kvs I) : ∀ {acc : List (RVal × RVal)} {Acc : List (Val × Val)},
    ReifM s acc Acc →
    ReifM s (kvs.foldl (fun acc kv => mapPut s kv.1 kv.2 acc) acc)
      (I.foldl (fun acc kv => assocPut kv.1 kv.2 acc) Acc) := by
  induction hI with
  | nil => intro acc Acc h; exact h
  | cons hx _ ih =>
    intro acc Acc h
    have h1 := pairF_some hx
    exact ih (mapPut_bridge wf h1.1 h1.2 h)

theorem mapDel_bridge {s : State} (wf : HeapOK s) {k : RVal} {vk : Val} (hk : reify s k = some vk)
    {kvs : List (RVal × RVal)} {P : List (Val × Val)} (hP : ReifM s kvs P) :
    ReifM s (mapDel s k kvs) (assocDel vk P) := by
  induction hP with
  | nil => exact List.Forall₂.nil
  | @cons kv p kvs P hx hrest ih =>
    obtain ⟨k', v'⟩ := kv
    obtain ⟨pk, pv⟩ := p
    have h1 := pairF_some hx
    simp only at h1
    simp only [mapDel, assocDel, rveq_eq_veq wf hk h1.1]
    split
    · exact hrest
    · exact List.Forall₂.cons hx ih

/-- `remove` on a set cell: filtering out the `equals` elements -/
theorem filter_bridge {s : State} (wf : HeapOK s) {el : RVal} {ve : Val} (he : reify s el = some ve)
    {xs : List RVal} {A : List Val} (hA : ReifL s xs A) :
    ReifL s (xs.filter (fun y => !rveq s y el)) (A.filter (fun y => !veq y ve)) := by
  induction hA with
  | nil => exact List.Forall₂.nil
  | cons hx _ ih =>
    simp only [List.filter_cons, rveq_eq_veq wf hx he]
    split
    · exact List.Forall₂.cons hx ih
    · exact ih

/-! ### the tree-level fold is `dedupKeepFirst` / `assocOfList` -/

theorem filter_class_congr {p x : Val} (h : veq p x = true) (l : List Val) :
    l.filter (fun y => !veq x y) = l.filter (fun y => !veq p y) := by
  apply List.filter_congr
  intro y _
  rw [veq_congr_left h]

theorem dedup_filter_class (p : Val) : ∀ L : List Val,
    (dedupKeepFirst L).filter (fun y => !veq p y) = dedupKeepFirst (L.filter (fun y => !veq p y))
  | [] => rfl
  | x :: L => by
    have ih := dedup_filter_class p L
    simp only [dedupKeepFirst, List.filter_cons]
    cases hpx : veq p x with
    | true =>
      simp only [Bool.not_true, Bool.false_eq_true, if_false]
      rw [filter_class_congr hpx, List.filter_filter]
      simp only [Bool.and_self]
      exact ih
    | false =>
      simp only [Bool.not_false, if_true, dedupKeepFirst]
      congr 1
      rw [List.filter_filter, ← ih, List.filter_filter]
      apply List.filter_congr
      intro y _
      rw [Bool.and_comm]

theorem dedup_drop_member {v : Val} : ∀ (P Q : List Val), memV v P = true →
    dedupKeepFirst (P ++ v :: Q) = dedupKeepFirst (P ++ Q)
  | [], _, h => by simp [memV] at h
  | p :: P, Q, h => by
    simp only [List.cons_append, dedupKeepFirst]
    congr 1
    cases hpv : veq p v with
    | true =>
      rw [dedup_filter_class, dedup_filter_class, List.filter_append, List.filter_append,
        List.filter_cons]
      simp [hpv]
    | false =>
      have : memV v P = true := by
        rw [memV_cons, veq_symm', hpv, Bool.false_or] at h; exact h
      rw [dedup_drop_member P Q this]

theorem addV_pairwise {v : Val} {A : List Val} (hA : A.Pairwise (fun a b => veq a b = false)) :
    (addV v A).Pairwise (fun a b => veq a b = false) := by
  unfold addV
  split
  · exact hA
  · rename_i hm
    have hm' : memV v A = false := by simpa using hm
    rw [memV_eq_false_iff] at hm'
    rw [List.pairwise_append]
    refine ⟨hA, List.pairwise_singleton _ _, ?_⟩
    intro a ha b hb
    rw [List.mem_singleton] at hb; subst hb
    rw [veq_symm']; exact hm' a ha

/-- folding `set.add` over the items is `dedupKeepFirst` -/
theorem foldl_addV_eq_dedup : ∀ (I Acc : List Val), Acc.Pairwise (fun a b => veq a b = false) →
    I.foldl (fun acc v => addV v acc) Acc = dedupKeepFirst (Acc ++ I)
  | [], Acc, h => by simp [dedup_of_pairwise h]
  | v :: I, Acc, h => by
    simp only [List.foldl_cons]
    rw [foldl_addV_eq_dedup I (addV v Acc) (addV_pairwise h)]
    unfold addV
    split
    · rename_i hm
      rw [dedup_drop_member Acc I hm]
    · simp

theorem addV_eq_dedup {v : Val} {A : List Val} (hA : A.Pairwise (fun a b => veq a b = false)) :
    addV v A = dedupKeepFirst (A ++ [v]) := by
  have := foldl_addV_eq_dedup [v] A hA
  simpa using this

/-! ### the cell condition is kept by the updates -/

theorem KeysOK.sublist {A B : List Val} (h : KeysOK A) (hs : B.Sublist A) : KeysOK B where
  kind a ha b hb := h.kind a (hs.subset ha) b (hs.subset hb)
  distinct := h.distinct.sublist hs

theorem KeysOK.addV {A : List Val} (h : KeysOK A) {v : Val} (hv : SameKind v v)
    (hk : ∀ a ∈ A, SameKind v a) : KeysOK (addV v A) where
  kind := by
    unfold C06E.addV
    split
    · exact h.kind
    · intro a ha b hb
      simp only [List.mem_append, List.mem_singleton] at ha hb
      rcases ha with ha | rfl <;> rcases hb with hb | rfl
      · exact h.kind a ha b hb
      · exact SameKind_symm _ _ (hk a ha)
      · exact hk b hb
      · exact hv
  distinct := addV_pairwise h.distinct

theorem mem_dedup' {y : Val} : ∀ {xs : List Val}, y ∈ dedupKeepFirst xs → y ∈ xs
  | [], h => by simp [dedupKeepFirst] at h
  | x :: xs, h => by
    simp only [dedupKeepFirst, List.mem_cons] at h
    rcases h with rfl | h
    · simp
    · exact List.mem_cons_of_mem _ (mem_dedup' (List.mem_filter.mp h).1)

/-- a set built from items that are mutually of one ordered kind is well formed -/
theorem KeysOK.dedup {I : List Val} (hk : ∀ a ∈ I, ∀ b ∈ I, SameKind a b) :
    KeysOK (dedupKeepFirst I) where
  kind a ha b hb := hk a (mem_dedup' ha) b (mem_dedup' hb)
  distinct := dedup_pairwise' I

theorem assocDel_sublist (k : Val) : ∀ P : List (Val × Val), (assocDel k P).Sublist P
  | [] => List.Sublist.refl _
  | (k', v') :: rest => by
    simp only [assocDel]
    split
    · exact List.sublist_cons_self _ _
    · exact (assocDel_sublist k rest).cons_cons _

theorem assocPut_keys_addV (k v : Val) (P : List (Val × Val)) :
    (assocPut k v P).map (·.1) = addV k (P.map (·.1)) := by
  have := keysOf_assocPut k v P
  unfold keysOf at this
  rw [this]; rfl

/-! ### rendering -/

theorem forall2_map_right {α β γ : Type} {R : α → β → Prop} {S : α → γ → Prop} (g : β → γ)
    (hRS : ∀ a b, R a b → S a (g b)) {xs : List α} {ys : List β} (h : List.Forall₂ R xs ys) :
    List.Forall₂ S xs (ys.map g) := by
  induction h with
  | nil => exact List.Forall₂.nil
  | cons hab _ ih => exact List.Forall₂.cons (hRS _ _ hab) ih

/-- `rrenderF` with one unit of fuel more than reification needs -/
theorem rrenderF_of_reifyF (s : State) : ∀ (n : Nat) (v : RVal) (va : Val), n ≤ s.heap.size + 1 →
    reifyF decRepr s.heap n v = some va → rrenderF s (n + 1) v = some (render va) := by
  intro n
  induction n with
  | zero =>
    intro v va _ hv
    have hfull : reify s v = some va := reifyF_mono_le decRepr s.heap (Nat.zero_le _) hv
    cases v <;> simp [reifyF] at hv <;> simp [rrenderF, hfull]
  | succ n ih =>
    intro v va hn hv
    have hfull : reify s v = some va := reifyF_mono_le decRepr s.heap hn hv
    cases v with
    | ref a =>
      rw [reifyF_ref_succ'] at hv
      cases hc : s.heap[a]? with
      | none => rw [hc] at hv; simp [cellVal] at hv
      | some c =>
        rw [hc] at hv
        cases c with
        | obj _ _ => simp [cellVal] at hv
        | closure _ _ _ _ _ => simp [cellVal] at hv
        | set xs => simp only [rrenderF, State.cell, hc, hfull, Option.map_some]
        | map xs => simp only [rrenderF, State.cell, hc, hfull, Option.map_some]
        | list xs =>
          simp only [cellVal, Option.map_eq_some_iff] at hv
          obtain ⟨A, hA, rfl⟩ := hv
          have hp : xs.mapM (rrenderF s (n + 1)) = some (A.map render) :=
            forall2_mapM (forall2_map_right render (fun x v hx => ih x v (by omega) hx)
              (mapM_forall2 hA))
          simp only [rrenderF, State.cell, hc, hp, bind, Option.bind, pure, render, renderWith,
            C08F.renderL_eq_map]
    | _ => simp [reifyF] at hv <;> simp [rrenderF, hfull]

/-- **bridge (rendering)**, values that are not list cells: no condition at all -/
theorem rrender_eq_render_nonlist {s : State} {v : RVal} {va : Val} (hv : reify s v = some va)
    (hl : ∀ a xs, v = .ref a → s.heap[a]? ≠ some (.list xs)) : rrender s v = some (render va) := by
  unfold rrender
  cases v with
  | ref a =>
    have hv' := hv
    rw [reify_ref_eq] at hv'
    cases hc : s.heap[a]? with
    | none => rw [hc] at hv'; simp [cellVal] at hv'
    | some c =>
      cases c with
      | obj _ _ => rw [hc] at hv'; simp [cellVal] at hv'
      | closure _ _ _ _ _ => rw [hc] at hv'; simp [cellVal] at hv'
      | list xs => exact absurd hc (hl a xs rfl)
      | set xs => simp only [rrenderF, State.cell, hc, hv, Option.map_some]
      | map xs => simp only [rrenderF, State.cell, hc, hv, Option.map_some]
  | _ => simp [reify, reifyF] at hv <;> simp [rrenderF, hv, reify, reifyF]

/-- **bridge (rendering)**: a value that reifies with one unit of fuel to spare (`heap.size`
    instead of `heap.size + 1`) renders to `render` of its tree value -/
theorem rrender_eq_render {s : State} {v : RVal} {va : Val}
    (hv : reifyF decRepr s.heap s.heap.size v = some va) : rrender s v = some (render va) :=
  rrenderF_of_reifyF s s.heap.size v va (by omega) hv

end Ckl.C06E
