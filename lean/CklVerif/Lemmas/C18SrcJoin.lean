import CklVerif.Lemmas.C18SrcReverse
import CklVerif.Model.Str

/-! C18Src — string.ckl `join` (loop over a list cell, `result = result + sep + string(element)`, then `substr`) and `q` -/
set_option linter.unusedSimpArgs false
namespace Ckl.C18Src
open Ckl Ckl.C03 Ckl.C19Src Ckl.Gen.LibSrc
variable (ld : Loader)

/-- `string(x)` is the text `t` in every state: strings, patterns (their text), NULL (the empty text), and every atomic value
    whose rendering `rrender` does not depend on the heap -/
def StrOf (x : RVal) (t : List Char) : Prop := ∀ pos s, asStringM x pos s = .ok t s

theorem StrOf.str (t : List Char) : StrOf (.str t) t := fun _ _ => rfl
theorem StrOf.null : StrOf .null [] := fun _ _ => rfl
theorem StrOf.pat (t : List Char) : StrOf (.pat t) t := fun _ _ => rfl

theorem StrOf.string {v : RVal} {t : List Char} (h : StrOf v t) (pos : Pos) (s : State) :
    (do pure (RVal.str (← asStringM v pos)) : EvalM RVal) s = .ok (.str t) s := by
  simp [EvalM.bind_apply, h pos s, EvalM.pure_apply]

/-- built-ins `join` uses -/
def joinNats : List String := ["type", "equals", "add", "string", "substr", "length"]

/-- `type(x) == 'tn'` for a variable `x` of the call frame -/
theorem typeEq_ev {s : State} {M nats srcs c m vars} {x : String} {v : RVal} {tn : List Char} {p1 p2 p3 p4 p5 p6 : Pos}
    (ctx : Ctx s M nats srcs c m vars) (hn : ∀ x ∈ typeNats, x ∈ nats)
    (hx : dictGet x vars = some v) (h1 : dictGet "type" vars = none) (h2 : dictGet "equals" vars = none) :
    Ev ld 7 c (.call (.ident "equals" p1) [some "a", some "b"]
        [.call (.ident "type" p2) [none] [.ident x p3] p4, .lit (.str tn) p5] p6) s
      (.ok (.bool ((typeName s v).toList == tn)) s) := by
  obtain ⟨i, hty⟩ := ctx.nat (x := "type") (hn _ (by decide)) h1
  obtain ⟨j, heq⟩ := ctx.nat (x := "equals") (hn _ (by decide)) h2
  have A := Ev.nat1 ld (k := 0) (p := p2) (pos := p4) hty (by rfl) (by decide) (by trivial)
    (Ev.ident ld (p := p3) (ctx.var hx)) (pure_type _ _ _) rfl
  rw [wrapCall_ok] at A
  have B := Ev.natAB ld (k := 3) (p := p1) (pos := p6) heq (by rfl) (by trivial) (by trivial) A
    (Ev.litStr ld (p := p5) (t := tn)) (pure_equals _ _ _ _) rfl
  rw [wrapCall_ok] at B
  exact Ev.congr ld (Ev.mono ld B (by decide)) (by simp [rveq_str, boolV])

theorem joinNats_type {nats : List String} (hn : ∀ x ∈ joinNats, x ∈ nats) : ∀ x ∈ typeNats, x ∈ nats := by
  intro x hx; apply hn; simp [typeNats] at hx; rcases hx with rfl | rfl <;> decide

/-- the accumulator of `join` after the first `i` elements -/
def joinAcc (sp : List Char) (ts : List (List Char)) (i : Nat) : List Char :=
  (ts.take i).foldl (fun result element => result ++ sp ++ element) []

theorem joinAcc_succ (sp : List Char) (ts : List (List Char)) (i : Nat) (t : List Char) (h : ts[i]? = some t) :
    joinAcc sp ts (i + 1) = joinAcc sp ts i ++ sp ++ t := by
  unfold joinAcc; rw [List.take_add_one, h]; simp [List.foldl_append]

theorem joinAcc_all (sp : List Char) (ts : List (List Char)) :
    Seq.substr (joinAcc sp ts ts.length) sp.length none = Str.joinM sp ts := by
  unfold joinAcc Str.joinM; rw [List.take_length]

/-- statements of a block -/
def blockStmts : Node → List Node
  | .block es _ _ _ _ _ => es
  | _ => []

local notation "bp" => blockPos (lamBody string_join)

/-- the loop invariant of `join` -/
structure JoinInv (s : State) (c m : EnvId) (a : Nat) (sp : List Char) (ts : List (List Char)) (i : Nat) (st : State) : Prop where
  ext : Ext s st
  parent : (st.frame c).parent = some m
  clt : c < st.frames.size
  vars : (st.frame c).vars = [("lst", .ref a), ("sep", .str sp), ("result", .str (joinAcc sp ts i))] ∨
    ∃ w, (st.frame c).vars = [("lst", .ref a), ("sep", .str sp), ("result", .str (joinAcc sp ts i)), ("element", w)]

/-- statements 2–4 of `join` (`def result = ""`, the loop, `substr(result, length(sep))`) from a state in which `lst` is a list
    cell and `sep` a string -/
theorem join_tail {s t1 : State} {M nats srcs m} {a : Nat} {xs : List RVal} {sp : List Char} {ts : List (List Char)}
    (h : LibEnv s M nats srcs) (hm : M m) (hn : ∀ x ∈ joinNats, x ∈ nats)
    (hc : s.cell a = some (.list xs)) (hlen : xs.length = ts.length)
    (hstr : ∀ (i : Nat) v t, xs[i]? = some v → ts[i]? = some t → StrOf v t)
    (E1 : Ext s t1) (hpar : (t1.frame s.frames.size).parent = some m) (hclt1 : s.frames.size < t1.frames.size)
    (hvars1 : (t1.frame s.frames.size).vars = [("lst", .ref a), ("sep", .str sp)]) (last : RVal) :
    ∃ s', Ext s s' ∧ EvBody ld (xs.length + 16) s.frames.size (blockStmts (lamBody string_join)).tail last t1
      (.ok (.str (Str.joinM sp ts)) s') := by
  unfold lamBody string_join
  simp only [blockStmts, List.tail]
  generalize hK : xs.length + 13 = K
  have ha : a < s.heap.size := cell_lt hc
  have hcge : s.frames.size ≤ s.frames.size := Nat.le_refl _
  -- `def result = ""`
  let t2 := t1.put s.frames.size "result" (.str [])
  have S2 : ∀ p1 info p2, Ev ld K s.frames.size (.defn "result" (.lit (.str []) p1) info p2) t1 (.ok (.str []) t2) := by
    intro p1 info p2
    exact Ev.mono ld (Ev.defn ld (k := 0) (by intro a h; cases h) (Ev.litStr ld)) (by omega)
  have E2 : Ext s t2 := E1.put hcge _ _
  have inv0 : JoinInv s s.frames.size m a sp ts 0 t2 := by
    refine ⟨E2, ?_, ?_, Or.inl ?_⟩
    · show ((t1.put _ _ _).frame _).parent = _
      rw [parent_put]; exact hpar
    · show _ < (t1.put _ _ _).frames.size
      rw [frames_size_put]; exact hclt1
    · show ((t1.put _ _ _).frame _).vars = _
      rw [vars_put_same t1 "result" (.str []) hclt1, hvars1]; rfl
  -- the loop
  have hstep : ∀ p1 p2 p3 p4 p5 p6 p7 p8 p9 p10, ∀ i (r : RVal) st v, JoinInv s s.frames.size m a sp ts i st → xs[i]? = some v →
      ∃ r' s', Ev ld 9 s.frames.size (.assign "result" (.call (.ident "add" p1) [some "a", some "b"]
          [.call (.ident "add" p2) [some "a", some "b"] [.ident "result" p3, .ident "sep" p4] p5,
           .call (.ident "string" p6) [none] [.ident "element" p7] p8] p9) p10)
          (st.put s.frames.size "element" v) (.ok r' s') ∧
        isCtl r' = false ∧ JoinInv s s.frames.size m a sp ts (i + 1) s' := by
    intro p1 p2 p3 p4 p5 p6 p7 p8 p9 p10 i r st v inv hv
    have hi : i < ts.length := by
      rw [← hlen]; exact (List.getElem?_eq_some_iff.mp hv).1
    have hti : ts[i]? = some ts[i] := List.getElem?_eq_getElem hi
    have hso : StrOf v ts[i] := hstr i v _ hv hti
    have hvars : ((st.put s.frames.size "element" v).frame s.frames.size).vars =
        [("lst", .ref a), ("sep", .str sp), ("result", .str (joinAcc sp ts i)), ("element", v)] := by
      rw [vars_put_same _ _ _ inv.clt]
      rcases inv.vars with h | ⟨w, h⟩ <;> rw [h] <;> simp [dictPut]
    have hpar' : ((st.put s.frames.size "element" v).frame s.frames.size).parent = some m := by
      rw [parent_put]; exact inv.parent
    have eu : Ext s (st.put s.frames.size "element" v) := inv.ext.put hcge _ _
    have hclt : s.frames.size < (st.put s.frames.size "element" v).frames.size := by
      rw [frames_size_put]; exact inv.clt
    have cu : Ctx (st.put s.frames.size "element" v) M nats srcs s.frames.size m
        [("lst", .ref a), ("sep", .str sp), ("result", .str (joinAcc sp ts i)), ("element", v)] :=
      Ctx.ofExt h hm eu hvars hpar' hclt
    obtain ⟨j, hl⟩ := cu.nat (x := "add") (hn _ (by decide)) (by rfl)
    obtain ⟨j2, hl2⟩ := cu.nat (x := "string") (hn _ (by decide)) (by rfl)
    have A := Ev.natAB ld (k := 0) (p := p2) (pos := p5) hl (by rfl) (by trivial) (by trivial)
      (Ev.ident ld (p := p3) (cu.var (x := "result") (by rfl))) (Ev.ident ld (p := p4) (cu.var (x := "sep") (by rfl)))
      (pure_add _ _ _ _) (nativeAdd_str _ _ _ _)
    rw [wrapCall_ok] at A
    have B := Ev.nat1 ld (k := 0) (p := p6) (pos := p8) hl2 (by rfl) (by decide) (by trivial)
      (Ev.ident ld (p := p7) (cu.var (x := "element") (by rfl))) (pure_string _ _ _)
      (hso.string p8 _)
    rw [wrapCall_ok] at B
    have C := Ev.natAB ld (k := 4) (p := p1) (pos := p9) hl (by rfl) (by trivial) (by trivial)
      A (Ev.mono ld B (by decide)) (pure_add _ _ _ _) (nativeAdd_str _ _ _ _)
    rw [wrapCall_ok] at C
    have hdef : (st.put s.frames.size "element" v).isDefined s.frames.size "result" = true := by
      unfold State.isDefined; rw [cu.var (x := "result") (by rfl)]; rfl
    have D := Ev.assignLocal ld (pos := p10) hdef C (by rw [hvars]; rfl)
    refine ⟨_, _, D, rfl, eu.put hcge _ _, ?_, ?_, Or.inr ⟨v, ?_⟩⟩
    · rw [parent_put]; exact hpar'
    · rw [frames_size_put]; exact hclt
    · rw [vars_put_same _ _ _ hclt, hvars, joinAcc_succ sp ts i _ hti]
      simp [dictPut]
  have hcellI : ∀ i (r : RVal) st, JoinInv s s.frames.size m a sp ts i st → st.cell a = some (.list xs) := by
    intro i r st inv; rw [inv.ext.cell a ha]; exact hc
  have S3 : ∀ p0 p1 p2 p3 p4 p5 p6 p7 p8 p9 p10 what q, ∃ r t3, Ev ld K s.frames.size
      (.for ["element"] (.ident "lst" p0) (.assign "result" (.call (.ident "add" p1) [some "a", some "b"]
          [.call (.ident "add" p2) [some "a", some "b"] [.ident "result" p3, .ident "sep" p4] p5,
           .call (.ident "string" p6) [none] [.ident "element" p7] p8] p9) p10) what q) t2 (.ok r t3) ∧ isCtl r = false ∧
        Ext s t3 ∧
        ∃ vars, CallFrame t3 s.frames.size m vars ∧ dictGet "result" vars = some (.str (joinAcc sp ts ts.length)) ∧
          dictGet "sep" vars = some (.str sp) ∧ dictGet "substr" vars = none ∧ dictGet "length" vars = none ∧
          s.frames.size < t3.frames.size := by
    intro p0 p1 p2 p3 p4 p5 p6 p7 p8 p9 p10 what q
    obtain ⟨r, st, ⟨hctl, inv⟩, hloop⟩ := forListLive_inv ld (kb := 9) (env := s.frames.size) (x := "element") (a := a)
      (pos := q) xs (fun i r st => isCtl r = false ∧ JoinInv s s.frames.size m a sp ts i st)
      (fun i r st hI => hcellI i r st hI.2)
      (fun i r st v hI hv => by
        obtain ⟨r', s', h1, h2, h3⟩ := hstep p1 p2 p3 p4 p5 p6 p7 p8 p9 p10 i r st v hI.2 hv
        exact ⟨r', s', h1, h2, h2, h3⟩)
      xs.length 0 (.bool true) t2 (by omega) ⟨rfl, inv0⟩
    have hvars2 : (t2.frame s.frames.size).vars = [("lst", .ref a), ("sep", .str sp), ("result", .str [])] := by
      rcases inv0.vars with h | ⟨w, h⟩
      · exact h
      · exfalso
        have : (t2.frame s.frames.size).vars = [("lst", .ref a), ("sep", .str sp), ("result", .str [])] := by
          show ((t1.put _ _ _).frame _).vars = _
          rw [vars_put_same t1 "result" (.str []) hclt1, hvars1]; rfl
        rw [this] at h; simp at h
    have hF := Ev.forList ld (k := 0) (kl := 9 + xs.length + 1) (what := what) (x := "element") (pos := q)
      (by rw [hvars2]; rfl)
      (Ev.ident ld (p := p0) (lookup_local (x := "lst") (callFrame_self inv0.parent (h.lt m hm)) (by rw [hvars2]; rfl)))
      (hcellI 0 (.bool true) t2 inv0) hloop (hcellI _ r st inv)
    refine ⟨r, _, Ev.mono ld hF (show max 0 (9 + xs.length + 1) + 2 ≤ K by omega), hctl, ?_⟩
    rw [hlen] at inv
    cases hxs : xs.isEmpty with
    | true =>
      simp only [if_true]
      refine ⟨inv.ext, (st.frame s.frames.size).vars, callFrame_self inv.parent (h.lt m hm), ?_, ?_, ?_, ?_, inv.clt⟩ <;>
        (rcases inv.vars with h | ⟨w, h⟩ <;> rw [h] <;> rfl)
    | false =>
      simp only [Bool.false_eq_true, if_false]
      refine ⟨inv.ext.remove hcge _,
        ((st.remove s.frames.size "element").frame s.frames.size).vars,
        callFrame_self (by rw [frame_remove_same _ _ inv.clt]; exact inv.parent) (h.lt m hm), ?_, ?_, ?_, ?_,
        by rw [frames_size_remove]; exact inv.clt⟩ <;>
        (rw [frame_remove_same _ _ inv.clt]; rcases inv.vars with h | ⟨w, h⟩ <;> rw [h] <;> rfl)
  obtain ⟨r3, t3, hS3, hctl3, E3, vars3, hfr3, hres3, hsep3, hsub3, hlen3, hclt3⟩ := S3 _ _ _ _ _ _ _ _ _ _ _ _ _
  -- `substr(result, length(sep))`
  have ctx3 : Ctx t3 M nats srcs s.frames.size m vars3 := ⟨h.ext E3, hm, hfr3, hclt3⟩
  have S4 : ∀ p1 p2 p3 p4 p5 p6, Ev ld K s.frames.size (.call (.ident "substr" p1) [none, none]
      [.ident "result" p2, .call (.ident "length" p3) [none] [.ident "sep" p4] p5] p6) t3
      (.ok (.str (Str.joinM sp ts)) t3) := by
    intro p1 p2 p3 p4 p5 p6
    obtain ⟨j1, hl1⟩ := ctx3.nat (x := "substr") (hn _ (by decide)) hsub3
    obtain ⟨j2, hl2⟩ := ctx3.nat (x := "length") (hn _ (by decide)) hlen3
    obtain ⟨m1, hm1, hm1'⟩ := pure_length_str sp (div0Value t3 s.frames.size) p5 t3
    have A := Ev.nat1 ld (k := 0) (p := p3) (pos := p5) hl2 (by rfl) (by decide) (by trivial)
      (Ev.ident ld (p := p4) (ctx3.var hsep3)) hm1 hm1'
    rw [wrapCall_ok] at A
    obtain ⟨m2, hm2, hm2'⟩ := pure_substr2 (joinAcc sp ts ts.length) (sp.length : Int) (div0Value t3 s.frames.size) p6 t3
    have B := Ev.nat2 ld (k := 3) (p := p1) (pos := p6) hl1 (by rfl) (by decide) (by decide) (by trivial) (by trivial)
      (Ev.ident ld (p := p2) (ctx3.var hres3)) A hm2 hm2'
    rw [wrapCall_ok, joinAcc_all] at B
    exact Ev.mono ld B (by omega)
  refine ⟨t3, E3, ?_⟩
  exact EvBody.mono ld (k := K + 2 + 1)
    (EvBody.cons ld (Ev.mono ld (S2 _ _ _) (show K ≤ K + 2 by omega)) rfl
      (EvBody.cons ld (Ev.mono ld hS3 (show K ≤ K + 1 by omega)) hctl3
        (EvBody.cons ld (S4 _ _ _ _ _ _) rfl (EvBody.nil ld)))) (by omega)

theorem join_body_eq : lamBody string_join = .block ((blockStmts (lamBody string_join)).headD .absent ::
    (blockStmts (lamBody string_join)).tail) [] [] [] false bp := rfl

theorem typeName_ref_list {s : State} {a : Nat} {xs : List RVal} (h : s.cell a = some (.list xs)) :
    typeName s (.ref a) = "list" := by simp [typeName, h]

/-- the body of `join(lst, sep)` on a list cell and a string separator -/
theorem join_body_list {s s0 : State} {M nats srcs m} {a : Nat} {xs : List RVal} {sp : List Char} {ts : List (List Char)}
    (h : LibEnv s M nats srcs) (hm : M m)
    (ctx : Ctx s0 M nats srcs s.frames.size m [("lst", .ref a), ("sep", .str sp)]) (e0 : Ext s s0)
    (hn : ∀ x ∈ joinNats, x ∈ nats) (hc : s.cell a = some (.list xs)) (hlen : xs.length = ts.length)
    (hstr : ∀ (i : Nat) v t, xs[i]? = some v → ts[i]? = some t → StrOf v t) :
    ∃ s', Ext s s' ∧ Ev ld (xs.length + 18) s.frames.size (lamBody string_join) s0 (.ok (.str (Str.joinM sp ts)) s') ∧
      True := by
  have e0' : Ext s (ghostEnter s0 bp) := e0.ghostEnter _
  have ctx0 : Ctx (ghostEnter s0 bp) M nats srcs s.frames.size m [("lst", .ref a), ("sep", .str sp)] :=
    ctx.ext ((Ext.refl s0).ghostEnter _)
  have hca : (ghostEnter s0 bp).cell a = some (.list xs) := by rw [e0'.cell a (cell_lt hc)]; exact hc
  have S1 : ∀ p1 p2 p3 p4 p5 p6 x els p7, Ev ld (xs.length + 16) s.frames.size
      (.ite [.call (.ident "equals" p1) [some "a", some "b"]
        [.call (.ident "type" p2) [none] [.ident "lst" p3] p4, .lit (.str ['s', 't', 'r', 'i', 'n', 'g']) p5] p6] [x]
        (.lit (.bool true) els) p7) (ghostEnter s0 bp) (.ok (.bool true) (ghostEnter s0 bp)) := by
    intro p1 p2 p3 p4 p5 p6 x els p7
    have A := typeEq_ev ld (x := "lst") (tn := ['s', 't', 'r', 'i', 'n', 'g']) (p1 := p1) (p2 := p2) (p3 := p3) (p4 := p4)
      (p5 := p5) (p6 := p6) ctx0 (joinNats_type hn) (by rfl) (by rfl) (by rfl)
    rw [typeName_ref_list hca] at A
    have hd : ("list".toList == ['s', 't', 'r', 'i', 'n', 'g']) = false := by decide
    rw [hd] at A
    exact Ev.mono ld (Ev.ite ld (EvIf.false ld A (EvIf.else ld (Ev.litBool ld)))) (by omega)
  obtain ⟨s', e', hb⟩ := join_tail ld h hm hn hc hlen hstr e0' ctx0.fr.parent ctx0.clt ctx0.fr.vars (.bool true)
  refine ⟨ghostFin s' bp, e'.ghostFin _, ?_, trivial⟩
  rw [join_body_eq]
  exact Ev.block ld (b := false) (pos := bp) (EvBody.cons ld (S1 _ _ _ _ _ _ _ _ _) rfl hb)

/-- the body of `join(sep, lst)` with the arguments the other way round (first a string, then a list cell): the guard
    `if type(lst) == "string" then [lst, sep] = [sep, lst]` swaps them (allocating the two-element list of the right-hand side) -/
theorem join_body_swapped {s s0 : State} {M nats srcs m} {a : Nat} {xs : List RVal} {sp : List Char} {ts : List (List Char)}
    (h : LibEnv s M nats srcs) (hm : M m)
    (ctx : Ctx s0 M nats srcs s.frames.size m [("lst", .str sp), ("sep", .ref a)]) (e0 : Ext s s0)
    (hn : ∀ x ∈ joinNats, x ∈ nats) (hc : s.cell a = some (.list xs)) (hlen : xs.length = ts.length)
    (hstr : ∀ (i : Nat) v t, xs[i]? = some v → ts[i]? = some t → StrOf v t) :
    ∃ s', Ext s s' ∧ Ev ld (xs.length + 18) s.frames.size (lamBody string_join) s0 (.ok (.str (Str.joinM sp ts)) s') ∧
      True := by
  have hcge : s.frames.size ≤ s.frames.size := Nat.le_refl _
  have e0' : Ext s (ghostEnter s0 bp) := e0.ghostEnter _
  have ctx0 : Ctx (ghostEnter s0 bp) M nats srcs s.frames.size m [("lst", .str sp), ("sep", .ref a)] :=
    ctx.ext ((Ext.refl s0).ghostEnter _)
  let g := ghostEnter s0 bp
  let t1 := ((g.alloc (.list [.ref a, .str sp])).1.put s.frames.size "lst" (.ref a)).put s.frames.size "sep" (.str sp)
  have S1 : ∀ p1 p2 p3 p4 p5 p6 q1 q2 q3 q4 els p7, Ev ld (xs.length + 16) s.frames.size
      (.ite [.call (.ident "equals" p1) [some "a", some "b"]
        [.call (.ident "type" p2) [none] [.ident "lst" p3] p4, .lit (.str ['s', 't', 'r', 'i', 'n', 'g']) p5] p6]
        [.assignD ["lst", "sep"] (.list [.ident "sep" q1, .ident "lst" q2] q3) q4]
        els p7) g (.ok (.str sp) t1) := by
    intro p1 p2 p3 p4 p5 p6 q1 q2 q3 q4 els p7
    have A := typeEq_ev ld (x := "lst") (tn := ['s', 't', 'r', 'i', 'n', 'g']) (p1 := p1) (p2 := p2) (p3 := p3) (p4 := p4)
      (p5 := p5) (p6 := p6) ctx0 (joinNats_type hn) (by rfl) (by rfl) (by rfl)
    have B := Ev.swap2 ld (k := 3) (p1 := q1) (p2 := q2) (p3 := q3) (p4 := q4)
      (ctx0.var (x := "lst") (by rfl)) (ctx0.var (x := "sep") (by rfl))
      (by rw [ctx0.fr.vars]; rfl) (by rw [ctx0.fr.vars]; rfl) (by decide)
    rw [typeName_string] at A
    exact Ev.mono ld (Ev.ite ld (EvIf.true ld A B)) (by omega)
  have hclt : s.frames.size < g.frames.size := ctx0.clt
  have E1 : Ext s t1 := ((e0'.alloc _).put hcge _ _).put hcge _ _
  have hpar : (t1.frame s.frames.size).parent = some m := by
    show (((State.put _ _ _ _).put _ _ _).frame _).parent = _
    rw [parent_put, parent_put, frame_alloc]; exact ctx0.fr.parent
  have hclt1 : s.frames.size < t1.frames.size := by
    show _ < ((State.put _ _ _ _).put _ _ _).frames.size
    rw [frames_size_put, frames_size_put]; exact hclt
  have hvars1 : (t1.frame s.frames.size).vars = [("lst", .ref a), ("sep", .str sp)] := by
    show (((State.put _ _ _ _).put _ _ _).frame _).vars = _
    rw [vars_put_same _ _ _ (by rw [frames_size_put]; exact hclt), vars_put_same _ _ _ (by exact hclt), frame_alloc,
      ctx0.fr.vars]
    simp [dictPut]
  obtain ⟨s', e', hb⟩ := join_tail ld h hm hn hc hlen hstr E1 hpar hclt1 hvars1 (.str sp)
  refine ⟨ghostFin s' bp, e'.ghostFin _, ?_, trivial⟩
  rw [join_body_eq]
  exact Ev.block ld (b := false) (pos := bp) (EvBody.cons ld (S1 _ _ _ _ _ _ _ _ _ _ _ _) rfl hb)

/-- `fn.execute(lst = a list cell, sep = a string)` of the function made from the source of `join` -/
theorem join_calls_list {s : State} {M nats srcs fn m} (h : LibEnv s M nats srcs) (hn : ∀ x ∈ joinNats, x ∈ nats) (hm : M m)
    (hsrc : IsSrc s fn string_join m) (a : Nat) (xs : List RVal) (sp : List Char) (ts : List (List Char))
    (hc : s.cell a = some (.list xs)) (hlen : xs.length = ts.length)
    (hstr : ∀ (i : Nat) v t, xs[i]? = some v → ts[i]? = some t → StrOf v t) :
    ∃ s', Ext s s' ∧ ∀ env pos, Calls ld (xs.length + 19) fn [("lst", .ref a), ("sep", .str sp)] env pos s
      (.ok (.str (Str.joinM sp ts)) s') := by
  obtain ⟨s', e, _, c⟩ := calls_of_body2X ld (src := string_join) (Q := fun _ => True)
    (r := fun s' => .ok (.str (Str.joinM sp ts)) s') rfl rfl rfl (by omega) (by decide) h hm hsrc (.ref a) (.str sp)
    (fun _ ctx e0 => join_body_list ld h hm ctx e0 hn hc hlen hstr)
  exact ⟨s', e, c⟩

/-- `fn.execute(lst = a string, sep = a list cell)`: the arguments the other way round -/
theorem join_calls_swapped {s : State} {M nats srcs fn m} (h : LibEnv s M nats srcs) (hn : ∀ x ∈ joinNats, x ∈ nats) (hm : M m)
    (hsrc : IsSrc s fn string_join m) (a : Nat) (xs : List RVal) (sp : List Char) (ts : List (List Char))
    (hc : s.cell a = some (.list xs)) (hlen : xs.length = ts.length)
    (hstr : ∀ (i : Nat) v t, xs[i]? = some v → ts[i]? = some t → StrOf v t) :
    ∃ s', Ext s s' ∧ ∀ env pos, Calls ld (xs.length + 19) fn [("lst", .str sp), ("sep", .ref a)] env pos s
      (.ok (.str (Str.joinM sp ts)) s') := by
  obtain ⟨s', e, _, c⟩ := calls_of_body2X ld (src := string_join) (Q := fun _ => True)
    (r := fun s' => .ok (.str (Str.joinM sp ts)) s') rfl rfl rfl (by omega) (by decide) h hm hsrc (.str sp) (.ref a)
    (fun _ ctx e0 => join_body_swapped ld h hm ctx e0 hn hc hlen hstr)
  exact ⟨s', e, c⟩

/-! ### `q(lst) = join("|", lst)` -/

def qSrcs : List (String × Node) := [("join", string_join)]

theorem q_calls_list {s : State} {M nats srcs fn m} (h : LibEnv s M nats srcs) (hn : ∀ x ∈ joinNats, x ∈ nats)
    (hs : ∀ p ∈ qSrcs, p ∈ srcs) (hm : M m)
    (hsrc : IsSrc s fn string_q m) (a : Nat) (xs : List RVal) (ts : List (List Char))
    (hc : s.cell a = some (.list xs)) (hlen : xs.length = ts.length)
    (hstr : ∀ (i : Nat) v t, xs[i]? = some v → ts[i]? = some t → StrOf v t) :
    ∃ s', Ext s s' ∧ ∀ env pos, Calls ld (xs.length + 22) fn [("lst", .ref a)] env pos s
      (.ok (.str (Str.joinM ['|'] ts)) s') :=
  calls_of_body1 ld (src := string_q) (r := fun s' => .ok (.str (Str.joinM ['|'] ts)) s') rfl rfl rfl (by omega)
    h hm hsrc (.ref a) (fun s0 ctx e0 => by
      obtain ⟨fj, mj, hlj, hmj, hsrcj⟩ := ctx.src (x := "join") (src := string_join) (hs _ (by simp [qSrcs])) (by rfl)
      have hc0 : s0.cell a = some (.list xs) := by rw [e0.cell a (cell_lt hc)]; exact hc
      obtain ⟨s', e', c'⟩ := join_calls_swapped ld ctx.env hn hmj hsrcj a xs ['|'] ts hc0 hlen hstr
      refine ⟨s', e', ?_⟩
      unfold lamBody string_q
      simp only []
      exact Ev.congr ld (Ev.callSrc2 ld (k := xs.length + 17) hlj hsrcj rfl (by decide) (by decide)
        (by decide) (by trivial) (by trivial) (Ev.litStr ld (t := ['|']))
        (Ev.ident ld (ctx.var (x := "lst") (by rfl))) (c' _ _)) (wrapCall_ok _ _ _ _))

end Ckl.C18Src
