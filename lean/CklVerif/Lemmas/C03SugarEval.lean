/-
  C03Sugar — evaluator level: the argument-evaluation step `evalArgs` (spread arguments), the
  `invoke` step for closures, the first positional argument, method calls (`derefInvoke`, `findOwner`).
-/
import CklVerif.Proofs.C03
namespace Ckl.C03S
open Ckl Ckl.C03

section
variable (ld : Loader)

/-! ### `evalArgs`: the equations -/

theorem evalArgs_zero (env : EnvId) (ns : List (Option String)) (as : List Node) (pos : Pos) (s : State) :
    evalArgs ld 0 env ns as pos s = .fail .oof s := by
  rw [evalArgs]; rfl

theorem evalArgs_nil_args (F : Nat) (env : EnvId) (ns : List (Option String)) (pos : Pos) (s : State) :
    evalArgs ld (F + 1) env ns [] pos s = .ok ([], []) s := by
  rw [evalArgs]
  · rfl
  · intro _ _ _ _ _ h; cases h

theorem evalArgs_nil_names (F : Nat) (env : EnvId) (as : List Node) (pos : Pos) (s : State) :
    evalArgs ld (F + 1) env [] as pos s = .ok ([], []) s := by
  rw [evalArgs]
  · rfl
  · intro _ _ _ _ h; cases h

/-- the expression of an argument: the operand of a spread, the argument itself otherwise -/
def argExpr : Node → Node
  | .spread e _ => e
  | a => a

def isSpread : Node → Bool
  | .spread _ _ => true
  | _ => false

/-- an ordinary argument: its value, under its name -/
theorem evalArgs_plain (F : Nat) (env : EnvId) (n : Option String) (ns : List (Option String)) (a : Node)
    (as : List Node) (pos : Pos) (ha : isSpread a = false) :
    evalArgs ld (F + 1) env (n :: ns) (a :: as) pos =
      (do let v ← eval ld F env a
          let (rn, rv) ← evalArgs ld F env ns as pos
          pure (n :: rn, v :: rv)) := by
  rw [evalArgs]
  intro e p h
  subst h
  simp [isSpread] at ha

/-- a spread argument -/
theorem evalArgs_spread (F : Nat) (env : EnvId) (n : Option String) (ns : List (Option String)) (e : Node) (p : Pos)
    (as : List Node) (pos : Pos) :
    evalArgs ld (F + 1) env (n :: ns) (.spread e p :: as) pos =
      (do let v ← eval ld F env e
          let s ← getS
          match ← cellOf v with
          | some (.map kvs) =>
            match sortedEntriesR s kvs with
            | none => unsupported "sorting non-data map keys"
            | some es => do
              let names := es.map (fun kv => match kv.1 with | .str k => some (String.ofList k) | _ => none)
              let (rn, rv) ← evalArgs ld F env ns as pos
              pure (names ++ rn, es.map (·.2) ++ rv)
          | _ => do
            let xs ← spreadValues v pos
            let (rn, rv) ← evalArgs ld F env ns as pos
            pure (xs.map (fun _ => none) ++ rn, xs ++ rv)) := by
  rw [evalArgs]
  rfl

/-! ### `evalArgs`: what one argument contributes -/

inductive ArgErr where
  | cannotSpread (ty : String)
  | unsupported (w : String)

/-- the name under which an entry of a spread map is passed: the key when it is a string; an entry
    whose key is not a string is passed POSITIONALLY -/
def keyName (kv : RVal × RVal) : Option String :=
  match kv.1 with
  | .str k => some (String.ofList k)
  | _ => none

/-- what the evaluated argument `a` (value `v`, declared name `n`) contributes to the (names, values)
    lists of the call, in state `s`:
    * an ordinary argument: `([n], [v])`;
    * `...l`, `l` a list: its elements in order, all positional;
    * `...s`, `s` a set: its elements in ascending order (`sorted`), all positional;
    * `...m`, `m` a map: its entries in ascending key order, each under its (string) key;
    * a spread of anything else: the runtime error "Cannot spread <type>". -/
def contrib (s : State) (n : Option String) (a : Node) (v : RVal) :
    Except ArgErr (List (Option String) × List RVal) :=
  if isSpread a then
    match v with
    | .ref addr =>
      match s.cell addr with
      | some (.map kvs) =>
        match sortedEntriesR s kvs with
        | none => .error (.unsupported "sorting non-data map keys")
        | some es => .ok (es.map keyName, es.map (·.2))
      | some (.list xs) => .ok (xs.map (fun _ => none), xs)
      | some (.set xs) =>
        match sortedR s xs with
        | some ys => .ok (ys.map (fun _ => none), ys)
        | none => .error (.unsupported "sorting non-data set elements")
      | _ => .error (.cannotSpread (typeName s v))
    | _ => .error (.cannotSpread (typeName s v))
  else .ok ([n], [v])

/-- put the contribution of the first argument in front of the result for the remaining ones -/
def prepend (cn : List (Option String)) (cv : List RVal) :
    Out (List (Option String) × List RVal) → Out (List (Option String) × List RVal)
  | .ok r s => .ok (cn ++ r.1, cv ++ r.2) s
  | .err v m p t s => .err v m p t s
  | .fail f s => .fail f s

/-- **evalArgs_step** (state threaded): once the expression of the first argument has evaluated to
    `v` (new state `s1`), the result is its contribution followed by the result for the remaining
    arguments evaluated from `s1`; a bad spread raises at the position of the call. -/
theorem evalArgs_step (F : Nat) (env : EnvId) (n : Option String) (ns : List (Option String)) (a : Node)
    (as : List Node) (pos : Pos) (s s1 : State) (v : RVal) (he : eval ld F env (argExpr a) s = .ok v s1) :
    evalArgs ld (F + 1) env (n :: ns) (a :: as) pos s =
      match contrib s1 n a v with
      | .ok (cn, cv) => prepend cn cv (evalArgs ld F env ns as pos s1)
      | .error (.cannotSpread t) => throwE ("Cannot spread " ++ t) pos s1
      | .error (.unsupported w) => .fail (.unsupported w) s1 := by
  cases hsp : isSpread a with
  | false =>
    have hae : argExpr a = a := by cases a <;> simp [isSpread] at hsp <;> rfl
    rw [hae] at he
    rw [evalArgs_plain ld F env n ns a as pos hsp]
    simp only [EvalM.bind_apply, he, contrib, hsp, Bool.false_eq_true, if_false]
    cases evalArgs ld F env ns as pos s1 <;> rfl
  | true =>
    obtain ⟨e, p, rfl⟩ : ∃ e p, a = .spread e p := by cases a <;> simp [isSpread] at hsp; exact ⟨_, _, rfl⟩
    simp only [argExpr] at he
    rw [evalArgs_spread]
    simp only [EvalM.bind_apply, he, contrib, isSpread, if_true, getS]
    cases v with
    | ref addr =>
      simp only [cellOf]
      cases hc : s1.cell addr with
      | none => simp only [spreadValues, EvalM.bind_apply, EvalM.pure_apply, getS, cellOf, hc]; rfl
      | some cl =>
        cases cl with
        | map kvs =>
          simp only
          cases sortedEntriesR s1 kvs with
          | none => rfl
          | some es =>
            simp only [EvalM.bind_apply]
            cases evalArgs ld F env ns as pos s1 <;> rfl
        | list xs =>
          simp only [spreadValues, EvalM.bind_apply, EvalM.pure_apply, getS, cellOf, hc]
          cases evalArgs ld F env ns as pos s1 <;> rfl
        | set xs =>
          simp only [spreadValues, EvalM.bind_apply, EvalM.pure_apply, getS, cellOf, hc]
          cases sortedR s1 xs with
          | none => rfl
          | some ys =>
            simp only [EvalM.pure_apply]
            cases evalArgs ld F env ns as pos s1 <;> rfl
        | obj kvs m => simp only [spreadValues, EvalM.bind_apply, EvalM.pure_apply, getS, cellOf, hc]; rfl
        | closure _ _ _ _ _ => simp only [spreadValues, EvalM.bind_apply, EvalM.pure_apply, getS, cellOf, hc]; rfl
    | _ => simp only [cellOf, spreadValues, EvalM.bind_apply, getS]; rfl

/-- a runtime error while evaluating an argument expression is the outcome of the argument step -/
theorem evalArgs_step_err (F : Nat) (env : EnvId) (n : Option String) (ns : List (Option String)) (a : Node)
    (as : List Node) (pos : Pos) (s s1 : State) {w : RVal} {msg : String} {q : Pos} {tr : List (String × Pos)}
    (he : eval ld F env (argExpr a) s = .err w msg q tr s1) :
    evalArgs ld (F + 1) env (n :: ns) (a :: as) pos s = .err w msg q tr s1 := by
  cases hsp : isSpread a with
  | false =>
    have hae : argExpr a = a := by cases a <;> simp [isSpread] at hsp <;> rfl
    rw [hae] at he
    rw [evalArgs_plain ld F env n ns a as pos hsp]
    simp only [EvalM.bind_apply, he]
  | true =>
    obtain ⟨e, p, rfl⟩ : ∃ e p, a = .spread e p := by cases a <;> simp [isSpread] at hsp; exact ⟨_, _, rfl⟩
    simp only [argExpr] at he
    rw [evalArgs_spread]
    simp only [EvalM.bind_apply, he]

/-! ### `evalArgs`: the whole list, for argument expressions without effects -/

/-- every argument expression (the operand, for a spread) evaluates to the given value and leaves the
    state `s` unchanged; the index is the fuel `evalArgs` needs (one unit per argument, plus the
    fuel of the expressions) -/
inductive PureArgs (env : EnvId) (s : State) : Nat → List Node → List RVal → Prop
  | nil (F : Nat) : PureArgs env s (F + 1) [] []
  | cons {F : Nat} {a : Node} {as : List Node} {v : RVal} {vs : List RVal} :
      eval ld F env (argExpr a) s = .ok v s → PureArgs env s F as vs → PureArgs env s (F + 1) (a :: as) (v :: vs)

/-- the concatenation of the contributions, or the first error -/
def expandAll (s : State) : List (Option String) → List Node → List RVal →
    Except ArgErr (List (Option String) × List RVal)
  | n :: ns, a :: as, v :: vs =>
    match contrib s n a v with
    | .ok (cn, cv) =>
      match expandAll s ns as vs with
      | .ok (rn, rv) => .ok (cn ++ rn, cv ++ rv)
      | .error e => .error e
    | .error e => .error e
  | _, _, _ => .ok ([], [])

def argsOutcome {α : Type} (pos : Pos) (s : State) : Except ArgErr α → Out α
  | .ok r => .ok r s
  | .error (.cannotSpread t) => throwE ("Cannot spread " ++ t) pos s
  | .error (.unsupported w) => .fail (.unsupported w) s

/-- **evalArgs_spec**: for effect-free argument expressions `evalArgs` returns exactly the
    concatenation of the contributions of the arguments (see `contrib`), in order — or raises
    "Cannot spread <type>" at the position of the call for the first bad spread. -/
theorem evalArgs_spec {env : EnvId} {s : State} {F : Nat} {as : List Node} {vs : List RVal}
    (h : PureArgs ld env s F as vs) (ns : List (Option String)) (pos : Pos) :
    evalArgs ld F env ns as pos s = argsOutcome pos s (expandAll s ns as vs) := by
  induction h generalizing ns with
  | nil F => rw [evalArgs_nil_args]; cases ns <;> rfl
  | @cons F a as v vs he _ ih =>
    cases ns with
    | nil => rw [evalArgs_nil_names]; rfl
    | cons n ns =>
      rw [evalArgs_step ld F env n ns a as pos s s v he, ih ns]
      simp only [expandAll]
      cases hc : contrib s n a v with
      | error e => cases e <;> rfl
      | ok c =>
        obtain ⟨cn, cv⟩ := c
        simp only
        cases hr : expandAll s ns as vs with
        | error e => cases e <;> rfl
        | ok r => obtain ⟨rn, rv⟩ := r; rfl

end
end Ckl.C03S
