import CklVerif.Lemmas.C14EvalTac

/-! C14 (evaluator part) — the non-recursive helpers of `EvalBase` and `Eval` respect similarity -/
namespace Ckl.C14E
open Ckl

theorem asStringM_resp {v v' : RVal} {p p' : Pos} (h : ers v = ers v') : Resp (asStringM v p) (asStringM v' p') := by
  unfold asStringM
  sim_cases h <;> resp <;> (simp only [obs_simp, *]; split <;> resp)

macro_rules | `(tactic| resp_lib) => `(tactic| (apply asStringM_resp; ers_tac))
macro_rules | `(tactic| resp_lib) => `(tactic| (apply getIndex_resp; ers_tac))

theorem argGet_resp {a a' : List (String × RVal)} {n : String} {p p' : Pos} (h : ers a = ers a') :
    Resp (argGet a n p) (argGet a' n p') := by
  unfold argGet
  have h1 : ers (dictGet n a) = ers (dictGet n a') := by ers_tac
  generalize dictGet n a = o at h1
  generalize dictGet n a' = o' at h1
  sim_cases h1 <;> resp

macro_rules | `(tactic| resp_lib) => `(tactic| (apply argGet_resp; ers_tac))


/-- rewrite the observations on both sides to the same term and split on it -/
macro "obs_split" : tactic => `(tactic| (simp only [ers_simp, obs_simp, *]; split <;> resp))

theorem bindNamed_resp (sp : ArgSpec) {p p' : Pos} (ns : List (Option String)) :
    ∀ {vs vs' : List RVal} {a a' : List (String × RVal)}, ers vs = ers vs' → ers a = ers a' →
      Resp (bindNamed sp p ns vs a) (bindNamed sp p' ns vs' a') := by
  induction ns with
  | nil => intro vs vs' a a' hv ha; unfold bindNamed; resp
  | cons n ns ih =>
    intro vs vs' a a' hv ha
    sim_cases hv
    · unfold bindNamed; resp
    · unfold bindNamed
      split
      · resp
        apply ih <;> ers_tac
      · apply ih <;> ers_tac

theorem bindPositional_resp (sp : ArgSpec) {p p' : Pos} (ns : List (Option String)) :
    ∀ {vs vs' : List RVal} (kw : Bool) {a a' : List (String × RVal)} {r r' : List RVal},
      ers vs = ers vs' → ers a = ers a' → ers r = ers r' →
      Resp (bindPositional sp p ns vs kw a r) (bindPositional sp p' ns vs' kw a' r') := by
  induction ns with
  | nil => intro vs vs' kw a a' r r' hv ha hr; unfold bindPositional; resp
  | cons n ns ih =>
    intro vs vs' kw a a' r r' hv ha hr
    sim_cases hv
    · unfold bindPositional; resp
    · unfold bindPositional
      split
      · resp
        simp only [nextPositional, obs_simp, *]
        split
        · resp
          apply ih <;> ers_tac
        · apply ih <;> ers_tac
      · resp
        apply ih <;> ers_tac


theorem setArgs_resp (ps : List String) (ns : List (Option String)) {vs vs' : List RVal} {p p' : Pos}
    (h : ers vs = ers vs') : Resp (setArgs ps ns vs p) (setArgs ps ns vs' p') := by
  unfold setArgs
  resp
  · apply bindNamed_resp <;> ers_tac
  · apply bindPositional_resp <;> ers_tac
  · split <;> resp

macro_rules | `(tactic| resp_lib) => `(tactic| (apply setArgs_resp; ers_tac))

/-! ### helpers of `Eval` -/

def envCount (s : State) : Nat := s.frames.size
def heapCount (s : State) : Nat := s.heap.size

@[obs_simp] theorem newEnv_snd_obs (s : State) (p : EnvId) : (s.newEnv p).2 = V1 envCount (ers s) := by
  simp [V1, envCount, State.newEnv]
@[obs_simp] theorem frames_size_obs (s : State) : s.frames.size = V1 envCount (ers s) := by
  simp [V1, envCount]
@[obs_simp] theorem alloc_snd_obs (s : State) (c : Cell) : (s.alloc c).2 = V1 heapCount (ers s) := by
  simp [V1, heapCount, State.alloc]
@[obs_simp] theorem heap_size_obs (s : State) : s.heap.size = V1 heapCount (ers s) := by
  simp [V1, heapCount]
theorem modstack_obs (s : State) : s.modstack = V1 State.modstack (ers s) := rfl
theorem modules_obs (s : State) : s.modules = V1 State.modules (ers s) := rfl
theorem secure_obs (s : State) : s.secure = V1 State.secure (ers s) := rfl
theorem nextInst_obs (s : State) : s.nextInst = V1 State.nextInst (ers s) := rfl


theorem isModuleObj_ers (s : State) (v : RVal) : isModuleObj (ers s) (ers v) = isModuleObj s v := by
  cases v <;> try rfl
  simp only [isModuleObj, ers_vref, ← cell_ers]
  rcases s.cell _ with _ | c
  · rfl
  · cases c <;> try rfl
    rename_i kvs m
    cases m <;> rfl

@[obs_simp] theorem isModuleObj_obs (s : State) (v : RVal) : isModuleObj s v = V2 isModuleObj (ers s) (ers v) :=
  (isModuleObj_ers s v).symm

theorem fnName_ers (s : State) (v : RVal) : fnName (ers s) (ers v) = fnName s v := by
  cases v <;> try rfl
  simp only [fnName, ers_vclosure, ← cell_ers]
  rcases s.cell _ with _ | c
  · rfl
  · cases c <;> rfl

@[obs_simp] theorem fnName_obs (s : State) (v : RVal) : fnName s v = V2 fnName (ers s) (ers v) :=
  (fnName_ers s v).symm

theorem fnParams_ers (s : State) (v : RVal) : fnParams (ers s) (ers v) = fnParams s v := by
  cases v <;> try rfl
  simp only [fnParams, ers_vclosure, ← cell_ers]
  rcases s.cell _ with _ | c
  · rfl
  · cases c <;> rfl

@[obs_simp] theorem fnParams_obs (s : State) (v : RVal) : fnParams s v = V2 fnParams (ers s) (ers v) :=
  (fnParams_ers s v).symm

@[ers_simp] theorem div0Value_ers (s : State) (e : EnvId) : ers (div0Value s e) = div0Value (ers s) e := by
  simp only [div0Value, ← lookup_ers']
  cases s.lookup e "DIV_0_VALUE" <;> rfl

theorem findOwnerF_ers (s : State) : ∀ (fuel : Nat) (v : RVal) (key : String) (seen : List Nat),
    ers (findOwnerF s fuel v key seen) = findOwnerF (ers s) fuel (ers v) key seen
  | 0, _, _, _ => rfl
  | fuel + 1, v, key, seen => by
    cases v <;> try rfl
    rename_i a
    simp only [findOwnerF, ers_vref, ← cell_ers]
    split
    · rfl
    · rcases s.cell a with _ | c
      · rfl
      · cases c <;> try rfl
        simp only [Option.map_some, ers_cobj, ers_list, dictHas_ers, ← dictGet_ers]
        split
        · rfl
        · rename_i kvs m _
          cases h : dictGet "_proto_" kvs with
          | none => rfl
          | some p => exact findOwnerF_ers s fuel p key (a :: seen)

@[ers_simp] theorem findOwner_ers (s : State) (v : RVal) (key : String) :
    ers (findOwner s v key) = findOwner (ers s) (ers v) key := by
  simp only [findOwner, findOwnerF_ers, heap_size_ers]


/-- joint case analysis of two similar terms -/
macro "sim_on " t:term:max t':term:max : tactic => `(tactic| (
  have hsim : ers $t = ers $t' := by ers_tac
  first
  | (simp only [ers_id] at hsim; rw [hsim]; split)
  | (generalize $t = x at hsim ⊢
     generalize $t' = x' at hsim ⊢
     sim_cases5 hsim)))

open Lean Elab Tactic Meta in
/-- goal `Resp (match d with …) (match d' with …)`: joint case analysis of the first pair of
    discriminants that differ -/
elab "sim_match" : tactic => withMainContext do
  let g := (← instantiateMVars (← getMainTarget)).cleanupAnnotations
  let args := g.getAppArgs.map Expr.cleanupAnnotations
  unless g.isAppOf ``Resp && args.size == 4 do throwError "sim_match: not a Resp goal"
  let some mL ← matchMatcherApp? args[2]! | throwError "sim_match: lhs is not a match {args[2]!.getAppFn} {args[2]!.getAppNumArgs}"
  let some mR ← matchMatcherApp? args[3]! | throwError "sim_match: rhs is not a match"
  for (d, d') in mL.discrs.zip mR.discrs do
    if d != d' && !((← isConstructorApp d) && (← isConstructorApp d')) then
      let stx ← Term.exprToSyntax d
      let stx' ← Term.exprToSyntax d'
      evalTactic (← `(tactic| sim_on $stx $stx'))
      return
  throwError "sim_match: the discriminants agree"

theorem destructure_resp {v v' : RVal} (n : Nat) {p p' : Pos} (h : ers v = ers v') :
    Resp (destructure v n p) (destructure v' n p') := by
  unfold destructure
  resp
  rename_i c c' hc
  sim_cases hc <;> resp
  sim_match <;> resp

macro_rules | `(tactic| resp_lib) => `(tactic| (apply destructure_resp; ers_tac))

@[ers_simp] theorem foldl_put_ers (env : EnvId) (l : List (String × RVal)) : ∀ s : State,
    ers (l.foldl (fun s p => s.put env p.1 p.2) s) = (ers l).foldl (fun s p => s.put env p.1 p.2) (ers s) := by
  induction l with
  | nil => intro s; rfl
  | cons x l ih => intro s; simp only [List.foldl_cons, ih, put_ers, ers_cons, ers_fst, ers_snd, ers_string]

@[ers_simp] theorem ers_zip_ids (ids : List String) (vs : List RVal) : ers (ids.zip vs) = ids.zip (ers vs) := by
  induction ids generalizing vs with
  | nil => rfl
  | cons i ids ih =>
    cases vs with
    | nil => rfl
    | cons v vs => simp only [List.zip_cons_cons, ers_cons, ih, ers_pair, ers_string]

theorem bindLoopVars_resp (env : EnvId) (ids : List String) {v v' : RVal} {p p' : Pos} (h : ers v = ers v') :
    Resp (bindLoopVars env ids v p) (bindLoopVars env ids v' p') := by
  unfold bindLoopVars
  split
  · resp
  · resp

macro_rules | `(tactic| resp_lib) => `(tactic| (apply bindLoopVars_resp; ers_tac))

@[ers_simp] theorem foldl_remove_ers (env : EnvId) (l : List String) : ∀ s : State,
    ers (l.foldl (fun s x => s.remove env x) s) = l.foldl (fun s x => s.remove env x) (ers s) := by
  induction l with
  | nil => intro s; rfl
  | cons x l ih => intro s; simp only [List.foldl_cons, ih, remove_ers]

theorem removeVars_resp (env : EnvId) (ids : List String) : Resp (removeVars env ids) (removeVars env ids) := by
  unfold removeVars
  apply Resp.modifyS
  intro s s' hs
  rw [foldl_remove_ers, foldl_remove_ers, hs]

macro_rules | `(tactic| resp_lib) => `(tactic| exact removeVars_resp _ _)

theorem spreadValues_resp {v v' : RVal} {p p' : Pos} (h : ers v = ers v') :
    Resp (spreadValues v p) (spreadValues v' p') := by
  unfold spreadValues
  resp
  rename_i s s' hs c c' hc
  sim_cases hc <;> resp
  · sim_match <;> resp
  · sim_match <;> resp

macro_rules | `(tactic| resp_lib) => `(tactic| (apply spreadValues_resp; ers_tac))


theorem Resp.jp {α β γ : Type} [Ers α] [Ers β] [Ers γ] (jp jp' : γ → EvalM α)
    (body body' : (γ → EvalM α) → EvalM β)
    (hj : ∀ x x', ers x = ers x' → Resp (jp x) (jp' x'))
    (hb : ∀ j j', (∀ x x', ers x = ers x' → Resp (j x) (j' x')) → Resp (body j) (body' j')) :
    Resp (body jp) (body' jp') := hb jp jp' hj

open Lean Elab Tactic Meta in
/-- goal `Resp (have jp := v; b) (have jp := v'; b')` (join points of the `do` notation): prove the
    join points similar once, then continue with opaque join points -/
elab "resp_jp" : tactic => withMainContext do
  let g := (← instantiateMVars (← getMainTarget)).cleanupAnnotations
  let args := g.getAppArgs.map Expr.cleanupAnnotations
  unless g.isAppOf ``Resp && args.size == 4 do throwError "resp_jp: not a Resp goal"
  match args[2]!, args[3]! with
  | .letE n t v b _, .letE n' t' v' b' _ =>
    let sv ← Term.exprToSyntax v
    let sv' ← Term.exprToSyntax v'
    let sb ← Term.exprToSyntax (Expr.lam n t b .default)
    let sb' ← Term.exprToSyntax (Expr.lam n' t' b' .default)
    evalTactic (← `(tactic| refine Resp.jp $sv $sv' $sb $sb' ?_ ?_))
  | _, _ => throwError "resp_jp: no join point"

open Lean Elab Tactic Meta in
/-- use a hypothesis `C x = C y` (constructor applications on both sides) left behind by `split` -/
elab "inj_heq" : tactic => withMainContext do
  for d in ← getLCtx do
    if d.isImplementationDetail then continue
    let t := (← instantiateMVars d.type).cleanupAnnotations
    if let some (_, l, r) := t.eq? then
      if (← isConstructorApp l) && (← isConstructorApp r) then
        let h := mkIdent d.userName
        let stx ← Term.exprToSyntax d.toExpr
        evalTactic (← `(tactic| cases $stx:term))
        return
  throwError "inj_heq: nothing to do"

open Lean Elab Tactic Meta in
/-- decompose a hypothesis `ers (C x) = ers (C' y)` between constructor applications -/
elab "ers_inj" : tactic => withMainContext do
  for d in ← getLCtx do
    if d.isImplementationDetail then continue
    let t := (← instantiateMVars d.type).cleanupAnnotations
    if let some (_, l, r) := t.eq? then
      if l.isAppOfArity ``Ers.ers 3 && r.isAppOfArity ``Ers.ers 3 then
        let l' := l.appArg!
        let r' := r.appArg!
        if (← isConstructorApp l') && (← isConstructorApp r') then
          let stx ← Term.exprToSyntax d.toExpr
          evalTactic (← `(tactic| (
            have hinj := $stx
            clear $stx
            simp only [ers_some, ers_none, ers_clist, ers_cset, ers_cmap, ers_cobj, ers_cclosure, ers_pair, ers_cons,
              ers_nil, ers_vnull, ers_vbool, ers_vint, ers_vdec, ers_vstr, ers_vpat, ers_vdate, ers_vref,
              ers_vclosure, ers_vnative, ers_vnode, ers_vbrk, ers_vcont, ers_vret, ers_string,
              Option.some.injEq, Cell.list.injEq, Cell.set.injEq, Cell.map.injEq, Cell.obj.injEq,
              Cell.closure.injEq, Prod.mk.injEq, List.cons.injEq, RVal.bool.injEq, RVal.int.injEq, RVal.dec.injEq,
              RVal.str.injEq, RVal.pat.injEq, RVal.date.injEq, RVal.ref.injEq, RVal.closure.injEq,
              RVal.native.injEq, RVal.node.injEq, RVal.ret.injEq, and_true, true_and, reduceCtorEq] at hinj
            try (obtain ⟨_, _⟩ := hinj))))
          return
        if ((← isConstructorApp l') && r'.isFVar) || ((← isConstructorApp r') && l'.isFVar) then
          if (← whnfR (← instantiateMVars (← inferType l'))).isConstOf ``RVal then
            let fv ← Term.exprToSyntax (if r'.isFVar then r' else l')
            let stx ← Term.exprToSyntax d.toExpr
            evalTactic (← `(tactic| (
              have hinj := $stx
              clear $stx
              cases $fv:term <;>
                simp only [ers_vnull, ers_vbool, ers_vint, ers_vdec, ers_vstr, ers_vpat, ers_vdate, ers_vref,
                  ers_vclosure, ers_vnative, ers_vnode, ers_vbrk, ers_vcont, ers_vret,
                  RVal.bool.injEq, RVal.int.injEq, RVal.dec.injEq,
                  RVal.str.injEq, RVal.pat.injEq, RVal.date.injEq, RVal.ref.injEq, RVal.closure.injEq,
                  RVal.native.injEq, RVal.node.injEq, RVal.ret.injEq, RVal.brk.injEq, RVal.cont.injEq,
                  and_true, true_and, reduceCtorEq] at hinj <;>
                (try subst hinj) <;>
                (try (obtain ⟨h1, h2⟩ := hinj; (try subst h1); (try subst h2))))))
            return
  throwError "ers_inj: nothing to do"

open Lean Elab Tactic Meta in
/-- close the goal with a hypothesis `∀ x…, a = b → … → False` whose premises hold by `rfl` -/
elab "contra_hyp" : tactic => withMainContext do
  for d in (← getLCtx).decls.toList.reverse.filterMap id do
    if d.isImplementationDetail then continue
    let t ← instantiateMVars d.type
    let isNeg ← forallTelescopeReducing t fun _ b => pure (b.isConstOf ``False)
    if isNeg && t.isForall then
      let stx ← Term.exprToSyntax d.toExpr
      let saved ← saveState
      try
        evalTactic (← `(tactic| (exfalso; apply $stx <;> rfl)))
        return
      catch _ => saved.restore
  throwError "contra_hyp: nothing applies"

macro "resp_step!" : tactic => `(tactic| first
  | (resp_jp <;> intro _ _ _)
  | resp_step
  | (apply_assumption <;> ers_tac)
  | inj_heq
  | ers_inj
  | contra_hyp
  | sim_match
  | ((simp only [ers_simp, obs_simp, *]; split) <;> try contra_hyp)
  | (split <;> try contra_hyp)
  | (simp only [ers_simp, obs_simp, *] <;> apply_assumption <;> ers_tac)
  | dsimp only)
/-- `resp`, with automatic case analysis of matches -/
macro "resp!" : tactic => `(tactic| repeat' resp_step!)

theorem Resp.mapM {γ δ : Type} [Ers γ] [Ers δ] {f f' : γ → EvalM δ}
    (hf : ∀ a a', ers a = ers a' → Resp (f a) (f' a')) :
    ∀ {l l' : List γ}, ers l = ers l' → Resp (l.mapM f) (l'.mapM f') := by
  intro l
  induction l with
  | nil =>
    intro l' h
    cases l' with
    | nil => rw [List.mapM_nil]; resp
    | cons => simp only [ers_nil, ers_cons, reduceCtorEq] at h
  | cons x l ih =>
    intro l' h
    cases l' with
    | nil => simp only [ers_nil, ers_cons, reduceCtorEq] at h
    | cons x' l' =>
      simp only [ers_cons, List.cons.injEq] at h
      rw [List.mapM_cons, List.mapM_cons]
      resp
      · apply hf; exact h.1
      · apply ih; exact h.2

macro_rules | `(tactic| resp_lib) => `(tactic| (apply Resp.mapM; rotate_left; ers_tac))

theorem collectionValues_resp {v v' : RVal} (w : Option String) {p p' : Pos} (h : ers v = ers v') :
    Resp (collectionValues v w p) (collectionValues v' w p') := by
  unfold collectionValues
  resp
  rename_i s s' hs
  sim_cases h <;> resp
  rename_i c c' hc
  sim_cases hc <;> resp
  all_goals try (sim_match <;> resp)
  all_goals first
    | (apply Resp.mapM _ (by ers_tac); resp)
    | (apply Resp.pure
       simp only [ers_map, ers_vstr]
       exact map_fst_congr (by assumption) (fun k => RVal.str k.toList))

macro_rules | `(tactic| resp_lib) => `(tactic| (apply collectionValues_resp; ers_tac))


theorem renameClosure_resp {v v' : RVal} (n : String) (h : ers v = ers v') :
    Resp (renameClosure v n) (renameClosure v' n) := by
  unfold renameClosure
  sim_cases h <;> resp
  sim_match <;> resp

macro_rules | `(tactic| resp_lib) => `(tactic| (apply renameClosure_resp; ers_tac))

theorem assignAll_resp (env : EnvId) (xs : List String) {p p' : Pos} :
    ∀ {items items' : List RVal} (i : Nat) {last last' : RVal}, ers items = ers items' → ers last = ers last' →
      Resp (assignAll env xs items i last p) (assignAll env xs items' i last' p') := by
  induction xs with
  | nil => intro items items' i last last' h1 h2; unfold assignAll; resp
  | cons x xs ih =>
    intro items items' i last last' h1 h2
    unfold assignAll
    resp
    sim_match <;> resp
    all_goals (apply ih <;> ers_tac)

macro_rules | `(tactic| resp_lib) => `(tactic| (apply assignAll_resp <;> ers_tac))

theorem defAll_resp (env : EnvId) (xs : List String) :
    ∀ {items items' : List RVal} (i : Nat) {last last' : RVal}, ers items = ers items' → ers last = ers last' →
      Resp (defAll env xs items i last) (defAll env xs items' i last') := by
  induction xs with
  | nil => intro items items' i last last' h1 h2; unfold defAll; resp
  | cons x xs ih =>
    intro items items' i last last' h1 h2
    unfold defAll
    resp
    all_goals (apply ih <;> ers_tac)

macro_rules | `(tactic| resp_lib) => `(tactic| (apply defAll_resp <;> ers_tac))

@[ers_simp] theorem foldl_setAdd_ers (s : State) (l : List RVal) : ∀ acc : List RVal,
    ers (l.foldl (fun acc x => setAdd s x acc) acc) = (ers l).foldl (fun acc x => setAdd (ers s) x acc) (ers acc) := by
  induction l with
  | nil => intro acc; rfl
  | cons x l ih => intro acc; simp only [List.foldl_cons, ih, setAdd_ers', ers_cons]

theorem addSet_resp {l l' : List RVal} (h : ers l = ers l') : Resp (addSet l) (addSet l') := by
  unfold addSet
  resp

macro_rules | `(tactic| resp_lib) => `(tactic| (apply addSet_resp; ers_tac))

@[ers_simp] theorem foldl_mapPut_ers (s : State) (l : List (RVal × RVal)) : ∀ acc : List (RVal × RVal),
    ers (l.foldl (fun acc kv => mapPut s kv.1 kv.2 acc) acc) =
      (ers l).foldl (fun acc kv => mapPut (ers s) kv.1 kv.2 acc) (ers acc) := by
  induction l with
  | nil => intro acc; rfl
  | cons x l ih => intro acc; simp only [List.foldl_cons, ih, mapPut_ers', ers_cons, ers_fst, ers_snd]

@[ers_simp] theorem foldl_dictPut_ers (l : List (String × RVal)) : ∀ acc : List (String × RVal),
    ers (l.foldl (fun acc kv => dictPut kv.1 kv.2 acc) acc) =
      (ers l).foldl (fun acc kv => dictPut kv.1 kv.2 acc) (ers acc) := by
  induction l with
  | nil => intro acc; rfl
  | cons x l ih => intro acc; simp only [List.foldl_cons, ih, dictPut_ers', ers_cons, ers_fst, ers_snd, ers_string]

theorem comprResult_resp (k : ComprKind) {l l' : List (RVal × RVal)} (h : ers l = ers l') :
    Resp (comprResult k l) (comprResult k l') := by
  unfold comprResult
  cases k <;> resp

macro_rules | `(tactic| resp_lib) => `(tactic| (apply comprResult_resp; ers_tac))

end Ckl.C14E
