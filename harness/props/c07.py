"""C07 Comparison is a total order per kind and sorting agrees with it."""
import itertools
from fractions import Fraction

from harness import core, proto, genvalues as G
from harness.props import common
from harness.props.c06 import ref_eq


def ref_lt(a, b):
    """the specification: numeric order, code-point lexicographic strings, FALSE<TRUE,
    chronological dates, element-wise lexicographic lists"""
    ta, tb = a[0], b[0]
    num = ('i', 'd')
    if ta in num and tb in num:
        return Fraction(a[1]) < Fraction(b[1])
    assert ta == tb, (a, b)
    if ta == 'b':
        return (not a[1]) and b[1]
    if ta in ('s', 'p'):
        return [ord(c) for c in a[1]] < [ord(c) for c in b[1]]
    if ta == 'dt':
        return a[1] < b[1]
    if ta == 'l':
        for x, y in zip(a[1], b[1]):
            if not ref_eq(x, y):
                return ref_lt(x, y)
        return len(a[1]) < len(b[1])
    raise ValueError(a)


def same_kind(a, b):
    num = ('i', 'd')
    if a[0] in num and b[0] in num:
        return True
    if a[0] != b[0]:
        return False
    if a[0] == 'l':
        return all(same_kind(x, y) for x, y in zip(a[1], b[1]))
    return a[0] in ('b', 's', 'p', 'dt')


def run(ctx):
    from ckl import values as V
    rng = ctx.rng
    pools = G.same_kind_pool(rng, 60 if ctx.thorough else 25)
    ctx.rule = ("all ordered pairs (and triples through the pairs) of same-kind values per kind: ints+decimals mixed incl. "
                "beyond 2^53, strings over an alphabet with characters below and above the quote, booleans, dates, patterns, "
                "lists of these; all lists of length <= 5 (thorough 7) over 3 keys with tags for sorted with/without key/cmp; "
                "non-trivial = the values of a pair are not identical")
    # mixed int / decimal pairs around the points where converting an int to a decimal starts to round
    import math
    nb = []
    for k in ((53, 54, 63, 64, 100) if not ctx.thorough else (52, 53, 54, 55, 60, 63, 64, 65, 70, 100, 200)):
        base = 2 ** k
        for sign in (1, -1):
            nb += [('i', sign * (base + d)) for d in (-3, -2, -1, 0, 1, 2, 3)]
            f = float(base)
            nb += [('d', sign * f), ('d', sign * math.nextafter(f, math.inf)), ('d', sign * math.nextafter(f, 0.0))]
    pools["num-boundary"] = nb
    it, _ = common.fresh_interpreter(True, False)
    env = it.environment
    reqs, meta = [], []
    for kind, pool in pools.items():
        if kind == "num" and not ctx.thorough:
            pool = pool[:40]
        ck = [proto.to_ckl(v) for v in pool]
        N = len(pool)
        lt = [[None] * N for _ in range(N)]
        for i in range(N):
            for j in range(N):
                a, b = pool[i], pool[j]
                if not same_kind(a, b):
                    continue
                A, B = ck[i], ck[j]
                with core.time_limit(5):
                    l, g, le, ge, e = bool(A < B), bool(A > B), bool(A <= B), bool(A >= B), bool(A == B)
                lt[i][j] = l
                ctx.seen((kind, proto.canon(a), proto.canon(b)), nontrivial=a != b)
                ctx.count("pairs_" + kind)
                wl, we = ref_lt(a, b), ref_eq(a, b)
                wg = ref_lt(b, a)
                rp = {"op": "cmp", "a": proto.to_sx(a), "b": proto.to_sx(b)}
                if (l, e, g) != (wl, we, wg):
                    ctx.violation("oracle", f"{proto.show(a)} vs {proto.show(b)}: (<, ==, >) = {(l, e, g)}, the order of the kind gives {(wl, we, wg)}", rp)
                elif [l, e, g].count(True) != 1:
                    ctx.violation("oracle", f"trichotomy fails for {proto.show(a)} vs {proto.show(b)}: {(l, e, g)}", rp)
                if le != (l or e) or ge != (g or e):
                    ctx.violation("oracle", f"<= / >= inconsistent with < for {proto.show(a)} vs {proto.show(b)}", rp)
                reqs.append(f"(lt {proto.to_sx(a)} {proto.to_sx(b)})")
                meta.append(("lt", a, b, l))
                reqs.append(f"(cmp {proto.to_sx(a)} {proto.to_sx(b)})")
                meta.append(("cmp", a, b, (-1 if l else (1 if g else 0), le, g, ge)))
        # transitivity, directly on the implementation's answers
        for i in range(N):
            for j in range(N):
                if lt[i][j]:
                    for k in range(N):
                        if lt[j][k] and lt[i][k] is False:
                            ctx.violation("oracle", f"transitivity: {proto.show(pool[i])} < {proto.show(pool[j])} < {proto.show(pool[k])} but not first < third",
                                          {"op": "lt-trans", "a": proto.to_sx(pool[i]), "b": proto.to_sx(pool[j]), "c": proto.to_sx(pool[k])})
        # compare / min / max / operators through interpreted programs
        sample = [(rng.randrange(N), rng.randrange(N)) for _ in range(120 if ctx.thorough else 40)]
        for i, j in sample:
            a, b = pool[i], pool[j]
            if not same_kind(a, b):
                continue
            env.put("a", ck[i])
            env.put("b", ck[j])
            wl, wg = ref_lt(a, b), ref_lt(b, a)
            want = {"a < b": wl, "a > b": wg, "a <= b": not wg, "a >= b": not wl,
                    "compare(a, b) < 0": wl, "compare(a, b) > 0": wg, "compare(a, b) == 0": not wl and not wg}
            for src, w in want.items():
                out = common.run_program(it, src)
                ctx.count("programs")
                if out[:2] != ('val', "TRUE" if w else "FALSE"):
                    ctx.violation("oracle", f"`{src}` with a={proto.show(a)}, b={proto.show(b)} gives {out[:2]}, expected {w}",
                                  {"op": "program", "src": src, "a": proto.to_sx(a), "b": proto.to_sx(b)})
        # compare agrees with <, ==, > on EVERY pair of the numeric boundary values (ints around 2^53 and 2^63 against the decimals next to them)
        if all(p_[0] in ('i', 'd') for p_ in pool):
            edge = [k for k, p_ in enumerate(pool) if abs(p_[1]) >= 2 ** 52 or p_[1] in (0, 1, -1, 0.5, 1.5)][:14]
            for i in edge:
                for j in edge:
                    env.put("a", ck[i])
                    env.put("b", ck[j])
                    wl, wg = ref_lt(pool[i], pool[j]), ref_lt(pool[j], pool[i])
                    want_c = -1 if wl else (1 if wg else 0)
                    out = common.run_program(it, "[compare(a, b), a < b, a == b, a > b]")
                    ctx.count("programs")
                    want_txt = f"[{want_c}, {'TRUE' if wl else 'FALSE'}, {'TRUE' if not wl and not wg else 'FALSE'}, {'TRUE' if wg else 'FALSE'}]"
                    if out[:2] != ('val', want_txt):
                        ctx.violation("oracle", f"`[compare(a, b), a < b, a == b, a > b]` with a={proto.show(pool[i])}, b={proto.show(pool[j])} gives {out[:2]}, the order gives {want_txt}",
                                      {"op": "program", "src": "[compare(a, b), a < b, a == b, a > b]", "a": proto.to_sx(pool[i]), "b": proto.to_sx(pool[j])})
        # min / max of lists: an extremal element, the first such
        for _ in range(60 if ctx.thorough else 20):
            idxs = [rng.randrange(N) for _ in range(rng.randint(1, 6))]
            items = [pool[i] for i in idxs]
            if not all(same_kind(x, y) for x in items for y in items):
                continue
            lst = V.ValueList()
            for i in idxs:
                lst.addItem(ck[i])
            env.put("l", lst)
            for fn in ("min", "max"):
                out = common.run_program(it, f"{fn}(l)")
                ctx.count("programs")
                if out[0] != 'val':
                    ctx.violation("oracle", f"{fn}({[proto.show(x) for x in items]}) failed: {out[:3]}", {"op": fn, "items": [proto.to_sx(x) for x in items]})
                    continue
                res = out[2]
                pos = [k for k, i in enumerate(idxs) if ck[i] is res]
                best = items[0]
                bi = 0
                for k, x in enumerate(items):
                    if (ref_lt(x, best) if fn == "min" else ref_lt(best, x)):
                        best, bi = x, k
                if not pos or pos[0] != bi:
                    ctx.violation("oracle", f"{fn}({[proto.show(x) for x in items]}) returned {out[1]}, expected the first extremal element {proto.show(best)}",
                                  {"op": fn, "items": [proto.to_sx(x) for x in items]})
            reqs.append(f"(minmax {proto.to_sx(('l', tuple(items)))})")
            meta.append(("minmax", items, None, None))
        # sets and map keys enumerate in this order
        for _ in range(60 if ctx.thorough else 20):
            idxs = [rng.randrange(N) for _ in range(rng.randint(0, 6))]
            items = [pool[i] for i in idxs]
            if not all(same_kind(x, y) for x in items for y in items):
                continue
            s = V.ValueSet()
            m = V.ValueMap()
            for i in idxs:
                s.addItem(ck[i])
                m.addItem(ck[i], V.NULL)
            got = [proto.from_ckl(x) for x in s.getSortedItems()]
            gotk = [proto.from_ckl(x) for x in m.getSortedKeys()]
            ctx.count("enumerations")
            for seq, nm in ((got, "set"), (gotk, "map keys")):
                for x, y in zip(seq, seq[1:]):
                    if not ref_lt(x, y):
                        ctx.violation("oracle", f"{nm} enumeration not ascending: {[proto.show(z) for z in seq]}",
                                      {"op": "enum", "items": [proto.to_sx(x) for x in items]})
                        break
            reqs.append(f"(canon {proto.to_sx(('S', tuple(items)))})")
            meta.append(("setenum", items, None, [proto.enum_form(x) for x in got]))
            # ... in every syntactic form that enumerates a set or the keys of a map
            env.put("s", s)
            env.put("m", m)
            want_txt = str(proto.to_ckl(('l', tuple(got))))
            for src in ("def r = []; for x in s do append(r, x) end; r", "[x for x in s]", "list(s)", "[...s]", "def [e0, e1, e2, e3, e4, e5] = s; [e0, e1, e2, e3, e4, e5][0 to length(s)]",
                        "def r = []; for k in keys m do append(r, k) end; r", "[k for k in keys m]", "[...m]", "[e[0] for e in entries m]",
                        "def r = []; for e in entries m do append(r, e[0]) end; r", "sorted(list(s))", "sorted([...m])"):
                out = common.run_program(it, src)
                ctx.count("enumeration_programs")
                if out[:2] != ('val', want_txt):
                    ctx.violation("oracle", f"`{src}` over the set / map keys {[proto.show(z) for z in items]} gives {out[:2]}, the ascending enumeration is {want_txt}",
                                  {"op": "enum-program", "src": src, "items": [proto.to_sx(x) for x in items]})
    # ---- the enumeration follows the order after EVERY kind of change to the same set / map, through every pair of enumeration forms
    # (enumerate - change - enumerate again): a key added by put / index assignment / compound assignment, a key removed, at the front,
    # in the middle and at the end of the order
    def lst(xs):
        return "[" + ", ".join(repr(x) if isinstance(x, str) else str(x) for x in xs) + "]"
    for keys0, news in ((["b", "d"], ["a", "c", "e"]), ([20, 40], [10, 30, 50])):
        lit = lambda k: repr(k) if isinstance(k, str) else str(k)   # noqa
        m_enum = ["[k for k in keys m]", "def r_ = []; for k in keys m do append(r_, k) end; r_", "[...m]", "[e[0] for e in entries m]",
                  "def r_ = []; for e in entries m do append(r_, e[0]) end; r_", "sorted([...m])"]
        s_enum = ["[x for x in s]", "def r_ = []; for x in s do append(r_, x) end; r_", "list(s)", "[...s]", "[x for x in <<y for y in s>>]"]
        for k in news:
            for e1, e2 in itertools.product(range(len(m_enum)), repeat=2):
                for change, after in ((f"put(m, {lit(k)}, 0)", sorted(keys0 + [k])), (f"m[{lit(k)}] = 0", sorted(keys0 + [k])),
                                      (f"m[{lit(keys0[0])}] += 1; m[{lit(k)}] = 7", sorted(keys0 + [k])), (f"m[{lit(k)}] = 0; remove(m, {lit(keys0[1])})", sorted([keys0[0], k])),
                                      (f"remove(m, {lit(keys0[0])})", [keys0[1]])):
                    src = (f"def m = <<<{lit(keys0[1])} => 2, {lit(keys0[0])} => 1>>>; def b_ = do {m_enum[e1]} end; {change}; def a_ = do {m_enum[e2]} end; [b_, a_]")
                    want = "[" + lst(sorted(keys0)) + ", " + lst(after) + "]"
                    out = common.run_program(it, src)
                    ctx.count("enumerate_change_enumerate")
                    if out[:2] != ('val', want):
                        ctx.violation("oracle", f"`{src}` gives {out[:2]}, the ascending enumerations are {want}", {"op": "enum-program", "src": src, "items": []})
            for e1, e2 in itertools.product(range(len(s_enum)), repeat=2):
                for change, after in ((f"append(s, {lit(k)})", sorted(keys0 + [k])), (f"s += {lit(k)}", sorted(keys0 + [k])),
                                      (f"append(s, {lit(k)}); remove(s, {lit(keys0[1])})", sorted([keys0[0], k])), (f"remove(s, {lit(keys0[0])})", [keys0[1]])):
                    src = (f"def s = <<{lit(keys0[1])}, {lit(keys0[0])}>>; def b_ = do {s_enum[e1]} end; {change}; def a_ = do {s_enum[e2]} end; [b_, a_]")
                    want = "[" + lst(sorted(keys0)) + ", " + lst(after) + "]"
                    out = common.run_program(it, src)
                    ctx.count("enumerate_change_enumerate")
                    if out[:2] != ('val', want):
                        ctx.violation("oracle", f"`{src}` gives {out[:2]}, the ascending enumerations are {want}", {"op": "enum-program", "src": src, "items": []})
    # ---- sorted: permutation, ordered, stable — exhaustive small lists with duplicate keys
    keys = [('i', 1), ('d', 1.0), ('i', 2), ('d', 0.5)]
    maxlen = 7 if ctx.thorough else 5
    nkeys = 3
    lists = []
    for n in range(0, maxlen + 1):
        for combo in itertools.product(range(nkeys), repeat=n):
            lists.append(combo)
    if not ctx.thorough:
        ctx.exhaustive = False
    for combo in lists:
        # keys 1 and 1.0 are equal: duplicates by value with distinguishable representatives; tags make stability visible
        items = [('l', (keys[k], ('i', t))) for t, k in enumerate(combo)]
        lst = proto.to_ckl(('l', tuple(items)))
        env.put("l", lst)
        want = sorted(items, key=lambda x: Fraction(x[1][0][1]))
        ctx.seen(("sorted", combo), nontrivial=len(combo) >= 2)
        want_desc = sorted(items, key=lambda x: -Fraction(x[1][0][1]))       # stable, descending by key
        for src in ("sorted(l, key = fn(x) x[0])", "sorted(l, cmp = fn(x, y) compare(x[0], y[0]))",
                    # key AND cmp together (positional and named, the built-in compare and user-defined ones, early returns in the callbacks)
                    "sorted(l, compare, fn(x) x[0])", "sorted(l, cmp = fn(a, b) compare(a, b), key = fn(x) x[0])",
                    "sorted(l, key = fn(x) do if x[0] > 1 then return x[0]; x[0] end)",
                    "sorted(l, cmp = fn(x, y) do if x[0] < y[0] then return -1; if x[0] > y[0] then return 1; 0 end)",
                    "DESC sorted(l, cmp = fn(a, b) compare(b, a), key = fn(x) x[0])", "DESC sorted(l, fn(a, b) 0 - compare(a, b), fn(x) x[0])",
                    "DESC sorted(l, cmp = fn(x, y) compare(y[0], x[0]))", "DESC sorted(l, key = fn(x) 0 - x[0])"):
            want_here = want
            if src.startswith("DESC "):
                src, want_here = src[5:], want_desc
            out = common.run_program(it, src)
            ctx.count("sorted_programs")
            got = proto.from_ckl(out[2])[1] if out[0] == 'val' else None
            if got is None or [proto.enum_form(x) for x in got] != [proto.enum_form(x) for x in want_here]:
                ctx.violation("oracle", f"`{src}` on {proto.show(('l', tuple(items)))} gives {out[1] if len(out) > 1 else out}, expected the stable sort {proto.show(('l', tuple(want_here)))}",
                              {"op": "sorted", "src": src, "l": proto.to_sx(('l', tuple(items)))})
                continue
            if False:
                ctx.violation("oracle", f"`{src}` on {proto.show(('l', tuple(items)))} gives {out[1] if len(out) > 1 else out}, expected the stable sort {proto.show(('l', tuple(want)))}",
                              {"op": "sorted", "src": src, "l": proto.to_sx(('l', tuple(items)))})
        if list(proto.from_ckl(env.get("l"))[1]) != items:
            ctx.violation("oracle", "sorted changed its argument", {"op": "sorted-arg", "l": proto.to_sx(('l', tuple(items)))})
        reqs.append(f"(sortedk {proto.to_sx(('l', tuple(items)))})")
        meta.append(("sortedk", items, None, [proto.enum_form(x) for x in want]))
        plain = [keys[k] for k in combo]
        env.put("l", proto.to_ckl(('l', tuple(plain))))
        out = common.run_program(it, "sorted(l)")
        got = proto.from_ckl(out[2])[1] if out[0] == 'val' else None
        wantp = sorted(plain, key=lambda x: Fraction(x[1]))
        if got is None or [proto.enum_form(x) for x in got] != [proto.enum_form(x) for x in wantp]:
            ctx.violation("oracle", f"sorted({proto.show(('l', tuple(plain)))}) gives {out[1] if len(out) > 1 else out}",
                          {"op": "sorted", "src": "sorted(l)", "l": proto.to_sx(('l', tuple(plain)))})
        reqs.append(f"(sorted {proto.to_sx(('l', tuple(plain)))})")
        meta.append(("sorted", plain, None, [proto.enum_form(x) for x in wantp]))
    # ---- sorted with a key on lists holding EQUAL but distinguishable numbers (1 and 1.0): the key is applied to each element itself
    # (stable sort by the key's own order), whatever equal twin came before it
    nums = [('i', 1), ('d', 1.0), ('i', 2), ('d', 2.0), ('d', 0.5), ('i', 0)]
    for n_ in range(2, 5):
        for combo in itertools.product(range(len(nums)), repeat=n_):
            if len(set(combo)) < 2 or (not ctx.thorough and rng.random() < 0.8):
                continue
            items = [nums[k] for k in combo]
            env.put("l", proto.to_ckl(('l', tuple(items))))
            for src, keyf in (("sorted(l, key = fn(x) string(x))", lambda x: proto.show(x) if False else (str(x[1]) if x[0] == 'i' else repr(float(x[1])))),
                              ("sorted(l, key = fn(x) type(x))", lambda x: "int" if x[0] == 'i' else "decimal"),
                              ("sorted(l, key = fn(x) [type(x), x])", lambda x: ("int" if x[0] == 'i' else "decimal", Fraction(x[1])))):
                want = sorted(items, key=keyf)
                out = common.run_program(it, src)
                ctx.count("sorted_programs")
                got = proto.from_ckl(out[2])[1] if out[0] == 'val' else None
                if got is None or [proto.enum_form(x) for x in got] != [proto.enum_form(x) for x in want]:
                    ctx.violation("oracle", f"`{src}` on {proto.show(('l', tuple(items)))} gives {out[1] if len(out) > 1 else out}, expected the stable sort by key {proto.show(('l', tuple(want)))}",
                                  {"op": "sorted", "src": src, "l": proto.to_sx(('l', tuple(items)))})
    ctx.exhaustive = False
    # ---- correspondence with the model
    if ctx.build.ok:
        resp = core.run_driver(reqs)
        for r, (op, a, b, impl) in zip(resp, meta):
            x = proto.parse_sx(r)
            if x[0] != "ok":
                raise RuntimeError(f"driver answered {r} to {op}")
            ctx.count("model_" + op)
            if op == "lt":
                model = x[1] == "1"
                ok = model == impl
            elif op == "cmp":
                model = (int(x[1][0]), x[1][1] == "1", x[1][2] == "1", x[1][3] == "1")
                ok = model == impl
            elif op in ("sorted", "sortedk"):
                model = [proto.enum_form(v) for v in proto.from_sx(x[1])[1]]
                ok = model == impl
            elif op == "setenum":
                model = [proto.enum_form(v) for v in proto.from_sx(x[1])[1]]
                ok = model == impl
            else:
                continue
            if not ok:
                ctx.disagreements += 1
                ctx.violation("correspondence", f"model {op} = {model}, implementation = {impl}",
                              {"op": op, "a": a if isinstance(a, list) else proto.to_sx(a), "b": proto.to_sx(b) if b else None,
                               "model": str(model), "impl": str(impl), "correspondence": f"Ckl.{op} vs implementation"})
    ctx.sample({"pair": ["'a'", "'a b'"], "lt": True})
    ctx.sample({"sorted_with_key": "[[1, 0], [1.0, 1], [2, 2], [1, 3]] keeps 0,1,3 order among equal keys"})
    common.replay_known(ctx)


def replay(ctx, payload):
    return common.generic_replay(ctx, payload)
