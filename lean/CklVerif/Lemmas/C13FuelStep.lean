import CklVerif.Lemmas.C13FuelBase

/-!
  C13Fuel: the induction step.  `FMAll ld fuel` says that each of the 30 functions of the evaluator
  at fuel `fuel` is below (`FLe`) the same call at fuel `fuel + 1`; every function at `fuel + 1`
  inherits it.  GENERATED skeleton (one lemma per function), the proofs are the tactic `fmono`.
-/
namespace Ckl
variable (ld : Loader)

structure FMAll (fuel : Nat) : Prop where
  eval : ∀ env n, FLe (eval ld fuel env n) (eval ld (fuel+1) env n)
  evalAnd : ∀ env es pos, FLe (evalAnd ld fuel env es pos) (evalAnd ld (fuel+1) env es pos)
  evalOr : ∀ env es pos, FLe (evalOr ld fuel env es pos) (evalOr ld (fuel+1) env es pos)
  evalIf : ∀ env cs xs els pos, FLe (evalIf ld fuel env cs xs els pos) (evalIf ld (fuel+1) env cs xs els pos)
  evalSeq : ∀ env ns, FLe (evalSeq ld fuel env ns) (evalSeq ld (fuel+1) env ns)
  evalItems : ∀ env ns pos, FLe (evalItems ld fuel env ns pos) (evalItems ld (fuel+1) env ns pos)
  evalPairs : ∀ env ks vs, FLe (evalPairs ld fuel env ks vs) (evalPairs ld (fuel+1) env ks vs)
  evalBody : ∀ env ns last, FLe (evalBody ld fuel env ns last) (evalBody ld (fuel+1) env ns last)
  evalFinally : ∀ env ns, FLe (evalFinally ld fuel env ns) (evalFinally ld (fuel+1) env ns)
  tryHandlers : ∀ env cs hs v msg p t, FLe (tryHandlers ld fuel env cs hs v msg p t) (tryHandlers ld (fuel+1) env cs hs v msg p t)
  invoke : ∀ fn pre names args env pos, FLe (invoke ld fuel fn pre names args env pos) (invoke ld (fuel+1) fn pre names args env pos)
  evalArgs : ∀ env names args pos, FLe (evalArgs ld fuel env names args pos) (evalArgs ld (fuel+1) env names args pos)
  callFn : ∀ fn bound env pos, FLe (callFn ld fuel fn bound env pos) (callFn ld (fuel+1) fn bound env pos)
  bindParams : ∀ lenv ps ds bound pos, FLe (bindParams ld fuel lenv ps ds bound pos) (bindParams ld (fuel+1) lenv ps ds bound pos)
  evalFor : ∀ env ids e body what pos, FLe (evalFor ld fuel env ids e body what pos) (evalFor ld (fuel+1) env ids e body what pos)
  forItems : ∀ env ids xs body result pos, FLe (forItems ld fuel env ids xs body result pos) (forItems ld (fuel+1) env ids xs body result pos)
  forListLive : ∀ env ids a i body result pos, FLe (forListLive ld fuel env ids a i body result pos) (forListLive ld (fuel+1) env ids a i body result pos)
  forString : ∀ env x cs body result, FLe (forString ld fuel env x cs body result) (forString ld (fuel+1) env x cs body result)
  whileLoop : ∀ env c body pos, FLe (whileLoop ld fuel env c body pos) (whileLoop ld (fuel+1) env c body pos)
  comprStep : ∀ lenv kind ve ke cond pos, FLe (comprStep ld fuel lenv kind ve ke cond pos) (comprStep ld (fuel+1) lenv kind ve ke cond pos)
  comprLoop : ∀ lenv kind ve ke cond pos l acc, FLe (comprLoop ld fuel lenv kind ve ke cond pos l acc) (comprLoop ld (fuel+1) lenv kind ve ke cond pos l acc)
  comprProduct : ∀ lenv kind ve ke cond pos x1 vs x2 ws acc, FLe (comprProduct ld fuel lenv kind ve ke cond pos x1 vs x2 ws acc) (comprProduct ld (fuel+1) lenv kind ve ke cond pos x1 vs x2 ws acc)
  comprParallel : ∀ lenv kind ve ke cond pos x1 vs x2 ws acc, FLe (comprParallel ld fuel lenv kind ve ke cond pos x1 vs x2 ws acc) (comprParallel ld (fuel+1) lenv kind ve ke cond pos x1 vs x2 ws acc)
  nativeSorted : ∀ bound env pos, FLe (nativeSorted ld fuel bound env pos) (nativeSorted ld (fuel+1) bound env pos)
  sortedOuter : ∀ cmp key senv pos arr i, FLe (sortedOuter ld fuel cmp key senv pos arr i) (sortedOuter ld (fuel+1) cmp key senv pos arr i)
  sortedInner : ∀ cmp key senv pos arr v j, FLe (sortedInner ld fuel cmp key senv pos arr v j) (sortedInner ld (fuel+1) cmp key senv pos arr v j)
  call1 : ∀ g x env pos, FLe (call1 ld fuel g x env pos) (call1 ld (fuel+1) g x env pos)
  call2 : ∀ g x y env pos, FLe (call2 ld fuel g x y env pos) (call2 ld (fuel+1) g x y env pos)
  evalRequire : ∀ env spec name unq syms pos, FLe (evalRequire ld fuel env spec name unq syms pos) (evalRequire ld (fuel+1) env spec name unq syms pos)
  loadModule : ∀ env ident modulefile pos, FLe (loadModule ld fuel env ident modulefile pos) (loadModule ld (fuel+1) env ident modulefile pos)

variable {ld} {fuel : Nat}

/-- bring every field of the induction hypothesis into the context -/
macro "fm_intro " ih:ident : tactic => `(tactic|
  (have := ($ih).eval; have := ($ih).evalAnd; have := ($ih).evalOr; have := ($ih).evalIf; have := ($ih).evalSeq; have := ($ih).evalItems; have := ($ih).evalPairs; have := ($ih).evalBody; have := ($ih).evalFinally; have := ($ih).tryHandlers; have := ($ih).invoke; have := ($ih).evalArgs; have := ($ih).callFn; have := ($ih).bindParams; have := ($ih).evalFor; have := ($ih).forItems; have := ($ih).forListLive; have := ($ih).forString; have := ($ih).whileLoop; have := ($ih).comprStep; have := ($ih).comprLoop; have := ($ih).comprProduct; have := ($ih).comprParallel; have := ($ih).nativeSorted; have := ($ih).sortedOuter; have := ($ih).sortedInner; have := ($ih).call1; have := ($ih).call2; have := ($ih).evalRequire; have := ($ih).loadModule))

theorem evalAnd_fstep (ih : FMAll ld fuel) :
    ∀ env es pos, FLe (evalAnd ld (fuel+1) env es pos) (evalAnd ld (fuel+1+1) env es pos) := by
  intro env es pos
  fm_intro ih
  cases es <;> unfold Ckl.evalAnd <;> fmono

theorem evalOr_fstep (ih : FMAll ld fuel) :
    ∀ env es pos, FLe (evalOr ld (fuel+1) env es pos) (evalOr ld (fuel+1+1) env es pos) := by
  intro env es pos
  fm_intro ih
  cases es <;> unfold Ckl.evalOr <;> fmono

theorem evalIf_fstep (ih : FMAll ld fuel) :
    ∀ env cs xs els pos, FLe (evalIf ld (fuel+1) env cs xs els pos) (evalIf ld (fuel+1+1) env cs xs els pos) := by
  intro env cs xs els pos
  fm_intro ih
  cases cs <;> cases xs <;> unfold Ckl.evalIf <;> fmono

theorem evalSeq_fstep (ih : FMAll ld fuel) :
    ∀ env ns, FLe (evalSeq ld (fuel+1) env ns) (evalSeq ld (fuel+1+1) env ns) := by
  intro env ns
  fm_intro ih
  cases ns <;> unfold Ckl.evalSeq <;> fmono

theorem evalItems_fstep (ih : FMAll ld fuel) :
    ∀ env ns pos, FLe (evalItems ld (fuel+1) env ns pos) (evalItems ld (fuel+1+1) env ns pos) := by
  intro env ns pos
  fm_intro ih
  cases ns <;> unfold Ckl.evalItems <;> fmono

theorem evalPairs_fstep (ih : FMAll ld fuel) :
    ∀ env ks vs, FLe (evalPairs ld (fuel+1) env ks vs) (evalPairs ld (fuel+1+1) env ks vs) := by
  intro env ks vs
  fm_intro ih
  cases ks <;> cases vs <;> unfold Ckl.evalPairs <;> fmono

theorem evalBody_fstep (ih : FMAll ld fuel) :
    ∀ env ns last, FLe (evalBody ld (fuel+1) env ns last) (evalBody ld (fuel+1+1) env ns last) := by
  intro env ns last
  fm_intro ih
  cases ns <;> unfold Ckl.evalBody <;> fmono

theorem evalFinally_fstep (ih : FMAll ld fuel) :
    ∀ env ns, FLe (evalFinally ld (fuel+1) env ns) (evalFinally ld (fuel+1+1) env ns) := by
  intro env ns
  fm_intro ih
  cases ns <;> unfold Ckl.evalFinally <;> fmono

theorem tryHandlers_fstep (ih : FMAll ld fuel) :
    ∀ env cs hs v msg p t, FLe (tryHandlers ld (fuel+1) env cs hs v msg p t) (tryHandlers ld (fuel+1+1) env cs hs v msg p t) := by
  intro env cs hs v msg p t
  fm_intro ih
  cases cs <;> cases hs <;> unfold Ckl.tryHandlers <;> fmono

theorem evalArgs_fstep (ih : FMAll ld fuel) :
    ∀ env names args pos, FLe (evalArgs ld (fuel+1) env names args pos) (evalArgs ld (fuel+1+1) env names args pos) := by
  intro env names args pos
  fm_intro ih
  cases names <;> cases args <;> unfold Ckl.evalArgs <;> fmono

theorem callFn_fstep (ih : FMAll ld fuel) :
    ∀ fn bound env pos, FLe (callFn ld (fuel+1) fn bound env pos) (callFn ld (fuel+1+1) fn bound env pos) := by
  intro fn bound env pos
  fm_intro ih
  cases fn <;> unfold Ckl.callFn <;> fmono

theorem bindParams_fstep (ih : FMAll ld fuel) :
    ∀ lenv ps ds bound pos, FLe (bindParams ld (fuel+1) lenv ps ds bound pos) (bindParams ld (fuel+1+1) lenv ps ds bound pos) := by
  intro lenv ps ds bound pos
  fm_intro ih
  cases ps <;> cases ds <;> unfold Ckl.bindParams <;> fmono

theorem evalFor_fstep (ih : FMAll ld fuel) :
    ∀ env ids e body what pos, FLe (evalFor ld (fuel+1) env ids e body what pos) (evalFor ld (fuel+1+1) env ids e body what pos) := by
  intro env ids e body what pos
  fm_intro ih
  unfold Ckl.evalFor <;> fmono

theorem forItems_fstep (ih : FMAll ld fuel) :
    ∀ env ids xs body result pos, FLe (forItems ld (fuel+1) env ids xs body result pos) (forItems ld (fuel+1+1) env ids xs body result pos) := by
  intro env ids xs body result pos
  fm_intro ih
  cases xs <;> unfold Ckl.forItems <;> fmono

theorem forListLive_fstep (ih : FMAll ld fuel) :
    ∀ env ids a i body result pos, FLe (forListLive ld (fuel+1) env ids a i body result pos) (forListLive ld (fuel+1+1) env ids a i body result pos) := by
  intro env ids a i body result pos
  fm_intro ih
  unfold Ckl.forListLive <;> fmono

theorem forString_fstep (ih : FMAll ld fuel) :
    ∀ env x cs body result, FLe (forString ld (fuel+1) env x cs body result) (forString ld (fuel+1+1) env x cs body result) := by
  intro env x cs body result
  fm_intro ih
  cases cs <;> unfold Ckl.forString <;> fmono

theorem whileLoop_fstep (ih : FMAll ld fuel) :
    ∀ env c body pos, FLe (whileLoop ld (fuel+1) env c body pos) (whileLoop ld (fuel+1+1) env c body pos) := by
  intro env c body pos
  fm_intro ih
  unfold Ckl.whileLoop <;> fmono

theorem comprStep_fstep (ih : FMAll ld fuel) :
    ∀ lenv kind ve ke cond pos, FLe (comprStep ld (fuel+1) lenv kind ve ke cond pos) (comprStep ld (fuel+1+1) lenv kind ve ke cond pos) := by
  intro lenv kind ve ke cond pos
  fm_intro ih
  unfold Ckl.comprStep <;> fmono

theorem comprLoop_fstep (ih : FMAll ld fuel) :
    ∀ lenv kind ve ke cond pos l acc, FLe (comprLoop ld (fuel+1) lenv kind ve ke cond pos l acc) (comprLoop ld (fuel+1+1) lenv kind ve ke cond pos l acc) := by
  intro lenv kind ve ke cond pos l acc
  fm_intro ih
  rcases l with _ | ⟨⟨x, _ | ⟨v, vs⟩⟩, _ | ⟨y, l⟩⟩ <;> unfold Ckl.comprLoop <;> fmono

theorem comprProduct_fstep (ih : FMAll ld fuel) :
    ∀ lenv kind ve ke cond pos x1 vs x2 ws acc, FLe (comprProduct ld (fuel+1) lenv kind ve ke cond pos x1 vs x2 ws acc) (comprProduct ld (fuel+1+1) lenv kind ve ke cond pos x1 vs x2 ws acc) := by
  intro lenv kind ve ke cond pos x1 vs x2 ws acc
  fm_intro ih
  cases vs <;> unfold Ckl.comprProduct <;> fmono

theorem comprParallel_fstep (ih : FMAll ld fuel) :
    ∀ lenv kind ve ke cond pos x1 vs x2 ws acc, FLe (comprParallel ld (fuel+1) lenv kind ve ke cond pos x1 vs x2 ws acc) (comprParallel ld (fuel+1+1) lenv kind ve ke cond pos x1 vs x2 ws acc) := by
  intro lenv kind ve ke cond pos x1 vs x2 ws acc
  fm_intro ih
  cases vs <;> cases ws <;> unfold Ckl.comprParallel <;> fmono

theorem nativeSorted_fstep (ih : FMAll ld fuel) :
    ∀ bound env pos, FLe (nativeSorted ld (fuel+1) bound env pos) (nativeSorted ld (fuel+1+1) bound env pos) := by
  intro bound env pos
  fm_intro ih
  unfold Ckl.nativeSorted <;> fmono

theorem sortedOuter_fstep (ih : FMAll ld fuel) :
    ∀ cmp key senv pos arr i, FLe (sortedOuter ld (fuel+1) cmp key senv pos arr i) (sortedOuter ld (fuel+1+1) cmp key senv pos arr i) := by
  intro cmp key senv pos arr i
  fm_intro ih
  unfold Ckl.sortedOuter <;> fmono

theorem sortedInner_fstep (ih : FMAll ld fuel) :
    ∀ cmp key senv pos arr v j, FLe (sortedInner ld (fuel+1) cmp key senv pos arr v j) (sortedInner ld (fuel+1+1) cmp key senv pos arr v j) := by
  intro cmp key senv pos arr v j
  fm_intro ih
  cases j <;> unfold Ckl.sortedInner <;> fmono

theorem call1_fstep (ih : FMAll ld fuel) :
    ∀ g x env pos, FLe (call1 ld (fuel+1) g x env pos) (call1 ld (fuel+1+1) g x env pos) := by
  intro g x env pos
  fm_intro ih
  unfold Ckl.call1 <;> fmono

theorem call2_fstep (ih : FMAll ld fuel) :
    ∀ g x y env pos, FLe (call2 ld (fuel+1) g x y env pos) (call2 ld (fuel+1+1) g x y env pos) := by
  intro g x y env pos
  fm_intro ih
  unfold Ckl.call2 <;> fmono

theorem loadModule_fstep (ih : FMAll ld fuel) :
    ∀ env ident modulefile pos, FLe (loadModule ld (fuel+1) env ident modulefile pos) (loadModule ld (fuel+1+1) env ident modulefile pos) := by
  intro env ident modulefile pos
  fm_intro ih
  unfold Ckl.loadModule <;> fmono

end Ckl
