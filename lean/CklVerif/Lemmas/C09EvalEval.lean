/-
  C09 (evaluator level): the induction step for `eval` itself (one case per node kind), and the
  induction on the fuel.
-/
import CklVerif.Lemmas.C09EvalMutual2
namespace Ckl.C09E
open Ckl

variable {E : List String} {b : Bool} {ld ld' : Loader} {fuel : Nat}

/-- the finally stage of a block, after the outcome `k` of body and handlers is known -/
theorem fin_stage {fin fin' : EvalM Unit} {s1 : State} (hF : fin s1 = fin' s1 ∧ Post E b (fin s1))
    (k : State → Out RVal) (hk : ∀ s, Inv E b s → Post E b (k s)) :
    (match fin s1 with
      | .ok _ s'' => k s''
      | .err v2 m2 p2 t2 s'' => .err v2 m2 p2 t2 s''
      | .fail f s'' => .fail f s'') =
    (match fin' s1 with
      | .ok _ s'' => k s''
      | .err v2 m2 p2 t2 s'' => .err v2 m2 p2 t2 s''
      | .fail f s'' => .fail f s'') ∧
    Post E b (match fin s1 with
      | .ok _ s'' => k s''
      | .err v2 m2 p2 t2 s'' => .err v2 m2 p2 t2 s''
      | .fail f s'' => .fail f s'') := by
  obtain ⟨eF, pF⟩ := hF
  rw [← eF]
  refine ⟨rfl, ?_⟩
  revert pF
  cases fin s1 with
  | ok a s2 => exact fun h => hk _ h.1
  | err v msg p t s2 => exact id
  | fail f s2 => exact id

theorem step_eval_block (ih : AllP E b ld ld' fuel) (env : EnvId) (es ce ch fin : List Node) (tl : Bool) (pos : Pos) :
    PresA E b (eval ld (fuel+1) env (.block es ce ch fin tl pos)) (eval ld' (fuel+1) env (.block es ce ch fin tl pos)) := by
  have ihBody := ih.evalBody; have ihFin := ih.evalFinally; have ihTry := ih.tryHandlers
  simp only [Ckl.eval]
  refine ⟨fun s hs => ?_⟩
  obtain ⟨eB, pB⟩ := (ihBody env es (.bool true) trivial).run _ (hs.ghostEnter pos)
  have hT := fun v msg p t s' (hv : Cl.cl E v) (h : Inv E b s') => (ihTry env ce ch v msg p t hv).run s' h
  have hF := fun s1 (h1 : Inv E b s1) => (ihFin env fin).run _ (h1.ghostFin pos)
  rw [← eB]
  revert pB
  cases evalBody ld fuel env es (.bool true) (ghostEnter s pos) with
  | ok v s1 =>
    intro pB
    exact fin_stage (hF s1 pB.1) (fun s'' => .ok v s'') (fun _ h => ⟨h, pB.2⟩)
  | err v msg p t s1 =>
    intro pB
    dsimp only
    obtain ⟨eT, pT⟩ := hT v msg p t s1 pB.2 pB.1
    rw [← eT]
    revert pT
    cases tryHandlers ld fuel env ce ch v msg p t s1 with
    | ok v2 s2 =>
      intro pT
      exact fin_stage (hF s2 pT.1) (fun s'' => .ok v2 s'') (fun _ h => ⟨h, pT.2⟩)
    | err v2 m2 p2 t2 s2 =>
      intro pT
      exact fin_stage (hF s2 pT.1) (fun s'' => .err v2 m2 p2 t2 s'') (fun _ h => ⟨h, pT.2⟩)
    | fail f s2 =>
      intro pT
      cases f with
      | oof => exact ⟨rfl, pT⟩
      | unsupported w => exact ⟨rfl, pT⟩
      | host k => exact fin_stage (hF s2 pT) (fun s'' => .fail (.host k) s'') (fun _ h => h)
      | syn e => exact fin_stage (hF s2 pT) (fun s'' => .fail (.syn e) s'') (fun _ h => h)
  | fail f s1 =>
    intro pB
    cases f with
    | oof => exact ⟨rfl, pB⟩
    | unsupported w => exact ⟨rfl, pB⟩
    | host k => exact fin_stage (hF s1 pB) (fun s'' => .fail (.host k) s'') (fun _ h => h)
    | syn e => exact fin_stage (hF s1 pB) (fun s'' => .fail (.syn e) s'') (fun _ h => h)


theorem step_eval_absent (ih : AllP E b ld ld' fuel) (env : EnvId) :
    PresA E b (eval ld (fuel+1) env (.absent)) (eval ld' (fuel+1) env (.absent)) := by
  have ihEval := ih.eval; have ihAnd := ih.evalAnd; have ihOr := ih.evalOr; have ihIf := ih.evalIf
  have ihSeq := ih.evalSeq; have ihItems := ih.evalItems; have ihPairs := ih.evalPairs
  have ihInvoke := ih.invoke; have ihWhile := ih.whileLoop
  have ihCL := ih.comprLoop; have ihCP := ih.comprProduct; have ihCPar := ih.comprParallel
  have ihReq := ih.evalRequire
  simp only [Ckl.eval]; pa_auto


theorem step_eval_catchAll (ih : AllP E b ld ld' fuel) (env : EnvId) :
    PresA E b (eval ld (fuel+1) env (.catchAll)) (eval ld' (fuel+1) env (.catchAll)) := by
  have ihEval := ih.eval; have ihAnd := ih.evalAnd; have ihOr := ih.evalOr; have ihIf := ih.evalIf
  have ihSeq := ih.evalSeq; have ihItems := ih.evalItems; have ihPairs := ih.evalPairs
  have ihInvoke := ih.invoke; have ihWhile := ih.whileLoop
  have ihCL := ih.comprLoop; have ihCP := ih.comprProduct; have ihCPar := ih.comprParallel
  have ihReq := ih.evalRequire
  simp only [Ckl.eval]; pa_auto


theorem step_eval_null (ih : AllP E b ld ld' fuel) (env : EnvId) (pos : Pos) :
    PresA E b (eval ld (fuel+1) env (.null pos)) (eval ld' (fuel+1) env (.null pos)) := by
  have ihEval := ih.eval; have ihAnd := ih.evalAnd; have ihOr := ih.evalOr; have ihIf := ih.evalIf
  have ihSeq := ih.evalSeq; have ihItems := ih.evalItems; have ihPairs := ih.evalPairs
  have ihInvoke := ih.invoke; have ihWhile := ih.whileLoop
  have ihCL := ih.comprLoop; have ihCP := ih.comprProduct; have ihCPar := ih.comprParallel
  have ihReq := ih.evalRequire
  simp only [Ckl.eval]; pa_auto


theorem step_eval_lit (ih : AllP E b ld ld' fuel) (env : EnvId) (v : Val) (pos : Pos) :
    PresA E b (eval ld (fuel+1) env (.lit v pos)) (eval ld' (fuel+1) env (.lit v pos)) := by
  have ihEval := ih.eval; have ihAnd := ih.evalAnd; have ihOr := ih.evalOr; have ihIf := ih.evalIf
  have ihSeq := ih.evalSeq; have ihItems := ih.evalItems; have ihPairs := ih.evalPairs
  have ihInvoke := ih.invoke; have ihWhile := ih.whileLoop
  have ihCL := ih.comprLoop; have ihCP := ih.comprProduct; have ihCPar := ih.comprParallel
  have ihReq := ih.evalRequire
  cases v <;> simp only [Ckl.eval] <;> pa_auto


theorem step_eval_and (ih : AllP E b ld ld' fuel) (env : EnvId) (es : List Node) (pos : Pos) :
    PresA E b (eval ld (fuel+1) env (.and es pos)) (eval ld' (fuel+1) env (.and es pos)) := by
  have ihEval := ih.eval; have ihAnd := ih.evalAnd; have ihOr := ih.evalOr; have ihIf := ih.evalIf
  have ihSeq := ih.evalSeq; have ihItems := ih.evalItems; have ihPairs := ih.evalPairs
  have ihInvoke := ih.invoke; have ihWhile := ih.whileLoop
  have ihCL := ih.comprLoop; have ihCP := ih.comprProduct; have ihCPar := ih.comprParallel
  have ihReq := ih.evalRequire
  simp only [Ckl.eval]; pa_auto


theorem step_eval_or (ih : AllP E b ld ld' fuel) (env : EnvId) (es : List Node) (pos : Pos) :
    PresA E b (eval ld (fuel+1) env (.or es pos)) (eval ld' (fuel+1) env (.or es pos)) := by
  have ihEval := ih.eval; have ihAnd := ih.evalAnd; have ihOr := ih.evalOr; have ihIf := ih.evalIf
  have ihSeq := ih.evalSeq; have ihItems := ih.evalItems; have ihPairs := ih.evalPairs
  have ihInvoke := ih.invoke; have ihWhile := ih.whileLoop
  have ihCL := ih.comprLoop; have ihCP := ih.comprProduct; have ihCPar := ih.comprParallel
  have ihReq := ih.evalRequire
  simp only [Ckl.eval]; pa_auto


theorem step_eval_not (ih : AllP E b ld ld' fuel) (env : EnvId) (e : Node) (pos : Pos) :
    PresA E b (eval ld (fuel+1) env (.not e pos)) (eval ld' (fuel+1) env (.not e pos)) := by
  have ihEval := ih.eval; have ihAnd := ih.evalAnd; have ihOr := ih.evalOr; have ihIf := ih.evalIf
  have ihSeq := ih.evalSeq; have ihItems := ih.evalItems; have ihPairs := ih.evalPairs
  have ihInvoke := ih.invoke; have ihWhile := ih.whileLoop
  have ihCL := ih.comprLoop; have ihCP := ih.comprProduct; have ihCPar := ih.comprParallel
  have ihReq := ih.evalRequire
  simp only [Ckl.eval]; pa_auto


theorem step_eval_assign (ih : AllP E b ld ld' fuel) (env : EnvId) (name : String) (e : Node) (pos : Pos) :
    PresA E b (eval ld (fuel+1) env (.assign name e pos)) (eval ld' (fuel+1) env (.assign name e pos)) := by
  have ihEval := ih.eval; have ihAnd := ih.evalAnd; have ihOr := ih.evalOr; have ihIf := ih.evalIf
  have ihSeq := ih.evalSeq; have ihItems := ih.evalItems; have ihPairs := ih.evalPairs
  have ihInvoke := ih.invoke; have ihWhile := ih.whileLoop
  have ihCL := ih.comprLoop; have ihCP := ih.comprProduct; have ihCPar := ih.comprParallel
  have ihReq := ih.evalRequire
  simp only [Ckl.eval]; pa_auto


theorem step_eval_assignD (ih : AllP E b ld ld' fuel) (env : EnvId) (names : List String) (e : Node) (pos : Pos) :
    PresA E b (eval ld (fuel+1) env (.assignD names e pos)) (eval ld' (fuel+1) env (.assignD names e pos)) := by
  have ihEval := ih.eval; have ihAnd := ih.evalAnd; have ihOr := ih.evalOr; have ihIf := ih.evalIf
  have ihSeq := ih.evalSeq; have ihItems := ih.evalItems; have ihPairs := ih.evalPairs
  have ihInvoke := ih.invoke; have ihWhile := ih.whileLoop
  have ihCL := ih.comprLoop; have ihCP := ih.comprProduct; have ihCPar := ih.comprParallel
  have ihReq := ih.evalRequire
  simp only [Ckl.eval]; pa_auto


theorem step_eval_brk (ih : AllP E b ld ld' fuel) (env : EnvId) (pos : Pos) :
    PresA E b (eval ld (fuel+1) env (.brk pos)) (eval ld' (fuel+1) env (.brk pos)) := by
  have ihEval := ih.eval; have ihAnd := ih.evalAnd; have ihOr := ih.evalOr; have ihIf := ih.evalIf
  have ihSeq := ih.evalSeq; have ihItems := ih.evalItems; have ihPairs := ih.evalPairs
  have ihInvoke := ih.invoke; have ihWhile := ih.whileLoop
  have ihCL := ih.comprLoop; have ihCP := ih.comprProduct; have ihCPar := ih.comprParallel
  have ihReq := ih.evalRequire
  simp only [Ckl.eval]; pa_auto


theorem step_eval_cont (ih : AllP E b ld ld' fuel) (env : EnvId) (pos : Pos) :
    PresA E b (eval ld (fuel+1) env (.cont pos)) (eval ld' (fuel+1) env (.cont pos)) := by
  have ihEval := ih.eval; have ihAnd := ih.evalAnd; have ihOr := ih.evalOr; have ihIf := ih.evalIf
  have ihSeq := ih.evalSeq; have ihItems := ih.evalItems; have ihPairs := ih.evalPairs
  have ihInvoke := ih.invoke; have ihWhile := ih.whileLoop
  have ihCL := ih.comprLoop; have ihCP := ih.comprProduct; have ihCPar := ih.comprParallel
  have ihReq := ih.evalRequire
  simp only [Ckl.eval]; pa_auto


theorem step_eval_cls (ih : AllP E b ld ld' fuel) (env : EnvId) (name : String) (ms : List Node) (pos : Pos) :
    PresA E b (eval ld (fuel+1) env (.cls name ms pos)) (eval ld' (fuel+1) env (.cls name ms pos)) := by
  have ihEval := ih.eval; have ihAnd := ih.evalAnd; have ihOr := ih.evalOr; have ihIf := ih.evalIf
  have ihSeq := ih.evalSeq; have ihItems := ih.evalItems; have ihPairs := ih.evalPairs
  have ihInvoke := ih.invoke; have ihWhile := ih.whileLoop
  have ihCL := ih.comprLoop; have ihCP := ih.comprProduct; have ihCPar := ih.comprParallel
  have ihReq := ih.evalRequire
  simp only [Ckl.eval]; pa_auto


theorem step_eval_defn (ih : AllP E b ld ld' fuel) (env : EnvId) (name : String) (e : Node) (info : String) (pos : Pos) :
    PresA E b (eval ld (fuel+1) env (.defn name e info pos)) (eval ld' (fuel+1) env (.defn name e info pos)) := by
  have ihEval := ih.eval; have ihAnd := ih.evalAnd; have ihOr := ih.evalOr; have ihIf := ih.evalIf
  have ihSeq := ih.evalSeq; have ihItems := ih.evalItems; have ihPairs := ih.evalPairs
  have ihInvoke := ih.invoke; have ihWhile := ih.whileLoop
  have ihCL := ih.comprLoop; have ihCP := ih.comprProduct; have ihCPar := ih.comprParallel
  have ihReq := ih.evalRequire
  simp only [Ckl.eval]; pa_auto


theorem step_eval_defD (ih : AllP E b ld ld' fuel) (env : EnvId) (names : List String) (e : Node) (info : String) (pos : Pos) :
    PresA E b (eval ld (fuel+1) env (.defD names e info pos)) (eval ld' (fuel+1) env (.defD names e info pos)) := by
  have ihEval := ih.eval; have ihAnd := ih.evalAnd; have ihOr := ih.evalOr; have ihIf := ih.evalIf
  have ihSeq := ih.evalSeq; have ihItems := ih.evalItems; have ihPairs := ih.evalPairs
  have ihInvoke := ih.invoke; have ihWhile := ih.whileLoop
  have ihCL := ih.comprLoop; have ihCP := ih.comprProduct; have ihCPar := ih.comprParallel
  have ihReq := ih.evalRequire
  simp only [Ckl.eval]; pa_auto


theorem step_eval_deref (ih : AllP E b ld ld' fuel) (env : EnvId) (e i d : Node) (pos : Pos) :
    PresA E b (eval ld (fuel+1) env (.deref e i d pos)) (eval ld' (fuel+1) env (.deref e i d pos)) := by
  have ihEval := ih.eval; have ihAnd := ih.evalAnd; have ihOr := ih.evalOr; have ihIf := ih.evalIf
  have ihSeq := ih.evalSeq; have ihItems := ih.evalItems; have ihPairs := ih.evalPairs
  have ihInvoke := ih.invoke; have ihWhile := ih.whileLoop
  have ihCL := ih.comprLoop; have ihCP := ih.comprProduct; have ihCPar := ih.comprParallel
  have ihReq := ih.evalRequire
  by_cases hb : d = Node.absent
  · subst hb; simp only [Ckl.eval]; pa_auto
  · simp only [Ckl.eval]; pa_auto


theorem step_eval_derefAssign (ih : AllP E b ld ld' fuel) (env : EnvId) (e i v : Node) (pos : Pos) :
    PresA E b (eval ld (fuel+1) env (.derefAssign e i v pos)) (eval ld' (fuel+1) env (.derefAssign e i v pos)) := by
  have ihEval := ih.eval; have ihAnd := ih.evalAnd; have ihOr := ih.evalOr; have ihIf := ih.evalIf
  have ihSeq := ih.evalSeq; have ihItems := ih.evalItems; have ihPairs := ih.evalPairs
  have ihInvoke := ih.invoke; have ihWhile := ih.whileLoop
  have ihCL := ih.comprLoop; have ihCP := ih.comprProduct; have ihCPar := ih.comprParallel
  have ihReq := ih.evalRequire
  simp only [Ckl.eval]; pa_auto


theorem step_eval_derefInvoke (ih : AllP E b ld ld' fuel) (env : EnvId) (o : Node) (m : String) (ns : List (Option String)) (as : List Node) (pos : Pos) :
    PresA E b (eval ld (fuel+1) env (.derefInvoke o m ns as pos)) (eval ld' (fuel+1) env (.derefInvoke o m ns as pos)) := by
  have ihEval := ih.eval; have ihAnd := ih.evalAnd; have ihOr := ih.evalOr; have ihIf := ih.evalIf
  have ihSeq := ih.evalSeq; have ihItems := ih.evalItems; have ihPairs := ih.evalPairs
  have ihInvoke := ih.invoke; have ihWhile := ih.whileLoop
  have ihCL := ih.comprLoop; have ihCP := ih.comprProduct; have ihCPar := ih.comprParallel
  have ihReq := ih.evalRequire
  simp only [Ckl.eval]; pa_auto


theorem step_eval_slice (ih : AllP E b ld ld' fuel) (env : EnvId) (e a c : Node) (pos : Pos) :
    PresA E b (eval ld (fuel+1) env (.slice e a c pos)) (eval ld' (fuel+1) env (.slice e a c pos)) := by
  have ihEval := ih.eval; have ihAnd := ih.evalAnd; have ihOr := ih.evalOr; have ihIf := ih.evalIf
  have ihSeq := ih.evalSeq; have ihItems := ih.evalItems; have ihPairs := ih.evalPairs
  have ihInvoke := ih.invoke; have ihWhile := ih.whileLoop
  have ihCL := ih.comprLoop; have ihCP := ih.comprProduct; have ihCPar := ih.comprParallel
  have ihReq := ih.evalRequire
  by_cases hb : c = Node.absent
  · subst hb; simp only [Ckl.eval]; pa_auto
  · simp only [Ckl.eval]; pa_auto


theorem step_eval_error (ih : AllP E b ld ld' fuel) (env : EnvId) (e : Node) (pos : Pos) :
    PresA E b (eval ld (fuel+1) env (.error e pos)) (eval ld' (fuel+1) env (.error e pos)) := by
  have ihEval := ih.eval; have ihAnd := ih.evalAnd; have ihOr := ih.evalOr; have ihIf := ih.evalIf
  have ihSeq := ih.evalSeq; have ihItems := ih.evalItems; have ihPairs := ih.evalPairs
  have ihInvoke := ih.invoke; have ihWhile := ih.whileLoop
  have ihCL := ih.comprLoop; have ihCP := ih.comprProduct; have ihCPar := ih.comprParallel
  have ihReq := ih.evalRequire
  simp only [Ckl.eval]; pa_auto


theorem step_eval_call (ih : AllP E b ld ld' fuel) (env : EnvId) (f : Node) (ns : List (Option String)) (as : List Node) (pos : Pos) :
    PresA E b (eval ld (fuel+1) env (.call f ns as pos)) (eval ld' (fuel+1) env (.call f ns as pos)) := by
  have ihEval := ih.eval; have ihAnd := ih.evalAnd; have ihOr := ih.evalOr; have ihIf := ih.evalIf
  have ihSeq := ih.evalSeq; have ihItems := ih.evalItems; have ihPairs := ih.evalPairs
  have ihInvoke := ih.invoke; have ihWhile := ih.whileLoop
  have ihCL := ih.comprLoop; have ihCP := ih.comprProduct; have ihCPar := ih.comprParallel
  have ihReq := ih.evalRequire
  simp only [Ckl.eval]; pa_auto


theorem step_eval_ite (ih : AllP E b ld ld' fuel) (env : EnvId) (cs xs : List Node) (els : Node) (pos : Pos) :
    PresA E b (eval ld (fuel+1) env (.ite cs xs els pos)) (eval ld' (fuel+1) env (.ite cs xs els pos)) := by
  have ihEval := ih.eval; have ihAnd := ih.evalAnd; have ihOr := ih.evalOr; have ihIf := ih.evalIf
  have ihSeq := ih.evalSeq; have ihItems := ih.evalItems; have ihPairs := ih.evalPairs
  have ihInvoke := ih.invoke; have ihWhile := ih.whileLoop
  have ihCL := ih.comprLoop; have ihCP := ih.comprProduct; have ihCPar := ih.comprParallel
  have ihReq := ih.evalRequire
  simp only [Ckl.eval]; pa_auto


theorem step_eval_isIn (ih : AllP E b ld ld' fuel) (env : EnvId) (e c : Node) (pos : Pos) :
    PresA E b (eval ld (fuel+1) env (.isIn e c pos)) (eval ld' (fuel+1) env (.isIn e c pos)) := by
  have ihEval := ih.eval; have ihAnd := ih.evalAnd; have ihOr := ih.evalOr; have ihIf := ih.evalIf
  have ihSeq := ih.evalSeq; have ihItems := ih.evalItems; have ihPairs := ih.evalPairs
  have ihInvoke := ih.invoke; have ihWhile := ih.whileLoop
  have ihCL := ih.comprLoop; have ihCP := ih.comprProduct; have ihCPar := ih.comprParallel
  have ihReq := ih.evalRequire
  simp only [Ckl.eval]; pa_auto


theorem step_eval_list (ih : AllP E b ld ld' fuel) (env : EnvId) (items : List Node) (pos : Pos) :
    PresA E b (eval ld (fuel+1) env (.list items pos)) (eval ld' (fuel+1) env (.list items pos)) := by
  have ihEval := ih.eval; have ihAnd := ih.evalAnd; have ihOr := ih.evalOr; have ihIf := ih.evalIf
  have ihSeq := ih.evalSeq; have ihItems := ih.evalItems; have ihPairs := ih.evalPairs
  have ihInvoke := ih.invoke; have ihWhile := ih.whileLoop
  have ihCL := ih.comprLoop; have ihCP := ih.comprProduct; have ihCPar := ih.comprParallel
  have ihReq := ih.evalRequire
  simp only [Ckl.eval]; pa_auto


theorem step_eval_compr (ih : AllP E b ld ld' fuel) (env : EnvId) (kind : ComprKind) (shape : ComprShape) (ve ke : Node) (id1 : String) (l1 : Node) (w1 : Option String) (id2 : String) (l2 : Node) (w2 : Option String) (cond : Node) (pos : Pos) :
    PresA E b (eval ld (fuel+1) env (.compr kind shape ve ke id1 l1 w1 id2 l2 w2 cond pos)) (eval ld' (fuel+1) env (.compr kind shape ve ke id1 l1 w1 id2 l2 w2 cond pos)) := by
  have ihEval := ih.eval; have ihAnd := ih.evalAnd; have ihOr := ih.evalOr; have ihIf := ih.evalIf
  have ihSeq := ih.evalSeq; have ihItems := ih.evalItems; have ihPairs := ih.evalPairs
  have ihInvoke := ih.invoke; have ihWhile := ih.whileLoop
  have ihCL := ih.comprLoop; have ihCP := ih.comprProduct; have ihCPar := ih.comprParallel
  have ihReq := ih.evalRequire
  cases shape <;> simp only [Ckl.eval] <;> pa_auto


theorem step_eval_map (ih : AllP E b ld ld' fuel) (env : EnvId) (ks vs : List Node) (pos : Pos) :
    PresA E b (eval ld (fuel+1) env (.map ks vs pos)) (eval ld' (fuel+1) env (.map ks vs pos)) := by
  have ihEval := ih.eval; have ihAnd := ih.evalAnd; have ihOr := ih.evalOr; have ihIf := ih.evalIf
  have ihSeq := ih.evalSeq; have ihItems := ih.evalItems; have ihPairs := ih.evalPairs
  have ihInvoke := ih.invoke; have ihWhile := ih.whileLoop
  have ihCL := ih.comprLoop; have ihCP := ih.comprProduct; have ihCPar := ih.comprParallel
  have ihReq := ih.evalRequire
  simp only [Ckl.eval]; pa_auto


theorem step_eval_object (ih : AllP E b ld ld' fuel) (env : EnvId) (ks : List String) (vs : List Node) (pos : Pos) :
    PresA E b (eval ld (fuel+1) env (.object ks vs pos)) (eval ld' (fuel+1) env (.object ks vs pos)) := by
  have ihEval := ih.eval; have ihAnd := ih.evalAnd; have ihOr := ih.evalOr; have ihIf := ih.evalIf
  have ihSeq := ih.evalSeq; have ihItems := ih.evalItems; have ihPairs := ih.evalPairs
  have ihInvoke := ih.invoke; have ihWhile := ih.whileLoop
  have ihCL := ih.comprLoop; have ihCP := ih.comprProduct; have ihCPar := ih.comprParallel
  have ihReq := ih.evalRequire
  simp only [Ckl.eval]; pa_auto


theorem step_eval_require (ih : AllP E b ld ld' fuel) (env : EnvId) (spec : Node) (name : Option String) (unq : Bool) (syms : Option (List (String × String))) (pos : Pos) :
    PresA E b (eval ld (fuel+1) env (.require spec name unq syms pos)) (eval ld' (fuel+1) env (.require spec name unq syms pos)) := by
  have ihEval := ih.eval; have ihAnd := ih.evalAnd; have ihOr := ih.evalOr; have ihIf := ih.evalIf
  have ihSeq := ih.evalSeq; have ihItems := ih.evalItems; have ihPairs := ih.evalPairs
  have ihInvoke := ih.invoke; have ihWhile := ih.whileLoop
  have ihCL := ih.comprLoop; have ihCP := ih.comprProduct; have ihCPar := ih.comprParallel
  have ihReq := ih.evalRequire
  simp only [Ckl.eval]; pa_auto


theorem step_eval_ret (ih : AllP E b ld ld' fuel) (env : EnvId) (e : Node) (pos : Pos) :
    PresA E b (eval ld (fuel+1) env (.ret e pos)) (eval ld' (fuel+1) env (.ret e pos)) := by
  have ihEval := ih.eval; have ihAnd := ih.evalAnd; have ihOr := ih.evalOr; have ihIf := ih.evalIf
  have ihSeq := ih.evalSeq; have ihItems := ih.evalItems; have ihPairs := ih.evalPairs
  have ihInvoke := ih.invoke; have ihWhile := ih.whileLoop
  have ihCL := ih.comprLoop; have ihCP := ih.comprProduct; have ihCPar := ih.comprParallel
  have ihReq := ih.evalRequire
  by_cases hb : e = Node.absent
  · subst hb; simp only [Ckl.eval]; pa_auto
  · simp only [Ckl.eval]; pa_auto


theorem step_eval_set (ih : AllP E b ld ld' fuel) (env : EnvId) (items : List Node) (pos : Pos) :
    PresA E b (eval ld (fuel+1) env (.set items pos)) (eval ld' (fuel+1) env (.set items pos)) := by
  have ihEval := ih.eval; have ihAnd := ih.evalAnd; have ihOr := ih.evalOr; have ihIf := ih.evalIf
  have ihSeq := ih.evalSeq; have ihItems := ih.evalItems; have ihPairs := ih.evalPairs
  have ihInvoke := ih.invoke; have ihWhile := ih.whileLoop
  have ihCL := ih.comprLoop; have ihCP := ih.comprProduct; have ihCPar := ih.comprParallel
  have ihReq := ih.evalRequire
  simp only [Ckl.eval]; pa_auto


theorem step_eval_spread (ih : AllP E b ld ld' fuel) (env : EnvId) (e : Node) (pos : Pos) :
    PresA E b (eval ld (fuel+1) env (.spread e pos)) (eval ld' (fuel+1) env (.spread e pos)) := by
  have ihEval := ih.eval; have ihAnd := ih.evalAnd; have ihOr := ih.evalOr; have ihIf := ih.evalIf
  have ihSeq := ih.evalSeq; have ihItems := ih.evalItems; have ihPairs := ih.evalPairs
  have ihInvoke := ih.invoke; have ihWhile := ih.whileLoop
  have ihCL := ih.comprLoop; have ihCP := ih.comprProduct; have ihCPar := ih.comprParallel
  have ihReq := ih.evalRequire
  simp only [Ckl.eval]; pa_auto


theorem step_eval_while (ih : AllP E b ld ld' fuel) (env : EnvId) (c body : Node) (pos : Pos) :
    PresA E b (eval ld (fuel+1) env (.while c body pos)) (eval ld' (fuel+1) env (.while c body pos)) := by
  have ihEval := ih.eval; have ihAnd := ih.evalAnd; have ihOr := ih.evalOr; have ihIf := ih.evalIf
  have ihSeq := ih.evalSeq; have ihItems := ih.evalItems; have ihPairs := ih.evalPairs
  have ihInvoke := ih.invoke; have ihWhile := ih.whileLoop
  have ihCL := ih.comprLoop; have ihCP := ih.comprProduct; have ihCPar := ih.comprParallel
  have ihReq := ih.evalRequire
  simp only [Ckl.eval]; pa_auto


theorem step_eval_ident (hA : LdAgree ld ld') (env : EnvId) (name : String) (pos : Pos) :
    PresA E b (eval ld (fuel+1) env (.ident name pos)) (eval ld' (fuel+1) env (.ident name pos)) := by
  simp only [Ckl.eval, hA.baseNames]; pa_auto

/-- the bindings a `for` loop hides are read from a frame of the START state: clean by its invariant -/
theorem cl_hiddenVars {s : State} (h : Inv E b s) (env : EnvId) (ids : List String) :
    Cl.cl E (hiddenVars s env ids) := by
  rw [cl_list_iff]
  intro p hp
  unfold hiddenVars at hp
  obtain ⟨x, _, hx⟩ := List.mem_filterMap.mp hp
  cases hd : dictGet x (s.frame env).vars with
  | none => rw [hd] at hx; cases hx
  | some v =>
    rw [hd] at hx
    cases hx
    exact ⟨trivial, cl_of_dictGet hd (h.frames env)⟩

/-- putting clean hidden bindings back keeps the invariant -/
theorem Inv.restoreVars {s : State} (h : Inv E b s) (env : EnvId) {hidden : List (String × RVal)}
    (hh : Cl.cl E hidden) : Inv E b (restoreVars env hidden s) := by
  unfold Ckl.restoreVars
  exact Inv.foldl (fun s p hp hs => hs.put env p.1 (cl_of_mem hp hh).2) h

/-- `for`: when the loop ends the hidden bindings are put back; on an error the loop variables are
    removed first.  Both loaders start from the same state, hence restore the same bindings. -/
theorem step_eval_for (ih : AllP E b ld ld' fuel) (env : EnvId) (ids : List String) (e body : Node) (what : String)
    (pos : Pos) :
    PresA E b (eval ld (fuel+1) env (.for ids e body what pos)) (eval ld' (fuel+1) env (.for ids e body what pos)) := by
  simp only [Ckl.eval]
  refine ⟨fun s hs => ?_⟩
  obtain ⟨he, hp⟩ := (ih.evalFor env ids e body what pos).run s hs
  have hh := cl_hiddenVars hs env ids
  rw [← he]
  refine ⟨rfl, ?_⟩
  revert hp
  cases evalFor ld fuel env ids e body what pos s with
  | ok v s' => exact fun h => ⟨h.1.restoreVars env hh, h.2⟩
  | err v m p t s' =>
    exact fun h => ⟨(Inv.foldl (fun s x _ h => h.remove env x) h.1).restoreVars env hh, h.2⟩
  | fail f s' =>
    cases f with
    | syn se => exact fun h => (Inv.foldl (fun s x _ h => h.remove env x) h).restoreVars env hh
    | oof => exact id
    | unsupported w => exact id
    | host k => exact id

theorem step_eval_lambda (env : EnvId) (ps : List String) (ds : List Node) (body : Node) (pos : Pos) :
    PresA E b (eval ld (fuel+1) env (.lambda ps ds body pos)) (eval ld' (fuel+1) env (.lambda ps ds body pos)) := by
  simp only [Ckl.eval]
  exact ⟨fun s hs => ⟨rfl, hs.alloc trivial, trivial⟩⟩

theorem step_eval (hA : LdAgree ld ld') (ih : AllP E b ld ld' fuel) :
    ∀ env n, PresA E b (eval ld (fuel+1) env n) (eval ld' (fuel+1) env n) := by
  intro env n
  cases n with
  | absent => exact step_eval_absent ih env
  | catchAll => exact step_eval_catchAll ih env
  | null pos => exact step_eval_null ih env pos
  | lit v pos => exact step_eval_lit ih env v pos
  | ident name pos => exact step_eval_ident hA env name pos
  | and es pos => exact step_eval_and ih env es pos
  | or es pos => exact step_eval_or ih env es pos
  | not e pos => exact step_eval_not ih env e pos
  | assign name e pos => exact step_eval_assign ih env name e pos
  | assignD names e pos => exact step_eval_assignD ih env names e pos
  | block es ce ch fin tl pos => exact step_eval_block ih env es ce ch fin tl pos
  | brk pos => exact step_eval_brk ih env pos
  | cont pos => exact step_eval_cont ih env pos
  | cls name ms pos => exact step_eval_cls ih env name ms pos
  | defn name e info pos => exact step_eval_defn ih env name e info pos
  | defD names e info pos => exact step_eval_defD ih env names e info pos
  | deref e i d pos => exact step_eval_deref ih env e i d pos
  | derefAssign e i v pos => exact step_eval_derefAssign ih env e i v pos
  | derefInvoke o m ns as pos => exact step_eval_derefInvoke ih env o m ns as pos
  | slice e a c pos => exact step_eval_slice ih env e a c pos
  | error e pos => exact step_eval_error ih env e pos
  | «for» ids e body what pos => exact step_eval_for ih env ids e body what pos
  | call f ns as pos => exact step_eval_call ih env f ns as pos
  | ite cs xs els pos => exact step_eval_ite ih env cs xs els pos
  | isIn e c pos => exact step_eval_isIn ih env e c pos
  | lambda ps ds body pos => exact step_eval_lambda env ps ds body pos
  | list items pos => exact step_eval_list ih env items pos
  | compr kind shape ve ke id1 l1 w1 id2 l2 w2 cond pos =>
    exact step_eval_compr ih env kind shape ve ke id1 l1 w1 id2 l2 w2 cond pos
  | map ks vs pos => exact step_eval_map ih env ks vs pos
  | object ks vs pos => exact step_eval_object ih env ks vs pos
  | require spec name unq syms pos => exact step_eval_require ih env spec name unq syms pos
  | ret e pos => exact step_eval_ret ih env e pos
  | set items pos => exact step_eval_set ih env items pos
  | spread e pos => exact step_eval_spread ih env e pos
  | «while» c body pos => exact step_eval_while ih env c body pos

theorem allP_succ (hA : LdAgree ld ld') (hE : EffOK E b ld) (hN : NativeOK E b ld ld')
    (ih : AllP E b ld ld' fuel) : AllP E b ld ld' (fuel + 1) where
  eval := step_eval hA ih
  evalAnd := step_evalAnd ih
  evalOr := step_evalOr ih
  evalIf := step_evalIf ih
  evalSeq := step_evalSeq ih
  evalItems := step_evalItems ih
  evalPairs := step_evalPairs ih
  evalBody := step_evalBody ih
  evalFinally := step_evalFinally ih
  tryHandlers := step_tryHandlers ih
  invoke := step_invoke hA ih
  evalArgs := step_evalArgs ih
  callFn := step_callFn hA hE hN ih
  bindParams := step_bindParams ih
  evalFor := step_evalFor ih
  forItems := step_forItems ih
  forListLive := step_forListLive ih
  forString := step_forString ih
  whileLoop := step_whileLoop ih
  comprStep := step_comprStep ih
  comprLoop := step_comprLoop ih
  comprProduct := step_comprProduct ih
  comprParallel := step_comprParallel ih
  nativeSorted := step_nativeSorted ih
  sortedOuter := step_sortedOuter ih
  sortedInner := step_sortedInner ih
  call1 := step_call1 ih
  call2 := step_call2 ih
  evalRequire := step_evalRequire ih
  loadModule := step_loadModule hA ih

/-- all functions of the evaluator, at every fuel: same outcome under both loaders, invariant
    preserved, clean values returned -/
theorem allP (hA : LdAgree ld ld') (hE : EffOK E b ld) (hN : NativeOK E b ld ld') :
    ∀ fuel, AllP E b ld ld' fuel
  | 0 => allP_zero E b ld ld'
  | fuel + 1 => allP_succ hA hE hN (allP hA hE hN fuel)

end Ckl.C09E
