import CklVerif.Proofs.C02

#print axioms Ckl.C02.int_add_exact
#print axioms Ckl.C02.int_sub_exact
#print axioms Ckl.C02.int_mul_exact
#print axioms Ckl.C02.truncDiv_eq_tdiv
#print axioms Ckl.C02.int_div_trunc
#print axioms Ckl.C02.tdiv_unique
#print axioms Ckl.C02.int_div_zero
#print axioms Ckl.C02.int_mod_spec
#print axioms Ckl.C02.int_mod_zero
#print axioms Ckl.C02.add_null
#print axioms Ckl.C02.mul_null
#print axioms Ckl.C02.div_null
#print axioms Ckl.C02.mod_null
#print axioms Ckl.C02.sub_null
#print axioms Ckl.C02.arith_null
#print axioms Ckl.C02.floatResult_ok
#print axioms Ckl.C02.add_kind
#print axioms Ckl.C02.sub_kind
#print axioms Ckl.C02.mul_kind
#print axioms Ckl.C02.arith_kind_dec
#print axioms Ckl.C02.arith_kind
#print axioms Ckl.C02.and_or_short_circuit
#print axioms Ckl.C02.and_or_boolean_only
#print axioms Ckl.C02.eval_not_bool
#print axioms Ckl.C02.not_involutive
#print axioms Ckl.C02.not_boolean_only
