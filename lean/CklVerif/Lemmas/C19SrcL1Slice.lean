import CklVerif.Lemmas.C19SrcLoop
import CklVerif.Lemmas.C19SrcList

/-! C19Src (L1) — list.ckl `first_n(lst, n) = lst !> sublist(0, n)` and `last_n(lst, n) = lst !> sublist(-n)`.
    The parser desugars `x !> f(a…)` to `f(x, a…)` and unary minus to `sub(a = 0, b = n)`. -/
namespace Ckl.C19Src
open Ckl Ckl.C03 Ckl.Gen.LibSrc
variable (ld : Loader)

/-- `sublist(lst, i, j)` of the built-in on a list cell: a fresh list cell with `lst[i:j]` -/
theorem sublist_range_L1 (a : Nat) (xs : List RVal) (i j : Int) (d : Option RVal) (pos : Pos) (s : State)
    (hc : s.cell a = some (.list xs)) :
    ∃ m, callPure "sublist" [("lst", .ref a), ("startidx", .int i), ("endidx", .int j)] d pos = some m ∧
      m s = .ok (.ref s.heap.size) (s.alloc (.list (Seq.substr xs i (some j)))).1 := by
  refine ⟨_, rfl, ?_⟩
  simp [argGet, dictGet, dictHas, RVal.isNull, listItems, cellOf, hc, newList, allocM, EvalM.bind_apply,
    EvalM.pure_apply]
  rfl

def firstNNats : List String := ["sublist"]
def lastNNats : List String := ["sublist", "sub"]

/-- the body of `first_n`: `sublist(lst, 0, n)` -/
theorem first_n_body {s : State} {M nats srcs c m} {a : Nat} {xs : List RVal} {n : Int}
    (ctx : Ctx s M nats srcs c m [("lst", .ref a), ("n", .int n)]) (hn : ∀ x ∈ firstNNats, x ∈ nats)
    (hc : s.cell a = some (.list xs)) :
    ∃ s', Ext s s' ∧ Ev ld 5 c (lamBody list_first_n) s (.ok (.ref s.heap.size) s') ∧
      s'.cell s.heap.size = some (.list (Seq.substr xs 0 (some n))) := by
  obtain ⟨i, hl⟩ := ctx.nat (x := "sublist") (hn _ (by decide)) (by rfl)
  refine ⟨(s.alloc (.list (Seq.substr xs 0 (some n)))).1, (Ext.refl s).alloc _, ?_, cell_alloc_new _ _⟩
  unfold lamBody list_first_n
  simp only []
  have A : ∀ p1 p2 p3 p4 p5, Ev ld 5 c (.call (.ident "sublist" p1) [none, none, none]
      [.ident "lst" p2, .lit (.int 0) p3, .ident "n" p4] p5) s
      (.ok (.ref s.heap.size) (s.alloc (.list (Seq.substr xs 0 (some n)))).1) := by
    intro p1 p2 p3 p4 p5
    obtain ⟨mm, hm1, hm2⟩ := sublist_range_L1 a xs 0 n (div0Value s c) p5 s hc
    have A := Ev.nat3 ld (k := 0) (p := p1) (pos := p5) hl (by rfl) (by decide) (by decide) (by decide) (by decide)
      (by trivial) (by trivial) (by trivial)
      (Ev.ident ld (p := p2) (ctx.var (x := "lst") (by rfl))) (Ev.litInt ld (p := p3) (n := 0))
      (Ev.ident ld (p := p4) (ctx.var (x := "n") (by rfl))) hm1 hm2
    rw [wrapCall_ok] at A
    exact A
  exact A _ _ _ _ _

/-- the body of `last_n`: `sublist(lst, sub(a = 0, b = n))` -/
theorem last_n_body {s : State} {M nats srcs c m} {a : Nat} {xs : List RVal} {n : Int}
    (ctx : Ctx s M nats srcs c m [("lst", .ref a), ("n", .int n)]) (hn : ∀ x ∈ lastNNats, x ∈ nats)
    (hc : s.cell a = some (.list xs)) :
    ∃ s', Ext s s' ∧ Ev ld 8 c (lamBody list_last_n) s (.ok (.ref s.heap.size) s') ∧
      s'.cell s.heap.size = some (.list (Seq.substr xs (-n) none)) := by
  obtain ⟨i, hl⟩ := ctx.nat (x := "sublist") (hn _ (by decide)) (by rfl)
  obtain ⟨j, hsub⟩ := ctx.nat (x := "sub") (hn _ (by decide)) (by rfl)
  refine ⟨(s.alloc (.list (Seq.substr xs (-n) none))).1, (Ext.refl s).alloc _, ?_, cell_alloc_new _ _⟩
  unfold lamBody list_last_n
  simp only []
  have N : ∀ p1 p2 p3 p4, Ev ld 4 c (.call (.ident "sub" p1) [some "a", some "b"] [.lit (.int 0) p2, .ident "n" p3] p4) s
      (.ok (.int (-n)) s) := by
    intro p1 p2 p3 p4
    have B := Ev.natAB ld (k := 0) (p := p1) (pos := p4) hsub (by rfl) (by trivial) (by trivial)
      (Ev.litInt ld (p := p2) (n := 0)) (Ev.ident ld (p := p3) (ctx.var (x := "n") (by rfl)))
      (pure_sub _ _ _ _) (nativeSub_int 0 n _ _)
    rw [wrapCall_ok, Int.zero_sub] at B
    exact B
  have A : ∀ p0 p5 p1 p2 p3 p4 p6, Ev ld 8 c (.call (.ident "sublist" p0) [none, none]
      [.ident "lst" p5, .call (.ident "sub" p1) [some "a", some "b"] [.lit (.int 0) p2, .ident "n" p3] p4] p6) s
      (.ok (.ref s.heap.size) (s.alloc (.list (Seq.substr xs (-n) none))).1) := by
    intro p0 p5 p1 p2 p3 p4 p6
    obtain ⟨mm, hm1, hm2⟩ := sublist_from a xs (-n) (div0Value s c) p6 s hc
    have A := Ev.nat2 ld (k := 4) (p := p0) (pos := p6) hl (by rfl) (by decide) (by decide) (by trivial) (by trivial)
      (Ev.mono ld (Ev.ident ld (k := 0) (p := p5) (ctx.var (x := "lst") (by rfl))) (by decide)) (N p1 p2 p3 p4) hm1 hm2
    rw [wrapCall_ok] at A
    exact A
  exact A _ _ _ _ _ _ _

/-- `fn.execute(lst = a list cell, n = an int)` of the function made from the source of `first_n` -/
theorem first_n_calls {s : State} {M nats srcs fn m} (h : LibEnv s M nats srcs) (hn : ∀ x ∈ firstNNats, x ∈ nats)
    (hm : M m) (hsrc : IsSrc s fn list_first_n m) (a : Nat) (xs : List RVal) (n : Int) (hc : s.cell a = some (.list xs)) :
    ∃ s', Ext s s' ∧ s'.cell s.heap.size = some (.list (Seq.substr xs 0 (some n))) ∧
      ∀ env pos, Calls ld 6 fn [("lst", .ref a), ("n", .int n)] env pos s (.ok (.ref s.heap.size) s') :=
  calls_of_body2Q ld (k := 5) (src := list_first_n) (r := fun s' => .ok (.ref s.heap.size) s')
    (Q := fun s' => s'.cell s.heap.size = some (.list (Seq.substr xs 0 (some n))))
    rfl rfl rfl (by decide) (by decide) h hm hsrc (.ref a) (.int n) (fun s0 ctx e0 hh => by
      obtain ⟨s', e', hev, hcell⟩ := first_n_body ld ctx hn (by rw [e0.cell a (cell_lt hc)]; exact hc)
      rw [hh] at hev hcell
      exact ⟨s', e', hev, hcell⟩)

/-- `fn.execute(lst = a list cell, n = an int)` of the function made from the source of `last_n` -/
theorem last_n_calls {s : State} {M nats srcs fn m} (h : LibEnv s M nats srcs) (hn : ∀ x ∈ lastNNats, x ∈ nats)
    (hm : M m) (hsrc : IsSrc s fn list_last_n m) (a : Nat) (xs : List RVal) (n : Int) (hc : s.cell a = some (.list xs)) :
    ∃ s', Ext s s' ∧ s'.cell s.heap.size = some (.list (Seq.substr xs (-n) none)) ∧
      ∀ env pos, Calls ld 9 fn [("lst", .ref a), ("n", .int n)] env pos s (.ok (.ref s.heap.size) s') :=
  calls_of_body2Q ld (k := 8) (src := list_last_n) (r := fun s' => .ok (.ref s.heap.size) s')
    (Q := fun s' => s'.cell s.heap.size = some (.list (Seq.substr xs (-n) none)))
    rfl rfl rfl (by decide) (by decide) h hm hsrc (.ref a) (.int n) (fun s0 ctx e0 hh => by
      obtain ⟨s', e', hev, hcell⟩ := last_n_body ld ctx hn (by rw [e0.cell a (cell_lt hc)]; exact hc)
      rw [hh] at hev hcell
      exact ⟨s', e', hev, hcell⟩)

/-! ### what the slices are -/

/-- `lst[0:n]` for `0 ≤ n` is `List.take` -/
theorem substr_zero_take_L1 {α} (xs : List α) (n : Int) (hn : 0 ≤ n) :
    Seq.substr xs 0 (some n) = xs.take n.toNat := by
  unfold Seq.substr Seq.pySlice
  have h1 : ¬ ((0 : Int) < 0) := by omega
  have h2 : ¬ ((0 : Int) > (xs.length : Int)) := by omega
  have h3 : ¬ (n < 0) := by omega
  simp only [h1, h2, h3, if_false, Option.getD_some, List.drop_zero, Int.toNat_zero, Nat.sub_zero]
  by_cases h4 : n > (xs.length : Int)
  · simp only [h4, if_true, Int.toNat_natCast]
    rw [List.take_length, List.take_of_length_le (by omega)]
  · simp only [h4, if_false]

/-- `lst[0:n]` for `n < 0` drops the last `-n` elements -/
theorem substr_zero_neg_L1 {α} (xs : List α) (n : Int) (hn : n < 0) :
    Seq.substr xs 0 (some n) = xs.take (xs.length - (-n).toNat) := by
  unfold Seq.substr Seq.pySlice
  have h1 : ¬ ((0 : Int) < 0) := by omega
  have h2 : ¬ ((0 : Int) > (xs.length : Int)) := by omega
  simp only [h1, h2, hn, if_false, if_true, Option.getD_some, List.drop_zero, Int.toNat_zero, Nat.sub_zero]
  by_cases h4 : (xs.length : Int) + n < 0
  · have h5 : ¬ ((0 : Int) > (xs.length : Int)) := by omega
    simp only [h4, if_true, h5, if_false, Int.toNat_zero]
    have : xs.length - (-n).toNat = 0 := by omega
    rw [this]
  · have h5 : ¬ ((xs.length : Int) + n > (xs.length : Int)) := by omega
    simp only [h4, if_false, h5]
    congr 1; omega

/-- `lst[-n:]` for `0 < n` is `List.drop` of all but the last `n` elements -/
theorem substr_neg_drop_L1 {α} (xs : List α) (n : Int) (hn : 0 < n) :
    Seq.substr xs (-n) none = xs.drop (xs.length - n.toNat) := by
  unfold Seq.substr Seq.pySlice
  have h1 : (-n < 0) := by omega
  have h6 : ¬ ((xs.length : Int) < 0) := by omega
  have h7 : ¬ ((xs.length : Int) > (xs.length : Int)) := by omega
  simp only [h1, if_true, Option.getD_none, h6, h7, if_false]
  by_cases h4 : (xs.length : Int) + -n < 0
  · have h5 : ¬ ((0 : Int) > (xs.length : Int)) := by omega
    simp only [h4, if_true, h5, if_false, Int.toNat_zero, List.drop_zero, Nat.sub_zero, Int.toNat_natCast]
    have : xs.length - n.toNat = 0 := by omega
    rw [this, List.take_length, List.drop_zero]
  · have h5 : ¬ ((xs.length : Int) + -n > (xs.length : Int)) := by omega
    simp only [h4, if_false, h5, Int.toNat_natCast]
    have : ((xs.length : Int) + -n).toNat = xs.length - n.toNat := by omega
    rw [this, List.take_of_length_le (by simp)]

/-- `lst[-0:]` is the WHOLE list (Python's `lst[-0:]`): `last_n(lst, 0)` returns a copy of `lst`, not `[]` -/
theorem substr_neg_zero_L1 {α} (xs : List α) : Seq.substr xs (-0) none = xs := by
  unfold Seq.substr Seq.pySlice
  have h1 : ¬ ((-0 : Int) < 0) := by omega
  have h2 : ¬ ((-0 : Int) > (xs.length : Int)) := by omega
  have h6 : ¬ ((xs.length : Int) < 0) := by omega
  have h7 : ¬ ((xs.length : Int) > (xs.length : Int)) := by omega
  simp only [h1, h2, h6, h7, if_false, Option.getD_none]
  simp

/-- `lst[-n:]` for `n < 0` (i.e. a positive start index `-n`) drops the first `-n` elements -/
theorem substr_neg_neg_L1 {α} (xs : List α) (n : Int) (hn : n < 0) :
    Seq.substr xs (-n) none = xs.drop (-n).toNat := by
  unfold Seq.substr Seq.pySlice
  have h1 : ¬ (-n < 0) := by omega
  have h6 : ¬ ((xs.length : Int) < 0) := by omega
  have h7 : ¬ ((xs.length : Int) > (xs.length : Int)) := by omega
  simp only [h1, if_false]
  by_cases h4 : -n > (xs.length : Int)
  · simp only [h4, if_true]
    rw [List.drop_of_length_le (by omega)]
  · simp only [h4, if_false, Option.getD_none, h6, h7, Int.toNat_natCast]
    rw [List.take_of_length_le (by simp)]

end Ckl.C19Src
