/-
  C14 (spelling of literals) helper lemmas, part 1: int numerals.

  * value of a digit string in base 2 / 10 / 16 (`ofDigits`), of the canonical numerals
    `Nat.toDigits b n` in lower and upper case, with leading zeros and with `_` separators;
  * the conversion functions of the scanner (`respell`, `dropUnderscores`) and of the parser
    (`parseIntLit`) composed;
  * the scanner on `0x…` / `0b…` / decimal numerals with `_` at arbitrary positions.
-/
import CklVerif.Lemmas.C08Lexer
import CklVerif.Lemmas.C08Parser
namespace Ckl.C14S
open Ckl Ckl.Lexer

/-! ### value of digit strings -/

theorem ofDigits_snoc (b : Nat) (s : List Char) (c : Char) :
    ofDigits b (s ++ [c]) = ofDigits b s * b + hexVal c := by
  simp [ofDigits, List.foldl_append]

theorem hexVal_digitChar : ∀ k < 16, hexVal (Nat.digitChar k) = k := by decide

theorem hexVal_upper_digitChar : ∀ k < 16, hexVal (Nat.digitChar k).toUpper = k := by decide

/-- `int(digits of n in base b, b) = n` for the bases of the scanner -/
theorem ofDigits_toDigits (b : Nat) (hb1 : 1 < b) (hb : b ≤ 16) (n : Nat) :
    ofDigits b (Nat.toDigits b n) = n := by
  induction n using Nat.strongRecOn with
  | ind n ih =>
    rw [Nat.toDigits_eq_if hb1]
    split
    · rename_i h
      simp [ofDigits, hexVal_digitChar n (by omega)]
    · rename_i h
      have hm : n % b < 16 := by have := Nat.mod_lt n (show 0 < b by omega); omega
      rw [ofDigits_snoc, ih (n / b) (Nat.div_lt_self (by omega) hb1), hexVal_digitChar _ hm]
      exact Nat.div_add_mod' n b

/-- every character of a canonical numeral is a digit character below the base -/
theorem mem_toDigits {b : Nat} (hb1 : 1 < b) (n : Nat) :
    ∀ c ∈ Nat.toDigits b n, ∃ k, k < b ∧ c = Nat.digitChar k := by
  induction n using Nat.strongRecOn with
  | ind n ih =>
    rw [Nat.toDigits_eq_if hb1]
    split
    · rename_i h
      intro c hc
      simp only [List.mem_singleton] at hc
      exact ⟨n, h, hc⟩
    · intro c hc
      rcases List.mem_append.mp hc with h | h
      · exact ih (n / b) (Nat.div_lt_self (by omega) hb1) c h
      · simp only [List.mem_singleton] at h
        exact ⟨n % b, Nat.mod_lt n (by omega), h⟩

/-- the value only depends on the values of the digits -/
theorem ofDigits_map (b : Nat) (f : Char → Char) (s : List Char)
    (h : ∀ c ∈ s, hexVal (f c) = hexVal c) : ofDigits b (s.map f) = ofDigits b s := by
  unfold ofDigits
  generalize 0 = acc
  induction s generalizing acc with
  | nil => rfl
  | cons c s ih =>
    rw [List.map_cons, List.foldl_cons, List.foldl_cons, h c (by simp)]
    exact ih (fun x hx => h x (List.mem_cons_of_mem _ hx)) _

/-- upper-case hex digits have the same value -/
theorem ofDigits_toDigits_upper (n : Nat) :
    ofDigits 16 ((Nat.toDigits 16 n).map Char.toUpper) = n := by
  rw [ofDigits_map, ofDigits_toDigits 16 (by decide) (by decide)]
  intro c hc
  obtain ⟨k, hk, rfl⟩ := mem_toDigits (by decide) n c hc
  rw [hexVal_upper_digitChar k hk, hexVal_digitChar k hk]

theorem hexVal_zero : hexVal '0' = 0 := by decide

/-- leading zeros do not change the value -/
theorem ofDigits_leading_zeros (b k : Nat) (s : List Char) :
    ofDigits b (List.replicate k '0' ++ s) = ofDigits b s := by
  unfold ofDigits
  rw [List.foldl_append]
  congr 1
  induction k with
  | zero => rfl
  | succ k ih =>
    rw [List.replicate_succ', List.foldl_append, ih]
    simp [hexVal_zero]

/-! ### alphabets -/

theorem digitChar_mem_hexDigits : ∀ k < 16, Nat.digitChar k ∈ hexDigits := by decide
theorem upper_digitChar_mem_hexDigits : ∀ k < 16, (Nat.digitChar k).toUpper ∈ hexDigits := by decide
theorem digitChar_mem_binDigits : ∀ k < 2, Nat.digitChar k ∈ ['0', '1'] := by decide

theorem toDigits16_mem (n : Nat) : ∀ c ∈ Nat.toDigits 16 n, c ∈ hexDigits := by
  intro c hc
  obtain ⟨k, hk, rfl⟩ := mem_toDigits (by decide) n c hc
  exact digitChar_mem_hexDigits k hk

theorem toDigits16_upper_mem (n : Nat) :
    ∀ c ∈ (Nat.toDigits 16 n).map Char.toUpper, c ∈ hexDigits := by
  intro c hc
  obtain ⟨x, hx, rfl⟩ := List.mem_map.mp hc
  obtain ⟨k, hk, rfl⟩ := mem_toDigits (by decide) n x hx
  exact upper_digitChar_mem_hexDigits k hk

theorem toDigits2_mem (n : Nat) : ∀ c ∈ Nat.toDigits 2 n, c ∈ ['0', '1'] := by
  intro c hc
  obtain ⟨k, hk, rfl⟩ := mem_toDigits (by decide) n c hc
  exact digitChar_mem_binDigits k hk

/-! ### `_` separators -/

/-- inserting a `_` anywhere is invisible to `dropUnderscores` -/
theorem dropUnderscores_insert (a b : List Char) :
    dropUnderscores (a ++ '_' :: b) = dropUnderscores (a ++ b) := by
  simp [dropUnderscores]

theorem dropUnderscores_idem (u : List Char) : dropUnderscores (dropUnderscores u) = dropUnderscores u := by
  simp [dropUnderscores]

theorem dropUnderscores_of_not_mem {ds : List Char} (h : '_' ∉ ds) : dropUnderscores ds = ds := by
  unfold dropUnderscores
  apply List.filter_eq_self.mpr
  intro c hc
  simp only [ne_eq, decide_eq_true_eq]
  intro e; exact h (e ▸ hc)

/-- if the text without `_` consists of characters of an alphabet without `_`, the text consists of
    such characters and `_` -/
theorem mem_of_dropUnderscores {u ds : List Char} (h : dropUnderscores u = ds) {al : List Char}
    (hal : ∀ c ∈ ds, c ∈ al) : ∀ c ∈ u, c ∈ al ∨ c = '_' := by
  intro c hc
  by_cases hu : c = '_'
  · exact Or.inr hu
  · refine Or.inl (hal c ?_)
    rw [← h]
    simp [dropUnderscores, hc, hu]

/-! ### the conversion functions -/

/-- the decimal digit limit of the model (CPython's `int`/`str` conversion limit) as a bound on
    the number -/
def litLimit : Nat := 10 ^ maxStrDigits

theorem digits_le_iff (n : Nat) : (Nat.toDigits 10 n).length ≤ 4300 ↔ n < litLimit := by
  show (Nat.toDigits 10 n).length ≤ maxStrDigits ↔ n < 10 ^ maxStrDigits
  exact Nat.length_toDigits_le_iff (by decide) (by decide)

/-- `str(int(tok.replace("_", ""), base))` with `_` separators at arbitrary positions -/
theorem respell_eq {base : Nat} {u : List Char} (hne : dropUnderscores u ≠ [])
    (hlim : ofDigits base (dropUnderscores u) < litLimit) :
    respell base u = some (Nat.toDigits 10 (ofDigits base (dropUnderscores u))) := by
  have hl := (digits_le_iff _).mpr hlim
  unfold respell
  simp only [hne, if_false]
  rw [if_neg (by unfold maxStrDigits; omega)]

/-- what scanner (state 7: `replace("_", "")`) and parser (`int(token.value)`) make of a decimal
    numeral text -/
def litDec (u : List Char) : Option Nat := Parser.parseIntLit (dropUnderscores u)

/-- what scanner (states 71 / 72: `str(int(tok.replace("_", ""), base))`) and parser
    (`int(token.value)`) make of the digits of a hex / binary numeral text -/
def litRadix (base : Nat) (u : List Char) : Option Nat := (respell base u).bind Parser.parseIntLit

theorem litRadix_eq {base : Nat} {u : List Char} (hne : dropUnderscores u ≠ [])
    (hlim : ofDigits base (dropUnderscores u) < litLimit) :
    litRadix base u = some (ofDigits base (dropUnderscores u)) := by
  unfold litRadix
  rw [respell_eq hne hlim]
  exact C08.parseIntLit_toDigits _ ((digits_le_iff _).mpr hlim)

/-! ### the scanner on radix numerals with `_` -/

theorem accum_radixU {st : St} {base : Nat} {al : List Char} {what : String}
    (R : Radix st base al what) : Accum st (fun c => c ∈ al ∨ c = '_') where
  step_eq k col ch hs hc := by
    rw [R.step_eq _ _ _ hs]; simp only [stepRadix, hc, if_true]
  ne0 := R.ne0
  nonl := by
    intro h
    rcases h with h | h
    · exact R.nonl h
    · revert h; decide

/-- generic radix literal `0` `p` (digits and `_`) terminator, started at a token boundary -/
theorem run_radix_literalU {name : String} {st : St} {base : Nat} {al : List Char} {what : String}
    (R : Radix st base al what) (p : Char) (hpn : p ≠ '\n')
    (hp : ∀ (k : Core) (col : Int), k.state = .s70 → step k col p = .ok ⟨{ k with state := st }, none, false⟩)
    {σ : LexSt} (h0 : σ.core.state = .s0) (htok : σ.core.token = [])
    {u : List Char} (hu : ∀ c ∈ u, c ∈ al ∨ c = '_') (hne : dropUnderscores u ≠ [])
    (hlim : ofDigits base (dropUnderscores u) < litLimit)
    {t : Char} (ht : t ∈ whitespace) :
    ∃ σ' col, run name σ ('0' :: p :: (u ++ [t])) = .ok σ' ∧ σ'.core = σ.core ∧
      σ'.out = (⟨Nat.toDigits 10 (ofDigits base (dropUnderscores u)), .int, ⟨name, σ.line, col⟩⟩, σ.pos)
        :: σ.out := by
  obtain ⟨σ1, hf1, hk1, ho1, hsl1, hso1, _⟩ := feed_start (name := name) (c := '0')
    (k' := { σ.core with state := .s70 }) h0 (by decide) (by intro col; simp [step0])
  obtain ⟨σ2, hf2, hk2, hfr2⟩ := feed_inner (name := name) (σ := σ1) (c := p)
    (k' := { σ1.core with state := st }) (by rw [hk1]; simp) hpn
    (fun col => hp _ col (by rw [hk1]))
  have hs2 : σ2.core.state = st := by rw [hk2]
  obtain ⟨σ3, hr3, hk3, hfr3⟩ := run_accum (name := name) (accum_radixU R) u hs2 hu
  have hs3 : σ3.core.state = st := by rw [hk3]; exact hs2
  have htok3 : σ3.core.token = u := by rw [hk3, hk2, hk1]; simp [htok]
  obtain ⟨σ4, col, hf4, hk4, ho4⟩ := feed_radix_end (name := name) R hs3 ht
    (v := Nat.toDigits 10 (ofDigits base (dropUnderscores u)))
    (by rw [htok3]; exact respell_eq hne hlim)
  refine ⟨σ4, col, ?_, ?_, ?_⟩
  · rw [run_cons_ok _ hf1, run_cons_ok _ hf2, run_append_ok _ hr3, run_cons_ok _ hf4]; rfl
  · rw [hk4, hk3, hk2, hk1]
    cases hσ : σ.core with
    | mk s tk tb =>
      rw [hσ] at h0 htok; simp only at h0 htok; subst h0; subst htok; rfl
  · rw [ho4, (hfr2.trans hfr3).out, (hfr2.trans hfr3).startline, (hfr2.trans hfr3).startOff,
      ho1, hsl1, hso1]

theorem step70_x (k : Core) (col : Int) (hs : k.state = .s70) :
    step k col 'x' = .ok ⟨{ k with state := .s71 }, none, false⟩ := by
  unfold step; simp [hs, step70]

theorem step70_b (k : Core) (col : Int) (hs : k.state = .s70) :
    step k col 'b' = .ok ⟨{ k with state := .s72 }, none, false⟩ := by
  unfold step; simp [hs, step70]

/-- finishing a scan after one token: trailing whitespace (the column of the token may depend on
    the character that follows it: a newline resets the column counter before the token is emitted) -/
theorem scan_one_token {name : String} {txt w : List Char} {v : List Char} {ty : TokType}
    (hw : ∀ c ∈ w, c ∈ whitespace)
    (h : ∀ t ∈ whitespace, ∃ σ' col o, run name {} (txt ++ [t]) = .ok σ' ∧ σ'.core = {} ∧
      σ'.out = [(⟨v, ty, ⟨name, 1, col⟩⟩, o)]) :
    ∃ col, scan (txt ++ w) name = .ok [⟨v, ty, ⟨name, 1, col⟩⟩] := by
  obtain ⟨t, tl, htl, ht, htlws⟩ : ∃ t tl, w ++ [' '] = t :: tl ∧ t ∈ whitespace ∧ AllWs tl := by
    cases w with
    | nil => exact ⟨' ', [], rfl, by decide, fun _ h => nomatch h⟩
    | cons a w' =>
      refine ⟨a, w' ++ [' '], rfl, hw a (by simp), ?_⟩
      intro c hc
      rcases List.mem_append.mp hc with h | h
      · exact hw c (List.mem_cons_of_mem _ h)
      · simp only [List.mem_singleton] at h; subst h; decide
  obtain ⟨σ', col, o, hr, hk, ho⟩ := h t ht
  obtain ⟨σ2, hr2, _, ho2⟩ := run_filler (name := name) (filler_of_allWs htlws) (σ := σ')
    (by rw [hk])
  refine ⟨col, ?_⟩
  unfold scan scanWithOffsets
  have e : txt ++ w ++ [' '] = (txt ++ [t]) ++ tl := by
    rw [List.append_assoc, htl]; simp
  rw [e, run_append_ok _ hr, hr2]
  simp [ho2, ho]

end Ckl.C14S
