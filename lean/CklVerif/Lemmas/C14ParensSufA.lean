/-
  C14 (redundant parentheses) — suffix lemmas, part A: the operator tower
  (`pOr … pPred`, their loops, and the `is …` predicates).
-/
import CklVerif.Lemmas.C14ParensSufHyp
namespace Ckl.C14X
open Ckl Ckl.Parser

local notation "kw" => (some TokType.keyword)
local notation "ip" => (some TokType.interpunction)
local notation "op" => (some TokType.operator)
local notation "idt" => (some TokType.identifier)

set_option linter.unusedSimpArgs false
set_option linter.unusedVariables false

variable {ts : List Token}

theorem suf_pOr (c : Ctx) (st : St) (H : Suf (st.toks.length * 16 + 9)) (hs : st.toks <:+ ts) :
    SufP (fun o => o.st.toks <:+ ts) (pOr c st) := by
  rw [pOr]
  sbh (H.pAnd c st (by omega)) hs with e s1 h1 hs1
  sif hb : s1.peekn 1 c!"or" kw
  · sbh (H.orLoop c s1 _ (by omega)) hs1 with es s2 h2 hs2
    sok hs2
  · sok hs1

theorem suf_orLoop (c : Ctx) (st : St) (acc : List Node) (H : Suf (st.toks.length * 16 + 0))
    (hs : st.toks <:+ ts) : SufP (fun o => o.st.toks <:+ ts) (orLoop c st acc) := by
  rw [orLoop]
  smif hs c!"or" kw with s1 h1 hs1
  · sok hs
  · sbh (H.pAnd c s1 (by omega)) hs1 with e s2 h2 hs2
    sbh (H.orLoop c s2 _ (by omega)) hs2 with r s3 h3 hs3
    sok hs3

theorem suf_pAnd (c : Ctx) (st : St) (H : Suf (st.toks.length * 16 + 8)) (hs : st.toks <:+ ts) :
    SufP (fun o => o.st.toks <:+ ts) (pAnd c st) := by
  rw [pAnd]
  sbh (H.pNot c st (by omega)) hs with e s1 h1 hs1
  sif hb : s1.peekn 1 c!"and" kw
  · sbh (H.andLoop c s1 _ (by omega)) hs1 with es s2 h2 hs2
    sok hs2
  · sok hs1

theorem suf_andLoop (c : Ctx) (st : St) (acc : List Node) (H : Suf (st.toks.length * 16 + 0))
    (hs : st.toks <:+ ts) : SufP (fun o => o.st.toks <:+ ts) (andLoop c st acc) := by
  rw [andLoop]
  smif hs c!"and" kw with s1 h1 hs1
  · sok hs
  · sbh (H.pNot c s1 (by omega)) hs1 with e s2 h2 hs2
    sbh (H.andLoop c s2 _ (by omega)) hs2 with r s3 h3 hs3
    sok hs3

theorem suf_pNot (c : Ctx) (st : St) (H : Suf (st.toks.length * 16 + 7)) (hs : st.toks <:+ ts) :
    SufP (fun o => o.st.toks <:+ ts) (pNot c st) := by
  rw [pNot]
  smif hs c!"not" kw with s1 h1 hs1
  · exact SufLt.to (H.pRel c st (by omega)) hs
  · sbh (H.pRel c s1 (by omega)) hs1 with e s2 h2 hs2
    sok hs2

theorem suf_pRel (c : Ctx) (st : St) (H : Suf (st.toks.length * 16 + 6)) (hs : st.toks <:+ ts) :
    SufP (fun o => o.st.toks <:+ ts) (pRel c st) := by
  rw [pRel]
  sbh (H.pAdd c st (by omega)) hs with e s1 h1 hs1
  sif hb : (!relGuard s1)
  · sok hs1
  · sbh (H.relLoop c s1 _ _ (by omega)) hs1 with cmps s2 h2 hs2
    sok hs2

theorem suf_relLoop (c : Ctx) (st : St) (lhs : Node) (acc : List Node) (H : Suf (st.toks.length * 16 + 0))
    (hs : st.toks <:+ ts) : SufP (fun o => o.st.toks <:+ ts) (relLoop c st lhs acc) := by
  rw [relLoop]
  refine SufP.bind (relopNext_suf hs) ?_
  rintro (_ | ⟨relop, s1, h1⟩) hr
  · sok hs
  · have hs1 := hr _ rfl
    dsimp only at hs1 ⊢
    sbh (H.pAdd c s1 (by omega)) hs1 with rhs s2 h2 hs2
    sbh (H.relLoop c s2 _ _ (by omega)) hs2 with r s3 h3 hs3
    sok hs3

theorem suf_pAdd (c : Ctx) (st : St) (H : Suf (st.toks.length * 16 + 5)) (hs : st.toks <:+ ts) :
    SufP (fun o => o.st.toks <:+ ts) (pAdd c st) := by
  rw [pAdd]
  sbh (H.pMul c st (by omega)) hs with e s1 h1 hs1
  sbh (H.addLoop c s1 _ (by omega)) hs1 with r s2 h2 hs2
  sok hs2

theorem suf_addLoop (c : Ctx) (st : St) (e : Node) (H : Suf (st.toks.length * 16 + 0))
    (hs : st.toks <:+ ts) : SufP (fun o => o.st.toks <:+ ts) (addLoop c st e) := by
  rw [addLoop]
  stab (matchOpTable_suf hs addOps) with fn s1 h1 hs1
  · sok hs
  · sbh (H.pMul c s1 (by omega)) hs1 with r s2 h2 hs2
    sbh (H.addLoop c s2 _ (by omega)) hs2 with y s3 h3 hs3
    sok hs3

theorem suf_pMul (c : Ctx) (st : St) (H : Suf (st.toks.length * 16 + 4)) (hs : st.toks <:+ ts) :
    SufP (fun o => o.st.toks <:+ ts) (pMul c st) := by
  rw [pMul]
  sbh (H.pUnary c st (by omega)) hs with e s1 h1 hs1
  sbh (H.mulLoop c s1 _ (by omega)) hs1 with r s2 h2 hs2
  sok hs2

theorem suf_mulLoop (c : Ctx) (st : St) (e : Node) (H : Suf (st.toks.length * 16 + 0))
    (hs : st.toks <:+ ts) : SufP (fun o => o.st.toks <:+ ts) (mulLoop c st e) := by
  rw [mulLoop]
  stab (matchOpTable_suf hs mulOps) with fn s1 h1 hs1
  · sok hs
  · sbh (H.pUnary c s1 (by omega)) hs1 with r s2 h2 hs2
    sbh (H.mulLoop c s2 _ (by omega)) hs2 with y s3 h3 hs3
    sok hs3

theorem suf_pUnary (c : Ctx) (st : St) (H : Suf (st.toks.length * 16 + 3)) (hs : st.toks <:+ ts) :
    SufP (fun o => o.st.toks <:+ ts) (pUnary c st) := by
  rw [pUnary]
  smif hs c!"+" op with s1 h1 hs1
  · smif hs c!"-" op with s1 h1 hs1
    · exact SufLt.to (H.pPred c false st (by omega)) hs
    · sany t
      sif hb : (t.type == .int || t.type == .decimal)
      · sbh (H.pPred c true s1 (by omega)) hs1 with e s2 h2 hs2
        sok hs2
      · sbh (H.pPred c false s1 (by omega)) hs1 with e s2 h2 hs2
        sok hs2
  · exact suf_wkLt (SufLt.to (H.pPred c false s1 (by omega)) hs1)

theorem suf_optPrimary (c : Ctx) (word : List Char) (d : Node) (st : St)
    (H : Suf (st.toks.length * 16 + 12)) (hs : st.toks <:+ ts) :
    SufP (fun o => o.st.toks <:+ ts) (optPrimary c word d st) := by
  rw [optPrimary]
  smif hs word idt with s1 h1 hs1
  · sok hs
  · exact suf_ltLe (SufLt.to (H.pPrimary c false s1 (by omega)) hs1)

theorem suf_pCollectMinMax (c : Ctx) (fn : String) (e : Node) (pos : Pos) (st : St)
    (H : Suf (st.toks.length * 16 + 13)) (hs : st.toks <:+ ts) :
    SufP (fun o => o.st.toks <:+ ts) (pCollectMinMax c fn e pos st) := by
  rw [pCollectMinMax]
  sbh (H.optPrimary c _ _ st (by omega)) hs with mn s1 h1 hs1
  sbh (H.optPrimary c _ _ s1 (by omega)) hs1 with mx s2 h2 hs2
  smif hs2 c!"exact_len" idt with s3 h3 hs3
  · sok hs2
  · sbh (H.pPrimary c false s3 (by omega)) hs3 with y s4 h4 hs4
    sok hs4

theorem suf_applyIsPred (c : Ctx) (p : IsPred) (e : Node) (pos : Pos) (st : St)
    (H : Suf (st.toks.length * 16 + 14)) (hs : st.toks <:+ ts) :
    SufP (fun o => o.st.toks <:+ ts) (applyIsPred c p e pos st) := by
  rw [applyIsPred.eq_def c]
  cases p with
  | isIn =>
    sbh (H.pPrimary c false st (by omega)) hs with r s1 h1 hs1
    sok hs1
  | simple fn => sok hs
  | minmax fn => exact SufLe.to (H.pCollectMinMax c fn _ pos st (by omega)) hs
  | valid fn fmt => sok hs
  | type name => sok hs

theorem suf_pPred (c : Ctx) (um : Bool) (st : St) (H : Suf (st.toks.length * 16 + 2)) (hs : st.toks <:+ ts) :
    SufP (fun o => o.st.toks <:+ ts) (pPred c um st) := by
  rw [pPred]
  sbh (H.pPrimary c um st (by omega)) hs with e s1 h1 hs1
  smif hs1 c!"is" kw with s2 h2 hs2
  · stab (binPredTable_suf hs1) with p s2 h2 hs2
    · sok hs1
    · cases p with
      | isIn neg =>
        sbh (H.pPrimary c false s2 (by omega)) hs2 with r s3 h3 hs3
        sok hs3
      | call neg fn a b =>
        sbh (H.pPrimary c false s2 (by omega)) hs2 with r s3 h3 hs3
        sok hs3
  · smif hs2 c!"not" kw with s3 h3 hs3
    · stab (isPredTable_suf hs2 false) with p s4 h4 hs4
      · sok hs1
      · sbh (H.applyIsPred c p _ _ s4 (by omega)) hs4 with n s5 h5 hs5
        sok hs5
    · stab (isPredTable_suf hs3 true) with p s4 h4 hs4
      · sok hs1
      · sbh (H.applyIsPred c p _ _ s4 (by omega)) hs4 with n s5 h5 hs5
        sok hs5

end Ckl.C14X
