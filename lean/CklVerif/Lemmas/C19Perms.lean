/-
  C19 — `permutations` (Heap's algorithm as written in list.ckl): the number of results.
-/
import CklVerif.Model.Lib
namespace Ckl.C19
open Ckl Ckl.Lib

def fact : Nat → Nat
  | 0 => 1
  | n + 1 => (n + 1) * fact n

theorem heapGo_length {α} : ∀ (n : Nat) (st : List α × List (List α)), 1 ≤ n →
    (heapGo n st).2.length = st.2.length + fact n
  | 0, _, h => absurd h (by decide)
  | 1, (lst, acc), _ => by simp [heapGo, fact]
  | n + 2, st, _ => by
    have ih := fun st' => heapGo_length (α := α) (n + 1) st' (by omega)
    have key : ∀ (l : List Nat) (st : List α × List (List α)),
        (l.foldl (fun st i =>
          let st' := heapGo (n + 1) st
          (swapIdx st'.1 (if (n + 2) % 2 = 1 then 0 else i) (n + 1), st'.2)) st).2.length
          = st.2.length + l.length * fact (n + 1) := by
      intro l
      induction l with
      | nil => intro st; simp
      | cons i l ihl =>
        intro st
        rw [List.foldl_cons, ihl]
        simp only [ih, List.length_cons]
        rw [Nat.add_mul]; omega
    rw [heapGo, key, List.length_range]
    show _ = _ + (n + 2) * fact (n + 1)
    rfl

theorem permutationsM_length {α} (xs : List α) (h : xs ≠ []) :
    (permutationsM xs).length = fact xs.length := by
  unfold permutationsM
  rw [heapGo_length _ _ (List.length_pos_iff.mpr h)]
  simp

/-! ### every result is a permutation of the input -/

theorem perm_cons_eraseIdx {α} {l : List α} {i : Nat} {a : α} (h : l[i]? = some a) :
    l.Perm (a :: l.eraseIdx i) := by
  obtain ⟨hi, rfl⟩ := List.getElem?_eq_some_iff.mp h
  rw [List.eraseIdx_eq_take_drop_succ]
  have e : l = l.take i ++ l[i] :: l.drop (i + 1) := by
    rw [← List.drop_eq_getElem_cons hi, List.take_append_drop]
  have p : (l.take i ++ l[i] :: l.drop (i + 1)).Perm (l[i] :: (l.take i ++ l.drop (i + 1))) :=
    List.perm_middle
  rw [← e] at p
  exact p

theorem set_perm_cons_eraseIdx {α} {l : List α} {i : Nat} (hi : i < l.length) (b : α) :
    (l.set i b).Perm (b :: l.eraseIdx i) := by
  rw [List.set_eq_take_append_cons_drop, if_pos hi, List.eraseIdx_eq_take_drop_succ]
  exact List.perm_middle

theorem swapIdx_perm {α} (l : List α) (i j : Nat) : (swapIdx l i j).Perm l := by
  unfold swapIdx
  split
  · rename_i a b ha hb
    obtain ⟨hi, _⟩ := List.getElem?_eq_some_iff.mp ha
    obtain ⟨hj, _⟩ := List.getElem?_eq_some_iff.mp hb
    have hj' : j < (l.set i b).length := by rw [List.length_set]; exact hj
    -- in the updated list position `j` holds `b`
    have hb' : (l.set i b)[j]? = some b := by
      rw [List.getElem?_set]
      split
      · rfl
      · exact hb
    have p1 := set_perm_cons_eraseIdx hj' a          -- (l.set i b).set j a ~ a :: erase j (l.set i b)
    have p2 := perm_cons_eraseIdx hb'                 -- l.set i b ~ b :: erase j (l.set i b)
    have p3 := set_perm_cons_eraseIdx hi b            -- l.set i b ~ b :: erase i l
    have p4 := perm_cons_eraseIdx ha                  -- l ~ a :: erase i l
    have p5 : ((l.set i b).eraseIdx j).Perm (l.eraseIdx i) := (p2.symm.trans p3).cons_inv
    exact p1.trans ((p5.cons a).trans p4.symm)
  · exact List.Perm.refl l

theorem heapGo_perm {α} : ∀ (n : Nat) (st : List α × List (List α)) (xs : List α),
    st.1.Perm xs → (∀ p ∈ st.2, p.Perm xs) →
    (heapGo n st).1.Perm xs ∧ ∀ p ∈ (heapGo n st).2, p.Perm xs
  | 0, _, _, h1, h2 => ⟨h1, h2⟩
  | 1, (lst, acc), xs, h1, h2 => by
    refine ⟨h1, ?_⟩
    intro p hp
    simp only [heapGo] at hp
    rcases List.mem_append.mp hp with hp | hp
    · exact h2 p hp
    · rw [List.mem_singleton] at hp; subst hp; exact h1
  | n + 2, st, xs, h1, h2 => by
    have ih := fun st' => heapGo_perm (α := α) (n + 1) st' xs
    have key : ∀ (l : List Nat) (st : List α × List (List α)),
        st.1.Perm xs → (∀ p ∈ st.2, p.Perm xs) →
        let r := l.foldl (fun st i =>
          let st' := heapGo (n + 1) st
          (swapIdx st'.1 (if (n + 2) % 2 = 1 then 0 else i) (n + 1), st'.2)) st
        r.1.Perm xs ∧ ∀ p ∈ r.2, p.Perm xs := by
      intro l
      induction l with
      | nil => intro st h1 h2; exact ⟨h1, h2⟩
      | cons i l ihl =>
        intro st h1 h2
        rw [List.foldl_cons]
        obtain ⟨q1, q2⟩ := ih st h1 h2
        exact ihl _ ((swapIdx_perm _ _ _).trans q1) q2
    rw [heapGo]
    exact key _ st h1 h2

theorem permutationsM_perm {α} (xs : List α) : ∀ p ∈ permutationsM xs, p.Perm xs :=
  (heapGo_perm xs.length (xs, []) xs (List.Perm.refl xs) (by simp)).2

theorem permutationsM_nil {α} : permutationsM ([] : List α) = [] := rfl

end Ckl.C19
