/-
  C12Sim — whole-program independence from the storage (hash) order of sets and maps.

  `PermSt s t` (Lemmas/C12SimDefs): `t` is `s` with the content of any number of set / map cells stored in another
  order; a cell may only be stored in another order when its keys are atomic, pairwise of one ordered kind and
  pairwise different (`AtomTotal`), everything else (frames, output, module tables, ghost counters, flags, list /
  object / closure cells) is equal.  Values are references, so the RESULTS of two related runs are EQUAL.

  FULL STATEMENT ASKED (kept visible, NOT proved — it is false in the model, see the findings below):
    theorem eval_perm_irrelevant (ld) (hn : NativePerm ld) fuel env n {s t} (h : PermSt s t) :
      OutR (eval ld fuel env n s) (eval ld fuel env n t)            -- for every program `n`, all 30 functions
  PROVED: `eval_perm_irrelevant_partial` — the same statement for every CALL-FREE program (`cfN n`: no `call`,
  `derefInvoke`, `require`, `derefAssign` outside lambda bodies), for all fuel / environments / states, simultaneously
  for the 19 functions of the mutual block such programs can reach (`all_perm_irrelevant_partial`).  No outcome is
  excluded: out-of-fuel and `unsupported` outcomes are RELATED too (same `Fail` value on both sides).
  No hypothesis on `Loader.nativeSem` is needed, because a call-free program never reaches a native.

  WHAT IS MISSING for the full statement: the natives and `derefAssign` can GROW a twin cell (`append`, `put`,
  `m[k] = v`, `set + x`) by a key that is not comparable with the keys already there (a date into a set of numbers,
  `C12.totalOn_necessary`), or is not atomic (a list that is mutated later); after that the two runs really diverge
  (`growth_exposes_storage_order`, `mutable_keys_expose_storage_order`).  The growth lemmas with the exact side
  condition are proved (`cellTw_setAdd`, `cellTw_mapDel`, `cellTw_filter_set`); a whole-program theorem for programs
  with calls needs a run-time monitor ("no twin cell is grown by an incompatible key"), which a big-step evaluator
  without a trace cannot express as a hypothesis on the start state.
-/
import CklVerif.Lemmas.C12SimEval
import CklVerif.Driver.EvalCmd

set_option linter.unusedSimpArgs false
set_option linter.unusedVariables false

namespace Ckl.C12S
open Ckl Ckl.C12

/-! ### flagship (partial: call-free programs) -/

/-- **eval_perm_irrelevant_partial**: for every loader, all fuel, every environment and every call-free program:
    started in two states that differ only in the storage order of set / map cells, `eval` ends with the same
    outcome constructor, the same value / error value / message / position / trace / failure, and final states that
    again differ only in the storage order.  Out-of-fuel and `unsupported` outcomes are not excluded: they are the
    same on both sides. -/
theorem eval_perm_irrelevant_partial (ld : Loader) (fuel : Nat) (env : EnvId) (n : Node) (hcf : cfN n = true)
    {s t : State} (h : PermSt s t) : OutR (eval ld fuel env n s) (eval ld fuel env n t) :=
  ((sAll ld fuel).eval env n hcf).run s t h

/-- … simultaneously for the 19 functions of the mutual block that a call-free program can reach -/
theorem all_perm_irrelevant_partial (ld : Loader) (fuel : Nat) : SAll ld fuel := sAll ld fuel

/-! ### corollaries -/

/-- `Interpreter.interpret` -/
theorem interpretProg_perm_irrelevant_partial (ld : Loader) (fuel : Nat) (senv : EnvId) (n : Node) (hcf : cfN n = true)
    {s t : State} (h : PermSt s t) : OutR (interpretProg ld fuel senv n s) (interpretProg ld fuel senv n t) := by
  have : Sim (interpretProg ld fuel senv n) (interpretProg ld fuel senv n) := by
    unfold interpretProg
    apply Sim.bind ((sAll ld fuel).eval senv n hcf)
    intro r
    sim
  exact this.run s t h

/-- the state an outcome ends in -/
def outState {α} : Out α → State
  | .ok _ s => s
  | .err _ _ _ _ s => s
  | .fail _ s => s

theorem OutR.state {α} {o o' : Out α} (h : OutR o o') : PermSt (outState o) (outState o') := by
  rcases h.cases with ⟨a, s, t, rfl, rfl, hp⟩ | ⟨v, m, p, tr, s, t, rfl, rfl, hp⟩ | ⟨f, s, t, rfl, rfl, hp⟩ <;> exact hp

/-- a session: the programs are interpreted one after the other on the same interpreter, each starting in the
    state the previous one ended in (whatever its outcome) -/
def sessionOuts (ld : Loader) (fuel : Nat) (senv : EnvId) : List Node → State → List (Out RVal)
  | [], _ => []
  | p :: ps, s => interpretProg ld fuel senv p s :: sessionOuts ld fuel senv ps (outState (interpretProg ld fuel senv p s))

/-- **session_perm_irrelevant_partial**: whole sessions of interpret calls answer the same -/
theorem session_perm_irrelevant_partial (ld : Loader) (fuel : Nat) (senv : EnvId) :
    ∀ (ps : List Node), (∀ p ∈ ps, cfN p = true) → ∀ {s t : State}, PermSt s t →
      List.Forall₂ OutR (sessionOuts ld fuel senv ps s) (sessionOuts ld fuel senv ps t)
  | [], _, _, _, _ => List.Forall₂.nil
  | p :: ps, hcf, s, t, h => by
    have h1 := interpretProg_perm_irrelevant_partial ld fuel senv p (hcf p (by simp)) h
    exact List.Forall₂.cons h1
      (session_perm_irrelevant_partial ld fuel senv ps (fun q hq => hcf q (by simp [hq])) h1.state)

/-- **output_perm_irrelevant**: related outcomes have printed the same text -/
theorem output_perm_irrelevant {α} {o o' : Out α} (h : OutR o o') : (outState o).out = (outState o').out :=
  h.state.out

theorem output_perm_irrelevant_partial (ld : Loader) (fuel : Nat) (senv : EnvId) (n : Node) (hcf : cfN n = true)
    {s t : State} (h : PermSt s t) :
    (outState (interpretProg ld fuel senv n s)).out = (outState (interpretProg ld fuel senv n t)).out :=
  output_perm_irrelevant (interpretProg_perm_irrelevant_partial ld fuel senv n hcf h)

/-- **result_render_perm_irrelevant**: when the first run yields the value `v`, the second yields the same value,
    and its rendered text (`string(v)`, what the REPL prints) is the same -/
theorem result_render_perm_irrelevant_partial (ld : Loader) (fuel : Nat) (senv : EnvId) (n : Node) (hcf : cfN n = true)
    {s t : State} (h : PermSt s t) {v : RVal} {s' : State} (hv : interpretProg ld fuel senv n s = .ok v s') :
    ∃ t', interpretProg ld fuel senv n t = .ok v t' ∧ PermSt s' t' ∧ rrender t' v = rrender s' v := by
  have h1 := interpretProg_perm_irrelevant_partial ld fuel senv n hcf h
  rw [hv] at h1
  rcases h1.cases with ⟨a, s1, t1, e1, e2, h3⟩ | ⟨v, m, p, tr, s1, t1, e1, e2, h3⟩ | ⟨f, s1, t1, e1, e2, h3⟩
  · cases e1
    exact ⟨t1, e2, h3, h3.rrender _⟩
  · cases e1
  · cases e1

/-- errors: the same error value, message, position and trace -/
theorem error_perm_irrelevant_partial (ld : Loader) (fuel : Nat) (senv : EnvId) (n : Node) (hcf : cfN n = true)
    {s t : State} (h : PermSt s t) {v : RVal} {m : String} {p : Pos} {tr : List (String × Pos)} {s' : State}
    (hv : interpretProg ld fuel senv n s = .err v m p tr s') :
    ∃ t', interpretProg ld fuel senv n t = .err v m p tr t' ∧ PermSt s' t' := by
  have h1 := interpretProg_perm_irrelevant_partial ld fuel senv n hcf h
  rw [hv] at h1
  rcases h1.cases with ⟨a, s1, t1, e1, e2, h3⟩ | ⟨v, m, p, tr, s1, t1, e1, e2, h3⟩ | ⟨f, s1, t1, e1, e2, h3⟩
  · cases e1
  · cases e1
    exact ⟨t1, e2, h3⟩
  · cases e1

/-! ### the state-level facts, for every pair of related states (no restriction on programs) -/

theorem rveq_permSt {s t : State} (h : PermSt s t) (u v : RVal) : rveq t u v = rveq s u v := h.rveq u v
theorem reify_permSt {s t : State} (h : PermSt s t) (v : RVal) : reify t v = reify s v := h.reify v
theorem rvlt_permSt {s t : State} (h : PermSt s t) (u v : RVal) : rvlt t u v = rvlt s u v := h.rvlt u v
theorem rrender_permSt {s t : State} (h : PermSt s t) (v : RVal) : rrender t v = rrender s v := h.rrender v
theorem typeName_permSt {s t : State} (h : PermSt s t) (v : RVal) : typeName t v = typeName s v := h.typeName v
theorem sortedR_permSt {s t : State} (h : PermSt s t) {xs ys : List RVal} (hp : xs.Perm ys) (ht : AtomTotal xs) :
    sortedR t ys = sortedR s xs := h.sortedR_tw hp ht
theorem sortedEntriesR_permSt {s t : State} (h : PermSt s t) {xs ys : List (RVal × RVal)} (hp : xs.Perm ys)
    (ht : AtomTotalK xs) : sortedEntriesR t ys = sortedEntriesR s xs := h.sortedEntriesR_tw hp ht
theorem mapGet_permSt {s t : State} (h : PermSt s t) (k : RVal) {xs ys : List (RVal × RVal)} (hp : xs.Perm ys)
    (ht : AtomTotalK xs) : mapGet t k ys = mapGet s k xs := h.mapGet_tw k hp ht
theorem memR_permSt {s t : State} (h : PermSt s t) (x : RVal) {xs ys : List RVal} (hp : xs.Perm ys) :
    memR t x ys = memR s x xs := h.memR_tw x hp

/-- the helpers of the evaluator (every program, with or without calls) -/
theorem destructure_permSt (v : RVal) (count : Nat) (pos : Pos) {s t : State} (h : PermSt s t) :
    OutR (destructure v count pos s) (destructure v count pos t) := (destructure_sim v count pos).run s t h
theorem spreadValues_permSt (v : RVal) (pos : Pos) {s t : State} (h : PermSt s t) :
    OutR (spreadValues v pos s) (spreadValues v pos t) := (spreadValues_sim v pos).run s t h
theorem collectionValues_permSt (v : RVal) (w : Option String) (pos : Pos) {s t : State} (h : PermSt s t) :
    OutR (collectionValues v w pos s) (collectionValues v w pos t) := (collectionValues_sim v w pos).run s t h
theorem bindLoopVars_permSt (env : EnvId) (ids : List String) (v : RVal) (pos : Pos) {s t : State} (h : PermSt s t) :
    OutR (bindLoopVars env ids v pos s) (bindLoopVars env ids v pos t) := (bindLoopVars_sim env ids v pos).run s t h
theorem assignAll_permSt (env : EnvId) (xs : List String) (items : List RVal) (i : Nat) (last : RVal) (pos : Pos)
    {s t : State} (h : PermSt s t) :
    OutR (assignAll env xs items i last pos s) (assignAll env xs items i last pos t) :=
  (assignAll_sim env xs items i last pos).run s t h
theorem defAll_permSt (env : EnvId) (xs : List String) (items : List RVal) (i : Nat) (last : RVal)
    {s t : State} (h : PermSt s t) : OutR (defAll env xs items i last s) (defAll env xs items i last t) :=
  (defAll_sim env xs items i last).run s t h
theorem comprResult_permSt (kind : ComprKind) (out : List (RVal × RVal)) {s t : State} (h : PermSt s t) :
    OutR (comprResult kind out s) (comprResult kind out t) := (comprResult_sim kind out).run s t h
theorem addSet_permSt (items : List RVal) {s t : State} (h : PermSt s t) :
    OutR (addSet items s) (addSet items t) := (addSet_sim items).run s t h
theorem asStringM_permSt (v : RVal) (pos : Pos) {s t : State} (h : PermSt s t) :
    OutR (asStringM v pos s) (asStringM v pos t) := (asStringM_sim v pos).run s t h

/-! ### non-vacuity: a 3-element set, its twin, and a program that enumerates it in three ways -/

theorem atomTotal_ints {l : List Int} (h : l.Nodup) : AtomTotal (l.map RVal.int) where
  keyed x hx := by
    obtain ⟨a, _, rfl⟩ := List.mem_map.mp hx
    exact ⟨.int a, rfl⟩
  kind := by
    rw [List.pairwise_map]
    refine List.Pairwise.imp ?_ h
    intro a b _ v w hv hw
    cases hv; cases hw; simp [SameKind]
  distinct := by
    rw [List.pairwise_map]
    refine List.Pairwise.imp ?_ h
    intro a b hab v w hv hw
    cases hv; cases hw
    simpa [veq] using hab

/-- the session frame binds `x` to the set cell 0 -/
def fr0 : Frame := { vars := [("x", .ref 0)], parent := none }
/-- `<<3, 1, 2>>` in two storage orders -/
def s3A : State := { frames := #[fr0], heap := #[.set [.int 3, .int 1, .int 2]] }
def s3B : State := { frames := #[fr0], heap := #[.set [.int 2, .int 3, .int 1]] }

theorem permSt_s3 : PermSt s3A s3B := by
  refine ⟨rfl, rfl, rfl, rfl, rfl, rfl, rfl, rfl, fun a => ?_⟩
  rcases a with _ | a
  · refine Or.inr ⟨?_, atomTotal_ints (l := [3, 1, 2]) (by decide)⟩
    exact List.perm_append_comm (l₁ := [RVal.int 3, .int 1]) (l₂ := [.int 2])
  · show OCellR (#[Cell.set [.int 3, .int 1, .int 2]][a + 1]?) (#[Cell.set [.int 2, .int 3, .int 1]][a + 1]?)
    simp [OCellR]

/-- `[[...x], [y for y in x], for y in x do y]`: spread, comprehension, for loop (its value is the LAST element
    of the enumeration) -/
def prog3 : Node :=
  .list [.list [.spread (.ident "x" {}) {}] {},
         .compr .list .single (.ident "y" {}) .absent "y" (.ident "x" {}) none "" .absent none .absent {},
         .for ["y"] (.ident "x" {}) (.ident "y" {}) "" {}] {}

example : cfN prog3 = true := by decide

/-- the theorem applies to the instance … -/
example : OutR (interpretProg {} 10 0 prog3 s3A) (interpretProg {} 10 0 prog3 s3B) :=
  interpretProg_perm_irrelevant_partial {} 10 0 prog3 (by decide) permSt_s3

/-- the rendered result of an outcome -/
def renderOut : Out RVal → Option (List Char)
  | .ok v s => rrender s v
  | _ => none

-- … and both runs do give the sorted enumeration three times (a test of the instance, not a theorem)
#guard renderOut (interpretProg {} 10 0 prog3 s3A) == some "[[1, 2, 3], [1, 2, 3], 3]".toList
#guard renderOut (interpretProg {} 10 0 prog3 s3B) == some "[[1, 2, 3], [1, 2, 3], 3]".toList

example : ∀ v s', interpretProg {} 10 0 prog3 s3A = .ok v s' →
    ∃ t', interpretProg {} 10 0 prog3 s3B = .ok v t' ∧ PermSt s' t' ∧ rrender t' v = rrender s' v :=
  fun _ _ hv => result_render_perm_irrelevant_partial {} 10 0 prog3 (by decide) permSt_s3 hv
example := session_perm_irrelevant_partial {} 10 0 [prog3, prog3] (by decide) permSt_s3
example := output_perm_irrelevant_partial {} 10 0 prog3 (by decide) permSt_s3
example := eval_perm_irrelevant_partial {} 10 0 prog3 (by decide) permSt_s3
example := rrender_permSt permSt_s3 (.ref 0)
example := sortedR_permSt permSt_s3 (xs := [.int 3, .int 1, .int 2]) (ys := [.int 3, .int 1, .int 2]) (List.Perm.refl _)
  (atomTotal_ints (l := [3, 1, 2]) (by decide))
example := destructure_permSt (.ref 0) 2 {} permSt_s3
example := spreadValues_permSt (.ref 0) {} permSt_s3
example := collectionValues_permSt (.ref 0) none {} permSt_s3


/-! ### findings: why the theorem cannot be stated for programs with calls / element assignment

  F-C12Sim-1 (growth by an incomparable key).  `gA`, `gB` are related (`permSt_g`: the set `<<3, 2024>>` in two
  storage orders, keys atomic and totally ordered).  The program `append(x, d); [...x]` with `d` a date grows the
  twin cell by a key that is not comparable with the numbers (`C12.totalOn_necessary`); the sorted enumeration of the
  grown cell then depends on the storage order, and the two runs return DIFFERENT lists.  So the unrestricted
  `eval_perm_irrelevant` is false in the model (and, for sets mixing dates and numbers, in the interpreter: known
  finding F-C12a).  `sortedR` does not signal this: it returns `none` only for non-data elements.
  The weakest hypothesis that excludes it is dynamic: "no twin cell is ever grown (`append`, `put`, `m[k] = v`,
  `set + x`) to a key list that is not `AtomTotal`" — see `cellTw_setAdd` for the exact side condition. -/

def frG : Frame := { vars := [("x", .ref 0), ("d", .date D0), ("append", .native "append" 0)], parent := none }
def gA : State := { frames := #[frG], heap := #[.set [.int 3, .int 2024]] }
def gB : State := { frames := #[frG], heap := #[.set [.int 2024, .int 3]] }

theorem permSt_g : PermSt gA gB := by
  refine ⟨rfl, rfl, rfl, rfl, rfl, rfl, rfl, rfl, fun a => ?_⟩
  rcases a with _ | a
  · exact Or.inr ⟨List.Perm.swap _ _ _, atomTotal_ints (l := [3, 2024]) (by decide)⟩
  · show OCellR (#[Cell.set [.int 3, .int 2024]][a + 1]?) (#[Cell.set [.int 2024, .int 3]][a + 1]?)
    simp [OCellR]

/-- `append(x, d); [...x]` -/
def progG : Node :=
  .block [.call (.ident "append" {}) [none, none] [.ident "x" {}, .ident "d" {}] {},
          .list [.spread (.ident "x" {}) {}] {}] [] [] [] false {}

example : cfN progG = false := by decide

-- witness (a test, evaluated by `#guard`): related start states, different results
#guard renderOut (interpretProg {} 20 0 progG gA) == some "[3, 2024, 20240101000000]".toList
#guard renderOut (interpretProg {} 20 0 progG gB) == some "[2024, 20240101000000, 3]".toList

/-! F-C12Sim-2 (mutable keys).  Keys of twin cells must be ATOMIC: with list keys, a later mutation can make two
  keys equal, and `mapGet` then returns the value of whichever entry is stored first.  Heap: three lists `[1]`;
  the map has the keys `ref 0`, `ref 1` (equal after a mutation such as `l[0] = 1`); looking up `ref 2`: -/

def hM : State := { heap := #[.list [.int 1], .list [.int 1], .list [.int 1]] }

-- witness (a test): the same entries in two storage orders, different answers
#guard (match mapGet hM (.ref 2) [(.ref 0, .str ['a']), (.ref 1, .str ['b'])] with | some (.str ['a']) => true | _ => false)
#guard (match mapGet hM (.ref 2) [(.ref 1, .str ['b']), (.ref 0, .str ['a'])] with | some (.str ['b']) => true | _ => false)

/-- with atomic, pairwise different keys this cannot happen: at most one key equals the key looked up -/
example := atomTotalK_unique hM (.int 1)
  (kvs := [(.int 1, .str ['a']), (.int 2, .str ['b'])])
  (by
    have := atomTotal_ints (l := [1, 2]) (by decide)
    exact ⟨fun kv hkv => by
        simp only [List.mem_cons, List.not_mem_nil, or_false] at hkv
        rcases hkv with rfl | rfl <;> exact ⟨_, rfl⟩,
      by
        refine List.Pairwise.cons ?_ (List.Pairwise.cons (by simp) List.Pairwise.nil)
        intro y hy v w hv hw
        simp only [List.mem_cons, List.not_mem_nil, or_false] at hy
        subst hy; cases hv; cases hw; simp [SameKind],
      by
        refine List.Pairwise.cons ?_ (List.Pairwise.cons (by simp) List.Pairwise.nil)
        intro y hy v w hv hw
        simp only [List.mem_cons, List.not_mem_nil, or_false] at hy
        subst hy; cases hv; cases hw; decide⟩)

/-! mutation keeps twins twins when the side condition holds -/
example := cellTw_filter_set (List.Perm.swap (RVal.int 1) (.int 2) []) (atomTotal_ints (l := [2, 1]) (by decide))
  (fun _ => true)
example := cellTw_setAdd hM (.int 3) (List.Perm.swap (RVal.int 1) (.int 2) [])
  (by
    have : setAdd hM (.int 3) [.int 2, .int 1] = [.int 2, .int 1, .int 3] := by rfl
    rw [this]; exact atomTotal_ints (l := [2, 1, 3]) (by decide))

end Ckl.C12S
