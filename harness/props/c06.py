"""C06 Equality is an equivalence that set membership and map lookup respect."""
import itertools
from fractions import Fraction

from harness import core, proto, genvalues as G
from harness.props import common


# ------------------------------------------------------------ reference equality (the specification)

def ref_eq(a, b):
    ta, tb = a[0], b[0]
    num = ('i', 'd')
    if ta in num and tb in num:
        return Fraction(a[1]) == Fraction(b[1])
    if ta != tb:
        return False
    if ta in ('null',):
        return True
    if ta in ('b', 's', 'p', 'dt'):
        return a[1] == b[1]
    if ta == 'l':
        return len(a[1]) == len(b[1]) and all(ref_eq(x, y) for x, y in zip(a[1], b[1]))
    if ta == 'S':
        xs, ys = dedup(a[1]), dedup(b[1])
        return len(xs) == len(ys) and all(any(ref_eq(x, y) for y in ys) for x in xs)
    if ta == 'm':
        xs, ys = dedup_map(a[1]), dedup_map(b[1])
        if len(xs) != len(ys):
            return False
        for k, v in xs:
            hit = [v2 for k2, v2 in ys if ref_eq(k, k2)]
            if not hit or not ref_eq(v, hit[0]):
                return False
        return True
    raise ValueError(a)


def dedup(items):
    out = []
    for x in items:
        if not any(ref_eq(x, y) for y in out):
            out.append(x)
    return out


def dedup_map(kvs):
    out = []
    for k, v in kvs:
        for i, (k2, _) in enumerate(out):
            if ref_eq(k, k2):
                out[i] = (k2, v)
                break
        else:
            out.append((k, v))
    return out


def kind(a):
    return 'num' if a[0] in ('i', 'd') else a[0]


# ------------------------------------------------------------ pool

def build_pool(ctx, n):
    rng = ctx.rng
    pool = [('null',), ('b', True), ('b', False), ('i', 0), ('d', 0.0), ('i', 1), ('d', 1.0), ('s', '1'), ('s', ''),
            ('i', 2 ** 53), ('d', float(2 ** 53)), ('i', 2 ** 53 + 1), ('i', 2 ** 53 - 1), ('d', 9007199254740994.0),
            ('i', 10 ** 20), ('d', 1e20), ('d', 0.5), ('i', -1), ('d', -1.0), ('s', 'a'), ('p', 'a'), ('s', 'TRUE'),
            ('dt', (2020, 1, 1, 0, 0, 0, 0)), ('s', '20200101000000'), ('l', ()), ('S', ()), ('m', ()),
            ('l', (('i', 1),)), ('l', (('d', 1.0),)), ('S', (('i', 1),)), ('S', (('d', 1.0),)),
            ('S', (('i', 1), ('i', 2))), ('S', (('i', 2), ('i', 1))), ('S', (('d', 2.0), ('i', 1))),
            ('m', ((('i', 1), ('s', 'x')),)), ('m', ((('d', 1.0), ('s', 'x')),)),
            ('m', ((('s', 'a'), ('i', 1)), (('s', 'b'), ('i', 2)))), ('m', ((('s', 'b'), ('i', 2)), (('s', 'a'), ('d', 1.0)))),
            ('l', (('S', (('i', 1), ('i', 2))), ('null',))), ('l', (('S', (('i', 2), ('d', 1.0))), ('null',))),
            ('S', (('l', (('i', 1),)), ('l', (('d', 1.0),)))),
            # the band where a host hash of an int and of the equal float are reduced differently unless both go through the same
            # reduction (CPython: modulus 2^61 - 1, word size 2^63) -- numerically equal means equal as element / key at every magnitude
            ('i', 2 ** 61 - 1), ('i', 2 ** 61), ('d', float(2 ** 61)), ('i', 2 ** 62), ('d', float(2 ** 62)), ('i', -(2 ** 62)), ('d', -float(2 ** 62)),
            ('i', 2 ** 63 - 1024), ('d', float(2 ** 63 - 1024)), ('i', 2 ** 63), ('d', float(2 ** 63)), ('i', 3 * 2 ** 60), ('d', float(3 * 2 ** 60)),
            ('S', (('i', 2 ** 62),)), ('S', (('d', float(2 ** 62)),)), ('m', ((('i', 2 ** 62), ('s', 'x')),)), ('m', ((('d', float(2 ** 62)), ('s', 'x')),))]
    while len(pool) < n:
        v = G.rand_value(rng, depth=3)
        if G.has_date_number_mix(v) or G.is_negzero(v):
            continue
        pool.append(v)
        # an equal-but-distinct twin: ints <-> integral decimals, reversed insertion orders
        if rng.random() < 0.4:
            pool.append(twin(v, rng))
    return pool[:max(n, 58)]


def twin(v, rng):
    t = v[0]
    if t == 'i' and (abs(v[1]) <= 2 ** 53 or (abs(v[1]) < 2 ** 1000 and int(float(v[1])) == v[1])):
        return ('d', float(v[1]))
    if t == 'd' and v[1] == int(v[1]) and abs(v[1]) < 1e30:
        return ('i', int(v[1]))
    if t == 'l':
        return ('l', tuple(twin(x, rng) for x in v[1]))
    if t == 'S':
        items = [twin(x, rng) for x in v[1]]
        rng.shuffle(items)
        return ('S', tuple(items))
    if t == 'm':
        items = [(twin(k, rng), twin(x, rng)) for k, x in v[1]]
        rng.shuffle(items)
        return ('m', tuple(items))
    return v


# ------------------------------------------------------------ the check

def run(ctx):
    from ckl import values as V
    from ckl.interpreter import Interpreter
    n = 260 if ctx.thorough else 110
    pool = build_pool(ctx, n)
    ck = [proto.to_ckl(v) for v in pool]
    ctx.rule = ("all ordered pairs and sampled triples from a pool of generated data values (depth<=3, ints beyond 2^53, "
                "decimals by value and bit pattern, equal-but-distinct twins 1/1.0, shuffled insertion orders); equal pairs and unequal pairs (random, and numbers "
                "that differ only in the last place or beyond 2^53) through ==, !=, is, equals, in, find, map lookup, set de-duplication as programs; "
                "non-trivial = the pair/triple is not made of syntactically identical values")
    N = len(pool)
    # ---- pairs: implementation ==, hash; reference; model
    impl_eq = [[None] * N for _ in range(N)]
    reqs = []
    for i in range(N):
        for j in range(N):
            with core.time_limit(5):
                impl_eq[i][j] = bool(ck[i] == ck[j])
            reqs.append(f"(eq {proto.to_sx(pool[i])} {proto.to_sx(pool[j])})")
    resp = core.run_driver(reqs) if ctx.build.ok else None
    r = 0
    for i in range(N):
        for j in range(N):
            a, b = pool[i], pool[j]
            ctx.seen(("pair", proto.canon(a), proto.canon(b)), nontrivial=(i != j and a != b))
            want = ref_eq(a, b)
            got = impl_eq[i][j]
            if got != want:
                what = "reflexivity" if i == j else ("cross-kind values equal" if kind(a) != kind(b) else "equality differs from the definition")
                ctx.violation("oracle", f"{what}: ({proto.show(a)}) == ({proto.show(b)}) is {got}, expected {want}",
                              {"op": "eq", "a": proto.to_sx(a), "b": proto.to_sx(b), "impl": got, "expected": want})
            if impl_eq[j][i] is not None and impl_eq[j][i] != got and j < i:
                ctx.violation("oracle", f"symmetry: ({proto.show(a)}) == ({proto.show(b)}) is {got} but the converse is {impl_eq[j][i]}",
                              {"op": "eq-symm", "a": proto.to_sx(a), "b": proto.to_sx(b)})
            if got:
                ha, hb = hash(ck[i]), hash(ck[j])
                ctx.count("hash_checked")
                if ha != hb:
                    ctx.violation("oracle", f"equal values hash differently: {proto.show(a)} / {proto.show(b)}",
                                  {"op": "hash", "a": proto.to_sx(a), "b": proto.to_sx(b)})
            if resp is not None:
                m = resp[r] == "(ok 1)"
                if resp[r] not in ("(ok 1)", "(ok 0)"):
                    raise RuntimeError("driver: " + resp[r])
                if m != got:
                    ctx.disagreements += 1
                    ctx.violation("correspondence", f"model veq={m} implementation=={got} on {proto.show(a)} / {proto.show(b)}",
                                  {"op": "eq", "a": proto.to_sx(a), "b": proto.to_sx(b), "impl": got, "model": m,
                                   "correspondence": "Ckl.veq vs Value.__eq__"})
            r += 1
    ctx.count("pairs", N * N)
    # ---- transitivity on triples (all triples through equal pairs + random ones)
    eq_pairs = [(i, j) for i in range(N) for j in range(N) if i != j and impl_eq[i][j]]
    triples = 0
    for (i, j) in eq_pairs:
        for k in range(N):
            if impl_eq[j][k] and not impl_eq[i][k]:
                ctx.violation("oracle", f"transitivity: {proto.show(pool[i])} == {proto.show(pool[j])} == {proto.show(pool[k])} but first != third",
                              {"op": "eq-trans", "a": proto.to_sx(pool[i]), "b": proto.to_sx(pool[j]), "c": proto.to_sx(pool[k])})
            triples += 1
            ctx.seen(("triple", i, j, k), nontrivial=len({i, j, k}) == 3)
    ctx.count("triples", triples)
    # ---- containers respect equality: membership, lookup, removal, dedup
    classes = []
    for i in range(N):
        for c in classes:
            if ref_eq(pool[c[0]], pool[i]):
                c.append(i)
                break
        else:
            classes.append([i])
    rng = ctx.rng
    rounds = 400 if ctx.thorough else 120
    for _ in range(rounds):
        idxs = [rng.randrange(N) for _ in range(rng.randint(1, 5))]
        # all insertion orders of up to 5 elements (<= 120 permutations), sampled when thorough is off
        perms = list(itertools.permutations(idxs))
        if not ctx.thorough and len(perms) > 24:
            perms = rng.sample(perms, 24)
        distinct = len(dedup([pool[i] for i in idxs]))
        first_set = None
        for perm in perms:
            s = V.ValueSet()
            m = V.ValueMap()
            for i in perm:
                s.addItem(ck[i])
                m.addItem(ck[i], V.ValueInt(i))
            ctx.seen(("ins", tuple(perm)), nontrivial=len(set(perm)) > 1)
            if len(s.value) != distinct or len(m.value) != distinct:
                ctx.violation("oracle", f"a set built from {[proto.show(pool[i]) for i in perm]} holds {len(s.value)} elements, {distinct} distinct values",
                              {"op": "set-dedup", "items": [proto.to_sx(pool[i]) for i in perm]})
            if first_set is None:
                first_set = (s, m)
            else:
                if not (s == first_set[0]) or not (first_set[0] == s) or hash(s) != hash(first_set[0]):
                    ctx.violation("oracle", "sets with the same elements in different insertion orders are not equal (or hash differently)",
                                  {"op": "set-order", "items": [proto.to_sx(pool[i]) for i in perm]})
                if set(m.value.keys()) != set(first_set[1].value.keys()):
                    ctx.violation("oracle", "maps with the same keys in different insertion orders have different key sets",
                                  {"op": "map-order", "items": [proto.to_sx(pool[i]) for i in perm]})
            # membership / lookup with every representative of every class
            for c in classes:
                inside = any(ref_eq(pool[c[0]], pool[i]) for i in perm)
                for rep in c[:3]:
                    if s.hasItem(ck[rep]) != inside or m.hasItem(ck[rep]) != inside:
                        ctx.violation("oracle", f"membership of {proto.show(pool[rep])} in a container of {[proto.show(pool[i]) for i in perm]} is not {inside}",
                                      {"op": "member", "x": proto.to_sx(pool[rep]), "items": [proto.to_sx(pool[i]) for i in perm]})
                ctx.count("membership_checks")
    # ---- through interpreted programs: ==, in, map lookup, remove with either representative
    it = Interpreter(True, False)
    progs = 0
    for (i, j) in (eq_pairs if ctx.thorough else eq_pairs[:400]):
        env = it.environment
        env.put("a", ck[i])
        env.put("b", ck[j])
        env.put("c", ck[rng.randrange(N)])
        for src, want in [("a == b", "TRUE"), ("a != b", "FALSE"), ("b in <<a>>", "TRUE"), ("a in [b]", "TRUE"),
                          ("def m1_ = <<<>>>; m1_[a] = 1; m1_[b]", "1"), ("<<a, b>> == <<b>>", "TRUE"), ("length(<<a, b>>)", "1"),
                          ("[a, c] == [b, c]", "TRUE"), ("def m2_ = <<<>>>; m2_[c] = a; def m3_ = <<<>>>; m3_[c] = b; m2_ == m3_", "TRUE"),
                          ("def s_ = <<a, c>>; remove(s_, b); a in s_", "FALSE"),
                          ("def m_ = <<<>>>; m_[a] = 1; m_[c] = 2; remove(m_, b); a in m_", "FALSE")]:
            try:
                with core.time_limit(5):
                    got = str(it.interpret(src, "c06"))
            except (Exception, core.Timeout) as e:   # noqa
                got = "EXC " + type(e).__name__ + ": " + str(e)[:80]
            progs += 1
            # remove(m_, b) then a in m_ : c may equal a, then removal of a leaves c's entry only if c != a
            if "remove" in src and ref_eq(pool[i], proto.from_ckl(env.get("c"))):
                continue
            if got != want:
                ctx.violation("oracle", f"`{src}` with a={proto.show(pool[i])}, b={proto.show(pool[j])} gives {got}, expected {want}",
                              {"op": "program", "src": src, "a": proto.to_sx(pool[i]), "b": proto.to_sx(pool[j])})
    # ---- equal sets / maps are interchangeable as set elements and map keys WHATEVER order they were built in — also collections whose
    # elements have no consistent cross-kind order (a date among ints: enumeration order then depends on the construction order, equality and
    # hashing must not)
    mixes = [["date('20170405')", "3", "11"], ["date('20200229')", "100", "3", "20"], ["'b'", "2", "date('20170405')", "10"], ["1", "2", "3"], ["'x'", "'y'", "10", "9"]]
    for elems in mixes:
        perms = list(itertools.permutations(elems))[:6]
        for p1 in perms:
            for p2 in perms:
                a_, b_ = "<<" + ", ".join(p1) + ">>", "<<" + ", ".join(p2) + ">>"
                ma, mb = "<<<" + ", ".join(f"{x} => 1" for x in p1) + ">>>", "<<<" + ", ".join(f"{x} => 1" for x in p2) + ">>>"
                src = (f"def a = {a_}; def b = {b_}; def ma = {ma}; def mb = {mb}; def k_ = <<<>>>; k_[a] = 'v'; def k2_ = <<<>>>; k2_[ma] = 'w'; "
                       f"[a == b, a in <<b>>, length(<<a, b>>), k_[b, 'none'], a in [b], ma == mb, ma in <<mb>>, length(<<ma, mb>>), k2_[mb, 'none'], <<a>> == <<b>>]")
                want = "[TRUE, TRUE, 1, 'v', TRUE, TRUE, TRUE, 1, 'w', TRUE]"
                try:
                    with core.time_limit(5):
                        it.environment.map.clear()
                        got = str(it.interpret(src, "c06"))
                except (Exception, core.Timeout) as e:   # noqa
                    got = "EXC " + type(e).__name__ + ": " + str(e)[:80]
                progs += 1
                ctx.count("construction_order_equal_collections")
                if got != want:
                    ctx.violation("oracle", f"`{src}` gives {got}, expected {want}", {"op": "program", "src": src, "a": "(null)", "b": "(null)"})
    # ---- a value that was used as a probe (hashed, compared) and is then CHANGED in place answers like its new value from then on:
    # membership, map lookup, ==, find — against fresh literals of the old and of the new value (the stored elements are never touched)
    hist = [("[1, 2]", "p_[0] = 5", "[5, 2]"), ("[1, 2]", "p_[1] += 1", "[1, 3]"), ("[1, 2]", "append(p_, 3)", "[1, 2, 3]"), ("[1, 2]", "delete_at(p_, 0)", "[2]"),
            ("[1, 2]", "insert_at(p_, 0, 0)", "[0, 1, 2]"), ("[[1], 2]", "p_[0][0] = 9", "[[9], 2]"), ("[[1], 2]", "append(p_[0], 9)", "[[1, 9], 2]"),
            ("[<<<'k' => 1>>>]", "p_[0]['k'] = 2", "[<<<'k' => 2>>>]"), ("[<<1>>]", "append(p_[0], 2)", "[<<1, 2>>]"), ("<<1, 2>>", "append(p_, 3)", "<<1, 2, 3>>"),
            ("<<1, 2>>", "remove(p_, 2)", "<<1>>"), ("<<<'a' => 1>>>", "p_['a'] = 2", "<<<'a' => 2>>>"), ("<<<'a' => 1>>>", "p_['b'] = 2", "<<<'a' => 1, 'b' => 2>>>"),
            ("<<<'a' => [1]>>>", "append(p_['a'], 2)", "<<<'a' => [1, 2]>>>"), ("[1.0, 2]", "p_[0] = 1", "[1, 2]"), ("[1, 2]", "p_[0] = 5; p_[0] = 1", "[1, 2]")]
    probes = ["p_ in s_", "p_ in t_", "m_[p_, 'none']", "p_ == o_", "p_ == n_", "find([n_, o_], p_)", "<<p_>> == <<n_>>", "length(<<p_, n_>>)", "p_ in [o_]", "p_ in [n_]"]
    for make, change, newlit in hist:
        same = make == newlit or (make, newlit) == ("[1.0, 2]", "[1, 2]")      # equal values: nothing may change
        pre = (f"def p_ = {make}; def o_ = {make}; def n_ = {newlit}; def s_ = << {make}, 'x' >>; def t_ = << {newlit}, 'y' >>; "
               f"def m_ = <<<>>>; m_[{make}] = 'old'; m_[{newlit}] = 'new'; ")
        body = "[" + ", ".join(probes) + "]"
        src = pre + f"def before_ = {body}; {change}; def after_ = {body}; [before_, after_]"
        if same:
            want_b = want_a = "[TRUE, TRUE, 'new', TRUE, TRUE, 0, TRUE, 1, TRUE, TRUE]"
        else:
            want_b = "[TRUE, FALSE, 'old', TRUE, FALSE, 1, FALSE, 2, TRUE, FALSE]"
            want_a = "[FALSE, TRUE, 'new', FALSE, TRUE, 0, TRUE, 1, FALSE, TRUE]"
        want = f"[{want_b}, {want_a}]"
        try:
            with core.time_limit(5):
                it.environment.map.clear()
                got = str(it.interpret(src, "c06"))
        except (Exception, core.Timeout) as e:   # noqa
            got = "EXC " + type(e).__name__ + ": " + str(e)[:80]
        progs += 1
        ctx.count("probe_mutation_histories")
        if got != want:
            ctx.violation("oracle", f"`{src}` gives {got}, expected {want}", {"op": "program", "src": src, "a": "(null)", "b": "(null)"})
    # ---- ... and on UNEQUAL values: the operators, membership, lookup and de-duplication all say "different";
    # numbers that differ only far behind the point (or beyond 2^53) are the interesting ones
    near = [(('d', 0.1 + 0.2), ('d', 0.3)), (('d', 1.0), ('d', 1.0000000000008)), (('i', 2 ** 53 + 1), ('d', float(2 ** 53))),
            (('d', 1e20), ('i', 10 ** 20 + 1)), (('d', 1e-300), ('d', 0.0)), (('i', 10 ** 30), ('d', 1e30)), (('d', 123456789.12345679), ('d', 123456789.12345678)),
            (('l', (('d', 0.1 + 0.2),)), ('l', (('d', 0.3),))), (('i', 3), ('d', 3.0000000000000004)), (('d', -2.5), ('d', -2.5000000000000004))]
    neq = [(pool[i], pool[j]) for i, j in [(rng.randrange(N), rng.randrange(N)) for _ in range(4000 if ctx.thorough else 600)] if not impl_eq[i][j]]
    neq = [(a, b) for a, b in neq if not ref_eq(a, b)][: (2000 if ctx.thorough else 300)]
    for a, b in near + [(y, x) for x, y in near] + neq:
        if ref_eq(a, b):
            continue
        env = it.environment
        env.put("a", proto.to_ckl(a))
        env.put("b", proto.to_ckl(b))
        ctx.seen(("neq-programs", proto.canon(a), proto.canon(b)), nontrivial=True)
        for src, want in [("a == b", "FALSE"), ("a != b", "TRUE"), ("a is b", "FALSE"), ("equals(a, b)", "FALSE"), ("not_equals(a, b)", "TRUE"), ("b in <<a>>", "FALSE"),
                          ("a in [b]", "FALSE"), ("length(<<a, b>>)", "2"), ("[a] == [b]", "FALSE"), ("<<a>> == <<b>>", "FALSE"),
                          ("def m1_ = <<<>>>; m1_[a] = 1; b in m1_", "FALSE"), ("(a == b) == (b == a)", "TRUE"), ("find([a], b)", "-1")]:
            try:
                with core.time_limit(5):
                    got = str(it.interpret(src, "c06"))
            except (Exception, core.Timeout) as e:   # noqa
                got = "EXC " + type(e).__name__ + ": " + str(e)[:80]
            progs += 1
            if got != want:
                ctx.violation("oracle", f"`{src}` with the different values a={proto.show(a)}, b={proto.show(b)} gives {got}, expected {want}",
                              {"op": "program", "src": src, "a": proto.to_sx(a), "b": proto.to_sx(b)})
    ctx.count("programs", progs)
    ctx.sample({"pair": [proto.show(pool[1]), proto.show(pool[2])], "equal": impl_eq[1][2]})
    for (i, j) in eq_pairs[:6]:
        ctx.sample({"equal_pair": [proto.show(pool[i]), proto.show(pool[j])]})
    common.replay_known(ctx)


def replay(ctx, payload):
    return common.generic_replay(ctx, payload)
