/-
  C09 (evaluator level): induction steps for the functions around calls (`invoke`, `callFn`,
  `sorted`) and modules (`evalRequire`, `loadModule`).
-/
import CklVerif.Lemmas.C09EvalMutual
namespace Ckl.C09E
open Ckl

variable {E : List String} {b : Bool} {ld ld' : Loader} {fuel : Nat}

/-- the containment boundary of `invoke`: hard failures of the callee become runtime errors in
    the same state -/
theorem PresA.invokeTail {m m' : EvalM RVal} (hm : PresA E b m m') (g : State → String) (pos : Pos) :
    PresA E b
      (fun s1 =>
        match m s1 with
        | .err v msg p t s2 => .err v msg p (t ++ [(g s2, pos)]) s2
        | .fail (.syn e) s2 => .err (.str "ERROR".toList) e.msg pos [] s2
        | .fail (.host k) s2 => .err (.str "ERROR".toList) (g s2 ++ " failed: " ++ k) pos [] s2
        | other => other)
      (fun s1 =>
        match m' s1 with
        | .err v msg p t s2 => .err v msg p (t ++ [(g s2, pos)]) s2
        | .fail (.syn e) s2 => .err (.str "ERROR".toList) e.msg pos [] s2
        | .fail (.host k) s2 => .err (.str "ERROR".toList) (g s2 ++ " failed: " ++ k) pos [] s2
        | other => other) := by
  refine ⟨fun s1 hs1 => ?_⟩
  obtain ⟨he, hp⟩ := hm.run s1 hs1
  rw [← he]
  refine ⟨rfl, ?_⟩
  revert hp
  cases m s1 with
  | ok a s2 => exact id
  | err v msg p t s2 => exact id
  | fail f s2 => cases f <;> intro h <;> first | exact h | exact ⟨h, trivial⟩

/-- the push / pop frame around `loadModule` in `evalRequire` -/
theorem PresA.popWrap {α} [Cl α] {m m' : EvalM α} (hm : PresA E b m m') (pop : State → State)
    (hpop : ∀ s, Inv E b s → Inv E b (pop s)) :
    PresA E b
      (fun s1 =>
        match m s1 with
        | .ok e s2 => .ok e (pop s2)
        | .err v msg p t s2 => .err v msg p t (pop s2)
        | .fail f s2 => .fail f (pop s2))
      (fun s1 =>
        match m' s1 with
        | .ok e s2 => .ok e (pop s2)
        | .err v msg p t s2 => .err v msg p t (pop s2)
        | .fail f s2 => .fail f (pop s2)) := by
  refine ⟨fun s1 hs1 => ?_⟩
  obtain ⟨he, hp⟩ := hm.run s1 hs1
  rw [← he]
  refine ⟨rfl, ?_⟩
  revert hp
  cases m s1 with
  | ok a s2 => exact fun h => ⟨hpop _ h.1, h.2⟩
  | err v msg p t s2 => exact fun h => ⟨hpop _ h.1, h.2⟩
  | fail f s2 => exact fun h => hpop _ h

theorem step_nativeSorted (ih : AllP E b ld ld' fuel) : ∀ bound env pos, Cl.cl E bound →
    PresA E b (nativeSorted ld (fuel+1) bound env pos) (nativeSorted ld' (fuel+1) bound env pos) := by
  have ih1 := ih.sortedOuter
  intro bound env pos hb
  simp only [Ckl.nativeSorted]; pa_auto

theorem step_sortedOuter (ih : AllP E b ld ld' fuel) :
    ∀ cmp key senv pos arr i, Cl.cl E cmp → Cl.cl E key → Cl.cl E arr →
      PresA E b (sortedOuter ld (fuel+1) cmp key senv pos arr i) (sortedOuter ld' (fuel+1) cmp key senv pos arr i) := by
  have ih1 := ih.sortedOuter; have ih2 := ih.sortedInner; have ih3 := ih.call1
  intro cmp key senv pos arr i hc hk ha
  simp only [Ckl.sortedOuter]; pa_auto

theorem step_sortedInner (ih : AllP E b ld ld' fuel) :
    ∀ cmp key senv pos arr v j, Cl.cl E cmp → Cl.cl E key → Cl.cl E arr → Cl.cl E v →
      PresA E b (sortedInner ld (fuel+1) cmp key senv pos arr v j)
        (sortedInner ld' (fuel+1) cmp key senv pos arr v j) := by
  have ih2 := ih.sortedInner; have ih3 := ih.call1; have ih4 := ih.call2
  intro cmp key senv pos arr v j hc hk ha hv
  cases j <;> simp only [Ckl.sortedInner] <;> pa_auto

theorem step_call1 (ih : AllP E b ld ld' fuel) : ∀ f x env pos, Cl.cl E f → Cl.cl E x →
    PresA E b (call1 ld (fuel+1) f x env pos) (call1 ld' (fuel+1) f x env pos) := by
  have ih1 := ih.callFn
  intro f x env pos hf hx
  simp only [Ckl.call1]; pa_auto

theorem step_call2 (ih : AllP E b ld ld' fuel) : ∀ f x y env pos, Cl.cl E f → Cl.cl E x → Cl.cl E y →
    PresA E b (call2 ld (fuel+1) f x y env pos) (call2 ld' (fuel+1) f x y env pos) := by
  have ih1 := ih.callFn
  intro f x y env pos hf hx hy
  simp only [Ckl.call2]; pa_auto

theorem step_invoke (hA : LdAgree ld ld') (ih : AllP E b ld ld' fuel) :
    ∀ fn pre names args env pos, Cl.cl E fn → Cl.cl E pre →
      PresA E b (invoke ld (fuel+1) fn pre names args env pos) (invoke ld' (fuel+1) fn pre names args env pos) := by
  have ih1 := ih.evalArgs; have ih2 := ih.callFn
  intro fn pre names args env pos hfn hpre
  simp only [Ckl.invoke, hA.nativeArgs]
  pa_auto
  all_goals (refine PresA.invokeTail (ih2 _ _ _ _ ?_ ?_) _ _ <;> cl_try)


/-- hypothesis on the uninterpreted natives: for every name outside `E`, called with clean
    arguments, the two interpretations agree, keep the invariant and return a clean value -/
def NativeOK (E : List String) (b : Bool) (ld ld' : Loader) : Prop :=
  ∀ name, name ∉ E → ∀ args, Cl.cl E args → PresA E b (ld.nativeSem name args) (ld'.nativeSem name args)

/-- the names to avoid are effectful names, and are only avoided in secure mode -/
def EffOK (E : List String) (b : Bool) (ld : Loader) : Prop :=
  ∀ nm, nm ∈ E → b = true ∧ nm ∈ ld.effectful

/-- what `bind_native` binds outside its refusal branch is clean -/
theorem clean_bound (hE : EffOK E b ld) {s : State} {nm : String}
    (h : ¬ (s.secure && ld.effectful.contains nm) = true) (hs : Inv E b s) (i : Nat) :
    Cl.cl E (RVal.native nm i) := by
  simp only [clsimp]
  intro hmem
  obtain ⟨hb1, hb2⟩ := hE _ hmem
  apply h
  rw [hs.secure, hb1]
  simpa using hb2

theorem step_callFn (hA : LdAgree ld ld') (hE : EffOK E b ld) (hN : NativeOK E b ld ld')
    (ih : AllP E b ld ld' fuel) : ∀ fn bound env pos, Cl.cl E fn → Cl.cl E bound →
      PresA E b (callFn ld (fuel+1) fn bound env pos) (callFn ld' (fuel+1) fn bound env pos) := by
  have ih1 := ih.eval; have ih2 := ih.bindParams; have ih3 := ih.nativeSorted
  intro fn bound env pos hfn hb
  cases fn
  case native name inst =>
    have hN' := hN name (by simpa only [clsimp] using hfn)
    simp only [Ckl.callFn, hA.knownNatives, hA.effectful]
    pa_auto
    all_goals exact clean_bound hE (by assumption) (by assumption) _
  all_goals (simp only [Ckl.callFn]; pa_auto)


/-- the part of `evalRequire` after the module specification has been computed -/
def reqTail (ld : Loader) (fuel : Nat) (env : EnvId) (name : Option String) (unq : Bool)
    (syms : Option (List (String × String))) (pos : Pos) (modulespec : String) : EvalM RVal := do
  let modulefile := if modulespec.endsWith ".ckl" then modulespec else modulespec ++ ".ckl"
  let last := (modulespec.splitOn "/").getLast!
  let ident := if last.endsWith ".ckl" then (last.dropEnd 4).toString else last
  let modulename := match name with
    | some n => if n = "" then ident else n
    | none => ident
  let s ← getS
  if s.modstack.contains ident then throwE ("Found circular module dependency (" ++ ident ++ ")") pos
  modifyS (fun s => { s with modstack := s.modstack ++ [ident] })
  let pop : State → State := fun s => { s with modstack := s.modstack.dropLast }
  let menv : EnvId ← (fun s1 =>
    match loadModule ld fuel env ident modulefile pos s1 with
    | .ok e s2 => .ok e (pop s2)
    | .err v m p t s2 => .err v m p t (pop s2)
    | .fail f s2 => .fail f (pop s2))
  let s ← getS
  let symbols := (s.localSymbols menv).filter (fun n => !n.startsWith "_")
  let valueOf := fun (n : String) => (s.lookup menv n).getD RVal.null
  if unq then do
    let exported := symbols.filter (fun n => !isModuleObj s (valueOf n))
    modifyS (fun s => exported.foldl (fun s n => s.put env n (valueOf n)) s)
    pure RVal.null
  else match syms with
  | some (sy :: sys) => do
    let table := sy :: sys
    modifyS (fun s => symbols.foldl (fun s n =>
      match table.lookup n with
      | some al => s.put env al (valueOf n)
      | none => s) s)
    pure RVal.null
  | _ => do
    let members := (symbols.filter (fun n => !isModuleObj s (valueOf n))).map (fun n => (n, valueOf n))
    let obj ← allocM (.obj (members.foldl (fun acc kv => dictPut kv.1 kv.2 acc) []) true)
    modifyS (·.put env modulename obj)
    pure RVal.null

theorem reqTail_pres (ih : AllP E b ld ld' fuel) (env : EnvId) (name : Option String) (unq : Bool)
    (syms : Option (List (String × String))) (pos : Pos) (modulespec : String) :
    PresA E b (reqTail ld fuel env name unq syms pos modulespec) (reqTail ld' fuel env name unq syms pos modulespec) := by
  have ih2 := ih.loadModule
  unfold reqTail
  dsimp only
  generalize (if modulespec.endsWith ".ckl" then modulespec else modulespec ++ ".ckl") = file
  generalize (if (modulespec.splitOn "/").getLast!.endsWith ".ckl"
    then ((modulespec.splitOn "/").getLast!.dropEnd 4).toString else (modulespec.splitOn "/").getLast!) = ident
  generalize (match name with
    | some n => if n = "" then ident else n
    | none => ident) = modulename
  pa_auto
  all_goals
    refine PresA.of_eq (PresA.popWrap (ih2 env ident file pos)
      (fun s => { s with modstack := s.modstack.dropLast }) (fun s hs => hs.modstack _)) ?_ ?_ <;>
      (funext s1; cases loadModule _ fuel env ident file pos s1 <;> rfl)

theorem step_evalRequire (ih : AllP E b ld ld' fuel) : ∀ env spec name unq syms pos,
    PresA E b (evalRequire ld (fuel+1) env spec name unq syms pos)
      (evalRequire ld' (fuel+1) env spec name unq syms pos) := by
  have ih1 := ih.eval
  have tail := reqTail_pres ih
  intro env spec name unq syms pos
  by_cases h : ∃ n p, spec = Node.ident n p
  · obtain ⟨n, p, rfl⟩ := h
    simp only [Ckl.evalRequire]
    with_reducible apply PresA.bind
    · pa_auto
    · intro ms _; exact tail env name unq syms pos ms
  · have h' : ∀ n p, spec = Node.ident n p → False := fun n p e => h ⟨n, p, e⟩
    simp only [Ckl.evalRequire]
    with_reducible apply PresA.bind
    · pa_auto
    · intro ms _; exact tail env name unq syms pos ms

theorem step_loadModule (hA : LdAgree ld ld') (ih : AllP E b ld ld' fuel) : ∀ env ident file pos,
    PresA E b (loadModule ld (fuel+1) env ident file pos) (loadModule ld' (fuel+1) env ident file pos) := by
  have ih1 := ih.eval
  intro env ident file pos
  simp only [Ckl.loadModule, hA.find, hA.bundledNames]
  pa_auto

end Ckl.C09E
