import CklVerif.Lemmas.C13NoHost
import CklVerif.Lemmas.C03Env
import CklVerif.Lemmas.C03Args

/-!
  C03 — lexical names and argument binding.

  1. environment algebra (`put` / `lookup` / `set` / `newEnv`);
  2. a closure call ignores the caller's frame;
  3. a closure call runs in a fresh frame whose parent is the captured frame;
  4. `setArgs` (see the second half of this file);
  5. parameter binding: bound value, else default evaluated in the callee frame.
-/
namespace Ckl.C03

/-! ## example states used by the non-vacuity examples -/

/-- two frames: root 0 (defines `g`) and its child 1 (defines `x`) -/
def exS : State :=
  { frames := #[{ vars := [("g", .int 1)], parent := none },
                { vars := [("x", .int 2)], parent := some 0 }] }

/-- heap: `def f(x, y = x) y` capturing frame 0; frames: root 0 and an unrelated caller
    frame 1 that defines `x = 99` -/
def exC : State :=
  { frames := #[{ vars := [], parent := none }, { vars := [("x", .int 99)], parent := some 0 }],
    heap := #[.closure 0 ["x", "y"] [.absent, .ident "x" {}] (.ident "y" {}) "f"] }

theorem exS_parentsSmaller : ParentsSmaller exS := by
  intro e p h
  match e with
  | 0 => cases h
  | 1 => cases h; decide
  | n + 2 => cases h

/-! ## 1. environment algebra -/

/-- Reading a name right after `put` in the same frame gives the value put.  The side condition
    says the frame exists: `put` is `Array.modify`, which is a no-op out of range (see
    `lookup_put_missing_frame`). -/
theorem lookup_put_same (s : State) {e : Nat} (x : String) (v : RVal) (h : e < s.frames.size) :
    (s.put e x v).lookup e x = some v := by
  unfold State.lookup
  exact lookupF_put_same s x v h _

example : (1 : Nat) < exS.frames.size := by decide
example : (exS.put 1 "y" (.int 5)).lookup 1 "y" = some (.int 5) := lookup_put_same exS "y" _ (by decide)

/-- the side condition of `lookup_put_same` cannot be dropped -/
theorem lookup_put_missing_frame (s : State) {e : Nat} (x : String) (v : RVal) (h : s.frames.size ≤ e) :
    (s.put e x v).lookup e x = none := by
  rw [put_out_of_range s x v h]
  unfold State.lookup
  simp [State.lookupF, frame_of_ge s h, dictGet]

example : (({} : State).put 0 "x" (.int 1)).lookup 0 "x" = none := lookup_put_missing_frame _ _ _ (by decide)

/-- A `put` of `x` (in any frame) does not change what any frame sees for another name `y`. -/
theorem lookup_put_other_name (s : State) (e e' : Nat) {x y : String} (v : RVal) (h : x ≠ y) :
    (s.put e x v).lookup e' y = s.lookup e' y := by
  unfold State.lookup
  rw [frames_size_put]
  exact lookupF_put_other_name s e v h _ _

example : ("y" : String) ≠ "g" := by decide
example : (exS.put 1 "y" (.int 5)).lookup 1 "g" = some (.int 1) := by
  rw [lookup_put_other_name exS 1 1 _ (by decide)]; rfl

/-- A `put` in frame `e` changes nothing in any other frame (neither its variables nor its parent),
    keeps the parent of every frame, the number of frames and the heap. -/
theorem put_other_frame (s : State) {e e' : Nat} (x : String) (v : RVal) (h : e' ≠ e) :
    (s.put e x v).frame e' = s.frame e' ∧
    (∀ y, dictGet y ((s.put e x v).frame e').vars = dictGet y (s.frame e').vars) ∧
    ((s.put e x v).frame e').parent = (s.frame e').parent := by
  rw [frame_put_other s x v h]
  exact ⟨rfl, fun _ => rfl, rfl⟩

theorem put_keeps_shape (s : State) (e : Nat) (x : String) (v : RVal) :
    (s.put e x v).frames.size = s.frames.size ∧ (s.put e x v).heap = s.heap ∧
    ∀ e', ((s.put e x v).frame e').parent = (s.frame e').parent :=
  ⟨frames_size_put s e x v, rfl, fun e' => parent_put s e e' x v⟩

example : (0 : Nat) ≠ 1 := by decide
example : (exS.put 1 "g" (.int 5)).frame 0 = exS.frame 0 := (put_other_frame exS "g" _ (by decide)).1

/-- `set` updates the nearest frame on the parent chain that defines the name (fuel form:
    the chain is walked for at most `frames.size + 1` steps, exactly like `State.set`). -/
theorem set_updates_nearest {s : State} {name : String} {e e' : Nat} (v : RVal)
    (h : NearestDefF s name (s.frames.size + 1) e e') :
    s.set e name v = some (s.put e' name v) :=
  setF_of_nearest h v

example : NearestDefF exS "g" (exS.frames.size + 1) 1 0 := .up rfl rfl (.here rfl)
example : exS.set 1 "g" (.int 5) = some (exS.put 0 "g" (.int 5)) :=
  set_updates_nearest _ (.up rfl rfl (.here rfl))

/-- the same for the fuel-free chain relation, in states whose parents have smaller ids
    (the invariant of `newEnv`; see `parentsSmaller_newEnv`, `parentsSmaller_put`) -/
theorem set_updates_nearest_wf {s : State} (wf : ParentsSmaller s) {name : String} {e e' : Nat} (v : RVal)
    (h : NearestDef s name e e') :
    s.set e name v = some (s.put e' name v) :=
  setF_of_nearest (h.toF wf _ (by have := h.src_lt; omega)) v

example : NearestDef exS "g" 1 0 := .up rfl rfl (.here rfl)
example : exS.set 1 "g" (.int 5) = some (exS.put 0 "g" (.int 5)) :=
  set_updates_nearest_wf exS_parentsSmaller _ (.up rfl rfl (.here rfl))

/-- conversely every successful `set` is a `put` into the nearest defining frame -/
theorem set_some_nearest {s s' : State} {name : String} {e : Nat} {v : RVal} (h : s.set e name v = some s') :
    ∃ e', NearestDefF s name (s.frames.size + 1) e e' ∧ s' = s.put e' name v :=
  nearest_of_setF h

example : exS.set 1 "g" (.int 5) = some (exS.put 0 "g" (.int 5)) := rfl

/-- Assignment never creates a binding: a name that is not visible cannot be `set`. -/
theorem set_undefined_none (s : State) (e : Nat) (name : String) (v : RVal) (h : s.lookup e name = none) :
    s.set e name v = none :=
  setF_none_of_lookupF_none s name v _ e h

example : exS.lookup 1 "zz" = none := rfl
example : exS.set 1 "zz" (.int 0) = none := set_undefined_none exS 1 "zz" _ rfl

/-- `set` succeeds exactly when the name is defined (`isDefined`) -/
theorem set_isSome_eq_isDefined (s : State) (e : Nat) (name : String) (v : RVal) :
    (s.set e name v).isSome = s.isDefined e name :=
  setF_isSome_eq_lookupF_isSome s name v _ e

theorem set_some_iff_isDefined (s : State) (e : Nat) (name : String) (v : RVal) :
    (∃ s', s.set e name v = some s') ↔ s.isDefined e name = true := by
  rw [← set_isSome_eq_isDefined s e name v, Option.isSome_iff_exists]

/-- Assignment never creates a binding, strong form: after a successful `set` every frame has
    exactly the same names in the same order (and the same parent). -/
theorem set_keeps_symbols {s s' : State} {name : String} {e : Nat} {v : RVal} (h : s.set e name v = some s') :
    s'.frames.size = s.frames.size ∧
    ∀ e'', s'.localSymbols e'' = s.localSymbols e'' ∧ (s'.frame e'').parent = (s.frame e'').parent := by
  obtain ⟨e', hn, rfl⟩ := set_some_nearest h
  refine ⟨frames_size_put _ _ _ _, fun e'' => ⟨?_, parent_put _ _ _ _ _⟩⟩
  have hdef := hn.toNearestDef.tgt_defines
  unfold State.localSymbols
  by_cases h1 : e'' = e'
  · subst h1
    rw [vars_put_same s name v (lt_size_of_dictHas hdef), keys_dictPut_of_has _ _ _ hdef]
  · rw [frame_put_other s name v h1]

example : (exS.put 0 "g" (.int 5)).localSymbols 0 = ["g"] := rfl

/-- after a successful `set` the name reads back the new value from where it was set -/
theorem lookup_set_same {s s' : State} {name : String} {e : Nat} {v : RVal} (h : s.set e name v = some s') :
    s'.lookup e name = some v := by
  obtain ⟨e', hn, rfl⟩ := set_some_nearest h
  have hdef := hn.toNearestDef.tgt_defines
  unfold State.lookup
  rw [frames_size_put, lookupF_of_nearest (hn.put_target v),
    vars_put_same s name v (lt_size_of_dictHas hdef), dictGet_dictPut_same]

example : (exS.put 0 "g" (.int 5)).lookup 1 "g" = some (.int 5) :=
  lookup_set_same (s := exS) (e := 1) (name := "g") rfl

/-- `newEnv p`: the new id is `frames.size`; the new frame has parent `p` and no variables;
    every existing frame and the heap are unchanged. -/
theorem newEnv_fresh (s : State) (p : Nat) :
    (s.newEnv p).2 = s.frames.size ∧
    (s.newEnv p).1.frames.size = s.frames.size + 1 ∧
    ((s.newEnv p).1.frame s.frames.size).parent = some p ∧
    ((s.newEnv p).1.frame s.frames.size).vars = [] ∧
    (∀ e, e < s.frames.size → (s.newEnv p).1.frame e = s.frame e) ∧
    (s.newEnv p).1.heap = s.heap := by
  refine ⟨rfl, newEnv_frames_size s p, ?_, ?_, fun e h => newEnv_frame_old s p h, rfl⟩
  · rw [newEnv_frame_new]
  · rw [newEnv_frame_new]

/-- a name is invisible in a fresh frame iff it is invisible from the parent — stated as:
    lookups from old frames are unchanged by `newEnv` when parents have smaller ids is not needed;
    here only the one-step fact: the fresh frame defers to its parent. -/
theorem lookupF_newEnv_fresh (s : State) (p : Nat) (n : Nat) (name : String) :
    (s.newEnv p).1.lookupF (n + 1) s.frames.size name = (s.newEnv p).1.lookupF n p name := by
  simp [State.lookupF, newEnv_frame_new, dictGet]

/-! ## 2./3. closure calls: lexical scoping -/

section
variable (ld : Loader)

/-- The caller's frame is irrelevant for a closure call: the body runs in a child of the
    CAPTURED frame. -/
theorem call_ignores_caller_env (fuel : Nat) (a : Nat) (bound : List (String × RVal)) (env env' : EnvId)
    (pos : Pos) (s : State) :
    callFn ld fuel (.closure a) bound env pos s = callFn ld fuel (.closure a) bound env' pos s := by
  cases fuel with
  | zero => rw [callFn, callFn]
  | succ fuel => rw [callFn, callFn]

/-- In a closure call the parameter frame is the new id `s.frames.size`, an empty child of the
    captured frame `cenv`; parameters are bound and the body is evaluated in that frame. -/
theorem call_fresh_frame (fuel : Nat) (a : Nat) (bound : List (String × RVal)) (env : EnvId)
    (pos : Pos) (s : State) {cenv params defaults body name}
    (h : s.cell a = some (.closure cenv params defaults body name)) :
    callFn ld (fuel + 1) (.closure a) bound env pos s =
      (do bindParams ld fuel s.frames.size params defaults bound pos
          let r ← eval ld fuel s.frames.size body
          match r with
          | .ret v _ => pure v
          | .brk p => throwE "Cannot use break without surrounding loop" p
          | .cont p => throwE "Cannot use continue without surrounding loop" p
          | v => pure v : EvalM RVal) (s.newEnv cenv).1
    ∧ ((s.newEnv cenv).1.frame s.frames.size).parent = some cenv
    ∧ ((s.newEnv cenv).1.frame s.frames.size).vars = [] := by
  refine ⟨?_, ?_, ?_⟩
  · rw [callFn]
    simp only [EvalM.bind_apply, getS, h]
    rfl
  · rw [newEnv_frame_new]
  · rw [newEnv_frame_new]

example : exC.cell 0 = some (.closure 0 ["x", "y"] [.absent, .ident "x" {}] (.ident "y" {}) "f") := rfl

/-- a closure value whose cell is not a closure cell: the model abstains -/
theorem call_dangling (fuel : Nat) (a : Nat) (bound : List (String × RVal)) (env : EnvId)
    (pos : Pos) (s : State) (h : ∀ cenv params defaults body name,
      s.cell a ≠ some (.closure cenv params defaults body name)) :
    callFn ld (fuel + 1) (.closure a) bound env pos s = .fail (.unsupported "dangling closure") s := by
  rw [callFn]
  simp only [EvalM.bind_apply, getS]
  rfl

example : ∀ cenv params defaults body name,
    exS.cell 0 ≠ some (.closure cenv params defaults body name) := by
  intro _ _ _ _ _ h; cases h

/-! ## 5. parameter binding -/

theorem bindParams_zero (lenv : EnvId) (ps : List String) (ds : List Node) (bound : List (String × RVal))
    (pos : Pos) (s : State) :
    bindParams ld 0 lenv ps ds bound pos s = .fail .oof s := by
  rw [bindParams]; rfl

theorem bindParams_nil (fuel : Nat) (lenv : EnvId) (ds : List Node) (bound : List (String × RVal))
    (pos : Pos) (s : State) :
    bindParams ld (fuel + 1) lenv [] ds bound pos s = .ok () s := by
  rw [bindParams]
  · rfl
  · intro _ _ _ _ h; cases h

theorem bindParams_nil_defaults (fuel : Nat) (lenv : EnvId) (ps : List String) (bound : List (String × RVal))
    (pos : Pos) (s : State) :
    bindParams ld (fuel + 1) lenv ps [] bound pos s = .ok () s := by
  rw [bindParams]
  · rfl
  · intro _ _ _ _ _ h; cases h

/-- a parameter that received an argument is bound to it in the callee frame -/
theorem bindParams_bound {fuel : Nat} {lenv : EnvId} {p : String} {ps : List String} {d : Node}
    {ds : List Node} {bound : List (String × RVal)} {pos : Pos} {s : State} {v : RVal}
    (h : dictGet p bound = some v) :
    bindParams ld (fuel + 1) lenv (p :: ps) (d :: ds) bound pos s
      = bindParams ld fuel lenv ps ds bound pos (s.put lenv p v) := by
  by_cases hd : d = .absent
  · subst hd
    rw [bindParams]
    simp only [h]
    rfl
  · rw [bindParams.eq_3 _ _ _ _ _ _ _ _ _ hd]
    simp only [h]
    rfl

example : dictGet "x" [("x", RVal.int 7)] = some (.int 7) := rfl

/-- a parameter without argument and without default: "Missing argument" -/
theorem bindParams_missing {fuel : Nat} {lenv : EnvId} {p : String} {ps : List String}
    {ds : List Node} {bound : List (String × RVal)} {pos : Pos} {s : State}
    (h : dictGet p bound = none) :
    bindParams ld (fuel + 1) lenv (p :: ps) (.absent :: ds) bound pos s
      = throwE ("Missing argument " ++ p) pos s := by
  rw [bindParams]
  simp only [h]
  rfl

example : dictGet "y" [("x", RVal.int 7)] = none := rfl

/-- a parameter without argument takes its default, which is evaluated in the CALLEE frame
    `lenv`, in the state where the earlier parameters are already bound -/
theorem bindParams_default {fuel : Nat} {lenv : EnvId} {p : String} {ps : List String} {d : Node}
    {ds : List Node} {bound : List (String × RVal)} {pos : Pos} {s s1 : State} {v : RVal}
    (h : dictGet p bound = none) (hd : d ≠ .absent) (he : eval ld fuel lenv d s = .ok v s1) :
    bindParams ld (fuel + 1) lenv (p :: ps) (d :: ds) bound pos s
      = bindParams ld fuel lenv ps ds bound pos (s1.put lenv p v) := by
  rw [bindParams.eq_3 _ _ _ _ _ _ _ _ _ hd]
  simp only [h, Bool.false_eq_true, if_false, EvalM.bind_apply, he]
  rfl

example : eval ({} : Loader) 1 1 (.lit (.int 1) {}) exS = .ok (.int 1) exS := by rw [eval]; rfl
example : (Node.lit (.int 1) {}) ≠ .absent := by intro h; cases h

/-- a default whose evaluation raises makes the binding raise the same error -/
theorem bindParams_default_err {fuel : Nat} {lenv : EnvId} {p : String} {ps : List String} {d : Node}
    {ds : List Node} {bound : List (String × RVal)} {pos : Pos} {s s1 : State}
    {w : RVal} {msg : String} {q : Pos} {tr : List (String × Pos)}
    (h : dictGet p bound = none) (hd : d ≠ .absent) (he : eval ld fuel lenv d s = .err w msg q tr s1) :
    bindParams ld (fuel + 1) lenv (p :: ps) (d :: ds) bound pos s = .err w msg q tr s1 := by
  rw [bindParams.eq_3 _ _ _ _ _ _ _ _ _ hd]
  simp only [h, Bool.false_eq_true, if_false, EvalM.bind_apply, he]

example : eval ({} : Loader) 1 1 (.ident "nope" {}) exS
    = .err (.str ['E', 'R', 'R', 'O', 'R']) ("Symbol '" ++ "nope" ++ "' not defined") {} [] exS := by
  rw [eval]; rfl

end

/-! ### a worked instance: `def f(x, y = x) y`, called as `f(7)` from a frame where `x = 99`.
    The default `y = x` sees the callee's `x = 7`, not the caller's `x = 99`. -/

example : ∃ s', callFn ({} : Loader) 4 (.closure 0) [("x", .int 7)] 1 {} exC = .ok (.int 7) s' := by
  have hx : eval ({} : Loader) 1 2 (.ident "x" {}) ((exC.newEnv 0).1.put 2 "x" (.int 7))
      = .ok (.int 7) ((exC.newEnv 0).1.put 2 "x" (.int 7)) := by
    rw [eval]; rfl
  refine ⟨(((exC.newEnv 0).1.put 2 "x" (.int 7)).put 2 "y" (.int 7)), ?_⟩
  rw [(call_fresh_frame {} 3 0 _ 1 {} exC (by rfl)).1]
  have h2 : exC.frames.size = 2 := rfl
  simp only [EvalM.bind_apply, h2]
  rw [bindParams_bound {} (by rfl), bindParams_default {} (by rfl) (by intro h; cases h) hx, bindParams_nil]
  simp only
  rw [eval]
  rfl

/-! ## 4. `setArgs` against the declarative specification `bindSpec` -/

/-- `setArgs` computes `bindSpec` EXACTLY (same dict, same insertion order): errors become the
    corresponding `throwE`; without a rest parameter the state is untouched; with a rest
    parameter `r` the surplus positionals are allocated as a fresh list cell (address
    `s.heap.size`) bound under `r`. -/
theorem setArgs_spec (paramNames : List String) (names : List (Option String)) (values : List RVal)
    (pos : Pos) (s : State) :
    setArgs paramNames names values pos s =
      setArgsResult (addArgs paramNames).restArgName pos s
        (bindSpec (addArgs paramNames).argNames (addArgs paramNames).restArgName (actualsOf names values)) := by
  unfold setArgs
  simp only [EvalM.bind_apply]
  rw [bindNamed_spec]
  cases hf : (namedOf (actualsOf names values)).find?
      (fun nv => !(addArgs paramNames).argNames.contains nv.1) with
  | some nv => rw [bindSpec_unknown hf]; rfl
  | none =>
    have hk : ∀ nv ∈ namedOf (actualsOf names values), (addArgs paramNames).argNames.contains nv.1 = true := by
      intro nv hnv
      have := List.find?_eq_none.1 hf nv hnv
      simpa using this
    simp only [putAll_nil_left]
    rw [bindPositional_spec _ _ _ _ _ _ _ hk, bindSpec_known hf]
    have hrep : putAll (putAll (dictOfPairs (namedOf (actualsOf names values)))
        ((freeParams (addArgs paramNames).argNames (dictOfPairs (namedOf (actualsOf names values)))).zip
          (frontVals (actualsOf names values))))
        (namedOf (backActs (actualsOf names values)))
        = dictOfPairs (namedOf (actualsOf names values) ++
            (freeParams (addArgs paramNames).argNames (dictOfPairs (namedOf (actualsOf names values)))).zip
              (frontVals (actualsOf names values))) := by
      rw [namedOf_backActs, putAll_replay]
      · unfold dictOfPairs; rw [putAll_append]
      · intro z hz
        have hz1 : z.1 ∈ freeParams (addArgs paramNames).argNames
            (dictOfPairs (namedOf (actualsOf names values))) := (List.of_mem_zip hz).1
        unfold freeParams at hz1
        rw [List.mem_eraseDups, List.mem_filter] at hz1
        simpa using hz1.2
    simp only [List.nil_append]
    rw [hrep]
    by_cases h1 : ((addArgs paramNames).restArgName.isNone && decide
        ((freeParams (addArgs paramNames).argNames (dictOfPairs (namedOf (actualsOf names values)))).length
          < (frontVals (actualsOf names values)).length)) = true
    · simp only [h1, if_true]; rfl
    · simp only [h1]
      by_cases h2 : ((backActs (actualsOf names values)).any fun x => x.fst.isNone) = true
      · simp only [h2, if_true]; rfl
      · simp only [h2]
        cases (addArgs paramNames).restArgName <;> rfl

/-- the same with the parameter list already split by `addArgs` -/
theorem setArgs_spec' {paramNames params : List String} {rest : Option String}
    (ha : addArgs paramNames = ⟨params, rest⟩)
    (names : List (Option String)) (values : List RVal) (pos : Pos) (s : State) :
    setArgs paramNames names values pos s =
      setArgsResult rest pos s (bindSpec params rest (actualsOf names values)) := by
  rw [setArgs_spec, ha]

example : addArgs ["a", "b"] = ⟨["a", "b"], none⟩ := addArgs_no_rest _ (by decide)

/-- `f(b = 2, 1)`-style: positional after named -/
example : bindSpec ["a", "b"] none (actualsOf [some "b", none] [.int 2, .int 1])
    = .error "Positional arguments need to be placed before named arguments" := by rfl
/-- `f(1, b = 2)` -/
example : bindSpec ["a", "b"] none (actualsOf [none, some "b"] [.int 1, .int 2])
    = .ok ([("b", .int 2), ("a", .int 1)], []) := by rfl
/-- and `setArgs` agrees on this instance by direct evaluation -/
example : setArgs ["a", "b"] [none, some "b"] [.int 1, .int 2] {} {}
    = .ok [("b", .int 2), ("a", .int 1)] {} := by rfl

/-! ### facts about `addArgs` -/

theorem endsWith_append_self (s pat : String) : (s ++ pat).endsWith pat = true := by
  show (s ++ pat).toSlice.endsWith pat = true
  rw [String.Slice.endsWith_string_iff]
  simp [String.toList_append]

/-- no name ends in "...": all are ordinary parameters, no rest parameter -/
theorem addArgs_plain (params : List String) (h : ∀ p ∈ params, p.endsWith "..." = false) :
    addArgs params = ⟨params, none⟩ := addArgs_no_rest params h

example : ∀ p ∈ ["a", "b"], p.endsWith "..." = false := by decide

/-- the last name ends in "...": it is the rest parameter -/
theorem addArgs_rest (init : List String) (last : String)
    (h : ∀ p ∈ init, p.endsWith "..." = false) (hl : last.endsWith "..." = true) :
    addArgs (init ++ [last]) = ⟨init, some last⟩ := addArgs_with_rest init last h hl

theorem exRest_endsWith : ("r...").endsWith "..." = true := by
  have : "r..." = "r" ++ "..." := by decide
  rw [this]; exact endsWith_append_self _ _

example : addArgs (["a", "b"] ++ ["r..."]) = ⟨["a", "b"], some "r..."⟩ :=
  addArgs_rest _ _ (by decide) exRest_endsWith

/-- in general: ordinary parameters are the names not ending in "...", in order; the rest
    parameter is the LAST name ending in "..." (wherever it stands) -/
theorem addArgs_general (names : List String) :
    addArgs names = ⟨names.filter (fun n => !n.endsWith "..."),
                     (names.filter (fun n => n.endsWith "...")).getLast?⟩ := addArgs_eq names

/-! ### (i) named arguments -/

/-- pass 1: all named arguments are known → they are all bound (in call order; a repeated name
    keeps its slot and takes the last value) -/
theorem bindNamed_ok (sp : ArgSpec) (pos : Pos) (names : List (Option String)) (values : List RVal)
    (args : List (String × RVal)) (s : State)
    (h : ∀ nv ∈ namedOf (actualsOf names values), sp.argNames.contains nv.1 = true) :
    bindNamed sp pos names values args s = .ok (putAll args (namedOf (actualsOf names values))) s := by
  rw [bindNamed_spec]
  have : (namedOf (actualsOf names values)).find? (fun nv => !sp.argNames.contains nv.1) = none := by
    rw [List.find?_eq_none]; intro nv hnv
    have := h nv hnv
    simpa using this
  rw [this]

example : ∀ nv ∈ namedOf (actualsOf [some "b", none, some "b"] [.int 1, .int 2, .int 3]),
    (⟨["a", "b"], none⟩ : ArgSpec).argNames.contains nv.1 = true := by
  intro nv h
  have : namedOf (actualsOf [some "b", none, some "b"] [.int 1, .int 2, .int 3])
      = [("b", .int 1), ("b", .int 3)] := rfl
  rw [this] at h
  simp only [List.mem_cons, List.not_mem_nil, or_false] at h
  rcases h with rfl | rfl <;> rfl

/-- pass 1: the first unknown named argument is reported -/
theorem bindNamed_unknown (sp : ArgSpec) (pos : Pos) (names : List (Option String)) (values : List RVal)
    (args : List (String × RVal)) (s : State) {nv : String × RVal}
    (h : (namedOf (actualsOf names values)).find? (fun nv => !sp.argNames.contains nv.1) = some nv) :
    bindNamed sp pos names values args s = throwE ("Argument " ++ nv.1 ++ " is unknown") pos s := by
  rw [bindNamed_spec, h]

example : (namedOf (actualsOf [none, some "zz"] [.int 1, .int 2])).find?
    (fun nv => !(⟨["a", "b"], none⟩ : ArgSpec).argNames.contains nv.1) = some ("zz", .int 2) := by rfl

/-- one step of pass 1 on a known named argument -/
theorem bindNamed_step_named {sp : ArgSpec} {pos : Pos} {n : Option String} {name : String}
    {ns : List (Option String)} {v : RVal} {vs : List RVal} {args : List (String × RVal)}
    (hn : nameGiven n = some name) (hc : sp.argNames.contains name = true) :
    bindNamed sp pos (n :: ns) (v :: vs) args = bindNamed sp pos ns vs (dictPut name v args) := by
  rw [bindNamed]; simp only [hn, hc, if_true]

/-- one step of pass 1 on a positional argument: skipped -/
theorem bindNamed_step_positional {sp : ArgSpec} {pos : Pos} {n : Option String}
    {ns : List (Option String)} {v : RVal} {vs : List RVal} {args : List (String × RVal)}
    (hn : nameGiven n = none) :
    bindNamed sp pos (n :: ns) (v :: vs) args = bindNamed sp pos ns vs args := by
  rw [bindNamed]; simp only [hn]

example : nameGiven (some "b") = some "b" := rfl
example : (⟨["a", "b"], none⟩ : ArgSpec).argNames.contains "b" = true := by rfl
example : nameGiven none = none := rfl
example : nameGiven (some "") = none := rfl

/-- In a successful binding every parameter that was named in the call holds the value of the
    LAST actual with that name. -/
theorem bindSpec_named_bound {params : List String} {rest : Option String}
    {acts : List (Option String × RVal)} {d : List (String × RVal)} {r : List RVal}
    (h : bindSpec params rest acts = .ok (d, r)) {k : String} {v : RVal}
    (hk : dictGet k (namedOf acts).reverse = some v) : dictGet k d = some v := by
  cases hf : (namedOf acts).find? (fun nv => !params.contains nv.1) with
  | some nv => rw [bindSpec_unknown hf] at h; cases h
  | none =>
    rw [bindSpec_known hf] at h
    split at h
    · cases h
    · split at h
      · cases h
      · simp only [Except.ok.injEq, Prod.mk.injEq] at h
        obtain ⟨rfl, _⟩ := h
        rw [dictGet_dictOfPairs, List.reverse_append, dictGet_append]
        cases hz : dictGet k (List.reverse
            ((freeParams params (dictOfPairs (namedOf acts))).zip (frontVals acts))) with
        | none => simpa using hk
        | some w =>
          exfalso
          have hm := dictGet_mem hz
          rw [List.mem_reverse] at hm
          have hz1 := (List.of_mem_zip hm).1
          unfold freeParams at hz1
          rw [List.mem_eraseDups, List.mem_filter] at hz1
          have : dictHas k (dictOfPairs (namedOf acts)) = false := by simpa using hz1.2
          rw [dictHas_false_iff, dictGet_dictOfPairs, hk] at this
          cases this

example : bindSpec ["a", "b"] none (actualsOf [some "b", some "b"] [.int 1, .int 2])
    = .ok ([("b", .int 2)], []) := by rfl

/-- the rest parameter's name is never an ordinary parameter name -/
theorem rest_not_param {paramNames : List String} {rn k : String}
    (hr : (addArgs paramNames).restArgName = some rn) (hk : k ∈ (addArgs paramNames).argNames) : k ≠ rn := by
  rw [addArgs_eq] at hr hk
  have h1 := List.mem_of_getLast? hr
  simp only [List.mem_filter] at h1 hk
  intro heq; subst heq
  simp [h1.2] at hk

example : (addArgs (["a", "b"] ++ ["r..."])).restArgName = some "r..." ∧
    "a" ∈ (addArgs (["a", "b"] ++ ["r..."])).argNames := by
  rw [addArgs_rest _ _ (by decide) exRest_endsWith]; exact ⟨rfl, by decide⟩

/-- (i) at the level of `setArgs`: whenever the binding succeeds, every parameter named in the
    call holds the value of the LAST actual carrying that name. -/
theorem setArgs_named_bound {paramNames : List String} {names : List (Option String)}
    {values : List RVal} {pos : Pos} {s s' : State} {d : List (String × RVal)}
    (h : setArgs paramNames names values pos s = .ok d s') {k : String} {v : RVal}
    (hk : dictGet k (namedOf (actualsOf names values)).reverse = some v) : dictGet k d = some v := by
  rw [setArgs_spec] at h
  cases hb : bindSpec (addArgs paramNames).argNames (addArgs paramNames).restArgName
      (actualsOf names values) with
  | error m => rw [hb] at h; cases h
  | ok dr =>
    obtain ⟨d0, r⟩ := dr
    have h0 := bindSpec_named_bound hb hk
    rw [hb] at h
    cases hr : (addArgs paramNames).restArgName with
    | none =>
      rw [hr] at h
      simp only [setArgsResult_ok_none, Out.ok.injEq] at h
      rw [← h.1]; exact h0
    | some rn =>
      rw [hr] at h
      simp only [setArgsResult_ok_some, Out.ok.injEq] at h
      rw [← h.1]
      have hkp : k ∈ (addArgs paramNames).argNames := by
        have hm : (k, v) ∈ namedOf (actualsOf names values) := by simpa using dictGet_mem hk
        cases hf : (namedOf (actualsOf names values)).find?
            (fun nv => !(addArgs paramNames).argNames.contains nv.1) with
        | some nv => rw [bindSpec_unknown hf] at hb; cases hb
        | none =>
          have := List.find?_eq_none.1 hf _ hm
          simpa using this
      rw [dictGet_dictPut_other (Ne.symm (rest_not_param hr hkp))]
      exact h0

example : setArgs ["a", "b"] [some "b", some "b"] [.int 1, .int 2] {} {} = .ok [("b", .int 2)] {} := by rfl
example : dictGet "b" (namedOf (actualsOf [some "b", some "b"] [.int 1, .int 2])).reverse
    = some (.int 2) := by rfl

/-! ### (ii) positional arguments -/

/-- one step of pass 2: a positional goes to the first still unbound parameter -/
theorem bindPositional_step_free {sp : ArgSpec} {pos : Pos} {n : Option String} {p : String}
    {ns : List (Option String)} {v : RVal} {vs : List RVal} {args : List (String × RVal)} {rest : List RVal}
    (hn : nameGiven n = none) (hp : nextPositional sp.argNames args = some p) :
    bindPositional sp pos (n :: ns) (v :: vs) false args rest
      = bindPositional sp pos ns vs false (dictPut p v args) rest := by
  rw [bindPositional]; simp only [hn, hp, Bool.false_eq_true, if_false]

example : nextPositional ["a", "b"] [("a", RVal.int 1)] = some "b" := rfl

/-- one step of pass 2: all parameters bound, there is a rest parameter → append to the rest list -/
theorem bindPositional_step_rest {sp : ArgSpec} {pos : Pos} {n : Option String}
    {ns : List (Option String)} {v : RVal} {vs : List RVal} {args : List (String × RVal)} {rest : List RVal}
    (hn : nameGiven n = none) (hp : nextPositional sp.argNames args = none)
    (hr : sp.restArgName.isNone = false) :
    bindPositional sp pos (n :: ns) (v :: vs) false args rest
      = bindPositional sp pos ns vs false args (rest ++ [v]) := by
  rw [bindPositional]; simp only [hn, hp, hr, Bool.false_eq_true, if_false]

example : nextPositional ["a"] [("a", RVal.int 1)] = none := rfl
example : (⟨["a"], some "r..."⟩ : ArgSpec).restArgName.isNone = false := rfl

/-- one step of pass 2 on a (known) named argument: bound again, and from now on positionals
    are an error -/
theorem bindPositional_step_named {sp : ArgSpec} {pos : Pos} {n : Option String} {name : String}
    {ns : List (Option String)} {v : RVal} {vs : List RVal} {args : List (String × RVal)} {rest : List RVal}
    {inKw : Bool} (hn : nameGiven n = some name) (hc : sp.argNames.contains name = true) :
    bindPositional sp pos (n :: ns) (v :: vs) inKw args rest
      = bindPositional sp pos ns vs true (dictPut name v args) rest := by
  rw [bindPositional]; simp only [hn, hc, if_true]

/-- `nextPositional` is the first parameter (in declaration order) that has no binding yet -/
theorem nextPositional_some {params : List String} {args : List (String × RVal)} {p : String}
    (h : nextPositional params args = some p) :
    p ∈ params ∧ dictHas p args = false ∧
    ∃ pre post, params = pre ++ p :: post ∧ ∀ q ∈ pre, dictHas q args = true := by
  unfold nextPositional at h
  have h1 := List.find?_eq_some_iff_append.1 h
  obtain ⟨hp, pre, post, hsplit, hpre⟩ := h1
  refine ⟨?_, by simpa using hp, pre, post, hsplit, ?_⟩
  · rw [hsplit]; simp
  · intro q hq; simpa using hpre q hq

theorem nextPositional_none {params : List String} {args : List (String × RVal)} :
    nextPositional params args = none ↔ ∀ p ∈ params, dictHas p args = true := by
  unfold nextPositional
  rw [List.find?_eq_none]
  simp

/-- An all-positional call of a function without rest parameter: `params[i]` is bound to
    `values[i]` for all `i < values.length`, and nothing else is bound. -/
theorem setArgs_all_positional (params : List String) (values : List RVal) (pos : Pos) (s : State)
    (hrest : ∀ p ∈ params, p.endsWith "..." = false) (hnd : params.Nodup)
    (hlen : values.length ≤ params.length) :
    setArgs params (values.map (fun _ => none)) values pos s = .ok (params.zip values) s := by
  rw [setArgs_spec' (addArgs_no_rest params hrest), actualsOf_positional]
  have hf : (namedOf (values.map (fun v => ((none : Option String), v)))).find?
      (fun nv => !params.contains nv.1) = none := by rw [namedOf_positional]; rfl
  rw [bindSpec_known hf]
  simp only [namedOf_positional, frontVals_positional, backActs_positional, List.nil_append, List.any_nil]
  rw [freeParams_nil_args' params hnd]
  have hnot : ¬ params.length < values.length := by omega
  simp only [Option.isNone_none, Bool.true_and, decide_eq_true_eq, hnot, if_false, Bool.false_eq_true]
  rw [dictOfPairs_of_nodup _ (keys_zip_nodup params hnd values)]
  rfl

example : setArgs ["a", "b", "c"] [none, none] [.int 1, .int 2] {} {}
    = .ok [("a", .int 1), ("b", .int 2)] {} :=
  setArgs_all_positional ["a", "b", "c"] [.int 1, .int 2] {} {} (by decide) (by decide) (by decide)

/-! ### (iii) the rest parameter -/

theorem alloc_cell (s : State) (c : Cell) :
    (s.alloc c).2 = s.heap.size ∧ (s.alloc c).1.cell s.heap.size = some c ∧
    (s.alloc c).1.frames = s.frames ∧ ∀ a, a < s.heap.size → (s.alloc c).1.cell a = s.cell a := by
  refine ⟨rfl, by simp [State.alloc, State.cell], rfl, ?_⟩
  intro a ha
  simp [State.alloc, State.cell, Array.getElem?_push, Nat.ne_of_lt ha]

/-- With a rest parameter `rn`, a successful binding returns the bindings `d` of `bindSpec`
    extended by `rn ↦` a FRESH list cell holding exactly the surplus leading positionals, in
    order: those beyond the number of parameters left free by the named arguments. -/
theorem setArgs_rest {paramNames params : List String} {rn : String}
    (ha : addArgs paramNames = ⟨params, some rn⟩)
    (names : List (Option String)) (values : List RVal) (pos : Pos) (s : State)
    {d : List (String × RVal)} {r : List RVal}
    (h : bindSpec params (some rn) (actualsOf names values) = .ok (d, r)) :
    setArgs paramNames names values pos s
        = .ok (dictPut rn (.ref s.heap.size) d) (s.alloc (.list r)).1 ∧
    r = (frontVals (actualsOf names values)).drop
          (freeParams params (dictOfPairs (namedOf (actualsOf names values)))).length ∧
    dictGet rn (dictPut rn (.ref s.heap.size) d) = some (.ref s.heap.size) ∧
    (s.alloc (.list r)).1.cell s.heap.size = some (.list r) := by
  refine ⟨by rw [setArgs_spec' ha, h]; rfl, ?_, dictGet_dictPut_same _ _ _, (alloc_cell s _).2.1⟩
  cases hf : (namedOf (actualsOf names values)).find? (fun nv => !params.contains nv.1) with
  | some nv => rw [bindSpec_unknown hf] at h; cases h
  | none =>
    rw [bindSpec_known hf] at h
    split at h
    · cases h
    · split at h
      · cases h
      · simp only [Except.ok.injEq, Prod.mk.injEq] at h
        exact h.2.symm

/-- all-positional call of a function with rest parameter: parameters are filled left to
    right, the rest parameter gets the list of the remaining values -/
theorem setArgs_rest_all_positional (init : List String) (rn : String) (values : List RVal) (pos : Pos)
    (s : State) (hinit : ∀ p ∈ init, p.endsWith "..." = false) (hrn : rn.endsWith "..." = true)
    (hnd : init.Nodup) :
    setArgs (init ++ [rn]) (values.map (fun _ => none)) values pos s
      = .ok (dictPut rn (.ref s.heap.size) (init.zip values))
          (s.alloc (.list (values.drop init.length))).1 := by
  rw [setArgs_spec' (addArgs_with_rest init rn hinit hrn), actualsOf_positional]
  have hf : (namedOf (values.map (fun v => ((none : Option String), v)))).find?
      (fun nv => !init.contains nv.1) = none := by rw [namedOf_positional]; rfl
  rw [bindSpec_known hf]
  simp only [namedOf_positional, frontVals_positional, backActs_positional, List.nil_append, List.any_nil]
  rw [freeParams_nil_args' init hnd]
  simp only [Option.isNone_some, Bool.false_and, Bool.false_eq_true, if_false]
  rw [dictOfPairs_of_nodup _ (keys_zip_nodup init hnd values)]
  rfl

example : setArgs (["a", "b"] ++ ["r..."]) [none, none, none, none] [.int 1, .int 2, .int 3, .int 4] {} {}
    = .ok [("a", .int 1), ("b", .int 2), ("r...", .ref 0)]
        { heap := #[.list [.int 3, .int 4]] } :=
  setArgs_rest_all_positional ["a", "b"] "r..." [.int 1, .int 2, .int 3, .int 4] {} {}
    (by decide) exRest_endsWith (by decide)

example : bindSpec ["a", "b"] (some "r...") (actualsOf [none, none, none] [.int 1, .int 2, .int 3])
    = .ok ([("a", .int 1), ("b", .int 2)], [.int 3]) := by rfl

/-! ### (iv) the three error cases -/

/-- unknown named argument (the first one in call order is reported; this check comes before
    all others) -/
theorem setArgs_unknown_named (paramNames : List String) (names : List (Option String))
    (values : List RVal) (pos : Pos) (s : State) {nv : String × RVal}
    (h : (namedOf (actualsOf names values)).find?
          (fun nv => !(addArgs paramNames).argNames.contains nv.1) = some nv) :
    setArgs paramNames names values pos s = throwE ("Argument " ++ nv.1 ++ " is unknown") pos s := by
  rw [setArgs_spec, bindSpec_unknown h]; rfl

example : (namedOf (actualsOf [none, some "zz"] [.int 1, .int 2])).find?
    (fun nv => !(addArgs ["a", "b"]).argNames.contains nv.1) = some ("zz", .int 2) := by rfl
example : setArgs ["a", "b"] [none, some "zz"] [.int 1, .int 2] {} {}
    = throwE "Argument zz is unknown" {} {} := by rfl

/-- more leading positionals than free parameters, and no rest parameter -/
theorem setArgs_too_many (paramNames : List String) (names : List (Option String))
    (values : List RVal) (pos : Pos) (s : State)
    (hknown : (namedOf (actualsOf names values)).find?
          (fun nv => !(addArgs paramNames).argNames.contains nv.1) = none)
    (hrest : (addArgs paramNames).restArgName = none)
    (hmany : (freeParams (addArgs paramNames).argNames (dictOfPairs (namedOf (actualsOf names values)))).length
              < (frontVals (actualsOf names values)).length) :
    setArgs paramNames names values pos s = throwE "Too many arguments" pos s := by
  rw [setArgs_spec, bindSpec_known hknown, hrest]
  simp only [Option.isNone_none, Bool.true_and, decide_eq_true_eq, hmany, if_true]
  rfl

example : (freeParams (addArgs ["a", "b"]).argNames
    (dictOfPairs (namedOf (actualsOf [none, none, none] [.int 1, .int 2, .int 3])))).length
      < (frontVals (actualsOf [none, none, none] [.int 1, .int 2, .int 3])).length := by decide
example : setArgs ["a", "b"] [none, none, none] [.int 1, .int 2, .int 3] {} {}
    = throwE "Too many arguments" {} {} := by rfl

/-- a positional argument after a named one (when the leading positionals did not already
    overflow) -/
theorem setArgs_positional_after_named (paramNames : List String) (names : List (Option String))
    (values : List RVal) (pos : Pos) (s : State)
    (hknown : (namedOf (actualsOf names values)).find?
          (fun nv => !(addArgs paramNames).argNames.contains nv.1) = none)
    (hfits : (addArgs paramNames).restArgName.isSome = true ∨
      (frontVals (actualsOf names values)).length ≤
        (freeParams (addArgs paramNames).argNames (dictOfPairs (namedOf (actualsOf names values)))).length)
    (hpos : (backActs (actualsOf names values)).any (·.1.isNone) = true) :
    setArgs paramNames names values pos s =
      throwE "Positional arguments need to be placed before named arguments" pos s := by
  rw [setArgs_spec, bindSpec_known hknown]
  have h1 : ((addArgs paramNames).restArgName.isNone && decide
      ((freeParams (addArgs paramNames).argNames (dictOfPairs (namedOf (actualsOf names values)))).length
        < (frontVals (actualsOf names values)).length)) = false := by
    rcases hfits with h | h
    · cases hr : (addArgs paramNames).restArgName with
      | none => rw [hr] at h; cases h
      | some _ => rfl
    · have : ¬ (freeParams (addArgs paramNames).argNames
          (dictOfPairs (namedOf (actualsOf names values)))).length
            < (frontVals (actualsOf names values)).length := by omega
      simp [this]
  simp only [h1, Bool.false_eq_true, if_false, hpos, if_true]
  rfl

example : (backActs (actualsOf [some "b", none] [.int 2, .int 1])).any (·.1.isNone) = true := by rfl
example : setArgs ["a", "b"] [some "b", none] [.int 2, .int 1] {} {}
    = throwE "Positional arguments need to be placed before named arguments" {} {} := by rfl

/-- one-step forms of the three errors on the two passes -/
theorem bindNamed_step_unknown {sp : ArgSpec} {pos : Pos} {n : Option String} {name : String}
    {ns : List (Option String)} {v : RVal} {vs : List RVal} {args : List (String × RVal)}
    (hn : nameGiven n = some name) (hc : sp.argNames.contains name = false) :
    bindNamed sp pos (n :: ns) (v :: vs) args = throwE ("Argument " ++ name ++ " is unknown") pos := by
  rw [bindNamed]; simp only [hn, hc, Bool.false_eq_true, if_false]

theorem bindPositional_step_too_many {sp : ArgSpec} {pos : Pos} {n : Option String}
    {ns : List (Option String)} {v : RVal} {vs : List RVal} {args : List (String × RVal)} {rest : List RVal}
    (hn : nameGiven n = none) (hp : nextPositional sp.argNames args = none)
    (hr : sp.restArgName.isNone = true) :
    bindPositional sp pos (n :: ns) (v :: vs) false args rest = throwE "Too many arguments" pos := by
  rw [bindPositional]; simp only [hn, hp, hr, Bool.false_eq_true, if_false, if_true]

theorem bindPositional_step_after_named {sp : ArgSpec} {pos : Pos} {n : Option String}
    {ns : List (Option String)} {v : RVal} {vs : List RVal} {args : List (String × RVal)} {rest : List RVal}
    (hn : nameGiven n = none) :
    bindPositional sp pos (n :: ns) (v :: vs) true args rest
      = throwE "Positional arguments need to be placed before named arguments" pos := by
  rw [bindPositional]; simp only [hn, if_true]

theorem bindPositional_step_unknown {sp : ArgSpec} {pos : Pos} {n : Option String} {name : String}
    {ns : List (Option String)} {v : RVal} {vs : List RVal} {args : List (String × RVal)} {rest : List RVal}
    {inKw : Bool} (hn : nameGiven n = some name) (hc : sp.argNames.contains name = false) :
    bindPositional sp pos (n :: ns) (v :: vs) inKw args rest
      = throwE ("Argument " ++ name ++ " is unknown") pos := by
  rw [bindPositional]; simp only [hn, hc, Bool.false_eq_true, if_false]

example : (⟨["a"], none⟩ : ArgSpec).argNames.contains "zz" = false := by rfl
example : (⟨["a"], none⟩ : ArgSpec).restArgName.isNone = true := rfl

end Ckl.C03
