import CklVerif.Lemmas.C19SrcChunksRulesL2

/-!
  C19Src (worker L2) — core.ckl `chunks(obj, chunk_size)` on a list cell (the REPAIRED source: the last chunk is the copy
  `obj !> sublist(0)`): `while` with invariant + variant, assignment to the PARAMETER `obj`.
-/
namespace Ckl.C19Src
open Ckl Ckl.C03 Ckl.Gen.LibSrc
variable (ld : Loader)

def chunksNats : List String := ["type", "equals", "less_equals", "greater", "length", "sublist", "append"]

theorem chunksNats_type {nats : List String} (hn : ∀ x ∈ chunksNats, x ∈ nats) : ∀ x ∈ typeNats, x ∈ nats := by
  intro x hx; apply hn; simp [typeNats] at hx; rcases hx with rfl | rfl <;> decide

/-- the invariant of the `while` loop of `chunks`: `obj` refers to the cell `o` holding the rest `rem`, the result cell `b` holds
    references to the chunk cells `cs` (fresh, pairwise different, not `b`) whose contents are `done`, and
    `done ++ chunksGo k rem = chunksGo k xs` -/
structure ChInv_L2 (s : State) (c m : EnvId) (b : Nat) (k : Int) (xs : List RVal) (st : State) (o : Nat) (rem : List RVal)
    (cs : List Nat) (done : List (List RVal)) : Prop where
  ext : Ext s st
  parent : (st.frame c).parent = some m
  clt : c < st.frames.size
  vars : (st.frame c).vars = [("obj", .ref o), ("chunk_size", .int k), ("result", .ref b)]
  cello : st.cell o = some (.list rem)
  cellb : st.cell b = some (.list (cs.map .ref))
  chunks : cs.map st.cell = done.map (fun ch => some (.list ch))
  fresh : ∀ ci ∈ cs, s.heap.size ≤ ci ∧ ci ≠ b
  nodup : cs.Nodup
  ob : o ≠ b
  bge : s.heap.size ≤ b
  eqn : done ++ Lib.chunksGo k.toNat rem = Lib.chunksGo k.toNat xs

theorem cells_some_L2 {st : State} {cs : List Nat} {done : List (List RVal)}
    (h : cs.map st.cell = done.map (fun ch => some (.list ch))) {ci : Nat} (hci : ci ∈ cs) : ci < st.heap.size := by
  have : st.cell ci ∈ cs.map st.cell := List.mem_map_of_mem hci
  rw [h] at this
  obtain ⟨ch, _, hch⟩ := List.mem_map.mp this
  exact cell_lt hch.symm

/-- the state after one iteration / after the final `append` -/
theorem cell_step_b_L2 (st : State) (b : Nat) (nb : Cell) (c1 : Cell) (hb : b < st.heap.size) :
    ((st.alloc c1).1.setCell b nb).cell b = some nb :=
  cell_setCell_same _ _ (by rw [heap_size_alloc]; omega)

theorem cell_step_new_L2 (st : State) (b : Nat) (nb : Cell) (c1 : Cell) (hb : b < st.heap.size) :
    ((st.alloc c1).1.setCell b nb).cell st.heap.size = some c1 := by
  rw [cell_setCell_other _ _ (by omega), cell_alloc_new]

theorem cell_step_old_L2 (st : State) (b : Nat) (nb : Cell) (c1 : Cell) {x : Nat} (hx : x < st.heap.size) (hxb : x ≠ b) :
    ((st.alloc c1).1.setCell b nb).cell x = st.cell x := by
  rw [cell_setCell_other _ _ (Ne.symm hxb), cell_alloc_old _ _ hx]

theorem chunksGo_step_L2 {α} (kn : Nat) (rem : List α) (hk : 0 < kn) (hlen : kn < rem.length) :
    Lib.chunksGo kn rem = rem.take kn :: Lib.chunksGo kn (rem.drop kn) := by
  rw [Lib.chunksGo]; simp [hk, hlen]

theorem chunksGo_last_L2 {α} (kn : Nat) (rem : List α) (hlen : rem.length ≤ kn) : Lib.chunksGo kn rem = [rem] := by
  rw [Lib.chunksGo]
  have : ¬ (0 < kn ∧ rem.length > kn) := by omega
  simp [this]

/-- one iteration of the loop body `do result !> append(obj !> sublist(0, chunk_size)); obj = obj !> sublist(chunk_size); end` -/
theorem chunks_step_L2 {s st : State} {M nats srcs m} {b o : Nat} {k : Int} {xs rem : List RVal} {cs : List Nat}
    {done : List (List RVal)} (h : LibEnv s M nats srcs) (hm : M m) (hn : ∀ x ∈ chunksNats, x ∈ nats) (hk : 0 < k)
    (inv : ChInv_L2 s s.frames.size m b k xs st o rem cs done) (hlen : k.toNat < rem.length)
    (p1 p2 p3 p4 p5 p6 p7 p8 q1 q2 q3 q4 q5 wp : Pos) (bb : Bool) :
    ∃ r st', Ev ld 11 s.frames.size
        (.block [.call (.ident "append" p1) [none, none] [.ident "result" p2,
            .call (.ident "sublist" p3) [none, none, none] [.ident "obj" p4, .lit (.int 0) p5, .ident "chunk_size" p6] p7] p8,
          .assign "obj" (.call (.ident "sublist" q1) [none, none] [.ident "obj" q2, .ident "chunk_size" q3] q4) q5]
          [] [] [] bb wp) st (.ok r st') ∧ isCtl r = false ∧
      ChInv_L2 s s.frames.size m b k xs st' (st.heap.size + 1) (rem.drop k.toNat) (cs ++ [st.heap.size])
        (done ++ [rem.take k.toNat]) := by
  have hcge : s.frames.size ≤ s.frames.size := Nat.le_refl _
  have hkn : ((k.toNat : Nat) : Int) = k := Int.toNat_of_nonneg (by omega)
  have hknpos : 0 < k.toNat := by omega
  have hblt : b < st.heap.size := cell_lt inv.cellb
  have holt : o < st.heap.size := cell_lt inv.cello
  -- entering the block
  have ctx0 : Ctx (ghostEnter st wp) M nats srcs s.frames.size m [("obj", .ref o), ("chunk_size", .int k), ("result", .ref b)] :=
    Ctx.ofExt h hm (inv.ext.ghostEnter _) inv.vars inv.parent inv.clt
  have htake : Seq.substr rem 0 (some k) = rem.take k.toNat := by
    rw [← hkn]; exact C19.substr_zero_eq_take rem k.toNat (by omega)
  have hdrop : Seq.substr rem k none = rem.drop k.toNat := by
    rw [← hkn]; exact C19.substr_eq_drop rem k.toNat (by omega)
  -- statement 1
  obtain ⟨j1, hlsub⟩ := ctx0.nat (x := "sublist") (hn _ (by decide)) (by rfl)
  obtain ⟨j2, hlapp⟩ := ctx0.nat (x := "append") (hn _ (by decide)) (by rfl)
  obtain ⟨mm1, hm11, hm12⟩ := sublist3_L2 o rem 0 k (div0Value (ghostEnter st wp) s.frames.size) p7 (ghostEnter st wp) inv.cello
  rw [htake] at hm12
  have A1 := Ev.nat3 ld (k := 0) (p := p3) (pos := p7) hlsub (by rfl) (by decide) (by decide) (by decide) (by decide)
    (by trivial) (by trivial) (by trivial)
    (Ev.ident ld (p := p4) (ctx0.var (x := "obj") (by rfl))) (Ev.litInt ld (p := p5) (n := 0))
    (Ev.ident ld (p := p6) (ctx0.var (x := "chunk_size") (by rfl))) hm11 hm12
  rw [wrapCall_ok] at A1
  have hcb1 : ((ghostEnter st wp).alloc (.list (rem.take k.toNat))).1.cell b = some (.list (cs.map .ref)) := by
    rw [cell_alloc_old (ghostEnter st wp) _ (show b < (ghostEnter st wp).heap.size from hblt)]; exact inv.cellb
  obtain ⟨mm2, hm21, hm22⟩ := append_list b (cs.map .ref) (.ref st.heap.size)
    (div0Value ((ghostEnter st wp).alloc (.list (rem.take k.toNat))).1 s.frames.size) p8 _ hcb1
  have A2 := Ev.nat2 ld (k := 5) (p := p1) (pos := p8) hlapp (by rfl) (by decide) (by decide) (by trivial) (by trivial)
    (Ev.ident ld (p := p2) (ctx0.var (x := "result") (by rfl))) A1 hm21 hm22
  rw [wrapCall_ok] at A2
  -- statement 2
  generalize ht2 : (((ghostEnter st wp).alloc (.list (rem.take k.toNat))).1.setCell b
    (.list (cs.map RVal.ref ++ [.ref st.heap.size]))) = t2 at A2
  have E2 : Ext s t2 := by rw [← ht2]; exact ((inv.ext.ghostEnter _).alloc _).setCell inv.bge _
  have hfr2 : t2.frame s.frames.size = st.frame s.frames.size := by rw [← ht2]; rfl
  have hsz2 : t2.heap.size = st.heap.size + 1 := by
    rw [← ht2, heap_size_setCell, heap_size_alloc]; rfl
  have hfs2 : t2.frames.size = st.frames.size := by rw [← ht2]; rfl
  have ctx2 : Ctx t2 M nats srcs s.frames.size m [("obj", .ref o), ("chunk_size", .int k), ("result", .ref b)] :=
    Ctx.ofExt h hm E2 (by rw [hfr2]; exact inv.vars) (by rw [hfr2]; exact inv.parent) (by rw [hfs2]; exact inv.clt)
  have hco2 : t2.cell o = some (.list rem) := by
    rw [← ht2]
    rw [cell_step_old_L2 (ghostEnter st wp) b _ _ holt inv.ob]; exact inv.cello
  obtain ⟨j3, hlsub2⟩ := ctx2.nat (x := "sublist") (hn _ (by decide)) (by rfl)
  obtain ⟨mm3, hm31, hm32⟩ := sublist_from o rem k (div0Value t2 s.frames.size) q4 t2 hco2
  rw [hdrop, hsz2] at hm32
  have A3 := Ev.nat2 ld (k := 0) (p := q1) (pos := q4) hlsub2 (by rfl) (by decide) (by decide) (by trivial) (by trivial)
    (Ev.ident ld (p := q2) (ctx2.var (x := "obj") (by rfl))) (Ev.ident ld (p := q3) (ctx2.var (x := "chunk_size") (by rfl)))
    hm31 hm32
  rw [wrapCall_ok] at A3
  have hdef : t2.isDefined s.frames.size "obj" = true := by
    unfold State.isDefined; rw [ctx2.var (x := "obj") (by rfl)]; rfl
  have A4 := Ev.assignLocal ld (k := 4) (pos := q5) hdef A3
    (by rw [frame_alloc, hfr2, inv.vars]; rfl)
  -- the block
  refine ⟨_, _, Ev.block ld (b := bb) (pos := wp)
    (EvBody.cons ld A2 rfl (EvBody.cons ld (Ev.mono ld A4 (by decide)) rfl (EvBody.nil ld))), rfl, ?_⟩
  have hgf : ∀ (X : State) a, (ghostFin X wp).cell a = X.cell a := fun _ _ => rfl
  have hgfr : ∀ (X : State) e, (ghostFin X wp).frame e = X.frame e := fun _ _ => rfl
  have hgfs : ∀ (X : State), (ghostFin X wp).frames.size = X.frames.size := fun _ => rfl
  have hclt3 : s.frames.size < (t2.alloc (.list (rem.drop k.toNat))).1.frames.size := by
    show s.frames.size < t2.frames.size; rw [hfs2]; exact inv.clt
  have hcellold : ∀ x, x < st.heap.size → x ≠ b →
      (ghostFin ((t2.alloc (.list (rem.drop k.toNat))).1.put s.frames.size "obj" (.ref (st.heap.size + 1))) wp).cell x
        = st.cell x := by
    intro x hx hxb
    rw [hgf, cell_put, cell_alloc_old _ _ (by omega), ← ht2]
    exact cell_step_old_L2 (ghostEnter st wp) b _ _ hx hxb
  refine ⟨((E2.alloc _).put hcge _ _).ghostFin _, ?_, ?_, ?_, ?_, ?_, ?_, ?_, ?_, ?_, inv.bge, ?_⟩
  · rw [hgfr, parent_put, frame_alloc, hfr2]; exact inv.parent
  · rw [hgfs, frames_size_put]; exact hclt3
  · rw [hgfr, vars_put_same _ _ _ hclt3, frame_alloc, hfr2, inv.vars]; simp [dictPut]
  · rw [hgf, cell_put, ← hsz2]; exact cell_alloc_new _ _
  · rw [hgf, cell_put, cell_alloc_old _ _ (by omega), ← ht2, cell_step_b_L2 (ghostEnter st wp) b _ _ hblt]
    simp
  · rw [List.map_append, List.map_append]
    congr 1
    · rw [← inv.chunks]
      apply List.map_congr_left
      intro ci hci
      exact hcellold ci (cells_some_L2 inv.chunks hci) (inv.fresh ci hci).2
    · rw [List.map_cons, List.map_nil, hgf, cell_put, cell_alloc_old _ _ (by omega), ← ht2]
      exact congrArg (fun x => [x]) (cell_step_new_L2 (ghostEnter st wp) b _ _ hblt)
  · intro ci hci
    rcases List.mem_append.mp hci with hci | hci
    · exact inv.fresh ci hci
    · simp at hci; subst hci
      exact ⟨Nat.le_trans inv.ext.hsize (Nat.le_refl _), by omega⟩
  · rw [List.nodup_append]
    refine ⟨inv.nodup, by simp, ?_⟩
    intro x hx y hy
    simp at hy; subst hy
    have := cells_some_L2 inv.chunks hx
    omega
  · omega
  · rw [← inv.eqn, chunksGo_step_L2 k.toNat rem hknpos hlen]; simp

/-- the variant of the loop: the length of the list in the cell `obj` refers to -/
def chMu_L2 (c : EnvId) (st : State) : Nat :=
  match dictGet "obj" (st.frame c).vars with
  | some (.ref o) => (match st.cell o with | some (.list r) => r.length | _ => 0)
  | _ => 0

theorem chMu_eq_L2 {s : State} {c m : EnvId} {b : Nat} {k : Int} {xs : List RVal} {st : State} {o : Nat} {rem : List RVal}
    {cs : List Nat} {done : List (List RVal)} (inv : ChInv_L2 s c m b k xs st o rem cs done) : chMu_L2 c st = rem.length := by
  simp [chMu_L2, inv.vars, dictGet, inv.cello]

/-- the loop `while length(obj) > chunk_size do … end` -/
theorem chunks_while_L2 {s st : State} {M nats srcs m} {b o : Nat} {k : Int} {xs rem : List RVal} {cs : List Nat}
    {done : List (List RVal)} (h : LibEnv s M nats srcs) (hm : M m) (hn : ∀ x ∈ chunksNats, x ∈ nats) (hk : 0 < k)
    (inv : ChInv_L2 s s.frames.size m b k xs st o rem cs done)
    (c1 c2 c3 c4 c5 c6 p1 p2 p3 p4 p5 p6 p7 p8 q1 q2 q3 q4 q5 wp lp : Pos) (bb : Bool) :
    ∃ r st' o' rem' cs' done', Ev ld (2 * rem.length + 14) s.frames.size
        (.while (.call (.ident "greater" c1) [some "a", some "b"]
            [.call (.ident "length" c2) [none] [.ident "obj" c3] c4, .ident "chunk_size" c5] c6)
          (.block [.call (.ident "append" p1) [none, none] [.ident "result" p2,
              .call (.ident "sublist" p3) [none, none, none] [.ident "obj" p4, .lit (.int 0) p5, .ident "chunk_size" p6] p7] p8,
            .assign "obj" (.call (.ident "sublist" q1) [none, none] [.ident "obj" q2, .ident "chunk_size" q3] q4) q5]
            [] [] [] bb wp) lp) st (.ok r st') ∧ isCtl r = false ∧
      ChInv_L2 s s.frames.size m b k xs st' o' rem' cs' done' ∧ rem'.length ≤ k.toNat := by
  have hkn : ((k.toNat : Nat) : Int) = k := Int.toNat_of_nonneg (by omega)
  obtain ⟨r, st', ⟨hctl, o', rem', cs', done', inv', hle⟩, hev⟩ := Ev.whilePost_L2 ld (kc := 7) (kb := 11) (env := s.frames.size)
    (pos := lp)
    (c := .call (.ident "greater" c1) [some "a", some "b"]
            [.call (.ident "length" c2) [none] [.ident "obj" c3] c4, .ident "chunk_size" c5] c6)
    (body := .block [.call (.ident "append" p1) [none, none] [.ident "result" p2,
              .call (.ident "sublist" p3) [none, none, none] [.ident "obj" p4, .lit (.int 0) p5, .ident "chunk_size" p6] p7] p8,
            .assign "obj" (.call (.ident "sublist" q1) [none, none] [.ident "obj" q2, .ident "chunk_size" q3] q4) q5]
            [] [] [] bb wp)
    (fun r st => isCtl r = false ∧ ∃ o rem cs done, ChInv_L2 s s.frames.size m b k xs st o rem cs done)
    (fun r st => isCtl r = false ∧ ∃ o rem cs done, ChInv_L2 s s.frames.size m b k xs st o rem cs done ∧ rem.length ≤ k.toNat)
    (chMu_L2 s.frames.size)
    (by
      intro r st ⟨hctl, o, rem, cs, done, inv⟩
      have ctx : Ctx st M nats srcs s.frames.size m [("obj", .ref o), ("chunk_size", .int k), ("result", .ref b)] :=
        Ctx.ofExt h hm inv.ext inv.vars inv.parent inv.clt
      obtain ⟨i1, hlen⟩ := ctx.nat (x := "length") (hn _ (by decide)) (by rfl)
      obtain ⟨i2, hgt⟩ := ctx.nat (x := "greater") (hn _ (by decide)) (by rfl)
      obtain ⟨mm, hm1, hm2⟩ := length_list o rem (div0Value st s.frames.size) c4 st inv.cello
      have A1 := Ev.nat1 ld (k := 0) (p := c2) (pos := c4) hlen (by rfl) (by decide) (by trivial)
        (Ev.ident ld (p := c3) (ctx.var (x := "obj") (by rfl))) hm1 hm2
      rw [wrapCall_ok] at A1
      obtain ⟨mm', hm1', hm2'⟩ := greater_int_L2 rem.length k (div0Value st s.frames.size) c6 st
      have A2 := Ev.natAB ld (k := 3) (p := c1) (pos := c6) hgt (by rfl) (by trivial) (by trivial)
        A1 (Ev.ident ld (p := c5) (ctx.var (x := "chunk_size") (by rfl))) hm1' hm2'
      rw [wrapCall_ok] at A2
      refine ⟨_, st, A2, ?_, ?_⟩
      · intro hb
        have : ¬ (k < (rem.length : Int)) := by simpa using hb
        exact ⟨hctl, o, rem, cs, done, inv, by omega⟩
      · intro hb
        have hlt : k < (rem.length : Int) := by simpa using hb
        obtain ⟨r', st', hev, hctl', inv'⟩ := chunks_step_L2 ld h hm hn hk inv (by omega)
          p1 p2 p3 p4 p5 p6 p7 p8 q1 q2 q3 q4 q5 wp bb
        refine ⟨r', st', hev, hctl', ⟨hctl', _, _, _, _, inv'⟩, ?_⟩
        rw [chMu_eq_L2 inv', chMu_eq_L2 inv, List.length_drop]; omega)
    st ⟨rfl, o, rem, cs, done, inv⟩
  rw [chMu_eq_L2 inv] at hev
  exact ⟨r, st', o', rem', cs', done', Ev.mono ld hev (by omega), hctl, inv', hle⟩

/-- what holds after the list branch: the result cell holds references to the chunk cells -/
structure ChFinal_L2 (s : State) (c m : EnvId) (b : Nat) (k : Int) (xs : List RVal) (st : State) (cs : List Nat) : Prop where
  ext : Ext s st
  parent : (st.frame c).parent = some m
  clt : c < st.frames.size
  res : dictGet "result" (st.frame c).vars = some (.ref b)
  cellb : st.cell b = some (.list (cs.map .ref))
  chunks : cs.map st.cell = (Lib.chunksGo k.toNat xs).map (fun ch => some (.list ch))
  fresh : ∀ ci ∈ cs, s.heap.size ≤ ci ∧ ci ≠ b
  nodup : cs.Nodup
  bge : s.heap.size ≤ b

/-- the list branch: `do while … end; result !> append(obj !> sublist(0)); end` -/
theorem chunks_listBlock_L2 {s st : State} {M nats srcs m} {b o : Nat} {k : Int} {xs : List RVal}
    (h : LibEnv s M nats srcs) (hm : M m) (hn : ∀ x ∈ chunksNats, x ∈ nats) (hk : 0 < k)
    (inv : ChInv_L2 s s.frames.size m b k xs st o xs [] [])
    (c1 c2 c3 c4 c5 c6 p1 p2 p3 p4 p5 p6 p7 p8 q1 q2 q3 q4 q5 wp lp f1 f2 f3 f4 f5 f6 f7 bp2 : Pos) (bb bb2 : Bool) :
    ∃ r st' cs, Ev ld (2 * xs.length + 17) s.frames.size
        (.block [.while (.call (.ident "greater" c1) [some "a", some "b"]
            [.call (.ident "length" c2) [none] [.ident "obj" c3] c4, .ident "chunk_size" c5] c6)
          (.block [.call (.ident "append" p1) [none, none] [.ident "result" p2,
              .call (.ident "sublist" p3) [none, none, none] [.ident "obj" p4, .lit (.int 0) p5, .ident "chunk_size" p6] p7] p8,
            .assign "obj" (.call (.ident "sublist" q1) [none, none] [.ident "obj" q2, .ident "chunk_size" q3] q4) q5]
            [] [] [] bb wp) lp,
          .call (.ident "append" f1) [none, none] [.ident "result" f2,
            .call (.ident "sublist" f3) [none, none] [.ident "obj" f4, .lit (.int 0) f5] f6] f7] [] [] [] bb2 bp2)
        st (.ok r st') ∧ isCtl r = false ∧ ChFinal_L2 s s.frames.size m b k xs st' cs := by
  have inv0 : ChInv_L2 s s.frames.size m b k xs (ghostEnter st bp2) o xs [] [] :=
    ⟨inv.ext.ghostEnter _, inv.parent, inv.clt, inv.vars, inv.cello, inv.cellb, inv.chunks, inv.fresh, inv.nodup, inv.ob,
      inv.bge, inv.eqn⟩
  obtain ⟨r1, t1, o1, rem, cs, done, hW, hctl1, inv1, hle⟩ := chunks_while_L2 ld h hm hn hk inv0
    c1 c2 c3 c4 c5 c6 p1 p2 p3 p4 p5 p6 p7 p8 q1 q2 q3 q4 q5 wp lp bb
  have ctx1 : Ctx t1 M nats srcs s.frames.size m [("obj", .ref o1), ("chunk_size", .int k), ("result", .ref b)] :=
    Ctx.ofExt h hm inv1.ext inv1.vars inv1.parent inv1.clt
  have hblt : b < t1.heap.size := cell_lt inv1.cellb
  obtain ⟨j1, hlsub⟩ := ctx1.nat (x := "sublist") (hn _ (by decide)) (by rfl)
  obtain ⟨j2, hlapp⟩ := ctx1.nat (x := "append") (hn _ (by decide)) (by rfl)
  obtain ⟨mm1, hm11, hm12⟩ := sublist_from o1 rem 0 (div0Value t1 s.frames.size) f6 t1 inv1.cello
  rw [substr_zero_none] at hm12
  have A1 := Ev.nat2 ld (k := 0) (p := f3) (pos := f6) hlsub (by rfl) (by decide) (by decide) (by trivial) (by trivial)
    (Ev.ident ld (p := f4) (ctx1.var (x := "obj") (by rfl))) (Ev.litInt ld (p := f5) (n := 0)) hm11 hm12
  rw [wrapCall_ok] at A1
  have hcb1 : (t1.alloc (.list rem)).1.cell b = some (.list (cs.map .ref)) := by
    rw [cell_alloc_old _ _ hblt]; exact inv1.cellb
  obtain ⟨mm2, hm21, hm22⟩ := append_list b (cs.map .ref) (.ref t1.heap.size)
    (div0Value (t1.alloc (.list rem)).1 s.frames.size) f7 _ hcb1
  have A2 := Ev.nat2 ld (k := 4) (p := f1) (pos := f7) hlapp (by rfl) (by decide) (by decide) (by trivial) (by trivial)
    (Ev.ident ld (p := f2) (ctx1.var (x := "result") (by rfl))) A1 hm21 hm22
  rw [wrapCall_ok] at A2
  refine ⟨_, _, cs ++ [t1.heap.size], Ev.mono ld (Ev.block ld (b := bb2) (pos := bp2)
    (EvBody.cons ld (Ev.mono ld hW (Nat.le_succ _)) hctl1
      (EvBody.cons ld (Ev.mono ld A2 (show 4 + 4 ≤ 2 * xs.length + 14 by omega)) rfl (EvBody.nil ld)))) (by omega), rfl, ?_⟩
  have hgf : ∀ (X : State) a, (ghostFin X bp2).cell a = X.cell a := fun _ _ => rfl
  have hgfr : ∀ (X : State) e, (ghostFin X bp2).frame e = X.frame e := fun _ _ => rfl
  have hgfs : ∀ (X : State), (ghostFin X bp2).frames.size = X.frames.size := fun _ => rfl
  refine ⟨((inv1.ext.alloc _).setCell inv1.bge _).ghostFin _, ?_, ?_, ?_, ?_, ?_, ?_, ?_, inv1.bge⟩
  · rw [hgfr, frame_setCell, frame_alloc]; exact inv1.parent
  · rw [hgfs]; exact inv1.clt
  · rw [hgfr, frame_setCell, frame_alloc, inv1.vars]; rfl
  · rw [hgf, cell_step_b_L2 t1 b _ _ hblt]; simp
  · rw [← inv1.eqn, chunksGo_last_L2 _ _ hle, List.map_append, List.map_append]
    congr 1
    · rw [← inv1.chunks]
      apply List.map_congr_left
      intro ci hci
      rw [hgf]
      exact cell_step_old_L2 t1 b _ _ (cells_some_L2 inv1.chunks hci) (inv1.fresh ci hci).2
    · rw [List.map_cons, List.map_nil, hgf]
      exact congrArg (fun x => [x]) (cell_step_new_L2 t1 b _ _ hblt)
  · intro ci hci
    rcases List.mem_append.mp hci with hci | hci
    · exact inv1.fresh ci hci
    · simp at hci; subst hci
      exact ⟨Nat.le_trans inv1.ext.hsize (Nat.le_refl _), by omega⟩
  · rw [List.nodup_append]
    refine ⟨inv1.nodup, by simp, ?_⟩
    intro x hx y hy
    simp at hy; subst hy
    have := cells_some_L2 inv1.chunks hx
    omega

end Ckl.C19Src
