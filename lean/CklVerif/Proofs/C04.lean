import CklVerif.Lemmas.C04Loops

/-!
  C04 — structured control flow of the evaluator model (`CklVerif/Model/Eval.lean`).

  * blocks stop at the first control signal and hand it on unchanged (§2),
  * a function call unwraps `return v` and turns a stray `break`/`continue` into a runtime
    error, so no loop signal crosses a function boundary (§3),
  * `if` evaluates conditions in order and exactly the branch of the first TRUE one (§4),
  * `and`/`or` short-circuit (§5),
  * `while` re-tests its condition after every body evaluation that neither broke nor
    returned (§6),
  * every loop absorbs `break`/`continue`: the value of a `for`/`while` is never one of the
    two signals (§1),
  * `for` over a set / map iterates the same sorted snapshot that comprehensions
    (`collectionValues`) use (§7).

  All theorems hold for every loader `ld` (in particular every interpretation of the
  unmodelled natives), every fuel and every state.  The evaluator functions are compiled by
  well-founded recursion, so the concrete instances in the `example`s are discharged with
  the equation lemmas rather than by `rfl`/`decide`.
-/
namespace Ckl.C04
variable (ld : Loader)

/-! ### concrete data for the non-vacuity examples -/

/-- the default loader -/
def ld0 : Loader := {}
/-- the empty state -/
def s0 : State := {}
def T : Node := .lit (.bool true) {}
def F : Node := .lit (.bool false) {}
def One : Node := .lit (.int 1) {}

/-! ## §2 blocks: `block_propagates_signal` -/

/-- A statement whose value is a control signal (`return`, `break`, `continue`) ends the
    statement list: the signal is the value of the list, the rest is not evaluated. -/
theorem body_stops_at_control {fuel env n rest last s v s'}
    (h : eval ld fuel env n s = .ok v s') (hc : v.isReturn ∨ v.isBreak ∨ v.isContinue) :
    evalBody ld (fuel+1) env (n :: rest) last s = .ok v s' := by
  rw [evalBody, EvalM.bind_apply, h]
  dsimp only
  have : (v.isReturn || v.isBreak || v.isContinue) = true := by
    rcases hc with h | h | h <;> simp [h]
  rw [if_pos this]; rfl

example : evalBody ld0 2 0 [.brk {}, T] .null s0 = .ok (.brk {}) s0 :=
  body_stops_at_control ld0 (eval_brk ld0 0 0 {} s0) (Or.inr (Or.inl rfl))

/-- the requested name of the same statement -/
theorem block_propagates_signal {fuel env n rest last s v s'}
    (h : eval ld fuel env n s = .ok v s') (hc : v.isReturn ∨ v.isBreak ∨ v.isContinue) :
    evalBody ld (fuel+1) env (n :: rest) last s = .ok v s' :=
  body_stops_at_control ld h hc

example : evalBody ld0 2 0 [.ret .absent {}, T] .null s0 = .ok (.ret .null {}) s0 :=
  block_propagates_signal ld0 (eval_ret_absent ld0 0 0 {} s0) (Or.inl rfl)

/-- A statement with an ordinary value is followed by the rest of the list (one unit of fuel
    less); its value becomes the provisional value of the block. -/
theorem body_continues {fuel env n rest last s v s'}
    (h : eval ld fuel env n s = .ok v s') (hc : ¬ v.isReturn ∧ ¬ v.isBreak ∧ ¬ v.isContinue) :
    evalBody ld (fuel+1) env (n :: rest) last s = evalBody ld fuel env rest v s' := by
  rw [evalBody, EvalM.bind_apply, h]
  dsimp only
  have : ¬ (v.isReturn || v.isBreak || v.isContinue) = true := by
    obtain ⟨h1, h2, h3⟩ := hc; simp [h1, h2, h3]
  rw [if_neg this]

example : evalBody ld0 2 0 [One, T] .null s0 = evalBody ld0 1 0 [T] (.int 1) s0 :=
  body_continues ld0 (eval_lit_int ld0 0 0 1 {} s0) (by simp [RVal.isReturn, RVal.isBreak, RVal.isContinue])

/-- an empty statement list has the provisional value -/
theorem body_nil {fuel env last s} : evalBody ld (fuel+1) env [] last s = .ok last s := by
  rw [evalBody]; rfl

/-- an error in a statement ends the statement list with that error -/
theorem body_err {fuel env n rest last s v m p t s'}
    (h : eval ld fuel env n s = .err v m p t s') :
    evalBody ld (fuel+1) env (n :: rest) last s = .err v m p t s' := by
  rw [evalBody, EvalM.bind_apply, h]

/-! ## §4 `if`: `if_first_true` -/

theorem evalIf_true {fuel env c cs x xs els pos s s1}
    (h : eval ld fuel env c s = .ok (.bool true) s1) :
    evalIf ld (fuel+1) env (c::cs) (x::xs) els pos s = eval ld fuel env x s1 := by
  rw [evalIf, EvalM.bind_apply, h]
  rfl

example : evalIf ld0 2 0 [T, F] [One, T] F {} s0 = eval ld0 1 0 One s0 :=
  evalIf_true ld0 (eval_lit_bool ld0 0 0 true {} s0)

theorem evalIf_false {fuel env c cs x xs els pos s s1}
    (h : eval ld fuel env c s = .ok (.bool false) s1) :
    evalIf ld (fuel+1) env (c::cs) (x::xs) els pos s = evalIf ld fuel env cs xs els pos s1 := by
  rw [evalIf, EvalM.bind_apply, h]
  rfl

example : evalIf ld0 2 0 [F, T] [One, T] F {} s0 = evalIf ld0 1 0 [T] [T] F {} s0 :=
  evalIf_false ld0 (eval_lit_bool ld0 0 0 false {} s0)

/-- conditions exhausted: the else branch -/
theorem evalIf_nil {fuel env xs els pos s} :
    evalIf ld (fuel+1) env [] xs els pos s = eval ld fuel env els s := by
  rw [evalIf]
  intro c cs x xs' h; cases h

/-- branches exhausted: the else branch -/
theorem evalIf_nil_exprs {fuel env cs els pos s} :
    evalIf ld (fuel+1) env cs [] els pos s = eval ld fuel env els s := by
  cases cs <;> rw [evalIf] <;> simp

/-- a condition that is not a boolean is a runtime error (raised in the state after it) -/
theorem evalIf_nonbool {fuel env c cs x xs els pos s v s1} (h : eval ld fuel env c s = .ok v s1)
    (hv : v.isBoolean = false) :
    evalIf ld (fuel+1) env (c::cs) (x::xs) els pos s =
      throwE ("Expected boolean condition value but got " ++ typeName s1 v) pos s1 := by
  rw [evalIf, EvalM.bind_apply, h]
  cases v <;> first | rfl | cases hv

example : evalIf ld0 2 0 [One] [T] F {} s0 =
    throwE ("Expected boolean condition value but got " ++ typeName s0 (.int 1)) {} s0 :=
  evalIf_nonbool ld0 (eval_lit_int ld0 0 0 1 {} s0) rfl

/-- an error in a condition propagates; no branch and no later condition is evaluated -/
theorem evalIf_cond_err {fuel env c cs x xs els pos s v m p t s1}
    (h : eval ld fuel env c s = .err v m p t s1) :
    evalIf ld (fuel+1) env (c::cs) (x::xs) els pos s = .err v m p t s1 := by
  rw [evalIf, EvalM.bind_apply, h]

example : evalIf ld0 2 0 [.ident "nope" {}] [T] F {} s0 =
    .err (.str ['E','R','R','O','R']) "Symbol 'nope' not defined" {} [] s0 :=
  evalIf_cond_err ld0 (by rw [eval]; rfl)

/-- a failure (out of fuel, unsupported, …) in a condition propagates -/
theorem evalIf_cond_fail {fuel env c cs x xs els pos s f s1}
    (h : eval ld fuel env c s = .fail f s1) :
    evalIf ld (fuel+1) env (c::cs) (x::xs) els pos s = .fail f s1 := by
  rw [evalIf, EvalM.bind_apply, h]

example : evalIf ld0 1 0 [T] [T] F {} s0 = .fail .oof s0 :=
  evalIf_cond_fail ld0 (by rw [eval]; rfl)

/-- the `if` node is `evalIf` with one unit of fuel less -/
theorem eval_ite {fuel env conds exprs els pos s} :
    eval ld (fuel+1) env (.ite conds exprs els pos) s = evalIf ld fuel env conds exprs els pos s := by
  rw [eval]

/-- `FalsePrefix ld env fuel cs s s'`: the conditions `cs`, evaluated in order starting in
    state `s`, each with the fuel `evalIf` gives it when `fuel` units remain after the last one
    (of n conditions the j-th gets `fuel + (n-1-j)`: every recursive call of `evalIf` has one
    unit less), all yield FALSE, threading the state; the state after the last one is `s'`. -/
def FalsePrefix (env : EnvId) (fuel : Nat) : List Node → State → State → Prop
  | [], s, s' => s' = s
  | c :: cs, s, s' =>
    ∃ s1, eval ld (fuel + cs.length) env c s = .ok (.bool false) s1 ∧ FalsePrefix env fuel cs s1 s'

/-- A prefix of FALSE conditions is skipped together with its branches: what remains is the
    `if` on the remaining conditions/branches in the state the prefix left behind. -/
theorem evalIf_skip_false {env fuel els pos} : ∀ (cs₁ xs₁ : List Node) {cs₂ xs₂ s s'},
    FalsePrefix ld env fuel cs₁ s s' → xs₁.length = cs₁.length →
    evalIf ld (fuel + cs₁.length) env (cs₁ ++ cs₂) (xs₁ ++ xs₂) els pos s =
      evalIf ld fuel env cs₂ xs₂ els pos s'
  | [], [], _, _, s, s', h, _ => by cases h; rfl
  | [], _ :: _, _, _, _, _, _, hl => by cases hl
  | _ :: _, [], _, _, _, _, _, hl => by cases hl
  | c :: cs, x :: xs, cs₂, xs₂, s, s', h, hl => by
    obtain ⟨s1, h1, h2⟩ := h
    have ih := evalIf_skip_false (els := els) (pos := pos) cs xs (cs₂ := cs₂) (xs₂ := xs₂) h2
      (by simpa using hl)
    rw [← ih]
    exact evalIf_false ld h1

/-- **if_first_true.**  If the conditions `cs₁` (with branches `xs₁`) all evaluate to FALSE,
    threading the state from `s` to `s1`, and the next condition `c` evaluates to TRUE leaving
    `s2`, then the whole `if` is the evaluation of `c`'s branch `x` in `s2`.  The later
    conditions `cs₂`, the later branches `xs₂`, the skipped branches `xs₁` and the else branch
    do not occur on the right-hand side: they are not evaluated. -/
theorem if_first_true {env fuel els pos} (cs₁ xs₁ : List Node) {c x cs₂ xs₂ s s1 s2}
    (hpre : FalsePrefix ld env (fuel+1) cs₁ s s1) (hlen : xs₁.length = cs₁.length)
    (hc : eval ld fuel env c s1 = .ok (.bool true) s2) :
    evalIf ld (fuel + 1 + cs₁.length) env (cs₁ ++ c :: cs₂) (xs₁ ++ x :: xs₂) els pos s =
      eval ld fuel env x s2 := by
  rw [evalIf_skip_false ld cs₁ xs₁ hpre hlen]
  exact evalIf_true ld hc

example : evalIf ld0 4 0 ([F, F] ++ T :: [F]) ([T, T] ++ One :: [T]) F {} s0 = eval ld0 1 0 One s0 :=
  if_first_true ld0 (fuel := 1) [F, F] [T, T]
    ⟨s0, eval_lit_bool ld0 2 0 false {} s0, s0, eval_lit_bool ld0 1 0 false {} s0, rfl⟩ rfl
    (eval_lit_bool ld0 0 0 true {} s0)

/-- **All conditions FALSE**: the result is the else branch, evaluated in the state after the
    last condition (also when there are more branches than conditions). -/
theorem if_all_false {env fuel els pos} (cs xs₁ : List Node) {xs₂ s s1}
    (hpre : FalsePrefix ld env (fuel+1) cs s s1) (hlen : xs₁.length = cs.length) :
    evalIf ld (fuel + 1 + cs.length) env cs (xs₁ ++ xs₂) els pos s = eval ld fuel env els s1 := by
  have h := evalIf_skip_false ld (els := els) (pos := pos) cs xs₁ (cs₂ := []) (xs₂ := xs₂) hpre hlen
  rw [List.append_nil] at h
  rw [h]
  exact evalIf_nil ld

example : evalIf ld0 3 0 [F] ([T] ++ []) One {} s0 = eval ld0 1 0 One s0 :=
  if_all_false ld0 (fuel := 1) [F] [T] ⟨s0, eval_lit_bool ld0 1 0 false {} s0, rfl⟩ rfl

/-- conditions all FALSE but fewer branches than conditions: the else branch as soon as the
    branches run out (the remaining conditions `cs₂` are not evaluated) -/
theorem if_branches_exhausted {env fuel els pos} (cs₁ xs : List Node) {cs₂ s s1}
    (hpre : FalsePrefix ld env (fuel+1) cs₁ s s1) (hlen : xs.length = cs₁.length) :
    evalIf ld (fuel + 1 + cs₁.length) env (cs₁ ++ cs₂) xs els pos s = eval ld fuel env els s1 := by
  have h := evalIf_skip_false ld (els := els) (pos := pos) cs₁ xs (cs₂ := cs₂) (xs₂ := []) hpre hlen
  rw [List.append_nil] at h
  rw [h]
  exact evalIf_nil_exprs ld

example : evalIf ld0 3 0 ([F] ++ [T]) [T] One {} s0 = eval ld0 1 0 One s0 :=
  if_branches_exhausted ld0 (fuel := 1) [F] [T] ⟨s0, eval_lit_bool ld0 1 0 false {} s0, rfl⟩ rfl

/-! ## §5 `and` / `or`: `and_or_short_circuit` -/

theorem evalAnd_nil {fuel env pos s} : evalAnd ld (fuel+1) env [] pos s = .ok (.bool true) s := by
  rw [evalAnd]; rfl

/-- first clause FALSE: the conjunction is FALSE in the state after that clause; the
    remaining clauses `es` are not evaluated -/
theorem evalAnd_false {fuel env e es pos s s1} (h : eval ld fuel env e s = .ok (.bool false) s1) :
    evalAnd ld (fuel+1) env (e::es) pos s = .ok (.bool false) s1 := by
  rw [evalAnd, EvalM.bind_apply, h]; rfl

example : evalAnd ld0 2 0 [F, .ident "nope" {}] {} s0 = .ok (.bool false) s0 :=
  evalAnd_false ld0 (eval_lit_bool ld0 0 0 false {} s0)

theorem evalAnd_true {fuel env e es pos s s1} (h : eval ld fuel env e s = .ok (.bool true) s1) :
    evalAnd ld (fuel+1) env (e::es) pos s = evalAnd ld fuel env es pos s1 := by
  rw [evalAnd, EvalM.bind_apply, h]; rfl

example : evalAnd ld0 2 0 [T, F] {} s0 = evalAnd ld0 1 0 [F] {} s0 :=
  evalAnd_true ld0 (eval_lit_bool ld0 0 0 true {} s0)

theorem evalAnd_nonbool {fuel env e es pos s v s1} (h : eval ld fuel env e s = .ok v s1)
    (hv : v.isBoolean = false) :
    evalAnd ld (fuel+1) env (e::es) pos s =
      throwE ("Expected boolean but got " ++ typeName s1 v) pos s1 := by
  rw [evalAnd, EvalM.bind_apply, h]
  cases v <;> first | rfl | cases hv

example : evalAnd ld0 2 0 [One, F] {} s0 =
    throwE ("Expected boolean but got " ++ typeName s0 (.int 1)) {} s0 :=
  evalAnd_nonbool ld0 (eval_lit_int ld0 0 0 1 {} s0) rfl

theorem evalAnd_err {fuel env e es pos s v m p t s1} (h : eval ld fuel env e s = .err v m p t s1) :
    evalAnd ld (fuel+1) env (e::es) pos s = .err v m p t s1 := by
  rw [evalAnd, EvalM.bind_apply, h]

example : evalAnd ld0 2 0 [.ident "nope" {}, T] {} s0 =
    .err (.str ['E','R','R','O','R']) "Symbol 'nope' not defined" {} [] s0 :=
  evalAnd_err ld0 (by rw [eval]; rfl)

theorem evalOr_nil {fuel env pos s} : evalOr ld (fuel+1) env [] pos s = .ok (.bool false) s := by
  rw [evalOr]; rfl

/-- first clause TRUE: the disjunction is TRUE in the state after that clause; the remaining
    clauses `es` are not evaluated -/
theorem evalOr_true {fuel env e es pos s s1} (h : eval ld fuel env e s = .ok (.bool true) s1) :
    evalOr ld (fuel+1) env (e::es) pos s = .ok (.bool true) s1 := by
  rw [evalOr, EvalM.bind_apply, h]; rfl

example : evalOr ld0 2 0 [T, .ident "nope" {}] {} s0 = .ok (.bool true) s0 :=
  evalOr_true ld0 (eval_lit_bool ld0 0 0 true {} s0)

theorem evalOr_false {fuel env e es pos s s1} (h : eval ld fuel env e s = .ok (.bool false) s1) :
    evalOr ld (fuel+1) env (e::es) pos s = evalOr ld fuel env es pos s1 := by
  rw [evalOr, EvalM.bind_apply, h]; rfl

example : evalOr ld0 2 0 [F, T] {} s0 = evalOr ld0 1 0 [T] {} s0 :=
  evalOr_false ld0 (eval_lit_bool ld0 0 0 false {} s0)

theorem evalOr_nonbool {fuel env e es pos s v s1} (h : eval ld fuel env e s = .ok v s1)
    (hv : v.isBoolean = false) :
    evalOr ld (fuel+1) env (e::es) pos s =
      throwE ("Expected boolean but got " ++ typeName s1 v) pos s1 := by
  rw [evalOr, EvalM.bind_apply, h]
  cases v <;> first | rfl | cases hv

example : evalOr ld0 2 0 [One, F] {} s0 =
    throwE ("Expected boolean but got " ++ typeName s0 (.int 1)) {} s0 :=
  evalOr_nonbool ld0 (eval_lit_int ld0 0 0 1 {} s0) rfl

theorem evalOr_err {fuel env e es pos s v m p t s1} (h : eval ld fuel env e s = .err v m p t s1) :
    evalOr ld (fuel+1) env (e::es) pos s = .err v m p t s1 := by
  rw [evalOr, EvalM.bind_apply, h]

example : evalOr ld0 2 0 [.ident "nope" {}, T] {} s0 =
    .err (.str ['E','R','R','O','R']) "Symbol 'nope' not defined" {} [] s0 :=
  evalOr_err ld0 (by rw [eval]; rfl)

/-- the `and` / `or` nodes are `evalAnd` / `evalOr` with one unit of fuel less -/
theorem eval_and {fuel env es pos s} :
    eval ld (fuel+1) env (.and es pos) s = evalAnd ld fuel env es pos s := by rw [eval]
theorem eval_or {fuel env es pos s} :
    eval ld (fuel+1) env (.or es pos) s = evalOr ld fuel env es pos s := by rw [eval]

/-- **and_or_short_circuit**, node level: an `and` whose first clause is FALSE is FALSE, an
    `or` whose first clause is TRUE is TRUE, whatever the remaining clauses are (they are not
    evaluated: the state is the one after the first clause). -/
theorem and_or_short_circuit {fuel env e es pos s s1} :
    (eval ld fuel env e s = .ok (.bool false) s1 →
      eval ld (fuel+2) env (.and (e :: es) pos) s = .ok (.bool false) s1) ∧
    (eval ld fuel env e s = .ok (.bool true) s1 →
      eval ld (fuel+2) env (.or (e :: es) pos) s = .ok (.bool true) s1) :=
  ⟨fun h => by rw [eval_and]; exact evalAnd_false ld h,
   fun h => by rw [eval_or]; exact evalOr_true ld h⟩

example : eval ld0 3 0 (.and [F, .ident "nope" {}] {}) s0 = .ok (.bool false) s0 :=
  (and_or_short_circuit ld0).1 (eval_lit_bool ld0 0 0 false {} s0)
example : eval ld0 3 0 (.or [T, .ident "nope" {}] {}) s0 = .ok (.bool true) s0 :=
  (and_or_short_circuit ld0).2 (eval_lit_bool ld0 0 0 true {} s0)

/-! ## §6 `while`: `while_retests` -/

/-- the body broke: the loop ends with TRUE, the condition is not evaluated again -/
theorem whileLoop_break {fuel env c body pos s r s1} (h : eval ld fuel env body s = .ok r s1)
    (hb : r.isBreak = true) :
    whileLoop ld (fuel+1) env c body pos s = .ok (.bool true) s1 := by
  rw [whileLoop, EvalM.bind_apply, h]
  dsimp only
  rw [if_pos hb]; rfl

example : whileLoop ld0 2 0 T (.brk {}) {} s0 = .ok (.bool true) s0 :=
  whileLoop_break ld0 (eval_brk ld0 0 0 {} s0) rfl

/-- the body returned: the loop ends with the `return` signal itself (still wrapped) -/
theorem whileLoop_return {fuel env c body pos s r s1} (h : eval ld fuel env body s = .ok r s1)
    (hb : r.isReturn = true) :
    whileLoop ld (fuel+1) env c body pos s = .ok r s1 := by
  rw [whileLoop, EvalM.bind_apply, h]
  dsimp only
  have : r.isBreak = false := by cases r <;> first | rfl | cases hb
  rw [this, if_pos hb]; rfl

example : whileLoop ld0 2 0 T (.ret .absent {}) {} s0 = .ok (.ret .null {}) s0 :=
  whileLoop_return ld0 (eval_ret_absent ld0 0 0 {} s0) rfl

/-- the body ended normally or with `continue`, and the condition — evaluated again, in the
    state after the body — is TRUE: the loop goes round again -/
theorem whileLoop_again {fuel env c body pos s r s1 s2} (h : eval ld fuel env body s = .ok r s1)
    (hb : r.isBreak = false) (hr : r.isReturn = false)
    (hc : eval ld fuel env c s1 = .ok (.bool true) s2) :
    whileLoop ld (fuel+1) env c body pos s = whileLoop ld fuel env c body pos s2 := by
  rw [whileLoop, EvalM.bind_apply, h]
  dsimp only
  rw [hb, hr]
  simp only [Bool.false_eq_true, if_false]
  rw [EvalM.bind_apply, hc]; rfl

example : whileLoop ld0 2 0 T (.cont {}) {} s0 = whileLoop ld0 1 0 T (.cont {}) {} s0 :=
  whileLoop_again ld0 (eval_cont ld0 0 0 {} s0) rfl rfl (eval_lit_bool ld0 0 0 true {} s0)

/-- the requested name of the same statement -/
theorem while_retests {fuel env c body pos s r s1 s2} (h : eval ld fuel env body s = .ok r s1)
    (hb : r.isBreak = false) (hr : r.isReturn = false)
    (hc : eval ld fuel env c s1 = .ok (.bool true) s2) :
    whileLoop ld (fuel+1) env c body pos s = whileLoop ld fuel env c body pos s2 :=
  whileLoop_again ld h hb hr hc

example : whileLoop ld0 2 0 T One {} s0 = whileLoop ld0 1 0 T One {} s0 :=
  while_retests ld0 (eval_lit_int ld0 0 0 1 {} s0) rfl rfl (eval_lit_bool ld0 0 0 true {} s0)

/-- … and the re-tested condition is FALSE: the loop ends with the last body value (TRUE when
    the body ended with `continue`) -/
theorem whileLoop_done {fuel env c body pos s r s1 s2} (h : eval ld fuel env body s = .ok r s1)
    (hb : r.isBreak = false) (hr : r.isReturn = false)
    (hc : eval ld fuel env c s1 = .ok (.bool false) s2) :
    whileLoop ld (fuel+1) env c body pos s = .ok (if r.isContinue then .bool true else r) s2 := by
  rw [whileLoop, EvalM.bind_apply, h]
  dsimp only
  rw [hb, hr]
  simp only [Bool.false_eq_true, if_false]
  rw [EvalM.bind_apply, hc]; rfl

example : whileLoop ld0 2 0 F One {} s0 = .ok (.int 1) s0 :=
  whileLoop_done ld0 (eval_lit_int ld0 0 0 1 {} s0) rfl rfl (eval_lit_bool ld0 0 0 false {} s0)
example : whileLoop ld0 2 0 F (.cont {}) {} s0 = .ok (.bool true) s0 :=
  whileLoop_done ld0 (eval_cont ld0 0 0 {} s0) rfl rfl (eval_lit_bool ld0 0 0 false {} s0)

/-- … and the re-tested condition is not a boolean: runtime error -/
theorem whileLoop_nonbool {fuel env c body pos s r s1 v s2} (h : eval ld fuel env body s = .ok r s1)
    (hb : r.isBreak = false) (hr : r.isReturn = false)
    (hc : eval ld fuel env c s1 = .ok v s2) (hv : v.isBoolean = false) :
    whileLoop ld (fuel+1) env c body pos s =
      throwE ("Expected boolean condition but got " ++ typeName s2 v) pos s2 := by
  rw [whileLoop, EvalM.bind_apply, h]
  dsimp only
  rw [hb, hr]
  simp only [Bool.false_eq_true, if_false]
  rw [EvalM.bind_apply, hc]
  cases v <;> first | rfl | cases hv

example : whileLoop ld0 2 0 One T {} s0 =
    throwE ("Expected boolean condition but got " ++ typeName s0 (.int 1)) {} s0 :=
  whileLoop_nonbool ld0 (eval_lit_bool ld0 0 0 true {} s0) rfl rfl (eval_lit_int ld0 0 0 1 {} s0) rfl

/-- an error in the body ends the loop with that error -/
theorem whileLoop_body_err {fuel env c body pos s v m p t s1}
    (h : eval ld fuel env body s = .err v m p t s1) :
    whileLoop ld (fuel+1) env c body pos s = .err v m p t s1 := by
  rw [whileLoop, EvalM.bind_apply, h]

example : whileLoop ld0 2 0 T (.ident "nope" {}) {} s0 =
    .err (.str ['E','R','R','O','R']) "Symbol 'nope' not defined" {} [] s0 :=
  whileLoop_body_err ld0 (by rw [eval]; rfl)

/-- an error in the re-tested condition ends the loop with that error -/
theorem whileLoop_cond_err {fuel env c body pos s r s1 v m p t s2}
    (h : eval ld fuel env body s = .ok r s1)
    (hb : r.isBreak = false) (hr : r.isReturn = false)
    (hc : eval ld fuel env c s1 = .err v m p t s2) :
    whileLoop ld (fuel+1) env c body pos s = .err v m p t s2 := by
  rw [whileLoop, EvalM.bind_apply, h]
  dsimp only
  rw [hb, hr]
  simp only [Bool.false_eq_true, if_false]
  rw [EvalM.bind_apply, hc]

example : whileLoop ld0 2 0 (.ident "nope" {}) T {} s0 =
    .err (.str ['E','R','R','O','R']) "Symbol 'nope' not defined" {} [] s0 :=
  whileLoop_cond_err ld0 (eval_lit_bool ld0 0 0 true {} s0) rfl rfl (by rw [eval]; rfl)

/-- the `while` node: the first test TRUE enters the loop … -/
theorem while_enter {fuel env c body pos s s1} (hc : eval ld fuel env c s = .ok (.bool true) s1) :
    eval ld (fuel+1) env (.while c body pos) s = whileLoop ld fuel env c body pos s1 := by
  rw [eval, EvalM.bind_apply, hc]; rfl

example : eval ld0 2 0 (.while T One {}) s0 = whileLoop ld0 1 0 T One {} s0 :=
  while_enter ld0 (eval_lit_bool ld0 0 0 true {} s0)

/-- … the first test FALSE skips it: the value is TRUE -/
theorem while_skip {fuel env c body pos s s1} (hc : eval ld fuel env c s = .ok (.bool false) s1) :
    eval ld (fuel+1) env (.while c body pos) s = .ok (.bool true) s1 := by
  rw [eval, EvalM.bind_apply, hc]; rfl

example : eval ld0 2 0 (.while F One {}) s0 = .ok (.bool true) s0 :=
  while_skip ld0 (eval_lit_bool ld0 0 0 false {} s0)

/-! ## §3 calls: `call_unwraps_return` -/

/-- a state with one frame and one closure cell: `def f() return` -/
def sRet : State := { frames := #[{}], heap := #[.closure 0 [] [] (.ret .absent {}) "f"] }
/-- `def f() break` -/
def sBrk : State := { frames := #[{}], heap := #[.closure 0 [] [] (.brk {}) "f"] }
/-- `def f() continue` -/
def sCont : State := { frames := #[{}], heap := #[.closure 0 [] [] (.cont {}) "f"] }
/-- `def f() 1` -/
def sOne : State := { frames := #[{}], heap := #[.closure 0 [] [] One "f"] }

theorem bindParams_nil (fuel lenv bound pos s) :
    bindParams ld (fuel+1) lenv [] [] bound pos s = .ok () s := by
  rw [bindParams]; rfl; simp

/-- **call_unwraps_return.**  If the body of the called closure evaluates (in the fresh frame,
    after parameter binding) to the signal `return v`, the call yields the plain `v`. -/
theorem call_unwraps_return {fuel a bound env pos s cenv params defaults body name s1 v p s'}
    (hcell : s.cell a = some (.closure cenv params defaults body name))
    (hbind : bindParams ld fuel (s.frames.size) params defaults bound pos (s.newEnv cenv).1 = .ok () s1)
    (hbody : eval ld fuel (s.frames.size) body s1 = .ok (.ret v p) s') :
    callFn ld (fuel+1) (.closure a) bound env pos s = .ok v s' := by
  rw [callFn_closure ld hcell hbind, hbody]

example : callFn ld0 2 (.closure 0) [] 0 {} sRet = .ok .null (sRet.newEnv 0).1 :=
  call_unwraps_return ld0 (s := sRet) rfl (bindParams_nil ld0 0 _ _ _ _) (eval_ret_absent ld0 0 _ {} _)

/-- A `break` that reaches the end of a function body is a runtime error of the call, reported at the `break` itself: it never
    crosses the function boundary (it cannot end a loop of the caller). -/
theorem call_break_is_error {fuel a bound env pos s cenv params defaults body name s1 p s'}
    (hcell : s.cell a = some (.closure cenv params defaults body name))
    (hbind : bindParams ld fuel (s.frames.size) params defaults bound pos (s.newEnv cenv).1 = .ok () s1)
    (hbody : eval ld fuel (s.frames.size) body s1 = .ok (.brk p) s') :
    callFn ld (fuel+1) (.closure a) bound env pos s = throwE "Cannot use break without surrounding loop" p s' := by
  rw [callFn_closure ld hcell hbind, hbody]

example : callFn ld0 2 (.closure 0) [] 0 {} sBrk =
    throwE "Cannot use break without surrounding loop" {} (sBrk.newEnv 0).1 :=
  call_break_is_error ld0 (s := sBrk) rfl (bindParams_nil ld0 0 _ _ _ _) (eval_brk ld0 0 _ {} _)

/-- the same for `continue` -/
theorem call_continue_is_error {fuel a bound env pos s cenv params defaults body name s1 p s'}
    (hcell : s.cell a = some (.closure cenv params defaults body name))
    (hbind : bindParams ld fuel (s.frames.size) params defaults bound pos (s.newEnv cenv).1 = .ok () s1)
    (hbody : eval ld fuel (s.frames.size) body s1 = .ok (.cont p) s') :
    callFn ld (fuel+1) (.closure a) bound env pos s = throwE "Cannot use continue without surrounding loop" p s' := by
  rw [callFn_closure ld hcell hbind, hbody]

example : callFn ld0 2 (.closure 0) [] 0 {} sCont =
    throwE "Cannot use continue without surrounding loop" {} (sCont.newEnv 0).1 :=
  call_continue_is_error ld0 (s := sCont) rfl (bindParams_nil ld0 0 _ _ _ _) (eval_cont ld0 0 _ {} _)

/-- a body value that is no control signal is the value of the call -/
theorem call_plain_value {fuel a bound env pos s cenv params defaults body name s1 v s'}
    (hcell : s.cell a = some (.closure cenv params defaults body name))
    (hbind : bindParams ld fuel (s.frames.size) params defaults bound pos (s.newEnv cenv).1 = .ok () s1)
    (hbody : eval ld fuel (s.frames.size) body s1 = .ok v s')
    (hv : ¬ v.isReturn ∧ ¬ v.isBreak ∧ ¬ v.isContinue) :
    callFn ld (fuel+1) (.closure a) bound env pos s = .ok v s' := by
  rw [callFn_closure ld hcell hbind, hbody]
  cases v <;> first | rfl | simp [RVal.isReturn, RVal.isBreak, RVal.isContinue] at hv

example : callFn ld0 2 (.closure 0) [] 0 {} sOne = .ok (.int 1) (sOne.newEnv 0).1 :=
  call_plain_value ld0 (s := sOne) rfl (bindParams_nil ld0 0 _ _ _ _) (eval_lit_int ld0 0 _ 1 {} _)
    (by simp [RVal.isReturn, RVal.isBreak, RVal.isContinue])

/-- an error in the body is the error of the call (`invoke` then appends the stack entry) -/
theorem call_body_err {fuel a bound env pos s cenv params defaults body name s1 v m p t s'}
    (hcell : s.cell a = some (.closure cenv params defaults body name))
    (hbind : bindParams ld fuel (s.frames.size) params defaults bound pos (s.newEnv cenv).1 = .ok () s1)
    (hbody : eval ld fuel (s.frames.size) body s1 = .err v m p t s') :
    callFn ld (fuel+1) (.closure a) bound env pos s = .err v m p t s' := by
  rw [callFn_closure ld hcell hbind, hbody]

/-- Whatever the body does, the value of a successful closure call is no `break`/`continue`
    signal that the body produced at its top level, and a `return` is unwrapped once: a
    successful call whose body value was a control signal had a `return` body value. -/
theorem call_ok_of_signal {fuel a bound env pos s cenv params defaults body name s1 r s' v s''}
    (hcell : s.cell a = some (.closure cenv params defaults body name))
    (hbind : bindParams ld fuel (s.frames.size) params defaults bound pos (s.newEnv cenv).1 = .ok () s1)
    (hbody : eval ld fuel (s.frames.size) body s1 = .ok r s')
    (hcall : callFn ld (fuel+1) (.closure a) bound env pos s = .ok v s'') :
    ¬ r.isBreak ∧ ¬ r.isContinue ∧ s'' = s' ∧ (r.isReturn → ∃ p, r = .ret v p) ∧ (¬ r.isReturn → v = r) := by
  rw [callFn_closure ld hcell hbind, hbody] at hcall
  cases r <;> first
    | (cases hcall; simp [RVal.isReturn, RVal.isBreak, RVal.isContinue])
    | (exfalso; cases hcall)

example : ¬ (RVal.ret .null {}).isBreak ∧ ¬ (RVal.ret .null {}).isContinue ∧
    (sRet.newEnv 0).1 = (sRet.newEnv 0).1 ∧
    ((RVal.ret .null {}).isReturn → ∃ p, RVal.ret .null {} = .ret .null p) ∧
    (¬ (RVal.ret .null {}).isReturn → RVal.null = .ret .null {}) :=
  call_ok_of_signal ld0 (s := sRet) (a := 0) (name := "f") (env := 0) (pos := {}) (bound := []) rfl
    (bindParams_nil ld0 0 _ _ _ _)
    (eval_ret_absent ld0 0 _ {} _)
    (call_unwraps_return ld0 (s := sRet) rfl (bindParams_nil ld0 0 _ _ _ _) (eval_ret_absent ld0 0 _ {} _))

/-! ## §1 loops absorb `break` / `continue`: `loop_absorbs_break_continue` -/

/-! one-step unfoldings of the `for` loop functions -/

theorem forItems_step {fuel env ids x xs body result pos s s1 r s2}
    (hb : bindLoopVars env ids x pos s = .ok () s1) (he : eval ld fuel env body s1 = .ok r s2) :
    forItems ld (fuel+1) env ids (x :: xs) body result pos s =
      if r.isBreak then .ok (.bool true) s2
      else if r.isReturn then .ok r s2
      else if r.isContinue then forItems ld fuel env ids xs body (.bool true) pos s2
      else forItems ld fuel env ids xs body r pos s2 := by
  rw [forItems, EvalM.bind_apply, hb]
  dsimp only
  rw [EvalM.bind_apply, he]
  dsimp only
  split
  · rfl
  · split
    · rfl
    · split <;> rfl

theorem forItems_nil {fuel env ids body result pos s} :
    forItems ld (fuel+1) env ids [] body result pos s = .ok result s := by
  rw [forItems]; rfl

theorem forListLive_step {fuel env ids a i body result pos s xs x s1 r s2}
    (hcell : s.cell a = some (.list xs)) (hx : xs[i]? = some x)
    (hb : bindLoopVars env ids x pos s = .ok () s1) (he : eval ld fuel env body s1 = .ok r s2) :
    forListLive ld (fuel+1) env ids a i body result pos s =
      if r.isBreak then .ok (.bool true) s2
      else if r.isReturn then .ok r s2
      else if r.isContinue then forListLive ld fuel env ids a (i+1) body (.bool true) pos s2
      else forListLive ld fuel env ids a (i+1) body r pos s2 := by
  rw [forListLive, EvalM.bind_apply]
  simp only [getS, hcell, hx]
  rw [EvalM.bind_apply, hb]
  dsimp only
  rw [EvalM.bind_apply, he]
  dsimp only
  split
  · rfl
  · split
    · rfl
    · split <;> rfl

theorem forListLive_end {fuel env ids a i body result pos s xs}
    (hcell : s.cell a = some (.list xs)) (hx : xs[i]? = none) :
    forListLive ld (fuel+1) env ids a i body result pos s = .ok result s := by
  rw [forListLive, EvalM.bind_apply]
  simp only [getS, hcell, hx]
  rfl

theorem forString_step {fuel env x c cs body result s r s2}
    (he : eval ld fuel env body (s.put env x (.str [c])) = .ok r s2) :
    forString ld (fuel+1) env x (c :: cs) body result s =
      if r.isBreak then .ok (.bool true) s2
      else if r.isReturn then .ok r s2
      else forString ld fuel env x cs body (if r.isContinue then .bool true else r) (s2.remove env x) := by
  rw [forString, EvalM.bind_apply]
  simp only [modifyS]
  rw [EvalM.bind_apply, he]
  dsimp only
  split
  · rfl
  · split
    · rfl
    · rfl

theorem forString_nil {fuel env x body result s} :
    forString ld (fuel+1) env x [] body result s = .ok result s := by
  rw [forString]; rfl

/-- a state with one frame and the list cell `[1]` -/
def sList : State := { frames := #[{}], heap := #[.list [.int 1]] }

/-- `forItems` (iteration over a snapshot) never yields `break`/`continue`, provided the
    provisional result it was started with is none -/
theorem forItems_absorbs_break_continue {fuel env ids xs body result pos s v s'}
    (h : forItems ld fuel env ids xs body result pos s = .ok v s')
    (hres : ¬ result.isBreak ∧ ¬ result.isContinue) : ¬ v.isBreak ∧ ¬ v.isContinue :=
  forItems_absorbs ld _ _ _ _ _ _ _ _ _ _ h hres

theorem forItems_example :
    forItems ld0 2 0 ["x"] [.int 1] (.brk {}) (.bool true) {} s0 = .ok (.bool true) (s0.put 0 "x" (.int 1)) := by
  rw [forItems_step ld0 (s1 := s0.put 0 "x" (.int 1)) rfl (eval_brk ld0 0 _ {} _)]; rfl

example : ¬ (RVal.bool true).isBreak ∧ ¬ (RVal.bool true).isContinue :=
  forItems_absorbs_break_continue ld0 forItems_example (by simp [RVal.isBreak, RVal.isContinue])

/-- `forListLive` (iteration over the live list cell) likewise -/
theorem forListLive_absorbs_break_continue {fuel env ids a i body result pos s v s'}
    (h : forListLive ld fuel env ids a i body result pos s = .ok v s')
    (hres : ¬ result.isBreak ∧ ¬ result.isContinue) : ¬ v.isBreak ∧ ¬ v.isContinue :=
  forListLive_absorbs ld _ _ _ _ _ _ _ _ _ _ _ h hres

theorem forListLive_example :
    forListLive ld0 2 0 ["x"] 0 0 (.brk {}) (.bool true) {} sList =
      .ok (.bool true) (sList.put 0 "x" (.int 1)) := by
  rw [forListLive_step ld0 (s := sList) (s1 := sList.put 0 "x" (.int 1)) (xs := [.int 1]) rfl rfl rfl
    (eval_brk ld0 0 _ {} _)]; rfl

example : ¬ (RVal.bool true).isBreak ∧ ¬ (RVal.bool true).isContinue :=
  forListLive_absorbs_break_continue ld0 forListLive_example (by simp [RVal.isBreak, RVal.isContinue])

/-- `forString` (iteration over the characters of a string) likewise -/
theorem forString_absorbs_break_continue {fuel env x cs body result s v s'}
    (h : forString ld fuel env x cs body result s = .ok v s')
    (hres : ¬ result.isBreak ∧ ¬ result.isContinue) : ¬ v.isBreak ∧ ¬ v.isContinue :=
  forString_absorbs ld _ _ _ _ _ _ _ _ _ h hres

theorem forString_example :
    forString ld0 2 0 "x" ['a'] (.cont {}) (.bool true) s0 =
      .ok (.bool true) ((s0.put 0 "x" (.str ['a'])).remove 0 "x") := by
  rw [forString_step ld0 (eval_cont ld0 0 _ {} _)]
  simp only [RVal.isBreak, RVal.isReturn, RVal.isContinue, Bool.false_eq_true, if_false, if_true]
  rw [forString_nil]

example : ¬ (RVal.bool true).isBreak ∧ ¬ (RVal.bool true).isContinue :=
  forString_absorbs_break_continue ld0 forString_example (by simp [RVal.isBreak, RVal.isContinue])

/-- `whileLoop` never yields `break`/`continue` -/
theorem whileLoop_absorbs_break_continue {fuel env c body pos s v s'}
    (h : whileLoop ld fuel env c body pos s = .ok v s') : ¬ v.isBreak ∧ ¬ v.isContinue :=
  whileLoop_absorbs ld _ _ _ _ _ _ _ _ h

example : ¬ (RVal.bool true).isBreak ∧ ¬ (RVal.bool true).isContinue :=
  whileLoop_absorbs_break_continue ld0
    (whileLoop_done ld0 (c := F) (pos := {}) (eval_cont ld0 0 0 {} s0) rfl rfl (eval_lit_bool ld0 0 0 false {} s0))

/-- **loop_absorbs_break_continue**: the four loop functions together. -/
theorem loop_absorbs_break_continue :
    (∀ fuel env ids xs body result pos s v s',
      forItems ld fuel env ids xs body result pos s = .ok v s' →
      ¬ result.isBreak ∧ ¬ result.isContinue → ¬ v.isBreak ∧ ¬ v.isContinue) ∧
    (∀ fuel env ids a i body result pos s v s',
      forListLive ld fuel env ids a i body result pos s = .ok v s' →
      ¬ result.isBreak ∧ ¬ result.isContinue → ¬ v.isBreak ∧ ¬ v.isContinue) ∧
    (∀ fuel env x cs body result s v s',
      forString ld fuel env x cs body result s = .ok v s' →
      ¬ result.isBreak ∧ ¬ result.isContinue → ¬ v.isBreak ∧ ¬ v.isContinue) ∧
    (∀ fuel env c body pos s v s',
      whileLoop ld fuel env c body pos s = .ok v s' → ¬ v.isBreak ∧ ¬ v.isContinue) :=
  ⟨forItems_absorbs ld, forListLive_absorbs ld, forString_absorbs ld, whileLoop_absorbs ld⟩

/-- the `for` statement proper never yields `break`/`continue` -/
theorem evalFor_never_break_continue {fuel env ids e body what pos s v s'}
    (h : evalFor ld fuel env ids e body what pos s = .ok v s') : ¬ v.isBreak ∧ ¬ v.isContinue :=
  evalFor_absorbs ld h

theorem eval_for {fuel env ids e body what pos s} :
    eval ld (fuel+1) env (.for ids e body what pos) s =
      match evalFor ld fuel env ids e body what pos s with
      | .ok v s' => .ok v (restoreVars env (hiddenVars s env ids) s')
      | .err v m p t s' => .err v m p t (restoreVars env (hiddenVars s env ids) (ids.foldl (fun s x => s.remove env x) s'))
      | .fail (.syn e) s' => .fail (.syn e) (restoreVars env (hiddenVars s env ids) (ids.foldl (fun s x => s.remove env x) s'))
      | other => other := by rw [eval]; rfl

theorem evalFor_str {fuel env ids e body what pos s cs s1}
    (he : eval ld fuel env e s = .ok (.str cs) s1) :
    evalFor ld (fuel+1) env ids e body what pos s =
      forString ld fuel env (ids.headD "") cs body (.bool true) s1 := by
  rw [evalFor, EvalM.bind_apply, he]

example : eval ld0 4 0 (.for ["x"] (.lit (.str ['a']) {}) (.cont {}) "" {}) s0 =
    .ok (.bool true) (restoreVars 0 (hiddenVars s0 0 ["x"]) ((s0.put 0 "x" (.str ['a'])).remove 0 "x")) := by
  rw [eval_for, evalFor_str ld0 (eval_lit_str ld0 1 _ _ {} _)]
  show (match forString ld0 2 0 "x" ['a'] (Node.cont { }) (RVal.bool true) s0 with
    | Out.ok v s' => Out.ok v (restoreVars 0 (hiddenVars s0 0 ["x"]) s')
    | Out.err v m p t s' => Out.err v m p t (restoreVars 0 (hiddenVars s0 0 ["x"]) (List.foldl (fun s x => s.remove 0 x) s' ["x"]))
    | Out.fail (Fail.syn e) s' => Out.fail (Fail.syn e) (restoreVars 0 (hiddenVars s0 0 ["x"]) (List.foldl (fun s x => s.remove 0 x) s' ["x"]))
    | other => other) = _
  rw [forString_step ld0 (eval_cont ld0 0 _ {} _)]
  simp only [RVal.isBreak, RVal.isReturn, RVal.isContinue, Bool.false_eq_true, if_false, if_true]
  rw [forString_nil]


/-- **for_never_break_continue**: the value of a `for` node is never `break`/`continue`; a
    `break`/`continue` in the body never leaves the loop it is in. -/
theorem for_never_break_continue {fuel env ids e body what pos s v s'}
    (h : eval ld fuel env (.for ids e body what pos) s = .ok v s') : ¬ v.isBreak ∧ ¬ v.isContinue := by
  cases fuel with
  | zero => rw [eval] at h; cases h
  | succ fuel =>
    rw [eval_for] at h
    cases hf : evalFor ld fuel env ids e body what pos s with
    | ok v1 s1 => rw [hf] at h; cases h; exact evalFor_absorbs ld hf
    | err => rw [hf] at h; cases h
    | fail f s1 => rw [hf] at h; cases f <;> cases h

theorem for_example :
    eval ld0 4 0 (.for ["x"] (.lit (.str ['a']) {}) (.cont {}) "" {}) s0 =
      .ok (.bool true) (restoreVars 0 (hiddenVars s0 0 ["x"]) ((s0.put 0 "x" (.str ['a'])).remove 0 "x")) := by
  rw [eval_for, evalFor_str ld0 (eval_lit_str ld0 1 _ _ {} _)]
  show (match forString ld0 2 0 "x" ['a'] (Node.cont { }) (RVal.bool true) s0 with
    | Out.ok v s' => Out.ok v (restoreVars 0 (hiddenVars s0 0 ["x"]) s')
    | Out.err v m p t s' => Out.err v m p t (restoreVars 0 (hiddenVars s0 0 ["x"]) (List.foldl (fun s x => s.remove 0 x) s' ["x"]))
    | Out.fail (Fail.syn e) s' => Out.fail (Fail.syn e) (restoreVars 0 (hiddenVars s0 0 ["x"]) (List.foldl (fun s x => s.remove 0 x) s' ["x"]))
    | other => other) = _
  rw [forString_example]

example : ¬ (RVal.bool true).isBreak ∧ ¬ (RVal.bool true).isContinue :=
  for_never_break_continue ld0 for_example

/-- **while_never_break_continue**: the value of a `while` node is never `break`/`continue`. -/
theorem while_never_break_continue {fuel env c body pos s v s'}
    (h : eval ld fuel env (.while c body pos) s = .ok v s') : ¬ v.isBreak ∧ ¬ v.isContinue := by
  cases fuel with
  | zero => rw [eval] at h; cases h
  | succ fuel =>
    rw [eval, EvalM.bind_apply] at h
    cases hc : eval ld fuel env c s with
    | err => rw [hc] at h; cases h
    | fail => rw [hc] at h; cases h
    | ok b s1 =>
      rw [hc] at h; dsimp only at h
      cases b with
      | bool b =>
        cases b with
        | true => exact whileLoop_absorbs ld _ _ _ _ _ _ _ _ h
        | false => cases h; exact NoBC_true
      | _ => cases h

theorem while_example : eval ld0 3 0 (.while T (.brk {}) {}) s0 = .ok (.bool true) s0 := by
  exact (while_enter ld0 (eval_lit_bool ld0 1 0 true {} s0)).trans
    (whileLoop_break ld0 (eval_brk ld0 0 0 {} s0) rfl)

example : ¬ (RVal.bool true).isBreak ∧ ¬ (RVal.bool true).isContinue :=
  while_never_break_continue ld0 while_example

/-! ## §7 `for` and comprehensions enumerate sets and maps in the same sorted order:
      `for_set_sorted`, `compr_same_items`

  `collectionValues` is the model of `getCollectionValue`, the function comprehensions use to
  snapshot their source (`compr_single_uses_collectionValues` below).

  REMARK (known finding, not a model bug): for a map the two constructs have different
  DEFAULT selectors.  `for` treats every `what` other than `"keys"`/`"entries"` as *values*
  (`for_map_values`), `collectionValues` treats every selector other than `some "keys"` /
  `some "values"` (in particular `none`) as *entries* (`compr_map_entries`).  The lemmas below
  are therefore stated for the explicit selectors; `default_selector_differs` exhibits the
  difference on a concrete map. -/

/-- a state whose frame 0 binds `x` to the set cell `<<2, 1>>` (insertion order 2, 1) -/
def sSet : State := { frames := #[{ vars := [("x", .ref 0)] }], heap := #[.set [.int 2, .int 1]] }
/-- a state whose frame 0 binds `x` to the map cell `<<<2 => 'b', 1 => 'a'>>>` -/
def sMap : State :=
  { frames := #[{ vars := [("x", .ref 0)] }], heap := #[.map [(.int 2, .str ['b']), (.int 1, .str ['a'])]] }

theorem sSet_x : eval ld0 1 0 (.ident "x" {}) sSet = .ok (.ref 0) sSet := by rw [eval]; rfl
theorem sMap_x : eval ld0 1 0 (.ident "x" {}) sMap = .ok (.ref 0) sMap := by rw [eval]; rfl

/-- **for_set_sorted.**  `for` over a set iterates exactly the sorted snapshot `sortedR s1 xs`
    (taken once, in the state after evaluating the collection expression). -/
theorem for_set_sorted {fuel env ids e body what pos s a s1 xs ys}
    (he : eval ld fuel env e s = .ok (.ref a) s1)
    (hcell : s1.cell a = some (.set xs)) (hsort : sortedR s1 xs = some ys) :
    evalFor ld (fuel+1) env ids e body what pos s =
      (do let r ← forItems ld fuel env ids ys body (.bool true) pos
          if ys.isEmpty then pure () else removeVars env ids
          pure r) s1 := by
  rw [evalFor, EvalM.bind_apply, he]
  dsimp only
  rw [EvalM.bind_apply, cellOf_ref, hcell]; dsimp only
  rw [EvalM.bind_apply]
  simp only [getS, hsort]

example : evalFor ld0 2 0 ["y"] (.ident "x" {}) T "" {} sSet =
    (do let r ← forItems ld0 1 0 ["y"] [.int 1, .int 2] T (.bool true) {}
        if [RVal.int 1, RVal.int 2].isEmpty then pure () else removeVars 0 ["y"]
        pure r) sSet :=
  for_set_sorted ld0 sSet_x rfl rfl

/-- the snapshot a comprehension takes of a set is the same sorted list, whatever selector -/
theorem compr_set_sorted {a w pos s1 xs ys}
    (hcell : s1.cell a = some (.set xs)) (hsort : sortedR s1 xs = some ys) :
    collectionValues (.ref a) w pos s1 = .ok ys s1 := by
  unfold collectionValues
  rw [EvalM.bind_apply]
  simp only [getS]
  rw [EvalM.bind_apply, cellOf_ref, hcell]; dsimp only
  rw [hsort]; rfl

example : collectionValues (.ref 0) none {} sSet = .ok [.int 1, .int 2] sSet :=
  compr_set_sorted (xs := [.int 2, .int 1]) rfl rfl

/-- **compr_same_items** (sets): `for` and comprehension see the same items in the same order. -/
theorem compr_same_items {fuel env ids e body what pos s a s1 xs ys}
    (he : eval ld fuel env e s = .ok (.ref a) s1)
    (hcell : s1.cell a = some (.set xs)) (hsort : sortedR s1 xs = some ys) :
    evalFor ld (fuel+1) env ids e body what pos s =
      (do let r ← forItems ld fuel env ids ys body (.bool true) pos
          if ys.isEmpty then pure () else removeVars env ids
          pure r) s1 ∧
    ∀ w, collectionValues (.ref a) w pos s1 = .ok ys s1 :=
  ⟨for_set_sorted ld he hcell hsort, fun _ => compr_set_sorted hcell hsort⟩

example := compr_same_items ld0 (ids := ["y"]) (body := T) (what := "") (pos := {}) sSet_x
  (xs := [.int 2, .int 1]) (ys := [.int 1, .int 2]) rfl rfl

/-- a single-variable comprehension iterates exactly the list `collectionValues` returns for
    its source (in the fresh frame `s.frames.size`) -/
theorem compr_single_uses_collectionValues
    {fuel env kind ve ke id1 l1 w1 id2 l2 w2 cond pos s c1 s1 vals s2}
    (h1 : eval ld fuel env l1 (s.newEnv env).1 = .ok c1 s1)
    (hv : collectionValues c1 w1 pos s1 = .ok vals s2) :
    eval ld (fuel+1) env (.compr kind .single ve ke id1 l1 w1 id2 l2 w2 cond pos) s =
      (do let out ← comprLoop ld fuel s.frames.size kind ve ke cond pos [(id1, vals)] []
          comprResult kind out) s2 := by
  rw [eval, EvalM.bind_apply]
  simp only [getS]
  rw [EvalM.bind_apply]
  simp only [setS]
  rw [EvalM.bind_apply, h1]
  dsimp only
  rw [EvalM.bind_apply, hv]
  rfl

example : eval ld0 2 0 (.compr .list .single T .absent "y" (.ident "x" {}) none "" .absent none .absent {}) sSet =
    (do let out ← comprLoop ld0 1 1 .list T .absent .absent {} [("y", [.int 1, .int 2])] []
        comprResult .list out) (sSet.newEnv 0).1 :=
  compr_single_uses_collectionValues ld0 (s := sSet) (s1 := (sSet.newEnv 0).1) (c1 := .ref 0)
    (by rw [eval]; rfl) (compr_set_sorted (xs := [.int 2, .int 1]) rfl rfl)

/-- `for k in keys m`: the keys of the entries sorted by key -/
theorem for_map_keys {fuel env ids e body pos s a s1 kvs} {es : List (RVal × RVal)}
    (he : eval ld fuel env e s = .ok (.ref a) s1)
    (hcell : s1.cell a = some (.map kvs)) (hsort : sortedEntriesR s1 kvs = some es) :
    evalFor ld (fuel+1) env ids e body "keys" pos s =
      (do let r ← forItems ld fuel env ids (es.map Prod.fst) body (.bool true) pos
          if es.isEmpty then pure () else removeVars env ids
          pure r) s1 := by
  rw [evalFor, EvalM.bind_apply, he]
  dsimp only
  rw [EvalM.bind_apply, cellOf_ref, hcell]; dsimp only
  rw [EvalM.bind_apply]
  simp only [getS, hsort, if_true]
  rw [EvalM.bind_apply, mapM_pure]

example : evalFor ld0 2 0 ["y"] (.ident "x" {}) T "keys" {} sMap =
    (do let r ← forItems ld0 1 0 ["y"] [.int 1, .int 2] T (.bool true) {}
        if [((RVal.int 1, RVal.str ['a'])), (.int 2, .str ['b'])].isEmpty then pure () else removeVars 0 ["y"]
        pure r) sMap :=
  for_map_keys ld0 sMap_x rfl rfl

/-- `for v in values m` — and every selector other than `keys`/`entries`: the values of the
    entries sorted by key -/
theorem for_map_values {fuel env ids e body what pos s a s1 kvs} {es : List (RVal × RVal)}
    (hw1 : what ≠ "keys") (hw2 : what ≠ "entries")
    (he : eval ld fuel env e s = .ok (.ref a) s1)
    (hcell : s1.cell a = some (.map kvs)) (hsort : sortedEntriesR s1 kvs = some es) :
    evalFor ld (fuel+1) env ids e body what pos s =
      (do let r ← forItems ld fuel env ids (es.map Prod.snd) body (.bool true) pos
          if es.isEmpty then pure () else removeVars env ids
          pure r) s1 := by
  rw [evalFor, EvalM.bind_apply, he]
  dsimp only
  rw [EvalM.bind_apply, cellOf_ref, hcell]; dsimp only
  rw [EvalM.bind_apply]
  simp only [getS, hsort, if_neg hw1, if_neg hw2]
  rw [EvalM.bind_apply, mapM_pure]

example : evalFor ld0 2 0 ["y"] (.ident "x" {}) T "values" {} sMap =
    (do let r ← forItems ld0 1 0 ["y"] [.str ['a'], .str ['b']] T (.bool true) {}
        if [((RVal.int 1, RVal.str ['a'])), (.int 2, .str ['b'])].isEmpty then pure () else removeVars 0 ["y"]
        pure r) sMap :=
  for_map_values ld0 (by decide) (by decide) sMap_x rfl rfl

/-- `for e in entries m`: one fresh two-element list `[key, value]` per entry, allocated in the
    order of the entries sorted by key, before the first iteration -/
theorem for_map_entries {fuel env ids e body pos s a s1 kvs} {es : List (RVal × RVal)}
    (he : eval ld fuel env e s = .ok (.ref a) s1)
    (hcell : s1.cell a = some (.map kvs)) (hsort : sortedEntriesR s1 kvs = some es) :
    evalFor ld (fuel+1) env ids e body "entries" pos s =
      (do let items ← es.mapM (fun (kv : RVal × RVal) => newList [kv.1, kv.2])
          let r ← forItems ld fuel env ids items body (.bool true) pos
          if es.isEmpty then pure () else removeVars env ids
          pure r) s1 := by
  rw [evalFor, EvalM.bind_apply, he]
  dsimp only
  rw [EvalM.bind_apply, cellOf_ref, hcell]; dsimp only
  rw [EvalM.bind_apply]
  have h1 : ¬ ("entries" = "keys") := by decide
  simp only [getS, hsort, if_neg h1, if_true]

example : evalFor ld0 2 0 ["y"] (.ident "x" {}) T "entries" {} sMap =
    (do let items ← [((RVal.int 1, RVal.str ['a'])), (.int 2, .str ['b'])].mapM
          (fun (kv : RVal × RVal) => newList [kv.1, kv.2])
        let r ← forItems ld0 1 0 ["y"] items T (.bool true) {}
        if [((RVal.int 1, RVal.str ['a'])), (.int 2, .str ['b'])].isEmpty then pure () else removeVars 0 ["y"]
        pure r) sMap :=
  for_map_entries ld0 sMap_x rfl rfl

/-- comprehension source `keys m`: the same list as `for_map_keys` -/
theorem compr_map_keys {a pos s1 kvs} {es : List (RVal × RVal)}
    (hcell : s1.cell a = some (.map kvs)) (hsort : sortedEntriesR s1 kvs = some es) :
    collectionValues (.ref a) (some "keys") pos s1 = .ok (es.map Prod.fst) s1 := by
  unfold collectionValues
  rw [EvalM.bind_apply]
  simp only [getS]
  rw [EvalM.bind_apply, cellOf_ref, hcell]; dsimp only
  rw [hsort]; rfl

example : collectionValues (.ref 0) (some "keys") {} sMap = .ok [.int 1, .int 2] sMap :=
  compr_map_keys (kvs := [(.int 2, .str ['b']), (.int 1, .str ['a'])]) rfl rfl

/-- comprehension source `values m`: the same list as `for_map_values` -/
theorem compr_map_values {a pos s1 kvs} {es : List (RVal × RVal)}
    (hcell : s1.cell a = some (.map kvs)) (hsort : sortedEntriesR s1 kvs = some es) :
    collectionValues (.ref a) (some "values") pos s1 = .ok (es.map Prod.snd) s1 := by
  unfold collectionValues
  rw [EvalM.bind_apply]
  simp only [getS]
  rw [EvalM.bind_apply, cellOf_ref, hcell]; dsimp only
  rw [hsort]; rfl

example : collectionValues (.ref 0) (some "values") {} sMap = .ok [.str ['a'], .str ['b']] sMap :=
  compr_map_values (kvs := [(.int 2, .str ['b']), (.int 1, .str ['a'])]) rfl rfl

/-- comprehension source `entries m` — and every selector other than `keys`/`values`, in
    particular none: the same `mapM` allocation of fresh `[key, value]` lists as
    `for_map_entries` -/
theorem compr_map_entries {a w pos s1 kvs} {es : List (RVal × RVal)}
    (hw1 : w ≠ some "keys") (hw2 : w ≠ some "values")
    (hcell : s1.cell a = some (.map kvs)) (hsort : sortedEntriesR s1 kvs = some es) :
    collectionValues (.ref a) w pos s1 =
      es.mapM (fun (kv : RVal × RVal) => newList [kv.1, kv.2]) s1 := by
  unfold collectionValues
  rw [EvalM.bind_apply]
  simp only [getS]
  rw [EvalM.bind_apply, cellOf_ref, hcell]; dsimp only
  rw [hsort]; dsimp only
  rw [if_neg hw1, if_neg hw2]

example : collectionValues (.ref 0) (some "entries") {} sMap =
    [((RVal.int 1, RVal.str ['a'])), (.int 2, .str ['b'])].mapM
      (fun (kv : RVal × RVal) => newList [kv.1, kv.2]) sMap :=
  compr_map_entries (kvs := [(.int 2, .str ['b']), (.int 1, .str ['a'])]) (by decide) (by decide) rfl rfl

/-- **compr_same_items** for maps with an explicit selector: `for` and comprehension use the
    same item list (keys / values), resp. the same allocating `mapM` (entries). -/
theorem compr_same_items_map {fuel env ids e body pos s a s1 kvs} {es : List (RVal × RVal)}
    (he : eval ld fuel env e s = .ok (.ref a) s1)
    (hcell : s1.cell a = some (.map kvs)) (hsort : sortedEntriesR s1 kvs = some es) :
    (evalFor ld (fuel+1) env ids e body "keys" pos s =
        (do let r ← forItems ld fuel env ids (es.map Prod.fst) body (.bool true) pos
            if es.isEmpty then pure () else removeVars env ids
            pure r) s1 ∧
      collectionValues (.ref a) (some "keys") pos s1 = .ok (es.map Prod.fst) s1) ∧
    (evalFor ld (fuel+1) env ids e body "values" pos s =
        (do let r ← forItems ld fuel env ids (es.map Prod.snd) body (.bool true) pos
            if es.isEmpty then pure () else removeVars env ids
            pure r) s1 ∧
      collectionValues (.ref a) (some "values") pos s1 = .ok (es.map Prod.snd) s1) ∧
    (evalFor ld (fuel+1) env ids e body "entries" pos s =
        (do let items ← es.mapM (fun (kv : RVal × RVal) => newList [kv.1, kv.2])
            let r ← forItems ld fuel env ids items body (.bool true) pos
            if es.isEmpty then pure () else removeVars env ids
            pure r) s1 ∧
      collectionValues (.ref a) (some "entries") pos s1 =
        es.mapM (fun (kv : RVal × RVal) => newList [kv.1, kv.2]) s1) :=
  ⟨⟨for_map_keys ld he hcell hsort, compr_map_keys hcell hsort⟩,
   ⟨for_map_values ld (by decide) (by decide) he hcell hsort, compr_map_values hcell hsort⟩,
   ⟨for_map_entries ld he hcell hsort, compr_map_entries (by decide) (by decide) hcell hsort⟩⟩

example := compr_same_items_map ld0 (ids := ["y"]) (body := T) (pos := {}) sMap_x
  (kvs := [(.int 2, .str ['b']), (.int 1, .str ['a'])]) (es := [(.int 1, .str ['a']), (.int 2, .str ['b'])]) rfl rfl

/-- The DEFAULT selectors differ (known finding): on the map `<<<2 => 'b', 1 => 'a'>>>` a `for`
    without selector (`what = ""`) iterates the values `'a', 'b'`, while `collectionValues`
    without selector (`none`) yields two freshly allocated entry lists. -/
theorem default_selector_differs :
    evalFor ld0 2 0 ["y"] (.ident "x" {}) T "" {} sMap =
      (do let r ← forItems ld0 1 0 ["y"] [.str ['a'], .str ['b']] T (.bool true) {}
          if [((RVal.int 1, RVal.str ['a'])), (.int 2, .str ['b'])].isEmpty then pure () else removeVars 0 ["y"]
          pure r) sMap ∧
    collectionValues (.ref 0) none {} sMap =
      .ok [.ref 1, .ref 2]
        ((sMap.alloc (.list [.int 1, .str ['a']])).1.alloc (.list [.int 2, .str ['b']])).1 :=
  ⟨for_map_values ld0 (by decide) (by decide) sMap_x rfl rfl, rfl⟩

end Ckl.C04
