/-
  C02 (semantic half) — `eval` on (any positioned copy of) `toNode e` computes `denote e`:
  simultaneous structural induction over the expression trees, their operand lists and chains.
-/
import CklVerif.Lemmas.C02SemInv
set_option linter.unusedSectionVars false
namespace Ckl.C02S
open Ckl Ckl.C02P

theorem need_pos : (e : E) → 1 ≤ need e
  | .atom _ => by simp [need]
  | .or _ _ _ => by simp only [need]; omega
  | .and _ _ _ => by simp only [need]; omega
  | .not _ => by simp only [need]; omega
  | .cmp _ _ _ _ => by simp only [need]; omega
  | .add _ _ _ => by simp only [need]; omega
  | .mul _ _ _ => by simp only [need]; omega
  | .neg _ => by simp only [need]; omega
  | .paren e => by simp only [need]; exact need_pos e

theorem relop_mem (op : RelOp) : op.fn ∈ opNames := by cases op <;> decide
theorem addop_mem (op : AddOp) : op.fn ∈ opNames := by cases op <;> decide
theorem mulop_mem (op : MulOp) : op.fn ∈ opNames := by cases op <;> decide
theorem relop_names (op : RelOp) : nativeArgNames op.fn = some ["a", "b"] := by cases op <;> rfl
theorem addop_names (op : AddOp) : nativeArgNames op.fn = some ["a", "b"] := by cases op <;> rfl
theorem mulop_names (op : MulOp) : nativeArgNames op.fn = some ["a", "b"] := by cases op <;> rfl

theorem addOpSem_eq (op : AddOp) : addOpSem op = lift2 (addOpV op) := by cases op <;> rfl
theorem mulOpSem_eq (d0 : Option V) (op : MulOp) : mulOpSem d0 op = lift2 (mulOpV d0 op) := by cases op <;> rfl

/-- a single comparison is its own conjunction -/
theorem andSem_rel_single (op : RelOp) (a b : Res) : andSem [relSem op a b] = relSem op a b := by
  cases a with
  | error => rfl
  | val x => cases b with
    | error => rfl
    | val y => simp only [relSem, lift2]; cases relV op x y <;> rfl

section
variable (ld : Loader) (d0 : Option V) (ρ : Valuation) (s : State) (env : EnvId)

/-- what the induction proves about an operand: every positioned copy evaluates to `r` with fuel ≥ `k` -/
def Good (lhs : Node) (k : Nat) (r : Res) : Prop :=
  ∀ n, erase n = lhs → NotSpread n ∧ ∀ fuel, k ≤ fuel → Is (eval ld fuel env n s) r s

/-- an operator call whose operands are good -/
theorem call_good {fn : String} {f : V → V → Res} {lx ly : Node} {kx ky : Nat} {rx ry : Res}
    (hops : OpsBound s env) (hmem : fn ∈ opNames) (hnames : nativeArgNames fn = some ["a", "b"])
    (hcall : ∀ F inst p a b, IsN (callFn ld (F + 1) (.native fn inst) (args2 a.toR b.toR) env p s) (f a b) p s)
    (gx : Good ld s env lx kx rx) (gy : Good ld s env ly ky ry)
    {n : Node} (hn : erase n = binNode fn lx ly) {fuel : Nat} (hf : max kx ky + 4 ≤ fuel) (h5 : 5 ≤ fuel) :
    Is (eval ld fuel env n s) (lift2 f rx ry) s := by
  obtain ⟨p1, p2, x, y, rfl, hx, hy⟩ := erase_binNode_inv hn
  obtain ⟨inst, hfn⟩ := hops fn hmem
  obtain ⟨F, rfl⟩ : ∃ F, fuel = F + 5 := ⟨fuel - 5, by omega⟩
  exact eval_call2 ld hfn hnames (gx x hx).1 (gy y hy).1 (fun a b => hcall _ inst p2 a b)
    ((gx x hx).2 _ (by omega)) ((gy y hy).2 _ (by omega))

variable (hops : OpsBound s env) (hd : Div0 s env d0)
include hops hd

mutual
theorem eval_main : (e : E) → (∀ x ∈ idents e, Bound ld s env ρ x) →
    ∀ n, erase n = toNode e → ∀ fuel, need e ≤ fuel → Is (eval ld fuel env n s) (denote d0 ρ e) s
  | .atom a, hb, n, hn, fuel, hf => by
    obtain ⟨F, rfl⟩ : ∃ F, fuel = F + 1 := ⟨fuel - 1, by simp only [need] at hf; omega⟩
    cases a with
    | ident x =>
      obtain ⟨p, rfl⟩ := erase_ident_inv (x := String.ofList x) hn
      have hx := hb x (by simp [idents])
      unfold Bound at hx
      simp only [denote, denoteAtom]
      cases hρ : ρ x with
      | some v => rw [hρ] at hx; simp only [Is]; exact eval_ident_some ld hx
      | none => rw [hρ] at hx; exact ⟨_, _, _, eval_ident_none ld hx.1 hx.2⟩
    | int ds k h =>
      obtain ⟨p, rfl⟩ := erase_lit_inv (v := .int k) hn
      simp only [denote, denoteAtom, Is]; rw [eval]; rfl
    | bool b =>
      obtain ⟨p, rfl⟩ := erase_lit_inv (v := .bool b) hn
      simp only [denote, denoteAtom, Is]; rw [eval]; rfl
  | .or a b more, hb, n, hn, fuel, hf => by
    simp only [toNode] at hn
    obtain ⟨ns, p, rfl, hns⟩ := erase_or_inv hn
    obtain ⟨x, ns1, rfl, hx, hns1⟩ := eraseL_cons_inv hns
    obtain ⟨y, ns2, rfl, hy, hns2⟩ := eraseL_cons_inv hns1
    simp only [need] at hf
    simp only [idents, List.mem_append] at hb
    obtain ⟨F, rfl⟩ : ∃ F, fuel = F + 3 := ⟨fuel - 3, by omega⟩
    rw [eval_or_node]
    simp only [denote]
    refine evalOr_cons ld (eval_main a (fun x h => hb x (Or.inl h)) x hx _ (by omega)) ?_
    refine evalOr_cons ld (eval_main b (fun x h => hb x (Or.inr (Or.inl h))) y hy _ (by omega)) ?_
    exact evalOr_main more (fun x h => hb x (Or.inr (Or.inr h))) ns2 p hns2 _ (by omega)
  | .and a b more, hb, n, hn, fuel, hf => by
    simp only [toNode] at hn
    obtain ⟨ns, p, rfl, hns⟩ := erase_and_inv hn
    obtain ⟨x, ns1, rfl, hx, hns1⟩ := eraseL_cons_inv hns
    obtain ⟨y, ns2, rfl, hy, hns2⟩ := eraseL_cons_inv hns1
    simp only [need] at hf
    simp only [idents, List.mem_append] at hb
    obtain ⟨F, rfl⟩ : ∃ F, fuel = F + 3 := ⟨fuel - 3, by omega⟩
    rw [eval_and_node]
    simp only [denote]
    refine evalAnd_cons ld (eval_main a (fun x h => hb x (Or.inl h)) x hx _ (by omega)) ?_
    refine evalAnd_cons ld (eval_main b (fun x h => hb x (Or.inr (Or.inl h))) y hy _ (by omega)) ?_
    exact evalAnd_main more (fun x h => hb x (Or.inr (Or.inr h))) ns2 p hns2 _ (by omega)
  | .not e, hb, n, hn, fuel, hf => by
    simp only [toNode] at hn
    obtain ⟨x, p, rfl, hx⟩ := erase_not_inv hn
    simp only [need] at hf
    obtain ⟨F, rfl⟩ : ∃ F, fuel = F + 1 := ⟨fuel - 1, by omega⟩
    simp only [denote]
    exact eval_not_is ld (eval_main e (fun x h => hb x (by simpa [idents] using h)) x hx _ (by omega))
  | .cmp a op b more, hb, n, hn, fuel, hf => by
    simp only [need] at hf
    simp only [idents, List.mem_append] at hb
    have ga : Good ld s env (toNode a) (need a) (denote d0 ρ a) := fun n hn =>
      ⟨notSpread_of_erase hn, eval_main a (fun x h => hb x (Or.inl h)) n hn⟩
    have gb : Good ld s env (toNode b) (need b) (denote d0 ρ b) := fun n hn =>
      ⟨notSpread_of_erase hn, eval_main b (fun x h => hb x (Or.inr (Or.inl h))) n hn⟩
    have hpair : ∀ n', erase n' = binNode op.fn (toNode a) (toNode b) → ∀ fuel', max (need a) (need b) + 4 ≤ fuel' →
        Is (eval ld fuel' env n' s) (relSem op (denote d0 ρ a) (denote d0 ρ b)) s := fun n' hn' fuel' hf' =>
      call_good ld s env hops (relop_mem op) (relop_names op)
        (fun F inst p a b => by rw [callFn_relop]; exact rfl) ga gb hn' hf'
        (by have := need_pos a; omega)
    have hchain := evalChain_main more (toNode b) (need b) (denote d0 ρ b) gb (fun x h => hb x (Or.inr (Or.inr h)))
    simp only [denote]
    cases more with
    | nil =>
      simp only [toNode, toNodeC, simplifyAnd] at hn
      simp only [denoteC, andSem_rel_single]
      exact hpair n hn fuel (by omega)
    | cons c cs =>
      obtain ⟨op2, e2⟩ := c
      simp only [toNode, toNodeC, simplifyAnd] at hn
      obtain ⟨ns, p, rfl, hns⟩ := erase_and_inv hn
      obtain ⟨x, ns1, rfl, hx, hns1⟩ := eraseL_cons_inv hns
      obtain ⟨F, rfl⟩ : ∃ F, fuel = F + 2 := ⟨fuel - 2, by omega⟩
      rw [eval_and_node]
      refine evalAnd_cons ld (hpair x hx _ (by omega)) ?_
      exact hchain ns1 p (by simpa [toNodeC] using hns1) _ (by omega)
  | .add op l r, hb, n, hn, fuel, hf => by
    simp only [need] at hf
    simp only [idents, List.mem_append] at hb
    simp only [toNode] at hn
    simp only [denote, addOpSem_eq]
    exact call_good ld s env hops (addop_mem op) (addop_names op)
      (fun F inst p a b => callFn_addop ld op F inst env p s a b)
      (fun n hn => ⟨notSpread_of_erase hn, eval_main l (fun x h => hb x (Or.inl h)) n hn⟩)
      (fun n hn => ⟨notSpread_of_erase hn, eval_main r (fun x h => hb x (Or.inr h)) n hn⟩) hn hf
      (by have := need_pos l; omega)
  | .mul op l r, hb, n, hn, fuel, hf => by
    simp only [need] at hf
    simp only [idents, List.mem_append] at hb
    simp only [toNode] at hn
    simp only [denote, mulOpSem_eq]
    exact call_good ld s env hops (mulop_mem op) (mulop_names op)
      (fun F inst p a b => callFn_mulop ld d0 op F inst env p s hd a b)
      (fun n hn => ⟨notSpread_of_erase hn, eval_main l (fun x h => hb x (Or.inl h)) n hn⟩)
      (fun n hn => ⟨notSpread_of_erase hn, eval_main r (fun x h => hb x (Or.inr h)) n hn⟩) hn hf
      (by have := need_pos l; omega)
  | .neg e, hb, n, hn, fuel, hf => by
    simp only [need] at hf
    simp only [idents] at hb
    simp only [toNode] at hn
    simp only [denote]
    have ge : Good ld s env (toNode e) (need e) (denote d0 ρ e) := fun n hn =>
      ⟨notSpread_of_erase hn, eval_main e hb n hn⟩
    cases hI : isIntAtom e with
    | true =>
      cases e with
      | atom a =>
        cases a with
        | int ds k h =>
          simp only [negNode] at hn
          obtain ⟨p, rfl⟩ := erase_lit_inv hn
          obtain ⟨F, rfl⟩ : ∃ F, fuel = F + 1 := ⟨fuel - 1, by omega⟩
          simp only [denote, denoteAtom, subSem, lift2, arithV, Is, V.toR, Int.zero_sub]
          rw [eval]; rfl
        | _ => simp [isIntAtom] at hI
      | _ => simp [isIntAtom] at hI
    | false =>
      have hneg : negNode e (toNode e) = binNode "sub" (.lit (.int 0) default) (toNode e) := by
        unfold negNode
        split
        · simp [isIntAtom] at hI
        · rfl
      rw [hneg] at hn
      have g0 : Good ld s env (.lit (.int 0) default) 1 (.val (.int 0)) := fun n hn => by
        obtain ⟨p, rfl⟩ := erase_lit_inv hn
        refine ⟨notSpread_lit _ _, fun fuel hf => ?_⟩
        obtain ⟨F, rfl⟩ : ∃ F, fuel = F + 1 := ⟨fuel - 1, by omega⟩
        simp only [Is, V.toR]; rw [eval]; rfl
      exact call_good ld s env hops (addop_mem .sub) (addop_names .sub)
        (fun F inst p a b => callFn_addop ld .sub F inst env p s a b) g0 ge hn
        (by have := need_pos e; omega) (by have := need_pos e; omega)
  | .paren e, hb, n, hn, fuel, hf => by
    simp only [need] at hf
    simp only [idents] at hb
    simp only [toNode] at hn
    simp only [denote]
    exact eval_main e hb n hn fuel hf
theorem evalAnd_main : (es : List E) → (∀ x ∈ identsL es, Bound ld s env ρ x) →
    ∀ ns pos, eraseL ns = toNodeL es → ∀ fuel, needL es ≤ fuel →
      Is (evalAnd ld fuel env ns pos s) (andSem (denoteL d0 ρ es)) s
  | [], _, ns, pos, hns, fuel, hf => by
    simp only [toNodeL] at hns
    rw [eraseL_nil_inv hns]
    simp only [needL] at hf
    obtain ⟨F, rfl⟩ : ∃ F, fuel = F + 1 := ⟨fuel - 1, by omega⟩
    rw [evalAnd_nil]; exact rfl
  | e :: es, hb, ns, pos, hns, fuel, hf => by
    simp only [toNodeL] at hns
    obtain ⟨x, ns1, rfl, hx, hns1⟩ := eraseL_cons_inv hns
    simp only [needL] at hf
    simp only [identsL, List.mem_append] at hb
    obtain ⟨F, rfl⟩ : ∃ F, fuel = F + 1 := ⟨fuel - 1, by omega⟩
    simp only [denoteL]
    exact evalAnd_cons ld (eval_main e (fun x h => hb x (Or.inl h)) x hx _ (by omega))
      (evalAnd_main es (fun x h => hb x (Or.inr h)) ns1 pos hns1 _ (by omega))
theorem evalOr_main : (es : List E) → (∀ x ∈ identsL es, Bound ld s env ρ x) →
    ∀ ns pos, eraseL ns = toNodeL es → ∀ fuel, needL es ≤ fuel →
      Is (evalOr ld fuel env ns pos s) (orSem (denoteL d0 ρ es)) s
  | [], _, ns, pos, hns, fuel, hf => by
    simp only [toNodeL] at hns
    rw [eraseL_nil_inv hns]
    simp only [needL] at hf
    obtain ⟨F, rfl⟩ : ∃ F, fuel = F + 1 := ⟨fuel - 1, by omega⟩
    rw [evalOr_nil]; exact rfl
  | e :: es, hb, ns, pos, hns, fuel, hf => by
    simp only [toNodeL] at hns
    obtain ⟨x, ns1, rfl, hx, hns1⟩ := eraseL_cons_inv hns
    simp only [needL] at hf
    simp only [identsL, List.mem_append] at hb
    obtain ⟨F, rfl⟩ : ∃ F, fuel = F + 1 := ⟨fuel - 1, by omega⟩
    simp only [denoteL]
    exact evalOr_cons ld (eval_main e (fun x h => hb x (Or.inl h)) x hx _ (by omega))
      (evalOr_main es (fun x h => hb x (Or.inr h)) ns1 pos hns1 _ (by omega))
/-- the remaining pairs of a comparison chain whose previous operand `lhs` is good -/
theorem evalChain_main : (cs : List (RelOp × E)) → ∀ (lhs : Node) (kl : Nat) (rl : Res), Good ld s env lhs kl rl →
    (∀ x ∈ identsC cs, Bound ld s env ρ x) →
    ∀ ns pos, eraseL ns = toNodeC lhs cs → ∀ fuel, needC kl cs ≤ fuel →
      Is (evalAnd ld fuel env ns pos s) (andSem (denoteC d0 ρ rl cs)) s
  | [], _, _, _, _, _, ns, pos, hns, fuel, hf => by
    simp only [toNodeC] at hns
    rw [eraseL_nil_inv hns]
    simp only [needC] at hf
    obtain ⟨F, rfl⟩ : ∃ F, fuel = F + 1 := ⟨fuel - 1, by omega⟩
    rw [evalAnd_nil]; exact rfl
  | (op, e) :: cs, lhs, kl, rl, gl, hb, ns, pos, hns, fuel, hf => by
    simp only [toNodeC] at hns
    obtain ⟨x, ns1, rfl, hx, hns1⟩ := eraseL_cons_inv hns
    simp only [needC] at hf
    simp only [identsC, List.mem_append] at hb
    obtain ⟨F, rfl⟩ : ∃ F, fuel = F + 1 := ⟨fuel - 1, by omega⟩
    simp only [denoteC]
    have ge : Good ld s env (toNode e) (need e) (denote d0 ρ e) := fun n hn =>
      ⟨notSpread_of_erase hn, eval_main e (fun x h => hb x (Or.inl h)) n hn⟩
    refine evalAnd_cons ld ?_ (evalChain_main cs (toNode e) (need e) (denote d0 ρ e) ge
      (fun x h => hb x (Or.inr h)) ns1 pos hns1 _ (by omega))
    exact call_good ld s env hops (relop_mem op) (relop_names op)
      (fun F inst p a b => by rw [callFn_relop]; exact rfl) gl ge hx (by omega)
      (by have := need_pos e; omega)
end
end

end Ckl.C02S
