import CklVerif.Lemmas.C13FuelDriver

/-!
  C13Fuel — the fuel of the evaluator model is harmless.

  The evaluator (`CklVerif/Model/Eval.lean`) is one mutual block of 30 functions, each structurally recursive
  on a `fuel : Nat` argument and returning `failM .oof` at fuel 0.  This file proves that the fuel is only a
  device to make the model total:

  1. `eval_fuel_mono` — for EVERY loader `ld` (no hypothesis on `ld.nativeSem`), simultaneously for all 30
     functions: a call that does not end "out of fuel" at fuel `f` ends in EXACTLY the same outcome (value /
     error / failure and final state: output, heap, frames, ghost counters) at every `f' ≥ f`.
  2. corollaries: uniqueness across fuels, whole programs, whole sessions, `Terminates` / `EvalsTo` / `result`.
  3. `oof_antitone`, a program that is out of fuel at EVERY fuel (`while TRUE do 1 end`), the minimal fuel of `1 + 1`.
  4. C13 and C12 / C01 restated without fuel.
  5. non-vacuity through `parseScript`.

  Vocabulary (`CklVerif/Lemmas/C13FuelBase.lean`, `C13FuelLe.lean`, `C13FuelDefs.lean`):
  * `Out.isOof o`          : `o = .fail .oof s` for some state `s` (decidable; `Out.isOof_iff`)
  * `FuelStable ld f f'`   : a structure with one field per function of the mutual block, each of the form
                             `∀ args s, ¬ (G ld f args s).isOof → G ld f' args s = G ld f args s`
  * `Terminates / Diverges / EvalsTo / result`            for `eval`,
    `ProgTerminates / ProgDiverges / ProgEvalsTo`         for `interpretProg` (a parsed program),
    `SrcTerminates / SrcDiverges / SrcEvalsTo`            for `interpretSource` (a source text).
-/
namespace Ckl.C13Fuel
open Ckl Ckl.E2E

/-! ## 1. monotonicity in the fuel, simultaneously for the 30 functions -/

/-- one more unit of fuel: all 30 functions (fields `eval`, `evalAnd`, …, `callFn`, `nativeSorted`, `sortedOuter`,
    `sortedInner`, `call1`, `call2`, `evalRequire`, `loadModule`) keep every outcome that is not "out of fuel" -/
theorem eval_fuel_mono_step (ld : Loader) (f : Nat) : FuelStable ld f (f + 1) :=
  fuelStable_of_le ld (Nat.le_succ f)

/-- **eval_fuel_mono** — every larger fuel, every loader, all 30 functions -/
theorem eval_fuel_mono (ld : Loader) {f f' : Nat} (h : f ≤ f') : FuelStable ld f f' :=
  fuelStable_of_le ld h

/-- the field for `eval`, spelled out -/
theorem eval_fuel_mono_eval (ld : Loader) {f f' : Nat} (h : f ≤ f') (env : EnvId) (n : Node) (s : State)
    (ho : ¬ (eval ld f env n s).isOof) : eval ld f' env n s = eval ld f env n s :=
  (eval_fuel_mono ld h).eval env n s ho

/-- positively: a value stays that value, in that state -/
theorem eval_fuel_mono_ok (ld : Loader) {f f' : Nat} (h : f ≤ f') {env : EnvId} {n : Node} {s s' : State} {v : RVal}
    (hv : eval ld f env n s = .ok v s') : eval ld f' env n s = .ok v s' := by
  rw [← hv]; exact eval_fuel_mono_eval ld h env n s (by rw [hv]; exact Out.isOof_ok v s')

/-- a runtime error stays that error (value, message, position, trace, state) -/
theorem eval_fuel_mono_err (ld : Loader) {f f' : Nat} (h : f ≤ f') {env : EnvId} {n : Node} {s s' : State}
    {v : RVal} {m : String} {p : Pos} {t : List (String × Pos)}
    (hv : eval ld f env n s = .err v m p t s') : eval ld f' env n s = .err v m p t s' := by
  rw [← hv]; exact eval_fuel_mono_eval ld h env n s (by rw [hv]; exact Out.isOof_err v m p t s')

/-- the functions through which natives call back into the evaluator -/
theorem callFn_fuel_mono (ld : Loader) {f f' : Nat} (h : f ≤ f') (fn : RVal) (bound : List (String × RVal))
    (env : EnvId) (pos : Pos) (s : State) (ho : ¬ (callFn ld f fn bound env pos s).isOof) :
    callFn ld f' fn bound env pos s = callFn ld f fn bound env pos s :=
  (eval_fuel_mono ld h).callFn fn bound env pos s ho

theorem invoke_fuel_mono (ld : Loader) {f f' : Nat} (h : f ≤ f') (fn : RVal) (pre : List RVal)
    (names : List (Option String)) (args : List Node) (env : EnvId) (pos : Pos) (s : State)
    (ho : ¬ (invoke ld f fn pre names args env pos s).isOof) :
    invoke ld f' fn pre names args env pos s = invoke ld f fn pre names args env pos s :=
  (eval_fuel_mono ld h).invoke fn pre names args env pos s ho

theorem nativeSorted_fuel_mono (ld : Loader) {f f' : Nat} (h : f ≤ f') (bound : List (String × RVal))
    (env : EnvId) (pos : Pos) (s : State) (ho : ¬ (nativeSorted ld f bound env pos s).isOof) :
    nativeSorted ld f' bound env pos s = nativeSorted ld f bound env pos s :=
  (eval_fuel_mono ld h).nativeSorted bound env pos s ho

theorem call1_fuel_mono (ld : Loader) {f f' : Nat} (h : f ≤ f') (g x : RVal) (env : EnvId) (pos : Pos) (s : State)
    (ho : ¬ (call1 ld f g x env pos s).isOof) : call1 ld f' g x env pos s = call1 ld f g x env pos s :=
  (eval_fuel_mono ld h).call1 g x env pos s ho

theorem call2_fuel_mono (ld : Loader) {f f' : Nat} (h : f ≤ f') (g x y : RVal) (env : EnvId) (pos : Pos) (s : State)
    (ho : ¬ (call2 ld f g x y env pos s).isOof) : call2 ld f' g x y env pos s = call2 ld f g x y env pos s :=
  (eval_fuel_mono ld h).call2 g x y env pos s ho

/-! ### non-vacuity, and what the statement does NOT say -/

namespace Ex
def st0 : State × EnvId := initialState true modelledNatives
/-- the AST of `1 + 1` (see the `#guard` below) -/
def onePlusOne : Node :=
  .call (.ident "add" ⟨"f", 1, 4⟩) [some "a", some "b"] [.lit (.int 1) ⟨"f", 1, 1⟩, .lit (.int 1) ⟨"f", 1, 5⟩] ⟨"f", 1, 4⟩
def run (ld : Loader) (f : Nat) (src : String) : Out RVal := interpretSource ld f st0.2 src.toList "f" st0.1

#guard (match parseScript "1 + 1".toList "f" with
  | .ok (.call (.ident "add" ⟨"f", 1, 4⟩) [some "a", some "b"] [.lit (.int 1) ⟨"f", 1, 1⟩, .lit (.int 1) ⟨"f", 1, 5⟩] ⟨"f", 1, 4⟩) => true
  | _ => false)

/-- the hypothesis is met at fuel 5 in the initial state of the driver … -/
theorem onePlusOne_5 : ¬ (eval {} 5 st0.2 onePlusOne st0.1).isOof := by decide +kernel
/-- … so every larger fuel gives the outcome of fuel 5 -/
example (f' : Nat) (h : 5 ≤ f') : eval {} f' st0.2 onePlusOne st0.1 = eval {} 5 st0.2 onePlusOne st0.1 :=
  eval_fuel_mono_eval {} h _ _ _ onePlusOne_5

/-- A loader whose unmodelled natives are as nasty as possible: they answer "out of fuel" themselves. The flagship
    needs NO hypothesis on `ld.nativeSem`: natives take no fuel, so whatever they answer, they answer it at every
    fuel (`callFn`: `ld.nativeSem name bound`). -/
def ldOofNative : Loader := { nativeSem := fun _ _ s => .fail .oof s, nativeArgs := fun _ => some [] }
example {f f' : Nat} (h : f ≤ f') : FuelStable ldOofNative f f' := eval_fuel_mono ldOofNative h
/-- a loader whose natives raise host exceptions (`C13.ldBoom`) -/
def ldBoom : Loader := { nativeSem := fun _ _ s => .fail (.host "boom") s, nativeArgs := fun _ => some [] }
example {f f' : Nat} (h : f ≤ f') : FuelStable ldBoom f f' := eval_fuel_mono ldBoom h

/-- FINDING (interpretation of `.oof`, not a defect of the flagship): `.fail .oof` is produced by the evaluator only
    at fuel 0, but an interpretation `ld.nativeSem` may return it too.  Then a call is "out of fuel at every fuel"
    without any loop.  `Diverges` therefore means non-termination only for loaders with `NativeNoOof`. -/
theorem native_oof_every_fuel (f : Nat) (env : EnvId) (pos : Pos) (s : State) :
    callFn ldOofNative (f + 1) (.native "foo" 0) [] env pos s = .fail .oof s := by
  rw [callFn]; rfl

/-- the default interpretation (abstention) has the property -/
theorem nativeNoOof_default : NativeNoOof {} := fun _ _ _ h => h

-- What the flagship does NOT say: the STATE of an out-of-fuel outcome depends on the fuel (the program below has
-- printed nothing when it runs out at fuel 3 and has printed `1` when it runs out at fuel 30).  This is the only
-- place where the fuel shows in an outcome, and it is why `Out.isOof` ignores the state and why the theorems
-- identify outcomes only when they are not out of fuel.
#guard digest (run {} 3 "println(1); while TRUE do 1 end") == "fail Ckl.Fail.oof out="
#guard digest (run {} 30 "println(1); while TRUE do 1 end") == "fail Ckl.Fail.oof out=1\n"
end Ex

/-! ## 2. corollaries -/

/-- **eval_fuel_unique** — two fuels that both avoid "out of fuel" give the same outcome -/
theorem eval_fuel_unique (ld : Loader) (env : EnvId) (n : Node) (s : State) {f₁ f₂ : Nat}
    (h₁ : ¬ (eval ld f₁ env n s).isOof) (h₂ : ¬ (eval ld f₂ env n s).isOof) :
    eval ld f₁ env n s = eval ld f₂ env n s :=
  (eval_fuelMono ld env n).unique h₁ h₂

/-- **interpretProg_fuel_mono** — `Interpreter.interpret` on a parsed program -/
theorem interpretProg_fuel_mono (ld : Loader) (senv : EnvId) (ast : Node) (s : State) {f f' : Nat} (h : f ≤ f')
    (ho : ¬ (interpretProg ld f senv ast s).isOof) :
    interpretProg ld f' senv ast s = interpretProg ld f senv ast s :=
  interpretProg_fuelMono ld senv ast f f' s h ho

theorem interpretProg_fuel_unique (ld : Loader) (senv : EnvId) (ast : Node) (s : State) {f₁ f₂ : Nat}
    (h₁ : ¬ (interpretProg ld f₁ senv ast s).isOof) (h₂ : ¬ (interpretProg ld f₂ senv ast s).isOof) :
    interpretProg ld f₁ senv ast s = interpretProg ld f₂ senv ast s :=
  (interpretProg_fuelMono ld senv ast).unique h₁ h₂

/-- `Interpreter.interpret` on a source text (scan, parse, evaluate) -/
theorem interpretSource_fuel_mono (ld : Loader) (senv : EnvId) (src : List Char) (file : String) (s : State)
    {f f' : Nat} (h : f ≤ f') (ho : ¬ (interpretSource ld f senv src file s).isOof) :
    interpretSource ld f' senv src file s = interpretSource ld f senv src file s :=
  interpretSource_fuelMono ld senv src file f f' s h ho

theorem interpretSource_fuel_unique (ld : Loader) (senv : EnvId) (src : List Char) (file : String) (s : State)
    {f₁ f₂ : Nat} (h₁ : ¬ (interpretSource ld f₁ senv src file s).isOof)
    (h₂ : ¬ (interpretSource ld f₂ senv src file s).isOof) :
    interpretSource ld f₁ senv src file s = interpretSource ld f₂ senv src file s :=
  (interpretSource_fuelMono ld senv src file).unique h₁ h₂

/-- **session_fuel_mono** — a whole session of parsed programs on one interpreter: if no call of the session runs
    out of fuel at `f`, the session (every outcome, every intermediate state) is identical at every `f' ≥ f` -/
theorem session_fuel_mono (ld : Loader) (senv : EnvId) {f f' : Nat} (h : f ≤ f') :
    ∀ (ps : List Node) (s : State), (∀ o ∈ sessionOuts ld f senv ps s, ¬ o.isOof) →
      sessionOuts ld f' senv ps s = sessionOuts ld f senv ps s
  | [], _, _ => rfl
  | p :: ps, s, hall => by
    have h1 := interpretProg_fuel_mono ld senv p s h (hall _ (by simp [sessionOuts]))
    simp only [sessionOuts, h1]
    rw [session_fuel_mono ld senv h ps _ (fun o ho => hall o (by simp [sessionOuts, ho]))]

/-- the same for a session of source texts -/
theorem sessionSrc_fuel_mono (ld : Loader) (senv : EnvId) (file : String) {f f' : Nat} (h : f ≤ f') :
    ∀ (ts : List (List Char)) (s : State), (∀ o ∈ sessionSrcOuts ld f senv file ts s, ¬ o.isOof) →
      sessionSrcOuts ld f' senv file ts s = sessionSrcOuts ld f senv file ts s
  | [], _, _ => rfl
  | t :: ts, s, hall => by
    have h1 := interpretSource_fuel_mono ld senv t file s h (hall _ (by simp [sessionSrcOuts]))
    simp only [sessionSrcOuts, h1]
    rw [sessionSrc_fuel_mono ld senv file h ts _ (fun o ho => hall o (by simp [sessionSrcOuts, ho]))]

/-- the session runner of the end-to-end files (`E2E.runSessionSrc`, `none` = the model abstained somewhere): a
    session that runs through at fuel `f` runs through, to the same final state, at every `f' ≥ f` -/
theorem runSessionSrc_fuel_mono (ld : Loader) (senv : EnvId) (file : String) {f f' : Nat} (h : f ≤ f') :
    ∀ (ts : List (List Char)) (s s' : State), runSessionSrc ld f senv file ts s = some s' →
      runSessionSrc ld f' senv file ts s = some s'
  | [], _, _, hr => hr
  | t :: ts, s, s', hr => by
    simp only [runSessionSrc] at hr ⊢
    cases hn : nextState (interpretSource ld f senv t file s) with
    | none => rw [hn] at hr; cases hr
    | some s1 =>
      rw [hn] at hr
      rw [interpretSource_fuel_mono ld senv t file s h (nextState_some_not_oof hn), hn]
      exact runSessionSrc_fuel_mono ld senv file h ts s1 s' hr

-- a session of three texts runs through at fuel 50 and, to the same printed text, at fuel 500
#guard ((runSessionSrc {} 50 Ex.st0.2 "f" ["def a = 1".toList, "a = a + 1".toList, "println(a); a".toList] Ex.st0.1).map (·.out))
    == some "2\n".toList
#guard ((runSessionSrc {} 500 Ex.st0.2 "f" ["def a = 1".toList, "a = a + 1".toList, "println(a); a".toList] Ex.st0.1).map (·.out))
    == some "2\n".toList

/-- **evalsTo_unique** — the outcome relation is functional -/
theorem evalsTo_unique (ld : Loader) (env : EnvId) (n : Node) (s : State) {o₁ o₂ : Out RVal}
    (h₁ : EvalsTo ld env n s o₁) (h₂ : EvalsTo ld env n s o₂) : o₁ = o₂ :=
  (eval_fuelMono ld env n).evalsTo_unique h₁ h₂

theorem progEvalsTo_unique (ld : Loader) (senv : EnvId) (ast : Node) (s : State) {o₁ o₂ : Out RVal}
    (h₁ : ProgEvalsTo ld senv ast s o₁) (h₂ : ProgEvalsTo ld senv ast s o₂) : o₁ = o₂ :=
  (interpretProg_fuelMono ld senv ast).evalsTo_unique h₁ h₂

theorem srcEvalsTo_unique (ld : Loader) (senv : EnvId) (src : List Char) (file : String) (s : State) {o₁ o₂ : Out RVal}
    (h₁ : SrcEvalsTo ld senv src file s o₁) (h₂ : SrcEvalsTo ld senv src file s o₂) : o₁ = o₂ :=
  (interpretSource_fuelMono ld senv src file).evalsTo_unique h₁ h₂

/-- `Terminates` is "has an outcome" -/
theorem terminates_iff_evalsTo (ld : Loader) (env : EnvId) (n : Node) (s : State) :
    Terminates ld env n s ↔ ∃ o, EvalsTo ld env n s o :=
  terminatesF_iff_evalsToF (F := fun f => eval ld f env n)

/-- `Diverges` is its negation -/
theorem diverges_iff_not_terminates (ld : Loader) (env : EnvId) (n : Node) (s : State) :
    Diverges ld env n s ↔ ¬ Terminates ld env n s :=
  divergesF_iff_not_terminatesF (F := fun f => eval ld f env n)

/-- `result` is the outcome: it is not "out of fuel", and it is what `eval` returns at EVERY sufficient fuel -/
theorem result_evalsTo (ld : Loader) (env : EnvId) (n : Node) (s : State) (h : Terminates ld env n s) :
    EvalsTo ld env n s (result ld env n s h) :=
  resultF_evalsTo (fun f => eval ld f env n) s h

theorem result_eq (ld : Loader) (env : EnvId) (n : Node) (s : State) (h : Terminates ld env n s) {f : Nat}
    (hf : ¬ (eval ld f env n s).isOof) : result ld env n s h = eval ld f env n s :=
  resultF_eq (eval_fuelMono ld env n) h hf

theorem evalsTo_iff_result (ld : Loader) (env : EnvId) (n : Node) (s : State) (h : Terminates ld env n s)
    (o : Out RVal) : EvalsTo ld env n s o ↔ o = result ld env n s h :=
  ⟨fun ho => evalsTo_unique ld env n s ho (result_evalsTo ld env n s h), fun ho => ho ▸ result_evalsTo ld env n s h⟩

example : Terminates {} Ex.st0.2 Ex.onePlusOne Ex.st0.1 := ⟨5, Ex.onePlusOne_5⟩
example (h) : result {} Ex.st0.2 Ex.onePlusOne Ex.st0.1 h = eval {} 5 Ex.st0.2 Ex.onePlusOne Ex.st0.1 :=
  result_eq _ _ _ _ h Ex.onePlusOne_5

/-! ## 3. "out of fuel" is downward closed; a program that is out of fuel at every fuel -/

/-- **oof_antitone** — out of fuel at `f'` implies out of fuel at every smaller fuel -/
theorem oof_antitone (ld : Loader) (env : EnvId) (n : Node) (s : State) {f f' : Nat} (h : f ≤ f')
    (ho : (eval ld f' env n s).isOof) : (eval ld f env n s).isOof :=
  (eval_fuelMono ld env n).antitone h ho

/-- the same simultaneously for all 30 functions of the mutual block -/
theorem oof_antitone_all (ld : Loader) {f f' : Nat} (h : f ≤ f') : OofDown ld f f' :=
  (eval_fuel_mono ld h).oofDown

theorem interpretProg_oof_antitone (ld : Loader) (senv : EnvId) (ast : Node) (s : State) {f f' : Nat} (h : f ≤ f')
    (ho : (interpretProg ld f' senv ast s).isOof) : (interpretProg ld f senv ast s).isOof :=
  (interpretProg_fuelMono ld senv ast).antitone h ho

theorem interpretSource_oof_antitone (ld : Loader) (senv : EnvId) (src : List Char) (file : String) (s : State)
    {f f' : Nat} (h : f ≤ f') (ho : (interpretSource ld f' senv src file s).isOof) :
    (interpretSource ld f senv src file s).isOof :=
  (interpretSource_fuelMono ld senv src file).antitone h ho

/-- every evaluation either diverges or terminates (classically; `Diverges` is not decidable) -/
theorem diverges_or_terminates (ld : Loader) (env : EnvId) (n : Node) (s : State) :
    Diverges ld env n s ∨ Terminates ld env n s :=
  terminatesF_or_divergesF (fun f => eval ld f env n) s

/-- **while_true_diverges** — `while TRUE do k end` is out of fuel at EVERY fuel, for every loader, frame and state:
    `.oof` really stands for non-termination -/
theorem while_true_diverges (ld : Loader) (env : EnvId) (p₁ p₂ pos : Pos) (k : Int) (s : State) :
    Diverges ld env (.while (.lit (.bool true) p₁) (.lit (.int k) p₂) pos) s :=
  fun f => while_true_oof ld env p₁ p₂ pos k f s

theorem while_true_not_terminates (ld : Loader) (env : EnvId) (p₁ p₂ pos : Pos) (k : Int) (s : State) :
    ¬ Terminates ld env (.while (.lit (.bool true) p₁) (.lit (.int k) p₂) pos) s :=
  (diverges_iff_not_terminates _ _ _ _).1 (while_true_diverges ld env p₁ p₂ pos k s)

/-- the same for the program run and for any source text that parses to this loop -/
theorem while_true_prog_diverges (ld : Loader) (senv : EnvId) (p₁ p₂ pos : Pos) (k : Int) (s : State) :
    ProgDiverges ld senv (.while (.lit (.bool true) p₁) (.lit (.int k) p₂) pos) s := by
  intro f
  unfold interpretProg
  rw [EvalM.bind_apply]
  obtain ⟨s', hs⟩ := (Out.isOof_iff _).1 (while_true_oof ld senv p₁ p₂ pos k f s)
  rw [hs]; trivial

theorem while_true_src_diverges (ld : Loader) (senv : EnvId) (src : List Char) (file : String) (p₁ p₂ pos : Pos)
    (k : Int) (hp : parseScript src file = .ok (.while (.lit (.bool true) p₁) (.lit (.int k) p₂) pos)) (s : State) :
    SrcDiverges ld senv src file s := by
  intro f
  rw [interpretSource_ok hp]
  exact while_true_prog_diverges ld senv p₁ p₂ pos k s f

-- the text `while TRUE do 1 end` parses to this loop (the parser is defined by well-founded recursion and does
-- not reduce in the kernel, so the parse is checked by evaluation)
#guard (match parseScript "while TRUE do 1 end".toList "f" with
  | .ok (.while (.lit (.bool true) ⟨"f", 1, 7⟩) (.lit (.int 1) ⟨"f", 1, 15⟩) ⟨"f", 1, 1⟩) => true
  | _ => false)
#guard (List.range 60).all (fun f => (Ex.run {} f "while TRUE do 1 end").oofB)

set_option maxRecDepth 8000 in
/-- **one_plus_one_min_fuel** — `1 + 1` in the driver's initial state: out of fuel at 4, the value 2 (state unchanged)
    at 5; hence out of fuel exactly below 5 -/
theorem one_plus_one_min_fuel :
    (eval {} 4 Ex.st0.2 Ex.onePlusOne Ex.st0.1).isOof ∧
    eval {} 5 Ex.st0.2 Ex.onePlusOne Ex.st0.1 = .ok (.int 2) Ex.st0.1 := by
  refine ⟨by decide +kernel, by with_unfolding_all rfl⟩

theorem one_plus_one_fuel (f : Nat) :
    (5 ≤ f → eval {} f Ex.st0.2 Ex.onePlusOne Ex.st0.1 = .ok (.int 2) Ex.st0.1) ∧
    (f < 5 → (eval {} f Ex.st0.2 Ex.onePlusOne Ex.st0.1).isOof) :=
  ⟨fun h => eval_fuel_mono_ok {} h one_plus_one_min_fuel.2,
   fun h => oof_antitone {} _ _ _ (Nat.le_of_lt_succ h) one_plus_one_min_fuel.1⟩

/-- the predicate is not vacuous in either direction -/
example : Terminates {} Ex.st0.2 Ex.onePlusOne Ex.st0.1 ∧
    ¬ Terminates {} Ex.st0.2 (.while (.lit (.bool true) {}) (.lit (.int 1) {}) {}) Ex.st0.1 :=
  ⟨⟨5, Ex.onePlusOne_5⟩, while_true_not_terminates _ _ _ _ _ _ _⟩

/-! ## 4. the properties, restated without fuel -/

/-- **C13, fuel-free** ("evaluation terminates and either yields a value or raises the language's runtime error").
    For every loader, every program and every state: EITHER the program does not terminate in the model (out of
    fuel at every fuel) OR there is ONE outcome `o`, returned at every sufficient fuel, and `o` is a value, a runtime
    error carrying an error value, a syntax error (of a `require`d module / the `parse`, `eval` built-ins) or the
    model's abstention `unsupported` — never a host failure (`C13.eval_no_host`, here `nhAll`) and never "out of
    fuel". -/
theorem c13_fuel_free (ld : Loader) (senv : EnvId) (ast : Node) (s : State) :
    ProgDiverges ld senv ast s ∨
    ∃ o, ProgEvalsTo ld senv ast s o ∧
      (∀ f, ¬ (interpretProg ld f senv ast s).isOof → interpretProg ld f senv ast s = o) ∧
      ((∃ v s', o = .ok v s') ∨ (∃ v m p t s', o = .err v m p t s') ∨ (∃ e s', o = .fail (.syn e) s') ∨
       (∃ w s', o = .fail (.unsupported w) s')) := by
  rcases terminatesF_or_divergesF (fun f => interpretProg ld f senv ast) s with hd | ⟨f₀, h₀⟩
  · exact Or.inl hd
  · refine Or.inr ⟨interpretProg ld f₀ senv ast s, ⟨f₀, rfl, h₀⟩, ?_, ?_⟩
    · exact fun f hf => interpretProg_fuel_unique ld senv ast s hf h₀
    · exact (Out.proper_of h₀ (interpretProg_NH ld f₀ senv ast s)).cases

/-- the same for a source text; the syntax error may now also be the front end's -/
theorem c13_fuel_free_src (ld : Loader) (senv : EnvId) (src : List Char) (file : String) (s : State) :
    SrcDiverges ld senv src file s ∨
    ∃ o, SrcEvalsTo ld senv src file s o ∧
      (∀ f, ¬ (interpretSource ld f senv src file s).isOof → interpretSource ld f senv src file s = o) ∧
      ((∃ v s', o = .ok v s') ∨ (∃ v m p t s', o = .err v m p t s') ∨ (∃ e s', o = .fail (.syn e) s') ∨
       (∃ w s', o = .fail (.unsupported w) s')) := by
  rcases terminatesF_or_divergesF (fun f => interpretSource ld f senv src file) s with hd | ⟨f₀, h₀⟩
  · exact Or.inl hd
  · refine Or.inr ⟨interpretSource ld f₀ senv src file s, ⟨f₀, rfl, h₀⟩, ?_, ?_⟩
    · exact fun f hf => interpretSource_fuel_unique ld senv src file s hf h₀
    · exact (Out.proper_of h₀ (interpretSource_NH ld f₀ senv src file s)).cases

/-- both alternatives of `c13_fuel_free` occur: the endless loop diverges, `1 + 1` has the outcome "value 2" -/
example : ProgDiverges {} Ex.st0.2 (.while (.lit (.bool true) {}) (.lit (.int 1) {}) {}) Ex.st0.1 :=
  while_true_prog_diverges _ _ _ _ _ _ _
example : ProgEvalsTo {} Ex.st0.2 Ex.onePlusOne Ex.st0.1 (.ok (.int 2) Ex.st0.1) := by
  refine ⟨5, ?_, Out.isOof_ok _ _⟩
  unfold interpretProg
  rw [EvalM.bind_apply, one_plus_one_min_fuel.2]
  rfl
-- the other kinds of outcome of the second alternative, on source texts at two fuels each:
-- runtime error with a non-string error value, front-end syntax error, syntax error of a required module, `unsupported`
#guard digest (Ex.run {} 2 "error 42") == "err Ckl.RVal.int 42  @1 out=" && digest (Ex.run {} 99 "error 42") == "err Ckl.RVal.int 42  @1 out="
#guard kind (Ex.run {} 0 "1 +") == .syntaxError && kind (Ex.run {} 99 "1 +") == .syntaxError
#guard kind (Ex.run { user := [("broken.ckl", .error { msg := "syntax", pos := {} })] } 9 "require broken") == .syntaxError
#guard kind (Ex.run { user := [("broken.ckl", .error { msg := "syntax", pos := {} })] } 99 "require broken") == .syntaxError
#guard kind (Ex.run { baseNames := ["sqrt"] } 9 "sqrt(2)") == .unsupported && kind (Ex.run { baseNames := ["sqrt"] } 99 "sqrt(2)") == .unsupported

/-- the two alternatives of `c13_fuel_free` exclude each other -/
theorem progDiverges_not_evalsTo (ld : Loader) (senv : EnvId) (ast : Node) (s : State) (o : Out RVal)
    (hd : ProgDiverges ld senv ast s) : ¬ ProgEvalsTo ld senv ast s o := by
  rintro ⟨f, rfl, hn⟩; exact hn (hd f)

/-- **C12 / C01, fuel-free** ("the same program always gives the same outcome"): whatever fuels two runs of the same
    text from the same state are given, if both end (not out of fuel) they end in the same outcome — value or error,
    output, heap, frames, ghost counters -/
theorem same_program_same_outcome (ld : Loader) (senv : EnvId) (src : List Char) (file : String) (s : State)
    {o₁ o₂ : Out RVal} (h₁ : SrcEvalsTo ld senv src file s o₁) (h₂ : SrcEvalsTo ld senv src file s o₂) : o₁ = o₂ :=
  srcEvalsTo_unique ld senv src file s h₁ h₂

/-! ## 5. non-vacuity on source texts (`parseScript`, the driver's initial state) -/

namespace Ex
/-- least fuel below 200 at which the text does not run out of fuel -/
def minFuel (src : String) : Option Nat := (List.range 200).find? (fun f => !(run {} f src).oofB)
/-- the outcomes (digest: kind, value, rendering, message, printed text) at the fuels 200 and 1000 agree with the
    one at the minimal fuel, and below it everything is out of fuel -/
def stableFrom (src : String) (f : Nat) : Bool :=
  minFuel src == some f &&
  digest (run {} 200 src) == digest (run {} f src) && digest (run {} 1000 src) == digest (run {} f src) &&
  (List.range f).all (fun g => (run {} g src).oofB)

#guard stableFrom "1 + 1" 5
#guard digest (run {} 5 "1 + 1") == "ok Ckl.RVal.int 2 = 2 out="
-- recursion through `invoke` / `callFn`
#guard stableFrom "def f(n) if n == 0 then 0 else f(n - 1); f(5)" 43
-- natives calling back into the evaluator: `sorted` → `call1` / `call2` → `callFn`, with a lambda as key
#guard stableFrom "sorted([3, 1, 2])" 11
#guard stableFrom "sorted([3, 1, 2], key = fn(x) 0 - x)" 16
#guard digest (run {} 16 "sorted([3, 1, 2], key = fn(x) 0 - x)") == "ok Ckl.RVal.ref 2 = [3, 2, 1] out="
-- a runtime error is an outcome like any other
#guard stableFrom "error 42" 2
#guard digest (run {} 2 "error 42") == "err Ckl.RVal.int 42  @1 out="
-- loops, comprehension, output
#guard stableFrom "def s = 0; for i in range(10) do s += i; end; s" 21
#guard stableFrom "[x * x for x in range(4)]" 11
#guard stableFrom "println(1); do x; catch all 7; end" 6
#guard digest (run {} 6 "println(1); do x; catch all 7; end") == "ok Ckl.RVal.int 7 = 7 out=1\n"
-- a front-end syntax error needs no fuel at all
#guard stableFrom "1 +" 0
-- no fuel below 200 suffices for the endless loop
#guard minFuel "while TRUE do 1 end" == none
-- sessions: three texts on one interpreter, identical at fuel 50 and fuel 500
#guard (sessionSrcOuts {} 50 st0.2 "f" ["def a = 1".toList, "a = a + 1".toList, "println(a); a".toList] st0.1).map digest
    == (sessionSrcOuts {} 500 st0.2 "f" ["def a = 1".toList, "a = a + 1".toList, "println(a); a".toList] st0.1).map digest
#guard ((sessionSrcOuts {} 50 st0.2 "f" ["def a = 1".toList, "a = a + 1".toList, "println(a); a".toList] st0.1).map digest).getLast?
    == some "ok Ckl.RVal.int 2 = 2 out=2\n"
end Ex

end Ckl.C13Fuel

namespace Ckl.C13Fuel
open Ckl Ckl.E2E

/-! ## 6. what monotonicity buys: fuel-free big-step rules -/

theorem evalsTo_lit_int (ld : Loader) (env : EnvId) (k : Int) (p : Pos) (s : State) :
    EvalsTo ld env (.lit (.int k) p) s (.ok (.int k) s) :=
  ⟨1, eval_lit_int ld 0 env k p s, Out.isOof_ok _ _⟩

theorem evalsTo_lit_bool (ld : Loader) (env : EnvId) (b : Bool) (p : Pos) (s : State) :
    EvalsTo ld env (.lit (.bool b) p) s (.ok (.bool b) s) :=
  ⟨1, eval_lit_bool ld 0 env b p s, Out.isOof_ok _ _⟩

/-- `not e` -/
theorem evalsTo_not {ld : Loader} {env : EnvId} {e : Node} {pos : Pos} {s s' : State} {b : Bool}
    (h : EvalsTo ld env e s (.ok (.bool b) s')) : EvalsTo ld env (.not e pos) s (.ok (.bool (!b)) s') := by
  obtain ⟨f, hf, _⟩ := h
  refine ⟨f + 1, ?_, Out.isOof_ok _ _⟩
  rw [eval, EvalM.bind_apply, hf]; rfl

/-- divergence of the operand is divergence of `not e` -/
theorem diverges_not {ld : Loader} {env : EnvId} {e : Node} {pos : Pos} {s : State}
    (h : Diverges ld env e s) : Diverges ld env (.not e pos) s := by
  intro f
  cases f with
  | zero => rw [eval]; trivial
  | succ f =>
    obtain ⟨s', hs⟩ := (Out.isOof_iff _).1 (h f)
    rw [eval, EvalM.bind_apply, hs]; trivial

/-- `if c then x else els`, condition TRUE: the two premises may have been established at DIFFERENT fuels;
    monotonicity lets them be combined at the larger one -/
theorem evalsTo_ite_true {ld : Loader} {env : EnvId} {c x els : Node} {pos : Pos} {s s₁ : State} {o : Out RVal}
    (hc : EvalsTo ld env c s (.ok (.bool true) s₁)) (hx : EvalsTo ld env x s₁ o) :
    EvalsTo ld env (.ite [c] [x] els pos) s o := by
  obtain ⟨f₁, h₁, _⟩ := hc
  obtain ⟨f₂, h₂, hn⟩ := hx
  have h₁' : eval ld (max f₁ f₂) env c s = .ok (.bool true) s₁ := eval_fuel_mono_ok ld (Nat.le_max_left _ _) h₁
  have h₂' : eval ld (max f₁ f₂) env x s₁ = o := by
    rw [← h₂]; exact eval_fuel_mono_eval ld (Nat.le_max_right _ _) env x s₁ (by rw [h₂]; exact hn)
  refine ⟨max f₁ f₂ + 2, ?_, hn⟩
  rw [eval, evalIf, EvalM.bind_apply, h₁']
  exact h₂'

/-- condition FALSE: the `else` part -/
theorem evalsTo_ite_false {ld : Loader} {env : EnvId} {c x els : Node} {pos : Pos} {s s₁ : State} {o : Out RVal}
    (hc : EvalsTo ld env c s (.ok (.bool false) s₁)) (hx : EvalsTo ld env els s₁ o) :
    EvalsTo ld env (.ite [c] [x] els pos) s o := by
  obtain ⟨f₁, h₁, _⟩ := hc
  obtain ⟨f₂, h₂, hn⟩ := hx
  have h₁' : eval ld (max f₁ f₂ + 1) env c s = .ok (.bool false) s₁ :=
    eval_fuel_mono_ok ld (Nat.le_succ_of_le (Nat.le_max_left _ _)) h₁
  have h₂' : eval ld (max f₁ f₂) env els s₁ = o := by
    rw [← h₂]; exact eval_fuel_mono_eval ld (Nat.le_max_right _ _) env els s₁ (by rw [h₂]; exact hn)
  refine ⟨max f₁ f₂ + 3, ?_, hn⟩
  rw [eval, evalIf, EvalM.bind_apply, h₁']
  show evalIf ld (max f₁ f₂ + 1) env [] [] els pos s₁ = o
  rw [evalIf]
  · exact h₂'
  · intro _ _ _ _ h; cases h

/-- `while c do body end` with a FALSE condition -/
theorem evalsTo_while_false {ld : Loader} {env : EnvId} {c body : Node} {pos : Pos} {s s₁ : State}
    (hc : EvalsTo ld env c s (.ok (.bool false) s₁)) :
    EvalsTo ld env (.while c body pos) s (.ok (.bool true) s₁) := by
  obtain ⟨f, hf, _⟩ := hc
  refine ⟨f + 1, ?_, Out.isOof_ok _ _⟩
  rw [eval, EvalM.bind_apply, hf]; rfl

/-- a runtime error of the condition is the outcome of the `if` -/
theorem evalsTo_ite_err {ld : Loader} {env : EnvId} {c x els : Node} {pos : Pos} {s s₁ : State}
    {v : RVal} {m : String} {p : Pos} {t : List (String × Pos)}
    (hc : EvalsTo ld env c s (.err v m p t s₁)) : EvalsTo ld env (.ite [c] [x] els pos) s (.err v m p t s₁) := by
  obtain ⟨f, hf, _⟩ := hc
  refine ⟨f + 2, ?_, Out.isOof_err _ _ _ _ _⟩
  rw [eval, evalIf, EvalM.bind_apply, hf]

-- `if not TRUE then 1 else 2` evaluates to 2, with no fuel in sight
example (ld : Loader) (env : EnvId) (s : State) :
    EvalsTo ld env (.ite [.not (.lit (.bool true) {}) {}] [.lit (.int 1) {}] (.lit (.int 2) {}) {}) s (.ok (.int 2) s) :=
  evalsTo_ite_false (evalsTo_not (evalsTo_lit_bool ld env true {} s)) (evalsTo_lit_int ld env 2 {} s)

end Ckl.C13Fuel

/-! ## 7. the driver: what the differential harness actually runs -/
namespace Ckl.C13Fuel
open Ckl Ckl.E2E

/-- **runSessionRows_fuel_mono** — the `session` request of the driver (`Driver/EvalCmd.lean`): if the response computed
    with fuel `f` contains no row reporting "out of fuel" (`(r (fail oof) …)`), the whole response — every result row,
    printed text, symbol list and the ghost row — is identical at every `f' ≥ f`.  So an answer of the model that
    does not mention `oof` does not depend on the fuel the harness happened to pass. -/
theorem runSessionRows_fuel_mono (ld : Loader) (s0 : State) (senv : EnvId) (progs : List Sx) {f f' : Nat} (h : f ≤ f')
    (hno : ∀ r ∈ runSessionRows ld f s0 senv progs, ¬ IsOofRow r) :
    runSessionRows ld f' s0 senv progs = runSessionRows ld f s0 senv progs := by
  rw [runSessionRows_eq] at hno
  rw [runSessionRows_eq, runSessionRows_eq,
    foldl_rowStep_mono ld senv h progs (s0, []) (fun r hr => hno r (List.mem_append_left _ hr))]

/-- the interpretation of the built-ins the driver's loaders use never answers "out of fuel" itself: for these
    loaders `.oof` is produced at fuel 0 only -/
theorem sessionLoader_nativeNoOof (ms eff known realBase) : NativeNoOof (sessionLoader ms eff known realBase) :=
  fun name bound s => driverNativeSem_not_oof name bound s

theorem libLoader_nativeNoOof (ms eff known) : NativeNoOof (libLoader ms eff known) :=
  fun name bound s => driverNativeSem_not_oof name bound s

namespace Ex
/-- the request row of a source text -/
def progRow (src : String) : Sx :=
  match parseScript src.toList "f" with
  | .ok ast => .list [.atom "prog", encodeNode true ast]
  | .error _ => .list [.atom "prog", .list [.atom "syn"]]
def sessRows (f : Nat) : List Sx :=
  runSessionRows (sessionLoader [] [] [] []) f st0.1 st0.2
    [progRow "def a = [3, 1, 2]", progRow "println(sorted(a)); a[0]", progRow "1 +", progRow "error a"]
-- no row of the response at fuel 40 reports "out of fuel" …
#guard (sessRows 40).all (fun r => match r with
  | .list [.atom "r", .list [.atom "fail", .atom "oof"], _, _] => false | _ => true)
-- … and the response at fuel 400 is the same text
#guard (sessRows 400).map toString == (sessRows 40).map toString
-- at fuel 3 there are such rows, and the response differs
#guard (sessRows 3).any (fun r => match r with
  | .list [.atom "r", .list [.atom "fail", .atom "oof"], _, _] => true | _ => false)
end Ex

end Ckl.C13Fuel

/-! ## 8. C13 "a runtime error is catchable", restated without fuel

  `C13.runtime_error_is_catchable` needs fuel bookkeeping (block at `fuel + 2`, body at `fuel + 1`, handler at
  `fuel`), and `C13.runtime_error_is_catchable_fuel_counterexample` shows that the statement with one fuel for body
  and handler is false.  With the fuel-independent outcome relations the bookkeeping disappears. -/
namespace Ckl.C13Fuel
open Ckl Ckl.E2E

theorem bodyEvalsTo_unique (ld : Loader) (env : EnvId) (es : List Node) (last : RVal) (s : State) {o₁ o₂ : Out RVal}
    (h₁ : BodyEvalsTo ld env es last s o₁) (h₂ : BodyEvalsTo ld env es last s o₂) : o₁ = o₂ :=
  FuelMono.evalsTo_unique (F := fun f => evalBody ld f env es last)
    (fun _ _ s hle ho => (eval_fuel_mono ld hle).evalBody env es last s ho) h₁ h₂

/-- **runtime_error_is_catchable_fuel_free** — a block with a `catch all` clause turns a runtime error of its body into
    the handler's value, after the `finally` statements have run -/
theorem runtime_error_is_catchable_fuel_free (ld : Loader) (env : EnvId) (es fin : List Node) (h : Node) (tl : Bool)
    (pos : Pos) (s s1 s2 s3 : State) (v : RVal) (m : String) (p : Pos) (t : List (String × Pos)) (hv : RVal)
    (hbody : BodyEvalsTo ld env es (.bool true) (ghostEnter s pos) (.err v m p t s1))
    (hh : EvalsTo ld env h s1 (.ok hv s2))
    (hfin : FinallyEvalsTo ld env fin (ghostFin s2 pos) (.ok () s3)) :
    EvalsTo ld env (.block es [.catchAll] [h] fin tl pos) s (.ok hv s3) := by
  obtain ⟨f₁, h₁, _⟩ := hbody
  obtain ⟨f₂, h₂, _⟩ := hh
  obtain ⟨f₃, h₃, _⟩ := hfin
  have hb : evalBody ld (max f₁ (max f₂ f₃) + 1) env es (.bool true) (ghostEnter s pos) = .err v m p t s1 := by
    rw [← h₁]
    exact (eval_fuel_mono ld (Nat.le_succ_of_le (Nat.le_max_left _ _))).evalBody env es _ _
      (by rw [h₁]; exact Out.isOof_err _ _ _ _ _)
  have hh' : eval ld (max f₁ (max f₂ f₃)) env h s1 = .ok hv s2 :=
    eval_fuel_mono_ok ld (Nat.le_trans (Nat.le_max_left _ _) (Nat.le_max_right _ _)) h₂
  have hf : evalFinally ld (max f₁ (max f₂ f₃) + 1) env fin (ghostFin s2 pos) = .ok () s3 := by
    rw [← h₃]
    exact (eval_fuel_mono ld (Nat.le_succ_of_le (Nat.le_trans (Nat.le_max_right _ _) (Nat.le_max_right _ _)))).evalFinally
      env fin _ (by rw [h₃]; exact Out.isOof_ok _ _)
  have ht : tryHandlers ld (max f₁ (max f₂ f₃) + 1) env [.catchAll] [h] v m p t s1 = .ok hv s2 := by
    rw [tryHandlers]
    exact hh'
  refine ⟨max f₁ (max f₂ f₃) + 2, ?_, Out.isOof_ok _ _⟩
  rw [eval]
  simp only [hb, ht, hf]

/-- the program of `C13.runtime_error_is_catchable_fuel_counterexample` (`do x catch all not TRUE end`): body and
    handler terminate at fuel 2, the block is out of fuel at 3 — and its fuel-independent outcome is the value FALSE -/
example : EvalsTo {} 0 (.block [.ident "x" {}] [.catchAll] [.not (.lit (.bool true) {}) {}] [] false {}) {}
    (.ok (.bool false) (ghostFin (ghostEnter {} {}) {})) :=
  runtime_error_is_catchable_fuel_free {} 0 [.ident "x" {}] [] _ false {} {} _ _ _ _ _ _ _ _
    ⟨2, by with_unfolding_all rfl, Out.isOof_err _ _ _ _ _⟩
    (evalsTo_not (evalsTo_lit_bool {} 0 true {} _))
    ⟨1, by with_unfolding_all rfl, Out.isOof_ok _ _⟩

end Ckl.C13Fuel
