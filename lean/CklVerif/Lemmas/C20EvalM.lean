import CklVerif.Lemmas.C20EvalPos

/-!
  C20 (evaluator part) — the invariant as a predicate on computations of `EvalM`.

  `PosOK E S m`: started in a state satisfying `S`, the computation `m` ends in a state satisfying
  `S`, and when it ends with a runtime error, the error position `p` and the stack trace `t` satisfy
  `E msg p t` (`msg` the error message).  Two instances are used:

  * `E _ p t := p = pos ∧ t = []`, `S := fun _ => True`   — "every failure reports the position `pos`"
    (the modelled built-ins),
  * `E := EP P`, `S := StOK P`                            — "only positions satisfying `P`"
    (the evaluator).
-/
namespace Ckl

/-- state invariants the helper programs keep: they depend on the heap only, and are kept when a
    cell that holds no AST is written or allocated -/
class StInv (S : State → Prop) : Prop where
  heap_eq : ∀ s s' : State, s'.heap = s.heap → S s → S s'
  setCell : ∀ (s : State) (a : Nat) (c : Cell), DataCell c → S s → S (s.setCell a c)
  alloc : ∀ (s : State) (c : Cell), DataCell c → S s → S (s.alloc c).1
  /-- re-writing a closure cell with another name -/
  rename : ∀ (s : State) (a : Nat) e ps ds b n n', s.cell a = some (.closure e ps ds b n) → S s →
    S (s.setCell a (.closure e ps ds b n'))

def STrue : State → Prop := fun _ => True

instance : StInv STrue :=
  ⟨fun _ _ _ _ => trivial, fun _ _ _ _ _ => trivial, fun _ _ _ _ => trivial, fun _ _ _ _ _ _ _ _ _ _ => trivial⟩

instance (P : Pos → Prop) : StInv (StOK P) :=
  ⟨fun _ _ he h => h.of_heap_eq he, fun _ a _ hc h => h.setCell a (CellOK.ofData hc),
   fun _ _ hc h => h.alloc (CellOK.ofData hc),
   fun _ a _ _ _ _ _ _ hc h => h.setCell a (h.closure hc)⟩

section
variable {α β : Type} (E : String → Pos → List (String × Pos) → Prop) (S : State → Prop)

def OutOK : Out α → Prop
  | .ok _ s => S s
  | .err _ m p t s => E m p t ∧ S s
  | .fail _ s => S s

structure PosOK (m : EvalM α) : Prop where
  run : ∀ s, S s → OutOK E S (m s)
end

section
variable {α β : Type} {E : String → Pos → List (String × Pos) → Prop} {S : State → Prop}

@[simp] theorem OutOK_ok (a : α) (s : State) : OutOK E S (.ok a s : Out α) ↔ S s := Iff.rfl
@[simp] theorem OutOK_err (v m p t) (s : State) : OutOK E S (.err v m p t s : Out α) ↔ E m p t ∧ S s := Iff.rfl
@[simp] theorem OutOK_fail (f) (s : State) : OutOK E S (.fail f s : Out α) ↔ S s := Iff.rfl

/-- the final state of an outcome -/
def Out.state : Out α → State
  | .ok _ s => s
  | .err _ _ _ _ s => s
  | .fail _ s => s

theorem OutOK.state {o : Out α} (h : OutOK E S o) : S o.state := by
  cases o with
  | ok a s => exact h
  | err v m p t s => exact h.2
  | fail f s => exact h

namespace PosOK

theorem ofFun {f : State → Out α} (h : ∀ s, S s → OutOK E S (f s)) : PosOK E S (f : EvalM α) := ⟨h⟩

theorem pure (a : α) : PosOK E S (Pure.pure a : EvalM α) := ⟨fun _ hs => hs⟩

theorem bind {m : EvalM α} {f : α → EvalM β} (hm : PosOK E S m) (hf : ∀ a, PosOK E S (f a)) :
    PosOK E S (m >>= f) := by
  constructor
  intro s hs
  rw [EvalM.bind_apply]
  have := hm.run s hs
  cases h : m s with
  | ok a s1 => rw [h] at this; exact (hf a).run s1 this
  | err v msg p t s1 => rw [h] at this; exact this
  | fail k s1 => rw [h] at this; exact this

/-- reading the state: the continuation may use that the state read satisfies the invariant -/
theorem getS_bind {f : State → EvalM β} (hf : ∀ s0, S s0 → PosOK E S (f s0)) :
    PosOK E S (getS >>= f) := ⟨fun s hs => (hf s hs).run s hs⟩

theorem getS : PosOK E S getS := ⟨fun _ hs => hs⟩
theorem setS {s : State} (h : S s) : PosOK E S (setS s) := ⟨fun _ _ => h⟩
theorem modifyS {f : State → State} (h : ∀ s, S s → S (f s)) : PosOK E S (modifyS f) := ⟨fun s hs => h s hs⟩
theorem throwV {v : RVal} {msg : String} {pos : Pos} (h : E msg pos []) : PosOK E S (throwV v msg pos : EvalM α) :=
  ⟨fun _ hs => ⟨h, hs⟩⟩
theorem throwE {msg : String} {pos : Pos} (h : E msg pos []) : PosOK E S (throwE msg pos : EvalM α) :=
  ⟨fun _ hs => ⟨h, hs⟩⟩
theorem failM (f : Fail) : PosOK E S (failM f : EvalM α) := ⟨fun _ hs => hs⟩
theorem unsupported (w : String) : PosOK E S (unsupported w : EvalM α) := ⟨fun _ hs => hs⟩
theorem cellOf (v : RVal) : PosOK E S (cellOf v) := by
  constructor; intro s hs; unfold Ckl.cellOf; split <;> exact hs
theorem typeOf (v : RVal) : PosOK E S (typeOf v) := ⟨fun _ hs => hs⟩
theorem allocM [StInv S] {c : Cell} (hc : DataCell c) : PosOK E S (allocM c) :=
  ⟨fun s hs => StInv.alloc s c hc hs⟩
theorem newList [StInv S] (xs : List RVal) : PosOK E S (newList xs) := allocM trivial

theorem mapM {γ δ : Type} (f : γ → EvalM δ) (hf : ∀ a, PosOK E S (f a)) (xs : List γ) : PosOK E S (xs.mapM f) := by
  induction xs with
  | nil => rw [List.mapM_nil]; exact pure _
  | cons x xs ih =>
    rw [List.mapM_cons]
    exact bind (hf x) (fun _ => bind ih (fun _ => pure _))

end PosOK

/-- folds of heap-preserving updates preserve the heap -/
theorem foldl_heap {γ : Type} (f : State → γ → State) (hf : ∀ s x, (f s x).heap = s.heap) (xs : List γ) (s : State) :
    (xs.foldl f s).heap = s.heap := by
  induction xs generalizing s with
  | nil => rfl
  | cons x xs ih => rw [List.foldl_cons, ih, hf]

end

theorem setF_heap (s : State) : ∀ (fuel : Nat) (e : EnvId) (x : String) (v : RVal) (s' : State),
    s.setF fuel e x v = some s' → s'.heap = s.heap
  | 0, _, _, _, _, h => by simp [State.setF] at h
  | fuel + 1, e, x, v, s', h => by
    unfold State.setF at h
    dsimp only at h
    split at h
    · cases h; rfl
    · split at h
      · exact setF_heap s fuel _ x v s' h
      · cases h

theorem set_heap {s s' : State} {e : EnvId} {x : String} {v : RVal} (h : s.set e x v = some s') :
    s'.heap = s.heap := setF_heap s _ e x v s' h

/-- `s'.heap = s.heap` for the state updates of the model that do not touch the heap -/
macro "heap_eq" : tactic => `(tactic| first
  | rfl
  | (apply foldl_heap; intro _ _; first | rfl | (split <;> rfl)))

/-- `S (f s)` from some `S s` in the context -/
macro "stinv" : tactic => `(tactic| first
  | assumption
  | exact trivial
  | (apply StInv.setCell _ _ _ trivial; assumption)
  | (apply StInv.alloc _ _ trivial; assumption)
  | (refine StInv.heap_eq _ _ ?_ ?_; rotate_left; assumption; heap_eq)
  | (refine StInv.heap_eq _ _ (set_heap (by assumption)) ?_; assumption))

/-- `∀ s, S s → S (f s)` -/
macro "stinv_fun" : tactic => `(tactic| (intro s hs; first
  | exact hs
  | exact trivial
  | exact StInv.setCell _ _ _ trivial hs
  | exact StInv.alloc _ _ trivial hs
  | exact StInv.heap_eq _ _ (by heap_eq) hs))

/-- `E msg pos []` (or `∀ msg, E msg pos []`) from the context; extended by the instances -/
syntax "eok" : tactic
macro_rules | `(tactic| eok) => `(tactic| first | assumption | apply_assumption (exfalso := false) (symm := false))

/-- library facts; extended as they are proved -/
syntax "posok_lib" : tactic
macro_rules | `(tactic| posok_lib) => `(tactic| fail "no library fact applies")

/-- one decomposition step for goals `PosOK E S (do …)` -/
macro "posok_step" : tactic => `(tactic| first
  | exact PosOK.pure _
  | exact PosOK.getS
  | (apply PosOK.setS; stinv)
  | (apply PosOK.modifyS; stinv_fun)
  | (apply PosOK.throwV; eok)
  | (apply PosOK.throwE; eok)
  | exact PosOK.unsupported _
  | exact PosOK.failM _
  | (apply PosOK.allocM; exact trivial)
  | exact PosOK.newList _
  | exact PosOK.cellOf _
  | exact PosOK.typeOf _
  | posok_lib
  | (with_reducible apply PosOK.getS_bind; intro _ _)
  | with_reducible apply PosOK.bind
  | (with_reducible apply PosOK.mapM; intro _)
  | intro _
  | dsimp only [State.newEnv]
  | split)

macro "posok" : tactic => `(tactic| repeat' posok_step)

/-! ### non-recursive helpers of `EvalBase` -/

section
variable {E : String → Pos → List (String × Pos) → Prop} {S : State → Prop}

namespace PosOK

theorem argGet (args : List (String × RVal)) (name : String) {pos : Pos} (h : ∀ msg, E msg pos []) :
    PosOK E S (argGet args name pos) := by
  unfold Ckl.argGet; posok

theorem getIndex (idx : RVal) {pos : Pos} (h : ∀ msg, E msg pos []) : PosOK E S (getIndex idx pos) := by
  unfold Ckl.getIndex; posok

theorem asStringM (v : RVal) {pos : Pos} (h : ∀ msg, E msg pos []) : PosOK E S (asStringM v pos) := by
  unfold Ckl.asStringM; posok

theorem bindNamed (sp : ArgSpec) {pos : Pos} (h : ∀ msg, E msg pos []) (ns : List (Option String)) (vs : List RVal)
    (args : List (String × RVal)) : PosOK E S (bindNamed sp pos ns vs args) := by
  induction ns generalizing vs args with
  | nil => unfold Ckl.bindNamed; exact pure _
  | cons n ns ih =>
    cases vs with
    | nil => unfold Ckl.bindNamed; exact pure _
    | cons v vs =>
      unfold Ckl.bindNamed
      have := fun vs args => ih vs args
      posok
      all_goals apply_assumption

theorem bindPositional (sp : ArgSpec) {pos : Pos} (h : ∀ msg, E msg pos []) (ns : List (Option String)) (vs : List RVal)
    (kw : Bool) (args : List (String × RVal)) (rest : List RVal) :
    PosOK E S (bindPositional sp pos ns vs kw args rest) := by
  induction ns generalizing vs kw args rest with
  | nil => unfold Ckl.bindPositional; exact pure _
  | cons n ns ih =>
    cases vs with
    | nil => unfold Ckl.bindPositional; exact pure _
    | cons v vs =>
      unfold Ckl.bindPositional
      posok
      all_goals apply ih

variable [StInv S]

theorem setArgs (paramNames : List String) (names : List (Option String)) (values : List RVal) {pos : Pos}
    (h : ∀ msg, E msg pos []) : PosOK E S (setArgs paramNames names values pos) := by
  unfold Ckl.setArgs
  have h1 := bindNamed (S := S) (addArgs paramNames) h names values []
  have h2 := fun a => bindPositional (S := S) (addArgs paramNames) h names values false a []
  posok
  all_goals apply_assumption

end PosOK
end

end Ckl
