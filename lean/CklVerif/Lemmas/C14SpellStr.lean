/-
  C14 (spelling of literals) helper lemmas, part 2: string literals.

  * `Quote q str esc hex1 hex2`: the two families of string states (`'…'`: 4, 41, 411, 412 and
    `"…"`: 3, 31, 311, 312) behave according to the same four functions; every lemma about reading
    a quoted text is proved once for both;
  * `dq`: the state renaming that maps the single-quote family onto the double-quote family is an
    isomorphism of the automaton on all characters other than the two quote characters.
-/
import CklVerif.Lemmas.C08Lexer
namespace Ckl.C14S
open Ckl Ckl.Lexer

/-- a family of string states delimited by `q` -/
structure Quote (q : Char) (str esc hex1 hex2 : St) : Prop where
  open_eq : ∀ (k : Core) (col : Int), step0 k col q = ⟨{ k with state := str }, none, false⟩
  str_eq : ∀ (k : Core) (col : Int) (ch : Char), k.state = str →
    step k col ch = .ok (stepStr q esc k col ch)
  esc_eq : ∀ (k : Core) (col : Int) (ch : Char), k.state = esc →
    step k col ch = .ok (stepEsc str hex1 k ch)
  hex1_eq : ∀ (k : Core) (col : Int) (ch : Char), k.state = hex1 →
    step k col ch = .ok (stepHex1 hex2 k ch)
  hex2_eq : ∀ (k : Core) (col : Int) (ch : Char), k.state = hex2 →
    step k col ch = stepHex2 str k ch
  str_ne0 : str ≠ .s0
  esc_ne0 : esc ≠ .s0
  hex1_ne0 : hex1 ≠ .s0
  hex2_ne0 : hex2 ≠ .s0
  q_ne : q ≠ '\\' ∧ q ≠ '\n' ∧ q ≠ 'n' ∧ q ≠ 'r' ∧ q ≠ 't' ∧ q ≠ 'x'

theorem quoteS : Quote '\'' .s4 .s41 .s411 .s412 where
  open_eq k col := by simp [step0]
  str_eq k col ch h := by unfold step; rw [h]
  esc_eq k col ch h := by unfold step; rw [h]
  hex1_eq k col ch h := by unfold step; rw [h]
  hex2_eq k col ch h := by unfold step; rw [h]
  str_ne0 := by decide
  esc_ne0 := by decide
  hex1_ne0 := by decide
  hex2_ne0 := by decide
  q_ne := by decide

theorem quoteD : Quote '"' .s3 .s31 .s311 .s312 where
  open_eq k col := by simp [step0]
  str_eq k col ch h := by unfold step; rw [h]
  esc_eq k col ch h := by unfold step; rw [h]
  hex1_eq k col ch h := by unfold step; rw [h]
  hex2_eq k col ch h := by unfold step; rw [h]
  str_ne0 := by decide
  esc_ne0 := by decide
  hex1_ne0 := by decide
  hex2_ne0 := by decide
  q_ne := by decide

/-! ### writing a string with the delimiter `q` -/

/-- the escape of one character inside `q…q`: backslash, the delimiter and CR / LF / TAB are
    escaped (for `q = '` this is `escapeChar`, what `__repr__` does) -/
def escWith (q c : Char) : List Char :=
  if c = '\\' then ['\\', '\\']
  else if c = q then ['\\', q]
  else if c = '\r' then ['\\', 'r']
  else if c = '\n' then ['\\', 'n']
  else if c = '\t' then ['\\', 't']
  else [c]

def quoteBody (q : Char) (s : List Char) : List Char := s.flatMap (escWith q)

/-- the string `s` written as a literal delimited by `q` -/
def quoteWith (q : Char) (s : List Char) : List Char := q :: (quoteBody q s ++ [q])

theorem escWith_single (c : Char) : escWith '\'' c = escapeChar c := rfl

/-- single-quoted `quoteWith` is the text `__repr__` produces -/
theorem quoteWith_single (s : List Char) : quoteWith '\'' s = '\'' :: (escapeStr s ++ ['\'']) := by
  rfl

section generic
variable {q : Char} {str esc hex1 hex2 : St} (Q : Quote q str esc hex1 hex2)
include Q

theorem accum_str : Accum str (fun c => c ≠ q ∧ c ≠ '\\' ∧ c ≠ '\n') where
  step_eq k col ch hs hc := by
    rw [Q.str_eq _ _ _ hs]
    simp only [stepStr, hc.1, hc.2.1, if_false]
  ne0 := Q.str_ne0
  nonl := by simp

/-- backslash + a character other than `x` (and other than a raw newline): the character the
    escape stands for is appended -/
theorem run_escape_pair {name : String} {σ : LexSt} (hs : σ.core.state = str) {x : Char}
    (hx : x ≠ 'x') (hn : x ≠ '\n') :
    ∃ σ', run name σ ['\\', x] = .ok σ' ∧
      σ'.core = { σ.core with token := σ.core.token ++ [unesc x] } ∧ Frame σ σ' := by
  obtain ⟨hq1, _⟩ := Q.q_ne
  obtain ⟨σ1, hf1, hk1, hfr1⟩ := feed_inner (name := name) (σ := σ) (c := '\\')
    (k' := { σ.core with state := esc }) (by rw [hs]; exact Q.str_ne0) (by decide)
    (by
      intro col; rw [Q.str_eq _ _ _ hs]
      simp only [stepStr, Ne.symm hq1, if_false, if_true])
  have hs1 : σ1.core.state = esc := by rw [hk1]
  obtain ⟨σ2, hf2, hk2, hfr2⟩ := feed_inner (name := name) (σ := σ1) (c := x)
    (k' := { σ1.core with token := σ1.core.token ++ [unesc x], state := str })
    (by rw [hs1]; exact Q.esc_ne0) hn
    (by
      intro col; rw [Q.esc_eq _ _ _ hs1]; simp only [stepEsc, unesc, hx, if_false]
      by_cases h1 : x = 'n'
      · simp [h1]
      · by_cases h2 : x = 'r'
        · simp [h2]
        · by_cases h3 : x = 't'
          · simp [h3]
          · simp [h1, h2, h3])
  refine ⟨σ2, ?_, ?_, hfr1.trans hfr2⟩
  · rw [run_cons_ok _ hf1, run_cons_ok _ hf2]; rfl
  · rw [hk2, hk1]
    cases hσ : σ.core with
    | mk st tk tb => rw [hσ] at hs; simp only at hs; subst hs; rfl

/-- `\xHH` with two hex digits appends the character with that code -/
theorem run_hex_escape {name : String} {σ : LexSt} (hs : σ.core.state = str) {a b : Char}
    (ha : a ∈ hexDigits) (hb : b ∈ hexDigits) (htb : σ.core.tempbuf = []) :
    ∃ σ', run name σ ['\\', 'x', a, b] = .ok σ' ∧
      σ'.core = { σ.core with token := σ.core.token ++ [Char.ofNat (ofDigits 16 [a, b])] } ∧
      Frame σ σ' := by
  obtain ⟨hq1, _⟩ := Q.q_ne
  have hnl : ∀ c ∈ hexDigits, c ≠ '\n' := by decide
  obtain ⟨σ1, hf1, hk1, hfr1⟩ := feed_inner (name := name) (σ := σ) (c := '\\')
    (k' := { σ.core with state := esc }) (by rw [hs]; exact Q.str_ne0) (by decide)
    (by
      intro col; rw [Q.str_eq _ _ _ hs]
      simp only [stepStr, Ne.symm hq1, if_false, if_true])
  have hs1 : σ1.core.state = esc := by rw [hk1]
  obtain ⟨σ2, hf2, hk2, hfr2⟩ := feed_inner (name := name) (σ := σ1) (c := 'x')
    (k' := { σ1.core with state := hex1 }) (by rw [hs1]; exact Q.esc_ne0) (by decide)
    (by intro col; rw [Q.esc_eq _ _ _ hs1]; simp [stepEsc])
  have hs2 : σ2.core.state = hex1 := by rw [hk2]
  obtain ⟨σ3, hf3, hk3, hfr3⟩ := feed_inner (name := name) (σ := σ2) (c := a)
    (k' := { σ2.core with tempbuf := [a], state := hex2 }) (by rw [hs2]; exact Q.hex1_ne0)
    (hnl a ha)
    (by intro col; rw [Q.hex1_eq _ _ _ hs2]; rfl)
  have hs3 : σ3.core.state = hex2 := by rw [hk3]
  have htb3 : σ3.core.tempbuf = [a] := by rw [hk3]
  obtain ⟨σ4, hf4, hk4, hfr4⟩ := feed_inner (name := name) (σ := σ3) (c := b)
    (k' := { σ3.core with token := σ3.core.token ++ [Char.ofNat (ofDigits 16 [a, b])],
                          tempbuf := [], state := str })
    (by rw [hs3]; exact Q.hex2_ne0) (hnl b hb)
    (by
      intro col; rw [Q.hex2_eq _ _ _ hs3]
      simp only [stepHex2, htb3, List.singleton_append]
      rw [if_neg (by simp [ha, hb])])
  refine ⟨σ4, ?_, ?_, ((hfr1.trans hfr2).trans hfr3).trans hfr4⟩
  · rw [run_cons_ok _ hf1, run_cons_ok _ hf2, run_cons_ok _ hf3, run_cons_ok _ hf4]; rfl
  · rw [hk4, hk3, hk2, hk1]
    cases hσ : σ.core with
    | mk st tk tb =>
      rw [hσ] at hs htb; simp only at hs htb; subst hs; subst htb; rfl

/-- the text `escWith q c` read inside `q…q` appends exactly `c` -/
theorem run_escWith {name : String} {σ : LexSt} (hs : σ.core.state = str) (c : Char) :
    ∃ σ', run name σ (escWith q c) = .ok σ' ∧
      σ'.core = { σ.core with token := σ.core.token ++ [c] } ∧ Frame σ σ' := by
  obtain ⟨hq1, hq2, hq3, hq4, hq5, hq6⟩ := Q.q_ne
  unfold escWith
  split
  · rename_i h; subst h
    exact run_escape_pair Q hs (by decide) (by decide)
  split
  · rename_i h1 h; subst h
    have := run_escape_pair (name := name) Q hs (x := c) hq6 hq2
    have hu : unesc c = c := by simp [unesc, hq3, hq4, hq5]
    rw [hu] at this; exact this
  split
  · rename_i h; subst h
    exact run_escape_pair (x := 'r') Q hs (by decide) (by decide)
  split
  · rename_i h; subst h
    exact run_escape_pair (x := 'n') Q hs (by decide) (by decide)
  split
  · rename_i h; subst h
    exact run_escape_pair (x := 't') Q hs (by decide) (by decide)
  · rename_i h1 h2 h3 h4 h5
    obtain ⟨σ1, hf, hk, hfr⟩ := feed_accum (name := name) (accum_str Q) hs (c := c) ⟨h2, h1, h4⟩
    exact ⟨σ1, by rw [run_cons_ok _ hf]; rfl, hk, hfr⟩

theorem run_quoteBody {name : String} (s : List Char) : ∀ {σ : LexSt}, σ.core.state = str →
    ∃ σ', run name σ (quoteBody q s) = .ok σ' ∧
      σ'.core = { σ.core with token := σ.core.token ++ s } ∧ Frame σ σ' := by
  induction s with
  | nil => intro σ _; exact ⟨σ, rfl, by simp, Frame.rfl' σ⟩
  | cons c s ih =>
    intro σ hs
    obtain ⟨σ1, hr1, hk1, hfr1⟩ := run_escWith (name := name) Q hs c
    obtain ⟨σ2, hr2, hk2, hfr2⟩ := ih (σ := σ1) (by rw [hk1]; exact hs)
    refine ⟨σ2, ?_, ?_, hfr1.trans hfr2⟩
    · show run name σ ((c :: s).flatMap (escWith q)) = _
      rw [List.flatMap_cons, run_append_ok _ hr1]; exact hr2
    · rw [hk2, hk1]; simp

/-- the closing delimiter emits the string token and returns to state 0 -/
theorem feed_close {name : String} {σ : LexSt} (hs : σ.core.state = str) :
    ∃ σ' col, feed name σ q = .ok σ' ∧ σ'.core = { σ.core with token := [], state := .s0 } ∧
      σ'.out = (⟨σ.core.token, .string, ⟨name, σ.startline, col⟩⟩, σ.startOff) :: σ.out ∧
      σ'.line = σ.line := by
  have h0 : σ.core.state ≠ .s0 := by rw [hs]; exact Q.str_ne0
  have hstep : ∀ col, step σ.core col q = .ok (stepStr q esc σ.core col q) := by
    intro col; exact Q.str_eq _ _ _ hs
  simp only [feed, LexSt.count, Q.q_ne.2.1, if_false, LexSt.capture, h0,
    LexSt.dispatch, hstep, stepStr, if_true, LexSt.push]
  exact ⟨_, _, rfl, rfl, rfl, rfl⟩

/-- **quoted literal**: from a token boundary, `quoteWith q s` emits the string token with value
    `s` and returns to the same automaton configuration, on the same line -/
theorem run_quoted {name : String} {σ : LexSt} (h0 : σ.core.state = .s0)
    (htok : σ.core.token = []) (s : List Char) :
    ∃ σ' col, run name σ (quoteWith q s) = .ok σ' ∧ σ'.core = σ.core ∧
      σ'.out = (⟨s, .string, ⟨name, σ.line, col⟩⟩, σ.pos) :: σ.out ∧ σ'.line = σ.line := by
  obtain ⟨σ1, hf1, hk1, ho1, hsl1, hso1, hl1⟩ := feed_start (name := name) (c := q)
    (k' := { σ.core with state := str }) h0 Q.q_ne.2.1 (fun col => Q.open_eq _ col)
  have hs1 : σ1.core.state = str := by rw [hk1]
  obtain ⟨σ2, hr2, hk2, hfr2⟩ := run_quoteBody (name := name) Q s hs1
  have hs2 : σ2.core.state = str := by rw [hk2]; exact hs1
  obtain ⟨σ3, col, hf3, hk3, ho3, hl3⟩ := feed_close (name := name) Q hs2
  refine ⟨σ3, col, ?_, ?_, ?_, ?_⟩
  · unfold quoteWith
    rw [run_cons_ok _ hf1, run_append_ok _ hr2, run_cons_ok _ hf3]; rfl
  · rw [hk3, hk2, hk1]
    cases hσ : σ.core with
    | mk st tk tb => rw [hσ] at h0 htok; simp only at h0 htok; subst h0; subst htok; rfl
  · rw [ho3, hk2, hk1, hfr2.out, hfr2.startline, hfr2.startOff, ho1, hsl1, hso1]
    simp [htok]
  · rw [hl3, hfr2.line, hl1]

/-- a delimited text whose body appends `t` to the token buffer emits the string token `t` -/
theorem run_delimited {name : String} {σ : LexSt} (h0 : σ.core.state = .s0)
    (htok : σ.core.token = []) (body t : List Char)
    (hbody : ∀ σ1 : LexSt, σ1.core = { σ.core with state := str } →
      ∃ σ', run name σ1 body = .ok σ' ∧
        σ'.core = { σ1.core with token := σ1.core.token ++ t } ∧ Frame σ1 σ') :
    ∃ σ' col, run name σ (q :: (body ++ [q])) = .ok σ' ∧ σ'.core = σ.core ∧
      σ'.out = (⟨t, .string, ⟨name, σ.line, col⟩⟩, σ.pos) :: σ.out ∧ σ'.line = σ.line := by
  obtain ⟨σ1, hf1, hk1, ho1, hsl1, hso1, hl1⟩ := feed_start (name := name) (c := q)
    (k' := { σ.core with state := str }) h0 Q.q_ne.2.1 (fun col => Q.open_eq _ col)
  have hs1 : σ1.core.state = str := by rw [hk1]
  obtain ⟨σ2, hr2, hk2, hfr2⟩ := hbody σ1 hk1
  have hs2 : σ2.core.state = str := by rw [hk2]; exact hs1
  obtain ⟨σ3, col, hf3, hk3, ho3, hl3⟩ := feed_close (name := name) Q hs2
  refine ⟨σ3, col, ?_, ?_, ?_, ?_⟩
  · rw [run_cons_ok _ hf1, run_append_ok _ hr2, run_cons_ok _ hf3]; rfl
  · rw [hk3, hk2, hk1]
    cases hσ : σ.core with
    | mk st tk tb => rw [hσ] at h0 htok; simp only at h0 htok; subst h0; subst htok; rfl
  · rw [ho3, hk2, hk1, hfr2.out, hfr2.startline, hfr2.startOff, ho1, hsl1, hso1]
    simp [htok]
  · rw [hl3, hfr2.line, hl1]

/-! ### writing control characters as `\xHH` -/

/-- like `escWith`, but every other control character (code below 32) is written `\xHH` -/
def escHexWith (q c : Char) : List Char :=
  if c = '\\' then ['\\', '\\']
  else if c = q then ['\\', q]
  else if c = '\r' then ['\\', 'r']
  else if c = '\n' then ['\\', 'n']
  else if c = '\t' then ['\\', 't']
  else if c.toNat < 32 then ['\\', 'x', Nat.digitChar (c.toNat / 16), Nat.digitChar (c.toNat % 16)]
  else [c]

def quoteHexBody (q : Char) (s : List Char) : List Char := s.flatMap (escHexWith q)

/-- the string `s` written as a literal delimited by `q`, control characters escaped -/
def quoteHexWith (q : Char) (s : List Char) : List Char := q :: (quoteHexBody q s ++ [q])

omit Q in
theorem hex_pair_value : ∀ n < 32,
    Nat.digitChar (n / 16) ∈ hexDigits ∧ Nat.digitChar (n % 16) ∈ hexDigits ∧
      ofDigits 16 [Nat.digitChar (n / 16), Nat.digitChar (n % 16)] = n := by decide

theorem run_escHexWith {name : String} {σ : LexSt} (hs : σ.core.state = str)
    (htb : σ.core.tempbuf = []) (c : Char) :
    ∃ σ', run name σ (escHexWith q c) = .ok σ' ∧
      σ'.core = { σ.core with token := σ.core.token ++ [c] } ∧ Frame σ σ' := by
  by_cases hctl : c ≠ '\\' ∧ c ≠ q ∧ c ≠ '\r' ∧ c ≠ '\n' ∧ c ≠ '\t' ∧ c.toNat < 32
  · obtain ⟨h1, h2, h3, h4, h5, h6⟩ := hctl
    obtain ⟨ha, hb, hv⟩ := hex_pair_value c.toNat h6
    have e : escHexWith q c = ['\\', 'x', Nat.digitChar (c.toNat / 16), Nat.digitChar (c.toNat % 16)] := by
      simp [escHexWith, h1, h2, h3, h4, h5, h6]
    rw [e]
    have := run_hex_escape (name := name) Q hs ha hb htb
    rw [hv, Char.ofNat_toNat] at this
    exact this
  · have e : escHexWith q c = escWith q c := by
      unfold escHexWith escWith
      repeat' split
      all_goals first | rfl | (exfalso; apply hctl; refine ⟨?_, ?_, ?_, ?_, ?_, ?_⟩ <;> assumption)
    rw [e]
    exact run_escWith Q hs c

theorem run_quoteHexBody {name : String} (s : List Char) : ∀ {σ : LexSt}, σ.core.state = str →
    σ.core.tempbuf = [] →
    ∃ σ', run name σ (quoteHexBody q s) = .ok σ' ∧
      σ'.core = { σ.core with token := σ.core.token ++ s } ∧ Frame σ σ' := by
  induction s with
  | nil => intro σ _ _; exact ⟨σ, rfl, by simp, Frame.rfl' σ⟩
  | cons c s ih =>
    intro σ hs htb
    obtain ⟨σ1, hr1, hk1, hfr1⟩ := run_escHexWith (name := name) Q hs htb c
    obtain ⟨σ2, hr2, hk2, hfr2⟩ := ih (σ := σ1) (by rw [hk1]; exact hs) (by rw [hk1]; exact htb)
    refine ⟨σ2, ?_, ?_, hfr1.trans hfr2⟩
    · show run name σ ((c :: s).flatMap (escHexWith q)) = _
      rw [List.flatMap_cons, run_append_ok _ hr1]; exact hr2
    · rw [hk2, hk1]; simp

theorem run_quotedHex {name : String} {σ : LexSt} (h0 : σ.core.state = .s0)
    (htok : σ.core.token = []) (htb : σ.core.tempbuf = []) (s : List Char) :
    ∃ σ' col, run name σ (quoteHexWith q s) = .ok σ' ∧ σ'.core = σ.core ∧
      σ'.out = (⟨s, .string, ⟨name, σ.line, col⟩⟩, σ.pos) :: σ.out ∧ σ'.line = σ.line :=
  run_delimited Q h0 htok (quoteHexBody q s) s
    (fun σ1 h1 => run_quoteHexBody Q s (by rw [h1]) (by rw [h1]; exact htb))

end generic

/-! ### the two families are isomorphic -/

/-- the states of the single-quote family -/
def InSq (st : St) : Prop := st = .s4 ∨ st = .s41 ∨ st = .s411 ∨ st = .s412

/-- renaming of the single-quote family to the double-quote family -/
def dq : St → St
  | .s4 => .s3
  | .s41 => .s31
  | .s411 => .s311
  | .s412 => .s312
  | s => s

def dqCore (k : Core) : Core := { k with state := dq k.state }
def dqSt (σ : LexSt) : LexSt := { σ with core := dqCore σ.core }

def dqOut (o : Out) : Out := { o with core := dqCore o.core }

theorem step_dq_s4 (tk tb : List Char) (col : Int) {ch : Char} (h1 : ch ≠ '\'') (h2 : ch ≠ '"') :
    step ⟨.s3, tk, tb⟩ col ch = (step ⟨.s4, tk, tb⟩ col ch).map dqOut ∧
      ∀ o, step ⟨.s4, tk, tb⟩ col ch = .ok o → InSq o.core.state ∧ o.emit = none ∧ o.again = false := by
  have e3 : step ⟨.s3, tk, tb⟩ col ch = .ok (stepStr '"' .s31 ⟨.s3, tk, tb⟩ col ch) := rfl
  have e4 : step ⟨.s4, tk, tb⟩ col ch = .ok (stepStr '\'' .s41 ⟨.s4, tk, tb⟩ col ch) := rfl
  rw [e3, e4]
  simp only [stepStr, h1, h2, if_false, Except.map]
  by_cases hb : ch = '\\'
  · simp [hb, dqOut, dqCore, dq, InSq]
  · simp [hb, dqOut, dqCore, dq, InSq]

theorem step_dq_s41 (tk tb : List Char) (col : Int) (ch : Char) :
    step ⟨.s31, tk, tb⟩ col ch = (step ⟨.s41, tk, tb⟩ col ch).map dqOut ∧
      ∀ o, step ⟨.s41, tk, tb⟩ col ch = .ok o → InSq o.core.state ∧ o.emit = none ∧ o.again = false := by
  have e3 : step ⟨.s31, tk, tb⟩ col ch = .ok (stepEsc .s3 .s311 ⟨.s31, tk, tb⟩ ch) := rfl
  have e4 : step ⟨.s41, tk, tb⟩ col ch = .ok (stepEsc .s4 .s411 ⟨.s41, tk, tb⟩ ch) := rfl
  rw [e3, e4]
  simp only [stepEsc, Except.map]
  by_cases hn : ch = 'n'
  · simp [hn, dqOut, dqCore, dq, InSq]
  by_cases hr : ch = 'r'
  · simp [hr, dqOut, dqCore, dq, InSq]
  by_cases ht : ch = 't'
  · simp [ht, dqOut, dqCore, dq, InSq]
  by_cases hx : ch = 'x'
  · simp [hx, dqOut, dqCore, dq, InSq]
  · simp [hn, hr, ht, hx, dqOut, dqCore, dq, InSq]

theorem step_dq_s411 (tk tb : List Char) (col : Int) (ch : Char) :
    step ⟨.s311, tk, tb⟩ col ch = (step ⟨.s411, tk, tb⟩ col ch).map dqOut ∧
      ∀ o, step ⟨.s411, tk, tb⟩ col ch = .ok o → InSq o.core.state ∧ o.emit = none ∧ o.again = false := by
  have e3 : step ⟨.s311, tk, tb⟩ col ch = .ok (stepHex1 .s312 ⟨.s311, tk, tb⟩ ch) := rfl
  have e4 : step ⟨.s411, tk, tb⟩ col ch = .ok (stepHex1 .s412 ⟨.s411, tk, tb⟩ ch) := rfl
  rw [e3, e4]
  simp [stepHex1, Except.map, dqOut, dqCore, dq, InSq]

theorem stepHex2_dq (tk tb : List Char) (ch : Char) :
    stepHex2 .s3 ⟨.s312, tk, tb⟩ ch = (stepHex2 .s4 ⟨.s412, tk, tb⟩ ch).map dqOut ∧
      ∀ o, stepHex2 .s4 ⟨.s412, tk, tb⟩ ch = .ok o → InSq o.core.state ∧ o.emit = none ∧ o.again = false := by
  simp only [stepHex2]
  split
  · split
    · exact ⟨rfl, fun o h => nomatch h⟩
    · refine ⟨rfl, fun o h => ?_⟩
      cases h; simp [InSq]
  · exact ⟨rfl, fun o h => nomatch h⟩

theorem step_dq_s412 (tk tb : List Char) (col : Int) (ch : Char) :
    step ⟨.s312, tk, tb⟩ col ch = (step ⟨.s412, tk, tb⟩ col ch).map dqOut ∧
      ∀ o, step ⟨.s412, tk, tb⟩ col ch = .ok o → InSq o.core.state ∧ o.emit = none ∧ o.again = false :=
  stepHex2_dq tk tb ch

/-- on characters other than the two quotes the dispatch commutes with the renaming; it stays in
    the family, emits nothing and never unreads -/
theorem step_dq {k : Core} (col : Int) {ch : Char} (hk : InSq k.state) (h1 : ch ≠ '\'')
    (h2 : ch ≠ '"') :
    step (dqCore k) col ch = (step k col ch).map dqOut ∧
      ∀ o, step k col ch = .ok o → InSq o.core.state ∧ o.emit = none ∧ o.again = false := by
  obtain ⟨st, tk, tb⟩ := k
  simp only [InSq] at hk
  rcases hk with rfl | rfl | rfl | rfl
  · exact step_dq_s4 tk tb col h1 h2
  · exact step_dq_s41 tk tb col ch
  · exact step_dq_s411 tk tb col ch
  · exact step_dq_s412 tk tb col ch

theorem feed_dq {name : String} {σ : LexSt} {ch : Char} (hk : InSq σ.core.state) (h1 : ch ≠ '\'')
    (h2 : ch ≠ '"') :
    feed name (dqSt σ) ch = (feed name σ ch).map dqSt ∧
      ∀ σ', feed name σ ch = .ok σ' → InSq σ'.core.state := by
  have hne0 : σ.core.state ≠ .s0 := by
    intro h; rw [h] at hk; simp [InSq] at hk
  have hne0' : dq σ.core.state ≠ .s0 := by
    simp only [InSq] at hk
    rcases hk with h | h | h | h <;> rw [h] <;> decide
  obtain ⟨hstep, hprop⟩ := step_dq (k := σ.core) (σ.count ch).column hk h1 h2
  have hcnt : (σ.count ch).core = σ.core := (count_fields σ ch).2.2.2.1
  have hcntd : (dqSt σ).count ch = dqSt (σ.count ch) := by
    unfold LexSt.count dqSt; split <;> rfl
  have hcapd : (dqSt (σ.count ch)).capture = dqSt (σ.count ch) := by
    unfold LexSt.capture
    rw [if_neg]
    show dq (σ.count ch).core.state ≠ .s0
    rw [hcnt]; exact hne0'
  have hcap : (σ.count ch).capture = σ.count ch := by
    unfold LexSt.capture; rw [if_neg]; rw [hcnt]; exact hne0
  unfold feed
  rw [hcntd, hcapd, hcap]
  unfold LexSt.dispatch
  have e1 : (dqSt (σ.count ch)).core = dqCore σ.core := by show dqCore (σ.count ch).core = _; rw [hcnt]
  have e2 : (dqSt (σ.count ch)).column = (σ.count ch).column := rfl
  rw [e1, e2, hstep, hcnt]
  cases hs : step σ.core (σ.count ch).column ch with
  | error e =>
    refine ⟨?_, fun σ' h => nomatch h⟩
    simp only [Except.map]
    cases he : e.line <;> simp [LexSt.synErr, he, dqSt, dqCore]
  | ok o =>
    obtain ⟨hin, hem, hag⟩ := hprop o hs
    obtain ⟨oc, oe, oa⟩ := o
    simp only at hin hem hag
    subst hem; subst hag
    refine ⟨?_, ?_⟩
    · simp [Except.map, dqOut, LexSt.push, dqSt]
    · intro σ' h
      simp only [LexSt.push, Except.ok.injEq] at h
      subst h; exact hin

theorem run_dq {name : String} (b : List Char) : ∀ {σ : LexSt}, InSq σ.core.state →
    '\'' ∉ b → '"' ∉ b →
    run name (dqSt σ) b = (run name σ b).map dqSt ∧
      ∀ σ', run name σ b = .ok σ' → InSq σ'.core.state := by
  induction b with
  | nil =>
    intro σ hk _ _
    exact ⟨rfl, fun σ' h => by cases h; exact hk⟩
  | cons c b ih =>
    intro σ hk h1 h2
    have hc1 : c ≠ '\'' := fun e => h1 (by simp [e])
    have hc2 : c ≠ '"' := fun e => h2 (by simp [e])
    obtain ⟨hf, hin⟩ := feed_dq (name := name) hk hc1 hc2
    cases hfe : feed name σ c with
    | error e =>
      rw [hfe] at hf
      rw [run_cons_error _ hfe, run_cons_error _ hf]
      exact ⟨rfl, fun σ' h => nomatch h⟩
    | ok σ1 =>
      rw [hfe] at hf
      rw [run_cons_ok _ hfe, run_cons_ok _ hf]
      exact ih (hin σ1 hfe) (fun h => h1 (List.mem_cons_of_mem _ h))
        (fun h => h2 (List.mem_cons_of_mem _ h))

/-- opening quotes: `'` enters state 4, `"` enters state 3, with identical counters -/
theorem feed_open_dq {name : String} {σ : LexSt} (h0 : σ.core.state = .s0) :
    ∃ σ1, feed name σ '\'' = .ok σ1 ∧ feed name σ '"' = .ok (dqSt σ1) ∧ σ1.core.state = .s4 := by
  refine ⟨{ σ with column := σ.column + 1, startline := σ.line, startOff := σ.pos,
                   core := { σ.core with state := .s4 }, pos := σ.pos + 1 }, ?_, ?_, rfl⟩
  · simp only [feed, LexSt.count, show ('\'' : Char) ≠ '\n' by decide, if_false, LexSt.capture, h0,
      if_true, LexSt.dispatch, step_s0, quoteS.open_eq, LexSt.push]
  · simp only [feed, LexSt.count, show ('"' : Char) ≠ '\n' by decide, if_false, LexSt.capture, h0,
      if_true, LexSt.dispatch, step_s0, quoteD.open_eq, LexSt.push]
    rfl

/-- closing quotes in the string state proper: identical results -/
theorem feed_close_dq {name : String} {σ : LexSt} (hs : σ.core.state = .s4) :
    feed name (dqSt σ) '"' = feed name σ '\'' := by
  have h0 : σ.core.state ≠ .s0 := by rw [hs]; decide
  have h0' : (dqSt σ).core.state ≠ .s0 := by show dq σ.core.state ≠ .s0; rw [hs]; decide
  have hs' : (dqCore σ.core).state = .s3 := by show dq σ.core.state = .s3; rw [hs]; rfl
  simp only [feed, LexSt.count, show ('"' : Char) ≠ '\n' by decide,
    show ('\'' : Char) ≠ '\n' by decide, if_false, LexSt.capture, h0, LexSt.dispatch]
  have e : ({ dqSt σ with column := (dqSt σ).column + 1 } : LexSt).core.state ≠ .s0 := h0'
  simp only [e, if_false]
  rw [show ({ dqSt σ with column := (dqSt σ).column + 1 } : LexSt).core = dqCore σ.core from rfl,
    quoteD.str_eq _ _ _ hs',
    show ({ σ with column := σ.column + 1 } : LexSt).core = σ.core from rfl,
    quoteS.str_eq _ _ _ hs]
  simp only [stepStr, if_true, LexSt.push, dqSt, dqCore]

/-! ### bodies that do not end inside an escape sequence -/

/-- a text in which every backslash starts a complete escape sequence: `\c` (`c ≠ x`) or `\xHH`
    (the two characters after `\x` are arbitrary here: malformed ones make the scan fail) -/
inductive EscComplete : List Char → Prop
  | nil : EscComplete []
  | plain {c : Char} {b : List Char} : c ≠ '\\' → EscComplete b → EscComplete (c :: b)
  | esc {x : Char} {b : List Char} : x ≠ 'x' → EscComplete b → EscComplete ('\\' :: x :: b)
  | hex {h l : Char} {b : List Char} : EscComplete b → EscComplete ('\\' :: 'x' :: h :: l :: b)

/-- inside the single-quote family a character other than the quotes is dispatched exactly once -/
theorem feed_sq_step {name : String} {σ σ' : LexSt} {ch : Char} (hk : InSq σ.core.state)
    (h1 : ch ≠ '\'') (h2 : ch ≠ '"') (hf : feed name σ ch = .ok σ') :
    ∃ col o, step σ.core col ch = .ok o ∧ σ'.core = o.core := by
  have hne0 : σ.core.state ≠ .s0 := by
    intro h; rw [h] at hk; simp [InSq] at hk
  obtain ⟨_, hprop⟩ := step_dq (k := σ.core) (σ.count ch).column hk h1 h2
  have hcnt : (σ.count ch).core = σ.core := (count_fields σ ch).2.2.2.1
  have hcap : (σ.count ch).capture = σ.count ch := by
    unfold LexSt.capture; rw [if_neg]; rw [hcnt]; exact hne0
  unfold feed at hf
  rw [hcap] at hf
  unfold LexSt.dispatch at hf
  rw [hcnt] at hf
  cases hs : step σ.core (σ.count ch).column ch with
  | error e => rw [hs] at hf; cases hf
  | ok o =>
    obtain ⟨_, hem, hag⟩ := hprop o hs
    obtain ⟨oc, oe, oa⟩ := o
    simp only at hem hag
    subst hem; subst hag
    rw [hs] at hf
    simp only [LexSt.push, Except.ok.injEq] at hf
    subst hf
    exact ⟨_, ⟨oc, none, false⟩, hs, rfl⟩

theorem run_escComplete_state {name : String} {b : List Char} (hb : EscComplete b) :
    ∀ {σ σ' : LexSt}, '\'' ∉ b → '"' ∉ b → σ.core.state = .s4 → run name σ b = .ok σ' →
      σ'.core.state = .s4 := by
  induction hb with
  | nil => intro σ σ' _ _ hs hr; cases hr; exact hs
  | @plain c b hc _ ih =>
    intro σ σ' h1 h2 hs hr
    have c1 : c ≠ '\'' := fun e => h1 (by simp [e])
    have c2 : c ≠ '"' := fun e => h2 (by simp [e])
    cases hf : feed name σ c with
    | error e => rw [run_cons_error _ hf] at hr; cases hr
    | ok σ1 =>
      rw [run_cons_ok _ hf] at hr
      obtain ⟨col, o, hst, hk⟩ := feed_sq_step (by simp [InSq, hs]) c1 c2 hf
      rw [quoteS.str_eq _ _ _ hs] at hst
      simp only [stepStr, c1, hc, if_false, Except.ok.injEq] at hst
      refine ih (fun h => h1 (List.mem_cons_of_mem _ h)) (fun h => h2 (List.mem_cons_of_mem _ h))
        ?_ hr
      rw [hk, ← hst]; exact hs
  | @esc x b hx _ ih =>
    intro σ σ' h1 h2 hs hr
    have x1 : x ≠ '\'' := fun e => h1 (by simp [e])
    have x2 : x ≠ '"' := fun e => h2 (by simp [e])
    cases hf : feed name σ '\\' with
    | error e => rw [run_cons_error _ hf] at hr; cases hr
    | ok σ1 =>
      rw [run_cons_ok _ hf] at hr
      obtain ⟨col, o, hst, hk⟩ := feed_sq_step (by simp [InSq, hs]) (by decide) (by decide) hf
      rw [quoteS.str_eq _ _ _ hs] at hst
      simp only [stepStr, show ('\\' : Char) ≠ '\'' by decide, if_false, if_true,
        Except.ok.injEq] at hst
      have hs1 : σ1.core.state = .s41 := by rw [hk, ← hst]
      cases hf2 : feed name σ1 x with
      | error e => rw [run_cons_error _ hf2] at hr; cases hr
      | ok σ2 =>
        rw [run_cons_ok _ hf2] at hr
        obtain ⟨col2, o2, hst2, hk2⟩ := feed_sq_step (by simp [InSq, hs1]) x1 x2 hf2
        rw [quoteS.esc_eq _ _ _ hs1] at hst2
        have hs2 : σ2.core.state = .s4 := by
          rw [hk2]
          simp only [stepEsc, hx, if_false, Except.ok.injEq] at hst2
          rw [← hst2]
          repeat' split
          all_goals rfl
        exact ih (fun h => h1 (by simp [h])) (fun h => h2 (by simp [h])) hs2 hr
  | @hex h l b _ ih =>
    intro σ σ' h1 h2 hs hr
    have a1 : h ≠ '\'' := fun e => h1 (by simp [e])
    have a2 : h ≠ '"' := fun e => h2 (by simp [e])
    have l1 : l ≠ '\'' := fun e => h1 (by simp [e])
    have l2 : l ≠ '"' := fun e => h2 (by simp [e])
    cases hf : feed name σ '\\' with
    | error e => rw [run_cons_error _ hf] at hr; cases hr
    | ok σ1 =>
      rw [run_cons_ok _ hf] at hr
      obtain ⟨col, o, hst, hk⟩ := feed_sq_step (by simp [InSq, hs]) (by decide) (by decide) hf
      rw [quoteS.str_eq _ _ _ hs] at hst
      simp only [stepStr, show ('\\' : Char) ≠ '\'' by decide, if_false, if_true,
        Except.ok.injEq] at hst
      have hs1 : σ1.core.state = .s41 := by rw [hk, ← hst]
      cases hf2 : feed name σ1 'x' with
      | error e => rw [run_cons_error _ hf2] at hr; cases hr
      | ok σ2 =>
        rw [run_cons_ok _ hf2] at hr
        obtain ⟨col2, o2, hst2, hk2⟩ := feed_sq_step (by simp [InSq, hs1]) (by decide) (by decide) hf2
        rw [quoteS.esc_eq _ _ _ hs1] at hst2
        have hs2 : σ2.core.state = .s411 := by
          rw [hk2]
          simp [stepEsc] at hst2
          rw [← hst2]
        cases hf3 : feed name σ2 h with
        | error e => rw [run_cons_error _ hf3] at hr; cases hr
        | ok σ3 =>
          rw [run_cons_ok _ hf3] at hr
          obtain ⟨col3, o3, hst3, hk3⟩ := feed_sq_step (by simp [InSq, hs2]) a1 a2 hf3
          rw [quoteS.hex1_eq _ _ _ hs2] at hst3
          have hs3 : σ3.core.state = .s412 := by
            rw [hk3]
            simp only [stepHex1, Except.ok.injEq] at hst3
            rw [← hst3]
          cases hf4 : feed name σ3 l with
          | error e => rw [run_cons_error _ hf4] at hr; cases hr
          | ok σ4 =>
            rw [run_cons_ok _ hf4] at hr
            obtain ⟨col4, o4, hst4, hk4⟩ := feed_sq_step (by simp [InSq, hs3]) l1 l2 hf4
            rw [quoteS.hex2_eq _ _ _ hs3] at hst4
            have hs4 : σ4.core.state = .s4 := by
              rw [hk4]
              simp only [stepHex2] at hst4
              split at hst4
              · split at hst4
                · cases hst4
                · cases hst4; rfl
              · cases hst4
            exact ih (fun hm => h1 (by simp [hm])) (fun hm => h2 (by simp [hm])) hs4 hr

end Ckl.C14S
