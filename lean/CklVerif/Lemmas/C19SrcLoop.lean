import CklVerif.Lemmas.C19SrcSimple

/-! C19Src — loops: list.ckl `reverse_list` (the worked example of the invariant rule `forListLive_inv`) -/
namespace Ckl.C19Src
open Ckl Ckl.C03 Ckl.Gen.LibSrc
variable (ld : Loader)

/-! ### from a body that changes its own frame to `fn.execute`

    A body with local `def`s / assignments / loop variables changes the callee frame `c = s.frames.size`; that frame does not exist in
    the state `s` before the call, so the body lemma proves `Ext s s'` (w.r.t. the state BEFORE the call) directly. -/

theorem calls_of_body1X {src : Node} {q : String} {body : Node} {k : Nat} {r : State → Out RVal} {Q : State → Prop}
    (hps : lamParams src = [q]) (hds : lamDefaults src = [.absent]) (hbody : lamBody src = body) (hk : 1 ≤ k)
    {s : State} {M nats srcs fn m} (h : LibEnv s M nats srcs) (hm : M m) (hsrc : IsSrc s fn src m)
    (v : RVal)
    (hb : ∀ s0, Ctx s0 M nats srcs s.frames.size m [(q, v)] → Ext s s0 →
      ∃ s', Ext s s' ∧ Ev ld k s.frames.size body s0 (r s') ∧ Q s') :
    ∃ s', Ext s s' ∧ Q s' ∧ ∀ env pos, Calls ld (k + 1) fn [(q, v)] env pos s (postCall (r s')) := by
  obtain ⟨a, nm, rfl, hcell⟩ := hsrc
  rw [hps, hds, hbody] at hcell
  obtain ⟨s', e', hev, hQ⟩ := hb _ (Ctx.callee1 h hm q v) (calleeState_ext s m [(q, v)] [q])
  refine ⟨s', e', hQ, fun env pos => ?_⟩
  exact Calls.closure ld hcell rfl hk (by intro p hp; simp at hp; subst hp; simp [dictGet]) hev

theorem calls_of_body2X {src : Node} {q1 q2 : String} {body : Node} {k : Nat} {r : State → Out RVal} {Q : State → Prop}
    (hps : lamParams src = [q1, q2]) (hds : lamDefaults src = [.absent, .absent]) (hbody : lamBody src = body)
    (hk : 2 ≤ k) (hne : q1 ≠ q2)
    {s : State} {M nats srcs fn m} (h : LibEnv s M nats srcs) (hm : M m) (hsrc : IsSrc s fn src m)
    (v1 v2 : RVal)
    (hb : ∀ s0, Ctx s0 M nats srcs s.frames.size m [(q1, v1), (q2, v2)] → Ext s s0 →
      ∃ s', Ext s s' ∧ Ev ld k s.frames.size body s0 (r s') ∧ Q s') :
    ∃ s', Ext s s' ∧ Q s' ∧ ∀ env pos, Calls ld (k + 1) fn [(q1, v1), (q2, v2)] env pos s (postCall (r s')) := by
  obtain ⟨a, nm, rfl, hcell⟩ := hsrc
  rw [hps, hds, hbody] at hcell
  obtain ⟨s', e', hev, hQ⟩ := hb _ (Ctx.callee2 h hm q1 q2 v1 v2 hne) (calleeState_ext s m [(q1, v1), (q2, v2)] [q1, q2])
  refine ⟨s', e', hQ, fun env pos => ?_⟩
  have hqp : ¬ q2 = q1 := fun h => hne h.symm
  exact Calls.closure ld hcell rfl hk
    (by intro p hp; simp at hp; rcases hp with rfl | rfl <;> simp [dictGet, hqp]) hev

/-! ### frames under `remove`, `setCell`, `alloc` -/

theorem frame_remove_same (s : State) {e : Nat} (x : String) (h : e < s.frames.size) :
    (s.remove e x).frame e = { s.frame e with vars := dictDel x (s.frame e).vars } := by
  simp [State.remove, State.frame, Array.getD_eq_getD_getElem?, Array.getElem_modify, h]

theorem frames_size_remove (s : State) (e : Nat) (x : String) : (s.remove e x).frames.size = s.frames.size := by
  simp [State.remove]

theorem cell_remove (s : State) (e : Nat) (x : String) (a : Nat) : (s.remove e x).cell a = s.cell a := rfl
theorem cell_put (s : State) (e : Nat) (x : String) (v : RVal) (a : Nat) : (s.put e x v).cell a = s.cell a := rfl
theorem frame_setCell (s : State) (a : Nat) (c : Cell) (e : Nat) : (s.setCell a c).frame e = s.frame e := rfl
theorem frame_alloc (s : State) (c : Cell) (e : Nat) : (s.alloc c).1.frame e = s.frame e := rfl
theorem heap_size_setCell (s : State) (a : Nat) (c : Cell) : (s.setCell a c).heap.size = s.heap.size := by
  simp [State.setCell]
theorem heap_size_alloc (s : State) (c : Cell) : (s.alloc c).1.heap.size = s.heap.size + 1 := by
  simp [State.alloc]

/-- a `Ctx` for a state reached from the state before the call: the library environment is inherited through `Ext` -/
theorem Ctx.ofExt {s st : State} {M nats srcs m vars} (h : LibEnv s M nats srcs) (hm : M m) (e : Ext s st)
    (hv : (st.frame s.frames.size).vars = vars) (hp : (st.frame s.frames.size).parent = some m)
    (hlt : s.frames.size < st.frames.size) : Ctx st M nats srcs s.frames.size m vars :=
  ⟨h.ext e, hm, ⟨hv, hp, h.lt m hm⟩, hlt⟩

/-! ### the built-in `insert_at(lst, 0, v)` on a list cell -/

theorem insertAt_zero {α} (ys : List α) (v : α) : Seq.insertAt ys 0 v = v :: ys := by
  simp [Seq.insertAt]

theorem insert_at_front (b : Nat) (ys : List RVal) (v : RVal) (d : Option RVal) (pos : Pos) (s : State)
    (hc : s.cell b = some (.list ys)) :
    ∃ m, callPure "insert_at" [("lst", .ref b), ("index", .int 0), ("value", v)] d pos = some m ∧
      m s = .ok (.ref b) (s.setCell b (.list (v :: ys))) := by
  refine ⟨_, rfl, ?_⟩
  simp [argGet, dictGet, cellOf, hc, EvalM.bind_apply, EvalM.pure_apply, insertAt_zero]
  rfl

/-! ### list.ckl `reverse_list` -/

/-- position of a block node -/
def blockPos : Node → Pos
  | .block _ _ _ _ _ p => p
  | _ => default

local notation "bp" => blockPos (lamBody list_reverse_list)

def reverseNats : List String := ["type", "equals", "insert_at"]

theorem reverseNats_type {nats : List String} (hn : ∀ x ∈ reverseNats, x ∈ nats) : ∀ x ∈ typeNats, x ∈ nats := by
  intro x hx; apply hn; simp [typeNats] at hx; rcases hx with rfl | rfl <;> decide

/-- the loop invariant of `reverse_list`: before the iteration with index `i` the result cell `b` holds the reversed prefix -/
structure RevInv (s : State) (c m : EnvId) (a b : Nat) (xs : List RVal) (i : Nat) (st : State) : Prop where
  ext : Ext s st
  cellb : st.cell b = some (.list (xs.take i).reverse)
  hsize : st.heap.size = b + 1
  parent : (st.frame c).parent = some m
  clt : c < st.frames.size
  vars : (st.frame c).vars = [("list", .ref a), ("result", .ref b)] ∨
    ∃ w, (st.frame c).vars = [("list", .ref a), ("result", .ref b), ("element", w)]

/-- the body of `reverse_list` on a list cell -/
theorem reverse_list_body {s s0 : State} {M nats srcs m} {a : Nat} {xs : List RVal}
    (h : LibEnv s M nats srcs) (hm : M m)
    (ctx : Ctx s0 M nats srcs s.frames.size m [("list", .ref a)]) (e0 : Ext s s0)
    (hn : ∀ x ∈ reverseNats, x ∈ nats) (hs : ∀ p ∈ firstSrcs, p ∈ srcs) (hc : s.cell a = some (.list xs)) :
    ∃ s', Ext s s' ∧ Ev ld (xs.length + 17) s.frames.size (lamBody list_reverse_list) s0 (.ok (.ref (s'.heap.size - 1)) s') ∧
      (s.heap.size ≤ s'.heap.size - 1 ∧ s'.cell (s'.heap.size - 1) = some (.list xs.reverse)) := by
  -- positions are found by unification with the generated term
  unfold lamBody list_reverse_list
  simp only []
  generalize hK : xs.length + 12 = K
  have ha : a < s.heap.size := cell_lt hc
  have hcge : s.frames.size ≤ s.frames.size := Nat.le_refl _
  -- statement 1: `if not is_list(list) then return NULL`
  have ctx0 : Ctx (ghostEnter s0 bp) M nats srcs s.frames.size m [("list", .ref a)] :=
    ctx.ext ((Ext.refl s0).ghostEnter _)
  have e0' : Ext s (ghostEnter s0 bp) := e0.ghostEnter _
  obtain ⟨f1, m1, hl1, hm1, hsrc1⟩ := ctx0.src (x := "is_list") (src := type_is_list) (hs _ (by simp [firstSrcs])) (by rfl)
  obtain ⟨t1, e1, c1⟩ := is_list_calls ld ctx0.env (reverseNats_type hn) hm1 hsrc1 (.ref a)
  have hil : isListR (ghostEnter s0 bp) (.ref a) = true := by
    have : (ghostEnter s0 bp).cell a = some (.list xs) := by rw [e0'.cell a ha]; exact hc
    simp [isListR, this]
  rw [hil] at c1
  have S1 : ∀ p1 p2 p3 p4 x els p5, Ev ld K s.frames.size
      (.ite [.not (.call (.ident "is_list" p1) [none] [.ident "list" p2] p3) p4] [x] (.lit (.bool true) els) p5)
      (ghostEnter s0 bp) (.ok (.bool true) t1) := by
    intro p1 p2 p3 p4 x els p5
    have E1 := Ev.callSrc1 ld (k := 6) (p := p1) hl1 hsrc1 rfl (by decide) (by trivial)
      (Ev.ident ld (p := p2) (ctx0.var (x := "list") (by rfl))) (c1 s.frames.size p3)
    rw [wrapCall_ok] at E1
    exact Ev.mono ld (Ev.ite ld (EvIf.false ld (Ev.not ld (p := p4) E1) (EvIf.else ld (Ev.litBool ld)))) (by omega)
  have ctx1 := ctx0.ext e1
  have E1 : Ext s t1 := e0'.trans e1
  -- statement 2: `def result = []`
  let b := t1.heap.size
  let t2 := (t1.alloc (.list [])).1.put s.frames.size "result" (.ref b)
  have S2 : ∀ p1 info p2, Ev ld K s.frames.size (.defn "result" (.list [] p1) info p2) t1 (.ok (.ref b) t2) := by
    intro p1 info p2
    exact Ev.mono ld (Ev.defn ld (k := 1) (by intro a h; cases h) (Ev.listNil ld (k := 0))) (by omega)
  have hclt1 : s.frames.size < t1.frames.size := ctx1.clt
  have E2 : Ext s t2 := (E1.alloc _).put hcge _ _
  have hbge : s.heap.size ≤ b := E1.hsize
  have inv0 : RevInv s s.frames.size m a b xs 0 t2 := by
    refine ⟨E2, ?_, ?_, ?_, ?_, Or.inl ?_⟩
    · show ((t1.alloc (.list [])).1.put _ _ _).cell b = _
      rw [cell_put, cell_alloc_new]; rfl
    · show ((t1.alloc (.list [])).1.put _ _ _).heap.size = _
      rw [heap_put, heap_size_alloc]
    · show (((t1.alloc (.list [])).1.put _ _ _).frame _).parent = _
      rw [parent_put, frame_alloc]; exact ctx1.fr.parent
    · show _ < ((t1.alloc (.list [])).1.put _ _ _).frames.size
      rw [frames_size_put]; exact hclt1
    · show (((t1.alloc (.list [])).1.put _ _ _).frame _).vars = _
      rw [vars_put_same (t1.alloc (.list [])).1 "result" (.ref b) hclt1, frame_alloc, ctx1.fr.vars]; rfl
  -- statement 3: the loop
  have hstep : ∀ p1 p2 p3 p4 p5, ∀ i (r : RVal) st v, RevInv s s.frames.size m a b xs i st → xs[i]? = some v →
      ∃ r' s', Ev ld 5 s.frames.size (.call (.ident "insert_at" p1) [none, none, none]
          [.ident "result" p2, .lit (.int 0) p3, .ident "element" p4] p5) (st.put s.frames.size "element" v) (.ok r' s') ∧
        isCtl r' = false ∧ RevInv s s.frames.size m a b xs (i + 1) s' := by
    intro p1 p2 p3 p4 p5 i r st v inv hv
    have hvars : ((st.put s.frames.size "element" v).frame s.frames.size).vars =
        [("list", .ref a), ("result", .ref b), ("element", v)] := by
      rw [vars_put_same _ _ _ inv.clt]
      rcases inv.vars with h | ⟨w, h⟩ <;> rw [h] <;> simp [dictPut]
    have hpar : ((st.put s.frames.size "element" v).frame s.frames.size).parent = some m := by
      rw [parent_put]; exact inv.parent
    have eu : Ext s (st.put s.frames.size "element" v) := inv.ext.put hcge _ _
    have cu : Ctx (st.put s.frames.size "element" v) M nats srcs s.frames.size m
        [("list", .ref a), ("result", .ref b), ("element", v)] :=
      Ctx.ofExt h hm eu hvars hpar (by rw [frames_size_put]; exact inv.clt)
    obtain ⟨j, hl⟩ := cu.nat (x := "insert_at") (hn _ (by decide)) (by rfl)
    have hcb : (st.put s.frames.size "element" v).cell b = some (.list (xs.take i).reverse) := by
      rw [cell_put]; exact inv.cellb
    obtain ⟨mm, hm1, hm2⟩ := insert_at_front b _ v (div0Value (st.put s.frames.size "element" v) s.frames.size) p5 _ hcb
    have A := Ev.nat3 ld (k := 0) (p := p1) (pos := p5) hl (by rfl) (by decide) (by decide) (by decide) (by decide)
      (by trivial) (by trivial) (by trivial)
      (Ev.ident ld (p := p2) (cu.var (x := "result") (by rfl))) (Ev.litInt ld (p := p3) (n := 0))
      (Ev.ident ld (p := p4) (cu.var (x := "element") (by rfl))) hm1 hm2
    rw [wrapCall_ok] at A
    have hblt : b < (st.put s.frames.size "element" v).heap.size := by rw [heap_put, inv.hsize]; exact Nat.lt_succ_self _
    refine ⟨_, _, A, rfl, ⟨eu.setCell hbge _, ?_, ?_, ?_, ?_, Or.inr ⟨v, ?_⟩⟩⟩
    · rw [cell_setCell_same _ _ hblt, List.take_add_one, hv]; simp
    · rw [heap_size_setCell, heap_put]; exact inv.hsize
    · rw [frame_setCell]; exact hpar
    · show _ < (st.put s.frames.size "element" v).frames.size
      rw [frames_size_put]; exact inv.clt
    · rw [frame_setCell]; exact hvars
  have hcellI : ∀ i (r : RVal) st, RevInv s s.frames.size m a b xs i st → st.cell a = some (.list xs) := by
    intro i r st inv; rw [inv.ext.cell a ha]; exact hc
  have S3 : ∀ p0 p1 p2 p3 p4 p5 what p6, ∃ r t3, Ev ld K s.frames.size
      (.for ["element"] (.ident "list" p0) (.call (.ident "insert_at" p1) [none, none, none]
          [.ident "result" p2, .lit (.int 0) p3, .ident "element" p4] p5) what p6) t2 (.ok r t3) ∧ isCtl r = false ∧
        Ext s t3 ∧ t3.cell b = some (.list xs.reverse) ∧ t3.heap.size = b + 1 ∧
        ∃ vars, CallFrame t3 s.frames.size m vars ∧ dictGet "result" vars = some (.ref b) ∧ s.frames.size < t3.frames.size := by
    intro p0 p1 p2 p3 p4 p5 what p6
    obtain ⟨r, st, ⟨hctl, inv⟩, hloop⟩ := forListLive_inv ld (kb := 5) (env := s.frames.size) (x := "element") (a := a)
      (pos := p6) xs (fun i r st => isCtl r = false ∧ RevInv s s.frames.size m a b xs i st)
      (fun i r st hI => hcellI i r st hI.2)
      (fun i r st v hI hv => by
        obtain ⟨r', s', h1, h2, h3⟩ := hstep p1 p2 p3 p4 p5 i r st v hI.2 hv
        exact ⟨r', s', h1, h2, h2, h3⟩)
      xs.length 0 (.bool true) t2 (by omega) ⟨rfl, inv0⟩
    have hvars2 : (t2.frame s.frames.size).vars = [("list", .ref a), ("result", .ref b)] := by
      show (((t1.alloc (.list [])).1.put _ _ _).frame _).vars = _
      rw [vars_put_same (t1.alloc (.list [])).1 "result" (.ref b) hclt1, frame_alloc, ctx1.fr.vars]; rfl
    have hF := Ev.forList ld (k := 0) (kl := 5 + xs.length + 1) (what := what) (x := "element") (pos := p6)
      (by rw [hvars2]; rfl)
      (Ev.ident ld (p := p0) (lookup_local (x := "list") (callFrame_self inv0.parent (h.lt m hm)) (by rw [hvars2]; rfl)))
      (hcellI 0 (.bool true) t2 inv0) hloop (hcellI _ r st inv)
    refine ⟨r, _, Ev.mono ld hF (show max 0 (5 + xs.length + 1) + 2 ≤ K by omega), hctl, ?_⟩
    have hcb : st.cell b = some (.list xs.reverse) := by
      have := inv.cellb; rwa [List.take_length] at this
    cases hxs : xs.isEmpty with
    | true =>
      simp only [if_true]
      refine ⟨inv.ext, hcb, inv.hsize, (st.frame s.frames.size).vars, callFrame_self inv.parent (h.lt m hm), ?_, inv.clt⟩
      rcases inv.vars with h | ⟨w, h⟩ <;> rw [h] <;> rfl
    | false =>
      simp only [Bool.false_eq_true, if_false]
      refine ⟨inv.ext.remove hcge _, by rw [cell_remove]; exact hcb, inv.hsize,
        ((st.remove s.frames.size "element").frame s.frames.size).vars,
        callFrame_self (by rw [frame_remove_same _ _ inv.clt]; exact inv.parent) (h.lt m hm), ?_,
        by rw [frames_size_remove]; exact inv.clt⟩
      rw [frame_remove_same _ _ inv.clt]
      rcases inv.vars with h | ⟨w, h⟩ <;> rw [h] <;> rfl
  -- the block
  obtain ⟨r3, t3, hS3, hctl3, E3, hcb3, hsz3, vars3, hfr3, hres3, hclt3⟩ := S3 _ _ _ _ _ _ _ _
  have S4 : ∀ p, Ev ld K s.frames.size (.ident "result" p) t3 (.ok (.ref b) t3) :=
    fun p => Ev.ident ld (lookup_local hfr3 hres3)
  have hb1 : b = (ghostFin t3 bp).heap.size - 1 := by
    show b = t3.heap.size - 1; rw [hsz3]; rfl
  refine ⟨ghostFin t3 bp, E3.ghostFin _, ?_, ?_, ?_⟩
  · rw [← hb1]
    exact Ev.mono ld (k := K + 3 + 1 + 1) (Ev.block ld (b := false) (pos := bp)
      (EvBody.cons ld (Ev.mono ld (S1 _ _ _ _ _ _ _) (show K ≤ K + 3 by omega)) rfl
      (EvBody.cons ld (Ev.mono ld (S2 _ _ _) (show K ≤ K + 2 by omega)) rfl
        (EvBody.cons ld (Ev.mono ld hS3 (show K ≤ K + 1 by omega)) hctl3
          (EvBody.cons ld (S4 _) rfl (EvBody.nil ld)))))) (by omega)
  · rw [← hb1]; exact hbge
  · rw [← hb1]; exact hcb3

/-- `fn.execute(list = a list cell)` of the function made from the source of `reverse_list`: a reference to a FRESH cell (address
    at least the old heap size) holding the reversed list; the argument cell and everything else that existed is unchanged -/
theorem reverse_list_calls_list {s : State} {M nats srcs fn m} (h : LibEnv s M nats srcs) (hn : ∀ x ∈ reverseNats, x ∈ nats)
    (hs : ∀ p ∈ firstSrcs, p ∈ srcs) (hm : M m) (hsrc : IsSrc s fn list_reverse_list m) (a : Nat) (xs : List RVal)
    (hc : s.cell a = some (.list xs)) :
    ∃ s', Ext s s' ∧ (s.heap.size ≤ s'.heap.size - 1 ∧ s'.cell (s'.heap.size - 1) = some (.list xs.reverse)) ∧
      ∀ env pos, Calls ld (xs.length + 18) fn [("list", .ref a)] env pos s (.ok (.ref (s'.heap.size - 1)) s') :=
  calls_of_body1X ld (src := list_reverse_list) (r := fun s' => .ok (.ref (s'.heap.size - 1)) s') rfl rfl rfl
    (by omega) h hm hsrc (.ref a) (fun _ ctx e0 => reverse_list_body ld h hm ctx e0 hn hs hc)

/-- position of the `return` in the guard `if not is_list(list) then return NULL` -/
def guardRetPos' : Node → Pos
  | .block (.ite _ (.ret _ p :: _) _ _ :: _) _ _ _ _ _ => p
  | _ => default

/-- an argument that is not a list: `return NULL` -/
theorem reverse_list_body_nonlist {s : State} {M nats srcs c m} {v : RVal}
    (ctx : Ctx s M nats srcs c m [("list", v)]) (hn : ∀ x ∈ reverseNats, x ∈ nats) (hs : ∀ p ∈ firstSrcs, p ∈ srcs)
    (hv : isListR s v = false) :
    ∃ s', Ext s s' ∧ Ev ld 14 c (lamBody list_reverse_list) s
      (.ok (.ret .null (guardRetPos' (lamBody list_reverse_list))) s') := by
  have ctx0 : Ctx (ghostEnter s bp) M nats srcs c m [("list", v)] := ctx.ext ((Ext.refl s).ghostEnter _)
  obtain ⟨f1, m1, hl1, hm1, hsrc1⟩ := ctx0.src (x := "is_list") (src := type_is_list) (hs _ (by simp [firstSrcs])) (by rfl)
  obtain ⟨t1, e1, c1⟩ := is_list_calls ld ctx0.env (reverseNats_type hn) hm1 hsrc1 v
  have hil : isListR (ghostEnter s bp) v = false := hv
  rw [hil] at c1
  have ctx1 := ctx0.ext e1
  refine ⟨ghostFin t1 bp, (((Ext.refl s).ghostEnter _).trans e1).ghostFin _, ?_⟩
  have S1 : ∀ p1 p2 p3 p4 p5 p6 els p7, Ev ld 12 c
      (.ite [.not (.call (.ident "is_list" p1) [none] [.ident "list" p2] p3) p4] [.ret (.ident "NULL" p5) p6] els p7)
      (ghostEnter s bp) (.ok (.ret .null p6) t1) := by
    intro p1 p2 p3 p4 p5 p6 els p7
    have E1 := Ev.callSrc1 ld (k := 6) (p := p1) hl1 hsrc1 rfl (by decide) (by trivial)
      (Ev.ident ld (p := p2) (ctx0.var (x := "list") (by rfl))) (c1 c p3)
    rw [wrapCall_ok] at E1
    exact Ev.mono ld (Ev.ite ld (EvIf.true ld (Ev.not ld (p := p4) E1)
      (Ev.mono ld (Ev.ret ld (k := 0) (by intro h; cases h) (Ev.ident ld (ctx1.null (by rfl)))) (by decide)))) (by decide)
  exact Ev.block ld (b := false) (pos := bp) (EvBody.stop ld (S1 _ _ _ _ _ _ _ _) rfl)

theorem cell_ext_eq {s s0 : State} (e : Ext s s0) (hh : s0.heap.size = s.heap.size) (a : Nat) : s0.cell a = s.cell a := by
  by_cases ha : a < s.heap.size
  · exact e.cell a ha
  · have h1 : s.cell a = none := by simp [State.cell, Array.getElem?_eq_none (Nat.le_of_not_lt ha)]
    have h2 : s0.cell a = none := by simp [State.cell, Array.getElem?_eq_none (hh ▸ Nat.le_of_not_lt ha)]
    rw [h1, h2]

theorem isListR_ext_eq {s s0 : State} (e : Ext s s0) (hh : s0.heap.size = s.heap.size) (v : RVal) :
    isListR s0 v = isListR s v := by
  cases v <;> simp [isListR, cell_ext_eq e hh]

theorem reverse_list_calls_nonlist {s : State} {M nats srcs fn m} (h : LibEnv s M nats srcs) (hn : ∀ x ∈ reverseNats, x ∈ nats)
    (hs : ∀ p ∈ firstSrcs, p ∈ srcs) (hm : M m) (hsrc : IsSrc s fn list_reverse_list m) (v : RVal)
    (hv : isListR s v = false) :
    ∃ s', Ext s s' ∧ ∀ env pos, Calls ld 15 fn [("list", v)] env pos s (.ok .null s') := by
  obtain ⟨s', e, _, c⟩ := calls_of_body1Q ld (k := 14) (src := list_reverse_list) (Q := fun _ => True)
    (r := fun s' => .ok (.ret .null (guardRetPos' (lamBody list_reverse_list))) s')
    rfl rfl rfl (by decide) h hm hsrc v (fun s0 ctx e0 hh => by
      obtain ⟨s', e', hev⟩ := reverse_list_body_nonlist ld ctx hn hs (by rw [isListR_ext_eq e0 hh]; exact hv)
      exact ⟨s', e', hev, trivial⟩)
  exact ⟨s', e, c⟩

end Ckl.C19Src
