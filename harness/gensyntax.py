"""Grammar-directed generator of checkerlang source text covering every production of parser.py
(the programs need not be meaningful), plus token-level mutation helpers."""

KEYWORDS = ["if", "then", "elif", "else", "and", "or", "not", "is", "in", "def", "fn", "for", "while", "do", "end", "finally",
            "catch", "break", "continue", "return", "error", "require", "as", "also"]
OPERATORS = ["+", "-", "*", "/", "%", "==", "<>", "!=", "<", "<=", ">", ">=", "=", "+=", "-=", "*=", "/=", "%=", "!>", "->"]
INTERPUNCTION = ["(", ")", "[", "]", ",", ";", "<<", ">>", "<<<", ">>>", "=>", "<*", "*>", "..."]
IDENTS = ["a", "b", "x", "y", "f", "g", "lst", "m", "all", "keys", "values", "entries", "to", "import", "unqualified", "class",
          "empty", "zero", "negative", "numerical", "alphanumerical", "date", "with", "hour", "time", "string", "int", "decimal",
          "boolean", "pattern", "None", "func", "input", "output", "list", "set", "map", "object", "node", "starts", "ends",
          "contains", "matches", "min_len", "max_len", "exact_len", "args...", "checkerlang_x", "NULL", "a.b", "_p"]
LITERALS = ["0", "1", "42", "007", "1_000", "0x1F", "0xff_ff", "0b101", "0b1_0", "1.5", "0.25", "10.", "1_0.5_0", "TRUE", "FALSE",
            "'s'", "'a\\'b'", '"d q"', '"\\x41\\n"', "'\\t\\\\'", "''", "//a+//", "//[a-z]*//", "////", "'multi\nline'", "'é€'"]
PRED_FORMS = ["empty", "zero", "negative", "numerical", "numerical min_len 1", "numerical max_len 3", "numerical exact_len 2",
              "alphanumerical", "alphanumerical min_len 1 max_len 5", "date with hour", "date", "time", "string", "int", "decimal",
              "boolean", "pattern", "None", "func", "input", "output", "list", "set", "map", "object", "node"]


class Gen:
    def __init__(self, rng, maxdepth=5):
        self.r = rng
        self.maxdepth = maxdepth

    def pick(self, xs):
        return self.r.choice(xs)

    def ident(self):
        return self.pick(["a", "b", "x", "y", "f", "g", "lst", "m", "s", "acc"])

    def atom(self):
        k = self.r.random()
        if k < 0.45:
            return self.ident()
        return self.pick(LITERALS)

    def expr(self, d=0):
        r = self.r
        if d >= self.maxdepth or r.random() < 0.25:
            return self.atom()
        k = r.randrange(34)
        e = lambda: self.expr(d + 1)   # noqa
        if k == 0:
            return f"{e()} {self.pick(['+', '-', '*', '/', '%'])} {e()}"
        if k == 1:
            return f"{e()} {self.pick(['==', '!=', '<>', '<', '<=', '>', '>=', 'is', 'is not'])} {e()}"
        if k == 2:
            return f"{e()} < {e()} <= {e()}"
        if k == 3:
            return f"{e()} and {e()} and {e()}"
        if k == 4:
            return f"{e()} or {e()}"
        if k == 5:
            return f"not {e()}"
        if k == 6:
            return f"-{self.atom()}"
        if k == 7:
            return f"({e()})"
        if k == 8:
            return f"{self.atom()} is {self.pick(['', 'not '])}{self.pick(PRED_FORMS)}"
        if k == 9:
            return f"{self.atom()} {self.pick(['in', 'not in', 'is in', 'is not in'])} {self.atom()}"
        if k == 10:
            return f"{self.atom()} {self.pick(['starts with', 'starts not with', 'ends with', 'ends not with', 'contains', 'contains not', 'matches', 'matches not'])} {self.atom()}"
        if k == 11:
            return "[" + ", ".join(e() for _ in range(r.randint(0, 3))) + self.pick(["", ",", ""]) + "]"
        if k == 12:
            return "[..." + self.ident() + ", " + e() + "]"
        if k == 13:
            return "<<" + ", ".join(e() for _ in range(r.randint(0, 3))) + ">>"
        if k == 14:
            return "<<<" + ", ".join(f"{self.pick([self.ident(), self.atom()])} => {e()}" for _ in range(r.randint(0, 3))) + ">>>"
        if k == 15:
            return "<*" + ", ".join(self.pick([f"{self.ident()} = {e()}", f"{self.ident()}(self, x) {e()}"]) for _ in range(r.randint(0, 3))) + "*>"
        if k == 16:
            what = self.pick(["", "keys ", "values ", "entries "])
            cond = self.pick(["", f" if {e()}"])
            o, c = self.pick([("[", "]"), ("<<", ">>")])
            return f"{o}{e()} for {self.ident()} in {what}{e()}{cond}{c}"
        if k == 17:
            o, c = self.pick([("[", "]"), ("<<", ">>")])
            return f"{o}{e()} for x in {e()} {self.pick(['for', 'also for'])} y in {self.pick(['', 'keys '])}{e()}{self.pick(['', f' if {e()}'])}{c}"
        if k == 18:
            return f"<<<{e()} => {e()} for {self.ident()} in {self.pick(['', 'entries '])}{e()}{self.pick(['', f' if {e()}'])}>>>"
        if k == 19:
            args = ", ".join(self.pick([e(), f"{self.ident()} = {e()}", f"...{self.ident()}", "...[1, 2]", "...<<<'a' => 1>>>"]) for _ in range(r.randint(0, 3)))
            return f"{self.ident()}({args})"
        if k == 20:
            return f"{self.atom()} !> {self.ident()}({e()})"
        if k == 21:
            return f"{self.atom()} !> (fn(x) {e()})({e()})"
        if k == 22:
            return f"{self.atom()} !> {self.ident()}->{self.ident()}()"
        if k == 23:
            return f"{self.ident()}->{self.ident()}" + self.pick(["", f"({e()})", f" = {e()}", f" += {e()}", f"->{self.ident()}"])
        if k == 24:
            return f"{self.ident()}[{e()}]" + self.pick(["", f" = {e()}", f" += {e()}", f" -= {e()}", f" *= {e()}", f" /= {e()}", f" %= {e()}", f"[{e()}]"])
        if k == 25:
            return f"{self.ident()}[{e()}, {e()}]" + self.pick(["", f" += {e()}"])
        if k == 26:
            return f"{self.pick([self.ident(), chr(39) + 'abc' + chr(39), '[1, 2]'])}[{e()} to {self.pick(['*', e()])}]"
        if k == 27:
            params = ", ".join(self.pick([self.ident(), f"{self.ident()} = {e()}"]) for _ in range(r.randint(0, 3)))
            if r.random() < 0.3:
                params += (", " if params else "") + "rest..."
            return f"fn({params}) {self.pick([e(), self.block(d + 1)])}"
        if k == 28:
            s = f"if {e()} then {self.pick([e(), self.block(d + 1)])}"
            for _ in range(r.randint(0, 2)):
                s += f" {self.pick(['elif', 'if'])} {e()} then {e()}"
            if r.random() < 0.7:
                s += f" else {self.pick([e(), self.block(d + 1)])}"
            return s
        if k == 29:
            return f"{self.ident()} {self.pick(['=', '+=', '-=', '*=', '/=', '%='])} {e()}"
        if k == 30:
            return f"[{self.ident()}, {self.ident()}] = {e()}"
        if k == 31:
            return self.pick(["break", "continue", f"return {e()}", f"error {e()}"])
        if k == 32:
            return self.block(d + 1)
        return f"{self.ident()}({e()})[{e()}]->{self.ident()}"

    def block(self, d=0):
        r = self.r
        n = r.randint(0, 3)
        stmts = [self.stmt(d + 1) for _ in range(n)]
        s = "do " + "; ".join(stmts)
        if stmts and r.random() < 0.4:
            s += ";"
        for _ in range(r.choice([0, 0, 1, 2])):
            s += f" catch {self.pick(['all', self.expr(d + 1)])} {self.pick([self.expr(d + 1), self.block(d + 1)])}" + self.pick(["", ";"])
        if r.random() < 0.3:
            s += " finally " + "; ".join(self.stmt(d + 1) for _ in range(r.randint(1, 2)))
        return s + " end"

    def stmt(self, d=0):
        r = self.r
        if d >= self.maxdepth:
            return self.atom()
        k = r.randrange(14)
        e = lambda: self.expr(d + 1)   # noqa
        if k == 0:
            return f"def {self.ident()} = {e()}"
        if k == 1:
            params = ", ".join(self.pick([self.ident(), f"{self.ident()} = {e()}"]) for _ in range(r.randint(0, 3)))
            return self.pick(["", "'doc comment' "]) + f"def {self.ident()}({params}) {self.pick([e(), self.block(d + 1)])}"
        if k == 2:
            return f"def [{self.ident()}, {self.ident()}] = {e()}"
        if k == 3:
            what = self.pick(["", "keys ", "values ", "entries "])
            var = self.pick([self.ident(), f"[{self.ident()}, {self.ident()}]"])
            return f"for {var} in {what}{e()} {self.pick([self.block(d + 1), e()])}"
        if k == 4:
            return f"while {e()} {self.block(d + 1)}"
        if k == 5:
            m = self.pick(["Math", "List", "'lib/mod.ckl'", "modname"])
            return f"require {m}" + self.pick(["", " unqualified", " as M", " import [a, b as c]", " import [ ]"])
        if k == 6:
            members = "; ".join(self.pick([f"def {self.ident()} = {e()}", f"def {self.ident()}(self) {e()}"]) for _ in range(r.randint(0, 3)))
            return f"def class C do {members} end"
        if k == 7:
            return self.block(d + 1)
        return e()

    def program(self):
        n = self.r.randint(1, 5)
        s = "; ".join(self.stmt(0) for _ in range(n))
        if self.r.random() < 0.3:
            s += ";"
        return s


# ------------------------------------------------------------------ layout variation (C14) and token-level edits (C01)

WORDLIKE = ("identifier", "keyword", "int", "decimal", "boolean")
BRACKETS = set("()[],;")


def adjacent_ok(left, lt, right, rt):
    """may the two token texts be written with nothing between them?  Decided from the token grammar alone (never by asking the
    scanner under test): a word-like token and a symbol token may touch, single-character brackets may touch each other; nothing
    touches a pattern, a `/`, or a dot, and two word-like or two operator tokens never touch"""
    if "pattern" in (lt, rt) or "/" in left or "/" in right or left.endswith(".") or right.startswith(".") or not left or not right:
        return False
    lw, rw = lt in WORDLIKE, rt in WORDLIKE
    if lw and rw:
        return False
    if lt == "string" or rt == "string":
        return (left in BRACKETS and len(left) == 1) or (right in BRACKETS and len(right) == 1)
    if lw or rw:
        sym = right if lw else left
        if lw and lt in ("int", "decimal") and sym[0] in "eExXbB_":
            return False
        if rw and sym == "-" and rt in ("int", "decimal"):
            return True
        return True
    return left in BRACKETS and right in BRACKETS


def render_tokens(tokens, rng=None, canonical=True):
    """re-render a token list (value, type) to text; canonical = single spaces"""
    parts = []
    for v, t in tokens:
        if t == "string":
            q = "'" if (canonical or rng.random() < 0.5) else '"'
            body = ""
            for ch in v:
                if ch == "\\":
                    body += "\\\\"
                elif ch == q:
                    body += "\\" + q
                elif ch == "\n":
                    body += "\\n" if (canonical or rng.random() < 0.7) else "\n"
                elif ch == "\r":
                    body += "\\r"
                elif ch == "\t":
                    body += "\\t" if (canonical or rng.random() < 0.7) else "\t"
                elif not canonical and ord(ch) < 256 and rng.random() < 0.1:
                    body += "\\x%02x" % ord(ch)
                else:
                    body += ch
            parts.append(q + body + q)
        elif t == "pattern":
            parts.append(v)
        elif t == "int" and not canonical and rng is not None:
            n = int(v)
            k = rng.random()
            if k < 0.25:
                parts.append(hex(n))
            elif k < 0.4:
                parts.append(bin(n))
            elif k < 0.55 and len(v) > 1:
                parts.append(v[0] + "_" + v[1:])
            elif k < 0.65:
                parts.append("0X"[0] + "x" + "%X" % n)
            elif k < 0.80:
                # underscores ANYWHERE the scanner allows them: doubled, trailing, right after the radix prefix, between all digits
                def us(digits):
                    out_ = ""
                    for j, dch in enumerate(digits):
                        out_ += dch + rng.choice(["", "", "_", "__"])
                    return out_
                form = rng.randrange(4)
                if form == 0:
                    parts.append(v[0] + us(v[1:]) + rng.choice(["", "_"]) if len(v) > 1 else v + "_")
                elif form == 1:
                    parts.append("0x" + rng.choice(["", "_", "__"]) + us("%x" % n))
                elif form == 2:
                    parts.append("0b" + rng.choice(["", "_"]) + us(bin(n)[2:]))
                else:
                    parts.append("0x" + "".join(rng.choice([c.lower(), c.upper()]) for c in "%x" % n) + rng.choice(["", "_"]))
            else:
                parts.append(v)
        elif t == "operator" and v in ("!=", "<>") and not canonical and rng is not None:
            parts.append(rng.choice(["!=", "<>"]))
        else:
            parts.append(v)
    if canonical or rng is None:
        return " ".join(parts)
    out = ""
    for i, p in enumerate(parts):
        out += p
        if i + 1 < len(parts):
            if rng.random() < 0.25 and adjacent_ok(p, tokens[i][1], parts[i + 1], tokens[i + 1][1]):
                continue            # no separator at all where two tokens can touch
            out += rng.choice([" ", "  ", "\t", "\n", "\r\n", " # comment\n", "\n\n", " \t ", " #\n", "\n# c1\n# c2\n"])
    if rng.random() < 0.3:
        out += rng.choice(["\n", " ", " # trailing comment", "\r\n"])
    return out
