/-
  C03Sugar — parser level, part 2: outcomes up to positions.

  `SimOut ra r r'`: two (proof-free) outcomes of a production agree up to positions — both succeed
  with `ra`-related values and remaining token lists that agree up to positions, or both fail with
  the same message.  From the equivariance theorem of C14 (`hyp_all`) applied to the renaming that
  sends every position to `default`: every production yields `SimOut`-related outcomes on lexer
  states whose tokens agree up to positions and on accumulators that agree up to positions.
-/
import CklVerif.Lemmas.C03SugarParse
import CklVerif.Proofs.C14Parse
namespace Ckl.C03S
open Ckl Ckl.Parser Ckl.C02P Ckl.C14P

/-- the renaming that forgets every position -/
abbrev d0 : Pos → Pos := fun _ => default

/-- ASTs equal up to positions -/
def NodeEq (n n' : Node) : Prop := C02P.erase n = C02P.erase n'
/-- (names, args) of a call equal up to positions -/
def ArgsEq (a a' : List (Option String) × List Node) : Prop := a.1 = a'.1 ∧ C02P.eraseL a.2 = C02P.eraseL a'.2

def SimOut {α : Type} (ra : α → α → Prop) : Except PErr (α × St) → Except PErr (α × St) → Prop
  | .ok (a, s), .ok (a', s') => ra a a' ∧ TokSim s.toks s'.toks
  | .error e, .error e' => e.val.msg = e'.val.msg
  | _, _ => False

theorem SimOut.bind {α β : Type} {ra : α → α → Prop} {rb : β → β → Prop}
    {x x' : Except PErr (α × St)} {k k' : α × St → Except PErr (β × St)}
    (hx : SimOut ra x x')
    (hk : ∀ a s a' s', ra a a' → TokSim s.toks s'.toks → SimOut rb (k (a, s)) (k' (a', s'))) :
    SimOut rb (x.bind k) (x'.bind k') := by
  cases x with
  | error e => cases x' with
    | error e' => exact hx
    | ok a' => exact hx.elim
  | ok a => cases x' with
    | error e' => obtain ⟨a, s⟩ := a; exact hx.elim
    | ok a' =>
      obtain ⟨a, s⟩ := a; obtain ⟨a', s'⟩ := a'
      exact hk a s a' s' hx.1 hx.2

theorem tokSim_of_map {ts ts' : List Token} (h : ts.map (tokMap d0) = ts'.map (tokMap d0)) : TokSim ts ts' := by
  have := congrArg (List.map (fun t : Token => (t.value, t.type))) h
  simpa [TokSim, List.map_map, Function.comp_def, tokMap] using this

theorem TokSim.refl (ts : List Token) : TokSim ts ts := rfl
theorem TokSim.symm {a b : List Token} (h : TokSim a b) : TokSim b a := Eq.symm h
theorem TokSim.trans {a b c : List Token} (h1 : TokSim a b) (h2 : TokSim b c) : TokSim a c := Eq.trans h1 h2

theorem TokSim.cons {t t' : Token} {a b : List Token} (hv : t.value = t'.value) (ht : t.type = t'.type)
    (h : TokSim a b) : TokSim (t :: a) (t' :: b) := by
  simp only [TokSim, List.map_cons, List.cons.injEq, Prod.mk.injEq] at h ⊢
  exact ⟨⟨hv, ht⟩, h⟩

theorem TokSim.append {a a' b b' : List Token} (h1 : TokSim a a') (h2 : TokSim b b') :
    TokSim (a ++ b) (a' ++ b') := by
  simp only [TokSim, List.map_append] at *
  rw [h1, h2]

/-! ### canonical images -/

def ctx0 (c : Ctx) : Ctx := ⟨default, c.validRe⟩
def st0 (s : St) : St := ⟨default, s.toks.map (tokMap d0)⟩

theorem crel0 (c : Ctx) : CRel d0 c (ctx0 c) := ⟨rfl, rfl⟩
theorem srel0 (s : St) : SRel d0 s (st0 s) := ⟨rfl, rfl⟩

theorem ctx0_congr {c c' : Ctx} (h : c'.validRe = c.validRe) : ctx0 c' = ctx0 c := by
  simp [ctx0, h]

theorem st0_congr {s s' : St} (h : TokSim s.toks s'.toks) : st0 s = st0 s' := by
  simp [st0, tokSim_map h]

theorem mapPos_congr {n n' : Node} (h : NodeEq n n') : mapPos d0 n = mapPos d0 n' := by
  unfold NodeEq at h
  rwa [erase_eq_mapPos, erase_eq_mapPos] at h

theorem mapPosL_congr {l l' : List Node} (h : C02P.eraseL l = C02P.eraseL l') : mapPosL d0 l = mapPosL d0 l' := by
  rwa [eraseL_eq_mapPosL, eraseL_eq_mapPosL] at h

/-! ### from a common image to `SimOut` -/

theorem simOut_of_common_le {α : Type} {ra0 : α → α → Prop} {ra : α → α → Prop} {n m k : Nat}
    {r : Rle α n} {r' : Rle α m} {r0 : Rle α k}
    (h1 : ERel d0 (OLe d0 ra0) r r0) (h2 : ERel d0 (OLe d0 ra0) r' r0)
    (hra : ∀ a a' a0, ra0 a a0 → ra0 a' a0 → ra a a') : SimOut ra (plainLe r) (plainLe r') := by
  cases r with
  | error e =>
    cases r0 with
    | ok o0 => exact h1.elim
    | error e0 =>
      cases r' with
      | ok o' => exact h2.elim
      | error e' =>
        have a := h1.1; have b := h2.1
        show e.val.msg = e'.val.msg
        rw [← a, ← b]
  | ok o =>
    cases r0 with
    | error e0 => exact h1.elim
    | ok o0 =>
      cases r' with
      | error e' => exact h2.elim
      | ok o' =>
        obtain ⟨a1, s1⟩ := h1
        obtain ⟨a2, s2⟩ := h2
        refine ⟨hra _ _ _ a1 a2, tokSim_of_map ?_⟩
        rw [← s1.toks, ← s2.toks]

theorem simOut_of_common_lt {α : Type} {ra0 : α → α → Prop} {ra : α → α → Prop} {n m k : Nat}
    {r : R α n} {r' : R α m} {r0 : R α k}
    (h1 : ERel d0 (OLt d0 ra0) r r0) (h2 : ERel d0 (OLt d0 ra0) r' r0)
    (hra : ∀ a a' a0, ra0 a a0 → ra0 a' a0 → ra a a') : SimOut ra (plain r) (plain r') := by
  cases r with
  | error e =>
    cases r0 with
    | ok o0 => exact h1.elim
    | error e0 =>
      cases r' with
      | ok o' => exact h2.elim
      | error e' =>
        have a := h1.1; have b := h2.1
        show e.val.msg = e'.val.msg
        rw [← a, ← b]
  | ok o =>
    cases r0 with
    | error e0 => exact h1.elim
    | ok o0 =>
      cases r' with
      | error e' => exact h2.elim
      | ok o' =>
        obtain ⟨a1, s1⟩ := h1
        obtain ⟨a2, s2⟩ := h2
        refine ⟨hra _ _ _ a1 a2, tokSim_of_map ?_⟩
        rw [← s1.toks, ← s2.toks]

theorem nodeEq_of_NR {a a' a0 : Node} (h1 : NR d0 a a0) (h2 : NR d0 a' a0) : NodeEq a a' := by
  unfold NodeEq; rw [erase_eq_mapPos, erase_eq_mapPos, ← h1, ← h2]

theorem argsEq_of_XLR {a a' a0 : List (Option String) × List Node} (h1 : XLR d0 a a0) (h2 : XLR d0 a' a0) :
    ArgsEq a a' := by
  have e : (a.1, mapPosL d0 a.2) = (a'.1, mapPosL d0 a'.2) := h1.symm.trans h2
  simp only [Prod.mk.injEq] at e
  exact ⟨e.1, by rw [eraseL_eq_mapPosL, eraseL_eq_mapPosL, e.2]⟩

/-! ### the productions used by the call sugar, up to positions -/

section
variable {c c' : Ctx} {st st' : St}

theorem postfixLoop_sim (ac ad : Bool) {node node' : Node} (hv : c'.validRe = c.validRe)
    (ht : TokSim st.toks st'.toks) (hn : NodeEq node node') :
    SimOut NodeEq (plainLe (postfixLoop c ac ad st node)) (plainLe (postfixLoop c' ac ad st' node')) := by
  have h1 := (hyp_all d0 _).postfixLoop ac ad (crel0 c) (srel0 st) (rfl : NR d0 node (mapPos d0 node))
    (Nat.lt_succ_self _)
  have h2 := (hyp_all d0 _).postfixLoop ac ad (crel0 c') (srel0 st') (rfl : NR d0 node' (mapPos d0 node'))
    (Nat.lt_succ_self _)
  rw [ctx0_congr hv, ← st0_congr ht, ← mapPos_congr hn] at h2
  exact simOut_of_common_le h1 h2 (fun _ _ _ => nodeEq_of_NR)

theorem argsLoop_sim (names : List (Option String)) {args args' : List Node} (hv : c'.validRe = c.validRe)
    (ht : TokSim st.toks st'.toks) (ha : C02P.eraseL args = C02P.eraseL args') :
    SimOut ArgsEq (plain (argsLoop c st names args)) (plain (argsLoop c' st' names args')) := by
  have h1 := (hyp_all d0 _).argsLoop names (crel0 c) (srel0 st) (rfl : LR d0 args (mapPosL d0 args))
    (Nat.lt_succ_self _)
  have h2 := (hyp_all d0 _).argsLoop names (crel0 c') (srel0 st') (rfl : LR d0 args' (mapPosL d0 args'))
    (Nat.lt_succ_self _)
  rw [ctx0_congr hv, ← st0_congr ht, ← mapPosL_congr ha] at h2
  exact simOut_of_common_lt h1 h2 (fun _ _ _ => argsEq_of_XLR)

theorem pExpression_sim (hv : c'.validRe = c.validRe) (ht : TokSim st.toks st'.toks) :
    SimOut NodeEq (plain (pExpression c st)) (plain (pExpression c' st')) := by
  have h1 := (hyp_all d0 _).pExpression (crel0 c) (srel0 st) (Nat.lt_succ_self _)
  have h2 := (hyp_all d0 _).pExpression (crel0 c') (srel0 st') (Nat.lt_succ_self _)
  rw [ctx0_congr hv, ← st0_congr ht] at h2
  exact simOut_of_common_lt h1 h2 (fun _ _ _ => nodeEq_of_NR)

theorem invokeBody_sim {node node' : Node} (hv : c'.validRe = c.validRe)
    (ht : TokSim st.toks st'.toks) (hn : NodeEq node node') :
    SimOut NodeEq (plain (invokeBody c node st)) (plain (invokeBody c' node' st')) := by
  have h1 := (hyp_all d0 _).invokeBody (crel0 c) (srel0 st) (rfl : NR d0 node (mapPos d0 node))
    (Nat.lt_succ_self _)
  have h2 := (hyp_all d0 _).invokeBody (crel0 c') (srel0 st') (rfl : NR d0 node' (mapPos d0 node'))
    (Nat.lt_succ_self _)
  rw [ctx0_congr hv, ← st0_congr ht, ← mapPos_congr hn] at h2
  exact simOut_of_common_lt h1 h2 (fun _ _ _ => nodeEq_of_NR)

end

/-! ### `SimOut` is reflexive / symmetric / transitive for equivalence-like `ra` -/

theorem SimOut.symm {α : Type} {ra : α → α → Prop} (hs : ∀ a b, ra a b → ra b a)
    {x y : Except PErr (α × St)} (h : SimOut ra x y) : SimOut ra y x := by
  cases x with
  | error e => cases y with
    | error e' => exact Eq.symm h
    | ok a' => exact h.elim
  | ok a => cases y with
    | error e' => obtain ⟨a, s⟩ := a; exact h.elim
    | ok a' => obtain ⟨a, s⟩ := a; obtain ⟨a', s'⟩ := a'; exact ⟨hs _ _ h.1, TokSim.symm h.2⟩

theorem SimOut.trans {α : Type} {ra : α → α → Prop} (htr : ∀ a b c, ra a b → ra b c → ra a c)
    {x y z : Except PErr (α × St)} (h1 : SimOut ra x y) (h2 : SimOut ra y z) : SimOut ra x z := by
  cases x with
  | error e => cases y with
    | error e' => cases z with
      | error e'' => exact Eq.trans h1 h2
      | ok a'' => exact h2.elim
    | ok a' => exact h1.elim
  | ok a =>
    obtain ⟨a, s⟩ := a
    cases y with
    | error e' => exact h1.elim
    | ok a' =>
      obtain ⟨a', s'⟩ := a'
      cases z with
      | error e'' => exact h2.elim
      | ok a'' => obtain ⟨a'', s''⟩ := a''; exact ⟨htr _ _ _ h1.1 h2.1, TokSim.trans h1.2 h2.2⟩

theorem NodeEq.refl (n : Node) : NodeEq n n := rfl
theorem NodeEq.symm {a b : Node} (h : NodeEq a b) : NodeEq b a := Eq.symm h
theorem NodeEq.trans {a b c : Node} (h1 : NodeEq a b) (h2 : NodeEq b c) : NodeEq a c := Eq.trans h1 h2

end Ckl.C03S
