/-
  C12Sim — observations: everything the evaluator can ask about a value gives the same answer in
  two `PermSt`-related states (deep equality, reification, order, sorted enumeration, type name,
  rendering, membership, map lookup, member lookup along `_proto_`).
-/
import CklVerif.Lemmas.C12SimDefs

set_option linter.unusedSimpArgs false
set_option linter.unusedVariables false

namespace Ckl.C12S
open Ckl Ckl.C12

/-! ### deep equality -/

theorem cellEq_ocellR (f : RVal → RVal → Bool) {c c' d d' : Option Cell} (hc : OCellR c c') (hd : OCellR d d') :
    cellEq f c' d' = cellEq f c d := by
  have h1 : cellEq f c' d' = cellEq f c d' := by
    cases c with
    | none => cases c' with
      | none => rfl
      | some _ => exact absurd hc id
    | some x => cases c' with
      | none => exact absurd hc id
      | some x' =>
        rcases hc with rfl | h
        · rfl
        · exact cellEq_perm_left f h.cellPerm d'
  have h2 : cellEq f c d' = cellEq f c d := by
    cases d with
    | none => cases d' with
      | none => rfl
      | some _ => exact absurd hd id
    | some x => cases d' with
      | none => exact absurd hd id
      | some x' =>
        rcases hd with rfl | h
        · rfl
        · exact cellEq_perm_right f h.cellPerm c
  rw [h1, h2]

theorem rveqF_heapR {h h' : Array Cell} (H : HeapR h h') :
    ∀ (n : Nat) (u v : RVal), rveqF h' n u v = rveqF h n u v := by
  intro n
  induction n with
  | zero => intro u v; cases u <;> cases v <;> simp [rveqF]
  | succ n ih =>
    intro u v
    cases u <;> cases v <;> try (simp [rveqF]; done)
    rename_i x y
    rw [rveqF_ref_succ, rveqF_ref_succ]
    have : rveqF h' n = rveqF h n := by funext u v; exact ih u v
    rw [this, cellEq_ocellR _ (H.cells x) (H.cells y)]

theorem PermSt.rveq {s t : State} (h : PermSt s t) (u v : RVal) : rveq t u v = rveq s u v := by
  unfold Ckl.rveq
  rw [← h.heap.size, rveqF_heapR h.heap]

theorem PermSt.rveq_fun {s t : State} (h : PermSt s t) : Ckl.rveq t = Ckl.rveq s := by
  funext u v; exact h.rveq u v

theorem PermSt.memR {s t : State} (h : PermSt s t) (x : RVal) (zs : List RVal) : memR t x zs = memR s x zs := by
  unfold Ckl.memR; rw [h.rveq_fun]

theorem PermSt.setAdd {s t : State} (h : PermSt s t) (x : RVal) (zs : List RVal) :
    setAdd t x zs = setAdd s x zs := by
  unfold Ckl.setAdd; rw [h.memR]

theorem PermSt.mapGet {s t : State} (h : PermSt s t) (k : RVal) (kvs : List (RVal × RVal)) :
    mapGet t k kvs = mapGet s k kvs := by
  induction kvs with
  | nil => rfl
  | cons kv kvs ih => obtain ⟨k', v⟩ := kv; simp only [Ckl.mapGet, h.rveq, ih]

theorem PermSt.mapPut {s t : State} (h : PermSt s t) (k v : RVal) (kvs : List (RVal × RVal)) :
    mapPut t k v kvs = mapPut s k v kvs := by
  induction kvs with
  | nil => rfl
  | cons kv kvs ih => obtain ⟨k', v'⟩ := kv; simp only [Ckl.mapPut, h.rveq, ih]

theorem PermSt.mapDel {s t : State} (h : PermSt s t) (k : RVal) (kvs : List (RVal × RVal)) :
    mapDel t k kvs = mapDel s k kvs := by
  induction kvs with
  | nil => rfl
  | cons kv kvs ih => obtain ⟨k', v'⟩ := kv; simp only [Ckl.mapDel, h.rveq, ih]

/-! ### reification, order, sorted enumeration -/

theorem cellVal_ocellR {h : Array Cell} (n : Nat) {c c' : Option Cell} (hc : OCellR c c') :
    cellVal decRepr (reifyF decRepr h n) c' = cellVal decRepr (reifyF decRepr h n) c := by
  rcases hc.cases with rfl | ⟨xs, ys, rfl, rfl, hp, ht⟩ | ⟨xs, ys, rfl, rfl, hp, ht⟩
  · rfl
  · exact cellVal_set_perm decRepr h hp (ht.reifyF h 0) n
  · exact cellVal_map_perm decRepr h hp (ht.reifyF h 0) n

theorem reifyF_heapR {h h' : Array Cell} (H : HeapR h h') :
    ∀ (n : Nat) (v : RVal), reifyF decRepr h' n v = reifyF decRepr h n v := by
  intro n
  induction n with
  | zero => intro v; cases v <;> simp [reifyF]
  | succ n ih =>
    intro v
    cases v with
    | ref b =>
      rw [reifyF_ref_succ', reifyF_ref_succ', funext ih]
      exact cellVal_ocellR n (H.cells b)
    | _ => simp [reifyF]

theorem PermSt.reify {s t : State} (h : PermSt s t) (v : RVal) : reify t v = reify s v := by
  unfold Ckl.reify
  rw [← h.heap.size, reifyF_heapR h.heap]

theorem PermSt.reify_fun {s t : State} (h : PermSt s t) : Ckl.reify t = Ckl.reify s := funext h.reify

theorem PermSt.rvlt {s t : State} (h : PermSt s t) (u v : RVal) : rvlt t u v = rvlt s u v := by
  unfold Ckl.rvlt; rw [h.reify, h.reify]

/-- the sorted enumeration of ANY element list is the same in both states -/
theorem PermSt.sortedR {s t : State} (h : PermSt s t) (zs : List RVal) : sortedR t zs = sortedR s zs := by
  rw [sortedR_eq, sortedR_eq, h.reify_fun]

theorem PermSt.sortedEntriesR {s t : State} (h : PermSt s t) (kvs : List (RVal × RVal)) :
    sortedEntriesR t kvs = sortedEntriesR s kvs := by
  rw [sortedEntriesR_eq, sortedEntriesR_eq]
  congr 1
  funext kv
  exact h.reify kv.1

/-- … and twin cells enumerate to the same list -/
theorem PermSt.sortedR_tw {s t : State} (h : PermSt s t) {xs ys : List RVal} (hp : xs.Perm ys)
    (ht : AtomTotal xs) : Ckl.sortedR t ys = Ckl.sortedR s xs := by
  rw [h.sortedR, ← sortedR_perm (ht.totalOn s) hp]

theorem PermSt.sortedEntriesR_tw {s t : State} (h : PermSt s t) {xs ys : List (RVal × RVal)} (hp : xs.Perm ys)
    (ht : AtomTotalK xs) : Ckl.sortedEntriesR t ys = Ckl.sortedEntriesR s xs := by
  rw [h.sortedEntriesR, ← sortedEntriesR_perm (ht.totalOnKeys s) hp]

theorem PermSt.sortedR_keys_tw {s t : State} (h : PermSt s t) {xs ys : List (RVal × RVal)} (hp : xs.Perm ys)
    (ht : AtomTotalK xs) : Ckl.sortedR t (ys.map (·.1)) = Ckl.sortedR s (xs.map (·.1)) := by
  rw [h.sortedR]
  symm
  apply sortedR_perm _ (hp.map _)
  exact TotalKey.map (g := fun kv : RVal × RVal => kv.1) (ht.totalOnKeys s)

/-! ### type names -/

theorem PermSt.typeName {s t : State} (h : PermSt s t) (v : RVal) : typeName t v = typeName s v := by
  cases v <;> try rfl
  rename_i b
  simp only [Ckl.typeName]
  rcases (h.cell b).cases with e | ⟨xs, ys, e1, e2, -, -⟩ | ⟨xs, ys, e1, e2, -, -⟩
  · rw [e]
  · rw [e1, e2]
  · rw [e1, e2]

/-! ### rendering -/

theorem rrenderF_permSt {s t : State} (h : PermSt s t) :
    ∀ (n : Nat) (v : RVal), rrenderF t n v = rrenderF s n v := by
  have hclo : ∀ b, (match t.cell b with
      | some (.closure _ _ _ _ name) => some ("<#" ++ name ++ ">").toList
      | _ => (none : Option (List Char))) =
      (match s.cell b with
      | some (.closure _ _ _ _ name) => some ("<#" ++ name ++ ">").toList
      | _ => none) := by
    intro b
    rcases (h.cell b).cases with e | ⟨xs, ys, e1, e2, -, -⟩ | ⟨xs, ys, e1, e2, -, -⟩
    · rw [e]
    · rw [e1, e2]
    · rw [e1, e2]
  intro n
  induction n with
  | zero =>
    intro v
    cases v with
    | closure b => simp only [rrenderF]; exact hclo b
    | _ => simp [rrenderF, h.reify]
  | succ n ih =>
    intro v
    cases v with
    | closure b => simp only [rrenderF]; exact hclo b
    | ret v p => simp only [rrenderF, ih]
    | ref b =>
      simp only [rrenderF]
      rw [h.reify, funext ih]
      rcases (h.cell b).cases with e | ⟨xs, ys, e1, e2, -, -⟩ | ⟨xs, ys, e1, e2, -, -⟩
      · rw [e]
      · rw [e1, e2]
      · rw [e1, e2]
    | _ => simp [rrenderF, h.reify]

/-- **rendering** (`string(x)`, `print`) is the same in both states -/
theorem PermSt.rrender {s t : State} (h : PermSt s t) (v : RVal) : rrender t v = rrender s v := by
  unfold Ckl.rrender
  rw [← h.heap.size, rrenderF_permSt h]

/-! ### equality with an atomic value; lookup in a twin map -/

/-- comparing anything with an atomic value: the comparison of the data values -/
theorem rveq_atom (s : State) (k : RVal) {b : RVal} {vb : Val} (hb : atomVal b = some vb) :
    rveq s k b = match atomVal k with | some vk => veq vk vb | none => false := by
  unfold Ckl.rveq
  cases k <;> cases b <;> simp [atomVal, reifyF] at hb ⊢ <;> subst hb <;> simp [rveqF, veq]

/-- at most one key of a map with atomic, pairwise different keys equals `k` -/
theorem atomTotalK_unique (s : State) (k : RVal) {kvs : List (RVal × RVal)} (ht : AtomTotalK kvs) :
    kvs.Pairwise (fun a b => ¬ (rveq s k a.1 = true ∧ rveq s k b.1 = true)) := by
  refine ht.distinct.imp_of_mem ?_
  intro a b ha hb hab ⟨h1, h2⟩
  obtain ⟨va, hva⟩ := ht.keyed a ha
  obtain ⟨vb, hvb⟩ := ht.keyed b hb
  rw [rveq_atom s k hva] at h1
  rw [rveq_atom s k hvb] at h2
  cases hk : atomVal k with
  | none => rw [hk] at h1; cases h1
  | some vk =>
    rw [hk] at h1 h2
    simp only at h1 h2
    have : veq va vb = true := veq_trans' va vk vb (by rw [veq_symm']; exact h1) h2
    rw [hab va vb hva hvb] at this
    cases this

theorem mapGet_perm_unique (s : State) (k : RVal) {xs ys : List (RVal × RVal)} (hp : xs.Perm ys)
    (hu : xs.Pairwise (fun a b => ¬ (rveq s k a.1 = true ∧ rveq s k b.1 = true))) :
    mapGet s k xs = mapGet s k ys := by
  induction hp with
  | nil => rfl
  | cons x _ ih =>
    obtain ⟨k', v⟩ := x
    simp only [Ckl.mapGet]
    rw [ih (List.Pairwise.of_cons hu)]
  | swap x y l =>
    obtain ⟨kx, vx⟩ := x
    obtain ⟨ky, vy⟩ := y
    simp only [Ckl.mapGet]
    cases h1 : rveq s k kx <;> cases h2 : rveq s k ky <;> simp
    have := (List.pairwise_cons.mp hu).1 (kx, vx) (by simp)
    exact absurd ⟨h2, h1⟩ this
  | trans h1 h2 ih1 ih2 =>
    rw [ih1 hu]
    apply ih2
    exact (h1.pairwise_iff (fun {a b} hab hc => hab ⟨hc.2, hc.1⟩)).mp hu

/-- **mapGet_tw**: lookup by key in twin maps gives the same value -/
theorem PermSt.mapGet_tw {s t : State} (h : PermSt s t) (k : RVal) {xs ys : List (RVal × RVal)}
    (hp : xs.Perm ys) (ht : AtomTotalK xs) : Ckl.mapGet t k ys = Ckl.mapGet s k xs := by
  rw [h.mapGet, ← mapGet_perm_unique s k hp (atomTotalK_unique s k ht)]

theorem PermSt.memR_tw {s t : State} (h : PermSt s t) (x : RVal) {xs ys : List RVal} (hp : xs.Perm ys) :
    Ckl.memR t x ys = Ckl.memR s x xs := by
  rw [h.memR, ← memR_perm s x hp]

/-! ### objects: member lookup along `_proto_` -/

theorem findOwnerF_permSt {s t : State} (h : PermSt s t) :
    ∀ (n : Nat) (v : RVal) (key : String) (seen : List Nat),
      findOwnerF t n v key seen = findOwnerF s n v key seen := by
  intro n
  induction n with
  | zero => intros; rfl
  | succ n ih =>
    intro v key seen
    cases v <;> try rfl
    rename_i a
    simp only [findOwnerF]
    rcases (h.cell a).cases with e | ⟨xs, ys, e1, e2, -, -⟩ | ⟨xs, ys, e1, e2, -, -⟩
    · rw [e]; simp only [ih]
    · rw [e1, e2]
    · rw [e1, e2]

theorem PermSt.findOwner {s t : State} (h : PermSt s t) (v : RVal) (key : String) :
    findOwner t v key = findOwner s v key := by
  unfold Ckl.findOwner
  rw [← h.heap.size, findOwnerF_permSt h]

theorem PermSt.isModuleObj {s t : State} (h : PermSt s t) (v : RVal) : isModuleObj t v = isModuleObj s v := by
  cases v <;> try rfl
  rename_i a
  simp only [Ckl.isModuleObj]
  rcases (h.cell a).cases with e | ⟨xs, ys, e1, e2, -, -⟩ | ⟨xs, ys, e1, e2, -, -⟩
  · rw [e]
  · rw [e1, e2]
  · rw [e1, e2]

theorem PermSt.fnName {s t : State} (h : PermSt s t) (v : RVal) : fnName t v = fnName s v := by
  cases v <;> try rfl
  rename_i a
  simp only [Ckl.fnName]
  rcases (h.cell a).cases with e | ⟨xs, ys, e1, e2, -, -⟩ | ⟨xs, ys, e1, e2, -, -⟩
  · rw [e]
  · rw [e1, e2]
  · rw [e1, e2]

theorem PermSt.fnParams {s t : State} (h : PermSt s t) (v : RVal) : fnParams t v = fnParams s v := by
  cases v <;> try rfl
  rename_i a
  simp only [Ckl.fnParams]
  rcases (h.cell a).cases with e | ⟨xs, ys, e1, e2, -, -⟩ | ⟨xs, ys, e1, e2, -, -⟩
  · rw [e]
  · rw [e1, e2]
  · rw [e1, e2]

theorem PermSt.div0Value {s t : State} (h : PermSt s t) (e : EnvId) : div0Value t e = div0Value s e := by
  simp only [Ckl.div0Value, h.lookup]

/-! ### mutation keeps twins twins: removal, replacement of a value, growth by a compatible key -/

theorem TotalKey.sublist {α} {key : α → Option Val} {xs ys : List α} (h : TotalKey key xs)
    (hs : ys.Sublist xs) : TotalKey key ys where
  keyed x hx := h.keyed x (hs.subset hx)
  kind := h.kind.sublist hs
  distinct := h.distinct.sublist hs

/-- removal (`remove`, `set - x`): filtering twins gives twins -/
theorem cellTw_filter_set {xs ys : List RVal} (hp : xs.Perm ys) (ht : AtomTotal xs) (p : RVal → Bool) :
    CellTw (.set (xs.filter p)) (.set (ys.filter p)) :=
  ⟨hp.filter p, TotalKey.sublist ht List.filter_sublist⟩

theorem mapDel_sublist (s : State) (k : RVal) (kvs : List (RVal × RVal)) : (mapDel s k kvs).Sublist kvs := by
  induction kvs with
  | nil => exact List.Sublist.slnil
  | cons kv kvs ih =>
    obtain ⟨k', v⟩ := kv
    simp only [Ckl.mapDel]
    split
    · exact List.sublist_cons_self _ _
    · exact ih.cons_cons _

/-- `mapDel` removes the unique entry whose key equals `k` -/
theorem mapDel_eq_filter (s : State) (k : RVal) {kvs : List (RVal × RVal)}
    (hu : kvs.Pairwise (fun a b => ¬ (rveq s k a.1 = true ∧ rveq s k b.1 = true))) :
    mapDel s k kvs = kvs.filter (fun kv => !rveq s k kv.1) := by
  induction kvs with
  | nil => rfl
  | cons kv kvs ih =>
    obtain ⟨k', v⟩ := kv
    simp only [Ckl.mapDel, List.filter_cons]
    cases hk : rveq s k k' with
    | true =>
      simp only [if_true, Bool.not_true, Bool.false_eq_true, if_false]
      symm
      rw [List.filter_eq_self]
      intro b hb
      have := (List.pairwise_cons.mp hu).1 b hb
      simp only [hk, true_and] at this
      simpa using this
    | false =>
      simp only [Bool.false_eq_true, if_false, Bool.not_false, if_true]
      rw [ih (List.Pairwise.of_cons hu)]

/-- **mapDel_tw**: deleting a key from twin maps gives twin maps -/
theorem cellTw_mapDel (s : State) (k : RVal) {xs ys : List (RVal × RVal)} (hp : xs.Perm ys)
    (ht : AtomTotalK xs) : CellTw (.map (mapDel s k xs)) (.map (mapDel s k ys)) := by
  have hu := atomTotalK_unique s k ht
  have hu' := atomTotalK_unique s k (ht.perm hp)
  rw [mapDel_eq_filter s k hu, mapDel_eq_filter s k hu']
  exact ⟨hp.filter _, TotalKey.sublist ht List.filter_sublist⟩

/-- **setAdd_tw**: adding an element to twin sets gives twin sets, PROVIDED the grown key list is
    still atomic and totally ordered (adding a date to a set of numbers is not: `totalOn_necessary`) -/
theorem cellTw_setAdd (s : State) (x : RVal) {xs ys : List RVal} (hp : xs.Perm ys)
    (hg : AtomTotal (setAdd s x xs)) : CellTw (.set (setAdd s x xs)) (.set (setAdd s x ys)) := by
  refine ⟨?_, hg⟩
  unfold Ckl.setAdd
  rw [← memR_perm s x hp]
  split
  · exact hp
  · exact hp.append_right _

end Ckl.C12S
