/-
  C09 (evaluator level): the simultaneous induction on the fuel over all functions of the
  evaluator, for two loaders that agree on everything except the interpretation of natives.
-/
import CklVerif.Lemmas.C09EvalNatives4
namespace Ckl.C09E
open Ckl

/-- the two loaders agree on every field except `nativeSem` -/
structure LdAgree (ld ld' : Loader) : Prop where
  bundled : ld'.bundled = ld.bundled
  user : ld'.user = ld.user
  effectful : ld'.effectful = ld.effectful
  knownNatives : ld'.knownNatives = ld.knownNatives
  baseNames : ld'.baseNames = ld.baseNames
  bundledNames : ld'.bundledNames = ld.bundledNames
  nativeArgs : ld'.nativeArgs = ld.nativeArgs

theorem LdAgree.refl (ld : Loader) : LdAgree ld ld := ⟨rfl, rfl, rfl, rfl, rfl, rfl, rfl⟩

theorem LdAgree.find {ld ld' : Loader} (h : LdAgree ld ld') (f : String) : ld'.find f = ld.find f := by
  unfold Loader.find; rw [h.bundled, h.user]

section
variable (E : List String) (b : Bool) (ld ld' : Loader)

/-- the statement proved by induction on `fuel`, one field per function of the mutual block -/
structure AllP (fuel : Nat) : Prop where
  eval : ∀ env n, PresA E b (eval ld fuel env n) (eval ld' fuel env n)
  evalAnd : ∀ env es pos, PresA E b (evalAnd ld fuel env es pos) (evalAnd ld' fuel env es pos)
  evalOr : ∀ env es pos, PresA E b (evalOr ld fuel env es pos) (evalOr ld' fuel env es pos)
  evalIf : ∀ env cs xs els pos, PresA E b (evalIf ld fuel env cs xs els pos) (evalIf ld' fuel env cs xs els pos)
  evalSeq : ∀ env ns, PresA E b (evalSeq ld fuel env ns) (evalSeq ld' fuel env ns)
  evalItems : ∀ env ns pos, PresA E b (evalItems ld fuel env ns pos) (evalItems ld' fuel env ns pos)
  evalPairs : ∀ env ks vs, PresA E b (evalPairs ld fuel env ks vs) (evalPairs ld' fuel env ks vs)
  evalBody : ∀ env ns last, Cl.cl E last →
    PresA E b (evalBody ld fuel env ns last) (evalBody ld' fuel env ns last)
  evalFinally : ∀ env ns, PresA E b (evalFinally ld fuel env ns) (evalFinally ld' fuel env ns)
  tryHandlers : ∀ env cs hs v msg p t, Cl.cl E v →
    PresA E b (tryHandlers ld fuel env cs hs v msg p t) (tryHandlers ld' fuel env cs hs v msg p t)
  invoke : ∀ fn pre names args env pos, Cl.cl E fn → Cl.cl E pre →
    PresA E b (invoke ld fuel fn pre names args env pos) (invoke ld' fuel fn pre names args env pos)
  evalArgs : ∀ env names args pos,
    PresA E b (evalArgs ld fuel env names args pos) (evalArgs ld' fuel env names args pos)
  callFn : ∀ fn bound env pos, Cl.cl E fn → Cl.cl E bound →
    PresA E b (callFn ld fuel fn bound env pos) (callFn ld' fuel fn bound env pos)
  bindParams : ∀ lenv ps ds bound pos, Cl.cl E bound →
    PresA E b (bindParams ld fuel lenv ps ds bound pos) (bindParams ld' fuel lenv ps ds bound pos)
  evalFor : ∀ env ids e body what pos,
    PresA E b (evalFor ld fuel env ids e body what pos) (evalFor ld' fuel env ids e body what pos)
  forItems : ∀ env ids xs body r pos, Cl.cl E xs → Cl.cl E r →
    PresA E b (forItems ld fuel env ids xs body r pos) (forItems ld' fuel env ids xs body r pos)
  forListLive : ∀ env ids a i body r pos, Cl.cl E r →
    PresA E b (forListLive ld fuel env ids a i body r pos) (forListLive ld' fuel env ids a i body r pos)
  forString : ∀ env x cs body r, Cl.cl E r →
    PresA E b (forString ld fuel env x cs body r) (forString ld' fuel env x cs body r)
  whileLoop : ∀ env c body pos, PresA E b (whileLoop ld fuel env c body pos) (whileLoop ld' fuel env c body pos)
  comprStep : ∀ lenv kind ve ke cond pos,
    PresA E b (comprStep ld fuel lenv kind ve ke cond pos) (comprStep ld' fuel lenv kind ve ke cond pos)
  comprLoop : ∀ lenv kind ve ke cond pos l acc, Cl.cl E l → Cl.cl E acc →
    PresA E b (comprLoop ld fuel lenv kind ve ke cond pos l acc) (comprLoop ld' fuel lenv kind ve ke cond pos l acc)
  comprProduct : ∀ lenv kind ve ke cond pos x1 vs x2 ws acc, Cl.cl E vs → Cl.cl E ws → Cl.cl E acc →
    PresA E b (comprProduct ld fuel lenv kind ve ke cond pos x1 vs x2 ws acc)
      (comprProduct ld' fuel lenv kind ve ke cond pos x1 vs x2 ws acc)
  comprParallel : ∀ lenv kind ve ke cond pos x1 vs x2 ws acc, Cl.cl E vs → Cl.cl E ws → Cl.cl E acc →
    PresA E b (comprParallel ld fuel lenv kind ve ke cond pos x1 vs x2 ws acc)
      (comprParallel ld' fuel lenv kind ve ke cond pos x1 vs x2 ws acc)
  nativeSorted : ∀ bound env pos, Cl.cl E bound →
    PresA E b (nativeSorted ld fuel bound env pos) (nativeSorted ld' fuel bound env pos)
  sortedOuter : ∀ cmp key senv pos arr i, Cl.cl E cmp → Cl.cl E key → Cl.cl E arr →
    PresA E b (sortedOuter ld fuel cmp key senv pos arr i) (sortedOuter ld' fuel cmp key senv pos arr i)
  sortedInner : ∀ cmp key senv pos arr v j, Cl.cl E cmp → Cl.cl E key → Cl.cl E arr → Cl.cl E v →
    PresA E b (sortedInner ld fuel cmp key senv pos arr v j) (sortedInner ld' fuel cmp key senv pos arr v j)
  call1 : ∀ f x env pos, Cl.cl E f → Cl.cl E x →
    PresA E b (call1 ld fuel f x env pos) (call1 ld' fuel f x env pos)
  call2 : ∀ f x y env pos, Cl.cl E f → Cl.cl E x → Cl.cl E y →
    PresA E b (call2 ld fuel f x y env pos) (call2 ld' fuel f x y env pos)
  evalRequire : ∀ env spec name unq syms pos,
    PresA E b (evalRequire ld fuel env spec name unq syms pos) (evalRequire ld' fuel env spec name unq syms pos)
  loadModule : ∀ env ident file pos,
    PresA E b (loadModule ld fuel env ident file pos) (loadModule ld' fuel env ident file pos)

theorem allP_zero : AllP E b ld ld' 0 := by
  constructor
  all_goals (intros; simp only [eval, evalAnd, evalOr, evalIf, evalSeq, evalItems, evalPairs, evalBody, evalFinally,
        tryHandlers, invoke, evalArgs, callFn, bindParams, evalFor, forItems, forListLive, forString,
        whileLoop, comprStep, comprLoop, comprProduct, comprParallel, nativeSorted, sortedOuter,
        sortedInner, call1, call2, evalRequire, loadModule]; exact PresA.failM _)

end

variable {E : List String} {b : Bool} {ld ld' : Loader} {fuel : Nat}

theorem step_evalAnd (ih : AllP E b ld ld' fuel) :
    ∀ env es pos, PresA E b (evalAnd ld (fuel+1) env es pos) (evalAnd ld' (fuel+1) env es pos) := by
  have ihEval := ih.eval; have ihAnd := ih.evalAnd
  intro env es pos
  cases es <;> simp only [Ckl.evalAnd] <;> pa_auto


theorem step_evalOr (ih : AllP E b ld ld' fuel) :
    ∀ env es pos, PresA E b (evalOr ld (fuel+1) env es pos) (evalOr ld' (fuel+1) env es pos) := by
  have ihEval := ih.eval; have ihOr := ih.evalOr
  intro env es pos
  cases es <;> simp only [Ckl.evalOr] <;> pa_auto

theorem step_evalIf (ih : AllP E b ld ld' fuel) : ∀ env cs xs els pos,
    PresA E b (evalIf ld (fuel+1) env cs xs els pos) (evalIf ld' (fuel+1) env cs xs els pos) := by
  have ihEval := ih.eval; have ihIf := ih.evalIf
  intro env cs xs els pos
  cases cs <;> cases xs <;> simp only [Ckl.evalIf] <;> pa_auto

theorem step_evalSeq (ih : AllP E b ld ld' fuel) :
    ∀ env ns, PresA E b (evalSeq ld (fuel+1) env ns) (evalSeq ld' (fuel+1) env ns) := by
  have ihEval := ih.eval; have ihSeq := ih.evalSeq
  intro env ns
  cases ns <;> simp only [Ckl.evalSeq] <;> pa_auto

theorem step_evalItems (ih : AllP E b ld ld' fuel) :
    ∀ env ns pos, PresA E b (evalItems ld (fuel+1) env ns pos) (evalItems ld' (fuel+1) env ns pos) := by
  have ihEval := ih.eval; have ihItems := ih.evalItems
  intro env ns pos
  cases ns with
  | nil => simp only [Ckl.evalItems]; pa_auto
  | cons n ns => cases n <;> simp only [Ckl.evalItems] <;> pa_auto

theorem step_evalPairs (ih : AllP E b ld ld' fuel) :
    ∀ env ks vs, PresA E b (evalPairs ld (fuel+1) env ks vs) (evalPairs ld' (fuel+1) env ks vs) := by
  have ihEval := ih.eval; have ihPairs := ih.evalPairs
  intro env ks vs
  cases ks <;> cases vs <;> simp only [Ckl.evalPairs] <;> pa_auto

theorem step_evalBody (ih : AllP E b ld ld' fuel) : ∀ env ns last, Cl.cl E last →
    PresA E b (evalBody ld (fuel+1) env ns last) (evalBody ld' (fuel+1) env ns last) := by
  have ihEval := ih.eval; have ihBody := ih.evalBody
  intro env ns last hl
  cases ns <;> simp only [Ckl.evalBody] <;> pa_auto

theorem step_evalFinally (ih : AllP E b ld ld' fuel) :
    ∀ env ns, PresA E b (evalFinally ld (fuel+1) env ns) (evalFinally ld' (fuel+1) env ns) := by
  have ihEval := ih.eval; have ihFin := ih.evalFinally
  intro env ns
  cases ns <;> simp only [Ckl.evalFinally] <;> pa_auto

theorem PresA.rethrow {v : RVal} (hv : Cl.cl E v) (msg : String) (p : Pos) (t : List (String × Pos)) :
    PresA E b (fun s => (.err v msg p t s : Out RVal)) (fun s => .err v msg p t s) :=
  ⟨fun _ hs => ⟨rfl, hs, hv⟩⟩

theorem step_tryHandlers (ih : AllP E b ld ld' fuel) : ∀ env cs hs v msg p t, Cl.cl E v →
    PresA E b (tryHandlers ld (fuel+1) env cs hs v msg p t) (tryHandlers ld' (fuel+1) env cs hs v msg p t) := by
  have ihEval := ih.eval; have ihTry := ih.tryHandlers
  intro env cs hs v msg p t hv
  cases cs with
  | nil => simp only [Ckl.tryHandlers]; exact PresA.rethrow hv _ _ _
  | cons c cs =>
    cases hs with
    | nil => simp only [Ckl.tryHandlers]; exact PresA.rethrow hv _ _ _
    | cons h hs => cases c <;> simp only [Ckl.tryHandlers] <;> pa_auto

theorem step_evalArgs (ih : AllP E b ld ld' fuel) : ∀ env names args pos,
    PresA E b (evalArgs ld (fuel+1) env names args pos) (evalArgs ld' (fuel+1) env names args pos) := by
  have ihEval := ih.eval; have ihArgs := ih.evalArgs
  intro env names args pos
  cases names with
  | nil => simp only [Ckl.evalArgs]; pa_auto
  | cons n ns =>
    cases args with
    | nil => simp only [Ckl.evalArgs]; pa_auto
    | cons a as => cases a <;> simp only [Ckl.evalArgs] <;> pa_auto

theorem step_bindParams (ih : AllP E b ld ld' fuel) : ∀ lenv ps ds bound pos, Cl.cl E bound →
    PresA E b (bindParams ld (fuel+1) lenv ps ds bound pos) (bindParams ld' (fuel+1) lenv ps ds bound pos) := by
  have ihEval := ih.eval; have ihBP := ih.bindParams
  intro lenv ps ds bound pos hb
  cases ps with
  | nil => simp only [Ckl.bindParams]; pa_auto
  | cons p ps =>
    cases ds with
    | nil => simp only [Ckl.bindParams]; pa_auto
    | cons d ds =>
      by_cases hd : d = Node.absent
      · subst hd; simp only [Ckl.bindParams]; pa_auto
      · simp only [Ckl.bindParams]; pa_auto

theorem step_evalFor (ih : AllP E b ld ld' fuel) : ∀ env ids e body what pos,
    PresA E b (evalFor ld (fuel+1) env ids e body what pos) (evalFor ld' (fuel+1) env ids e body what pos) := by
  have ihEval := ih.eval; have ih1 := ih.forItems; have ih2 := ih.forListLive; have ih3 := ih.forString
  intro env ids e body what pos
  simp only [Ckl.evalFor]; pa_auto

theorem step_forItems (ih : AllP E b ld ld' fuel) : ∀ env ids xs body r pos, Cl.cl E xs → Cl.cl E r →
    PresA E b (forItems ld (fuel+1) env ids xs body r pos) (forItems ld' (fuel+1) env ids xs body r pos) := by
  have ihEval := ih.eval; have ih1 := ih.forItems
  intro env ids xs body r pos hx hr
  cases xs <;> simp only [Ckl.forItems] <;> pa_auto

theorem step_forListLive (ih : AllP E b ld ld' fuel) : ∀ env ids a i body r pos, Cl.cl E r →
    PresA E b (forListLive ld (fuel+1) env ids a i body r pos)
      (forListLive ld' (fuel+1) env ids a i body r pos) := by
  have ihEval := ih.eval; have ih1 := ih.forListLive
  intro env ids a i body r pos hr
  simp only [Ckl.forListLive]; pa_auto

theorem step_forString (ih : AllP E b ld ld' fuel) : ∀ env x cs body r, Cl.cl E r →
    PresA E b (forString ld (fuel+1) env x cs body r) (forString ld' (fuel+1) env x cs body r) := by
  have ihEval := ih.eval; have ih1 := ih.forString
  intro env x cs body r hr
  cases cs <;> simp only [Ckl.forString] <;> pa_auto

theorem step_whileLoop (ih : AllP E b ld ld' fuel) : ∀ env c body pos,
    PresA E b (whileLoop ld (fuel+1) env c body pos) (whileLoop ld' (fuel+1) env c body pos) := by
  have ihEval := ih.eval; have ih1 := ih.whileLoop
  intro env c body pos
  simp only [Ckl.whileLoop]; pa_auto

theorem step_comprStep (ih : AllP E b ld ld' fuel) : ∀ lenv kind ve ke cond pos,
    PresA E b (comprStep ld (fuel+1) lenv kind ve ke cond pos) (comprStep ld' (fuel+1) lenv kind ve ke cond pos) := by
  have ihEval := ih.eval
  intro lenv kind ve ke cond pos
  by_cases hd : cond = Node.absent
  · subst hd; cases kind <;> simp only [Ckl.comprStep] <;> pa_auto
  · cases kind <;> simp only [Ckl.comprStep] <;> pa_auto

theorem step_comprLoop (ih : AllP E b ld ld' fuel) : ∀ lenv kind ve ke cond pos l acc, Cl.cl E l → Cl.cl E acc →
    PresA E b (comprLoop ld (fuel+1) lenv kind ve ke cond pos l acc)
      (comprLoop ld' (fuel+1) lenv kind ve ke cond pos l acc) := by
  have ih1 := ih.comprStep; have ih2 := ih.comprLoop
  intro lenv kind ve ke cond pos l acc hl hacc
  match l with
  | [] => simp only [Ckl.comprLoop]; pa_auto
  | [(x, [])] => simp only [Ckl.comprLoop]; pa_auto
  | [(x, v :: vs)] => simp only [Ckl.comprLoop]; pa_auto
  | _ :: _ :: _ => simp only [Ckl.comprLoop]; pa_auto

theorem step_comprProduct (ih : AllP E b ld ld' fuel) :
    ∀ lenv kind ve ke cond pos x1 vs x2 ws acc, Cl.cl E vs → Cl.cl E ws → Cl.cl E acc →
      PresA E b (comprProduct ld (fuel+1) lenv kind ve ke cond pos x1 vs x2 ws acc)
        (comprProduct ld' (fuel+1) lenv kind ve ke cond pos x1 vs x2 ws acc) := by
  have ih1 := ih.comprLoop; have ih2 := ih.comprProduct
  intro lenv kind ve ke cond pos x1 vs x2 ws acc hv hw hacc
  cases vs <;> simp only [Ckl.comprProduct] <;> pa_auto

theorem step_comprParallel (ih : AllP E b ld ld' fuel) :
    ∀ lenv kind ve ke cond pos x1 vs x2 ws acc, Cl.cl E vs → Cl.cl E ws → Cl.cl E acc →
      PresA E b (comprParallel ld (fuel+1) lenv kind ve ke cond pos x1 vs x2 ws acc)
        (comprParallel ld' (fuel+1) lenv kind ve ke cond pos x1 vs x2 ws acc) := by
  have ih1 := ih.comprStep; have ih2 := ih.comprParallel
  intro lenv kind ve ke cond pos x1 vs x2 ws acc hv hw hacc
  cases vs <;> cases ws <;> simp only [Ckl.comprParallel] <;> pa_auto

end Ckl.C09E

