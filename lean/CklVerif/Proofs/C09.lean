/-
  C09 — secure mode.  The table theorems are re-checked on every run against the table
  regenerated from /repo: a built-in that touches the OS but lost its `secure = False`
  flag, or a new unguarded instantiation site, makes `decide` fail here.
-/
import CklVerif.Model.Secure
namespace Ckl.C09
open Ckl.Gen Ckl.Secure

/-- every native whose class references an OS primitive is flagged `secure = False` -/
theorem table_sound : ∀ n ∈ natives, n.effects ≠ [] → n.secure = false := by decide +kernel

/-- every instantiation of an effectful built-in class outside `bind_native` is guarded by `not secure` -/
theorem no_unguarded_instantiation : ∀ s ∈ sites, s.effectful = true → s.guardedByNotSecure = true := by decide +kernel

/-- every native a bundled module binds is one `bind_native` knows -/
theorem modules_bind_known : ∀ b ∈ moduleBinds, (findNative b.2.1).isSome = true := by decide +kernel

/-- in secure mode `bind_native` binds nothing effectful, whatever name and alias are given -/
theorem bindNative_secure (name : String) (alias : Option String) (l : List (String × NativeInfo))
    (h : bindNative true name alias = some l) : ∀ p ∈ l, p.2.effectful = false := by
  unfold bindNative at h
  cases hf : findNative name with
  | none => simp [hf] at h
  | some n =>
    simp only [hf] at h
    have hmem : n ∈ natives := by
      unfold findNative at hf
      exact List.mem_of_find?_eq_some hf
    by_cases hs : n.secure = true
    · simp only [hs, Bool.not_true, Bool.and_false, Bool.false_eq_true, if_false] at h
      cases h
      intro p hp
      simp only [List.mem_map] at hp
      obtain ⟨x, _, rfl⟩ := hp
      have he : n.effects = [] := by
        cases hne : n.effects with
        | nil => rfl
        | cons a as =>
          have := table_sound n hmem (by rw [hne]; exact List.cons_ne_nil a as)
          rw [hs] at this; cases this
      simp [NativeInfo.effectful, hs, he]
    · have hs' : n.secure = false := by simpa using hs
      simp only [hs', Bool.not_false, Bool.and_self, if_true] at h
      cases h
      intro p hp; cases hp

theorem lookup_mem {b : Bound} {k : String} {n : NativeInfo} (h : b.lookup k = some n) : (k, n) ∈ b := by
  induction b with
  | nil => simp [List.lookup] at h
  | cons p rest ih =>
    obtain ⟨k', v⟩ := p
    simp only [List.lookup] at h
    by_cases hk : k == k'
    · simp only [hk] at h
      cases h
      have : k = k' := by simpa using hk
      subst this; exact List.mem_cons_self
    · simp only [hk] at h
      exact List.mem_cons_of_mem _ (ih h)

/-- invariant over every sequence of binding operations in a secure interpreter:
    nothing effectful is ever bound, under any name -/
theorem secure_invariant (ops : List Op) : ∀ p ∈ run true ops, p.2.effectful = false := by
  unfold run
  suffices h : ∀ (b : Bound), (∀ p ∈ b, p.2.effectful = false) →
      ∀ p ∈ ops.foldl (step true) b, p.2.effectful = false from h [] (by intro p hp; cases hp)
  induction ops with
  | nil => intro b hb; simpa using hb
  | cons op ops ih =>
    intro b hb
    simp only [List.foldl_cons]
    apply ih
    cases op with
    | bind name alias =>
      simp only [step]
      cases hbn : bindNative true name alias with
      | none => simpa using hb
      | some l =>
        intro p hp
        simp only [List.mem_append] at hp
        rcases hp with hp | hp
        · exact bindNative_secure name alias l hbn p hp
        · exact hb p hp
    | copy src dst =>
      simp only [step]
      cases hl : b.lookup src with
      | none => simpa using hb
      | some n =>
        intro p hp
        simp only [List.mem_cons] at hp
        rcases hp with rfl | hp
        · -- the copied value was bound before (under the name `src`)
          have : (src, n) ∈ b := lookup_mem hl
          exact hb (src, n) this
        · exact hb p hp

/-- non-vacuity: in an insecure interpreter the same operation does bind an effectful native -/
example : ∃ p ∈ run false [.bind "file_delete" none], p.2.effectful = true := by decide +kernel

example : run true [.bind "file_delete" (some "x"), .bind "add" (some "plus"), .copy "plus" "execute"] ≠ [] := by decide +kernel

end Ckl.C09
