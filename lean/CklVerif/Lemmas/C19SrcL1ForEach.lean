import CklVerif.Lemmas.C19SrcLoop

/-! C19Src (L1) — list.ckl `for_each(lst, func)`: a loop that calls a function VALUE passed as an argument on every element and
    ends with `return NULL` (the parser drops the trailing `return`: the last statement is the identifier `NULL`). -/
namespace Ckl.C19Src
open Ckl Ckl.C03 Ckl.Gen.LibSrc
variable (ld : Loader)

/-- The call expression `g(e)` — `g` an identifier bound to the function value `fv`, `e` a non-spread argument that evaluates to `v`
    without changing the state `st` — ends normally with the value `r` in state `st'`, for every fuel above `k`, in every frame and
    at all positions. -/
def CallNode1_L1 (k : Nat) (fv v : RVal) (st : State) (r : RVal) (st' : State) : Prop :=
  ∀ (env : EnvId) (fname : String) (p : Pos) (a : Node) (pos : Pos), st.lookup env fname = some fv → NotSpread a →
    Ev ld 0 env a st (.ok v st) → Ev ld k env (.call (.ident fname p) [none] [a] pos) st (.ok r st')

/-- a built-in whose first parameter is positional and whose meaning on `v` in state `st` is modelled by `callPure` -/
theorem CallNode1_L1.native {nm : String} {i : Nat} {q : String} {rest : List String} {v : RVal} {st : State} {r : RVal}
    {st' : State} (hps : nativeArgNames nm = some (q :: rest)) (hsp : ∀ p ∈ q :: rest, ¬ ("...".toList <:+ p.toList))
    (hsem : ∀ d pos, ∃ mm, callPure nm [(q, v)] d pos = some mm ∧ mm st = .ok r st') :
    CallNode1_L1 ld 3 (.native nm i) v st r st' := by
  intro env fname p a pos hfn hns ha
  obtain ⟨mm, hm1, hm2⟩ := hsem (div0Value st env) pos
  have A := Ev.nat1 ld (k := 0) (p := p) (pos := pos) hfn hps hsp hns ha hm1 hm2
  rw [wrapCall_ok] at A
  exact A

/-- a function value `.closure c` whose first parameter is positional, given what `fn.execute` does on `v` -/
theorem CallNode1_L1.closure {k c : Nat} {cenv : EnvId} {q : String} {rest : List String} {ds : List Node} {body : Node}
    {nm : String} {v : RVal} {st : State} {r : RVal} {st' : State}
    (hcell : st.cell c = some (.closure cenv (q :: rest) ds body nm))
    (hsp : ∀ p ∈ q :: rest, ¬ ("...".toList <:+ p.toList))
    (hcall : ∀ env pos, Calls ld k (.closure c) [(q, v)] env pos st (.ok r st')) :
    CallNode1_L1 ld (k + 3) (.closure c) v st r st' := by
  intro env fname p a pos hfn hns ha
  have A := Ev.callClosure ld (k := k + 1) (p := p) (pos := pos) hfn
    (EvArgs.cons ld hns (Ev.mono ld ha (Nat.zero_le k)) (EvArgs.nil ld)) hcell
    (setArgs_pos1 (addArgs_plain' _ hsp)) (Calls.mono ld (hcall env pos) (Nat.le_succ k))
  rw [wrapCall_ok] at A
  exact A


/-- the loop invariant of `for_each`: the callee frame holds the two parameters (and possibly the loop variable) -/
structure FeInv_L1 (s : State) (c m : EnvId) (a : Nat) (fv : RVal) (st : State) : Prop where
  ext : Ext s st
  parent : (st.frame c).parent = some m
  clt : c < st.frames.size
  vars : (st.frame c).vars = [("lst", .ref a), ("func", fv)] ∨
    ∃ w, (st.frame c).vars = [("lst", .ref a), ("func", fv), ("item", w)]

local notation "bp" => blockPos (lamBody list_for_each)

/-- the body of `for_each` on a list cell, `func` a function value whose call on every element ends normally (no control signal)
    and only extends the state -/
theorem for_each_body {s s0 : State} {M nats srcs m} {a : Nat} {xs : List RVal} {fv : RVal} {kf : Nat}
    (h : LibEnv s M nats srcs) (hm : M m)
    (ctx : Ctx s0 M nats srcs s.frames.size m [("lst", .ref a), ("func", fv)]) (e0 : Ext s s0)
    (hc : s.cell a = some (.list xs))
    (hf : ∀ v ∈ xs, ∀ st, Ext s st → ∃ r st', CallNode1_L1 ld kf fv v st r st' ∧ Ext st st' ∧ isCtl r = false) :
    ∃ s', Ext s s' ∧ Ev ld (kf + xs.length + 6) s.frames.size (lamBody list_for_each) s0 (.ok .null s') ∧ True := by
  unfold lamBody list_for_each
  simp only []
  generalize hK : kf + xs.length + 3 = K
  have ha : a < s.heap.size := cell_lt hc
  have hcge : s.frames.size ≤ s.frames.size := Nat.le_refl _
  have ctx0 : Ctx (ghostEnter s0 bp) M nats srcs s.frames.size m [("lst", .ref a), ("func", fv)] :=
    ctx.ext ((Ext.refl s0).ghostEnter _)
  have e0' : Ext s (ghostEnter s0 bp) := e0.ghostEnter _
  have inv0 : FeInv_L1 s s.frames.size m a fv (ghostEnter s0 bp) :=
    ⟨e0', ctx0.fr.parent, ctx0.clt, Or.inl ctx0.fr.vars⟩
  have hcellI : ∀ st, FeInv_L1 s s.frames.size m a fv st → st.cell a = some (.list xs) := by
    intro st inv; rw [inv.ext.cell a ha]; exact hc
  -- the loop body `func(item)`
  have hstep : ∀ p1 p2 p3, ∀ (i : Nat) (r : RVal) st v, FeInv_L1 s s.frames.size m a fv st → xs[i]? = some v →
      ∃ r' s', Ev ld kf s.frames.size (.call (.ident "func" p1) [none] [.ident "item" p2] p3)
          (st.put s.frames.size "item" v) (.ok r' s') ∧
        isCtl r' = false ∧ FeInv_L1 s s.frames.size m a fv s' := by
    intro p1 p2 p3 i r st v inv hv
    have hvars : ((st.put s.frames.size "item" v).frame s.frames.size).vars =
        [("lst", .ref a), ("func", fv), ("item", v)] := by
      rw [vars_put_same _ _ _ inv.clt]
      rcases inv.vars with h | ⟨w, h⟩ <;> rw [h] <;> simp [dictPut]
    have hpar : ((st.put s.frames.size "item" v).frame s.frames.size).parent = some m := by
      rw [parent_put]; exact inv.parent
    have eu : Ext s (st.put s.frames.size "item" v) := inv.ext.put hcge _ _
    have hcltu : s.frames.size < (st.put s.frames.size "item" v).frames.size := by
      rw [frames_size_put]; exact inv.clt
    have cu : Ctx (st.put s.frames.size "item" v) M nats srcs s.frames.size m
        [("lst", .ref a), ("func", fv), ("item", v)] := Ctx.ofExt h hm eu hvars hpar hcltu
    obtain ⟨r', st', hcall, e', hctl⟩ := hf v (List.mem_of_getElem? hv) _ eu
    refine ⟨r', st', hcall s.frames.size "func" p1 (.ident "item" p2) p3 (cu.var (x := "func") (by rfl)) (by trivial)
      (Ev.ident ld (cu.var (x := "item") (by rfl))), hctl, ⟨eu.trans e', ?_, Nat.lt_of_lt_of_le hcltu e'.fsize, Or.inr ⟨v, ?_⟩⟩⟩
    · rw [e'.frame _ hcltu]; exact hpar
    · rw [e'.frame _ hcltu]; exact hvars
  -- statement 1: the loop
  have S1 : ∀ p0 p1 p2 p3 what p4, ∃ r t1, Ev ld K s.frames.size
      (.for ["item"] (.ident "lst" p0) (.call (.ident "func" p1) [none] [.ident "item" p2] p3) what p4)
      (ghostEnter s0 bp) (.ok r t1) ∧ isCtl r = false ∧ Ext s t1 ∧
        ∃ vars, CallFrame t1 s.frames.size m vars ∧ dictGet "NULL" vars = none ∧ s.frames.size < t1.frames.size := by
    intro p0 p1 p2 p3 what p4
    obtain ⟨r, st, ⟨hctl, inv⟩, hloop⟩ := forListLive_inv ld (kb := kf) (env := s.frames.size) (x := "item") (a := a)
      (pos := p4) xs (fun _ r st => isCtl r = false ∧ FeInv_L1 s s.frames.size m a fv st)
      (fun i r st hI => hcellI st hI.2)
      (fun i r st v hI hv => by
        obtain ⟨r', s', h1, h2, h3⟩ := hstep p1 p2 p3 i r st v hI.2 hv
        exact ⟨r', s', h1, h2, h2, h3⟩)
      xs.length 0 (.bool true) (ghostEnter s0 bp) (by omega) ⟨rfl, inv0⟩
    have hF := Ev.forList ld (k := 0) (kl := kf + xs.length + 1) (what := what) (x := "item") (pos := p4)
      (by rw [ctx0.fr.vars]; rfl)
      (Ev.ident ld (p := p0) (ctx0.var (x := "lst") (by rfl)))
      (hcellI _ inv0) hloop (hcellI st inv)
    refine ⟨r, _, Ev.mono ld hF (show max 0 (kf + xs.length + 1) + 2 ≤ K by omega), hctl, ?_⟩
    cases hxs : xs.isEmpty with
    | true =>
      simp only [if_true]
      refine ⟨inv.ext, (st.frame s.frames.size).vars, callFrame_self inv.parent (h.lt m hm), ?_, inv.clt⟩
      rcases inv.vars with h | ⟨w, h⟩ <;> rw [h] <;> rfl
    | false =>
      simp only [Bool.false_eq_true, if_false]
      refine ⟨inv.ext.remove hcge _, ((st.remove s.frames.size "item").frame s.frames.size).vars,
        callFrame_self (by rw [frame_remove_same _ _ inv.clt]; exact inv.parent) (h.lt m hm), ?_,
        by rw [frames_size_remove]; exact inv.clt⟩
      rw [frame_remove_same _ _ inv.clt]
      rcases inv.vars with h | ⟨w, h⟩ <;> rw [h] <;> rfl
  -- the block: the loop, then `NULL`
  obtain ⟨r1, t1, hS1, hctl1, E1, vars1, hfr1, hnull1, hclt1⟩ := S1 _ _ _ _ _ _
  have S2 : ∀ p, Ev ld K s.frames.size (.ident "NULL" p) t1 (.ok .null t1) :=
    fun p => Ev.ident ld (lookup_global hfr1 hnull1 ((h.ext E1).null m hm))
  refine ⟨ghostFin t1 bp, E1.ghostFin _, ?_, trivial⟩
  exact Ev.mono ld (k := K + 1 + 1 + 1) (Ev.block ld (b := false) (pos := bp)
    (EvBody.cons ld (Ev.mono ld hS1 (show K ≤ K + 1 by omega)) hctl1
      (EvBody.cons ld (S2 _) rfl (EvBody.nil ld)))) (by omega)

/-- `fn.execute(lst = a list cell, func = fv)` of the function made from the source of `for_each` -/
theorem for_each_calls {s : State} {M nats srcs fn m} (h : LibEnv s M nats srcs) (hm : M m)
    (hsrc : IsSrc s fn list_for_each m) (a : Nat) (xs : List RVal) (fv : RVal) (kf : Nat)
    (hc : s.cell a = some (.list xs))
    (hf : ∀ v ∈ xs, ∀ st, Ext s st → ∃ r st', CallNode1_L1 ld kf fv v st r st' ∧ Ext st st' ∧ isCtl r = false) :
    ∃ s', Ext s s' ∧ ∀ env pos, Calls ld (kf + xs.length + 7) fn [("lst", .ref a), ("func", fv)] env pos s (.ok .null s') := by
  obtain ⟨s', e, _, c⟩ := calls_of_body2X ld (src := list_for_each) (Q := fun _ => True)
    (r := fun s' => .ok .null s') rfl rfl rfl (by omega) (by decide) h hm hsrc (.ref a) fv
    (fun _ ctx e0 => for_each_body ld h hm ctx e0 hc hf)
  exact ⟨s', e, c⟩

end Ckl.C19Src
