"""Extract the character-class and operator tables of lexer.py / parser.py (C14, C02).

From `Lexer.scan`: for every branch `state == N` of the scanner's state machine, the string constants used in
`ch in "<...>"` tests (in source order) and the states assigned in the branch (`state = M`, in source order);
the module constants KEYWORDS and OPERATORS.  From parser.py: for every `parse_*` function the pairs
(operator text, function name) of `if lexer.matchIf(OP, "operator"): ... func_call(NAME, ...)` arms, and the
operator lists handed to `peekOne`.
Emitted as lean/CklVerif/Gen/SyntaxTable.lean (character lists, no String functions, so that `decide` can compare
them with the constants of the Lean scanner / parser model).
"""
import ast
import os

from harness import core


def lean_chars(s):
    def ch(c):
        if c == "'":
            return "'\\''"
        if c == "\\":
            return "'\\\\'"
        if c == "\n":
            return "'\\n'"
        if c == "\t":
            return "'\\t'"
        if c == "\r":
            return "'\\r'"
        if c == '"':
            return "'\"'"
        if ord(c) < 32 or ord(c) > 126:
            return "(Char.ofNat %d)" % ord(c)
        return "'" + c + "'"
    return "[" + ", ".join(ch(c) for c in s) + "]"


def lean_str(s):
    return '"' + s.replace("\\", "\\\\").replace('"', '\\"') + '"'


def const_list(tree, name):
    for n in tree.body:
        if isinstance(n, ast.Assign) and len(n.targets) == 1 and isinstance(n.targets[0], ast.Name) and n.targets[0].id == name:
            if isinstance(n.value, ast.List) and all(isinstance(e, ast.Constant) and isinstance(e.value, str) for e in n.value.elts):
                return [e.value for e in n.value.elts]
    return None


def state_of(test):
    """N for a test `state == N`"""
    if (isinstance(test, ast.Compare) and isinstance(test.left, ast.Name) and test.left.id == "state" and len(test.ops) == 1
            and isinstance(test.ops[0], ast.Eq) and isinstance(test.comparators[0], ast.Constant) and isinstance(test.comparators[0].value, int)):
        return test.comparators[0].value
    return None


def walk_ordered(nodes):
    """pre-order, in source order"""
    for n in nodes:
        yield n
        yield from walk_ordered(list(ast.iter_child_nodes(n)))


def extract():
    problems = []
    src_dir = os.path.join(core.REPO, "src", "ckl")
    ltree = ast.parse(open(os.path.join(src_dir, "lexer.py"), encoding="utf-8").read())
    keywords = const_list(ltree, "KEYWORDS")
    operators = const_list(ltree, "OPERATORS")
    if keywords is None:
        problems.append("KEYWORDS is not a list of string constants")
        keywords = []
    if operators is None:
        problems.append("OPERATORS is not a list of string constants")
        operators = []
    scan = None
    for n in ast.walk(ltree):
        if isinstance(n, ast.FunctionDef) and n.name == "scan":
            scan = n
    states = {}
    if scan is None:
        problems.append("Lexer.scan not found")
    else:
        continued = set()       # `elif` nodes: visited as part of their chain only
        for n in ast.walk(scan):
            if isinstance(n, ast.If) and len(n.orelse) == 1 and isinstance(n.orelse[0], ast.If):
                continued.add(id(n.orelse[0]))
        for n in ast.walk(scan):
            if isinstance(n, ast.If) and id(n) not in continued:
                cur = n
                while isinstance(cur, ast.If):
                    st = state_of(cur.test)
                    if st is not None:
                        sets, targets, eqs = [], [], []
                        for sub in walk_ordered(cur.body):
                            if (isinstance(sub, ast.Compare) and isinstance(sub.left, ast.Name) and sub.left.id == "ch" and len(sub.ops) == 1
                                    and isinstance(sub.comparators[0], ast.Constant) and isinstance(sub.comparators[0].value, str)):
                                if isinstance(sub.ops[0], ast.In):
                                    sets.append(sub.comparators[0].value)
                                elif isinstance(sub.ops[0], (ast.Eq, ast.NotEq)):
                                    eqs.append(sub.comparators[0].value)
                            if (isinstance(sub, ast.Assign) and len(sub.targets) == 1 and isinstance(sub.targets[0], ast.Name) and sub.targets[0].id == "state"
                                    and isinstance(sub.value, ast.Constant) and isinstance(sub.value.value, int)):
                                targets.append(sub.value.value)
                        prev = states.get(st)
                        if prev is None:
                            states[st] = {"sets": sets, "targets": targets, "eqs": eqs}
                        else:
                            # the same state tested twice (e.g. the two `state == 0` branches): concatenate in source order
                            prev["sets"] += sets
                            prev["targets"] += targets
                            prev["eqs"] += eqs
                    cur = cur.orelse[0] if len(cur.orelse) == 1 and isinstance(cur.orelse[0], ast.If) else None
        if not states:
            problems.append("no `state == N` branches found in Lexer.scan")
    # ---------------- parser: operator -> function tables
    ptree = ast.parse(open(os.path.join(src_dir, "parser.py"), encoding="utf-8").read())
    binops = []      # (parse function, operator, called function)
    peeks = []       # (parse function, [operators handed to peekOne])
    for fn in ptree.body:
        if not (isinstance(fn, ast.FunctionDef) and fn.name.startswith("parse_")):
            continue
        for n in walk_ordered(fn.body):
            if isinstance(n, ast.If):
                t = n.test
                if (isinstance(t, ast.Call) and isinstance(t.func, ast.Attribute) and t.func.attr == "matchIf" and len(t.args) >= 2
                        and all(isinstance(a, ast.Constant) for a in t.args[:2]) and t.args[1].value in ("operator", "keyword")):
                    called = None
                    for sub in walk_ordered(n.body):
                        if isinstance(sub, ast.Call) and isinstance(sub.func, ast.Name) and sub.func.id == "func_call" and sub.args and isinstance(sub.args[0], ast.Constant):
                            called = sub.args[0].value
                            break
                        if isinstance(sub, ast.If):
                            break       # nested decision: not a plain operator arm
                    if called is not None:
                        binops.append((fn.name, t.args[0].value, called))
            if (isinstance(n, ast.Call) and isinstance(n.func, ast.Attribute) and n.func.attr == "peekOne" and len(n.args) >= 2
                    and isinstance(n.args[1], ast.List) and all(isinstance(e, ast.Constant) for e in n.args[1].elts)):
                peeks.append((fn.name, [e.value for e in n.args[1].elts]))
    # the relational operator list of parse_rel_expr (a local list constant)
    relops = None
    for fn in ptree.body:
        if isinstance(fn, ast.FunctionDef) and fn.name == "parse_rel_expr":
            for n in walk_ordered(fn.body):
                if isinstance(n, ast.Assign) and isinstance(n.value, ast.List) and n.value.elts and all(isinstance(e, ast.Constant) and isinstance(e.value, str) for e in n.value.elts):
                    relops = [e.value for e in n.value.elts]
                    break
    if relops is None:
        problems.append("the relational operator list of parse_rel_expr was not found")
        relops = []
    # relational operator -> comparison function (the `relop == X` / `relop in [...]` chain of parse_rel_expr)
    relfns = []
    for fn in ptree.body:
        if isinstance(fn, ast.FunctionDef) and fn.name == "parse_rel_expr":
            for n in walk_ordered(fn.body):
                if isinstance(n, ast.If):
                    t = n.test
                    ops = None
                    if isinstance(t, ast.Compare) and isinstance(t.left, ast.Name) and t.left.id == "relop" and len(t.ops) == 1:
                        c = t.comparators[0]
                        if isinstance(t.ops[0], ast.Eq) and isinstance(c, ast.Constant):
                            ops = [c.value]
                        elif isinstance(t.ops[0], ast.In) and isinstance(c, ast.List) and all(isinstance(e, ast.Constant) for e in c.elts):
                            ops = [e.value for e in c.elts]
                    if ops is None:
                        continue
                    for sub in walk_ordered(n.body):
                        if isinstance(sub, ast.Call) and isinstance(sub.func, ast.Name) and sub.func.id == "func_call" and sub.args and isinstance(sub.args[0], ast.Constant):
                            relfns += [(o, sub.args[0].value) for o in ops]
                            break
    # the expression tower: which parse_* functions each level calls, in source order
    tower_fns = ["parse_expression", "parse_or_expr", "parse_and_expr", "parse_not_expr", "parse_rel_expr", "parse_add_expr", "parse_mul_expr",
                 "parse_unary_expr", "parse_pred_expr"]
    tower = []
    for fn in ptree.body:
        if isinstance(fn, ast.FunctionDef) and fn.name in tower_fns:
            calls = [n.func.id for n in walk_ordered(fn.body) if isinstance(n, ast.Call) and isinstance(n.func, ast.Name) and n.func.id.startswith("parse_")]
            tower.append((fn.name, calls))
    for f in tower_fns:
        if f not in [t[0] for t in tower]:
            problems.append(f"{f} not found in parser.py")
    return {"keywords": keywords, "operators": operators, "states": states, "binops": binops, "peeks": peeks, "relops": relops, "relfns": relfns,
            "tower": tower, "problems": problems}


def generate():
    tab = extract()
    L = ["/- GENERATED by harness/extract/syntaxtab.py from /repo/src/ckl/lexer.py and parser.py on every run — do not edit. -/",
         "namespace Ckl.Gen", "",
         "/-- `KEYWORDS` of lexer.py -/",
         "def lexKeywords : List (List Char) := [" + ", ".join(lean_chars(k) for k in tab["keywords"]) + "]", "",
         "/-- `OPERATORS` of lexer.py -/",
         "def lexOperators : List (List Char) := [" + ", ".join(lean_chars(k) for k in tab["operators"]) + "]", "",
         "/-- per branch `state == N` of `Lexer.scan`: the character sets of its `ch in \"…\"` tests, the characters of its",
         "    `ch == '…'` tests and the states it assigns, each in source order -/",
         "structure LexBranch where", "  state : Nat", "  sets : List (List Char)", "  eqs : List (List Char)", "  targets : List Nat", "deriving Repr", "",
         "def lexBranches : List LexBranch := ["]
    rows = []
    for st in sorted(tab["states"]):
        b = tab["states"][st]
        rows.append("  ⟨%d, [%s], [%s], [%s]⟩" % (st, ", ".join(lean_chars(s) for s in b["sets"]), ", ".join(lean_chars(s) for s in b["eqs"]),
                                                 ", ".join(str(t) for t in b["targets"])))
    L.append(",\n".join(rows) + "]")
    L += ["", "/-- (parse function, operator text, function called) for every plain operator arm of parser.py -/",
          "def parserBinOps : List (String × List Char × String) := ["]
    L.append(",\n".join(f"  ({lean_str(f)}, {lean_chars(op)}, {lean_str(fn)})" for f, op, fn in tab["binops"]) + "]")
    L += ["", "/-- (parse function, operators handed to `peekOne`) -/", "def parserPeeks : List (String × List (List Char)) := ["]
    L.append(",\n".join(f"  ({lean_str(f)}, [{', '.join(lean_chars(o) for o in ops)}])" for f, ops in tab["peeks"]) + "]")
    L += ["", "/-- the relational operator list of `parse_rel_expr` -/",
          "def parserRelops : List (List Char) := [" + ", ".join(lean_chars(o) for o in tab["relops"]) + "]", "",
          "/-- relational operator (as matched in the `relop` chain) -> comparison function -/",
          "def parserRelFns : List (List Char × String) := [" + ", ".join(f"({lean_chars(o)}, {lean_str(f)})" for o, f in tab["relfns"]) + "]", "",
          "/-- the expression tower: (level, parse_* functions it calls, in source order) -/",
          "def parserTower : List (String × List String) := ["]
    L.append(",\n".join(f"  ({lean_str(f)}, [{', '.join(lean_str(c) for c in calls)}])" for f, calls in tab["tower"]) + "]")
    L += ["", "end Ckl.Gen", ""]
    path = os.path.join(core.LEAN, "CklVerif", "Gen", "SyntaxTable.lean")
    return path, "\n".join(L), ["syntaxtab extractor: " + p for p in tab["problems"]]
