import CklVerif.Lemmas.C19SrcD4Lib
import CklVerif.Lemmas.C19SrcSymDiff

/-! C19Src (D4) — the multi-frame library state WITH the module cache: `loadModsReg_D4` is `loadMods_D4` (Lemmas/C19SrcD4Mods.lean)
    plus the registration `loadModule` performs after evaluating a module (`modules := s.modules ++ [(ident, menv)]`).

    The construction, precisely: `loadModReg_D4 fuel (ident, defs) s` = run `loadMod_D4 fuel defs s` (fresh frame `s.frames.size` with
    parent 0, real `eval` of the block of the `def` nodes in it, export into frame 0) and append `(ident, s.frames.size)` to the
    `modules` field of the result.  (In `loadModule` the registration comes before the export of `evalRequire`; the export only
    changes `frames` and the registration only `modules`, so the order does not matter.)  `modstack` is never touched: the push/pop
    of `evalRequire` around `loadModule` cancel.  Still NOT modelled: the string computations on the module name (the identifiers are
    handed over), the other statements of the real modules. -/
namespace Ckl.C19Src
open Ckl Ckl.C03 Ckl.Gen.LibSrc
variable (ld : Loader)

def loadModReg_D4 (fuel : Nat) (idefs : String × List Node) (s : State) : Option State :=
  (loadMod_D4 ld fuel idefs.2 s).map (fun s' => { s' with modules := s'.modules ++ [(idefs.1, s.frames.size)] })

def loadModsReg_D4 (fuel : Nat) : List (String × List Node) → State → Option State
  | [], s => some s
  | m :: rest, s => (loadModReg_D4 ld fuel m s).bind (loadModsReg_D4 fuel rest)

/-- the cache entries: identifier ↦ consecutive frame numbers from `n` -/
def regsFrom_D4 (n : Nat) : List (String × List Node) → List (String × EnvId)
  | [] => []
  | m :: r => (m.1, n) :: regsFrom_D4 (n + 1) r

/-! ### loading a module does not touch the module cache, the load stack, or the parent of frame 0 -/

theorem load_defs_mods_D4 (m : EnvId) (defs : List Node) : (∀ d ∈ defs, IsDefLam d) → ∀ (s : State) (last : RVal),
    ∃ v s', EvBody ld (defs.length + 1) m defs last s (.ok v s') ∧ SameMods s s' := by
  induction defs with
  | nil => intro _ s last; exact ⟨last, s, EvBody.nil ld, SameMods.refl s⟩
  | cons d ds ih =>
    intro hall s last
    obtain ⟨name, ps, dfs, body, lp, info, dp, rfl⟩ := hall _ List.mem_cons_self
    obtain ⟨v, s', hev, hm⟩ := ih (fun d hd => hall d (List.mem_cons_of_mem _ hd)) (defState s m name ps dfs body)
      (.closure s.heap.size)
    refine ⟨v, s', EvBody.cons ld (v := .closure s.heap.size) (s1 := defState s m name ps dfs body) ?_ rfl hev, hm.1, hm.2⟩
    intro f hf
    exact eval_def_state ld s m f (by simp only [List.length_cons] at hf; omega)

theorem foldPut0_extra_D4 (f : String → RVal) (ns : List String) : ∀ (s : State),
    (ns.foldl (fun s n => s.put 0 n (f n)) s).modules = s.modules ∧
    (ns.foldl (fun s n => s.put 0 n (f n)) s).modstack = s.modstack ∧
    ((ns.foldl (fun s n => s.put 0 n (f n)) s).frame 0).parent = (s.frame 0).parent := by
  induction ns with
  | nil => intro s; exact ⟨rfl, rfl, rfl⟩
  | cons n ns ih =>
    intro s
    obtain ⟨h1, h2, h3⟩ := ih (s.put 0 n (f n))
    rw [List.foldl_cons]
    exact ⟨h1, h2, by rw [h3, parent_put]⟩

theorem loadMod_extra_D4 {s s' : State} {defs : List Node} (hall : ∀ d ∈ defs, IsDefLam d)
    (hnd : (defs.map defName).Nodup) (h0 : 0 < s.frames.size) {fuel : Nat} (hf : defs.length + 2 < fuel)
    (h : loadMod_D4 ld fuel defs s = some s') :
    SameMods s s' ∧ (s'.frame 0).parent = (s.frame 0).parent := by
  obtain ⟨v, s2, hev, _, hfr, _⟩ :=
    load_defs_aux ld s.frames.size defs hall hnd (ghostEnter (s.newEnv 0).1 default)
      (by show s.frames.size < (s.newEnv 0).1.frames.size; rw [frames_size_newEnv]; exact Nat.lt_succ_self _) (.bool true)
  obtain ⟨v', s2', hev', hm⟩ := load_defs_mods_D4 ld s.frames.size defs hall (ghostEnter (s.newEnv 0).1 default) (.bool true)
  have hsame : s2' = s2 := by
    have a := hev (defs.length + 2) (by omega)
    have b := hev' (defs.length + 2) (by omega)
    rw [a] at b; cases b; rfl
  subst hsame
  have hblock := Ev.block ld (b := true) (pos := default) (s := (s.newEnv 0).1) hev
  unfold loadMod_D4 modAst_D4 at h
  rw [hblock fuel (by omega)] at h
  have h' : some (exportUnq_D4 0 s.frames.size (ghostFin s2' default)) = some s' := h
  have hs' := Option.some.inj h'
  subst hs'
  obtain ⟨e1, e2, e3⟩ := foldPut0_extra_D4
    (fun n => ((ghostFin s2' default).lookup s.frames.size n).getD .null)
    ((((ghostFin s2' default).localSymbols s.frames.size).filter (fun n => !n.startsWith "_")).filter
      (fun n => !isModuleObj (ghostFin s2' default) (((ghostFin s2' default).lookup s.frames.size n).getD .null)))
    (ghostFin s2' default)
  refine ⟨⟨?_, ?_⟩, ?_⟩
  · unfold exportUnq_D4; rw [e1]; exact hm.1
  · unfold exportUnq_D4; rw [e2]; exact hm.2
  · unfold exportUnq_D4; rw [e3]
    show (s2'.frame 0).parent = _
    rw [hfr 0 (Nat.ne_of_lt h0)]
    show ((s.newEnv 0).1.frame 0).parent = _
    rw [frame_newEnv_old s 0 h0]

/-- the invariant does not mention the module cache -/
theorem ModInv_D4.setModules {s : State} {nats : List String} {L : List (EnvId × List Node)} (inv : ModInv_D4 s nats L)
    (ms : List (String × EnvId)) : ModInv_D4 { s with modules := ms } nats L :=
  ⟨inv.pos0, inv.null, inv.nat, inv.lt, inv.ne0, inv.inj, inv.parent, inv.disj, inv.own, inv.src, inv.exp⟩

theorem regsFrom_append_D4 (R : List (String × EnvId)) (n : Nat) (m : String × List Node) (r : List (String × List Node)) :
    (R ++ [(m.1, n)]) ++ regsFrom_D4 (n + 1) r = R ++ regsFrom_D4 n (m :: r) := by
  simp [regsFrom_D4]

/-- **all modules, registered**: as `loadMods_inv_D4`, and in addition the module cache gets the entries `regsFrom_D4`, the load
    stack and the parent of frame 0 are unchanged -/
theorem loadModsReg_inv_D4 {nats : List String} (mods : List (String × List Node)) :
    (∀ m ∈ mods, ModOk_D4 nats m.2) → ∀ (s : State) (L : List (EnvId × List Node)), ModInv_D4 s nats L →
    ∃ s', (∀ fuel, modsFuel_D4 (mods.map (·.2)) < fuel → loadModsReg_D4 ld fuel mods s = some s') ∧
      ModInv_D4 s' nats (L ++ framesFrom_D4 s.frames.size (mods.map (·.2))) ∧
      s'.modules = s.modules ++ regsFrom_D4 s.frames.size mods ∧ s'.modstack = s.modstack ∧
      (s'.frame 0).parent = (s.frame 0).parent ∧
      s'.frames.size = s.frames.size + mods.length ∧
      (∀ i, i < s.frames.size → i ≠ 0 → s'.frame i = s.frame i) ∧
      s.heap.size ≤ s'.heap.size ∧ (∀ a, a < s.heap.size → s'.cell a = s.cell a) ∧ s'.out = s.out ∧
      (∀ x, (∀ m ∈ mods, x ∉ m.2.map defName) → dictGet x (s'.frame 0).vars = dictGet x (s.frame 0).vars) := by
  induction mods with
  | nil =>
    intro _ s L inv
    exact ⟨s, fun _ _ => rfl, by simpa [framesFrom_D4] using inv, by simp [regsFrom_D4], rfl, rfl, rfl, fun _ _ _ => rfl,
      Nat.le_refl _, fun _ _ => rfl, rfl, fun _ _ => rfl⟩
  | cons m r ih =>
    intro hok s L inv
    have ok := hok m List.mem_cons_self
    obtain ⟨s1, hl1, inv1, hsz1, hfr1, hhp1, hc1, ho1, hz1⟩ := loadMod_step_D4 ld inv m.2 ok
    obtain ⟨hm1, hp1⟩ := loadMod_extra_D4 ld ok.all ok.nodup inv.pos0 (Nat.lt_succ_self _) (hl1 (m.2.length + 3) (by omega))
    obtain ⟨s2, hl2, inv2, hmod2, hst2, hp2, hsz2, hfr2, hhp2, hc2, ho2, hz2⟩ :=
      ih (fun m' h => hok m' (List.mem_cons_of_mem _ h)) { s1 with modules := s1.modules ++ [(m.1, s.frames.size)] }
        (L ++ [(s.frames.size, m.2)]) (inv1.setModules _)
    have hsz1' : ({ s1 with modules := s1.modules ++ [(m.1, s.frames.size)] } : State).frames.size = s.frames.size + 1 := hsz1
    refine ⟨s2, ?_, ?_, ?_, ?_, ?_, ?_, ?_, Nat.le_trans hhp1 hhp2, ?_, ?_, ?_⟩
    · intro fuel hf
      have hf' : modsFuel_D4 ((m :: r).map (·.2)) = m.2.length + modsFuel_D4 (r.map (·.2)) := by
        simp [modsFuel_D4]; omega
      have h1 : m.2.length + 2 < fuel := by rw [hf'] at hf; unfold modsFuel_D4 at hf; omega
      have h2 : modsFuel_D4 (r.map (·.2)) < fuel := by rw [hf'] at hf; omega
      show (loadModReg_D4 ld fuel m s).bind (loadModsReg_D4 ld fuel r) = some s2
      unfold loadModReg_D4
      rw [hl1 fuel h1]; exact hl2 fuel h2
    · rw [hsz1'] at inv2
      rw [List.map_cons, ← framesFrom_append_D4]; exact inv2
    · rw [hmod2, hsz1']
      show (s1.modules ++ [(m.1, s.frames.size)]) ++ _ = _
      rw [hm1.1, regsFrom_append_D4]
    · rw [hst2]; exact hm1.2
    · rw [hp2]; exact hp1
    · rw [hsz2, hsz1', List.length_cons]; omega
    · intro i hi hi0
      rw [hfr2 i (by rw [hsz1']; omega) hi0]; exact hfr1 i hi hi0
    · intro a ha
      rw [hc2 a (Nat.lt_of_lt_of_le ha hhp1)]; exact hc1 a ha
    · rw [ho2]; exact ho1
    · intro x hx
      rw [hz2 x (fun m' h => hx m' (List.mem_cons_of_mem _ h))]; exact hz1 x (hx m List.mem_cons_self)

/-! ### the driver's initial state: module cache, load stack, frame 0 -/

theorem natFold_extra_D4 (nats : List String) : ∀ (s : State),
    (nats.foldl natStep s).modules = s.modules ∧ (nats.foldl natStep s).modstack = s.modstack ∧
    ((nats.foldl natStep s).frame 0).parent = (s.frame 0).parent := by
  induction nats with
  | nil => intro s; exact ⟨rfl, rfl, rfl⟩
  | cons n ns ih =>
    intro s
    obtain ⟨h1, h2, h3⟩ := ih (natStep s n)
    rw [List.foldl_cons]
    refine ⟨h1, h2, ?_⟩
    rw [h3]
    show ((s.put 0 n (.native n s.nextInst)).frame 0).parent = _
    rw [parent_put]

/-- the constants of the base frame -/
def baseConsts_D4 : List String := ["checkerlang_secure_mode", "MAXINT", "MININT", "NULL"]

theorem constState_frame0_D4 (secure : Bool) : (constState secure).frame 0 =
    { vars := [("checkerlang_secure_mode", .bool secure), ("MAXINT", .int 9223372036854775807),
               ("MININT", .int (-9223372036854775808)), ("NULL", .null)], parent := none } := by
  rfl

/-- the initial state: empty module cache, empty load stack; frame 0 has no parent and binds only the constants and the built-ins -/
theorem initialState_base_D4 (secure : Bool) (natives : List String) :
    (initialState secure natives).1.modules = [] ∧ (initialState secure natives).1.modstack = [] ∧
    ((initialState secure natives).1.frame 0).parent = none ∧
    ∀ x, x ∉ baseConsts_D4 → x ∉ natives → dictGet x ((initialState secure natives).1.frame 0).vars = none := by
  obtain ⟨h1, h2, h3⟩ := natFold_extra_D4 natives (constState secure)
  have hfold := natFold_spec natives (constState secure) (by rw [constState_frames_size]; exact Nat.one_pos)
  refine ⟨?_, ?_, ?_, ?_⟩
  · rw [initialState_eq]; show (natives.foldl natStep (constState secure)).modules = []; rw [h1]; rfl
  · rw [initialState_eq]; show (natives.foldl natStep (constState secure)).modstack = []; rw [h2]; rfl
  · rw [initialState_frame0, h3, constState_frame0_D4]
  · intro x hc hn
    rw [initialState_frame0, hfold.2.1 x hn, constState_frame0_D4]
    simp only [baseConsts_D4, List.mem_cons, List.not_mem_nil, or_false, not_or] at hc
    simp [dictGet, hc.1, hc.2.1, hc.2.2.1, hc.2.2.2]

end Ckl.C19Src
