/-
  C14 (redundant parentheses) — (1) the productions that need at least one token fail on an empty
  lexer state; (2) the token-only loops (`identListLoop`, `forIdents`, `requireSymLoop`,
  `derefChain`, `relopNext`) on a state and its extension by a stopper.
-/
import CklVerif.Lemmas.C14ParensHelpers
namespace Ckl.C14X
open Ckl Ckl.Parser

local notation "kw" => (some TokType.keyword)
local notation "ip" => (some TokType.interpunction)
local notation "op" => (some TokType.operator)
local notation "idt" => (some TokType.identifier)

set_option linter.unusedSimpArgs false
set_option linter.unusedVariables false

variable {x : Ext}

/-! ### productions on an empty state -/

theorem pPrimary_nil {s : St} (h : s.toks = []) (c : Ctx) (um : Bool) :
    pPrimary c um s = .error (errEof s.prev) := by
  rw [pPrimary]; simp [hasNext_nil h]

theorem pPred_nil {s : St} (h : s.toks = []) (c : Ctx) (um : Bool) :
    pPred c um s = .error (errEof s.prev) := by
  rw [pPred, pPrimary_nil h]; rfl

theorem pUnary_nil {s : St} (h : s.toks = []) (c : Ctx) : pUnary c s = .error (errEof s.prev) := by
  rw [pUnary]; simp [matchIf_nil h, pPred_nil h]

theorem pMul_nil {s : St} (h : s.toks = []) (c : Ctx) : pMul c s = .error (errEof s.prev) := by
  rw [pMul, pUnary_nil h]; rfl

theorem pAdd_nil {s : St} (h : s.toks = []) (c : Ctx) : pAdd c s = .error (errEof s.prev) := by
  rw [pAdd, pMul_nil h]; rfl

theorem pRel_nil {s : St} (h : s.toks = []) (c : Ctx) : pRel c s = .error (errEof s.prev) := by
  rw [pRel, pAdd_nil h]; rfl

theorem pNot_nil {s : St} (h : s.toks = []) (c : Ctx) : pNot c s = .error (errEof s.prev) := by
  rw [pNot]; simp [matchIf_nil h, pRel_nil h]

theorem pAnd_nil {s : St} (h : s.toks = []) (c : Ctx) : pAnd c s = .error (errEof s.prev) := by
  rw [pAnd, pNot_nil h]; rfl

theorem pOr_nil {s : St} (h : s.toks = []) (c : Ctx) : pOr c s = .error (errEof s.prev) := by
  rw [pOr, pAnd_nil h]; rfl

theorem pExpression_nil {s : St} (h : s.toks = []) (c : Ctx) : pExpression c s = .error (errEof s.prev) := by
  rw [pExpression]; simp [matchIf_nil h, pOr_nil h]

theorem pStatement_nil {s : St} (h : s.toks = []) (c : Ctx) : pStatement c s = .error (errEof s.prev) := by
  rw [pStatement]; simp [hasNext_nil h]

theorem pBlock_nil {s : St} (h : s.toks = []) (c : Ctx) : pBlock c s = .error (errEof s.prev) := by
  rw [pBlock]; simp [expect_nil h]

theorem blockOrStmt_nil {s : St} (h : s.toks = []) (c : Ctx) :
    (if s.peekn 1 c!"do" kw then pBlock c s else pStatement c s) = .error (errEof s.prev) := by
  simp [peekn_nil h, pStatement_nil h]

theorem blockOrExpr_nil {s : St} (h : s.toks = []) (c : Ctx) :
    (if s.peekn 1 c!"do" kw then pBlock c s else pExpression c s) = .error (errEof s.prev) := by
  simp [peekn_nil h, pExpression_nil h]

theorem blockOrOr_nil {s : St} (h : s.toks = []) (c : Ctx) :
    (if s.peekn 1 c!"do" kw then pBlock c s else pOr c s) = .error (errEof s.prev) := by
  simp [peekn_nil h, pOr_nil h]

theorem listLoop_nil {s : St} (h : s.toks = []) (c : Ctx) (items : List Node) (pending : Option Node) :
    listLoop c s items pending = .error (errEof s.prev) := by
  rw [listLoop]; simp [peekn_nil h, expect_nil h]

theorem setLoop_nil {s : St} (h : s.toks = []) (c : Ctx) (items : List Node) :
    setLoop c s items = .error (errEof s.prev) := by
  rw [setLoop]; simp [peekn_nil h, pExpression_nil h]

theorem mapLoop_nil {s : St} (h : s.toks = []) (c : Ctx) (ks vs : List Node) :
    mapLoop c s ks vs = .error (errEof s.prev) := by
  rw [mapLoop]; simp [peekn_nil h, pExpression_nil h]

theorem objLoop_nil {s : St} (h : s.toks = []) (c : Ctx) (ks : List String) (vs : List Node) :
    objLoop c s ks vs = .error (errEof s.prev) := by
  rw [objLoop]; simp [peekn_nil h, matchIdentifier_nil h]

theorem classLoop_nil {s : St} (h : s.toks = []) (c : Ctx) (comment : String) (acc : List Node) :
    classLoop c comment s acc = .error (errEof c.endPos) := by
  rw [classLoop]; simp [peekn_nil h, matchIf_nil h, next_nil h]

theorem comprFinish_nil {s : St} (h : s.toks = []) (c : Ctx) (mk : Node → Node) (closer : List Char) :
    comprFinish c mk closer s = .error (errEof s.prev) := by
  rw [comprFinish]; simp [matchIf_nil h, expect_nil h]

theorem paramsLoop_nil {s : St} (h : s.toks = []) (c : Ctx) (ps : List String) (ds : List Node) :
    paramsLoop c s ps ds = .error (errEof c.endPos) := by
  rw [paramsLoop]; simp [matchIf_nil h, next_nil h]

theorem argsLoop_nil {s : St} (h : s.toks = []) (c : Ctx) (names : List (Option String)) (args : List Node) :
    argsLoop c s names args = .error (errEof c.endPos) := by
  rw [argsLoop]; simp [matchIf_nil h, peek_nil h]

theorem finallyLoop_nil {s : St} (h : s.toks = []) (c : Ctx) (acc : List Node) :
    finallyLoop c s acc = .error (errEof s.prev) := by
  rw [finallyLoop]; simp [peekn_nil h, pStatement_nil h]

theorem blockLoop_nil {s : St} (h : s.toks = []) (c : Ctx) (acc : List Node) :
    blockLoop c s acc = .error (errEof s.prev) := by
  rw [blockLoop]; simp [isEndCatchFinally_nil h, peekn_nil h, pStatement_nil h]

theorem identListLoop_nil {s : St} (h : s.toks = []) (c : Ctx) (ck : Bool) (acc : List (List Char)) :
    identListLoop c ck s acc = .error (errEof c.endPos) := by
  rw [identListLoop]; simp [peekn_nil h, next_nil h]

theorem requireSymLoop_nil {s : St} (h : s.toks = []) (acc : List (String × String)) :
    requireSymLoop s acc = .error (errEof s.prev) := by
  rw [requireSymLoop]; simp [peekn_nil h, matchIdentifier_nil h]

/-- a loop that has nothing to read returns a state with nothing to read -/
theorem toks_nil_of_le {s s1 : St} (h0 : s.toks = []) (h : s1.toks.length ≤ s.toks.length) : s1.toks = [] := by
  rw [h0] at h; exact List.eq_nil_of_length_eq_zero (by simpa using h)

/-! ### token-only loops -/

theorem identListLoop_rel {c c' : Ctx} (ck : Bool) :
    ∀ (n : Nat) (st st' : St) (acc : List (List Char)), st.toks.length = n → SRel x st st' →
      ERel (OLe x) (identListLoop c ck st acc) (identListLoop c' ck st' acc) := by
  intro n
  induction n using Nat.strongRecOn with
  | _ n ih =>
    intro st st' acc hn hs
    rcases peekn1_cases hs c!"]" ip with hp | h0
    rotate_left
    · rw [identListLoop_nil h0]; exact ERel.err
    rw [identListLoop.eq_1 c ck st acc, identListLoop.eq_1 c' ck st' acc, hp]
    by_cases hb : st.peekn 1 c!"]" ip = true <;> simp only [hb, if_true, Bool.false_eq_true, if_false]
    · exact ⟨rfl, hs⟩
    · refine ERel.bind (next_rel hs) ?_
      rintro ⟨t, s1, h1⟩ ⟨t', s1', h1'⟩ ⟨ht, hs1⟩
      simp only at ht hs1
      subst ht
      have rest : ERel (OLe x)
          (do checkExpectedIdentifier t
              let __x ← sepUnless s1 c!"]"
              let __x_1 ← identListLoop c ck __x.val (acc ++ [t.value])
              (pure ⟨__x_1.val, __x_1.st, by have := __x.2; have := __x_1.h; omega⟩ : Rle _ st.toks.length))
          (do checkExpectedIdentifier t
              let __x ← sepUnless s1' c!"]"
              let __x_1 ← identListLoop c' ck __x.val (acc ++ [t.value])
              (pure ⟨__x_1.val, __x_1.st, by have := __x.2; have := __x_1.h; omega⟩ : Rle _ st'.toks.length)) := by
        cases checkExpectedIdentifier t with
        | error e => exact ERel.err
        | ok u =>
          refine ERel.bind (r := fun _ _ => True) trivial ?_
          intro _ _ _
          refine ERel.bind (sepUnless_rel hs1 _) ?_
          rintro ⟨s2, h2⟩ ⟨s2', h2'⟩ hs2
          refine ERel.bind (ih s2.toks.length (by omega) s2 s2' _ rfl hs2) ?_
          rintro ⟨r, s3, h3⟩ ⟨r', s3', h3'⟩ ⟨hr, hs3⟩
          exact ⟨hr, hs3⟩
      cases ck <;> simp only [Bool.false_eq_true, if_false, if_true]
      · exact rest
      · cases checkRedefineKeyword t with
        | error e => exact ERel.err
        | ok u => exact rest

theorem forIdents_rel {c c' : Ctx} {st st' : St} (hs : SRel x st st') :
    ERel (OLt x) (forIdents c st) (forIdents c' st') := by
  unfold forIdents
  rcases matchIf_tab hs (v := c!"[") (ty := ip) (by tab) with
    ⟨e1, e2⟩ | ⟨⟨sa, ha⟩, ⟨sa', ha'⟩, e1, e2, hsa⟩ <;> rw [e1, e2]
  · refine ERel.bind (next_rel hs) ?_
    rintro ⟨t, s1, h1⟩ ⟨t', s1', h1'⟩ ⟨ht, hs1⟩
    simp only at ht hs1
    subst ht
    dsimp only
    cases checkExpectedIdentifier t with
    | error e => exact ERel.err
    | ok u => exact ⟨rfl, hs1⟩
  · refine ERel.bind (identListLoop_rel false _ sa sa' [] rfl hsa) ?_
    rintro ⟨ids, sb, hb⟩ ⟨ids', sb', hb'⟩ ⟨hi, hsb⟩
    refine ERel.bind (expect_rel hsb _ _) ?_
    rintro ⟨sc, hc⟩ ⟨sc', hc'⟩ hsc
    exact ⟨hi, hsc⟩

theorem requireSymLoop_rel :
    ∀ (n : Nat) (st st' : St) (acc : List (String × String)), st.toks.length = n → SRel x st st' →
      ERel (OLe x) (requireSymLoop st acc) (requireSymLoop st' acc) := by
  intro n
  induction n using Nat.strongRecOn with
  | _ n ih =>
    intro st st' acc hn hs
    rcases peekn1_cases hs c!"]" ip with hp | h0
    rotate_left
    · rw [requireSymLoop_nil h0]; exact ERel.err
    rw [requireSymLoop.eq_1 st acc, requireSymLoop.eq_1 st' acc, hp]
    by_cases hb : st.peekn 1 c!"]" ip = true <;> simp only [hb, if_true, Bool.false_eq_true, if_false]
    · exact ⟨rfl, hs⟩
    · refine ERel.bind (matchIdentifier_rel hs) ?_
      rintro ⟨sym, s1, h1⟩ ⟨sym', s1', h1'⟩ ⟨hsym, hs1⟩
      simp only at hsym hs1
      subst hsym
      rcases matchIf_tab hs1 (v := c!"as") (ty := kw) (by tab) with
        ⟨e1, e2⟩ | ⟨⟨s2, h2⟩, ⟨s2', h2'⟩, e1, e2, hs2⟩ <;> rw [e1, e2]
      · refine ERel.bind (sepUnless_rel hs1 _) ?_
        rintro ⟨s4, h4⟩ ⟨s4', h4'⟩ hs4
        refine ERel.bind (ih s4.toks.length (by simp only at h4; omega) s4 s4' _ rfl hs4) ?_
        rintro ⟨r, s5, h5⟩ ⟨r', s5', h5'⟩ ⟨hr, hs5⟩
        exact ⟨hr, hs5⟩
      · refine ERel.bind (matchIdentifier_rel hs2) ?_
        rintro ⟨name, s3, h3⟩ ⟨name', s3', h3'⟩ ⟨hname, hs3⟩
        simp only at hname hs3
        subst hname
        refine ERel.bind (sepUnless_rel hs3 _) ?_
        rintro ⟨s4, h4⟩ ⟨s4', h4'⟩ hs4
        refine ERel.bind (ih s4.toks.length (by simp only at h4 h2; omega) s4 s4' _ rfl hs4) ?_
        rintro ⟨r, s5, h5⟩ ⟨r', s5', h5'⟩ ⟨hr, hs5⟩
        exact ⟨hr, hs5⟩

theorem derefChain_rel :
    ∀ (n : Nat) (st st' : St) (fn : Node), st.toks.length = n → SRel x st st' →
      ERel (OLe x) (derefChain st fn) (derefChain st' fn) := by
  intro n
  induction n using Nat.strongRecOn with
  | _ n ih =>
    intro st st' fn hn hs
    rw [derefChain.eq_1 st fn, derefChain.eq_1 st' fn]
    rcases matchIf_tab hs (v := c!"->") (ty := op) (by tab) with
      ⟨e1, e2⟩ | ⟨⟨s1, h1⟩, ⟨s1', h1'⟩, e1, e2, hs1⟩ <;> rw [e1, e2]
    · exact ⟨rfl, hs⟩
    · refine ERel.bind (matchIdentifier_rel hs1) ?_
      rintro ⟨name, s2, h2⟩ ⟨name', s2', h2'⟩ ⟨hname, hs2⟩
      simp only at hname hs2
      subst hname
      have h := ih s2.toks.length (by omega) s2 s2' (.deref fn (strLit name s2.prev) .absent s2.prev) rfl hs2
      dsimp only
      rw [hs2.prev]
      refine ERel.bind h ?_
      rintro ⟨r, s3, h3⟩ ⟨r', s3', h3'⟩ ⟨hr, hs3⟩
      exact ⟨hr, hs3⟩

/-- related outcomes of `relopNext` -/
def RelopR (x : Ext) {P Q : St → Prop} :
    Option (List Char × { s : St // P s }) → Option (List Char × { s : St // Q s }) → Prop
  | none, none => True
  | some (r, a), some (r', a') => r' = r ∧ SRel x a.1 a'.1
  | _, _ => False

theorem relopNext_rel {c c' : Ctx} {st st' : St} (hs : SRel x st st') :
    ERel (RelopR x) (relopNext c st) (relopNext c' st') := by
  refine hs.elim_cases2 (fun p => ?_) (fun p t => ?_) (fun p t t2 rest => ?_)
  · simp [relopNext, x.not_relop, RelopR]
  · simp only [relopNext]
    by_cases h1 : (!isRelop t) = true <;> simp only [h1, if_true, if_false]
    · trivial
    · by_cases h2 : (t.value == c!"is") = true <;> simp only [h2, if_true, if_false]
      · exact ERel.err
      · exact ⟨rfl, SRel.mk' x _ _⟩
  · simp only [relopNext]
    by_cases h1 : (!isRelop t) = true <;> simp only [h1, if_true, if_false]
    · trivial
    · by_cases h2 : (t.value == c!"is") = true <;> simp only [h2, if_true, if_false]
      · by_cases h3 : (t2.value == c!"not") = true <;> simp only [h3, if_true, if_false]
        · exact ⟨rfl, SRel.mk' x _ _⟩
        · exact ⟨rfl, SRel.mk' x _ (t2 :: rest)⟩
      · exact ⟨rfl, SRel.mk' x _ (t2 :: rest)⟩

end Ckl.C14X
