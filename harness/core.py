"""Harness core: build management, model driver, evidence, violations.

Every check run is a fresh Python process which imports the CURRENT /repo/src
(nothing is cached from an earlier tree), regenerates the extracted tables,
rebuilds the Lean project (no-op when nothing changed), audits the proofs and
then runs the property's correspondence + oracle.
"""
import contextlib
import fcntl
import hashlib
import json
import os
import random
import re
import signal
import subprocess
import sys
import time

VERIF = os.path.dirname(os.path.dirname(os.path.abspath(__file__)))
REPO = os.environ.get("CKL_REPO", "/repo")
LEAN = os.path.join(VERIF, "lean")
DRIVER = os.path.join(LEAN, ".lake", "build", "bin", "driver")
# VERIF_EVIDENCE_DIR: runs against a deliberately changed /repo (harness.seedcheck) write their evidence elsewhere, so that the
# committed evidence always comes from the unchanged tree
EVIDENCE = os.environ.get("VERIF_EVIDENCE_DIR") or os.path.join(VERIF, "evidence")
REPLAYS = os.path.join(VERIF, "replays")
CACHE = os.path.join(VERIF, ".cache")

ALLOWED_AXIOMS = {"propext", "Classical.choice", "Quot.sound"}

TRUSTED_BASE = [
    "T1 Lean 4.33 kernel; axioms propext, Classical.choice, Quot.sound only",
    "T2 Layer-0 model of CPython primitives (validated against CPython on every run)",
    "T3 CPython: exact unbounded ints, exact int/float comparison, equal numbers hash equal, "
    "dict insertion order, repr(float)/float(str) round trip, sorted() correct for strict total orders",
    "T4 table extractors and the correspondence harness (generators, canonicalisers)",
    "T5 Lean compiler/runtime for the model driver (correspondence only; no theorem depends on it)",
    "T6 parts listed in DESIGN.md section 8 are modelled rather than verified",
]


def use_repo():
    """make `import ckl` resolve to the current working tree of /repo"""
    src = os.path.join(REPO, "src")
    if src not in sys.path:
        sys.path.insert(0, src)


class Timeout(BaseException):
    """BaseException: the interpreter's host-exception boundary (`except Exception`) must not turn the bound into a language-level error"""


@contextlib.contextmanager
def time_limit(seconds, real_factor=10):
    """bound on the CPU time of this process (ITIMER_PROF: the verdict must not depend on how busy the machine is — a
    wall-clock bound of 2 s alarmed on the unchanged tree when 16 workers shared the box with other jobs), with a wall-clock
    backstop for a program that blocks without computing"""
    def handler(signum, frame):
        raise Timeout()
    old_p = signal.signal(signal.SIGPROF, handler)
    old_a = signal.signal(signal.SIGALRM, handler)
    signal.setitimer(signal.ITIMER_PROF, seconds, 0.5)   # re-fires: a finally part of the program may swallow one
    signal.setitimer(signal.ITIMER_REAL, max(seconds * real_factor, 20), 0.5)
    try:
        yield
    finally:
        signal.setitimer(signal.ITIMER_PROF, 0)
        signal.setitimer(signal.ITIMER_REAL, 0)
        signal.signal(signal.SIGPROF, old_p)
        signal.signal(signal.SIGALRM, old_a)


# ----------------------------------------------------------------------------
# build + audit
# ----------------------------------------------------------------------------

def _hash_tree(paths):
    h = hashlib.sha256()
    for root in paths:
        for d, dirs, files in sorted(os.walk(root)):
            dirs[:] = sorted(x for x in dirs if x not in (".lake", "__pycache__"))
            for f in sorted(files):
                if f.endswith((".lean", ".toml", ".json")):
                    p = os.path.join(d, f)
                    h.update(p.encode())
                    with open(p, "rb") as fh:
                        h.update(fh.read())
    return h.hexdigest()


@contextlib.contextmanager
def build_lock():
    os.makedirs(CACHE, exist_ok=True)
    with open(os.path.join(CACHE, "build.lock"), "w") as fh:
        fcntl.flock(fh, fcntl.LOCK_EX)
        try:
            yield
        finally:
            fcntl.flock(fh, fcntl.LOCK_UN)


def forbidden_tokens():
    """grep the Lean sources for constructs that would weaken the proofs"""
    bad = []
    pat = re.compile(r"\b(sorry|admit|native_decide|bv_decide|implemented_by)\b|^\s*axiom\s|^\s*unsafe\s|maxHeartbeats\s+0\b")
    for d, dirs, files in os.walk(os.path.join(LEAN, "CklVerif")):
        for f in files:
            if not f.endswith(".lean"):
                continue
            p = os.path.join(d, f)
            in_block = 0
            for i, line in enumerate(open(p, encoding="utf-8"), 1):
                # strip comments (block comments tracked coarsely, line comments exactly)
                text = line
                if in_block:
                    if "-/" in text:
                        text = text.split("-/", 1)[1]
                        in_block = 0
                    else:
                        continue
                while "/-" in text:
                    pre, rest = text.split("/-", 1)
                    if "-/" in rest:
                        text = pre + rest.split("-/", 1)[1]
                    else:
                        text = pre
                        in_block = 1
                text = text.split("--", 1)[0]
                if pat.search(text):
                    bad.append(f"{os.path.relpath(p, LEAN)}:{i}: {line.strip()}")
    return bad


def run_gen():
    """regenerate lean/CklVerif/Gen/*.lean from /repo (table extractors)"""
    from harness import extract
    return extract.regenerate_all()


def lake_build(targets=None, timeout=3000):
    cmd = ["lake", "build"] + (targets or [])
    r = subprocess.run(cmd, cwd=LEAN, capture_output=True, text=True, timeout=timeout)
    return r.returncode, (r.stdout + r.stderr)


def audit_files(prop):
    pdir = os.path.join(LEAN, "CklVerif", "Proofs")
    out = []
    if os.path.isdir(pdir):
        for f in sorted(os.listdir(pdir)):
            if re.match(re.escape(prop) + r".*Audit\.lean$", f):
                out.append(os.path.join(pdir, f))
    return out


def run_audit(prop):
    """run the property's audit files (`#print axioms` for every property theorem).
    Returns (n_requested, {theorem: sorted axioms}, errors[])"""
    requested = 0
    results = {}
    errors = []
    for path in audit_files(prop):
        requested += sum(1 for line in open(path, encoding="utf-8") if re.match(r"\s*#print axioms\s+\S+", line))
        r = subprocess.run(["lake", "env", "lean", path], cwd=LEAN, capture_output=True, text=True, timeout=1800)
        flat = re.sub(r"\s+", " ", r.stdout + r.stderr)
        for m in re.finditer(r"'(\S+)' depends on axioms: \[([^\]]*)\]", flat):
            results[m.group(1)] = sorted(a.strip() for a in m.group(2).split(",") if a.strip())
        for m in re.finditer(r"'(\S+)' does not depend on any axioms", flat):
            results[m.group(1)] = []
        if r.returncode != 0 or re.search(r": error[:(]", flat):
            errors.append(os.path.basename(path) + ": " + flat[-600:])
    return requested, results, errors


class BuildResult:
    def __init__(self):
        self.ok = True
        self.log = ""
        self.gen_problems = []      # extractor problems / Gen theorem failures
        self.forbidden = []
        self.obligations = []       # theorem names for the property
        self.discharged = []
        self.failed = []            # (name, reason)


def audit_imports(prop):
    mods = []
    for path in audit_files(prop):
        for line in open(path, encoding="utf-8"):
            m = re.match(r"\s*import\s+(\S+)", line)
            if m and m.group(1) not in mods:
                mods.append(m.group(1))
    return mods


def run_leanchecker(prop):
    """thorough tier: replay the compiled proof modules of the property through `leanchecker`, the toolchain's independent re-checker
    of .olean files (every declaration is re-checked by the kernel from the stored terms). Returns a list of error texts."""
    mods = [m for m in audit_imports(prop) if ".Proofs." in m and not m.endswith("Audit")]
    if not mods:
        return []
    try:
        r = subprocess.run(["lake", "env", "leanchecker"] + mods, cwd=LEAN, capture_output=True, text=True, timeout=3000)
    except subprocess.TimeoutExpired:
        return ["leanchecker did not finish within 3000 s"]
    out = (r.stdout + r.stderr).strip()
    if r.returncode != 0 or out:
        return [f"leanchecker rejected {mods}: rc={r.returncode} {out[-600:]}"]
    return []


def build_and_audit(prop, thorough=False):
    """Rebuild from the current tree and audit the theorems of `prop`.
    Only the model driver and the proof modules of THIS property are built, so that a broken
    obligation of another property (e.g. a regenerated table theorem) does not raise an alarm here.
    Cached per content hash so that consecutive checks do not repeat work."""
    res = BuildResult()
    with build_lock():
        res.gen_problems = [p for p in run_gen() if GEN_OWNER.get(p.split(":")[0], prop) == prop]
        key = _hash_tree([os.path.join(LEAN, "CklVerif"), os.path.join(LEAN, "lakefile.toml"),
                          os.path.join(LEAN, "Main.lean"), os.path.join(LEAN, "CklVerif.lean")])
        stamp = os.path.join(CACHE, "build.json")
        cache = {}
        if os.path.exists(stamp):
            try:
                cache = json.load(open(stamp))
            except Exception:
                cache = {}
        if cache.get("key") != key or not os.path.exists(DRIVER):
            rc, log = lake_build(["driver"])
            cache = {"key": key, "rc": rc, "log": log[-20000:], "audit": {}}
            cache["forbidden"] = forbidden_tokens()
        res.ok = cache["rc"] == 0
        res.log = cache.get("log", "")
        res.forbidden = cache.get("forbidden", [])
        if prop not in cache["audit"]:
            mods = audit_imports(prop)
            rc2, log2 = lake_build(mods) if mods else (0, "")
            if rc2 != 0:
                cache["audit"][prop] = {"requested": 1, "results": {}, "errors": ["proof modules do not build: " + log2[-1500:]]}
            else:
                requested, results, errors = run_audit(prop)
                cache["audit"][prop] = {"requested": requested, "results": results, "errors": errors}
        if thorough and "leanchecker" not in cache["audit"][prop] and not cache["audit"][prop]["errors"]:
            cache["audit"][prop]["leanchecker"] = run_leanchecker(prop)
        json.dump(cache, open(stamp, "w"))
    a = cache["audit"][prop]
    if thorough:
        res.leanchecker = a.get("leanchecker", [])
        for e in res.leanchecker:
            res.failed.append(("<leanchecker>", e))
    if not res.ok:
        res.obligations = ["<model driver build>"]
        res.failed.append(("<model driver build>", "the executable model does not build: " + res.log[-800:]))
    res.obligations += sorted(a["results"].keys())
    for t, ax in a["results"].items():
        if set(ax) <= ALLOWED_AXIOMS:
            res.discharged.append(t)
        else:
            res.failed.append((t, f"depends on axioms {ax}"))
    missing = a["requested"] - len(a["results"])
    if missing > 0 or a["errors"]:
        res.obligations += [f"<unresolved #{i + 1}>" for i in range(max(missing, 1))]
        res.failed.append(("<audit>", f"{max(missing, 1)} audited theorem(s) did not check: {a['errors'][:2]}"))
    for f in res.forbidden:
        res.failed.append(("<source audit>", f))
    return res


# which property an extractor problem belongs to (prefix of the problem text)
GEN_OWNER = {"natives extractor": "C09", "predtable extractor": "C02", "syntaxtab extractor": "C14", "libsrc extractor": "C19"}


# ----------------------------------------------------------------------------
# model driver
# ----------------------------------------------------------------------------

def run_driver(lines, timeout=1800):
    """send request lines to the compiled Lean driver, return response lines"""
    if not lines:
        return []
    data = "\n".join(lines) + "\n"
    r = subprocess.run([DRIVER], input=data, capture_output=True, text=True, timeout=timeout)
    out = r.stdout.split("\n")
    if out and out[-1] == "":
        out.pop()
    if r.returncode != 0 or len(out) != len(lines):
        raise RuntimeError(f"driver failure rc={r.returncode} got {len(out)} responses for {len(lines)} requests: {r.stderr[-2000:]}")
    return out


# ----------------------------------------------------------------------------
# check context
# ----------------------------------------------------------------------------

class Ctx:
    def __init__(self, prop, tier, seed):
        self.prop = prop
        self.tier = tier
        self.seed = seed
        self.rng = random.Random(seed * 1000003 + int(hashlib.sha256(prop.encode()).hexdigest()[:8], 16))
        self.t0 = time.time()
        self.evaluations = 0
        self.nontrivial = set()
        self.samples = []
        self.violations = []        # dicts
        self.known_hits = {}        # key -> description
        self.coverage = {}          # free-form counters
        self.notes = []
        self.rule = ""
        self.exhaustive = False
        self.disagreements = 0
        self.suppressed = 0
        self.auto_samples = []      # actual cases of this run, taken as they are explored
        self.build = None
        self.known = load_known_findings().get(prop, [])

    @property
    def thorough(self):
        return self.tier == "thorough"

    def count(self, key, n=1):
        self.coverage[key] = self.coverage.get(key, 0) + n

    def seen(self, canonical, nontrivial=True):
        """count one evaluation; `canonical` identifies the input for distinctness"""
        self.evaluations += 1
        if nontrivial:
            h = hash(canonical)
            if h not in self.nontrivial and (len(self.auto_samples) < 6 or (len(self.auto_samples) < 12 and self.evaluations % 997 == 0)):
                self.auto_samples.append(repr(canonical)[:400])
            self.nontrivial.add(h)

    def sample(self, x, limit=12):
        if len(self.samples) < limit:
            self.samples.append(x)

    def violation(self, kind, detail, replay):
        """kind: 'oracle' (property fails on the implementation) or 'correspondence'
        (model != implementation, with oracle verdict) or 'proof' (obligation broken)"""
        for k in self.known:
            if k.get("status", "open") == "open" and k["key"] == replay.get("finding_key"):
                self.known_hits[k["key"]] = k["what"]
                return
        if sum(1 for v in self.violations if (v["kind"] == "correspondence") == (kind == "correspondence")) >= 40:
            self.suppressed += 1
            return
        self.violations.append({"kind": kind, "detail": detail, "replay": replay})

    def elapsed(self):
        return time.time() - self.t0


def load_known_findings():
    p = os.path.join(VERIF, "known_findings.json")
    res = {}
    if os.path.exists(p):
        for e in json.load(open(p)).get("findings", []):
            res.setdefault(e["property"], []).append(e)
    return res


def write_replay(ctx, n, payload):
    os.makedirs(REPLAYS, exist_ok=True)
    path = os.path.join(REPLAYS, f"{ctx.prop}-{ctx.seed}-{n}.json")
    with open(path, "w") as fh:
        json.dump(payload, fh, indent=1, default=str)
    return path


def write_evidence(ctx, level_note_extra=None):
    os.makedirs(EVIDENCE, exist_ok=True)
    b = ctx.build
    cov = {
        "obligations": max(1, len(b.obligations)) if b else 1,
        "discharged": len(b.discharged) if b else 0,
        "checker_cmd": "cd lean && lake build && lake env lean <audit file with #print axioms for every property theorem>",
        "trusted_base": TRUSTED_BASE,
        "theorems": b.obligations if b else [],
        "theorems_failed": [f"{n}: {r}" for n, r in (b.failed if b else [])],
        "evaluations": ctx.evaluations,
        "distinct_nontrivial": len(ctx.nontrivial),
        "rule": ctx.rule,
        "samples": ([{"explored_case": x} for x in ctx.auto_samples] + ctx.samples[:12]) or ["<none>"],
        "disagreements_checked": ctx.disagreements,
        "exhaustive": ctx.exhaustive,
        "branch_coverage": ctx.coverage,
        "known_findings_hit": ctx.known_hits,
        "notes": ctx.notes,
    }
    ev = {
        "property_id": ctx.prop,
        "tier": ctx.tier,
        "seed": ctx.seed,
        "level": "proof",
        "coverage": cov,
        "assumptions": TRUSTED_BASE + (level_note_extra or []),
        "wall_s": round(ctx.elapsed(), 2),
        "violations": len(ctx.violations),
    }
    with open(os.path.join(EVIDENCE, f"{ctx.prop}.json"), "w") as fh:
        json.dump(ev, fh, indent=1, default=str)
