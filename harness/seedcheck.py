"""Evaluate seeded changes against the checks.

  python -m harness.seedcheck import <outdir>        copy <outdir>/Cxx-k.{diff,json} + demo into /verif/seeded/Cxx-<tag>k/ after
                                                     verifying (scratch worktree): patch applies, suite passes, demo fails with / passes without
  python -m harness.seedcheck run [ID…] [--all-checks]   apply each seeded patch to a scratch worktree of /repo's HEAD, point the property's quick check
                                                     (or all checks) at it (CKL_REPO), record the outcome in meta.json

The seeded changes are never applied to /repo itself.
"""
import glob
import json
import os
import shutil
import subprocess
import sys
import tempfile

VERIF = os.path.dirname(os.path.dirname(os.path.abspath(__file__)))
SEEDED = os.path.join(VERIF, "seeded")
REPO = "/repo"
PY = "/venv/bin/python"


def sh(cmd, cwd=None, timeout=1800, env=None):
    r = subprocess.run(cmd, cwd=cwd, shell=isinstance(cmd, str), capture_output=True, text=True, timeout=timeout, env=env)
    return r.returncode, r.stdout + r.stderr


def verify(diff, demo):
    """in a scratch worktree: suite green with the patch, demo fails with it and passes without"""
    wt = tempfile.mkdtemp(prefix="seedwt")
    os.rmdir(wt)
    res = {}
    try:
        rc, out = sh(["git", "-C", REPO, "worktree", "add", "--detach", wt, os.environ.get("SEEDCHECK_BASE", "HEAD"), "-q"])
        if rc != 0:
            return {"error": "worktree: " + out[-300:]}
        env = dict(os.environ, PYTHONPATH=os.path.join(wt, "src"))
        rc0, out0 = sh([PY, demo, os.path.join(wt, "src")], timeout=300, env=env)
        res["demo_without_change"] = rc0
        rc, out = sh(["git", "-C", wt, "apply", diff])
        if rc != 0:
            return {"error": "patch does not apply: " + out[-300:]}
        rc, out = sh([PY, "-m", "pytest", "-q", "-p", "no:cacheprovider", "tests"], cwd=wt, timeout=900, env=env)
        res["suite"] = out.strip().splitlines()[-1] if out.strip() else ""
        res["suite_ok"] = rc == 0 and "854 passed" in out
        rc1, out1 = sh([PY, demo, os.path.join(wt, "src")], timeout=300, env=env)
        res["demo_with_change"] = rc1
        res["demo_output"] = out1[-400:]
        res["confirmed"] = bool(res["suite_ok"] and rc0 == 0 and rc1 != 0)
    finally:
        sh(["git", "-C", REPO, "worktree", "remove", "--force", wt])
        shutil.rmtree(wt, ignore_errors=True)
    return res


def do_import(outdir, tag):
    for meta_path in sorted(glob.glob(os.path.join(outdir, "C*-*.json"))):
        base = meta_path[:-5]
        name = os.path.basename(base)
        diff, demo = base + ".diff", base + "_demo.py"
        if not (os.path.exists(diff) and os.path.exists(demo)):
            print(name, "incomplete")
            continue
        meta = json.load(open(meta_path))
        v = verify(diff, demo)
        print(name, v.get("confirmed"), v.get("suite"), v.get("error", ""))
        if not v.get("confirmed"):
            continue
        prop, k = name.split("-")
        d = os.path.join(SEEDED, f"{prop}-{tag}{k}")
        os.makedirs(d, exist_ok=True)
        shutil.copy(diff, os.path.join(d, "patch.diff"))
        shutil.copy(demo, os.path.join(d, "demo.py"))
        meta_out = {"property": meta.get("property", prop), "summary": meta.get("summary"), "needs": meta.get("needs"), "files": meta.get("files"),
                    "origin": "fresh sub-agent given only the property text and its own worktree",
                    "verified": {"suite": v["suite"], "demo_without_change_exit": v["demo_without_change"], "demo_with_change_exit": v["demo_with_change"],
                                 "how": "git worktree of /repo HEAD; pytest tests with PYTHONPATH=<worktree>/src; python demo.py <worktree>/src before and after `git apply patch.diff`"}}
        json.dump(meta_out, open(os.path.join(d, "meta.json"), "w"), indent=1)


def run_checks(ids, all_checks):
    """each seeded patch is applied to a scratch worktree of /repo's HEAD and the checks are pointed at it (CKL_REPO); /repo itself
    is never touched"""
    dirs = sorted(glob.glob(os.path.join(SEEDED, "C*-*")))
    for d in dirs:
        name = os.path.basename(d)
        if ids and name not in ids and name.split("-")[0] not in ids:
            continue
        meta_p = os.path.join(d, "meta.json")
        meta = json.load(open(meta_p))
        wt = tempfile.mkdtemp(prefix="seedrun")
        os.rmdir(wt)
        results = {}
        try:
            rc, out = sh(["git", "-C", REPO, "worktree", "add", "--detach", wt, os.environ.get("SEEDCHECK_BASE", "HEAD"), "-q"])
            if rc != 0:
                print(name, "worktree:", out[-200:])
                continue
            rc, out = sh(["git", "-C", wt, "apply", os.path.join(d, "patch.diff")])
            if rc != 0:
                print(name, "patch does not apply:", out[-200:])
                continue
            props = [f"C{i:02d}" for i in range(1, 21)] if all_checks else [meta["property"]]
            for p in props:
                scratch_ev = tempfile.mkdtemp(prefix="seedev")
                try:
                    rc, out = sh([os.path.join(VERIF, "check"), p, "quick"], cwd=VERIF, timeout=3000,
                                 env=dict(os.environ, VERIF_EVIDENCE_DIR=scratch_ev, CKL_REPO=wt))
                finally:
                    shutil.rmtree(scratch_ev, ignore_errors=True)
                viol = [ln for ln in out.splitlines() if ln.startswith("VIOLATION")]
                detail = ""
                if viol:
                    rp = viol[0].split("replay=")[1].split()[0]
                    try:
                        detail = json.load(open(rp)).get("detail", "")[:300]
                    except Exception:  # noqa
                        pass
                results[p] = {"exit": rc, "violations": len(viol), "no_failing_input": any("no-failing-input-found" in v for v in viol) and
                              not any("no-failing-input-found" not in v for v in viol), "first": detail}
        finally:
            sh(["git", "-C", REPO, "worktree", "remove", "--force", wt])
            shutil.rmtree(wt, ignore_errors=True)
        if not results:
            continue
        meta["checks_run"] = results
        meta["caught_by_own_property_check"] = results.get(meta["property"], {}).get("exit") == 1
        meta["caught_by"] = sorted(p for p, r in results.items() if r["exit"] == 1)
        json.dump(meta, open(meta_p, "w"), indent=1)
        print(name, "caught by", meta["caught_by"], "|", results.get(meta["property"], {}).get("first", "")[:160], flush=True)


def table():
    """markdown table of the seeded changes for DESIGN.md"""
    print("| change | file(s) | what the edit does | caught by | first failing input reported | history |")
    print("|---|---|---|---|---|---|")
    for d in sorted(glob.glob(os.path.join(SEEDED, "C*-*"))):
        m = json.load(open(os.path.join(d, "meta.json")))
        r = m.get("checks_run", {}).get(m["property"], {})
        first = (r.get("first") or ("(correspondence / proof obligation only: no-failing-input-found)" if r.get("no_failing_input") else "")).replace("|", "\\|").replace("\n", " ")[:150]
        files = ", ".join(os.path.basename(f) for f in (m.get("files") or []))
        what = (m.get("summary") or "").replace("|", "\\|").replace("\n", " ")[:220]
        print(f"| {os.path.basename(d)} | {files} | {what} | {', '.join(m.get('caught_by') or []) or 'MISSED'} | {first} | {m.get('first_run', '')} |")


def design():
    """rewrite the table between the SEEDED-TABLE markers of DESIGN.md"""
    import io
    import contextlib
    buf = io.StringIO()
    with contextlib.redirect_stdout(buf):
        table()
    path = os.path.join(VERIF, "DESIGN.md")
    text = open(path, encoding="utf-8").read()
    b, e = "<!-- SEEDED-TABLE-BEGIN -->", "<!-- SEEDED-TABLE-END -->"
    i, j = text.index(b) + len(b), text.index(e)
    open(path, "w", encoding="utf-8").write(text[:i] + "\n" + buf.getvalue() + text[j:])


def main():
    a = sys.argv[1:]
    if a and a[0] == "table":
        return table()
    if a and a[0] == "design":
        return design()
    if a and a[0] == "import":
        do_import(a[1], a[2] if len(a) > 2 else "")
    elif a and a[0] == "run":
        all_checks = "--all-checks" in a
        run_checks([x for x in a[1:] if not x.startswith("--")], all_checks)
    else:
        print(__doc__)


if __name__ == "__main__":
    main()
