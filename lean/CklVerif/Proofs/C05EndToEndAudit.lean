import CklVerif.Proofs.C05EndToEnd
import CklVerif.Lemmas.E2EBridge

#print axioms Ckl.E2E.parse_error_of_expr
#print axioms Ckl.E2E.pre_error
#print axioms Ckl.E2E.scan_errorText
#print axioms Ckl.E2E.parseScript_errorText
#print axioms Ckl.E2E.uncaught_error_reaches_interpret_src
#print axioms Ckl.E2E.error_text_reaches_interpret
#print axioms Ckl.E2E.error_literal_reaches_interpret
#print axioms Ckl.E2E.newline_not_mem_renderInt
#print axioms Ckl.E2E.error_int_reaches_interpret
#print axioms Ckl.E2E.error_str_reaches_interpret
#print axioms Ckl.E2E.error_int_value_is_reported
#print axioms Ckl.E2E.interpretSource_eq_C14X
#print axioms Ckl.E2E.runSessionSrc_eq_C14X
#print axioms Ckl.E2E.finally_exactly_once_src
#print axioms Ckl.E2E.session_finally_exactly_once
#print axioms Ckl.E2E.session_counters_agree
