import CklVerif.Lemmas.C14EvalStep2

/-! C14 (evaluator part) — induction steps: comprehension loops, `sorted` -/
namespace Ckl.C14E
open Ckl
set_option linter.unusedVariables false

variable {ld : Loader} {fuel : Nat}

theorem comprLoop_step1 (ih : SAll ld fuel) (lenv : EnvId) (kind : ComprKind) (ve ke cond : Node) (p p' : Pos)
    {l l' : List (String × List RVal)} {acc acc' : List (RVal × RVal)} (hl : ers l = ers l') (ha : ers acc = ers acc') :
    Resp (comprLoop ld (fuel + 1) lenv kind ve ke cond p l acc)
      (comprLoop ld (fuel + 1) lenv kind (ers ve) (ers ke) (ers cond) p' l' acc') := by
  ih_intro ih
  sim_cases hl
  · unfold Ckl.comprLoop; resp
  · rename_i h1 h2
    sim_cases h1
    rename_i h3
    sim_cases h3 <;> sim_cases h2 <;> unfold Ckl.comprLoop <;> resp!


theorem comprProduct_step1 (ih : SAll ld fuel) (lenv : EnvId) (kind : ComprKind) (ve ke cond : Node) (p p' : Pos)
    (x1 : String) {vs vs' : List RVal} (x2 : String) {ws ws' : List RVal} {acc acc' : List (RVal × RVal)}
    (hv : ers vs = ers vs') (hw : ers ws = ers ws') (ha : ers acc = ers acc') :
    Resp (comprProduct ld (fuel + 1) lenv kind ve ke cond p x1 vs x2 ws acc)
      (comprProduct ld (fuel + 1) lenv kind (ers ve) (ers ke) (ers cond) p' x1 vs' x2 ws' acc') := by
  ih_intro ih
  sim_cases hv <;> unfold Ckl.comprProduct <;> resp!

theorem comprParallel_step1 (ih : SAll ld fuel) (lenv : EnvId) (kind : ComprKind) (ve ke cond : Node) (p p' : Pos)
    (x1 : String) {vs vs' : List RVal} (x2 : String) {ws ws' : List RVal} {acc acc' : List (RVal × RVal)}
    (hv : ers vs = ers vs') (hw : ers ws = ers ws') (ha : ers acc = ers acc') :
    Resp (comprParallel ld (fuel + 1) lenv kind ve ke cond p x1 vs x2 ws acc)
      (comprParallel ld (fuel + 1) lenv kind (ers ve) (ers ke) (ers cond) p' x1 vs' x2 ws' acc') := by
  ih_intro ih
  sim_cases hv <;> sim_cases hw <;> unfold Ckl.comprParallel <;> resp!

theorem call1_step1 (ih : SAll ld fuel) {f f' x x' : RVal} (env : EnvId) {p p' : Pos}
    (hf : ers f = ers f') (hx : ers x = ers x') :
    Resp (call1 ld (fuel + 1) f x env p) (call1 ld (fuel + 1) f' x' env p') := by
  ih_intro ih
  unfold Ckl.call1
  resp!

theorem call2_step1 (ih : SAll ld fuel) {f f' x x' y y' : RVal} (env : EnvId) {p p' : Pos}
    (hf : ers f = ers f') (hx : ers x = ers x') (hy : ers y = ers y') :
    Resp (call2 ld (fuel + 1) f x y env p) (call2 ld (fuel + 1) f' x' y' env p') := by
  ih_intro ih
  unfold Ckl.call2
  resp!

theorem sortedOuter_step1 (ih : SAll ld fuel) {cmp cmp' key key' : RVal} (senv : EnvId) {p p' : Pos}
    {arr arr' : Array RVal} (i : Nat) (hc : ers cmp = ers cmp') (hk : ers key = ers key') (ha : ers arr = ers arr') :
    Resp (sortedOuter ld (fuel + 1) cmp key senv p arr i) (sortedOuter ld (fuel + 1) cmp' key' senv p' arr' i) := by
  ih_intro ih
  unfold Ckl.sortedOuter
  resp!

theorem sortedInner_step1 (ih : SAll ld fuel) {cmp cmp' key key' : RVal} (senv : EnvId) {p p' : Pos}
    {arr arr' : Array RVal} {v v' : RVal} (j : Nat) (hc : ers cmp = ers cmp') (hk : ers key = ers key')
    (ha : ers arr = ers arr') (hv : ers v = ers v') :
    Resp (sortedInner ld (fuel + 1) cmp key senv p arr v j) (sortedInner ld (fuel + 1) cmp' key' senv p' arr' v' j) := by
  ih_intro ih
  cases j <;> unfold Ckl.sortedInner <;> resp!

theorem nativeSorted_step1 (ih : SAll ld fuel) {b b' : List (String × RVal)} (env : EnvId) {p p' : Pos}
    (hb : ers b = ers b') :
    Resp (nativeSorted ld (fuel + 1) b env p) (nativeSorted ld (fuel + 1) b' env p') := by
  ih_intro ih
  unfold Ckl.nativeSorted
  resp!

end Ckl.C14E
