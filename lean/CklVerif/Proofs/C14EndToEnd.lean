import CklVerif.Lemmas.C14EndToEnd
import CklVerif.Proofs.C14Eval
import CklVerif.Proofs.C14Parse
import CklVerif.Proofs.C14Spell

/-!
  C14, end to end — changing only the LAYOUT (white space, line breaks incl. CRLF, `#` comments at a
  token boundary) or the SPELLING of a literal of a program text changes neither the value it
  evaluates to, nor what it prints, nor the error value and message it ends with, nor the message
  of the syntax error it is rejected with.

  `interpretSource` mirrors `Interpreter.interpret(script, filename)`: `parse_script` (scanner +
  parser, `parseScript`), then `interpretProg`; a `CklSyntaxError` of the front end is the outcome
  `.fail (.syn e)` in the unchanged state.

  The pieces: `C14.layout_insertion` (scanner), `C14P.parse_layout_irrelevant` (parser),
  `C14E.interpretProg_pos_irrelevant` (evaluator), `C14S.*` (spellings), and the bridge
  `erase_eq` between the position erasers of the parser and of the evaluator proofs.
-/
namespace Ckl.C14X
open Ckl Ckl.C14E

/-! ### the bridge -/

/-- the position eraser of the parser proofs is the position eraser of the evaluator proofs -/
theorem erase_eq (n : Node) : C02P.erase n = n.erase := erase_bridge n

/-- ASTs that the parser theorems call "equal up to positions" are `NodeSim` -/
theorem nodeSim_of_erase {n n' : Node} (h : C02P.erase n = C02P.erase n') : NodeSim n n' := by
  rw [erase_eq, erase_eq] at h; exact h

theorem nodeSim_iff_erase {n n' : Node} : NodeSim n n' ↔ C02P.erase n = C02P.erase n' := by
  rw [erase_eq, erase_eq]; exact Iff.rfl

/-! ### source texts with the same parse up to positions -/

/-- the two texts parse to ASTs equal up to positions, or are both rejected with the same message
    (`C14P.scriptOutcome`: the erased AST, or the message) — an equivalence relation -/
def SrcSim (file : String) (a b : List Char) : Prop :=
  C14P.scriptOutcome (parseScript a file) = C14P.scriptOutcome (parseScript b file)

theorem SrcSim.refl (file : String) (a : List Char) : SrcSim file a a := rfl
theorem SrcSim.symm {file : String} {a b : List Char} (h : SrcSim file a b) : SrcSim file b a := Eq.symm h
theorem SrcSim.trans {file : String} {a b c : List Char} (h1 : SrcSim file a b) (h2 : SrcSim file b c) :
    SrcSim file a c := Eq.trans h1 h2

/-- both parse, to similar ASTs -/
theorem SrcSim.of_ok {file : String} {a b : List Char} {n n' : Node} (ha : parseScript a file = .ok n)
    (hb : parseScript b file = .ok n') (h : NodeSim n n') : SrcSim file a b := by
  unfold SrcSim; rw [ha, hb]; simp only [C14P.scriptOutcome, C14P.erase, nodeSim_iff_erase.1 h]

/-- both are rejected, with the same message -/
theorem SrcSim.of_error {file : String} {a b : List Char} {e e' : SynErr} (ha : parseScript a file = .error e)
    (hb : parseScript b file = .error e') (h : e.msg = e'.msg) : SrcSim file a b := by
  unfold SrcSim; rw [ha, hb]; simp only [C14P.scriptOutcome, h]

theorem SrcSim.cases {file : String} {a b : List Char} (h : SrcSim file a b) :
    (∃ n n', parseScript a file = .ok n ∧ parseScript b file = .ok n' ∧ NodeSim n n') ∨
    (∃ e e', parseScript a file = .error e ∧ parseScript b file = .error e' ∧ e.msg = e'.msg) := by
  unfold SrcSim at h
  cases ha : parseScript a file with
  | ok n =>
    cases hb : parseScript b file with
    | ok n' =>
      rw [ha, hb] at h
      simp only [C14P.scriptOutcome, Except.ok.injEq] at h
      exact Or.inl ⟨n, n', rfl, rfl, nodeSim_of_erase h⟩
    | error e' => rw [ha, hb] at h; cases h
  | error e =>
    cases hb : parseScript b file with
    | ok n' => rw [ha, hb] at h; cases h
    | error e' =>
      rw [ha, hb] at h
      simp only [C14P.scriptOutcome, Except.error.injEq] at h
      exact Or.inr ⟨e, e', rfl, rfl, h⟩

/-- one layout change: a filler inserted at a token boundary -/
theorem srcSim_layout (file : String) (u w v : List Char) (hu : C14.AtBoundary file u) (hw : Lexer.Filler w) :
    SrcSim file (u ++ w ++ v) (u ++ v) :=
  C14P.parse_layout_irrelevant (fun _ => true) file u w v hu hw

/-- texts that differ by layout only: any number of fillers (white space, line breaks, comments)
    inserted or removed at token boundaries -/
inductive LayoutEq (file : String) : List Char → List Char → Prop
  | refl (a : List Char) : LayoutEq file a a
  | insert (u w v : List Char) (hu : C14.AtBoundary file u) (hw : Lexer.Filler w) : LayoutEq file (u ++ w ++ v) (u ++ v)
  | symm {a b : List Char} : LayoutEq file a b → LayoutEq file b a
  | trans {a b c : List Char} : LayoutEq file a b → LayoutEq file b c → LayoutEq file a c

theorem LayoutEq.srcSim {file : String} {a b : List Char} (h : LayoutEq file a b) : SrcSim file a b := by
  induction h with
  | refl a => exact SrcSim.refl file a
  | insert u w v hu hw => exact srcSim_layout file u w v hu hw
  | symm _ ih => exact ih.symm
  | trans _ _ ih1 ih2 => exact ih1.trans ih2

/-- CRLF versus LF at a token boundary -/
theorem LayoutEq.crlf (file : String) (u v : List Char) (hu : C14.AtBoundary file u) :
    LayoutEq file (u ++ '\r' :: '\n' :: v) (u ++ '\n' :: v) := by
  have h := LayoutEq.insert (file := file) u ['\r'] ('\n' :: v) hu
    (Lexer.Filler.ws (by simp [Lexer.whitespace]) Lexer.Filler.nil)
  simpa using h

/-- a comment line at a token boundary -/
theorem LayoutEq.comment (file : String) (u body v : List Char) (hu : C14.AtBoundary file u) (hb : '\n' ∉ body) :
    LayoutEq file (u ++ '#' :: (body ++ '\n' :: v)) (u ++ v) := by
  have h := LayoutEq.insert (file := file) u ('#' :: (body ++ ['\n'])) v hu
    (by simpa using Lexer.Filler.comment hb Lexer.Filler.nil)
  simpa using h

/-! ### `Interpreter.interpret` on a source text -/

/-- `Interpreter.interpret(script, filename)`: scan and parse, then evaluate in the session frame; a syntax
    error of the front end is the outcome `.fail (.syn e)`, the state is untouched -/
def interpretSource (ld : Loader) (fuel : Nat) (senv : EnvId) (src : List Char) (file : String := "-") : EvalM RVal :=
  fun s =>
    match parseScript src file with
    | .ok ast => interpretProg ld fuel senv ast s
    | .error e => .fail (.syn e) s

/-- forget where a syntax error was found (and whether it was found at the end of the input) -/
def forgetSyn {α : Type} : Out α → Out α
  | .fail (.syn e) s => .fail (.syn { msg := e.msg, pos := default, eof := false }) s
  | o => o

/-- `OutSim`, and in addition two syntax errors are similar when they have the same message -/
def OutSimX {α : Type} [Ers α] (a b : Out α) : Prop := forgetSyn (ers a) = forgetSyn (ers b)

theorem OutSimX.refl {α} [Ers α] (a : Out α) : OutSimX a a := rfl
theorem OutSimX.symm {α} [Ers α] {a b : Out α} (h : OutSimX a b) : OutSimX b a := Eq.symm h
theorem OutSimX.trans {α} [Ers α] {a b c : Out α} (h1 : OutSimX a b) (h2 : OutSimX b c) : OutSimX a c :=
  Eq.trans h1 h2
theorem OutSim.toX {α} [Ers α] {a b : Out α} (h : OutSim a b) : OutSimX a b := congrArg forgetSyn h

theorem outSimX_syn {α} [Ers α] {e e' : SynErr} {s s' : State} (hm : e.msg = e'.msg) (hs : StateSim s s') :
    OutSimX (.fail (.syn e) s : Out α) (.fail (.syn e') s') := by
  simp only [OutSimX, ers_fail, ers_fsyn, forgetSyn, hm, show ers s = ers s' from hs]

/-- `OutSimX`, spelled out -/
theorem OutSimX.cases {α} [Ers α] {o o' : Out α} (h : OutSimX o o') :
    (∃ a a' s s', o = .ok a s ∧ o' = .ok a' s' ∧ ers a = ers a' ∧ StateSim s s') ∨
    (∃ v v' m p p' t t' s s', o = .err v m p t s ∧ o' = .err v' m p' t' s' ∧ RValSim v v' ∧
      t.map (·.1) = t'.map (·.1) ∧ StateSim s s') ∨
    (∃ e e' s s', o = .fail (.syn e) s ∧ o' = .fail (.syn e') s' ∧ e.msg = e'.msg ∧ StateSim s s') ∨
    (∃ f f' s s', o = .fail f s ∧ o' = .fail f' s' ∧ ers f = ers f' ∧ StateSim s s') := by
  unfold OutSimX at h
  have key : ∀ (e : SynErr) (s : State) (x : Out α),
      forgetSyn (ers (Out.fail (.syn e) s : Out α)) = forgetSyn (ers x) →
      ∃ e' s', x = .fail (.syn e') s' ∧ e.msg = e'.msg ∧ ers s = ers s' := by
    intro e s x hx
    cases x with
    | ok a t => simp [forgetSyn] at hx
    | err v m p t u => simp [forgetSyn] at hx
    | fail f' t =>
      cases f' with
      | syn e' =>
        simp only [ers_fail, ers_fsyn, forgetSyn, Out.fail.injEq, Fail.syn.injEq, SynErr.mk.injEq, and_true] at hx
        exact ⟨e', t, rfl, hx.1, hx.2⟩
      | oof => simp [forgetSyn] at hx
      | unsupported w => simp [forgetSyn] at hx
      | host k => simp [forgetSyn] at hx
  by_cases hsyn : (∃ e s, o = .fail (.syn e) s) ∨ (∃ e s, o' = .fail (.syn e) s)
  · rcases hsyn with ⟨e, s, rfl⟩ | ⟨e, s, rfl⟩
    · obtain ⟨e', s', rfl, hm, hs⟩ := key e s o' h
      exact Or.inr (Or.inr (Or.inl ⟨e, e', s, s', rfl, rfl, hm, hs⟩))
    · obtain ⟨e', s', rfl, hm, hs⟩ := key e s o h.symm
      exact Or.inr (Or.inr (Or.inl ⟨e', e, s', s, rfl, rfl, hm.symm, hs.symm⟩))
  · have h1 : forgetSyn (ers o) = ers o := by
      cases o with
      | ok a t => rfl
      | err v m p t u => rfl
      | fail f t => cases f <;> first | rfl | exact absurd (Or.inl ⟨_, _, rfl⟩) hsyn
    have h2 : forgetSyn (ers o') = ers o' := by
      cases o' with
      | ok a t => rfl
      | err v m p t u => rfl
      | fail f t => cases f <;> first | rfl | exact absurd (Or.inr ⟨_, _, rfl⟩) hsyn
    rw [h1, h2] at h
    rcases Out.sim_cases h with h3 | h3 | h3
    · exact Or.inl h3
    · exact Or.inr (Or.inl h3)
    · exact Or.inr (Or.inr (Or.inr h3))

theorem OutSimX.state {α} [Ers α] {o o' : Out α} (h : OutSimX o o') : StateSim o.finalState o'.finalState := by
  rcases h.cases with ⟨_, _, _, _, rfl, rfl, _, h⟩ | ⟨_, _, _, _, _, _, _, _, _, rfl, rfl, _, _, h⟩ |
    ⟨_, _, _, _, rfl, rfl, _, h⟩ | ⟨_, _, _, _, rfl, rfl, _, h⟩ <;> exact h

/-! ### the flagship theorem -/

/-- texts with the same parse up to positions, interpreted in similar states, give similar outcomes -/
theorem interpretSource_srcSim (ld : Loader) (hn : NativeSim ld) (fuel : Nat) (senv : EnvId) (file : String)
    {a b : List Char} {s s' : State} (h : SrcSim file a b) (hs : StateSim s s') :
    OutSimX (interpretSource ld fuel senv a file s) (interpretSource ld fuel senv b file s') := by
  rcases h.cases with ⟨n, n', ha, hb, hn'⟩ | ⟨e, e', ha, hb, hm⟩
  · simp only [interpretSource, ha, hb]
    exact OutSim.toX (interpretProg_pos_irrelevant ld hn fuel senv hn' hs)
  · simp only [interpretSource, ha, hb]
    exact outSimX_syn hm hs

/-- **C14, end to end (layout)**: for every loader whose unmodelled built-ins respect similarity, every
    fuel, session frame and pair of similar states (in particular: the same state), and every text
    `u ++ v` where `u` ends at a token boundary: inserting a filler `w` — white space, line breaks
    including CRLF, complete `#` comments — gives a similar outcome: the same value (up to positions
    inside control / node values), the same printed output, the same error value, message and
    function names of the trace, the same kind of failure, or a syntax error with the same message. -/
theorem interpret_layout_irrelevant (ld : Loader) (hn : NativeSim ld) (fuel : Nat) (senv : EnvId) (file : String)
    (u w v : List Char) {s s' : State} (hu : C14.AtBoundary file u) (hw : Lexer.Filler w) (hs : StateSim s s') :
    OutSimX (interpretSource ld fuel senv (u ++ w ++ v) file s) (interpretSource ld fuel senv (u ++ v) file s') :=
  interpretSource_srcSim ld hn fuel senv file (srcSim_layout file u w v hu hw) hs

/-- … and any number of layout changes -/
theorem interpret_layoutEq_irrelevant (ld : Loader) (hn : NativeSim ld) (fuel : Nat) (senv : EnvId) (file : String)
    {a b : List Char} {s s' : State} (h : LayoutEq file a b) (hs : StateSim s s') :
    OutSimX (interpretSource ld fuel senv a file s) (interpretSource ld fuel senv b file s') :=
  interpretSource_srcSim ld hn fuel senv file h.srcSim hs

/-- CRLF line ends versus LF line ends -/
theorem interpret_crlf_lf (ld : Loader) (hn : NativeSim ld) (fuel : Nat) (senv : EnvId) (file : String)
    (u v : List Char) {s s' : State} (hu : C14.AtBoundary file u) (hs : StateSim s s') :
    OutSimX (interpretSource ld fuel senv (u ++ '\r' :: '\n' :: v) file s)
      (interpretSource ld fuel senv (u ++ '\n' :: v) file s') :=
  interpret_layoutEq_irrelevant ld hn fuel senv file (LayoutEq.crlf file u v hu) hs

/-- a comment line -/
theorem interpret_comment_irrelevant (ld : Loader) (hn : NativeSim ld) (fuel : Nat) (senv : EnvId) (file : String)
    (u body v : List Char) {s s' : State} (hu : C14.AtBoundary file u) (hb : '\n' ∉ body) (hs : StateSim s s') :
    OutSimX (interpretSource ld fuel senv (u ++ '#' :: (body ++ '\n' :: v)) file s)
      (interpretSource ld fuel senv (u ++ v) file s') :=
  interpret_layoutEq_irrelevant ld hn fuel senv file (LayoutEq.comment file u body v hu hb) hs

/-! ### corollaries: output, result, error, syntax error -/

/-- the same printed output, whatever the outcome -/
theorem output_layout_irrelevant (ld : Loader) (hn : NativeSim ld) (fuel : Nat) (senv : EnvId) (file : String)
    {a b : List Char} {s s' : State} (h : LayoutEq file a b) (hs : StateSim s s') :
    (interpretSource ld fuel senv a file s).finalState.out = (interpretSource ld fuel senv b file s').finalState.out :=
  (interpret_layoutEq_irrelevant ld hn fuel senv file h hs).state.out_eq

/-- the same result: when one text evaluates to `v`, the other evaluates to a similar value (the same value when
    it is not a node value) with the same rendering -/
theorem result_layout_irrelevant (ld : Loader) (hn : NativeSim ld) (fuel : Nat) (senv : EnvId) (file : String)
    {a b : List Char} {s s' : State} (h : LayoutEq file a b) (hs : StateSim s s') {v : RVal} {t : State}
    (hr : interpretSource ld fuel senv a file s = .ok v t) :
    ∃ v' t', interpretSource ld fuel senv b file s' = .ok v' t' ∧ RValSim v v' ∧ (¬ IsPosV v → v' = v) ∧
      rrender t v = rrender t' v' ∧ StateSim t t' := by
  have hx := interpret_layoutEq_irrelevant ld hn fuel senv file h hs
  rw [hr] at hx
  rcases hx.cases with ⟨a1, a', s1, s1', h1, h2, h3, h4⟩ | ⟨_, _, _, _, _, _, _, _, _, h1, _⟩ |
    ⟨_, _, _, _, h1, _⟩ | ⟨_, _, _, _, h1, _⟩
  · cases h1
    exact ⟨a', s1', h2, h3, fun hv => (RValSim.eq_of_not_pos h3 hv).symm, result_pos_irrelevant h3 h4, h4⟩
  all_goals cases h1

/-- the same runtime error: the same message, a similar error value (the same when it is a data value) with the
    same rendering, a trace with the same function names -/
theorem error_layout_irrelevant (ld : Loader) (hn : NativeSim ld) (fuel : Nat) (senv : EnvId) (file : String)
    {a b : List Char} {s s' : State} (h : LayoutEq file a b) (hs : StateSim s s') {v : RVal} {m : String} {p : Pos}
    {t : List (String × Pos)} {u : State} (hr : interpretSource ld fuel senv a file s = .err v m p t u) :
    ∃ v' p' t' u', interpretSource ld fuel senv b file s' = .err v' m p' t' u' ∧ RValSim v v' ∧
      (¬ IsPosV v → v' = v) ∧ rrender u v = rrender u' v' ∧ t.map (·.1) = t'.map (·.1) ∧ StateSim u u' := by
  have hx := interpret_layoutEq_irrelevant ld hn fuel senv file h hs
  rw [hr] at hx
  rcases hx.cases with ⟨_, _, _, _, h1, _⟩ | ⟨v1, v', m1, q, q', t1, t', s1, s1', h1, h2, h3, h4, h5⟩ |
    ⟨_, _, _, _, h1, _⟩ | ⟨_, _, _, _, h1, _⟩
  · cases h1
  · cases h1
    exact ⟨v', q', t', s1', h2, h3, fun hv => (RValSim.eq_of_not_pos h3 hv).symm, result_pos_irrelevant h3 h5, h4, h5⟩
  all_goals cases h1

/-- the same syntax error message (of the front end, or of a `require`d module) -/
theorem syntax_error_layout_irrelevant (ld : Loader) (hn : NativeSim ld) (fuel : Nat) (senv : EnvId) (file : String)
    {a b : List Char} {s s' : State} (h : LayoutEq file a b) (hs : StateSim s s') {e : SynErr} {u : State}
    (hr : interpretSource ld fuel senv a file s = .fail (.syn e) u) :
    ∃ e' u', interpretSource ld fuel senv b file s' = .fail (.syn e') u' ∧ e.msg = e'.msg ∧ StateSim u u' := by
  have hx := interpret_layoutEq_irrelevant ld hn fuel senv file h hs
  rw [hr] at hx
  rcases hx.cases with ⟨_, _, _, _, h1, _⟩ | ⟨_, _, _, _, _, _, _, _, _, h1, _⟩ |
    ⟨e1, e', s1, s1', h1, h2, h3, h4⟩ | ⟨f, f', s1, s1', h1, h2, h3, h4⟩
  · cases h1
  · cases h1
  · cases h1; exact ⟨e', s1', h2, h3, h4⟩
  · cases h1
    cases f' <;> simp only [ers_fsyn, ers_foof, ers_funsupported, ers_fhost, reduceCtorEq, Fail.syn.injEq] at h3
    subst h3
    exact ⟨_, s1', h2, rfl, h4⟩

/-! ### sessions of source texts -/

/-- a session: the texts are interpreted one after the other on the same interpreter; a text that is rejected
    by the front end leaves the state as it is -/
def runSessionSrc (ld : Loader) (fuel : Nat) (senv : EnvId) (file : String) : List (List Char) → State → Option State
  | [], s => some s
  | src :: rest, s =>
    match nextState (interpretSource ld fuel senv src file s) with
    | some s' => runSessionSrc ld fuel senv file rest s'
    | none => none

theorem nextState_simX {o o' : Out RVal} (h : OutSimX o o') : ers (nextState o) = ers (nextState o') := by
  rcases h.cases with ⟨_, _, _, _, rfl, rfl, _, h⟩ | ⟨_, _, _, _, _, _, _, _, _, rfl, rfl, _, _, h⟩ |
    ⟨_, _, _, _, rfl, rfl, _, h⟩ | ⟨f, f', _, _, rfl, rfl, hf, h⟩
  · simp only [nextState, ers_some, show ers _ = ers _ from h]
  · simp only [nextState, ers_some, show ers _ = ers _ from h]
  · simp only [nextState, ers_some, show ers _ = ers _ from h]
  · exact nextState_sim (show OutSim (.fail f _) (.fail f' _) by simp only [OutSim, ers_fail, hf, show ers _ = ers _ from h])

/-- a whole history of source texts, each changed by layout only, ends in similar states (or the model abstains
    — out of fuel, unsupported — on both sides) -/
theorem session_layout_irrelevant (ld : Loader) (hn : NativeSim ld) (fuel : Nat) (senv : EnvId) (file : String) :
    ∀ {as bs : List (List Char)} {s s' : State}, List.Forall₂ (LayoutEq file) as bs → StateSim s s' →
      ers (runSessionSrc ld fuel senv file as s) = ers (runSessionSrc ld fuel senv file bs s') := by
  intro as bs s s' h
  induction h generalizing s s' with
  | nil => intro hs; simp only [runSessionSrc, ers_some, show ers s = ers s' from hs]
  | cons hab _ ih =>
    intro hs
    have h1 := nextState_simX (interpret_layoutEq_irrelevant ld hn fuel senv file hab hs)
    simp only [runSessionSrc]
    generalize nextState (interpretSource ld fuel senv _ file s) = o at h1 ⊢
    generalize nextState (interpretSource ld fuel senv _ file s') = o' at h1 ⊢
    rcases Option.sim_cases h1 with ⟨rfl, rfl⟩ | ⟨x, x', rfl, rfl, h2⟩
    · rfl
    · exact ih h2

/-- the printed output of the whole session is the same -/
theorem session_output_layout_irrelevant (ld : Loader) (hn : NativeSim ld) (fuel : Nat) (senv : EnvId) (file : String)
    {as bs : List (List Char)} {s s' : State} (h : List.Forall₂ (LayoutEq file) as bs) (hs : StateSim s s') :
    (runSessionSrc ld fuel senv file as s).map (·.out) = (runSessionSrc ld fuel senv file bs s').map (·.out) := by
  have := session_layout_irrelevant ld hn fuel senv file h hs
  rcases Option.sim_cases this with ⟨h1, h2⟩ | ⟨x, x', h1, h2, h3⟩
  · rw [h1, h2]
  · rw [h1, h2]; simp only [Option.map_some, StateSim.out_eq h3]

/-! ### spelling of literals and of `!=` -/

/-- a literal evaluates without looking at its position -/
theorem interpretProg_lit (ld : Loader) (fuel : Nat) (senv : EnvId) (v : Val) (p p' : Pos) :
    interpretProg ld fuel senv (.lit v p) = interpretProg ld fuel senv (.lit v p') := by
  cases fuel with
  | zero => unfold interpretProg; unfold Ckl.eval; rfl
  | succ k => unfold interpretProg; unfold Ckl.eval; rfl

theorem interpretSource_lit {ld : Loader} {fuel : Nat} {senv : EnvId} {file : String} {a b : List Char} {v : Val}
    {p p' : Pos} (ha : parseScript a file = .ok (.lit v p)) (hb : parseScript b file = .ok (.lit v p')) :
    interpretSource ld fuel senv a file = interpretSource ld fuel senv b file := by
  funext s
  simp only [interpretSource, ha, hb, interpretProg_lit ld fuel senv v p p']

theorem interpretProg_int (ld : Loader) (fuel : Nat) (senv : EnvId) (n : Int) (p : Pos) (s : State) :
    interpretProg ld (fuel + 1) senv (.lit (.int n) p) s = .ok (.int n) s := by
  unfold interpretProg; unfold Ckl.eval; rfl

theorem interpretProg_str (ld : Loader) (fuel : Nat) (senv : EnvId) (x : List Char) (p : Pos) (s : State) :
    interpretProg ld (fuel + 1) senv (.lit (.str x) p) s = .ok (.str x) s := by
  unfold interpretProg; unfold Ckl.eval; rfl

/-- **int literals**: the decimal numeral, the hex numeral in lower and upper case and the binary numeral of `n`
    — each with `_` separators and trailing white space — are interpreted identically (EQUAL outcomes, for every
    loader, fuel, frame and state): with fuel they evaluate to the int `n` and leave the state alone.
    (Covered: a program that is a single int literal, `n` below the digit limit of the scanner.) -/
theorem interpret_int_spellings (ld : Loader) (fuel : Nat) (senv : EnvId) (file : String) (n : Nat)
    (hlim : n < C14S.litLimit) (ud uh uH ub wd wh wH wb : List Char)
    (hd : C14S.Underscored (C14S.decDigits n) ud) (hhead : ud.head? ≠ some '_')
    (hh : C14S.Underscored (C14S.hexLower n) uh) (hH : C14S.Underscored (C14S.hexUpper n) uH)
    (hb : C14S.Underscored (C14S.binDigits n) ub)
    (hwd : ∀ c ∈ wd, c ∈ Lexer.whitespace) (hwh : ∀ c ∈ wh, c ∈ Lexer.whitespace)
    (hwH : ∀ c ∈ wH, c ∈ Lexer.whitespace) (hwb : ∀ c ∈ wb, c ∈ Lexer.whitespace) :
    (interpretSource ld fuel senv ('0' :: 'x' :: uh ++ wh) file = interpretSource ld fuel senv (ud ++ wd) file ∧
     interpretSource ld fuel senv ('0' :: 'x' :: uH ++ wH) file = interpretSource ld fuel senv (ud ++ wd) file ∧
     interpretSource ld fuel senv ('0' :: 'b' :: ub ++ wb) file = interpretSource ld fuel senv (ud ++ wd) file) ∧
    ∀ s, interpretSource ld (fuel + 1) senv (ud ++ wd) file s = .ok (.int n) s := by
  obtain ⟨pd, ph, pH, pb, h1, h2, h3, h4⟩ :=
    C14S.parseScript_int_spellings file n hlim ud uh uH ub wd wh wH wb hd hhead hh hH hb hwd hwh hwH hwb
  refine ⟨⟨interpretSource_lit h2 h1, interpretSource_lit h3 h1, interpretSource_lit h4 h1⟩, fun s => ?_⟩
  simp only [interpretSource, h1, interpretProg_int]

/-- **string literals**: single quotes, double quotes, control characters raw or as `\xHH` — the four spellings of
    the string `x` are interpreted identically and evaluate to `x`.  (Covered: a program that is a single string
    literal.) -/
theorem interpret_string_spellings (ld : Loader) (fuel : Nat) (senv : EnvId) (file : String) (x : List Char) :
    (interpretSource ld fuel senv (C14S.quoteWith '"' x) file = interpretSource ld fuel senv (C14S.quoteWith '\'' x) file ∧
     interpretSource ld fuel senv (C14S.quoteHexWith '\'' x) file = interpretSource ld fuel senv (C14S.quoteWith '\'' x) file ∧
     interpretSource ld fuel senv (C14S.quoteHexWith '"' x) file = interpretSource ld fuel senv (C14S.quoteWith '\'' x) file) ∧
    ∀ s, interpretSource ld (fuel + 1) senv (C14S.quoteWith '\'' x) file s = .ok (.str x) s := by
  obtain ⟨p1, p2, p3, p4, h1, h2, h3, h4⟩ := C14S.parseScript_string_spellings file x
  refine ⟨⟨interpretSource_lit h2 h1, interpretSource_lit h3 h1, interpretSource_lit h4 h1⟩, fun s => ?_⟩
  simp only [interpretSource, h1, interpretProg_str]

/-- the two quote styles, each followed by arbitrary white space -/
theorem interpret_quote_styles (ld : Loader) (fuel : Nat) (senv : EnvId) (file : String) (x w1 w2 : List Char)
    (hw1 : ∀ c ∈ w1, c ∈ Lexer.whitespace) (hw2 : ∀ c ∈ w2, c ∈ Lexer.whitespace) :
    interpretSource ld fuel senv (C14S.quoteWith '\'' x ++ w1) file =
      interpretSource ld fuel senv (C14S.quoteWith '"' x ++ w2) file := by
  obtain ⟨p1, p2, h1, h2⟩ := C14S.parseScript_quote_styles file x w1 w2 hw1 hw2
  exact interpretSource_lit h1 h2

/-- the `not_equals` calls the two spellings parse to differ in the position of the operator only -/
theorem nodeSim_funcCallAB (fn : String) (a b : Node) (p p' : Pos) :
    NodeSim (Parser.funcCallAB fn a b p) (Parser.funcCallAB fn a b p') := by
  simp only [nodeSim_iff, Parser.funcCallAB, Parser.funcCall2, ers_simp]

/-- **`!=` versus `<>`** (partial: covers a program that is one comparison `a != b` of two atoms — int, string
    or boolean literals, identifiers — as `C14S.parseScript_ne_atoms` does; the operator sits at a token
    boundary).  The full statement would allow the comparison anywhere in a program; the parser lemma
    `C14S.parse_ne_spelling` covers operands that `parse_add_expr` reads, but has no source-level form yet. -/
theorem interpret_ne_spelling_partial (ld : Loader) (hn : NativeSim ld) (fuel : Nat) (senv : EnvId) (file : String)
    (u v : List Char) (hu : C14.AtBoundary file u) {a t b : Token} {na nb : Node} (ha : C14S.Atom a na)
    (hb : C14S.Atom b nb) (hscan : Lexer.scan (u ++ '!' :: '=' :: v) file = .ok [a, t, b])
    {s s' : State} (hs : StateSim s s') :
    OutSim (interpretSource ld fuel senv (u ++ '!' :: '=' :: v) file s)
      (interpretSource ld fuel senv (u ++ '<' :: '>' :: v) file s') := by
  obtain ⟨p1, p2, h1, h2⟩ := C14S.parseScript_ne_atoms file u v hu ha hb hscan
  simp only [interpretSource, h1, h2]
  exact interpretProg_pos_irrelevant ld hn fuel senv (nodeSim_funcCallAB _ _ _ p1 p2) hs

/-- any two texts known to parse to similar ASTs (the form in which further spelling lemmas plug in) -/
theorem interpret_of_parse_sim (ld : Loader) (hn : NativeSim ld) (fuel : Nat) (senv : EnvId) (file : String)
    {a b : List Char} {n n' : Node} (ha : parseScript a file = .ok n) (hb : parseScript b file = .ok n')
    (h : NodeSim n n') {s s' : State} (hs : StateSim s s') :
    OutSim (interpretSource ld fuel senv a file s) (interpretSource ld fuel senv b file s') := by
  simp only [interpretSource, ha, hb]
  exact interpretProg_pos_irrelevant ld hn fuel senv h hs

/-! ### non-vacuity -/

namespace Ex

abbrev st0 := C14E.Demo.st0
abbrev summary := C14E.Demo.summary

/-- `def x = 1;` -/
def U : List Char := ['d', 'e', 'f', ' ', 'x', ' ', '=', ' ', '1', ';']
/-- ` # set x⏎` with a CR before the LF, then a TAB -/
def W : List Char := [' ', '#', ' ', 's', 'e', 't', ' ', 'x', '\r', '\n', '\t']
/-- `println(x + 1); error 'boom'` -/
def V : List Char := ['p', 'r', 'i', 'n', 't', 'l', 'n', '(', 'x', ' ', '+', ' ', '1', ')', ';', ' ', 'e', 'r', 'r', 'o', 'r', ' ', '\'', 'b', 'o', 'o', 'm', '\'']

theorem U_boundary : C14.AtBoundary "-" U := by
  intro σ h; have : σ = _ := (Except.ok.inj h).symm; subst this; decide

theorem W_filler : Lexer.Filler W :=
  Lexer.Filler.ws (c := ' ') (by decide)
    (Lexer.Filler.comment (body := [' ', 's', 'e', 't', ' ', 'x', '\r']) (by decide)
      (Lexer.Filler.ws (c := '\t') (by decide) Lexer.Filler.nil))

def runSrc (src : List Char) : Out RVal := interpretSource {} 100 st0.2 src "-" st0.1

-- both texts print `2` and end with the uncaught error `'boom'` …
#guard summary (runSrc (U ++ W ++ V)) == ("err", some "'boom'".toList, "", [], "2\n".toList)
#guard summary (runSrc (U ++ V)) == summary (runSrc (U ++ W ++ V))
-- … reported on different lines
#guard (match runSrc (U ++ W ++ V), runSrc (U ++ V) with
  | .err _ _ p _ _, .err _ _ q _ _ => p.line == 2 && q.line == 1
  | _, _ => false)
-- a text that is rejected: the same message, different positions
#guard (match runSrc (U ++ W ++ ")".toList), runSrc (U ++ ")".toList) with
  | .fail (.syn e) _, .fail (.syn e') _ => e.msg == e'.msg && e.pos.line != e'.pos.line
  | _, _ => false)
-- spellings
#guard summary (runSrc "0x_ff ".toList) == summary (runSrc "2_55".toList)
#guard summary (runSrc "0b1111_1111".toList) == ("ok", some "255".toList, "", [], [])
#guard summary (runSrc "'a\\x41'".toList) == summary (runSrc "\"aA\"".toList)
#guard summary (runSrc "1 != 2".toList) == summary (runSrc "1 <> 2".toList)
#guard summary (runSrc "1 <> 2".toList) == ("ok", some "TRUE".toList, "", [], [])

/-- the flagship theorem on the two texts -/
example : OutSimX (runSrc (U ++ W ++ V)) (runSrc (U ++ V)) :=
  interpret_layout_irrelevant {} nativeSim_empty 100 st0.2 "-" U W V U_boundary W_filler (StateSim.refl _)

example : LayoutEq "-" (U ++ W ++ V) (U ++ V) := LayoutEq.insert U W V U_boundary W_filler
example : SrcSim "-" (U ++ W ++ V) (U ++ V) := srcSim_layout "-" U W V U_boundary W_filler
example : LayoutEq "-" (U ++ V) (U ++ W ++ V) := (LayoutEq.insert U W V U_boundary W_filler).symm
example : LayoutEq "-" (U ++ '\r' :: '\n' :: V) (U ++ V) :=
  (LayoutEq.crlf "-" U V U_boundary).trans
    (by simpa using LayoutEq.insert (file := "-") U ['\n'] V U_boundary (Lexer.Filler.ws (by decide) Lexer.Filler.nil))
example : LayoutEq "-" (U ++ '#' :: (['x'] ++ '\n' :: V)) (U ++ V) := LayoutEq.comment "-" U ['x'] V U_boundary (by decide)

example : (runSrc (U ++ W ++ V)).finalState.out = (runSrc (U ++ V)).finalState.out :=
  output_layout_irrelevant {} nativeSim_empty 100 st0.2 "-" (LayoutEq.insert U W V U_boundary W_filler) (StateSim.refl _)

example : OutSimX (runSrc (U ++ '\r' :: '\n' :: V)) (runSrc (U ++ '\n' :: V)) :=
  interpret_crlf_lf {} nativeSim_empty 100 st0.2 "-" U V U_boundary (StateSim.refl _)

example : OutSimX (runSrc (U ++ '#' :: (['x'] ++ '\n' :: V))) (runSrc (U ++ V)) :=
  interpret_comment_irrelevant {} nativeSim_empty 100 st0.2 "-" U ['x'] V U_boundary (by decide) (StateSim.refl _)

/-- a session of two texts, each with other layout: `def x = 1;` then `println(x + 1); error 'boom'` -/
example : ers (runSessionSrc {} 100 st0.2 "-" [U ++ W, U ++ W ++ V] st0.1) =
    ers (runSessionSrc {} 100 st0.2 "-" [U, U ++ V] st0.1) :=
  session_layout_irrelevant {} nativeSim_empty 100 st0.2 "-"
    (.cons (by simpa using LayoutEq.insert (file := "-") U W [] U_boundary W_filler)
      (.cons (LayoutEq.insert U W V U_boundary W_filler) .nil)) (StateSim.refl _)

#guard (runSessionSrc {} 100 st0.2 "-" [U ++ W, U ++ W ++ V] st0.1).map (·.out) == some "2\n".toList
#guard (runSessionSrc {} 100 st0.2 "-" [U, U ++ V] st0.1).map (·.out) == some "2\n".toList

-- instances of the corollaries' hypotheses: the run of `U ++ W ++ V` ends with a runtime error, a text that is
-- only `x = 1` evaluates, `)` is rejected
#guard (match runSrc (U ++ W ++ V) with | .err _ _ _ _ _ => true | _ => false)
#guard (match runSrc (U ++ W) with | .ok (.int 1) _ => true | _ => false)
#guard (match runSrc (U ++ W ++ [')']) with | .fail (.syn _) _ => true | _ => false)

example {v m p t u} (h : runSrc (U ++ W ++ V) = .err v m p t u) :
    ∃ v' p' t' u', runSrc (U ++ V) = .err v' m p' t' u' ∧ RValSim v v' ∧ (¬ IsPosV v → v' = v) ∧
      rrender u v = rrender u' v' ∧ t.map (·.1) = t'.map (·.1) ∧ StateSim u u' :=
  error_layout_irrelevant {} nativeSim_empty 100 st0.2 "-" (LayoutEq.insert U W V U_boundary W_filler) (StateSim.refl _) h

example {v t} (h : runSrc (U ++ W) = .ok v t) :
    ∃ v' t', runSrc (U ++ []) = .ok v' t' ∧ RValSim v v' ∧ (¬ IsPosV v → v' = v) ∧
      rrender t v = rrender t' v' ∧ StateSim t t' :=
  result_layout_irrelevant {} nativeSim_empty 100 st0.2 "-" (LayoutEq.insert U W [] U_boundary W_filler) (StateSim.refl _)
    (by simpa [runSrc] using h)

example {e u} (h : runSrc (U ++ W ++ [')']) = .fail (.syn e) u) :
    ∃ e' u', runSrc (U ++ [')']) = .fail (.syn e') u' ∧ e.msg = e'.msg ∧ StateSim u u' :=
  syntax_error_layout_irrelevant {} nativeSim_empty 100 st0.2 "-" (LayoutEq.insert U W [')'] U_boundary W_filler)
    (StateSim.refl _) h

-- spellings: 255
example : C14S.Underscored (C14S.decDigits 255) ['2', '_', '5', '5'] := by decide
example : C14S.Underscored (C14S.hexLower 255) ['_', 'f', 'f'] := by decide

-- `OutSimX` relates syntax errors with different positions, `OutSim` does not
example : OutSimX (.fail (.syn ⟨"m", ⟨"-", 1, 1⟩, false⟩) st0.1 : Out RVal) (.fail (.syn ⟨"m", ⟨"-", 9, 9⟩, true⟩) st0.1) :=
  outSimX_syn rfl (StateSim.refl _)
example : OutSimX (runSrc U) (runSrc U) := OutSim.toX (OutSim.refl _)
example : OutSimX (runSrc (U ++ V)) (runSrc (U ++ W ++ V)) :=
  (interpret_layout_irrelevant {} nativeSim_empty 100 st0.2 "-" U W V U_boundary W_filler (StateSim.refl _)).symm

end Ex

end Ckl.C14X
