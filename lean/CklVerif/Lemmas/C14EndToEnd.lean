import CklVerif.Lemmas.C14EvalInd
import CklVerif.Lemmas.C02ParseDefs

/-! C14 end to end — the position eraser of the parser proofs (`C02P.erase`) is the one of the evaluator
    proofs (`Node.erase`) -/
namespace Ckl.C14X
open Ckl Ckl.C14E

mutual
theorem erase_bridge : ∀ n : Node, C02P.erase n = eraseN n
  | .absent => rfl
  | .catchAll => rfl
  | .null x0 => by simp only [C02P.erase, eraseN]
  | .lit x0 x1 => by simp only [C02P.erase, eraseN]
  | .ident x0 x1 => by simp only [C02P.erase, eraseN]
  | .and x0 x1 => by simp only [C02P.erase, eraseN, eraseL_bridge x0]
  | .or x0 x1 => by simp only [C02P.erase, eraseN, eraseL_bridge x0]
  | .not x0 x1 => by simp only [C02P.erase, eraseN, erase_bridge x0]
  | .assign x0 x1 x2 => by simp only [C02P.erase, eraseN, erase_bridge x1]
  | .assignD x0 x1 x2 => by simp only [C02P.erase, eraseN, erase_bridge x1]
  | .block x0 x1 x2 x3 x4 x5 => by simp only [C02P.erase, eraseN, eraseL_bridge x0, eraseL_bridge x1, eraseL_bridge x2, eraseL_bridge x3]
  | .brk x0 => by simp only [C02P.erase, eraseN]
  | .cont x0 => by simp only [C02P.erase, eraseN]
  | .cls x0 x1 x2 => by simp only [C02P.erase, eraseN, eraseL_bridge x1]
  | .defn x0 x1 x2 x3 => by simp only [C02P.erase, eraseN, erase_bridge x1]
  | .defD x0 x1 x2 x3 => by simp only [C02P.erase, eraseN, erase_bridge x1]
  | .deref x0 x1 x2 x3 => by simp only [C02P.erase, eraseN, erase_bridge x0, erase_bridge x1, erase_bridge x2]
  | .derefAssign x0 x1 x2 x3 => by simp only [C02P.erase, eraseN, erase_bridge x0, erase_bridge x1, erase_bridge x2]
  | .derefInvoke x0 x1 x2 x3 x4 => by simp only [C02P.erase, eraseN, erase_bridge x0, eraseL_bridge x3]
  | .slice x0 x1 x2 x3 => by simp only [C02P.erase, eraseN, erase_bridge x0, erase_bridge x1, erase_bridge x2]
  | .error x0 x1 => by simp only [C02P.erase, eraseN, erase_bridge x0]
  | .for x0 x1 x2 x3 x4 => by simp only [C02P.erase, eraseN, erase_bridge x1, erase_bridge x2]
  | .call x0 x1 x2 x3 => by simp only [C02P.erase, eraseN, erase_bridge x0, eraseL_bridge x2]
  | .ite x0 x1 x2 x3 => by simp only [C02P.erase, eraseN, eraseL_bridge x0, eraseL_bridge x1, erase_bridge x2]
  | .isIn x0 x1 x2 => by simp only [C02P.erase, eraseN, erase_bridge x0, erase_bridge x1]
  | .lambda x0 x1 x2 x3 => by simp only [C02P.erase, eraseN, eraseL_bridge x1, erase_bridge x2]
  | .list x0 x1 => by simp only [C02P.erase, eraseN, eraseL_bridge x0]
  | .compr x0 x1 x2 x3 x4 x5 x6 x7 x8 x9 x10 x11 => by simp only [C02P.erase, eraseN, erase_bridge x2, erase_bridge x3, erase_bridge x5, erase_bridge x8, erase_bridge x10]
  | .map x0 x1 x2 => by simp only [C02P.erase, eraseN, eraseL_bridge x0, eraseL_bridge x1]
  | .object x0 x1 x2 => by simp only [C02P.erase, eraseN, eraseL_bridge x1]
  | .require x0 x1 x2 x3 x4 => by simp only [C02P.erase, eraseN, erase_bridge x0]
  | .ret x0 x1 => by simp only [C02P.erase, eraseN, erase_bridge x0]
  | .set x0 x1 => by simp only [C02P.erase, eraseN, eraseL_bridge x0]
  | .spread x0 x1 => by simp only [C02P.erase, eraseN, erase_bridge x0]
  | .while x0 x1 x2 => by simp only [C02P.erase, eraseN, erase_bridge x0, erase_bridge x1]
theorem eraseL_bridge : ∀ ns : List Node, C02P.eraseL ns = eraseL ns
  | [] => rfl
  | n :: ns => by simp only [C02P.eraseL, eraseL, erase_bridge n, eraseL_bridge ns]
end

end Ckl.C14X
