/-
  C08Dec — assembling: the digits `shortestDigits` returns denote a decimal in the rounding
  interval, the positional text of `decRepr` denotes the same decimal, hence `parseDecimal` reads
  it back as the same double.
-/
import CklVerif.Lemmas.C08DecNearest
import CklVerif.Lemmas.C08DecShape
import CklVerif.Lemmas.C08DecFound
namespace Ckl.C08D
open Ckl Ckl.Parser Ckl.Lexer

/-- the candidate picked in a round that succeeds is positive and lies in the rounding interval -/
theorem pick_inside (a e : Nat) (k : Int) (n : Nat) (h : (ok1 a e k n || ok2 a e k n) = true) :
    0 < pick a e k n ∧ inside a e (pow10Rat (pick a e k n) (-((n : Int) - k))) = true := by
  have h1 : ok1 a e k n = true → 0 < scaleFloor (a, 2 ^ e) ((n : Int) - k) ∧
      inside a e (pow10Rat (scaleFloor (a, 2 ^ e) ((n : Int) - k)) (-((n : Int) - k))) = true := by
    intro h; unfold ok1 at h
    rw [Bool.and_eq_true, decide_eq_true_iff] at h; exact h
  have h2 : ok2 a e k n = true →
      inside a e (pow10Rat (scaleFloor (a, 2 ^ e) ((n : Int) - k) + 1) (-((n : Int) - k))) = true := by
    intro h; unfold ok2 at h; exact h
  unfold pick
  simp only
  by_cases hb : (ok1 a e k n && ok2 a e k n) = true
  · rw [if_pos hb]
    rw [Bool.and_eq_true] at hb
    obtain ⟨f1, f2⟩ := h1 hb.1
    have g := h2 hb.2
    split
    · exact ⟨f1, f2⟩
    · split
      · exact ⟨Nat.succ_pos _, g⟩
      · split
        · exact ⟨f1, f2⟩
        · exact ⟨Nat.succ_pos _, g⟩
  · rw [if_neg hb]
    by_cases ho : ok1 a e k n = true
    · rw [if_pos ho]; exact h1 ho
    · rw [if_neg ho]
      have : ok2 a e k n = true := by
        rw [Bool.or_eq_true] at h; rcases h with h | h
        · exact absurd h ho
        · exact h
      exact ⟨Nat.succ_pos _, h2 this⟩

/-- `Found a e`: the `for n in [1:18]` loop of `shortestDigits a e` returns (some candidate of at most
    17 digits lies in the rounding interval) -/
def Found (a e : Nat) : Prop :=
  ∃ n, (List.range' 1 17).find? (fun n => ok1 a e (decPt (a, 2 ^ e)) n || ok2 a e (decPt (a, 2 ^ e)) n) = some n

/-- **shortestDigits_inside**: when the loop returns, the result is `out k n p` for a positive
    integer `p` such that the decimal `p · 10^(k-n)` lies in the rounding interval -/
theorem shortestDigits_inside (a e : Nat) (hf : Found a e) :
    ∃ (k : Int) (n p : Nat), 0 < p ∧ inside a e (pow10Rat p (-((n : Int) - k))) = true ∧
      shortestDigits a e = out k n p := by
  have h := shortestDigits_eq a e
  unfold Found at hf
  generalize decPt (a, 2 ^ e) = k at h hf
  obtain ⟨n, hn⟩ := hf
  have hok := List.find?_some hn
  obtain ⟨hp, hi⟩ := pick_inside a e k n hok
  rw [hn, Option.map_some, Option.getD_some] at h
  exact ⟨k, n, pick a e k n, hp, hi, h⟩

theorem inside_congr (a e : Nat) (ha : 0 < a) (hd : IsDoubleN a e) (c c' : Nat × Nat) (hc : 0 < c.2)
    (hc' : 0 < c'.2) (h : rv c = rv c') (hin : inside a e c = true) : inside a e c' = true := by
  rw [inside_iff a e ha hd c hc] at hin
  rw [inside_iff a e ha hd c' hc', ← h]
  exact hin

/-- the text `layout (out k n p)` denotes the decimal `p · 10^(k-n)` -/
theorem layout_out_value (k : Int) (n p : Nat) (hp : 0 < p) :
    ∃ a' b', layout (out k n p).1 (out k n p).2 = a' ++ '.' :: b' ∧ a' ≠ [] ∧ (∀ c ∈ a', c ∈ digits) ∧
      (∀ c ∈ b', c ∈ digits) ∧
      rv (digitsVal (a' ++ b'), 10 ^ b'.length) = rv (pow10Rat p (-((n : Int) - k))) := by
  obtain ⟨z, _, hne, hdig, hval, hkk⟩ := out_spec k n p hp
  obtain ⟨a', b', hl, ha', hda, hdb, hv⟩ := layout_spec (out k n p).1 (out k n p).2 hne hdig
  refine ⟨a', b', hl, ha', hda, hdb, ?_⟩
  rw [rv_pow10Rat]
  unfold rv
  simp only
  generalize (out k n p).1 = ds at *
  generalize (out k n p).2 = kk at *
  have hvq : (digitsVal (a' ++ b') : ℚ) * (10 : ℚ) ^ (ds.length + (-kk).toNat) =
      (digitsVal ds : ℚ) * (10 : ℚ) ^ (b'.length + kk.toNat) := by exact_mod_cast hv
  have hpq : (digitsVal ds : ℚ) * (10 : ℚ) ^ z = p := by exact_mod_cast hval
  have h10 : (10 : ℚ) ≠ 0 := by norm_num
  rw [← hpq, Nat.cast_pow, Nat.cast_ofNat, div_eq_iff (by positivity)]
  -- everything as integer powers of ten
  have e1 : (10 : ℚ) ^ (ds.length + (-kk).toNat) = (10 : ℚ) ^ ((ds.length : ℤ) + (-kk).toNat) := by
    rw [← zpow_natCast]; push_cast; rfl
  have e2 : (10 : ℚ) ^ (b'.length + kk.toNat) = (10 : ℚ) ^ ((b'.length : ℤ) + kk.toNat) := by
    rw [← zpow_natCast]; push_cast; rfl
  rw [e1, e2] at hvq
  have hpos : (10 : ℚ) ^ ((ds.length : ℤ) + (-kk).toNat) ≠ 0 := by positivity
  have : (digitsVal (a' ++ b') : ℚ) =
      (digitsVal ds : ℚ) * (10 : ℚ) ^ ((b'.length : ℤ) + kk.toNat) * ((10 : ℚ) ^ ((ds.length : ℤ) + (-kk).toNat))⁻¹ := by
    rw [← hvq]; field_simp
  rw [this, ← zpow_neg, ← zpow_natCast (10 : ℚ) z, ← zpow_natCast (10 : ℚ) b'.length]
  simp only [mul_assoc, ← zpow_add₀ h10]
  congr 2
  omega

/-- the positional text of the shortest digits of a positive double reads back as that double -/
theorem layout_roundtrip (a e : Nat) (ha : 0 < a) (hd : IsDoubleN a e) (hf : Found a e) :
    ∃ a' b', layout (shortestDigits a e).1 (shortestDigits a e).2 = a' ++ '.' :: b' ∧ a' ≠ [] ∧
      (∀ c ∈ a', c ∈ digits) ∧ (∀ c ∈ b', c ∈ digits) ∧
      parseDecimal (a' ++ '.' :: b') = some ((a : Int), e) := by
  obtain ⟨k, n, p, hp, hin, hsd⟩ := shortestDigits_inside a e hf
  rw [hsd]
  obtain ⟨a', b', hl, hne, hda, hdb, hrv⟩ := layout_out_value k n p hp
  refine ⟨a', b', hl, hne, hda, hdb, ?_⟩
  have hin' := inside_congr a e ha hd _ (digitsVal (a' ++ b'), 10 ^ b'.length) (pow10Rat_pos _ _)
    (Nat.pow_pos (by decide)) hrv.symm hin
  rw [parseDecimal_shape a' b' hne hda hdb,
    nearestDouble_of_inside a e ha hd _ _ (Nat.pow_pos (by decide)) hin']
  rfl

theorem found_Found (a e : Nat) (ha : 0 < a) (hd : IsDoubleN a e) : Found a e := found a e ha hd

/-- **decRepr_spec**: the text of a double is an optional `-` followed by `digits⁺ . digits*`, and
    `float()` of the unsigned part is the absolute value -/
theorem decRepr_spec (m : Int) (e : Nat) (hd : IsDouble m e) :
    ∃ a' b', decRepr m e = (if m < 0 then ['-'] else []) ++ (a' ++ '.' :: b') ∧ a' ≠ [] ∧
      (∀ c ∈ a', c ∈ digits) ∧ (∀ c ∈ b', c ∈ digits) ∧
      parseDecimal (a' ++ '.' :: b') = some ((m.natAbs : Int), e) := by
  by_cases hm : m = 0
  · subst hm
    have he : e = 0 := by
      rcases hd with ⟨h, _⟩ | ⟨_, _, h, _⟩
      · exact h
      · simp at h
    subst he
    refine ⟨['0'], ['0'], ?_, by simp, by decide, by decide, by decide⟩
    rw [decRepr_zero]; rfl
  · have ha : 0 < m.natAbs := Int.natAbs_pos.2 hm
    obtain ⟨a', b', hl, hne, hda, hdb, hp⟩ :=
      layout_roundtrip m.natAbs e ha hd (found m.natAbs e ha hd)
    refine ⟨a', b', ?_, hne, hda, hdb, hp⟩
    rw [decRepr_eq m e hm, hl]

end Ckl.C08D
