"""C17 Dates and day numbers convert one-to-one and date arithmetic is calendar-correct."""
import datetime
import multiprocessing as mp

from harness import core, proto
from harness.props import common

BASE = datetime.date(1899, 12, 30).toordinal()     # OA day 0


def ref_oa(d):
    return d.toordinal() - BASE


def ref_date(n):
    return datetime.date.fromordinal(n + BASE)


def _check_days(args):
    """worker: conversions for OA day numbers on the implementation; returns
    (count, failures[(kind, n, got)], impl[(n, oa, (y, m, d))] when keep)"""
    days, keep = args
    core.use_repo()
    from ckl.date import to_oa_date, to_date
    fails = []
    impl = []
    cnt = 0
    for n in days:
        d = ref_date(n)
        dt = datetime.datetime(d.year, d.month, d.day)
        cnt += 1
        try:
            oa = to_oa_date(dt)
            back = to_date(n)
            back_f = to_date(float(n))
        except Exception as e:  # noqa
            fails.append(("exception", n, f"{type(e).__name__}: {e}"))
            continue
        if keep:
            impl.append((n, oa, (back.year, back.month, back.day)))
        if oa != n:
            fails.append(("to_oa_date", n, repr(oa)))
        if back != dt or back_f != dt:
            fails.append(("to_date", n, f"{back} / {back_f}"))
        if len(fails) > 20:
            break
    return cnt, fails, impl


def boundary_days():
    out = set()
    for y in range(1900, 10000):
        for (m, d) in ((1, 1), (1, 2), (2, 28), (3, 1), (12, 30), (12, 31), (6, 30), (7, 1)):
            out.add(ref_oa(datetime.date(y, m, d)))
        try:
            out.add(ref_oa(datetime.date(y, 2, 29)))
        except ValueError:
            pass
    return sorted(out)


def evaluator_correspondence(ctx):
    import random
    import sys as _sys
    from harness import session, validate_c17eval as VE
    if not ctx.build.ok:
        return
    progs = VE.gen(ctx.seed if hasattr(ctx, "seed") else 1)
    rnd = random.Random(1)
    if not ctx.thorough:
        progs = rnd.sample(progs, min(len(progs), 1200))
    old = _sys.get_int_max_str_digits()
    _sys.set_int_max_str_digits(0)
    try:
        outs, whyfail = session.run_lib_sessions([[src] for _, src in progs], legacy=True, fuel=60000)
        if outs is None:
            ctx.count("evaluator_date_programs_libsetup_failed")
            return
        impl = session.ImplSession(legacy=True)
        try:
            for k, (g, src) in enumerate(progs):
                impl.it.environment.map.clear()
                out, printed, _ = impl.run(src, limit=20)
                m = outs[k][0]
                ctx.seen(("evalprog", src), nontrivial=True)
                ctx.count("evaluator_date_programs")
                if m[0][0] == 'fail':
                    ctx.count("evaluator_date_programs_model_abstains")
                    continue
                d = session.compare((out, printed, ()), (m[0], m[1], ()), check_line=True)
                if d:
                    ctx.disagreements += 1
                    ctx.violation("correspondence", f"`{src}`: {d}", {"op": "program", "src": src, "correspondence": "Ckl.callDate / nativeAdd / nativeSub (date arithmetic in the evaluator model) vs FuncAdd / FuncSub / FuncDate / FuncInt"})
        finally:
            impl.close()
    finally:
        _sys.set_int_max_str_digits(old)


def run(ctx):
    from ckl.date import to_oa_date, to_date
    from ckl import values as V
    rng = ctx.rng
    first, last = ref_oa(datetime.date(1900, 1, 1)), ref_oa(datetime.date(9999, 12, 31))
    assert first == 2
    ctx.rule = ("quick: first/last day and the days around 28 Feb/29 Feb/1 Mar, 30 Jun, 31 Dec of every year 1900-9999, a stride "
                "sample of all days, all 86400 seconds of sample days, day arithmetic with offsets from a stride set on midnight dates and on dates with a time of day; thorough: every "
                "calendar day 1900-01-01..9999-12-31; non-trivial = a day adjacent to a month/year boundary or a time != 00:00:00")
    # ---------------- conversions on the implementation vs datetime.date ordinals
    days = boundary_days()
    ctx.count("boundary_days", len(days))
    fails = []
    impl_days = {}
    if ctx.thorough:
        chunks = [(range(lo, min(lo + 20000, last + 1)), False) for lo in range(first, last + 1, 20000)]
        ctx.exhaustive = True
    else:
        stride = 997
        off = rng.randrange(stride)
        chunks = [(range(first + off + k * 200000, min(first + off + (k + 1) * 200000, last + 1), stride), False) for k in range(15)]
    chunks += [(days[i:i + 2000], True) for i in range(0, len(days), 2000)]
    with mp.Pool(16) as pool:
        for cnt, f, impl in pool.imap_unordered(_check_days, chunks):
            ctx.evaluations += cnt
            fails += f
            for n, oa, ymd in impl:
                impl_days[n] = (oa, ymd)
    for n in days:
        ctx.nontrivial.add(hash(("day", n)))
    for kind, n, got in fails[:30]:
        d = ref_date(n)
        ctx.violation("oracle", f"{kind}: day number {n} is {d.isoformat()}, the implementation gives {got}",
                      {"op": kind, "n": n, "date": d.isoformat()})
    # ---------------- time of day: every second of sample days (to the second)
    sample_days = [ref_oa(datetime.date(1900, 1, 1)), ref_oa(datetime.date(1999, 12, 31)), ref_oa(datetime.date(2024, 2, 29))]
    if ctx.thorough:
        sample_days += [ref_oa(datetime.date(9999, 12, 31)), ref_oa(datetime.date(2100, 3, 1))]
    bad = 0
    for n in sample_days:
        d = ref_date(n)
        base = datetime.datetime(d.year, d.month, d.day)
        step = 1 if (ctx.thorough or n < 10) else 13
        for s in range(0, 86400, step):
            x = base + datetime.timedelta(seconds=s)
            ctx.seen(("sec", n, s), nontrivial=s != 0)
            try:
                y = to_date(to_oa_date(x))
            except Exception as e:  # noqa
                y = f"{type(e).__name__}: {e}"
            if y != x:
                bad += 1
                if bad <= 5:
                    ctx.violation("oracle", f"time of day: {x} converts to a day number and back to {y}",
                                  {"op": "time-roundtrip", "datetime": x.isoformat()})
    # ---------------- through the language: int(date) / date(number) / + / -
    it, _ = common.fresh_interpreter(True, False)
    env = it.environment
    offsets = [0, 1, -1, 2, 27, 28, 29, 30, 31, 59, 60, 365, 366, -365, -366, 1461, 36524, 36525, 146097, -146097, 1000000]
    picks = rng.sample(days, 300 if ctx.thorough else 60) + [first, first + 1, last, last - 1]
    # ... and the same laws for dates with a time of day (to the second)
    for n in rng.sample(days, 400 if ctx.thorough else 80) + [first, last - 1, last - 2, last]:
        d = ref_date(n)
        h, mi, sec = rng.choice([(6, 3, 53), (23, 59, 59), (0, 0, 1), (12, 0, 0), (rng.randrange(24), rng.randrange(60), rng.randrange(60))])
        x = datetime.datetime(d.year, d.month, d.day, h, mi, sec)
        env.put("d", V.ValueDate(x))
        for k in rng.sample(offsets, 6):
            if not (first <= n + k <= last):
                continue
            env.put("k", V.ValueInt(k))
            t = x + datetime.timedelta(days=k)
            for src, want in [("(d + k) - d", str(k)), ("d - (d + k)", str(-k)), ("(d + k) - k == d", "TRUE"), ("(d - k) + k == d", "TRUE") if first <= n - k <= last - 1 else ("1", "1"),
                              ("string(d + k)", "'" + t.strftime("%Y%m%d%H%M%S") + "'") if t.year >= 1000 else ("1", "1"),
                              ("int(d + k) == int(d) + k", "TRUE"), ("date(decimal(d)) == d", "TRUE"), ("(d + k) - (d + k) ", "0")]:
                out = common.run_program(it, src)
                ctx.seen(("arith-time", n, (h, mi, sec), k, src), nontrivial=True)
                if out[:2] != ('val', want):
                    ctx.violation("oracle", f"`{src}` with d={x.isoformat()}, k={k} gives {out[:3]}, expected {want}",
                                  {"op": "program", "src": src, "d": x.isoformat(), "k": k})
    # conversions of dates with a time of day, first and last representable day included
    for n in [first, last, last - 1, first + 1] + rng.sample(days, 200 if ctx.thorough else 40):
        d = ref_date(n)
        for h, mi, sec in [(23, 59, 59), (0, 0, 1), (12, 0, 0), (rng.randrange(24), rng.randrange(60), rng.randrange(60))]:
            x = datetime.datetime(d.year, d.month, d.day, h, mi, sec)
            env.put("d", V.ValueDate(x))
            env.put("n", V.ValueInt(n))
            for src, want in [("date(decimal(d)) == d", "TRUE"), ("int(d) == n", "TRUE"), ("date(int(d)) == date(n)", "TRUE"), ("decimal(d) > n", "TRUE"),
                              ("decimal(d) < n + 1", "TRUE"), ("string(date(decimal(d)))", "'" + x.strftime("%Y%m%d%H%M%S") + "'") if d.year >= 1000 else ("1", "1")]:
                out = common.run_program(it, src)
                ctx.seen(("conv-time", n, (h, mi, sec), src), nontrivial=True)
                if out[:2] != ('val', want):
                    ctx.violation("oracle", f"`{src}` with d={x.isoformat()} (day number {n}) gives {out[:3]}, expected {want}",
                                  {"op": "program", "src": src, "d": x.isoformat(), "n": n})
    for n in picks:
        d = ref_date(n)
        dv = V.ValueDate(datetime.datetime(d.year, d.month, d.day))
        env.put("d", dv)
        env.put("n", V.ValueInt(n))
        progs = [("int(d)", str(n)), ("string(date(n))", "'" + d.strftime("%Y%m%d") + "000000'") if d.year >= 1000 else None,
                 ("date(int(d)) == d", "TRUE"), ("int(date(n)) == n", "TRUE"), ("date(decimal(d)) == d", "TRUE"),
                 ("decimal(d) == n", "TRUE"), ("type(int(d))", "'int'")]
        for k in rng.sample(offsets, 5):
            if first <= n + k <= last:
                env.put("k", V.ValueInt(k))
                t = ref_date(n + k)
                progs += [("(d + k) - k == d", "TRUE"), ("(d + k) - d == k", "TRUE"), ("int(d + k) == n + k", "TRUE"),
                          ("string(d + k)", "'" + t.strftime("%Y%m%d") + "000000'"), ("type((d + k) - d)", "'int'"),
                          ("d - (0 - k) == d + k", "TRUE"), ("string((d + k) - d)", "'" + str(k) + "'")]
                for src, want in progs[-7:]:
                    out = common.run_program(it, src)
                    ctx.seen(("arith", n, k, src))
                    if out[:2] != ('val', want):
                        ctx.violation("oracle", f"`{src}` with d={d.isoformat()}, k={k} gives {out[:3]}, expected {want}",
                                      {"op": "program", "src": src, "d": d.isoformat(), "n": n, "k": k})
                progs = progs[:-7]
        for p in progs:
            if p is None:
                continue
            src, want = p
            out = common.run_program(it, src)
            ctx.seen(("conv", n, src))
            if out[:2] != ('val', want):
                ctx.violation("oracle", f"`{src}` with d={d.isoformat()}, n={n} gives {out[:3]}, expected {want}",
                              {"op": "program", "src": src, "d": d.isoformat(), "n": n})
    # ---------------- correspondence: model toOaDay / toDate / nextDay vs the implementation
    if ctx.build.ok:
        mdays = days
        reqs = []
        for n in mdays:
            d = ref_date(n)
            reqs.append(f"(date tooa {d.year} {d.month} {d.day})")
            reqs.append(f"(date todate {n})")
            reqs.append(f"(date next {d.year} {d.month} {d.day})")
        resp = core.run_driver(reqs)
        for i, n in enumerate(mdays):
            d = ref_date(n)
            ctx.count("model_days")
            impl_oa, impl_dt = impl_days.get(n, (None, None))
            nx = ref_date(n + 1) if n < last else None
            m_oa = int(proto.parse_sx(resp[3 * i])[1])
            m_dt = tuple(int(x) for x in proto.parse_sx(resp[3 * i + 1])[1])
            m_next = tuple(int(x) for x in proto.parse_sx(resp[3 * i + 2])[1])
            if m_oa != impl_oa or m_dt != impl_dt or (nx is not None and m_next != (nx.year, nx.month, nx.day)):
                ctx.disagreements += 1
                ctx.violation("correspondence", f"day {n} ({d.isoformat()}): model toOaDay={m_oa} toDate={m_dt} next={m_next}; implementation {impl_oa} {impl_dt}",
                              {"op": "date-model", "n": n, "correspondence": "Ckl.Date.toOaDay/toDate/nextDay vs ckl.date"})
        # milliseconds model vs the implementation's float arithmetic
        reqs, metas = [], []
        for _ in range(2000 if ctx.thorough else 400):
            h, mi, s, ms = rng.randrange(24), rng.randrange(60), rng.randrange(60), rng.choice([0, 0, 1, 500, 999, rng.randrange(1000)])
            reqs.append(f"(date millis {h} {mi} {s} {ms})")
            metas.append((h, mi, s, ms))
        resp = core.run_driver(reqs)
        base = datetime.datetime(2024, 2, 29)
        for (h, mi, s, ms), r in zip(metas, resp):
            t = int(proto.parse_sx(r)[1])
            x = base.replace(hour=h, minute=mi, second=s, microsecond=ms * 1000)
            y = to_date(to_oa_date(x))
            got = ((y.hour * 60 + y.minute) * 60 + y.second) * 1000 + y.microsecond // 1000
            ctx.count("model_millis")
            if got != t or y.date() != x.date():
                ctx.disagreements += 1
                ctx.violation("correspondence", f"time {x.time()} -> model {t} ms, implementation {got} ms",
                              {"op": "millis-model", "time": str(x.time()), "correspondence": "Ckl.Date.toMillis vs ckl.date float arithmetic"})
    # ---------------- date - date: the model's whole-day difference on exact stamps vs the implementation's operator
    if ctx.build.ok:
        reqs, metas = [], []
        for _ in range(3000 if ctx.thorough else 600):
            n1 = rng.choice(days) if rng.random() < 0.5 else rng.randrange(first, last + 1)
            n2 = n1 + rng.choice([0, 0, 1, -1, 2, 365, -366, 1000, rng.randrange(-40000, 40000)]) if rng.random() < 0.7 else rng.randrange(first, last + 1)
            if not (first <= n2 <= last):
                continue
            d1, d2 = ref_date(n1), ref_date(n2)
            t1 = rng.choice([0, 1000, 86399000, 43200000, rng.randrange(86400) * 1000])
            t2 = rng.choice([t1, 0, 1000, 86399000, rng.randrange(86400) * 1000])
            reqs.append(f"(date diff {d1.year} {d1.month} {d1.day} {t1} {d2.year} {d2.month} {d2.day} {t2})")
            metas.append((d1, t1, d2, t2))
        resp = core.run_driver(reqs)
        for (d1, t1, d2, t2), r in zip(metas, resp):
            x1 = datetime.datetime(d1.year, d1.month, d1.day) + datetime.timedelta(milliseconds=t1)
            x2 = datetime.datetime(d2.year, d2.month, d2.day) + datetime.timedelta(milliseconds=t2)
            env.put("a", V.ValueDate(x1))
            env.put("b", V.ValueDate(x2))
            out = common.run_program(it, "a - b")
            m = int(proto.parse_sx(r)[1])
            # the definition: whole days between the two instants, truncated toward zero
            delta = x1 - x2
            day = datetime.timedelta(days=1)
            want = delta // day if delta >= datetime.timedelta(0) else -((-delta) // day)
            ctx.count("model_date_differences")
            ctx.seen(("diff", x1, x2), nontrivial=t1 != t2 or d1 != d2)
            if out[:2] != ('val', str(want)):
                ctx.violation("oracle", f"`a - b` with a={x1.isoformat()}, b={x2.isoformat()} gives {out[:2]}, the whole days between them are {want}",
                              {"op": "program", "src": "a - b", "a": x1.isoformat(), "b": x2.isoformat()})
            if m != want or out[:2] != ('val', str(m)):
                ctx.disagreements += 1
                ctx.violation("correspondence", f"a={x1.isoformat()}, b={x2.isoformat()}: model diffDays = {m}, implementation {out[:2]}",
                              {"op": "date-diff", "a": x1.isoformat(), "b": x2.isoformat(), "correspondence": "Ckl.Date.diffDays on stamps vs FuncSub on dates"})
    ctx.sample({"day_number": 25569, "date": "1970-01-01"})
    ctx.sample({"program": "(d + k) - k == d", "d": "2024-02-29", "k": 366})
    ctx.sample({"boundary_days_checked": len(days)})
    # ---------------- date programs on the model EVALUATOR (date + n, date - n, date - date, int(date), date(int), date('yyyymmdd…'),
    # comparisons; first / last days of years, large and negative offsets, times of day) on the real base environment vs the implementation
    evaluator_correspondence(ctx)
    common.replay_known(ctx)


def replay(ctx, payload):
    return common.generic_replay(ctx, payload)
