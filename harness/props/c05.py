"""C05 Errors reach the nearest matching handler and finally runs exactly once."""
from harness import progcheck
from harness.props import common


def run(ctx):
    ctx.rule = ("generated nests (depth <= 4) of do/catch/finally blocks inside functions and loops with user errors of every data kind and runtime errors injected at varying statement positions, handlers and finally parts that themselves raise or return; in-program event log; non-trivial = >= 2 nested blocks with a raise site below a handler or finally; each program is run on the implementation, on a reference interpreter written from the language rules "
                "(value + printed trace must match) and on the Lean model evaluator")
    progcheck.run_profiles(ctx, ["errors", "mixed"], 3000 if ctx.thorough else 500)
    common.replay_known(ctx)


def replay(ctx, payload):
    return common.generic_replay(ctx, payload)
