/-
  C14 / C20 (parser half) — simulation lemmas, part B: primary expressions and the list / set /
  map / object literals and comprehensions.
-/
import CklVerif.Lemmas.C14ParseHyp
namespace Ckl.C14P
open Ckl Ckl.Parser

local notation "kw" => (some TokType.keyword)
local notation "ip" => (some TokType.interpunction)
local notation "op" => (some TokType.operator)
local notation "idt" => (some TokType.identifier)

set_option linter.unusedSimpArgs false
set_option linter.unusedVariables false

variable {f : Pos → Pos}

theorem sim_pPrimary {c c' : Ctx} {st st' : St} (um : Bool) (H : Hyp f (st.toks.length * 16 + 1))
    (hc : CRel f c c') (hs : SRel f st st') : ERel f (OLt f (NR f)) (pPrimary c um st) (pPrimary c' um st') := by
  rw [pPrimary, pPrimary]
  simp only [hasNext_rel hs, hs.prev]
  bif hb : (!st.hasNext)
  · exact errEof_rel rfl
  · ebind (next_rel hc hs) with t s1 h1 s1' h1' hs1
    simp only [tokMap_value, tokMap_type, tokMap_pos, tokRepr_map]
    bif hp : (t.value == c!"(" && t.type == .interpunction)
    · ebind (H.pBareBlock false hc hs1 (by omega)) with r s2 h2 s2' h2' hs2
      sbind (expect_rel hs2 _ _) with s3 h3 s3' h3' hs3
      ebind (H.postfixLoop true true hc hs3 rfl (by omega)) with r' s4 h4 s4' h4' hs4
      exact ⟨rfl, hs4⟩
    · have hkw : ERel f (OLt f (NR f))
          (if (t.value == c!"do" && t.type == .keyword) = true then pBlock c st else leLt h1 (pPrimaryKw c t s1))
          (if (t.value == c!"do" && t.type == .keyword) = true then pBlock c' st'
            else leLt h1' (pPrimaryKw c' (tokMap f t) s1')) := by
        bif hd : (t.value == c!"do" && t.type == .keyword)
        · exact H.pBlock hc hs (by omega)
        · exact ERel_leLt (H.pPrimaryKw t hc hs1 (by omega))
      obtain ⟨tv, tty, tp⟩ := t
      cases tty <;> dsimp only at hkw ⊢
      case identifier =>
        mif hs1 c!"=" op with s2 h2 s2' h2' hs2
        · mtab (matchOpTable_cases hs1 compoundOps) with fn s2 h2 s2' h2' hs2
          · exact ERel_leLt (H.postfixLoop true true hc hs1 (by simp [NR, mapPos]) (by omega))
          · ebind (H.pExpression hc hs2 (by omega)) with v s3 h3 s3' h3' hs3
            refine ERel.bind (mkAssign_rel' _ _ (by simp [NR, mapPos, mapPos_funcCallAB])) ?_
            rintro n _ rfl
            exact ⟨rfl, hs3⟩
        · ebind (H.pExpression hc hs2 (by omega)) with e s3 h3 s3' h3' hs3
          refine ERel.bind (mkAssign_rel' _ _ rfl) ?_
          rintro n _ rfl
          exact ⟨rfl, hs3⟩
      case string =>
        exact ERel_leLt (H.postfixLoop false true hc hs1 (by simp [NR, mapPos_strLit]) (by omega))
      case int =>
        cases parseIntLit tv with
        | none => exact mkErr_rel f _ _
        | some n =>
          exact ERel_leLt (H.postfixLoop false false hc hs1 (by simp [NR, mapPos]) (by omega))
      case decimal =>
        rcases parseDecimal tv with _ | ⟨m, e⟩
        · exact mkErr_rel f _ _
        · exact ERel_leLt (H.postfixLoop false false hc hs1 (by simp [NR, mapPos]) (by omega))
      case boolean =>
        exact ERel_leLt (H.postfixLoop false false hc hs1 (by simp [NR, mapPos]) (by omega))
      case pattern =>
        simp only [hc.validRe]
        bif hv : c.validRe ((tv.take (tv.length - 2)).drop 2)
        · exact ERel_leLt (H.postfixLoop false false hc hs1 (by simp [NR, mapPos]) (by omega))
        · exact mkErr_rel f _ _
      case keyword => exact hkw
      case operator => exact hkw
      case interpunction => exact hkw

theorem sim_pPrimaryKw {c c' : Ctx} {st st' : St} (t : Token) (H : Hyp f (st.toks.length * 16 + 15))
    (hc : CRel f c c') (hs : SRel f st st') :
    ERel f (OLe f (NR f)) (pPrimaryKw c t st) (pPrimaryKw c' (tokMap f t) st') := by
  rw [pPrimaryKw, pPrimaryKw]
  simp only [tokMap_value, tokMap_type, tokMap_pos, tokRepr_map, peekn_rel hs]
  bif h1 : (t.type == .keyword)
  · bif h2 : (t.value == c!"fn")
    · exact ERel_ltLe (H.pFn _ hc hs (by omega))
    bif h3 : (t.value == c!"break")
    · exact ⟨by simp [NR, mapPos], hs⟩
    bif h4 : (t.value == c!"continue")
    · exact ⟨by simp [NR, mapPos], hs⟩
    bif h5 : (t.value == c!"return")
    · bif hp : st.peekn 1 c!";" ip
      · exact ⟨by simp [NR, mapPos], hs⟩
      · ebind (H.pExpression hc hs (by omega)) with e s1 h1 s1' h1' hs1
        exact ⟨by simp [NR, mapPos], hs1⟩
    bif h6 : (t.value == c!"error")
    · ebind (H.pExpression hc hs (by omega)) with e s1 h1 s1' h1' hs1
      exact ⟨by simp [NR, mapPos], hs1⟩
    · exact mkErr_rel f _ _
  bif h2 : (t.type == .interpunction)
  · bif h3 : (t.value == c!"[")
    · ebind (H.pListLiteral _ hc hs (by omega)) with r s1 h1 s1' h1' hs1
      simp only [peekn_rel hs1]
      bif hp : s1.peekn 1 c!"=" op
      · cases r with
        | list items p =>
          simp only [mapPos, identNames_map]
          cases identNames items with
          | error x => exact mkErr_rel f _ _
          | ok names =>
            dsimp only
            sbind (expect_rel hs1 _ _) with s2 h2 s2' h2' hs2
            ebind (H.pExpression hc hs2 (by omega)) with e s3 h3 s3' h3' hs3
            refine ERel.bind (mkAssignD_rel' _ _ rfl) ?_
            rintro n _ rfl
            exact ⟨rfl, hs3⟩
        | _ => simp only [mapPos]; exact mkErr_rel f _ _
      · exact ⟨rfl, hs1⟩
    bif h4 : (t.value == c!"<<")
    · exact ERel_ltLe (H.pSetLiteral _ hc hs (by omega))
    bif h5 : (t.value == c!"<<<")
    · exact ERel_ltLe (H.pMapLiteral _ hc hs (by omega))
    bif h6 : (t.value == c!"<*")
    · exact ERel_ltLe (H.pObjectLiteral _ hc hs (by omega))
    bif h7 : (t.value == c!"...")
    · ebind (next_rel hc hs) with t2 s1 h1 s1' h1' hs1
      simp only [tokMap_value, tokMap_type, tokMap_pos, tokRepr_map]
      bif h8 : (t2.value == c!"[" && t2.type == .interpunction)
      · ebind (H.pListLiteral _ hc hs1 (by omega)) with r s2 h2 s2' h2' hs2
        exact ⟨by simp [NR, mapPos], hs2⟩
      bif h9 : (t2.value == c!"<<<" && t2.type == .interpunction)
      · ebind (H.pMapLiteral _ hc hs1 (by omega)) with r s2 h2 s2' h2' hs2
        exact ⟨by simp [NR, mapPos], hs2⟩
      bif h10 : (t2.type == .identifier)
      · exact ⟨by simp [NR, mapPos], hs1⟩
      · exact mkErr_rel f _ _
    · exact mkErr_rel f _ _
  · exact mkErr_rel f _ _

theorem sim_pListLiteral {c c' : Ctx} {st st' : St} (tpos : Pos) (H : Hyp f (st.toks.length * 16 + 11))
    (hc : CRel f c c') (hs : SRel f st st') :
    ERel f (OLt f (NR f)) (pListLiteral c tpos st) (pListLiteral c' (f tpos) st') := by
  rw [pListLiteral, pListLiteral]
  mif hs c!"]" ip with s1 h1 s1' h1' hs1
  · ebind (H.pExpression hc hs (by omega)) with e s1 h1 s1' h1' hs1
    mif hs1 c!"for" kw with s2 h2 s2' h2' hs2
    · ebind (H.listLoop (pending := some e) hc hs1 rfl (by omega)) with items s2 h2 s2' h2' hs2
      sbind (expect_rel hs2 _ _) with s3 h3 s3' h3' hs3
      ebind (H.postfixLoop false true hc hs3 (by simp [NR, mapPos]) (by omega)) with r s4 h4 s4' h4' hs4
      exact ⟨rfl, hs4⟩
    · ebind (H.pComprRest .list true c!"]" tpos hc hs2 rfl (by simp [NR, mapPos]) (by omega)) with
        r s3 h3 s3' h3' hs3
      exact ⟨rfl, hs3⟩
  · exact ERel_leLt (H.postfixLoop false true hc hs1 (by simp [NR, mapPos]) (by omega))

theorem sim_listLoop {c c' : Ctx} {st st' : St} {items items' : List Node} {pending : Option Node}
    (H : Hyp f (st.toks.length * 16 + 0)) (hc : CRel f c c') (hs : SRel f st st') (hi : LR f items items') :
    ERel f (OLe f (LR f)) (listLoop c st items pending) (listLoop c' st' items' (pending.map (mapPos f))) := by
  rw [listLoop, listLoop]
  subst hi
  simp only [peekn_rel hs]
  bif hb : st.peekn 1 c!"]" ip
  · exact ⟨by cases pending <;> simp [LR], hs⟩
  · sbind (expect_rel hs _ _) with s1 h1 s1' h1' hs1
    simp only [peekn_rel hs1]
    bif hb2 : s1.peekn 1 c!"]" ip
    · exact ⟨by cases pending <;> simp [LR, mapPos], hs1⟩
    · ebind (H.pExpression hc hs1 (by omega)) with e s2 h2 s2' h2' hs2
      ebind (H.listLoop (pending := some e) hc hs2 (by cases pending <;> simp [LR, mapPos]) (by omega)) with
        r s3 h3 s3' h3' hs3
      exact ⟨rfl, hs3⟩

theorem sim_comprClause {c c' : Ctx} {st st' : St} (H : Hyp f (st.toks.length * 16 + 0))
    (hc : CRel f c c') (hs : SRel f st st') : ERel f (OLt f (CCR f)) (comprClause c st) (comprClause c' st') := by
  rw [comprClause, comprClause]
  ebind (matchIdentifier_rel hs) with name s1 h1 s1' h1' hs1
  sbind (expect_rel hs1 _ _) with s2 h2 s2' h2' hs2
  mwhat hs2 with what s3 h3 s3' h3' hs3
  ebind (H.pOr hc hs3 (by omega)) with l s4 h4 s4' h4' hs4
  exact ⟨rfl, hs4⟩

theorem sim_comprFinish {c c' : Ctx} {st st' : St} {mk mk' : Node → Node} (closer : List Char)
    (H : Hyp f (st.toks.length * 16 + 0)) (hc : CRel f c c') (hs : SRel f st st') (hm : MkR f mk mk') :
    ERel f (OLt f (NR f)) (comprFinish c mk closer st) (comprFinish c' mk' closer st') := by
  rw [comprFinish, comprFinish]
  ebindr (OLe f (NR f)) with cond s1 h1 s1' h1' hs1
  · mif hs c!"if" kw with s h s' h' hs'
    · exact ⟨rfl, hs⟩
    · exact ERel_ltLe (H.pOr hc hs' (by omega))
  sbind (expect_rel hs1 _ _) with s2 h2 s2' h2' hs2
  ebind (H.postfixLoop false true hc hs2 (hm cond) (by omega)) with r s3 h3 s3' h3' hs3
  exact ⟨rfl, hs3⟩

theorem sim_pComprRest {c c' : Ctx} {st st' : St} {v v' ke ke' : Node} (kind : ComprKind) (multi : Bool)
    (closer : List Char) (tpos : Pos) (H : Hyp f (st.toks.length * 16 + 1)) (hc : CRel f c c')
    (hs : SRel f st st') (hv : NR f v v') (hk : NR f ke ke') :
    ERel f (OLt f (NR f)) (pComprRest c kind multi closer tpos v ke st)
      (pComprRest c' kind multi closer (f tpos) v' ke' st') := by
  rw [pComprRest, pComprRest]
  subst hv hk
  ebind (H.comprClause hc hs (by omega)) with r1 s1 h1 s1' h1' hs1
  obtain ⟨id1, what1, l1⟩ := r1
  dsimp only
  mifg multi hs1 c!"for" kw with s2 h2 s2' h2' hs2
  · mifg2 multi hs1 c!"also" kw c!"for" kw with s2 h2 s2' h2' hs2
    · ebind (H.comprFinish closer hc hs1 (by intro n; simp [mapPos]) (by omega)) with r s4 h4 s4' h4' hs4
      exact ⟨rfl, hs4⟩
    · ebind (H.comprClause hc hs2 (by omega)) with r2 s3 h3 s3' h3' hs3
      obtain ⟨id2, what2, l2⟩ := r2
      dsimp only
      ebind (H.comprFinish closer hc hs3 (by intro n; simp [mapPos]) (by omega)) with r s4 h4 s4' h4' hs4
      exact ⟨rfl, hs4⟩
  · ebind (H.comprClause hc hs2 (by omega)) with r2 s3 h3 s3' h3' hs3
    obtain ⟨id2, what2, l2⟩ := r2
    dsimp only
    ebind (H.comprFinish closer hc hs3 (by intro n; simp [mapPos]) (by omega)) with r s4 h4 s4' h4' hs4
    exact ⟨rfl, hs4⟩

theorem sim_pSetLiteral {c c' : Ctx} {st st' : St} (tpos : Pos) (H : Hyp f (st.toks.length * 16 + 11))
    (hc : CRel f c c') (hs : SRel f st st') :
    ERel f (OLt f (NR f)) (pSetLiteral c tpos st) (pSetLiteral c' (f tpos) st') := by
  rw [pSetLiteral, pSetLiteral]
  mif hs c!">>" ip with s1 h1 s1' h1' hs1
  · ebind (H.pExpression hc hs (by omega)) with e s1 h1 s1' h1' hs1
    mif hs1 c!"for" kw with s2 h2 s2' h2' hs2
    · sbind (sepUnless_rel hs1 _) with s2 h2 s2' h2' hs2
      ebind (H.setLoop hc hs2 rfl (by omega)) with items s3 h3 s3' h3' hs3
      sbind (expect_rel hs3 _ _) with s4 h4 s4' h4' hs4
      ebind (H.postfixLoop false true hc hs4 (by simp [NR, mapPos]) (by omega)) with r s5 h5 s5' h5' hs5
      exact ⟨rfl, hs5⟩
    · ebind (H.pComprRest .set true c!">>" tpos hc hs2 rfl (by simp [NR, mapPos]) (by omega)) with
        r s3 h3 s3' h3' hs3
      exact ⟨rfl, hs3⟩
  · exact ERel_leLt (H.postfixLoop false true hc hs1 (by simp [NR, mapPos]) (by omega))

theorem sim_setLoop {c c' : Ctx} {st st' : St} {items items' : List Node} (H : Hyp f (st.toks.length * 16 + 11))
    (hc : CRel f c c') (hs : SRel f st st') (hi : LR f items items') :
    ERel f (OLe f (LR f)) (setLoop c st items) (setLoop c' st' items') := by
  rw [setLoop, setLoop]
  subst hi
  simp only [peekn_rel hs]
  bif hb : st.peekn 1 c!">>" ip
  · exact ⟨rfl, hs⟩
  · ebind (H.pExpression hc hs (by omega)) with e s1 h1 s1' h1' hs1
    sbind (sepUnless_rel hs1 _) with s2 h2 s2' h2' hs2
    ebind (H.setLoop hc hs2 (by simp [LR]) (by omega)) with r s3 h3 s3' h3' hs3
    exact ⟨rfl, hs3⟩

theorem sim_pMapLiteral {c c' : Ctx} {st st' : St} (tpos : Pos) (H : Hyp f (st.toks.length * 16 + 11))
    (hc : CRel f c c') (hs : SRel f st st') :
    ERel f (OLt f (NR f)) (pMapLiteral c tpos st) (pMapLiteral c' (f tpos) st') := by
  rw [pMapLiteral, pMapLiteral]
  mif hs c!">>>" ip with s1 h1 s1' h1' hs1
  · ebind (H.pExpression hc hs (by omega)) with k s1 h1 s1' h1' hs1
    sbind (expect_rel hs1 _ _) with s2 h2 s2' h2' hs2
    ebind (H.pExpression hc hs2 (by omega)) with v s3 h3 s3' h3' hs3
    mif hs3 c!"for" kw with s4 h4 s4' h4' hs4
    · sbind (sepUnless_rel hs3 _) with s4 h4 s4' h4' hs4
      ebind2 (H.mapLoop hc hs4 (by simp [LR, mapPos_mapKey]) (by simp [LR]) (by omega)) with
        ks vs s5 h5 s5' h5' hs5
      sbind (expect_rel hs5 _ _) with s6 h6 s6' h6' hs6
      ebind (H.postfixLoop false true hc hs6 (by simp [NR, mapPos]) (by omega)) with r s7 h7 s7' h7' hs7
      exact ⟨rfl, hs7⟩
    · ebind (H.pComprRest .map false c!">>>" tpos hc hs4 rfl rfl (by omega)) with r s5 h5 s5' h5' hs5
      exact ⟨rfl, hs5⟩
  · exact ERel_leLt (H.postfixLoop false true hc hs1 (by simp [NR, mapPos]) (by omega))

theorem sim_mapLoop {c c' : Ctx} {st st' : St} {ks ks' vs vs' : List Node} (H : Hyp f (st.toks.length * 16 + 11))
    (hc : CRel f c c') (hs : SRel f st st') (hk : LR f ks ks') (hv : LR f vs vs') :
    ERel f (OLe f (LLR f)) (mapLoop c st ks vs) (mapLoop c' st' ks' vs') := by
  rw [mapLoop, mapLoop]
  subst hk hv
  simp only [peekn_rel hs]
  bif hb : st.peekn 1 c!">>>" ip
  · exact ⟨rfl, hs⟩
  · ebind (H.pExpression hc hs (by omega)) with k s1 h1 s1' h1' hs1
    sbind (expect_rel hs1 _ _) with s2 h2 s2' h2' hs2
    ebind (H.pExpression hc hs2 (by omega)) with v s3 h3 s3' h3' hs3
    sbind (sepUnless_rel hs3 _) with s4 h4 s4' h4' hs4
    ebind (H.mapLoop hc hs4 (by simp [LR, mapPos_mapKey]) (by simp [LR]) (by omega)) with r s5 h5 s5' h5' hs5
    exact ⟨rfl, hs5⟩

theorem sim_pObjectLiteral {c c' : Ctx} {st st' : St} (tpos : Pos) (H : Hyp f (st.toks.length * 16 + 1))
    (hc : CRel f c c') (hs : SRel f st st') :
    ERel f (OLt f (NR f)) (pObjectLiteral c tpos st) (pObjectLiteral c' (f tpos) st') := by
  rw [pObjectLiteral, pObjectLiteral]
  ebind2 (H.objLoop [] hc hs rfl (by omega)) with ks vs s1 h1 s1' h1' hs1
  sbind (expect_rel hs1 _ _) with s2 h2 s2' h2' hs2
  ebind (H.postfixLoop false true hc hs2 (by simp [NR, mapPos]) (by omega)) with r s3 h3 s3' h3' hs3
  exact ⟨rfl, hs3⟩

theorem sim_objLoop {c c' : Ctx} {st st' : St} {vs vs' : List Node} (ks : List String)
    (H : Hyp f (st.toks.length * 16 + 0)) (hc : CRel f c c') (hs : SRel f st st') (hv : LR f vs vs') :
    ERel f (OLe f (XLR f)) (objLoop c st ks vs) (objLoop c' st' ks vs') := by
  rw [objLoop, objLoop]
  subst hv
  simp only [peekn_rel hs]
  bif hb : st.peekn 1 c!"*>" ip
  · exact ⟨rfl, hs⟩
  · ebind (matchIdentifier_rel hs) with key s1 h1 s1' h1' hs1
    ebindr (OLt f (NR f)) with v s2 h2 s2' h2' hs2
    · simp only [peekn_rel hs1, hs1.prev]
      bif hp : s1.peekn 1 c!"(" ip
      · exact H.pFn _ hc hs1 (by omega)
      · sbind (expect_rel hs1 _ _) with sa ha sa' ha' hsa
        ebind (H.pExpression hc hsa (by omega)) with v sb hb sb' hb' hsb
        exact ⟨rfl, hsb⟩
    sbind (sepUnless_rel hs2 _) with s3 h3 s3' h3' hs3
    ebind (H.objLoop _ hc hs3 (by simp [LR]) (by omega)) with r s4 h4 s4' h4' hs4
    exact ⟨rfl, hs4⟩

end Ckl.C14P
