/-
  C19 — statistics on lists of ints (modules/stat.ckl) and `min` / `max`: the results depend only
  on the multiset of the elements.
-/
import CklVerif.Model.Lib
import CklVerif.Proofs.C07
namespace Ckl.C19
open Ckl Ckl.Lib

def intLt (a b : Int) : Bool := decide (a < b)

theorem int_strictTotal : StrictTotalOn (fun _ : Int => True) (fun a b => decide (a < b)) where
  irrefl a _ := by simp
  trans a b c _ _ _ h1 h2 := by simp at *; omega
  tri a b _ _ := by simp; omega

theorem int_strictTotalOn (xs : List Int) : StrictTotalOn (· ∈ xs) (fun a b : Int => decide (a < b)) :=
  int_strictTotal.mono (fun _ _ => trivial)

theorem sortedInts_eq_sortBy (xs : List Int) :
    sortedInts xs = sortBy (fun a b => decide (a < b)) xs :=
  C07.sortedM_id_eq_sortBy (int_strictTotalOn xs)

theorem sortedInts_perm (xs : List Int) : (sortedInts xs).Perm xs :=
  C07.sortedM_perm _ _ xs

theorem sortedInts_length (xs : List Int) : (sortedInts xs).length = xs.length :=
  (sortedInts_perm xs).length_eq

theorem sortedInts_sorted (xs : List Int) : (sortedInts xs).Pairwise (fun a b => a ≤ b) := by
  have := C07.sortedM_sorted (int_strictTotal.toWeak) id (xs := xs) (fun _ _ => trivial)
  refine this.imp ?_
  intro a b h
  simp only [id, decide_eq_false_iff_not] at h
  omega

/-- the sorted list of a permutation is the same list -/
theorem sortedInts_perm_invariant {xs ys : List Int} (hp : xs.Perm ys) : sortedInts xs = sortedInts ys := by
  rw [sortedInts_eq_sortBy, sortedInts_eq_sortBy]
  exact C07.sortBy_perm_invariant (int_strictTotalOn xs) hp

/-! ### mean -/

theorem foldl_add_eq_sum (xs : List Int) (r : Int) : xs.foldl (fun r n => r + n) r = r + xs.sum := by
  induction xs generalizing r with
  | nil => simp
  | cons x xs ih => rw [List.foldl_cons, ih, List.sum_cons]; omega

theorem meanM_eq (xs : List Int) :
    meanM xs = if xs = [] then none else some (.rat xs.sum xs.length) := by
  unfold meanM
  rw [foldl_add_eq_sum]
  cases xs with
  | nil => simp
  | cons x xs => simp

theorem sum_perm {xs ys : List Int} (hp : xs.Perm ys) : xs.sum = ys.sum := by
  have := hp.foldl_eq' (f := fun (r n : Int) => r + n) (by intros; omega) 0
  rw [foldl_add_eq_sum, foldl_add_eq_sum] at this
  omega

theorem meanM_perm {xs ys : List Int} (hp : xs.Perm ys) : meanM xs = meanM ys := by
  rw [meanM_eq, meanM_eq, sum_perm hp, hp.length_eq]
  have : xs = [] ↔ ys = [] := by
    constructor
    · intro h; subst h; exact List.perm_nil.mp hp.symm |> fun h => h
    · intro h; subst h; exact List.perm_nil.mp hp
  simp only [this]

/-! ### medians -/

theorem medianM_perm {xs ys : List Int} (hp : xs.Perm ys) : medianM xs = medianM ys := by
  unfold medianM; rw [sortedInts_perm_invariant hp]

theorem medianLowM_perm {xs ys : List Int} (hp : xs.Perm ys) : medianLowM xs = medianLowM ys := by
  unfold medianLowM; rw [sortedInts_perm_invariant hp]

theorem medianHighM_perm {xs ys : List Int} (hp : xs.Perm ys) : medianHighM xs = medianHighM ys := by
  unfold medianHighM; rw [sortedInts_perm_invariant hp]

theorem deref_natCast {α} (l : List α) (i : Nat) : Seq.deref l (i : Int) = l[i]? := by
  have h : ¬ ((i : Int) < 0) := by omega
  simp only [Seq.deref, h, if_false, Int.toNat_natCast]
  split
  · rename_i h'
    rw [List.getElem?_eq_none]
    rcases h' with h' | h'
    · exact h'.elim
    · omega
  · rfl

theorem tdiv_two_natCast (n : Nat) : Int.tdiv (n : Int) 2 = ((n / 2 : Nat) : Int) := rfl

/-- `median_high`: the element at index `len / 2` of the sorted list -/
theorem medianHighM_eq (xs : List Int) : medianHighM xs = (sortedInts xs)[xs.length / 2]? := by
  unfold medianHighM
  simp only [tdiv_two_natCast, deref_natCast, sortedInts_length]

/-- `median_low`: the element at index `(len - 1) / 2` of the sorted list (error when empty) -/
theorem medianLowM_eq (xs : List Int) :
    medianLowM xs = if xs = [] then none else (sortedInts xs)[(xs.length - 1) / 2]? := by
  unfold medianLowM
  simp only [tdiv_two_natCast, sortedInts_length]
  rw [Int.fmod_eq_emod_of_nonneg _ (by decide)]
  cases xs with
  | nil => simp [sortedInts, sortedM, Seq.deref]
  | cons x xs =>
    simp only [List.length_cons, reduceCtorEq, if_false]
    split
    · rename_i h
      have e : (((xs.length + 1) / 2 : Nat) : Int) - 1 = (((xs.length + 1 - 1) / 2 : Nat) : Int) := by omega
      rw [e, deref_natCast]
    · rename_i h
      have e : (xs.length + 1) / 2 = (xs.length + 1 - 1) / 2 := by omega
      rw [deref_natCast, e]

theorem medianM_nil : medianM [] = none := by
  simp [medianM, sortedInts, sortedM, Seq.deref]

/-- `median`, odd length: the middle element of the sorted list -/
theorem medianM_odd (xs : List Int) (h : xs.length % 2 = 1) :
    medianM xs = (sortedInts xs)[xs.length / 2]?.map NumRes.int := by
  unfold medianM
  simp only [tdiv_two_natCast, sortedInts_length]
  rw [Int.fmod_eq_emod_of_nonneg _ (by decide), if_neg (by omega), deref_natCast]

/-- `median`, even length: half the sum of the two middle elements of the sorted list (as the
    rational `(a + b) / 2` the decimal is computed from) -/
theorem medianM_even (xs : List Int) (h : xs.length % 2 = 0) (hne : xs ≠ []) :
    ∃ a b, (sortedInts xs)[xs.length / 2 - 1]? = some a ∧ (sortedInts xs)[xs.length / 2]? = some b ∧
      medianM xs = some (.rat (a + b) 2) := by
  have hpos : 0 < xs.length := List.length_pos_iff.mpr hne
  have h1 : xs.length / 2 - 1 < (sortedInts xs).length := by rw [sortedInts_length]; omega
  have h2 : xs.length / 2 < (sortedInts xs).length := by rw [sortedInts_length]; omega
  refine ⟨(sortedInts xs)[xs.length / 2 - 1], (sortedInts xs)[xs.length / 2],
    List.getElem?_eq_getElem h1, List.getElem?_eq_getElem h2, ?_⟩
  unfold medianM
  simp only [tdiv_two_natCast, sortedInts_length]
  rw [Int.fmod_eq_emod_of_nonneg _ (by decide), if_pos (by omega)]
  have e : (((xs.length) / 2 : Nat) : Int) - 1 = (((xs.length) / 2 - 1 : Nat) : Int) := by omega
  rw [e, deref_natCast, deref_natCast, List.getElem?_eq_getElem h1, List.getElem?_eq_getElem h2]

/-! ### min / max -/

theorem minIntM_spec (xs : List Int) (m : Int) :
    minIntM xs = some m ↔ m ∈ xs ∧ ∀ y ∈ xs, m ≤ y := by
  unfold minIntM
  cases hxs : xs with
  | nil => simp [minM]
  | cons a as =>
    rw [← hxs]
    have hne : xs ≠ [] := by rw [hxs]; simp
    obtain ⟨m', pre, post, h1, _, _, h4⟩ :=
      C07.minM_spec int_strictTotal.toWeak (id : Int → Int) (xs := xs) (fun _ _ => trivial) hne
    have hm' : m' ∈ xs := C07.minM_mem h1
    have h4' : ∀ y ∈ xs, m' ≤ y := by
      intro y hy
      have := h4 y hy
      simp only [id, decide_eq_false_iff_not] at this
      omega
    rw [h1]
    constructor
    · intro h; cases h; exact ⟨hm', h4'⟩
    · rintro ⟨hm, hle⟩
      have := hle m' hm'
      have := h4' m hm
      congr 1; omega

theorem maxIntM_spec (xs : List Int) (m : Int) :
    maxIntM xs = some m ↔ m ∈ xs ∧ ∀ y ∈ xs, y ≤ m := by
  unfold maxIntM
  cases hxs : xs with
  | nil => simp [maxM]
  | cons a as =>
    rw [← hxs]
    have hne : xs ≠ [] := by rw [hxs]; simp
    obtain ⟨m', pre, post, h1, _, _, h4⟩ :=
      C07.maxM_spec int_strictTotal.toWeak (id : Int → Int) (xs := xs) (fun _ _ => trivial) hne
    have hm' : m' ∈ xs := C07.maxM_mem h1
    have h4' : ∀ y ∈ xs, y ≤ m' := by
      intro y hy
      have := h4 y hy
      simp only [id, decide_eq_false_iff_not] at this
      omega
    rw [h1]
    constructor
    · intro h; cases h; exact ⟨hm', h4'⟩
    · rintro ⟨hm, hle⟩
      have := hle m' hm'
      have := h4' m hm
      congr 1; omega

theorem minIntM_nil : minIntM [] = none := rfl
theorem maxIntM_nil : maxIntM [] = none := rfl

theorem option_ext_of_iff {a b : Option Int} (h : ∀ m, a = some m ↔ b = some m) : a = b := by
  cases a with
  | none =>
    cases b with
    | none => rfl
    | some y => exact absurd ((h y).mpr rfl) (by simp)
  | some x => exact ((h x).mp rfl).symm

theorem minIntM_perm {xs ys : List Int} (hp : xs.Perm ys) : minIntM xs = minIntM ys := by
  apply option_ext_of_iff
  intro m
  rw [minIntM_spec, minIntM_spec]
  simp only [hp.mem_iff]

theorem maxIntM_perm {xs ys : List Int} (hp : xs.Perm ys) : maxIntM xs = maxIntM ys := by
  apply option_ext_of_iff
  intro m
  rw [maxIntM_spec, maxIntM_spec]
  simp only [hp.mem_iff]

end Ckl.C19
