/-
  Generic program logic over the evaluation monad for invariants that only look at the
  "bookkeeping" part of the state: the module load stack, the module cache and the ghost
  counters (`obs`).  Every primitive state change of the evaluator other than
  `ghostEnter`/`ghostFin` (block), the push/pop of `evalRequire` and the registration in
  `loadModule` keeps `obs` unchanged; an invariant is therefore given by a preorder `R` on
  states that is stable under `obs`-preserving steps and cancels a block's entry/finally pair.
  Instances: C05 (block counters), C10 (module load stack), C11 (module cache).
-/
import CklVerif.Lemmas.C05Tr
namespace Ckl.Gen
open Ckl Ckl.C05

structure Obs where
  modstack : List String
  modules : List (String × EnvId)
  ghost : Ghost

/-- the part of the state the invariants of this family look at -/
def obs (s : State) : Obs := ⟨s.modstack, s.modules, s.ghost⟩

structure Rel where
  R : State → State → Prop
  refl : ∀ s, R s s
  trans : ∀ {a b c}, R a b → R b c → R a c
  /-- steps that do not change `obs` are invisible -/
  keep : ∀ {a b c}, R a b → obs c = obs b → R a c
  /-- a block: `ghostEnter`, body and handlers, `ghostFin`, finally part -/
  block : ∀ {s0 s s1 s2 pos}, R s0 s → R (ghostEnter s pos) s1 → R (ghostFin s1 pos) s2 → R s0 s2

variable {I : Rel}

/-- postcondition on outcomes: value, runtime error, hard failure -/
def GPost {α} (I : Rel) (s0 : State) : Out α → Prop
  | .ok _ s' => I.R s0 s'
  | .err _ _ _ _ s' => I.R s0 s'
  | .fail f s' => Hard f → I.R s0 s'

structure GTr {α} (I : Rel) (s0 : State) (m : EvalM α) : Prop where
  run : ∀ s, I.R s0 s → GPost I s0 (m s)

namespace GTr
variable {α β : Type} {s0 : State}

theorem pure (a : α) : GTr I s0 (pure a : EvalM α) := ⟨fun _ h => h⟩

theorem bind {m : EvalM α} {f : α → EvalM β} (hm : GTr I s0 m) (hf : ∀ a, GTr I s0 (f a)) :
    GTr I s0 (m >>= f) := by
  refine ⟨fun s hs => ?_⟩
  have h := hm.run s hs
  rw [bind_def]
  cases hr : m s with
  | ok a s' => rw [hr] at h; exact (hf a).run s' h
  | err v msg p t s' => rw [hr] at h; exact h
  | fail k s' => rw [hr] at h; exact h

theorem getS_bind {f : State → EvalM β} (hf : ∀ s, I.R s0 s → GTr I s0 (f s)) :
    GTr I s0 (getS >>= f) := ⟨fun s hs => (hf s hs).run s hs⟩

theorem getS : GTr I s0 getS := ⟨fun _ h => h⟩

theorem setS {s' : State} (h : I.R s0 s') : GTr I s0 (setS s') := ⟨fun _ _ => h⟩

theorem modifyS {f : State → State} (hf : ∀ s, obs (f s) = obs s) : GTr I s0 (modifyS f) :=
  ⟨fun s hs => I.keep hs (hf s)⟩

theorem throwV (v : RVal) (msg : String) (pos : Pos) : GTr I s0 (throwV v msg pos : EvalM α) :=
  ⟨fun _ h => h⟩
theorem throwE (msg : String) (pos : Pos) : GTr I s0 (throwE msg pos : EvalM α) := ⟨fun _ h => h⟩
theorem failM (f : Fail) : GTr I s0 (failM f : EvalM α) := ⟨fun _ h _ => h⟩
theorem unsupported (w : String) : GTr I s0 (unsupported w : EvalM α) := failM _
theorem allocM (c : Cell) : GTr I s0 (allocM c) := ⟨fun _ h => I.keep h rfl⟩
theorem newList (xs : List RVal) : GTr I s0 (newList xs) := allocM _
theorem cellOf (v : RVal) : GTr I s0 (cellOf v) := by
  refine ⟨fun s hs => ?_⟩; unfold Ckl.cellOf; split <;> exact hs
theorem typeOf (v : RVal) : GTr I s0 (typeOf v) := ⟨fun _ h => h⟩

theorem mapM_loop {γ} (f : γ → EvalM α) (hf : ∀ x, GTr I s0 (f x)) (as : List γ) (bs : List α) :
    GTr I s0 (List.mapM.loop f as bs) := by
  induction as generalizing bs with
  | nil => exact pure _
  | cons a as ih => exact bind (hf a) (fun b => ih (b :: bs))

theorem mapM {γ} (f : γ → EvalM α) (hf : ∀ x, GTr I s0 (f x)) (as : List γ) : GTr I s0 (as.mapM f) :=
  mapM_loop f hf as []

/-- from a two-state statement to the statement relative to a reference state -/
theorem of_post {m : EvalM α} (h : ∀ s, GPost I s (m s)) (s0 : State) : GTr I s0 m := by
  refine ⟨fun s hs => ?_⟩
  have := h s
  cases hr : m s with
  | ok a s' => rw [hr] at this; exact I.trans hs this
  | err v msg p t s' => rw [hr] at this; exact I.trans hs this
  | fail k s' => rw [hr] at this; exact fun hk => I.trans hs (this hk)

end GTr

/-! ### `obs` preservation of the primitive state changes -/

theorem obs_newEnv' {s s' : State} {e l : EnvId} (h : s.newEnv e = (s', l)) : obs s' = obs s := by
  have : (s.newEnv e).1 = s' := by rw [h]
  rw [← this]; rfl

theorem obs_setF (s : State) (fuel : Nat) (e : EnvId) (n : String) (v : RVal) (s' : State)
    (h : s.setF fuel e n v = some s') : obs s' = obs s := by
  induction fuel generalizing e with
  | zero => simp [State.setF] at h
  | succ k ih =>
    simp only [State.setF] at h
    split at h
    · cases h; rfl
    · split at h
      · exact ih _ h
      · cases h

theorem obs_set {s s' : State} {e : EnvId} {n : String} {v : RVal}
    (h : s.set e n v = some s') : obs s' = obs s := obs_setF _ _ _ _ _ _ h

theorem obs_foldl {γ} (f : State → γ → State) (hf : ∀ s x, obs (f s x) = obs s) (l : List γ) (s : State) :
    obs (l.foldl f s) = obs s := by
  induction l generalizing s with
  | nil => rfl
  | cons x xs ih => exact (ih (f s x)).trans (hf s x)

theorem GTr.setS_newEnv {s0 s s' : State} {e l : EnvId} (hs : I.R s0 s)
    (h : s.newEnv e = (s', l)) : GTr I s0 (Ckl.setS s') := GTr.setS (I.keep hs (obs_newEnv' h))

theorem GTr.setS_newEnv_fst {s0 s : State} {e : EnvId} (hs : I.R s0 s) :
    GTr I s0 (Ckl.setS (s.newEnv e).fst) := GTr.setS (I.keep hs rfl)

theorem GTr.setS_set {s0 s s' : State} {e : EnvId} {n : String} {v : RVal} (hs : I.R s0 s)
    (h : s.set e n v = some s') : GTr I s0 (Ckl.setS s') := GTr.setS (I.keep hs (obs_set h))

/-! ### automation (same scheme as `tr_auto` of C05) -/

syntax "gtr_lemma" : tactic
macro_rules | `(tactic| gtr_lemma) => `(tactic| exact GTr.pure _)
macro_rules | `(tactic| gtr_lemma) => `(tactic| exact GTr.throwE _ _)
macro_rules | `(tactic| gtr_lemma) => `(tactic| exact GTr.throwV _ _ _)
macro_rules | `(tactic| gtr_lemma) => `(tactic| exact GTr.unsupported _)
macro_rules | `(tactic| gtr_lemma) => `(tactic| exact GTr.failM _)
macro_rules | `(tactic| gtr_lemma) => `(tactic| exact GTr.getS)
macro_rules | `(tactic| gtr_lemma) => `(tactic| exact GTr.allocM _)
macro_rules | `(tactic| gtr_lemma) => `(tactic| exact GTr.newList _)
macro_rules | `(tactic| gtr_lemma) => `(tactic| exact GTr.cellOf _)
macro_rules | `(tactic| gtr_lemma) => `(tactic| exact GTr.typeOf _)
macro_rules | `(tactic| gtr_lemma) => `(tactic| exact GTr.setS_newEnv (by assumption) (by assumption))
macro_rules | `(tactic| gtr_lemma) => `(tactic| exact GTr.setS_newEnv_fst (by assumption))
macro_rules | `(tactic| gtr_lemma) => `(tactic| exact GTr.setS_set (by assumption) (by assumption))

/-- side goals `obs (f s) = obs s` of `modifyS` -/
macro "gtr_side" : tactic => `(tactic| first
  | exact rfl
  | (apply obs_foldl; intro _ _; first | exact rfl | (split <;> exact rfl)))

open Lean Elab Tactic Meta in
/-- apply a hypothesis whose conclusion is a `GTr` statement (induction hypotheses) -/
elab "gtr_hyp" : tactic => withMainContext do
  let g ← getMainGoal
  let lctx ← getLCtx
  for d in lctx do
    if d.isImplementationDetail then continue
    let ty ← instantiateMVars d.type
    if ty.getForallBody.getAppFn.isConstOf ``Ckl.Gen.GTr then
      if let some gs ← observing? (withReducible (g.apply d.toExpr)) then
        replaceMainGoal gs
        return
  throwError "gtr_hyp: no applicable hypothesis"

macro "gtr_step" : tactic => `(tactic| first
  | with_reducible gtr_lemma
  | ((with_reducible apply GTr.modifyS); intro _; gtr_side)
  | gtr_hyp
  | ((with_reducible apply GTr.getS_bind); intro _ _)
  | with_reducible apply GTr.bind
  | ((with_reducible apply GTr.mapM); intro _)
  | tr_beta
  | intro _
  | split)

macro "gtr_auto" : tactic => `(tactic| repeat' gtr_step)

end Ckl.Gen
