/-
  C11 (binding part), frame logic (see C11BindFExt): the helper programs of the evaluator
  (everything that does not evaluate nodes) and the modelled built-ins only extend the state.
-/
import CklVerif.Lemmas.C11BindFExt
import CklVerif.Model.Eval
namespace Ckl.C11B
open Ckl Ckl.C05

variable {s0 : State}

/-! ### EvalBase -/

theorem FTr.bindNamed (sp : ArgSpec) (pos : Pos) (ns : List (Option String)) (vs : List RVal)
    (args : List (String × RVal)) : FTr s0 (bindNamed sp pos ns vs args) := by
  induction ns generalizing vs args with
  | nil => unfold Ckl.bindNamed; ftr_auto
  | cons n ns ih =>
    cases vs with
    | nil => unfold Ckl.bindNamed; ftr_auto
    | cons v vs => unfold Ckl.bindNamed; ftr_auto
macro_rules | `(tactic| ftr_lemma) => `(tactic| exact FTr.bindNamed _ _ _ _ _)

theorem FTr.bindPositional (sp : ArgSpec) (pos : Pos) (ns : List (Option String)) (vs : List RVal)
    (kw : Bool) (args : List (String × RVal)) (rest : List RVal) :
    FTr s0 (bindPositional sp pos ns vs kw args rest) := by
  induction ns generalizing vs kw args rest with
  | nil => unfold Ckl.bindPositional; ftr_auto
  | cons n ns ih =>
    cases vs with
    | nil => unfold Ckl.bindPositional; ftr_auto
    | cons v vs => unfold Ckl.bindPositional; ftr_auto
macro_rules | `(tactic| ftr_lemma) => `(tactic| exact FTr.bindPositional _ _ _ _ _ _ _)

theorem FTr.setArgs (ps : List String) (ns : List (Option String)) (vs : List RVal) (pos : Pos) :
    FTr s0 (setArgs ps ns vs pos) := by
  unfold Ckl.setArgs; ftr_auto
macro_rules | `(tactic| ftr_lemma) => `(tactic| exact FTr.setArgs _ _ _ _)

theorem FTr.argGet (args : List (String × RVal)) (n : String) (pos : Pos) : FTr s0 (argGet args n pos) := by
  unfold Ckl.argGet; ftr_auto
macro_rules | `(tactic| ftr_lemma) => `(tactic| exact FTr.argGet _ _ _)

theorem FTr.getIndex (v : RVal) (pos : Pos) : FTr s0 (getIndex v pos) := by
  unfold Ckl.getIndex; ftr_auto
macro_rules | `(tactic| ftr_lemma) => `(tactic| exact FTr.getIndex _ _)

theorem FTr.asStringM (v : RVal) (pos : Pos) : FTr s0 (asStringM v pos) := by
  unfold Ckl.asStringM; ftr_auto
macro_rules | `(tactic| ftr_lemma) => `(tactic| exact FTr.asStringM _ _)


/-! ### Natives.lean helpers -/

theorem FTr.floatResult (x : Float) (pos : Pos) (w : String) : FTr s0 (floatResult x pos w) := by
  unfold Ckl.floatResult; ftr_auto
macro_rules | `(tactic| ftr_lemma) => `(tactic| exact FTr.floatResult _ _ _)

theorem FTr.listItems (v : RVal) : FTr s0 (listItems v) := by
  unfold Ckl.listItems; ftr_auto
macro_rules | `(tactic| ftr_lemma) => `(tactic| exact FTr.listItems _)

theorem FTr.collAsList (c : Cell) : FTr s0 (collAsList c) := by
  unfold Ckl.collAsList; ftr_auto
macro_rules | `(tactic| ftr_lemma) => `(tactic| exact FTr.collAsList _)

theorem FTr.addSet (xs : List RVal) : FTr s0 (addSet xs) := by
  unfold Ckl.addSet; ftr_auto
macro_rules | `(tactic| ftr_lemma) => `(tactic| exact FTr.addSet _)

theorem FTr.cmpLt (a b : RVal) : FTr s0 (cmpLt a b) := by
  unfold Ckl.cmpLt; ftr_auto
macro_rules | `(tactic| ftr_lemma) => `(tactic| exact FTr.cmpLt _ _)

theorem FTr.cmpGt (a b : RVal) : FTr s0 (cmpGt a b) := by
  unfold Ckl.cmpGt; ftr_auto
macro_rules | `(tactic| ftr_lemma) => `(tactic| exact FTr.cmpGt _ _)

theorem FTr.asListArg (v : RVal) (pos : Pos) : FTr s0 (asListArg v pos) := by
  unfold Ckl.asListArg; ftr_auto
macro_rules | `(tactic| ftr_lemma) => `(tactic| exact FTr.asListArg _ _)

theorem FTr.asSetArg (v : RVal) (pos : Pos) : FTr s0 (asSetArg v pos) := by
  unfold Ckl.asSetArg; ftr_auto
macro_rules | `(tactic| ftr_lemma) => `(tactic| exact FTr.asSetArg _ _)

/-! ### Eval.lean helpers -/

theorem FTr.destructure (v : RVal) (n : Nat) (pos : Pos) : FTr s0 (destructure v n pos) := by
  unfold Ckl.destructure; ftr_auto
macro_rules | `(tactic| ftr_lemma) => `(tactic| exact FTr.destructure _ _ _)

theorem FTr.bindLoopVars (env : EnvId) (ids : List String) (v : RVal) (pos : Pos) :
    FTr s0 (bindLoopVars env ids v pos) := by
  unfold Ckl.bindLoopVars; ftr_auto
macro_rules | `(tactic| ftr_lemma) => `(tactic| exact FTr.bindLoopVars _ _ _ _)

theorem FTr.removeVars (env : EnvId) (ids : List String) : FTr s0 (removeVars env ids) := by
  unfold Ckl.removeVars; ftr_auto
macro_rules | `(tactic| ftr_lemma) => `(tactic| exact FTr.removeVars _ _)

theorem FTr.spreadValues (v : RVal) (pos : Pos) : FTr s0 (spreadValues v pos) := by
  unfold Ckl.spreadValues; ftr_auto
macro_rules | `(tactic| ftr_lemma) => `(tactic| exact FTr.spreadValues _ _)

theorem FTr.collectionValues (v : RVal) (w : Option String) (pos : Pos) :
    FTr s0 (collectionValues v w pos) := by
  unfold Ckl.collectionValues; ftr_auto
macro_rules | `(tactic| ftr_lemma) => `(tactic| exact FTr.collectionValues _ _ _)

theorem FTr.renameClosure (v : RVal) (n : String) : FTr s0 (renameClosure v n) := by
  unfold Ckl.renameClosure; ftr_auto
macro_rules | `(tactic| ftr_lemma) => `(tactic| exact FTr.renameClosure _ _)

theorem FTr.assignAll (env : EnvId) (xs : List String) (items : List RVal) (i : Nat) (last : RVal)
    (pos : Pos) : FTr s0 (assignAll env xs items i last pos) := by
  induction xs generalizing i last with
  | nil => unfold Ckl.assignAll; ftr_auto
  | cons x xs ih => unfold Ckl.assignAll; ftr_auto
macro_rules | `(tactic| ftr_lemma) => `(tactic| exact FTr.assignAll _ _ _ _ _ _)

theorem FTr.defAll (env : EnvId) (xs : List String) (items : List RVal) (i : Nat) (last : RVal) :
    FTr s0 (defAll env xs items i last) := by
  induction xs generalizing i last with
  | nil => unfold Ckl.defAll; ftr_auto
  | cons x xs ih => unfold Ckl.defAll; ftr_auto
macro_rules | `(tactic| ftr_lemma) => `(tactic| exact FTr.defAll _ _ _ _ _)

theorem FTr.comprResult (k : ComprKind) (out : List (RVal × RVal)) : FTr s0 (comprResult k out) := by
  unfold Ckl.comprResult; ftr_auto
macro_rules | `(tactic| ftr_lemma) => `(tactic| exact FTr.comprResult _ _)


/-! ### the modelled built-ins -/

theorem FTr.dateResM (r : DateRes) (pos : Pos) : FTr s0 (dateResM r pos) := by
  unfold Ckl.dateResM; ftr_auto
macro_rules | `(tactic| ftr_lemma) => `(tactic| exact FTr.dateResM _ _)

theorem FTr.callDate (name : String) (args : List (String × RVal)) (pos : Pos) (m : EvalM RVal)
    (h : callDate name args pos = some m) : FTr s0 m := by
  unfold Ckl.callDate at h
  split at h <;> first | (injection h with h; subst h; exact FTr.dateResM _ _) | (cases h)

theorem FTr.nativeAdd (a b : RVal) (pos : Pos) : FTr s0 (nativeAdd a b pos) := by
  unfold Ckl.nativeAdd; ftr_auto
macro_rules | `(tactic| ftr_lemma) => `(tactic| exact FTr.nativeAdd _ _ _)

theorem FTr.nativeSub (a b : RVal) (pos : Pos) : FTr s0 (nativeSub a b pos) := by
  unfold Ckl.nativeSub; ftr_auto
macro_rules | `(tactic| ftr_lemma) => `(tactic| exact FTr.nativeSub _ _ _)

theorem FTr.nativeMul (a b : RVal) (pos : Pos) : FTr s0 (nativeMul a b pos) := by
  unfold Ckl.nativeMul; ftr_auto
macro_rules | `(tactic| ftr_lemma) => `(tactic| exact FTr.nativeMul _ _ _)

theorem FTr.nativeDiv (a b : RVal) (d : Option RVal) (pos : Pos) : FTr s0 (nativeDiv a b d pos) := by
  unfold Ckl.nativeDiv; ftr_auto
macro_rules | `(tactic| ftr_lemma) => `(tactic| exact FTr.nativeDiv _ _ _ _)

theorem FTr.nativeMod (a b : RVal) (pos : Pos) : FTr s0 (nativeMod a b pos) := by
  unfold Ckl.nativeMod; ftr_auto
macro_rules | `(tactic| ftr_lemma) => `(tactic| exact FTr.nativeMod _ _ _)


/-- every modelled pure native keeps `obs` -/
theorem FTr.callPure (name : String) (args : List (String × RVal)) (d : Option RVal) (pos : Pos)
    (m : EvalM RVal) (h : callPure name args d pos = some m) : FTr s0 m := by
  unfold Ckl.callPure at h
  split at h
  all_goals first | (cases h) | (exact FTr.callDate _ _ _ _ h)
  all_goals ftr_auto


end Ckl.C11B
