import CklVerif.Lemmas.C14EvalBasic

/-! C14 (evaluator part) — idempotence of the erasure, joint case analysis of similar objects -/
namespace Ckl.C14E
open Ckl
set_option linter.unusedSimpArgs false

mutual
theorem eraseN_idem : ∀ n, eraseN (eraseN n) = eraseN n
  | .absent => rfl
  | .catchAll => rfl
  | .null x0 => by simp only [eraseN]
  | .lit x0 x1 => by simp only [eraseN]
  | .ident x0 x1 => by simp only [eraseN]
  | .and x0 x1 => by simp only [eraseN, eraseL_idem x0]
  | .or x0 x1 => by simp only [eraseN, eraseL_idem x0]
  | .not x0 x1 => by simp only [eraseN, eraseN_idem x0]
  | .assign x0 x1 x2 => by simp only [eraseN, eraseN_idem x1]
  | .assignD x0 x1 x2 => by simp only [eraseN, eraseN_idem x1]
  | .block x0 x1 x2 x3 x4 x5 => by simp only [eraseN, eraseL_idem x0, eraseL_idem x1, eraseL_idem x2, eraseL_idem x3]
  | .brk x0 => by simp only [eraseN]
  | .cont x0 => by simp only [eraseN]
  | .cls x0 x1 x2 => by simp only [eraseN, eraseL_idem x1]
  | .defn x0 x1 x2 x3 => by simp only [eraseN, eraseN_idem x1]
  | .defD x0 x1 x2 x3 => by simp only [eraseN, eraseN_idem x1]
  | .deref x0 x1 x2 x3 => by simp only [eraseN, eraseN_idem x0, eraseN_idem x1, eraseN_idem x2]
  | .derefAssign x0 x1 x2 x3 => by simp only [eraseN, eraseN_idem x0, eraseN_idem x1, eraseN_idem x2]
  | .derefInvoke x0 x1 x2 x3 x4 => by simp only [eraseN, eraseN_idem x0, eraseL_idem x3]
  | .slice x0 x1 x2 x3 => by simp only [eraseN, eraseN_idem x0, eraseN_idem x1, eraseN_idem x2]
  | .error x0 x1 => by simp only [eraseN, eraseN_idem x0]
  | .for x0 x1 x2 x3 x4 => by simp only [eraseN, eraseN_idem x1, eraseN_idem x2]
  | .call x0 x1 x2 x3 => by simp only [eraseN, eraseN_idem x0, eraseL_idem x2]
  | .ite x0 x1 x2 x3 => by simp only [eraseN, eraseL_idem x0, eraseL_idem x1, eraseN_idem x2]
  | .isIn x0 x1 x2 => by simp only [eraseN, eraseN_idem x0, eraseN_idem x1]
  | .lambda x0 x1 x2 x3 => by simp only [eraseN, eraseL_idem x1, eraseN_idem x2]
  | .list x0 x1 => by simp only [eraseN, eraseL_idem x0]
  | .compr x0 x1 x2 x3 x4 x5 x6 x7 x8 x9 x10 x11 => by simp only [eraseN, eraseN_idem x2, eraseN_idem x3, eraseN_idem x5, eraseN_idem x8, eraseN_idem x10]
  | .map x0 x1 x2 => by simp only [eraseN, eraseL_idem x0, eraseL_idem x1]
  | .object x0 x1 x2 => by simp only [eraseN, eraseL_idem x1]
  | .require x0 x1 x2 x3 x4 => by simp only [eraseN, eraseN_idem x0]
  | .ret x0 x1 => by simp only [eraseN, eraseN_idem x0]
  | .set x0 x1 => by simp only [eraseN, eraseL_idem x0]
  | .spread x0 x1 => by simp only [eraseN, eraseN_idem x0]
  | .while x0 x1 x2 => by simp only [eraseN, eraseN_idem x0, eraseN_idem x1]
theorem eraseL_idem : ∀ ns, eraseL (eraseL ns) = eraseL ns
  | [] => rfl
  | n :: ns => by simp only [eraseL, eraseN_idem n, eraseL_idem ns]
end

@[simp, ers_simp] theorem ers_ers_node (n : Node) : ers (ers n) = ers n := eraseN_idem n
@[simp, ers_simp] theorem ers_ers_nodes (ns : List Node) : List.map ers (List.map ers ns) = List.map ers ns := by
  induction ns with
  | nil => rfl
  | cons n ns ih => simp only [List.map_cons, ers_ers_node, ih]

@[ers_simp] theorem ers_ers_nodes' (ns : List Node) : ers (ers ns) = ers ns := ers_ers_nodes ns

@[simp, ers_simp] theorem ers_ers_rval : ∀ v : RVal, ers (ers v) = ers v
  | .null | .bool _ | .int _ | .dec _ _ | .str _ | .pat _ | .date _ | .ref _ | .closure _ | .native _ _
  | .brk _ | .cont _ => rfl
  | .node n => by simp
  | .ret v _ => by simp [ers_ers_rval v]

/-! ### joint case analysis -/

theorem RVal.sim_cases {v v' : RVal} (h : ers v = ers v') :
    (v = .null ∧ v' = .null) ∨ (∃ b, v = .bool b ∧ v' = .bool b) ∨ (∃ n, v = .int n ∧ v' = .int n) ∨
    (∃ m e, v = .dec m e ∧ v' = .dec m e) ∨ (∃ x, v = .str x ∧ v' = .str x) ∨ (∃ x, v = .pat x ∧ v' = .pat x) ∨
    (∃ d, v = .date d ∧ v' = .date d) ∨ (∃ a, v = .ref a ∧ v' = .ref a) ∨ (∃ a, v = .closure a ∧ v' = .closure a) ∨
    (∃ n i, v = .native n i ∧ v' = .native n i) ∨ (∃ n n', v = .node n ∧ v' = .node n' ∧ ers n = ers n') ∨
    (∃ p p', v = .brk p ∧ v' = .brk p') ∨ (∃ p p', v = .cont p ∧ v' = .cont p') ∨
    (∃ w w' p p', v = .ret w p ∧ v' = .ret w' p' ∧ ers w = ers w') := by
  cases v <;> cases v' <;> simp at h <;> simp [h]

/-- position-free values that are similar are equal -/
theorem RVal.sim_cases5 {v v' : RVal} (h : ers v = ers v') :
    v = v' ∨ (∃ n n', v = .node n ∧ v' = .node n' ∧ ers n = ers n') ∨
    (∃ p p', v = .brk p ∧ v' = .brk p') ∨ (∃ p p', v = .cont p ∧ v' = .cont p') ∨
    (∃ w w' p p', v = .ret w p ∧ v' = .ret w' p' ∧ ers w = ers w') := by
  cases v <;> cases v' <;> simp at h <;> simp [h]

theorem Option.sim_cases {α} [Ers α] {o o' : Option α} (h : ers o = ers o') :
    (o = none ∧ o' = none) ∨ (∃ a a', o = some a ∧ o' = some a' ∧ ers a = ers a') := by
  cases o <;> cases o' <;> simp at h <;> simp [h]

theorem List.sim_cases {α} [Ers α] {o o' : List α} (h : ers o = ers o') :
    (o = [] ∧ o' = []) ∨ (∃ a a' l l', o = a :: l ∧ o' = a' :: l' ∧ ers a = ers a' ∧ ers l = ers l') := by
  cases o <;> cases o' <;> simp only [ers_list, List.map_cons, List.map_nil, List.cons.injEq, reduceCtorEq] at h
  · exact Or.inl ⟨rfl, rfl⟩
  · exact Or.inr ⟨_, _, _, _, rfl, rfl, h.1, h.2⟩

theorem Prod.sim_cases {α β} [Ers α] [Ers β] {x x' : α × β} (h : ers x = ers x') :
    ∃ a b a' b', x = (a, b) ∧ x' = (a', b') ∧ ers a = ers a' ∧ ers b = ers b' := by
  obtain ⟨a, b⟩ := x
  obtain ⟨a', b'⟩ := x'
  simp only [ers_pair, Prod.mk.injEq] at h
  exact ⟨_, _, _, _, rfl, rfl, h.1, h.2⟩

theorem ProdS.sim_cases {β} [Ers β] {x x' : String × β} (h : ers x = ers x') :
    ∃ k b b', x = (k, b) ∧ x' = (k, b') ∧ ers b = ers b' := by
  obtain ⟨a, b⟩ := x
  obtain ⟨a', b'⟩ := x'
  simp only [ers_pair, Prod.mk.injEq, ers_string] at h
  obtain ⟨rfl, h⟩ := h
  exact ⟨_, _, _, rfl, rfl, h⟩

theorem map_fst_congr {β γ} [Ers β] {w w' : List (String × β)} (h : ers w = ers w') (f : String → γ) :
    w.map (fun kv => f kv.1) = w'.map (fun kv => f kv.1) := by
  have : (ers w).map (fun kv => f kv.1) = (ers w').map (fun kv => f kv.1) := by rw [h]
  simpa [List.map_map, Function.comp_def] using this

theorem Cell.sim_cases {c c' : Cell} (h : ers c = ers c') :
    (∃ xs xs', c = .list xs ∧ c' = .list xs' ∧ ers xs = ers xs') ∨
    (∃ xs xs', c = .set xs ∧ c' = .set xs' ∧ ers xs = ers xs') ∨
    (∃ xs xs', c = .map xs ∧ c' = .map xs' ∧ ers xs = ers xs') ∨
    (∃ xs xs' m, c = .obj xs m ∧ c' = .obj xs' m ∧ ers xs = ers xs') ∨
    (∃ e ps ds ds' b b' n, c = .closure e ps ds b n ∧ c' = .closure e ps ds' b' n ∧ ers ds = ers ds' ∧ ers b = ers b') := by
  cases c <;> cases c' <;>
    simp only [ers_clist, ers_cset, ers_cmap, ers_cobj, ers_cclosure, Cell.list.injEq, Cell.set.injEq, Cell.map.injEq,
      Cell.obj.injEq, Cell.closure.injEq, reduceCtorEq] at h
  · exact Or.inl ⟨_, _, rfl, rfl, h⟩
  · exact Or.inr (Or.inl ⟨_, _, rfl, rfl, h⟩)
  · exact Or.inr (Or.inr (Or.inl ⟨_, _, rfl, rfl, h⟩))
  · obtain ⟨h1, rfl⟩ := h
    exact Or.inr (Or.inr (Or.inr (Or.inl ⟨_, _, _, rfl, rfl, h1⟩)))
  · obtain ⟨rfl, rfl, h1, h2, rfl⟩ := h
    exact Or.inr (Or.inr (Or.inr (Or.inr ⟨_, _, _, _, _, _, _, rfl, rfl, h1, h2⟩)))

theorem OptCell.sim_cases {c c' : Option Cell} (h : ers c = ers c') :
    (c = none ∧ c' = none) ∨
    (∃ xs xs', c = some (.list xs) ∧ c' = some (.list xs') ∧ ers xs = ers xs') ∨
    (∃ xs xs', c = some (.set xs) ∧ c' = some (.set xs') ∧ ers xs = ers xs') ∨
    (∃ xs xs', c = some (.map xs) ∧ c' = some (.map xs') ∧ ers xs = ers xs') ∨
    (∃ xs xs' m, c = some (.obj xs m) ∧ c' = some (.obj xs' m) ∧ ers xs = ers xs') ∨
    (∃ e ps ds ds' b b' n, c = some (.closure e ps ds b n) ∧ c' = some (.closure e ps ds' b' n) ∧
      ers ds = ers ds' ∧ ers b = ers b') := by
  rcases Option.sim_cases h with ⟨rfl, rfl⟩ | ⟨a, a', rfl, rfl, h2⟩
  · exact Or.inl ⟨rfl, rfl⟩
  · right
    rcases Cell.sim_cases h2 with ⟨xs, xs', rfl, rfl, h3⟩ | ⟨xs, xs', rfl, rfl, h3⟩ | ⟨xs, xs', rfl, rfl, h3⟩ |
      ⟨xs, xs', m, rfl, rfl, h3⟩ | ⟨e, ps, ds, ds', b, b', n, rfl, rfl, h3, h4⟩
    · exact Or.inl ⟨_, _, rfl, rfl, h3⟩
    · exact Or.inr (Or.inl ⟨_, _, rfl, rfl, h3⟩)
    · exact Or.inr (Or.inr (Or.inl ⟨_, _, rfl, rfl, h3⟩))
    · exact Or.inr (Or.inr (Or.inr (Or.inl ⟨_, _, _, rfl, rfl, h3⟩)))
    · exact Or.inr (Or.inr (Or.inr (Or.inr ⟨_, _, _, _, _, _, _, rfl, rfl, h3, h4⟩)))

theorem Out.sim_cases {α} [Ers α] {o o' : Out α} (h : ers o = ers o') :
    (∃ a a' s s', o = .ok a s ∧ o' = .ok a' s' ∧ ers a = ers a' ∧ ers s = ers s') ∨
    (∃ v v' m p p' t t' s s', o = .err v m p t s ∧ o' = .err v' m p' t' s' ∧ ers v = ers v' ∧
      t.map (·.1) = t'.map (·.1) ∧ ers s = ers s') ∨
    (∃ f f' s s', o = .fail f s ∧ o' = .fail f' s' ∧ ers f = ers f' ∧ ers s = ers s') := by
  cases o <;> cases o' <;> simp only [ers_ok, ers_err, ers_fail, Out.ok.injEq, Out.err.injEq, Out.fail.injEq, reduceCtorEq] at h
  · exact Or.inl ⟨_, _, _, _, rfl, rfl, h.1, h.2⟩
  · obtain ⟨h1, rfl, -, h3, h4⟩ := h
    refine Or.inr (Or.inl ⟨_, _, _, _, _, _, _, _, _, rfl, rfl, h1, ?_, h4⟩)
    have := congrArg (List.map (·.1)) h3
    simpa [Function.comp_def] using this
  · exact Or.inr (Or.inr ⟨_, _, _, _, rfl, rfl, h.1, h.2⟩)

theorem Fail.sim_cases {f f' : Fail} (h : ers f = ers f') :
    (f = .oof ∧ f' = .oof) ∨ (∃ w w', f = .unsupported w ∧ f' = .unsupported w') ∨
    (∃ k, f = .host k ∧ f' = .host k) ∨ (∃ e, f = .syn e ∧ f' = .syn e) := by
  cases f <;> cases f' <;> simp only [ers_foof, ers_funsupported, ers_fhost, ers_fsyn, reduceCtorEq, Fail.host.injEq, Fail.syn.injEq] at h
  · exact Or.inl ⟨rfl, rfl⟩
  · exact Or.inr (Or.inl ⟨_, _, rfl, rfl⟩)
  · subst h; exact Or.inr (Or.inr (Or.inl ⟨_, rfl, rfl⟩))
  · subst h; exact Or.inr (Or.inr (Or.inr ⟨_, rfl, rfl⟩))

end Ckl.C14E
